(* C06, heap statements: `x_load` with its frame AND the stack frame: the code of x_load writes stack memory
   only into spill slots of the frame at sp (loaded variables that live in spill slots, the evacuation of
   TEMPORARY_TEMP into SPILL_TEMP), so every other stack word is unchanged (`stack_frame`, Proof/X86StackFrame.v).
   The lemmas of the dependency cone of x86_load_full (Proof/X86MemLoad.v, X86MemLoadChain.v, X86MemLoadFull.v)
   that say nothing about the stack outside the spill area are proved again (suffix _s), each with the one
   extra last conjunct `stack_frame s s' sp`:
     x86_load_field_code_ok_s, x86_load_value_ok_s, x86_load_values_rev_ok_s      (X86MemLoad.v)
     x86_load_block_ok_s, x86_lf_blk_ok_s, x86_load_fields_ok_s                   (X86MemLoadChain.v)
     x86_load_walk_full_s, x86_load_full_s                                        (X86MemLoadFull.v) *)
From Coq Require Import List ZArith NArith String Bool Lia FMapPositive.
From SCC Require Import Base.Sexp Lang.AxSyn Sem.AxSem Model.Backend Model.X86 Sem.X86Sem Generated.Constants
  Proof.X86State Proof.X86Sel Proof.X86Mem Proof.X86MemFrame Proof.X86MemStore Proof.X86MemLoad Proof.X86MemStoreChain
  Proof.X86MemLoadChain Proof.X86HeapDefs Proof.X86MemLoadFull Proof.X86StackFrame.
From SCC Require Model.Heap.
Import ListNotations.
Open Scope list_scope.
Open Scope Z_scope.

Section LoadStk.
Variable im : image.

Ltac nxt HC k := eapply steps_next; [apply (HC k); reflexivity| |].
Ltac jmp HC k := eapply steps_jump; [apply (HC k); reflexivity| |].

(* ====================================================================================== *)
(* X86MemLoad.v *)
Lemma x86_load_field_code_ok_s pos t blk off s sp p :
  code_at im pos (load_field_code t blk off) ->
  frame_ok s sp -> loc_ok t ->
  rget s blk = Some p -> heap_addr (p + off) ->
  exists s', steps im pos s (pnth pos (List.length (load_field_code t blk off))) s' /\
    lget s' sp t = Some (hword s (p + off)) /\ rget s' (held_in t) = Some (hword s (p + off)) /\
    (forall l, loc_ok l -> l <> t -> l <> XR TEMP -> lget s' sp l = lget s sp l) /\
    (forall a, hword s' a = hword s a) /\ out s' = out s /\ frame_ok s' sp /\ stack_frame s s' sp.
Proof.
  intros HC FR T R Ha. assert (SP : sp_ok sp) by apply FR.
  destruct t as [r|q]; cbn [load_field_code List.length lget loc_ok held_in] in *.
  - exists (rset s r (Some (hword s (p + off)))). split; [|split; [|split; [|split; [|split; [|split; [|split]]]]]].
    + nxt HC 0%nat. { eapply step_MOVL_heap; eassumption. } apply steps_refl.
    + apply rget_rset_same.
    + apply rget_rset_same.
    + intros l L N1 N2. destruct l as [r'|q']; cbn [lget]; [apply rget_rset_other; congruence|apply sget_rset].
    + reflexivity.
    + reflexivity.
    + now apply frame_ok_rset.
    + apply stack_frame_rset.
  - set (s1 := rset s TEMP (Some (hword s (p + off)))).
    assert (F1 : frame_ok s1 sp) by (apply frame_ok_rset; [discriminate|exact FR]).
    exists (sset s1 sp q (Some (hword s (p + off)))). split; [|split; [|split; [|split; [|split; [|split; [|split]]]]]].
    + nxt HC 0%nat. { eapply step_MOVL_heap; eassumption. }
      nxt HC 1%nat. { rewrite (step_MOVS_slot im s1 sp F1) by exact T. unfold s1 at 2. rewrite rget_rset_same. reflexivity. }
      apply steps_refl.
    + apply sget_sset_same.
    + rewrite rget_sset. apply rget_rset_same.
    + intros l L N1 N2. destruct l as [r'|q']; cbn [lget loc_ok] in *.
      * rewrite rget_sset. apply rget_rset_other; congruence.
      * rewrite sget_sset_other by (auto; congruence). apply sget_rset.
    + reflexivity.
    + reflexivity.
    + now apply frame_ok_sset.
    + apply (stack_frame_trans s s1); [apply stack_frame_rset|apply stack_frame_sset; exact T].
Qed.

Lemma x86_load_value_ok_s pos b c blk j m lc cs lc' s sp p F :
  load_value b c blk j m lc = Ok (cs, lc') ->
  code_at im pos cs -> labels_at im pos cs -> (j < 3)%N ->
  frame_ok s sp -> rget s blk = Some p -> is_blk p -> blk <> TEMP ->
  let kF := (2 * N.of_nat (List.length c))%N in
  XR blk <> tpos (kF + 1) ->
  let wS := hword s (p + field_offset Snd j) in
  let wF := hword s (p + field_offset Fst j) in
  (share_on m b = true -> wF = 0 \/ is_blk wF) ->
  (share_on m b = true -> wF <> 0 -> wrap (hword s wF + 1) = hword s wF + 1) ->
  exists s', steps im pos s (pnth pos (List.length cs)) s' /\
    st_eqB (abs_heap F s') (if share_on m b then Heap.share wF 1 (abs_heap F s) else abs_heap F s) /\
    lget s' sp (tpos (kF + 1)) = Some wS /\
    (bchi b <> Ext -> lget s' sp (tpos kF) = Some wF) /\
    (forall l, loc_ok l -> l <> tpos kF -> l <> tpos (kF + 1) -> l <> XR TEMP -> lget s' sp l = lget s sp l) /\
    (forall a, hword s' a = if share_on m b && negb (wF =? 0) && (a =? wF) then hword s wF + 1 else hword s a) /\
    out s' = out s /\ frame_ok s' sp /\ stack_frame s s' sp.
Proof.
  intros Hlv HC HL Hj FR R Hb NB kF NS wS wF Hkid Hwrap.
  destruct (load_value_shape _ _ _ _ _ _ _ _ Hlv) as (K1 & Hshape). fold kF in K1, Hshape.
  assert (HaS : heap_addr (p + field_offset Snd j)) by (now apply field_addr).
  assert (HaF : heap_addr (p + field_offset Fst j)) by (now apply field_addr).
  assert (K0 : (kF < MAXPOS)%N) by lia.
  (* the integer slot *)
  assert (Snd_step : forall cs', code_at im pos (load_field_code (tpos (kF + 1)) blk (field_offset Snd j) ++ cs') ->
     exists s1, steps im pos s (pnth pos (List.length (load_field_code (tpos (kF + 1)) blk (field_offset Snd j)))) s1 /\
       lget s1 sp (tpos (kF + 1)) = Some wS /\ rget s1 blk = Some p /\
       (forall l, loc_ok l -> l <> tpos (kF + 1) -> l <> XR TEMP -> lget s1 sp l = lget s sp l) /\
       (forall a, hword s1 a = hword s a) /\ out s1 = out s /\ frame_ok s1 sp /\ stack_frame s s1 sp).
  { intros cs' HC'. apply code_at_app2 in HC' as [HC1 _].
    destruct (x86_load_field_code_ok_s pos _ blk _ s sp p HC1 FR (tpos_loc_ok _ K1) R HaS) as (s1 & ST1 & V1 & _ & Oth1 & W1 & O1 & FR1 & SF1).
    exists s1. split; [exact ST1|]. split; [exact V1|]. split; [|auto 10].
    change (rget s1 blk) with (lget s1 sp (XR blk)). rewrite Oth1; [exact R| | |congruence].
    - cbn [loc_ok]. intros ->. destruct FR as (A & _). rewrite A in R. inversion R; subst. pose proof (is_blk_pos _ Hb).
      destruct FR1 as (_ & (_ & B & _)). unfold STACK_LIMIT, STACK_TOP in B. destruct Hb as (k & Hk & E & Hhi). unfold HEAP_BASE, HEAP_SIZE in *. lia.
    - exact NS. }
  destruct Hshape as [(Hext & -> & ->)|[(Hnext & -> & -> & ->)|(Hnext & -> & -> & ->)]].
  - (* integer variable *)
    rewrite (share_on_ext m b Hext). cbn [andb].
    destruct (Snd_step [] ltac:(rewrite app_nil_r; exact HC)) as (s1 & ST1 & V1 & R1 & Oth1 & W1 & O1 & FR1 & SF1).
    exists s1. split; [exact ST1|]. split; [|split; [exact V1|split; [intros; contradiction|split; [|split; [exact W1|auto]]]]].
    + apply abs_heap_same; auto.
      * change (lget s1 sp (XR HEAP) = lget s sp (XR HEAP)). apply Oth1; [cbn; discriminate|apply not_eq_sym, tpos_not_reserved|discriminate].
      * change (lget s1 sp (XR FREE) = lget s sp (XR FREE)). apply Oth1; [cbn; discriminate|apply not_eq_sym, tpos_not_reserved|discriminate].
    + intros l L N1 N2 N3. now apply Oth1.
  - (* pointer, the block is released: no sharing *)
    rewrite share_on_release. cbn [andb].
    destruct (Snd_step _ HC) as (s1 & ST1 & V1 & R1 & Oth1 & W1 & O1 & FR1 & SF1).
    apply code_at_app2 in HC as [_ HC2].
    assert (HaF1 : heap_addr (p + field_offset Fst j)) by exact HaF.
    destruct (x86_load_field_code_ok_s _ _ blk _ s1 sp p HC2 FR1 (tpos_loc_ok _ K0) R1 HaF1) as (s2 & ST2 & V2 & _ & Oth2 & W2 & O2 & FR2 & SF2).
    rewrite W1 in V2. fold wF in V2.
    assert (Oth : forall l, loc_ok l -> l <> tpos kF -> l <> tpos (kF + 1) -> l <> XR TEMP -> lget s2 sp l = lget s sp l).
    { intros l L N1 N2 N3. rewrite Oth2, Oth1; auto. }
    exists s2. split; [eapply steps_app_len; eassumption|].
    split; [|split; [|split; [intros _; exact V2|split; [exact Oth|split; [intros a; now rewrite W2, W1|split; [congruence|split; [exact FR2|exact (stack_frame_trans _ _ _ _ SF1 SF2)]]]]]]].
    + apply abs_heap_same; [intros a; now rewrite W2, W1| |].
      * change (lget s2 sp (XR HEAP) = lget s sp (XR HEAP)). apply Oth; [cbn; discriminate|apply not_eq_sym, tpos_not_reserved|apply not_eq_sym, tpos_not_reserved|discriminate].
      * change (lget s2 sp (XR FREE) = lget s sp (XR FREE)). apply Oth; [cbn; discriminate|apply not_eq_sym, tpos_not_reserved|apply not_eq_sym, tpos_not_reserved|discriminate].
    + rewrite Oth2; [exact V1|now apply tpos_loc_ok| |apply tpos_not_temp]. apply tpos_neq. lia.
  - (* pointer, shared *)
    rewrite (share_on_share b Hnext) in *. cbn [andb].
    destruct (Snd_step _ HC) as (s1 & ST1 & V1 & R1 & Oth1 & W1 & O1 & FR1 & SF1).
    apply code_at_app2 in HC as [_ HC2]. apply code_at_app2 in HC2 as [HC2 HC3].
    apply labels_at_app2 in HL as [_ HL2]. apply labels_at_app2 in HL2 as [_ HL3].
    destruct (x86_load_field_code_ok_s _ _ blk _ s1 sp p HC2 FR1 (tpos_loc_ok _ K0) R1 HaF) as (s2 & ST2 & V2 & H2 & Oth2 & W2 & O2 & FR2 & SF2).
    rewrite W1 in V2, H2. fold wF in V2, H2.
    assert (Oth : forall l, loc_ok l -> l <> tpos kF -> l <> tpos (kF + 1) -> l <> XR TEMP -> lget s2 sp l = lget s sp l).
    { intros l L N1 N2 N3. rewrite Oth2, Oth1; auto. }
    assert (W12 : forall a, hword s2 a = hword s a) by (intros a; now rewrite W2, W1).
    destruct (x86_share_reg_frame im _ (held_in (tpos kF)) 1 lc s2 wF F HC3 HL3 H2 (Hkid eq_refl) eq_refl) as (s3 & ST3 & EQ3 & Rs3 & Stk3 & O3 & W3).
    { intros Hn. rewrite W12. change (Z.of_N 1) with 1. now apply Hwrap. }
    assert (L3 : forall l, lget s3 sp l = lget s2 sp l).
    { intros [r|q]; cbn [lget]; [apply Rs3|unfold sget; now rewrite Stk3]. }
    exists s3. split; [|split; [|split; [|split; [|split; [|split; [|split; [|split]]]]]]].
    + rewrite app_assoc. eapply steps_app_len; [eapply steps_app_len; eassumption|].
      rewrite app_length, <- pnth_add. exact ST3.
    + eapply st_eqB_trans; [exact EQ3|]. change (Z.of_N 1) with 1. apply share_st_eqB; [|exact (Hkid eq_refl)].
      apply abs_heap_same; [exact W12| |].
      * change (lget s2 sp (XR HEAP) = lget s sp (XR HEAP)). apply Oth; [cbn; discriminate|apply not_eq_sym, tpos_not_reserved|apply not_eq_sym, tpos_not_reserved|discriminate].
      * change (lget s2 sp (XR FREE) = lget s sp (XR FREE)). apply Oth; [cbn; discriminate|apply not_eq_sym, tpos_not_reserved|apply not_eq_sym, tpos_not_reserved|discriminate].
    + rewrite L3, Oth2; [exact V1|now apply tpos_loc_ok| |apply tpos_not_temp]. apply tpos_neq. lia.
    + intros _. rewrite L3. exact V2.
    + intros l L N1 N2 N3. rewrite L3. now apply Oth.
    + intros a. rewrite W3, !W12. change (Z.of_N 1) with 1. reflexivity.
    + congruence.
    + destruct FR2 as (A & B). split; [rewrite Rs3; exact A|exact B].
    + apply (stack_frame_trans s s2); [exact (stack_frame_trans _ _ _ _ SF1 SF2)|apply stack_frame_eq; exact Stk3].
Qed.

Lemma x86_load_values_rev_ok_s : forall bsrev existing blk ff m lc cs lc' pos s sp p F,
  load_values bsrev existing blk ff m lc = Ok (cs, lc') ->
  (N.of_nat (List.length bsrev) <= ff)%N -> (ff <= 3)%N ->
  code_at im pos cs -> labels_at im pos cs ->
  frame_ok s sp -> (bsrev <> [] -> rget s blk = Some p) -> is_blk p -> blk <> TEMP ->
  (forall k, (2 * N.of_nat (List.length existing) < k)%N -> XR blk <> tpos k) ->
  lv_kids m (hword s) bsrev p ff ->
  (m = Share -> forall x, is_blk x -> min_int <= hword s x /\ hword s x + Z.of_nat (List.length bsrev) <= max_int) ->
  exists s', steps im pos s (pnth pos (List.length cs)) s' /\
    st_eqB (abs_heap F s') (lv_abs m (hword s) bsrev p ff (abs_heap F s)) /\
    (forall i b, nth_error (rev bsrev) i = Some b ->
       lget s' sp (tpos (2 * N.of_nat (List.length existing + i) + 1)) =
         Some (hword s (p + field_offset Snd (ff - N.of_nat (List.length bsrev) + N.of_nat i))) /\
       (bchi b <> Ext -> lget s' sp (tpos (2 * N.of_nat (List.length existing + i))) =
         Some (hword s (p + field_offset Fst (ff - N.of_nat (List.length bsrev) + N.of_nat i))))) /\
    (forall l, loc_ok l -> l <> XR TEMP ->
       (forall k, (2 * N.of_nat (List.length existing) <= k < 2 * N.of_nat (List.length existing + List.length bsrev))%N -> l <> tpos k) ->
       lget s' sp l = lget s sp l) /\
    nonblk_same s s' /\
    (forall x, is_blk x -> hword s x <= hword s' x <= hword s x + Z.of_nat (List.length bsrev)) /\
    out s' = out s /\ frame_ok s' sp /\ stack_frame s s' sp.
Proof.
  induction bsrev as [|b rest IH]; intros existing blk ff m lc cs lc' pos s sp p F Hlv Hlen Hff HC HL FR R Hb NB NK Kids Room.
  - cbn [load_values] in Hlv. inversion Hlv; subst cs lc'. exists s. cbn [List.length lv_abs pnth rev].
    split; [apply steps_refl|]. split; [apply st_eqB_refl|]. split; [intros i b Hi; destruct i; discriminate|].
    split; [auto|]. split; [apply nonblk_same_refl|]. split; [intros; lia|]. split; [reflexivity|]. split; [exact FR|apply stack_frame_refl].
  - cbn [load_values] in Hlv. cbn [List.length] in Hlen.
    destruct (load_value b (existing ++ rev rest) blk (ff - 1) m lc) as [[c1 lc1]|] eqn:E1; [|discriminate]. cbn [rbind] in Hlv.
    destruct (load_values rest existing blk (ff - 1) m lc1) as [[c2 lc2]|] eqn:E2; [|discriminate]. cbn [rbind] in Hlv.
    inversion Hlv; subst cs lc'. clear Hlv.
    set (E := List.length existing) in *. set (n := List.length rest) in *.
    assert (HL' : List.length (existing ++ rev rest) = (E + n)%nat) by (rewrite app_length, rev_length; reflexivity).
    apply code_at_app2 in HC as [HC1 HC2]. apply labels_at_app2 in HL as [HL1 HL2].
    cbn [lv_kids] in Kids. destruct Kids as [Kid1 Kids2].
    specialize (R ltac:(discriminate)).
    set (wF := hword s (p + field_offset Fst (ff - 1))) in *.
    destruct (x86_load_value_ok_s pos b (existing ++ rev rest) blk (ff - 1) m lc c1 lc1 s sp p F E1 HC1 HL1 ltac:(lia) FR R Hb NB)
      as (s1 & ST1 & EQ1 & VS & VF & Oth1 & W1 & O1 & FR1 & SF1).
    { rewrite HL'. apply NK. lia. }
    { exact Kid1. }
    { intros Hsh Hn0. fold wF in Hn0 |- *. apply wrap_id. destruct (Kid1 Hsh) as [|Kb]; [contradiction|].
      destruct (Room (share_on_true _ _ Hsh) wF Kb). cbn [List.length] in *. lia. }
    rewrite HL' in VS, VF, Oth1. fold wF in EQ1, VF, W1.
    assert (NB1 : nonblk_same s s1).
    { intros a Ha. rewrite W1. destruct (share_on m b); cbn [andb]; [|reflexivity].
      destruct (Z.eqb_spec wF 0); cbn [negb andb]; [reflexivity|]. destruct (Z.eqb_spec a wF) as [->|]; [|reflexivity].
      destruct (Kid1 eq_refl); contradiction. }
    assert (Hd1 : forall x, is_blk x -> hword s x <= hword s1 x <= hword s x + 1).
    { intros x Hx. rewrite W1. destruct (share_on m b && negb (wF =? 0) && (x =? wF)) eqn:Eb; [|lia].
      apply andb_true_iff in Eb as [_ Eb]. apply Z.eqb_eq in Eb. subst x. lia. }
    assert (Hfld : forall t j, (j < 3)%N -> hword s1 (p + field_offset t j) = hword s (p + field_offset t j)).
    { intros t j Hj. apply NB1. now apply field_not_blk. }
    assert (R1 : rest <> [] -> rget s1 blk = Some p).
    { intros Hne. change (lget s1 sp (XR blk) = Some p). rewrite Oth1; [exact R| | | |congruence].
      - cbn [loc_ok]. intros ->. destruct FR as (A & (_ & B & _)). rewrite A in R. inversion R; subst.
        unfold STACK_LIMIT, STACK_TOP in B. destruct Hb as (k & Hk & Eq & Hhi). unfold HEAP_BASE, HEAP_SIZE in *. lia.
      - apply NK. destruct rest; [contradiction|]. unfold n. cbn [List.length]. lia.
      - apply NK. lia. }
    destruct (IH existing blk (ff - 1)%N m lc1 c2 lc2 _ s1 sp p F E2 ltac:(lia) ltac:(lia) HC2 HL2 FR1 R1 Hb NB NK)
      as (s2 & ST2 & EQ2 & V2 & Oth2 & NB2 & Hd2 & O2 & FR2 & SF2).
    { eapply lv_kids_congr; [|lia|exact Kids2]. intros j Hj. symmetry. apply Hfld. lia. }
    { intros Hm x Hx. destruct (Room Hm x Hx), (Hd1 x Hx). cbn [List.length] in *. fold n. lia. }
    fold E n in V2, Oth2, Hd2.
    exists s2. split; [eapply steps_app_len; eassumption|]. split; [|split; [|split; [|split; [|split; [|split; [|split]]]]]].
    + cbn [lv_abs]. fold wF. eapply st_eqB_trans; [exact EQ2|]. apply lv_abs_congr; auto; [|lia|].
      * intros j Hj. apply Hfld. lia.
      * eapply lv_kids_congr; [|lia|exact Kids2]. intros j Hj. symmetry. apply Hfld. lia.
    + cbn [rev List.length]. fold n. intros i b' Hi. destruct (Nat.lt_ge_cases i n) as [Hlt|Hge].
      * rewrite nth_error_app1 in Hi by (rewrite rev_length; exact Hlt).
        destruct (V2 i b' Hi) as [A B]. rewrite !Hfld in A, B by lia.
        replace (ff - N.of_nat (S n) + N.of_nat i)%N with (ff - 1 - N.of_nat n + N.of_nat i)%N by lia. auto.
      * assert (i = n).
        { assert (i < List.length (rev rest ++ [b]))%nat by (apply nth_error_Some; congruence).
          rewrite app_length, rev_length in H. cbn [List.length] in H. fold n in H. lia. }
        subst i. rewrite nth_error_app2, rev_length, Nat.sub_diag in Hi by (rewrite rev_length; apply Nat.le_refl).
        inversion Hi; subst b'.
        replace (ff - N.of_nat (S n) + N.of_nat n)%N with (ff - 1)%N by lia.
        assert (K1 : (2 * N.of_nat (E + n) + 1 < MAXPOS)%N).
        { destruct (load_value_shape _ _ _ _ _ _ _ _ E1) as (K & _). rewrite HL' in K. exact K. }
        split; [|intros Hne].
        -- rewrite Oth2; [exact VS|apply tpos_loc_ok; lia|apply tpos_not_temp|]. intros k Hk. apply tpos_neq. lia.
        -- rewrite Oth2; [exact (VF Hne)|apply tpos_loc_ok; lia|apply tpos_not_temp|]. intros k Hk. apply tpos_neq. lia.
    + intros l L NT Hl. cbn [List.length] in Hl. fold n in Hl. rewrite Oth2, Oth1; auto.
      * apply Hl. lia.
      * apply Hl. lia.
      * intros k Hk. apply Hl. lia.
    + eapply nonblk_same_trans; eassumption.
    + intros x Hx. destruct (Hd1 x Hx), (Hd2 x Hx). cbn [List.length]. fold n. lia.
    + congruence.
    + exact FR2.
    + exact (stack_frame_trans _ _ _ _ SF1 SF2).
Qed.

(* ====================================================================================== *)
(* X86MemLoadChain.v *)
Lemma x86_load_block_ok_s pos bp next epr m lc lv lc' R klink s sp p h F :
  load_values (rev next) epr R (3 - bp_n bp) m lc = Ok (lv, lc') ->
  next <> [] -> (N.of_nat (List.length next) <= 3 - bp_n bp)%N ->
  klink = (2 * N.of_nat (List.length epr + List.length next))%N -> (bp = Other -> (klink < MAXPOS)%N) ->
  code_at im pos (rel_code m R ++ link_load_code bp klink R ++ lv) ->
  labels_at im pos (rel_code m R ++ link_load_code bp klink R ++ lv) -> frame_ok s sp ->
  rget s R = Some p -> is_blk p -> rget s HEAP = Some h -> R <> TEMP -> R <> HEAP ->
  (forall k, (2 * N.of_nat (List.length epr) < k)%N -> XR R <> tpos k) ->
  lv_kids m (hword s) (rev next) p (3 - bp_n bp) ->
  (m = Share -> forall x, is_blk x -> min_int <= hword s x /\ hword s x + Z.of_nat (List.length next) <= max_int) ->
  exists s', steps im pos s (pnth pos (List.length (rel_code m R ++ link_load_code bp klink R ++ lv))) s' /\
    st_eqB (abs_heap F s') (blk_abs m (hword s) next p (3 - bp_n bp) (abs_heap F s)) /\
    (bp = Other -> lget s' sp (tpos klink) = Some (hword s (p + 48))) /\
    (forall i b, nth_error next i = Some b ->
       lget s' sp (tpos (2 * N.of_nat (List.length epr + i) + 1)) =
         Some (hword s (p + field_offset Snd (3 - bp_n bp - N.of_nat (List.length next) + N.of_nat i))) /\
       (bchi b <> Ext -> lget s' sp (tpos (2 * N.of_nat (List.length epr + i))) =
         Some (hword s (p + field_offset Fst (3 - bp_n bp - N.of_nat (List.length next) + N.of_nat i))))) /\
    (forall l, loc_ok l -> l <> XR TEMP -> l <> XR HEAP ->
       (forall k, (2 * N.of_nat (List.length epr) <= k <= klink)%N -> l <> tpos k) ->
       lget s' sp l = lget s sp l) /\
    nonblk_same s s' /\
    (m = Share -> forall x, is_blk x -> hword s x <= hword s' x <= hword s x + Z.of_nat (List.length next)) /\
    (exists h', rget s' HEAP = Some h') /\
    out s' = out s /\ frame_ok s' sp /\ stack_frame s s' sp.
Proof.
  intros Hlv Hne Hlen Hkl Hklm HC HL FR R0 Hb Hh NT NH NK Kids Room.
  set (cap := (3 - bp_n bp)%N) in *. set (Eb := List.length epr) in *.
  assert (Hcap : (cap <= 3)%N) by (unfold cap; destruct bp; cbn; lia).
  assert (Hn1 : (1 <= List.length next)%nat) by (destruct next; [contradiction|cbn; lia]).
  fold Eb in Hkl.
  apply code_at_app2 in HC as [HC1 HC2]. apply labels_at_app2 in HL as [HL1 HL2].
  apply code_at_app2 in HC2 as [HC2 HC3]. apply labels_at_app2 in HL2 as [_ HL3].
  (* release *)
  assert (S1 : exists s1, steps im pos s (pnth pos (List.length (rel_code m R))) s1 /\
     st_eqB (abs_heap F s1) (match m with Release => Heap.release p (abs_heap F s) | Share => abs_heap F s end) /\
     (forall r', r' <> HEAP -> rget s1 r' = rget s r') /\ (exists h', rget s1 HEAP = Some h') /\ stack s1 = stack s /\ out s1 = out s /\
     (forall a, hword s1 a = if (match m with Release => true | Share => false end) && (a =? p) then h else hword s a)).
  { destruct m; cbn [rel_code].
    - destruct (x86_release_block_frame im pos R s p h F HC1 R0 Hh Hb) as (s1 & ST1 & EQ1 & Oth1 & H1 & Stk1 & O1 & W1).
      exists s1. split; [exact ST1|]. split; [exact EQ1|]. split; [exact Oth1|]. split; [eauto|]. split; [exact Stk1|]. split; [exact O1|exact W1].
    - exists s. split; [apply steps_refl|]. split; [apply st_eqB_refl|]. split; [auto|]. split; [eauto|]. auto. }
  destruct S1 as (s1 & ST1 & EQ1 & Oth1 & (h1 & H1) & Stk1 & O1 & W1).
  assert (FR1 : frame_ok s1 sp) by (destruct FR as (A & B); split; [rewrite Oth1 by discriminate; exact A|exact B]).
  assert (R1 : rget s1 R = Some p) by (rewrite Oth1 by exact NH; exact R0).
  assert (L1 : forall l, l <> XR HEAP -> lget s1 sp l = lget s sp l).
  { intros [r|q] Hl; cbn [lget]; [apply Oth1; congruence|unfold sget; now rewrite Stk1]. }
  assert (Hoff : forall i, 0 < i < 64 -> hword s1 (p + i) = hword s (p + i)).
  { intros i Hi. rewrite W1. destruct (Z.eqb_spec (p + i) p); [lia|]. now rewrite andb_false_r. }
  assert (Hfld : forall t j, (j < 3)%N -> hword s1 (p + field_offset t j) = hword s (p + field_offset t j)).
  { intros t j Hj. apply Hoff. rewrite field_offset_val. destruct t; cbn [tnum_n]; lia. }
  assert (NB1 : nonblk_same s s1).
  { intros a Ha. rewrite W1. destruct (Z.eqb_spec a p) as [->|]; [contradiction|]. now rewrite andb_false_r. }
  (* the link *)
  assert (S2 : exists s2, steps im (pnth pos (List.length (rel_code m R))) s1
                            (pnth (pnth pos (List.length (rel_code m R))) (List.length (link_load_code bp klink R))) s2 /\
     (bp = Other -> lget s2 sp (tpos klink) = Some (hword s (p + 48))) /\
     (forall l, loc_ok l -> l <> tpos klink -> l <> XR TEMP -> lget s2 sp l = lget s1 sp l) /\
     (forall a, hword s2 a = hword s1 a) /\ out s2 = out s1 /\ frame_ok s2 sp /\ stack_frame s1 s2 sp).
  { destruct bp; cbn [link_load_code] in *.
    - exists s1. split; [apply steps_refl|]. split; [discriminate|]. split; [auto|]. split; [auto|]. split; [auto|]. split; [exact FR1|apply stack_frame_refl].
    - assert (Ha : heap_addr (p + field_offset Fst 2)) by (apply field_addr; auto; lia).
      destruct (x86_load_field_code_ok_s _ (tpos klink) R _ s1 sp p HC2 FR1 (tpos_loc_ok _ (Hklm eq_refl)) R1 Ha) as (s2 & ST2 & V2 & _ & Oth2 & W2 & O2 & FR2 & SF2).
      exists s2. split; [exact ST2|]. split; [|auto 10]. intros _. rewrite V2. rewrite fo_F2. now rewrite Hoff by lia. }
  destruct S2 as (s2 & ST2 & Vl & Oth2 & W2 & O2 & FR2 & SF2).
  assert (NKl : XR R <> tpos klink) by (apply NK; lia).
  assert (R2 : rget s2 R = Some p).
  { change (lget s2 sp (XR R) = Some p). rewrite Oth2; [exact R1| |exact NKl|congruence].
    cbn [loc_ok]. exact (reg_not_rsp_of_blk s sp R p FR R0 Hb). }
  assert (W12 : forall a, hword s2 a = hword s1 a) by exact W2.
  (* the values *)
  destruct (x86_load_values_rev_ok_s (rev next) epr R cap m lc lv lc' _ s2 sp p F Hlv ltac:(rewrite rev_length; exact Hlen) Hcap HC3 HL3 FR2)
    as (s3 & ST3 & EQ3 & V3 & Oth3 & NB3 & Hd3 & O3 & FR3 & SF3); auto.
  { eapply lv_kids_congr; [|rewrite rev_length; exact Hlen|exact Kids]. intros j Hj. rewrite W12. symmetry. apply Hfld. lia. }
  { intros Hm x Hx. subst m. rewrite W12, W1. cbn [andb]. rewrite rev_length. now apply Room. }
  rewrite rev_length, rev_involutive in *.
  exists s3. split; [|split; [|split; [|split; [|split; [|split; [|split; [|split; [|split; [|split]]]]]]]]].
  - rewrite !app_length, <- !pnth_add. eapply steps_trans; [exact ST1|]. eapply steps_trans; [exact ST2|]. exact ST3.
  - unfold blk_abs. eapply st_eqB_trans; [exact EQ3|]. apply lv_abs_congr.
    + eapply st_eqB_trans; [|exact EQ1]. apply abs_heap_same; [exact W12| |].
      * change (lget s2 sp (XR HEAP) = lget s1 sp (XR HEAP)). apply Oth2; [cbn; discriminate|apply not_eq_sym, tpos_not_reserved|discriminate].
      * change (lget s2 sp (XR FREE) = lget s1 sp (XR FREE)). apply Oth2; [cbn; discriminate|apply not_eq_sym, tpos_not_reserved|discriminate].
    + intros j Hj. rewrite W12. apply Hfld. lia.
    + rewrite rev_length. exact Hlen.
    + eapply lv_kids_congr; [|rewrite rev_length; exact Hlen|exact Kids]. intros j Hj. rewrite W12. symmetry. apply Hfld. lia.
  - intros Ho. rewrite Oth3; [exact (Vl Ho)|apply tpos_loc_ok; auto|apply tpos_not_temp|]. intros k Hk. apply tpos_neq. lia.
  - intros i b Hi. destruct (V3 i b Hi) as [A B].
    assert (Hi' : (i < List.length next)%nat) by (apply nth_error_Some; congruence).
    rewrite !W12, !Hfld in A, B by lia. auto.
  - intros l L N1 N2 N3. rewrite Oth3; [|exact L|exact N1|intros k Hk; apply N3; lia].
    rewrite Oth2; [apply L1; exact N2|exact L|apply N3; lia|exact N1].
  - eapply nonblk_same_trans; [exact NB1|]. intros a Ha. rewrite NB3 by exact Ha. apply W12.
  - intros Hm x Hx. subst m. specialize (Hd3 x Hx). rewrite W12, W1 in Hd3. cbn [andb] in Hd3. exact Hd3.
  - assert (LH : lget s3 sp (XR HEAP) = lget s1 sp (XR HEAP)).
    { rewrite Oth3; [apply Oth2|cbn; discriminate|discriminate|]; [cbn; discriminate|apply not_eq_sym, tpos_not_reserved|discriminate|].
      intros k _. apply not_eq_sym, tpos_not_reserved. }
    cbn [lget] in LH. exists h1. now rewrite LH.
  - congruence.
  - exact FR3.
  - apply (stack_frame_trans s s2); [apply (stack_frame_trans s s1); [apply stack_frame_eq; exact Stk1|exact SF2]|exact SF3].
Qed.

Lemma x86_lf_blk_ok_s pos bp next epr m lc lv lc' freed0 klink s sp p h F :
  let t := tpos (2 * N.of_nat (List.length epr)) in
  load_values (rev next) epr (blk_reg_of t) (3 - bp_n bp) m lc = Ok (lv, lc') ->
  next <> [] -> (N.of_nat (List.length next) <= 3 - bp_n bp)%N ->
  klink = (2 * N.of_nat (List.length epr + List.length next))%N ->
  (2 * N.of_nat (List.length epr) < MAXPOS)%N -> (bp = Other -> (klink < MAXPOS)%N) ->
  code_at im pos (lf_blk_code t freed0 bp m klink lv) -> labels_at im pos (lf_blk_code t freed0 bp m klink lv) -> frame_ok s sp ->
  (freed0 = true -> (12 <= 2 * N.of_nat (List.length epr))%N) ->
  lgetL s sp freed0 t = Some p -> is_blk p -> rget s HEAP = Some h ->
  lv_kids m (hword s) (rev next) p (3 - bp_n bp) ->
  (m = Share -> forall x, is_blk x -> min_int <= hword s x /\ hword s x + Z.of_nat (List.length next) <= max_int) ->
  let freed1 := freed_after t freed0 bp in
  exists s', steps im pos s (pnth pos (List.length (lf_blk_code t freed0 bp m klink lv))) s' /\
    st_eqB (abs_heap F s') (blk_abs m (hword s) next p (3 - bp_n bp) (abs_heap F s)) /\
    (bp = Other -> lgetL s' sp freed1 (tpos klink) = Some (hword s (p + 48))) /\
    (forall i b, nth_error next i = Some b ->
       lgetL s' sp freed1 (tpos (2 * N.of_nat (List.length epr + i) + 1)) =
         Some (hword s (p + field_offset Snd (3 - bp_n bp - N.of_nat (List.length next) + N.of_nat i))) /\
       (bchi b <> Ext -> lgetL s' sp freed1 (tpos (2 * N.of_nat (List.length epr + i))) =
         Some (hword s (p + field_offset Fst (3 - bp_n bp - N.of_nat (List.length next) + N.of_nat i))))) /\
    (forall l, untouched l -> (forall k, (2 * N.of_nat (List.length epr) <= k <= klink)%N -> l <> tpos k) ->
       lgetL s' sp freed1 l = lgetL s sp freed0 l) /\
    nonblk_same s s' /\
    (m = Share -> forall x, is_blk x -> hword s x <= hword s' x <= hword s x + Z.of_nat (List.length next)) /\
    (exists h', rget s' HEAP = Some h') /\
    out s' = out s /\ frame_ok s' sp /\ stack_frame s s' sp.
Proof.
  intros t Hlv Hne Hlen Hkl Kt Hklm HC HL FR Hfr P Hb Hh Kids Room freed1.
  set (Eb := List.length epr) in *.
  assert (Hn1 : (1 <= List.length next)%nat) by (destruct next; [contradiction|cbn; lia]).
  destruct (tpos_not_reserved (2 * N.of_nat Eb)) as (_ & NT & NH & _).
  unfold freed1. clear freed1. subst t. destruct (tpos (2 * N.of_nat Eb)) as [mr|mp] eqn:Et; cbn [blk_reg_of lf_blk_code freed_after] in *.
  - (* the pointer in a register *)
    assert (Hf0 : freed0 = false).
    { destruct freed0; [|reflexivity]. specialize (Hfr eq_refl). apply tpos_reg in Et as [_ Hlt]. lia. }
    subst freed0. rewrite lgetL_false in P. cbn [lget] in P.
    destruct (x86_load_block_ok_s pos bp next epr m lc lv lc' mr klink s sp p h F Hlv Hne Hlen Hkl Hklm HC HL FR P Hb Hh)
      as (s2 & ST & EQ & Vl & V & Oth & NB & Hd & HH & O & FR2 & SF2); auto; try congruence.
    { intros k Hk. rewrite <- Et. apply tpos_neq. fold Eb in Hk. lia. }
    exists s2. split; [exact ST|]. split; [exact EQ|].
    split; [intros Ho; rewrite lgetL_false; auto|]. split; [intros i b Hi; rewrite !lgetL_false; auto|].
    split; [|auto 10]. intros l (L1 & L2 & L3 & L4) Hr. rewrite !lgetL_false. now apply Oth.
  - (* the pointer in a spill slot *)
    destruct (tpos_slot _ _ Et) as (Emp & HE).
    rewrite lgetL_other in P by discriminate. cbn [lget] in P.
    assert (SP : sp_ok sp) by apply FR.
    assert (Qmp : slot_ok mp) by (pose proof (tpos_loc_ok _ Kt) as L; rewrite Et in L; exact L).
    assert (Q0 : slot_ok SPILL_TEMP) by (unfold slot_ok; reflexivity).
    assert (Nmp : SPILL_TEMP <> mp) by (change SPILL_TEMP with 0%N; lia).
    apply code_at_app2 in HC as [HC1 HC2]. apply labels_at_app2 in HL as [_ HL2].
    apply code_at_app2 in HC2 as [HC2 HC3]. apply labels_at_app2 in HL2 as [HL2 _].
    (* evacuate (once) and fetch the pointer *)
    assert (SA : exists sA, steps im pos s (pnth pos (List.length ((if freed0 then [] else [MOVS TEMPORARY_TEMP STACK (stack_offset SPILL_TEMP)]) ++ [MOVL TEMPORARY_TEMP STACK (stack_offset mp)]))) sA /\
       rget sA TEMPORARY_TEMP = Some p /\ sget sA sp SPILL_TEMP = saved s sp freed0 /\
       (forall l, l <> XR TEMPORARY_TEMP -> l <> XS SPILL_TEMP -> loc_ok l -> lget sA sp l = lget s sp l) /\
       (forall a, hword sA a = hword s a) /\ out sA = out s /\ frame_ok sA sp /\ stack_frame s sA sp).
    { destruct freed0; cbn [app List.length saved] in *.
      - exists (rset s TEMPORARY_TEMP (Some p)). split; [|split; [|split; [|split; [|split; [|split; [|split]]]]]]; try reflexivity.
        + nxt HC1 0%nat. { rewrite (step_MOVL_slot im s sp FR) by exact Qmp. rewrite P. reflexivity. } apply steps_refl.
        + apply rget_rset_same.
        + intros [r|q] N1 N2 L; cbn [lget]; [apply rget_rset_other; congruence|apply sget_rset].
        + apply frame_ok_rset; [discriminate|exact FR].
        + apply stack_frame_rset.
      - set (s1 := sset s sp SPILL_TEMP (rget s TEMPORARY_TEMP)).
        assert (F1 : frame_ok s1 sp) by (apply frame_ok_sset; exact FR).
        exists (rset s1 TEMPORARY_TEMP (Some p)). split; [|split; [|split; [|split; [|split; [|split; [|split]]]]]]; try reflexivity.
        + nxt HC1 0%nat. { apply (step_MOVS_slot im s sp FR). exact Q0. }
          nxt HC1 1%nat. { rewrite (step_MOVL_slot im s1 sp F1) by exact Qmp. unfold s1 at 2. rewrite sget_sset_other by auto. rewrite P. reflexivity. }
          apply steps_refl.
        + apply rget_rset_same.
        + rewrite sget_rset. unfold s1. apply sget_sset_same.
        + intros [r|q] N1 N2 L; cbn [lget loc_ok] in *.
          * rewrite rget_rset_other by congruence. apply rget_sset.
          * rewrite sget_rset. unfold s1. apply sget_sset_other; auto. congruence.
        + apply frame_ok_rset; [discriminate|exact F1].
        + apply (stack_frame_trans s s1); [apply stack_frame_sset; exact Q0|apply stack_frame_rset]. }
    destruct SA as (sA & STA & RA & SvA & OthA & WA & OA & FRA & SFA).
    destruct (x86_load_block_ok_s _ bp next epr m lc lv lc' TEMPORARY_TEMP klink sA sp p h F Hlv Hne Hlen Hkl Hklm HC2 HL2 FRA RA Hb)
      as (s2 & ST & EQ & Vl & V & Oth & NB & Hd & HH & O & FR2 & SF2); auto; try discriminate.
    { rewrite <- Hh. change (lget sA sp (XR HEAP) = lget s sp (XR HEAP)). apply OthA; [discriminate|discriminate|cbn; discriminate]. }
    { intros k Hk. apply not_eq_sym, tpos_not_tt. lia. }
    { eapply lv_kids_congr; [|rewrite rev_length; exact Hlen|exact Kids]. intros j Hj. now rewrite WA. }
    { intros Hm x Hx. rewrite WA. now apply Room. }
    assert (S20 : sget s2 sp SPILL_TEMP = saved s sp freed0).
    { change (lget s2 sp (XS SPILL_TEMP) = saved s sp freed0). rewrite Oth; [exact SvA|exact Q0|discriminate|discriminate|].
      intros k _. apply not_eq_sym, tpos_not_reserved. }
    assert (EQA : st_eqB (abs_heap F sA) (abs_heap F s)).
    { apply abs_heap_same; [exact WA| |].
      - change (lget sA sp (XR HEAP) = lget s sp (XR HEAP)). apply OthA; [discriminate|discriminate|cbn; discriminate].
      - change (lget sA sp (XR FREE) = lget s sp (XR FREE)). apply OthA; [discriminate|discriminate|cbn; discriminate]. }
    assert (EQ' : st_eqB (abs_heap F s2) (blk_abs m (hword s) next p (3 - bp_n bp) (abs_heap F s))).
    { eapply st_eqB_trans; [exact EQ|]. unfold blk_abs. apply lv_abs_congr.
      - destruct m; [apply release_st_eqB; auto|exact EQA].
      - intros j Hj. apply WA.
      - rewrite rev_length. exact Hlen.
      - eapply lv_kids_congr; [|rewrite rev_length; exact Hlen|exact Kids]. intros j Hj. now rewrite WA. }
    assert (NBs : nonblk_same s s2) by (intros a Ha; rewrite NB by exact Ha; apply WA).
    assert (Hds : m = Share -> forall x, is_blk x -> hword s x <= hword s2 x <= hword s x + Z.of_nat (List.length next)).
    { intros Hm x Hx. specialize (Hd Hm x Hx). now rewrite WA in Hd. }
    assert (Hspill : forall k, (2 * N.of_nat Eb <= k)%N -> tpos k <> XR TEMPORARY_TEMP) by (intros k Hk; apply tpos_not_tt; lia).
    (* the end of the block: restore after the last one *)
    assert (SE : exists s3, steps im (pnth (pnth pos (List.length ((if freed0 then [] else [MOVS TEMPORARY_TEMP STACK (stack_offset SPILL_TEMP)]) ++ [MOVL TEMPORARY_TEMP STACK (stack_offset mp)])))
                                       (List.length (rel_code m TEMPORARY_TEMP ++ link_load_code bp klink TEMPORARY_TEMP ++ lv))) s2
                             (pnth (pnth (pnth pos (List.length ((if freed0 then [] else [MOVS TEMPORARY_TEMP STACK (stack_offset SPILL_TEMP)]) ++ [MOVL TEMPORARY_TEMP STACK (stack_offset mp)])))
                                       (List.length (rel_code m TEMPORARY_TEMP ++ link_load_code bp klink TEMPORARY_TEMP ++ lv)))
                                   (List.length (match bp with Last => [MOVL TEMPORARY_TEMP STACK (stack_offset SPILL_TEMP)] | Other => [] end))) s3 /\
       saved s3 sp (match bp with Last => false | Other => true end) = saved s sp freed0 /\
       (forall l, l <> XR TEMPORARY_TEMP -> lget s3 sp l = lget s2 sp l) /\
       (forall a, hword s3 a = hword s2 a) /\ rget s3 HEAP = rget s2 HEAP /\ rget s3 FREE = rget s2 FREE /\ out s3 = out s2 /\ frame_ok s3 sp /\
       stack_frame s2 s3 sp).
    { destruct bp; cbn [List.length pnth saved].
      - exists (rset s2 TEMPORARY_TEMP (sget s2 sp SPILL_TEMP)). split; [|split; [|split; [|split; [|split; [|split; [|split; [|split]]]]]]].
        + eapply steps_next; [apply (HC3 0%nat); reflexivity| |apply steps_refl]. apply (step_MOVL_slot im s2 sp FR2). exact Q0.
        + rewrite rget_rset_same. exact S20.
        + intros [r|q] N1; cbn [lget]; [apply rget_rset_other; congruence|apply sget_rset].
        + reflexivity.
        + apply rget_rset_other. discriminate.
        + apply rget_rset_other. discriminate.
        + reflexivity.
        + apply frame_ok_rset; [discriminate|exact FR2].
        + apply stack_frame_rset.
      - exists s2. split; [apply steps_refl|]. split; [exact S20|]. split; [intros; reflexivity|]. split; [intros; reflexivity|].
        split; [reflexivity|]. split; [reflexivity|]. split; [reflexivity|]. split; [exact FR2|apply stack_frame_refl]. }
    destruct SE as (s3 & ST3 & Sv3 & Oth3 & W3 & H3 & F3 & O3 & FR3 & SF3).
    exists s3. split; [|split; [|split; [|split; [|split; [|split; [|split; [|split; [|split; [|split]]]]]]]]].
    + eapply steps_app_len; [exact STA|]. eapply steps_app_len; [exact ST|exact ST3].
    + eapply st_eqB_trans; [|exact EQ']. apply abs_heap_same; auto.
    + intros Ho. rewrite lgetL_other by (apply Hspill; lia). rewrite Oth3 by (apply Hspill; lia). rewrite <- WA. exact (Vl Ho).
    + intros i b Hi. destruct (V i b Hi) as [A B]. rewrite !WA in A, B.
      rewrite !lgetL_other by (apply Hspill; fold Eb; lia). rewrite !Oth3 by (apply Hspill; fold Eb; lia). auto.
    + intros l (L1 & L2 & L3 & L4) Hr. destruct (xtemp_eqb_spec l (XR TEMPORARY_TEMP)) as [->|Hl].
      * rewrite !lgetL_tt. exact Sv3.
      * rewrite !lgetL_other by exact Hl. rewrite Oth3 by exact Hl. rewrite Oth by auto. apply OthA; auto.
    + intros a Ha. rewrite W3. now apply NBs.
    + intros Hm x Hx. rewrite W3. now apply Hds.
    + destruct HH as (h' & HH). exists h'. now rewrite H3.
    + congruence.
    + exact FR3.
    + apply (stack_frame_trans s s2); [exact (stack_frame_trans _ _ _ _ SFA SF2)|exact SF3].
Qed.

Lemma x86_load_fields_ok_s : forall fuel to_load existing bp m freed lc cs fr lc' pos s sp p h F,
  load_fields fuel to_load existing bp m freed lc = Ok (cs, fr, lc') ->
  (List.length to_load < fuel)%nat -> (bp = Last -> to_load <> []) ->
  code_at im pos cs -> labels_at im pos cs -> frame_ok s sp ->
  (freed = true -> (12 <= 2 * N.of_nat (List.length existing))%N) ->
  lgetL s sp freed (tpos (2 * N.of_nat (List.length existing))) = Some p -> rget s HEAP = Some h ->
  lf_ok fuel m (hword s) to_load bp p ->
  (m = Share -> forall x, is_blk x -> min_int <= hword s x /\ hword s x + Z.of_nat (List.length to_load) <= max_int) ->
  exists s', steps im pos s (pnth pos (List.length cs)) s' /\
    st_eqB (abs_heap F s') (lf_abs fuel m (hword s) to_load bp p (abs_heap F s)) /\
    (frL bp fr = true -> (12 <= 2 * N.of_nat (List.length existing + List.length to_load))%N) /\
    (bp = Other -> lgetL s' sp (frL bp fr) (tpos (2 * N.of_nat (List.length existing + List.length to_load))) =
                   Some (lf_ptr fuel (hword s) to_load bp p)) /\
    (forall i b, nth_error to_load i = Some b ->
       let A := lf_addrs fuel (hword s) to_load bp p in
       let a := nth (List.length A - List.length to_load + i) A 0 in
       lgetL s' sp (frL bp fr) (tpos (2 * N.of_nat (List.length existing + i) + 1)) = Some (hword s (a + 8)) /\
       (bchi b <> Ext -> lgetL s' sp (frL bp fr) (tpos (2 * N.of_nat (List.length existing + i))) = Some (hword s a))) /\
    (forall l, untouched l ->
       (forall k, (2 * N.of_nat (List.length existing) <= k <= 2 * N.of_nat (List.length existing + List.length to_load))%N -> l <> tpos k) ->
       lgetL s' sp (frL bp fr) l = lgetL s sp freed l) /\
    nonblk_same s s' /\
    (m = Share -> forall x, is_blk x -> hword s x <= hword s' x <= hword s x + Z.of_nat (List.length to_load)) /\
    (exists h', rget s' HEAP = Some h') /\ out s' = out s /\ frame_ok s' sp /\ stack_frame s s' sp.
Proof.
  induction fuel as [|fuel IH]; intros to_load existing bp m freed lc cs fr lc' pos s sp p h F Hlf Hfuel HLast HC HL FR Hfr P Hh OK Room; [lia|].
  set (E := List.length existing) in *.
  destruct to_load as [|x r].
  - (* nothing to load *)
    destruct bp; [specialize (HLast eq_refl); contradiction|].
    cbn [load_fields] in Hlf. inversion Hlf; subst cs fr lc'. cbn [frL List.length pnth lf_abs lf_ptr]. rewrite Nat.add_0_r.
    exists s. split; [apply steps_refl|]. split; [apply st_eqB_refl|]. split; [exact Hfr|]. split; [intros _; exact P|].
    split; [intros i b Hi; destruct i; discriminate|]. split; [auto|]. split; [apply nonblk_same_refl|]. split; [intros; lia|]. split; [eauto|]. split; [reflexivity|]. split; [exact FR|apply stack_frame_refl].
  - set (to_load := x :: r) in *. set (n := List.length to_load) in *.
    assert (Hne : to_load <> []) by discriminate.
    destruct (load_fields_unfold fuel to_load existing bp m freed lc cs fr lc' Hne Hlf) as (c0 & freed0 & lc0 & lv & Hlf0 & Kt & Hklm & Hlv & -> & Efr).
    fold n in Hlf0, Kt, Hlv, Efr, HC, HL, Hklm |- *.
    set (cap := (3 - bp_n bp)%N) in *. set (rl := rest_len n cap) in *.
    set (rest := firstn rl to_load) in *. set (next := skipn rl to_load) in *.
    assert (Hcap : (cap = 3 \/ cap = 2)%N) by (unfold cap; destruct bp; cbn; auto).
    assert (Hrl : rl = (n - N.to_nat cap)%nat) by apply rest_len_val.
    assert (Hn : (1 <= n)%nat) by (unfold n, to_load; cbn; lia).
    assert (Lrest : List.length rest = rl) by (unfold rest; rewrite firstn_length; fold n; lia).
    assert (Lnext : List.length next = (n - rl)%nat) by (unfold next; rewrite skipn_length; reflexivity).
    assert (Lepr : List.length (existing ++ rest) = (E + rl)%nat) by (rewrite app_length, Lrest; reflexivity).
    assert (Lall : List.length (existing ++ to_load) = (E + n)%nat) by (rewrite app_length; reflexivity).
    assert (Hsplit : to_load = rest ++ next) by (unfold rest, next; now rewrite firstn_skipn).
    assert (Hnext : next <> []) by (intros Hx; rewrite Hx in Lnext; cbn [List.length] in Lnext; lia).
    rewrite Lepr, Lall in *.
    cbn [lf_ok] in OK. fold n cap rl rest next in OK. destruct OK as (OK0 & Hbq & Kids).
    cbn [lf_abs lf_ptr lf_addrs]. fold n cap rl rest next.
    set (q := lf_ptr fuel (hword s) rest Other p) in *.
    apply code_at_app2 in HC as [HC0 HC1]. apply labels_at_app2 in HL as [HL0 HL1].
    (* the blocks before *)
    destruct (IH rest existing Other m freed lc c0 freed0 lc0 pos s sp p h F Hlf0 ltac:(rewrite Lrest; lia) ltac:(discriminate) HC0 HL0 FR Hfr P Hh OK0)
      as (s1 & ST1 & EQ1 & Fr1 & Lk1 & V1 & Oth1 & NB1 & Hd1 & (h1 & H1) & O1 & FR1 & SF1).
    { intros Hm x' Hx'. destruct (Room Hm x' Hx'). rewrite Lrest. fold n in H0. lia. }
    cbn [frL] in Fr1, Lk1, V1, Oth1. rewrite Lrest in *. fold E q in Fr1, Lk1, V1, Oth1.
    specialize (Lk1 eq_refl).
    assert (Hfld1 : forall t j, (j < 3)%N -> hword s1 (q + field_offset t j) = hword s (q + field_offset t j)).
    { intros t j Hj. apply NB1. now apply field_not_blk. }
    (* this block *)
    assert (B3 : (N.of_nat (n - rl) <= cap)%N) by lia.
    assert (B4 : (2 * N.of_nat (E + n))%N = (2 * N.of_nat (E + rl + (n - rl)))%N) by (f_equal; f_equal; lia).
    assert (B14 : lv_kids m (hword s1) (rev next) q cap).
    { eapply lv_kids_congr; [|rewrite rev_length, Lnext; lia|exact Kids]. intros j Hj. symmetry. apply Hfld1. lia. }
    assert (B15 : m = Share -> forall x, is_blk x -> min_int <= hword s1 x /\ hword s1 x + Z.of_nat (n - rl) <= max_int).
    { intros Hm x' Hx'. destruct (Room Hm x' Hx') as [R1 R2]. destruct (Hd1 Hm x' Hx') as [D1 D2]. fold n in R2. lia. }
    pose proof (x86_lf_blk_ok_s (pnth pos (List.length c0)) bp next (existing ++ rest) m lc0 lv lc' freed0 (2 * N.of_nat (E + n)) s1 sp q h1 F) as BL.
    cbv zeta in BL. rewrite Lepr, Lnext in BL. fold cap in BL.
    destruct (BL Hlv Hnext B3 B4 Kt Hklm HC1 HL1 FR1 Fr1 Lk1 Hbq H1 B14 B15) as (s2 & ST2 & EQ2 & Lk2 & V2 & Oth2 & NB2 & Hd2 & HH2 & O2 & FR2 & SF2).
    clear BL.
    assert (Hfa : freed_after (tpos (2 * N.of_nat (E + rl))) freed0 bp = frL bp fr).
    { rewrite Efr. destruct (tpos (2 * N.of_nat (E + rl))) as [mr|mp] eqn:Et; cbn [freed_after frL]; destruct bp; auto.
      destruct freed0; [|reflexivity]. specialize (Fr1 eq_refl). apply tpos_reg in Et as [_ Hlt]. lia. }
    rewrite Hfa in *.
    exists s2. split; [|split; [|split; [|split; [|split; [|split; [|split; [|split; [|split; [|split; [|split]]]]]]]]]].
    + eapply steps_app_len; eassumption.
    + eapply st_eqB_trans; [exact EQ2|].
      apply blk_abs_congr; [exact EQ1|intros j Hj; apply Hfld1; lia|exact Hbq|rewrite Lnext; lia|exact B14].
    + intros Hf. destruct bp; cbn [frL] in Hf; [discriminate|]. rewrite Efr in Hf.
      destruct (tpos (2 * N.of_nat (E + rl))) as [mr|mp] eqn:Et.
      * specialize (Fr1 Hf). lia.
      * apply tpos_slot in Et as [_ Ht]. lia.
    + intros Ho. rewrite (Lk2 Ho). f_equal. apply NB1. apply not_blk_off; [exact Hbq|lia].
    + intros i b Hi. set (A := lf_addrs fuel (hword s) rest Other p ++ blk_addrs q cap).
      change (match to_load with [] => [] | _ :: _ => A end) with A.
      set (a := nth (List.length A - n + i) A 0).
      assert (LA : (rl <= List.length (lf_addrs fuel (hword s) rest Other p))%nat).
      { rewrite <- Lrest at 1. apply lf_addrs_length. rewrite Lrest. lia. }
      assert (LB : List.length (blk_addrs q cap) = N.to_nat cap) by (now apply blk_addrs_length).
      destruct (Nat.lt_ge_cases i rl) as [Hlt|Hge].
      * (* a variable of an earlier block *)
        assert (Hi' : nth_error rest i = Some b).
        { rewrite Hsplit in Hi. rewrite nth_error_app1 in Hi by (rewrite Lrest; exact Hlt). exact Hi. }
        destruct (V1 i b Hi') as [VS VF].
        assert (Ea : a = nth (List.length (lf_addrs fuel (hword s) rest Other p) - rl + i) (lf_addrs fuel (hword s) rest Other p) 0).
        { unfold a, A. rewrite app_length, LB. rewrite app_nth1 by lia. f_equal. lia. }
        rewrite Ea.
        assert (U : forall k, (k < 2 * N.of_nat (E + rl))%N -> untouched (tpos k) /\
                     (forall k', (2 * N.of_nat (E + rl) <= k' <= 2 * N.of_nat (E + n))%N -> tpos k <> tpos k')).
        { intros k Hk. destruct (tpos_not_reserved k) as (_ & U2 & U3 & _ & U5).
          split; [split; [apply tpos_loc_ok; lia|auto]|]. intros k' Hk'. apply tpos_neq. lia. }
        split; [|intros Hx].
        -- destruct (U (2 * N.of_nat (E + i) + 1)%N ltac:(lia)) as [U1 U2]. rewrite (Oth2 _ U1 U2). exact VS.
        -- destruct (U (2 * N.of_nat (E + i))%N ltac:(lia)) as [U1 U2]. rewrite (Oth2 _ U1 U2). exact (VF Hx).
      * (* a variable of this block *)
        assert (Hi' : nth_error next (i - rl) = Some b).
        { rewrite Hsplit in Hi. rewrite nth_error_app2 in Hi by (rewrite Lrest; exact Hge). now rewrite Lrest in Hi. }
        assert (Hi'' : (i - rl < n - rl)%nat) by (rewrite <- Lnext; apply nth_error_Some; congruence).
        destruct (V2 _ b Hi') as [VS VF].
        replace (E + rl + (i - rl))%nat with (E + i)%nat in VS, VF by lia.
        set (j := (cap - N.of_nat (n - rl) + N.of_nat (i - rl))%N) in *.
        assert (Hj : (j < cap)%N) by (unfold j; lia).
        assert (Ea : a = q + field_offset Fst j).
        { unfold a, A. rewrite app_length, LB. rewrite app_nth2 by lia.
          rewrite <- (blk_addrs_nth q cap j Hcap Hj). f_equal. unfold j. lia. }
        rewrite Ea. rewrite <- Z.add_assoc, <- fo_snd_fst. rewrite <- !Hfld1 by lia. auto.
    + intros l U Hr. rewrite Oth2; [apply Oth1; [exact U|]|exact U|]; intros k Hk; apply Hr; lia.
    + eapply nonblk_same_trans; eassumption.
    + intros Hm x' Hx'. destruct (Hd1 Hm x' Hx'), (Hd2 Hm x' Hx'). fold n. lia.
    + exact HH2.
    + congruence.
    + exact FR2.
    + exact (stack_frame_trans _ _ _ _ SF1 SF2).
Qed.

(* ====================================================================================== *)
(* X86MemLoadFull.v *)
Theorem x86_load_walk_full_s pos to_load existing lc cs lc' s sp p h F :
  x_load to_load existing lc = Ok (cs, lc') -> to_load <> [] ->
  code_at im pos cs -> labels_at im pos cs -> frame_ok s sp ->
  lget s sp (tpos (2 * N.of_nat (List.length existing))) = Some p -> is_blk p -> rget s HEAP = Some h ->
  walk_pre s p to_load ->
  let fuel := S (List.length to_load) in
  exists s', steps im pos s (pnth pos (List.length cs)) s' /\
    st_eqB (abs_heap F s')
      (if hword s p =? 0 then lf_abs fuel Release (hword s) to_load Last p (abs_heap F s)
       else lf_abs fuel Share (hword s) to_load Last p (Heap.dec p (abs_heap F s))) /\
    (forall i b, nth_error to_load i = Some b ->
       let A := lf_addrs fuel (hword s) to_load Last p in
       let a := nth (List.length A - List.length to_load + i) A 0 in
       lget s' sp (tpos (2 * N.of_nat (List.length existing + i) + 1)) = Some (hword s (a + 8)) /\
       (bchi b <> Ext -> lget s' sp (tpos (2 * N.of_nat (List.length existing + i))) = Some (hword s a))) /\
    (forall k, (k < 2 * N.of_nat (List.length existing))%N -> lget s' sp (tpos k) = lget s sp (tpos k)) /\
    out s' = out s /\ frame_ok s' sp /\
    nonblk_same s s' /\ (exists h', rget s' HEAP = Some h') /\ rget s' FREE = rget s FREE /\ stack_frame s s' sp.
Proof.
  intros Hx Hne HC HL FR P Hb Hh (OK & Room) fuel.
  assert (Hk2E : (2 * N.of_nat (List.length existing) < MAXPOS)%N).
  { unfold x_load in Hx. destruct to_load; [contradiction|]. destruct (x_fresh Fst existing) as [t|] eqn:Et; [|discriminate].
    apply x_fresh_tpos in Et as [_ K]. cbn [tnum_n] in K. now rewrite N.add_0_r in K. }
  (* a common statement for the block register br that holds p for the header test *)
  assert (Main : forall br cs1 pos1 s0, load_register br to_load existing lc = Ok (cs1, lc') ->
     code_at im pos1 cs1 -> labels_at im pos1 cs1 -> frame_ok s0 sp ->
     rget s0 br = Some p -> lget s0 sp (tpos (2 * N.of_nat (List.length existing))) = Some p -> rget s0 HEAP = Some h ->
     (forall a, hword s0 a = hword s a) ->
     exists s', steps im pos1 s0 (pnth pos1 (List.length cs1)) s' /\
       st_eqB (abs_heap F s')
         (if hword s p =? 0 then lf_abs fuel Release (hword s) to_load Last p (abs_heap F s0)
          else lf_abs fuel Share (hword s) to_load Last p (Heap.dec p (abs_heap F s0))) /\
       (forall i b, nth_error to_load i = Some b ->
          let A := lf_addrs fuel (hword s) to_load Last p in
          let a := nth (List.length A - List.length to_load + i) A 0 in
          lget s' sp (tpos (2 * N.of_nat (List.length existing + i) + 1)) = Some (hword s (a + 8)) /\
          (bchi b <> Ext -> lget s' sp (tpos (2 * N.of_nat (List.length existing + i))) = Some (hword s a))) /\
       (forall k, (k < 2 * N.of_nat (List.length existing))%N -> lget s' sp (tpos k) = lget s0 sp (tpos k)) /\
       out s' = out s0 /\ frame_ok s' sp /\
       nonblk_same s s' /\ (exists h', rget s' HEAP = Some h') /\ rget s' FREE = rget s0 FREE /\ stack_frame s0 s' sp).
  { clear HC HL Hx pos cs. intros br cs pos s0 Hlr HC HL FR0 Rb P0 Hh0 W0.
    destruct (load_register_shape _ _ _ _ _ _ Hlr) as (thn & fr1 & lc1 & els & fr2 & lc2 & Ethn & Eels & -> & _).
    pose proof (blk_heap_addr p Hb) as Ha.
    set (seg2 := [ADDIM br 0 (-1)] ++ els) in *.
    apply code_at_app2 in HC as [HC1 HCr]. apply labels_at_app2 in HL as [_ HLr].
    apply code_at_app2 in HCr as [HC2 HCr]. apply labels_at_app2 in HLr as [HL2 HLr].
    apply code_at_app2 in HCr as [HC3 HCr]. apply labels_at_app2 in HLr as [HL3 HLr].
    apply code_at_app2 in HCr as [HC4 HC5]. apply labels_at_app2 in HLr as [HL4 HL5].
    rewrite !pnth_app_len.
    set (p2 := pnth pos (List.length [CMPIM br 0 0; JEL (lab (lc2 + 1))])) in *.
    set (p3 := pnth p2 (List.length seg2)) in *.
    set (p4 := pnth p3 (List.length [JMPL (lab (lc2 + 2)); LAB (lab (lc2 + 1))])) in *.
    set (p5 := pnth p4 (List.length thn)) in *.
    pose proof (HL3 1%nat _ eq_refl) as Lthen. pose proof (HL5 0%nat _ eq_refl) as Lelse. cbn [pnth] in Lelse.
    set (sa := set_flags s0 (Some (hword s0 p, 0))).
    assert (STa : steps im pos s0 (Pos.succ pos) sa).
    { eapply steps_next; [apply (HC1 0%nat); reflexivity| |apply steps_refl]. eapply step_CMPIM0_heap; [exact Rb|exact Ha]. }
    assert (FRa : frame_ok sa sp) by (now apply frame_ok_set_flags).
    assert (Wa : forall a, hword sa a = hword s a) by exact W0.
    assert (Pa : lgetL sa sp false (tpos (2 * N.of_nat (List.length existing))) = Some p) by (rewrite lgetL_false; exact P0).
    assert (Frame : forall s' : xstate, (forall l, untouched l ->
              (forall k, (2 * N.of_nat (List.length existing) <= k <= 2 * N.of_nat (List.length existing + List.length to_load))%N -> l <> tpos k) ->
              lgetL s' sp false l = lgetL sa sp false l) ->
            forall k, (k < 2 * N.of_nat (List.length existing))%N -> lget s' sp (tpos k) = lget s0 sp (tpos k)).
    { intros s' Hfr k Hk. rewrite <- (lgetL_false s' sp), Hfr, lgetL_false; [reflexivity| |intros k' Hk'; apply tpos_neq; lia].
      destruct (tpos_not_reserved k) as (_ & U2 & U3 & _ & U5). split; [apply tpos_loc_ok; lia|auto]. }
    assert (FrameF : forall s' : xstate, (forall l, untouched l ->
              (forall k, (2 * N.of_nat (List.length existing) <= k <= 2 * N.of_nat (List.length existing + List.length to_load))%N -> l <> tpos k) ->
              lgetL s' sp false l = lgetL sa sp false l) -> rget s' FREE = rget s0 FREE).
    { intros s' Hfr. change (lget s' sp (XR FREE) = lget s0 sp (XR FREE)).
      rewrite <- (lgetL_false s' sp), Hfr, lgetL_false; [reflexivity| |intros k _; apply not_eq_sym, tpos_not_reserved].
      split; [cbn; discriminate|]. split; [discriminate|]. split; discriminate. }
    destruct (Z.eqb_spec (hword s p) 0) as [H0|Hn0].
    - (* release *)
      destruct (lf_ext Release (hword s) (hword sa) (fun a _ => Wa a) fuel to_load Last p (abs_heap F sa) (abs_heap F s0) (lf_ok_release _ _ _ _ _ _ OK))
        as (X1 & X2 & X3 & X4); [apply abs_heap_same; reflexivity|].
      destruct (x86_load_fields_ok_s fuel to_load existing Last Release false lc thn fr1 lc1 p4 sa sp p h F Ethn ltac:(unfold fuel; lia) (fun _ => Hne) HC4 HL4 FRa
                  ltac:(discriminate) Pa Hh0 X3 ltac:(discriminate))
        as (sb & STb & EQb & _ & _ & Vb & Ob & NBb & _ & HHb & Outb & FRb & SFb).
      cbn [frL] in Vb, Ob.
      exists sb. split; [|split; [|split; [|split; [|split; [exact Outb|split; [exact FRb|split; [|split; [exact HHb|split; [now apply FrameF|]]]]]]]]].
      + eapply steps_trans; [exact STa|].
        eapply steps_jump; [apply (HC1 1%nat); reflexivity| |].
        { rewrite (step_JEL im _ _ (hword s0 p) 0) by reflexivity. rewrite W0, H0. cbn [Z.eqb]. unfold goto_label. rewrite Lthen. reflexivity. }
        eapply steps_next; [apply (HC3 1%nat); reflexivity|reflexivity|].
        change (Pos.succ (pnth p3 1)) with p4.
        eapply steps_trans; [exact STb|]. fold p5.
        eapply steps_next; [apply (HC5 0%nat); reflexivity|reflexivity|]. apply steps_refl.
      + eapply st_eqB_trans; [exact EQb|exact X4].
      + intros i b Hi A a. destruct (Vb i b Hi) as [VS VF]. rewrite !lgetL_false in VS, VF. rewrite X2 in VS, VF.
        rewrite !Wa in VS, VF. auto.
      + now apply Frame.
      + intros a0 Hna. rewrite NBb by exact Hna. apply Wa.
      + apply (stack_frame_trans s0 sa); [apply stack_frame_set_flags|exact SFb].
    - (* decrement, share *)
      destruct (Room p Hb) as [Rlo Rhi].
      assert (Wd : wrap (hword s p + -1) = hword s p - 1) by (apply wrap_id; unfold min_int, max_int, two63 in *; lia).
      set (sd := set_flags (hset sa p (wrap (hword sa p + -1))) None).
      assert (FRd : frame_ok sd sp) by (apply frame_ok_set_flags, frame_ok_hset; exact FRa).
      assert (Wsd : forall a, hword sd a = if a =? p then hword s p - 1 else hword s a).
      { intros a. unfold sd. rewrite hword_set_flags, hword_hset by (now apply is_blk_pos). rewrite !Wa. now rewrite Wd. }
      assert (Wnb : forall a, ~ is_blk a -> hword sd a = hword s a).
      { intros a Hna. rewrite Wsd. destruct (Z.eqb_spec a p) as [->|]; [contradiction|reflexivity]. }
      assert (EQd : st_eqB (abs_heap F sd) (Heap.dec p (abs_heap F s0))).
      { unfold Heap.dec. split; [reflexivity|]. split; [reflexivity|]. split; [reflexivity|].
        intros x Hx'. cbn [abs_heap Heap.m]. unfold sd. rewrite Wa, Wd. change (Heap.hdr (abs_mem s0 p)) with (hword s0 p). rewrite W0.
        change (abs_mem (set_flags (hset sa p (hword s p - 1)) None) x) with (abs_mem (hset s0 p (hword s p - 1)) x).
        now apply abs_mem_hset. }
      destruct (lf_ext Share (hword s) (hword sd) Wnb fuel to_load Last p (abs_heap F sd) (Heap.dec p (abs_heap F s0)) OK EQd) as (X1 & X2 & X3 & X4).
      unfold seg2 in HC2, HL2. apply code_at_app2 in HC2 as [HC2a HC2b]. apply labels_at_app2 in HL2 as [_ HL2b].
      assert (Pd : lgetL sd sp false (tpos (2 * N.of_nat (List.length existing))) = Some p) by (rewrite lgetL_false; exact P0).
      destruct (x86_load_fields_ok_s fuel to_load existing Last Share false lc1 els fr2 lc2 _ sd sp p h F Eels ltac:(unfold fuel; lia) (fun _ => Hne) HC2b HL2b FRd
                  ltac:(discriminate) Pd Hh0 X3)
        as (se & STe & EQe & _ & _ & Ve & Oe & NBe & _ & HHe & Oute & FRe & SFe).
      { intros _ x Hx'. destruct (Room x Hx'). rewrite Wsd. destruct (x =? p); lia. }
      cbn [frL] in Ve, Oe.
      exists se. split; [|split; [|split; [|split; [|split; [exact Oute|split; [exact FRe|split; [|split; [exact HHe|split; [now apply FrameF|]]]]]]]]].
      + eapply steps_trans; [exact STa|].
        eapply steps_next; [apply (HC1 1%nat); reflexivity| |].
        { rewrite (step_JEL im _ _ (hword s0 p) 0) by reflexivity. rewrite W0. destruct (Z.eqb_spec (hword s p) 0); [contradiction|reflexivity]. }
        change (Pos.succ (Pos.succ pos)) with p2.
        eapply steps_next; [apply (HC2a 0%nat); reflexivity| |].
        { eapply step_ADDIM_heap; [exact Rb|exact Ha|reflexivity]. }
        fold sd. change (Pos.succ p2) with (pnth p2 (List.length [ADDIM br 0 (-1)])).
        eapply steps_trans; [exact STe|]. rewrite <- pnth_app_len. fold seg2. fold p3.
        eapply steps_jump; [apply (HC3 0%nat); reflexivity| |].
        { cbn [step]. unfold goto_label. rewrite Lelse. reflexivity. }
        eapply steps_next; [apply (HC5 0%nat); reflexivity|reflexivity|]. apply steps_refl.
      + eapply st_eqB_trans; [exact EQe|exact X4].
      + intros i b Hi A a. destruct (Ve i b Hi) as [VS VF]. rewrite !lgetL_false in VS, VF. rewrite X2 in VS, VF. fold A a in VS, VF.
        assert (Hi' : (i < List.length to_load)%nat) by (apply nth_error_Some; congruence).
        assert (LA : (List.length to_load <= List.length A)%nat) by (apply lf_addrs_length; unfold fuel; lia).
        assert (Hin : In a A) by (apply nth_In; lia).
        destruct (lf_addrs_in Share (hword s) fuel to_load Last p a OK Hin) as (q & j & Hq & Hj & Ea).
        assert (N1 : ~ is_blk a) by (rewrite Ea; now apply field_not_blk).
        assert (N2 : ~ is_blk (a + 8)) by (rewrite Ea, <- Z.add_assoc, <- fo_snd_fst; now apply field_not_blk).
        rewrite (Wnb _ N1) in VF. rewrite (Wnb _ N2) in VS. auto.
      + now apply Frame.
      + intros a0 Hna. rewrite NBe by exact Hna. now apply Wnb.
      + apply (stack_frame_trans s0 sd); [apply stack_frame_eq; reflexivity|exact SFe]. }
  unfold x_load in Hx. destruct to_load as [|x0 r0]; [contradiction|].
  destruct (x_fresh Fst existing) as [t|] eqn:Et; [|discriminate]. cbn [rbind] in Hx.
  apply x_fresh_tpos in Et as [-> Hk]. cbn [tnum_n] in *. rewrite N.add_0_r in *.
  destruct (tpos (2 * N.of_nat (List.length existing))) as [r|q] eqn:Etp.
  - cbn [lget] in P. rewrite <- Etp in *.
    apply (Main r cs pos s Hx HC HL FR); auto. rewrite Etp. exact P.
  - destruct (load_register TEMP (x0 :: r0) existing lc) as [[c1 lc1]|] eqn:Elr; [|discriminate]. cbn [rbind fst snd] in Hx.
    inversion Hx; subst cs lc'. clear Hx.
    assert (Q : slot_ok q) by (pose proof (tpos_loc_ok _ Hk) as L; rewrite Etp in L; exact L).
    cbn [lget] in P.
    change (MOVL TEMP STACK (stack_offset q) :: c1) with ([MOVL TEMP STACK (stack_offset q)] ++ c1) in *.
    apply code_at_app2 in HC as [HC1 HC2]. apply labels_at_app2 in HL as [_ HL2].
    set (s0 := rset s TEMP (Some p)).
    assert (FR0 : frame_ok s0 sp) by (apply frame_ok_rset; [discriminate|exact FR]).
    rewrite <- Etp in *.
    destruct (Main TEMP c1 _ s0 Elr HC2 HL2 FR0) as (s' & ST & EQ & V & O & Out & FR' & NB' & HH' & FF' & SF'); auto.
    { apply rget_rset_same. }
    { rewrite Etp. cbn [lget]. unfold s0. rewrite sget_rset. exact P. }
    { unfold s0. rewrite rget_rset_other by discriminate. exact Hh. }
    exists s'. split; [|split; [|split; [exact V|split; [|split; [exact Out|split; [exact FR'|split; [exact NB'|split; [exact HH'|split]]]]]]]].
    + eapply steps_app_len; [|exact ST].
      eapply steps_next; [apply (HC1 0%nat); reflexivity| |apply steps_refl].
      rewrite (step_MOVL_slot im s sp FR) by exact Q. rewrite P. reflexivity.
    + eapply st_eqB_trans; [exact EQ|].
      assert (E0 : st_eqB (abs_heap F s0) (abs_heap F s)) by apply abs_heap_rset_temp.
      destruct (hword s p =? 0).
      * apply (lf_ext Release (hword s) (hword s) (fun a _ => eq_refl)); [exact (lf_ok_release _ _ _ _ _ _ OK)|exact E0].
      * apply (lf_ext Share (hword s) (hword s) (fun a _ => eq_refl)); [exact OK|]. apply dec_st_eqB; auto.
    + intros k Hk'. rewrite O by exact Hk'. unfold s0.
      pose proof (tpos_not_temp k) as NT. destruct (tpos k) as [r|q']; cbn [lget]; [apply rget_rset_other; congruence|apply sget_rset].
    + rewrite FF'. unfold s0. apply rget_rset_other. discriminate.
    + apply (stack_frame_trans s s0); [apply stack_frame_rset|exact SF'].
Qed.

Theorem x86_load_full_s pos to_load existing lc cs lc' s sp p h F :
  x_load to_load existing lc = Ok (cs, lc') -> to_load <> [] ->
  code_at im pos cs -> labels_at im pos cs -> frame_ok s sp ->
  lget s sp (tpos (2 * N.of_nat (List.length existing))) = Some p -> is_blk p -> rget s HEAP = Some h ->
  lf_share_ok (S (List.length to_load)) (hword s) to_load Last p ->
  (forall x, is_blk x -> min_int + 1 <= hword s x /\ hword s x + Z.of_nat (List.length to_load) <= max_int) ->
  exists s', steps im pos s (pnth pos (List.length cs)) s' /\
    st_eqB (abs_heap F s') (Heap.load_object (Heap.nlinks (List.length to_load)) p (abs_heap F s)) /\
    (forall i b, nth_error to_load i = Some b ->
       let A := lf_addrs (S (List.length to_load)) (hword s) to_load Last p in
       let a := nth (List.length A - List.length to_load + i) A 0 in
       lget s' sp (tpos (2 * N.of_nat (List.length existing + i) + 1)) = Some (hword s (a + 8)) /\
       (bchi b <> AxSyn.Ext -> lget s' sp (tpos (2 * N.of_nat (List.length existing + i))) = Some (hword s a))) /\
    (forall k, (k < 2 * N.of_nat (List.length existing))%N -> lget s' sp (tpos k) = lget s sp (tpos k)) /\
    out s' = out s /\ frame_ok s' sp /\
    nonblk_same s s' /\ (exists h', rget s' HEAP = Some h') /\ rget s' FREE = rget s FREE /\ stack_frame s s' sp.
Proof.
  intros Hx Hne HC HL FR P Hb Hh OK Room.
  destruct (x86_load_walk_full_s pos to_load existing lc cs lc' s sp p h F Hx Hne HC HL FR P Hb Hh)
    as (s' & ST & EQ & V & O & Out & FR' & NB & HH & FF & SF).
  { split; [now apply lf_share_ok_lf_ok|exact Room]. }
  exists s'. split; [exact ST|]. split; [|auto 12].
  eapply st_eqB_trans; [exact EQ|]. unfold Heap.load_object.
  change (Heap.hdr (Heap.m (abs_heap F s) p)) with (hword s p).
  destruct (hword s p =? 0).
  - rewrite lf_abs_release_load_object; [apply st_eqB_refl|exact Hne|apply ps_w_abs].
  - unfold Heap.load_object_share. apply lf_abs_share_load_object; [exact Hne|apply ps_w_dec, ps_w_abs|exact OK].
Qed.
End LoadStk.

Print Assumptions x86_load_full_s.
