(* C08, forward simulation for HEAP statements: the induction over the fuel of the instrumented machine.
   Every step of `hexec` (Sem/AxHeap.v) is matched by the execution of the statement's code under `hrel`;
   progress (the machine does not get stuck on a linearly checked statement) is part of the proof.
   The counterpart of Proof/X86HSimProg.v; the conclusion is in the `rfin` form of Proof/RVSimAddr.v
   (the run from the statement's code ends at `cleanup` with the machine's observation).
   Chain version (objects of any number of fields), all statement forms.  The conclusion has a second conjunct: the code
   of the statement the machine executes contains an instruction of non-zero size.  That is what makes the landing point
   of an Invoke exist (Proof/RVKClo.hclo_ok promises it under this condition only: a clause code made of labels only - an
   empty Switch behind an empty load - has none, and the RISC-V routine has no epilogue instruction behind `cleanup`); it is
   proved by the same induction: every statement form emits an instruction except Switch, a Switch with two or more clauses
   emits the table dispatch, with one clause the claim is the induction hypothesis for the clause body, and with none the
   machine cannot be there (the scrutinee's tag is a declared constructor by `hrel`). *)
From Coq Require Import List ZArith NArith String Bool Lia FMapPositive Permutation.
From SCC Require Import Base.Sexp Lang.AxSyn Sem.AxSem Sem.AxHeap Model.ParMoves Model.Backend Model.RV Sem.RVSem Sem.RVWf
     Model.Linearize Model.LinCheck Generated.Constants Proof.LinBasics Proof.LinTyping Proof.LinMachine
     Proof.RVSel Proof.SubstGraph Proof.SubstBackends Proof.RVSubst Proof.RVSimAddr Proof.BackendInv Proof.RVSimRel Proof.RVSimStmt
     Proof.RVSimClo Proof.RVHeapAbs Proof.RVHDefs Proof.RVHMem Proof.RVHBridge Proof.HRep Proof.RVKSimRel Proof.RVKSimStmt Proof.RVKSimSubst
     Proof.RVKSimStore Proof.RVKSimLoad Proof.RVHLayout Proof.RVKLayout Proof.RVKFrag Proof.RVKClo Proof.X86HAnn
     Proof.RVKSimProgA Proof.RVKSimHeapB Proof.RVKSimHeapC.
From SCC Require Model.Heap Proof.HeapMore Proof.HeapTrace Proof.HeapRep Proof.AxHeapTyping Proof.AxHeapSafe.
Import ListNotations.
Open Scope Z_scope.
Open Scope list_scope.

Lemma has_in_ids c x k t : has c x k t = true -> In (idn x) (ids c).
Proof.
  unfold has. destruct (lookup_b c (idn x)) as [b|] eqn:L; [|discriminate]. intros _.
  apply lookup_b_Some in L as [Hin Hid]. rewrite <- Hid. now apply In_ids.
Qed.
Lemma find_clause_in cls tag cl : find_clause cls tag = Some cl -> In cl cls.
Proof. unfold find_clause. intros H. apply find_some in H. tauto. Qed.
Lemma vars_ctx_of_env ce : vars (HRep.ctx_of_env ce) = map fst ce.
Proof. unfold vars, HRep.ctx_of_env. rewrite map_map. reflexivity. Qed.
Lemma map_h_id_app (a b : henv) : map h_id (a ++ b) = map h_id a ++ map h_id b.
Proof. apply map_app. Qed.

(* the machine splits off the last entries exactly when the context has them *)
Lemma hsplit_total {X} (he : list X) n : (n <= List.length he)%nat -> exists he0 fs, AxSem.split_last n he = Some (he0, fs) /\ he = he0 ++ fs /\ List.length fs = n.
Proof.
  intros L. unfold AxSem.split_last. destruct (Nat.leb_spec n (List.length he)); [|lia].
  eexists _, _. split; [reflexivity|]. split; [symmetry; apply firstn_skipn|]. rewrite skipn_length. lia.
Qed.

Lemma clauses_k_in cls cl : clauses_k cls = true -> In cl cls -> stmt_k (cl_body cl) = true.
Proof. unfold clauses_k. rewrite forallb_forall. intros H Hin. exact (H cl Hin). Qed.

Section MainH.
Variable im : image.
Variable p : prog.
Variable stop : positive.
Hypothesis IMG : rimg_ok im.
Hypothesis FWD : fwd_ok im.
Hypothesis EVEN : forall pc a, PM.find pc (addr_of im) = Some a -> a mod 2 = 0.
Hypothesis SMALL : forall pc a, PM.find pc (addr_of im) = Some a -> a < 4611686018427387904 - 32.
Hypothesis ENC : forall pc c, PM.find pc (code im) = Some c -> instr_wf c = true.
Hypothesis STOPL : find_label (labels im) "cleanup" = Some stop.
Hypothesis STOPC : exists l, PM.find stop (code im) = Some (LAB l).
Hypothesis ENDC : PM.find (Pos.succ stop) (code im) = None.
Hypothesis DEFS : forall d, In d (pdefs p) ->
  exists pcd lcd cd lcd', find_label (labels im) (show_ident (dname d) +++ "_") = Some pcd /\
    (exists a, PM.find pcd (code im) = Some (LAB (show_ident (dname d) +++ "_")) /\ PM.find pcd (addr_of im) = Some a) /\
    rcs (ptypes p) (dbody d) (dctx d) lcd = Ok (cd, lcd') /\ placed im (Pos.succ pcd) cd.
Hypothesis LP : lin_check_prog p = true.
Hypothesis ANN : ann_check_prog p = true.
Hypothesis FRG : forall d, In d (pdefs p) -> stmt_k (dbody d) = true.
Local Notation CLO := (hclo_ok im p stop).
Local Notation hrel := (hrel (ptypes p) CLO).
Local Notation hinv := (hinv p).

Lemma LIN d : In d (pdefs p) -> lin_check (sigs_of p) (dctx d) (dbody d) = true.
Proof. unfold lin_check_prog in LP. rewrite forallb_forall in LP. exact (LP d). Qed.
Lemma ANNd d : In d (pdefs p) -> ann_check (dctx d) (dbody d) = true.
Proof. unfold ann_check_prog in ANN. rewrite forallb_forall in ANN. exact (ANN d). Qed.

Ltac hstep_with HS G := cbn [hexec hc_env hc_heap hc_stmt] in G |- *; rewrite HS in G |- *.
Ltac nz_tail H := first [exact H | apply has_nz_app_r; nz_tail H].
Lemma nz1 (c : rcode) r : isize c <> 0 -> has_nz (c :: r).
Proof. intros H. exists O, c. auto. Qed.

Lemma hsim_exec : forall fuel s c he hs tr st pc code lc lc',
  stmt_k s = true -> lin_check (sigs_of p) c s = true -> ann_check c s = true ->
  rcs (ptypes p) s c lc = Ok (code, lc') -> placed im pc code ->
  hrel c he hs st -> map h_id he = vars c -> hinv he hs s ->
  XP.not_oof (fst (fst (hexec fuel p (mkhc he hs s) [] tr))) ->
  rfin im stop pc st (fst (fst (hexec fuel p (mkhc he hs s) [] tr))) /\ has_nz code.
Proof.
  induction fuel as [|fuel IH]; intros s c he hs tr st pc code lc lc' FR LC AN CS PL R NM HI G.
  { exfalso. apply G. reflexivity. }
  destruct (hinv_invA p _ _ _ HI) as (hl & fl & cl0 & IA).
  pose proof (hi_p03 _ _ _ _ HI) as K03. pose proof (hinv_fit0 p _ _ _ HI) as FIT0.
  pose proof (hinv_ptrs_ok p _ _ _ HI) as EX.
  pose proof (hrel_length R) as LEN.
  destruct s as [re next|label args|v t tag args next|v t cls|v t env cls next|v tag t args|n v next|a op b v next|nl v next|so a b thenc elsec|v].
  - (* Substitute *)
    cbn [stmt_k] in FR.
    cbn [lin_check] in LC. apply andb_true_iff in LC as [_ LC]. apply andb_true_iff in LC as [LCs LCn].
    cbn [ann_check] in AN.
    destruct (hsubst_total he re) as (he' & HSB).
    { intros q Hq. rewrite (hr_ids R). rewrite forallb_forall in LCs. eapply has_in_ids. exact (LCs q Hq). }
    assert (HS : hstep p he hs (Substitute re next) = HStep (subst_ops he re) he' next None) by (cbn [hstep]; now rewrite HSB).
    hstep_with HS G. cbn [push_print] in G |- *.
    destruct (cs_substitute _ _ _ _ _ _ _ _ CS) as (c1 & lc1 & c2 & c3 & WC & CE & NX & ->). cbn [b_mark rv_backend app] in PL.
    assert (NDn : NoDup (new_ids re)) by (rewrite <- ids_new; exact (XS.lin_nodup _ _ _ LCn)).
    rewrite app_assoc in PL. apply placed_app in PL as [PL2 PL3].
    destruct (hsim_substitute im (ptypes p) CLO c he hs st re he' c1 lc lc1 c2 pc hl fl cl0 R NDn) as (s' & X & R'); auto.
    { intros q Hq. rewrite forallb_forall in LCs. exact (LCs q Hq). }
    { eapply hrel_ctx_of; eauto. }
    { lia. }
    eassert (IHn : rfin im stop _ s' _ /\ has_nz c3).
    { eapply (IH next (map fst re) he' _ _ s'); eauto.
      + eapply hsubst_names; eauto.
      + eapply hinv_step; eauto. }
    destruct IHn as [Fin NZn]. split; [eapply star_rfin; eauto|nz_tail NZn].
  - (* Call *)
    cbn [lin_check] in LC. apply andb_true_iff in LC as [_ LC].
    destruct (lookup_label (sigs_of p) label) as [ps|] eqn:LL; [|discriminate].
    destruct (XP.lookup_label_find_def p label ps LL) as (d & FD & <-).
    destruct (XS.bind_total (vars (dctx d)) (map snd (erase_env he))) as (e' & BD).
    { apply sig_match_iff, same_kt_length in LC. unfold vars, erase_env. rewrite !map_length. unfold hentry in *. lia. }
    assert (HS : hstep p he hs (Call label args) = HStep [] (attach e' (ptrs he)) (dbody d) None) by (cbn [hstep]; now rewrite FD, BD).
    hstep_with HS G. cbn [hrun fold_left rev_append push_print] in G |- *.
    unfold find_def in FD. apply find_some in FD as [IN EQ]. apply ident_eqb_eq in EQ. subst label.
    destruct (DEFS d IN) as (pcd & lcd & cdd & lcd' & FL & CLb & CSd & PLd).
    pose proof (sim_call im st _ _ _ _ _ _ _ pc pcd CS (proj1 PL) FL CLb) as X.
    eassert (IHn : rfin im stop _ st _ /\ has_nz cdd).
    { eapply (IH (dbody d) (dctx d) (attach e' (ptrs he)) hs _ st); eauto.
      + exact (LIN d IN).
      + exact (ANNd d IN).
      + eapply hbind_rel; eauto. exact (XS.lin_nodup _ _ _ (LIN d IN)).
      + rewrite attach_names. exact (XS.bind_ids _ _ _ BD).
      + exact (hinv_step p LP _ _ _ _ _ _ _ HI HS). }
    destruct IHn as [Fin _]. split; [eapply star_rfin; eauto|].
    destruct (cs_call _ _ _ _ _ _ _ _ CS) as (-> & _). apply nz1. cbn; lia.
  - (* Let *)
    cbn [stmt_k] in FR. pose proof FR as FRn.
    pose proof LC as LC0. cbn [lin_check] in LC. apply andb_true_iff in LC as [_ LC].
    destruct (split_lastn (List.length args) c) as [[c0 tl]|] eqn:SPL; [|discriminate].
    apply split_lastn_Some in SPL as [-> SPLn].
    apply andb_true_iff in LC as [LC LCn]. apply andb_true_iff in LC as [CM AO].
    apply ctx_match_Prop in CM as [IDS SKT].
    assert (TN : exists tn, ty_name t = Some tn).
    { unfold args_ok, lookup_xtor, type_xtors in AO. destruct t as [|tn]; [discriminate|]. cbn. eauto. }
    destruct TN as (tn & TN).
    rewrite app_length in LEN.
    destruct (hsplit_total he (List.length args)) as (he0 & fs & SL & -> & LF); [lia|].
    rewrite app_length in LEN. assert (L0 : List.length he0 = List.length c0) by lia.
    assert (IDE : ids_eqb (env_ids (erase_env fs)) (ids args) = true).
    { assert (E : env_ids (erase_env fs) = ids args).
      { pose proof (hr_ids R) as Ids. unfold env_ids, ids, erase_env in *. rewrite !map_app in Ids.
        apply app_inv_len in Ids as [_ Ids]; [|rewrite !map_length; exact L0]. etransitivity; [exact Ids|exact IDS]. }
      rewrite E. apply ids_eqb_refl. }
    assert (HS : hstep p (he0 ++ fs) hs (Let v t tag args next) =
                 HStep [Heap.OAllocObj (map store_ptr fs)] (he0 ++ [(v, VObj tn tag (map h_val fs), fst (Heap.alloc_object (map store_ptr fs) hs))]) next None).
    { cbn [hstep]. rewrite TN, SL, IDE. reflexivity. }
    hstep_with HS G. cbn [rev_append push_print] in G |- *.
    pose proof (hinv_step p LP _ _ _ _ _ _ _ HI HS) as HI'.
    cbn [hrun fold_left Heap.step] in HI'.
    pose proof (hinv_fit0 p _ _ _ HI') as HF.
    cbn [ann_check] in AN. rewrite <- SPLn, split_lastn_app in AN.
    destruct (hsim_let im p stop _ _ hs st v t tag args next lc code lc' pc he0 fs tn hl fl cl0 R LC0 CS PL TN SL IA K03 EX FIT0 HF)
      as (c12 & c3 & lc1 & s' & -> & NX & LCn' & X & R').
    rewrite firstn_app_exact in NX, LCn', R' by exact SPLn.
    apply placed_app in PL as [_ PL3].
    eassert (IHn : rfin im stop _ s' _ /\ has_nz c3).
    { eapply (IH next (c0 ++ [mkb v Prd t]) _ _ _ s'); eauto.
      rewrite map_h_id_app in *. unfold vars in *. rewrite !map_app in *. cbn [map h_id fst bvar].
      apply app_inv_len in NM as [NM _]; [|rewrite !map_length; exact L0]. now rewrite NM. }
    destruct IHn as [Fin NZn]. split; [eapply star_rfin; eauto|nz_tail NZn].
  - (* Switch *)
    rewrite stmt_k_switch in FR. pose proof FR as FRc.
    pose proof LC as LC0. rewrite lin_check_switch in LC. apply andb_true_iff in LC as [_ LC].
    destruct (split_lastn 1 c) as [[c0 [|b [|b' r]]]|] eqn:SLc; try discriminate.
    apply split_lastn_Some in SLc as [-> _].
    apply andb_true_iff in LC as [LC LCc]. apply andb_true_iff in LC as [LC CO]. apply andb_true_iff in LC as [LC TY].
    apply andb_true_iff in LC as [IDb CH]. apply N.eqb_eq in IDb. apply ty_eqb_eq in TY. apply chi_eqb_eq in CH.
    rewrite app_length in LEN. cbn [List.length] in LEN.
    destruct (exists_last (l := he)) as (he0 & [[x val] q] & ->); [intros ->; cbn in LEN; lia|].
    rewrite app_length in LEN. cbn [List.length] in LEN. assert (L0 : List.length he0 = List.length c0) by lia.
    destruct (hr_vals R (List.length he0) x val q) as (b0 & Hb0 & V); [apply nth_error_mid|].
    rewrite L0, nth_error_mid in Hb0. inversion Hb0; subst b0. clear Hb0.
    inversion V as [? z ? ? KE ?|b1 v1 q1 dw t1 t2 NE K1 K2 T1 T2 L1 L2 X]; subst; [congruence|].
    destruct val as [z|tn tag fs|tn cls' ce]; cbn in K1; try congruence. cbn in K2. rewrite <- K2 in *.
    inversion X as [|tn1 tag1 fs1 q1 a1 TW XF|]; subst.
    destruct TW as (d & k' & xk & FD & XP' & _ & FX & SK).
    assert (IDX : idn x = idn v).
    { pose proof (hr_ids R) as Ids. unfold env_ids, ids, erase_env in Ids. rewrite !map_app in Ids. cbn [map fst] in Ids.
      apply app_inj_tail in Ids as [_ E]. congruence. }
    pose proof CO as CO'. unfold cls_ok, type_xtors in CO'. cbn [sigs_of sg_types] in CO'. rewrite FD in CO'.
    destruct (XC.find_clause_total cls (txtors d) tag xk CO' FX) as (cl & FC).
    destruct (XC.find_clause_pos cls (txtors d) tag cl 0%N CO' FC) as (k & xk0 & Hk & Hxk & XPk & FX' & SMk).
    assert (xk0 = xk) by congruence. subst xk0.
    destruct (XS.bind_total (vars (cl_ctx cl)) fs) as (e1 & BD).
    { apply sig_match_iff, same_kt_length in SMk. apply Forall2_len in SK. unfold vars. rewrite map_length. lia. }
    unfold henv, hentry in *.
    assert (HS : hstep p (he0 ++ [(x, VObj tn tag fs, q)]) hs (Switch v (Decl tn) cls) =
                 HStep (load_ops (List.length (cl_ctx cl)) q) (he0 ++ attach e1 (load_ptrs hs (List.length (cl_ctx cl)) q)) (cl_body cl) None).
    { cbn [hstep]. rewrite XC.split_last1_app. apply N.eqb_eq in IDX. rewrite IDX, FC, BD. reflexivity. }
    hstep_with HS G. cbn [push_print] in G |- *.
    pose proof (hinv_step p LP _ _ _ _ _ _ _ HI HS) as HI'.
    assert (RF' : exists lk, fs <> [] -> HeapRep.rep_flds lk (Heap.m hs) fs q).
    { destruct fs as [|f0 fr]; [exists (fun _ => O); congruence|].
      destruct (hinv_last_rep p _ _ _ _ _ _ HI) as (lk & RP). exists lk. intros _. inversion RP; subst. assumption. }
    destruct RF' as (lk & RFlk).
    destruct (hsim_switch im p stop IMG FWD EVEN SMALL STOPC ENDC _ _ hs st v (Decl tn) cls lc code lc' pc he0 x tn tag fs q cl e1 lk hl fl cl0 R LC0 FRc CS PL
                (XC.split_last1_app _ _) FC BD IA K03 ltac:(lia) RFlk)
      as (pcb & lcb & cb & lcb' & s' & X' & CSb & PLb & LCb & NZC & R').
    rewrite removelast_last in CSb, LCb, R'.
    rewrite ann_check_switch in AN. change 1%nat with (List.length [b]) in AN. rewrite split_lastn_app in AN.
    pose proof (find_clause_in _ _ _ FC) as INc.
    eassert (IHn : rfin im stop _ s' _ /\ has_nz cb).
    { eapply (IH (cl_body cl) (c0 ++ cl_ctx cl) _ _ _ s'); eauto.
      + exact (clauses_k_in _ _ FRc INc).
      + unfold ann_clauses_sw in AN. rewrite forallb_forall in AN. apply AN. exact INc.
      + rewrite map_h_id_app in *. unfold vars in *. rewrite !map_app in *. cbn [map] in NM.
        apply app_inj_tail in NM as [NM _]. rewrite NM. f_equal. rewrite attach_names. exact (XS.bind_ids _ _ _ BD). }
    destruct IHn as [Fin NZn]. split; [apply X'; exact Fin|exact (NZC NZn)].
  - (* Create *)
    destruct env as [env|]; [|cbn [stmt_k] in FR; discriminate].
    rewrite stmt_k_create in FR. apply andb_true_iff in FR as [FRc FRn].
    pose proof LC as LC0. rewrite lin_check_create in LC. apply andb_true_iff in LC as [_ LC].
    destruct (split_lastn (List.length env) c) as [[c0 tl]|] eqn:SPL; [|discriminate].
    pose proof SPL as SPL0. apply split_lastn_Some in SPL as [-> SPLn].
    apply andb_true_iff in LC as [LC LCn]. apply andb_true_iff in LC as [LC LCc]. apply andb_true_iff in LC as [CM CO].
    apply ctx_match_Prop in CM as [IDS SKT].
    rewrite ann_check_create, SPL0 in AN. apply andb_true_iff in AN as [AN ANn]. apply andb_true_iff in AN as [ANe ANc].
    apply ctx_eqb_eq in ANe. subst tl.
    assert (TN : exists tn, t = Decl tn).
    { unfold cls_ok, type_xtors in CO. destruct t as [|tn]; [discriminate|eauto]. }
    destruct TN as (tn & ->).
    rewrite app_length in LEN.
    destruct (hsplit_total he (List.length env)) as (he0 & cap & SL & -> & LF); [lia|].
    rewrite app_length in LEN. assert (L0 : List.length he0 = List.length c0) by lia.
    assert (IDE : ids_eqb (env_ids (erase_env cap)) (ids env) = true).
    { assert (E : env_ids (erase_env cap) = ids env).
      { pose proof (hr_ids R) as Ids. unfold env_ids, ids, erase_env in *. rewrite !map_app in Ids.
        apply app_inv_len in Ids as [_ Ids]; [|rewrite !map_length; exact L0]. exact Ids. }
      rewrite E. apply ids_eqb_refl. }
    destruct (XS.bind_total (vars env) (map h_val cap)) as (ce & BDc).
    { unfold vars. rewrite !map_length. lia. }
    assert (HS : hstep p (he0 ++ cap) hs (Create v (Decl tn) (Some env) cls next) =
                 HStep [Heap.OAllocObj (map store_ptr cap)] (he0 ++ [(v, VClo tn cls ce, fst (Heap.alloc_object (map store_ptr cap) hs))]) next None).
    { cbn [hstep ty_name]. rewrite SL, IDE, BDc. reflexivity. }
    hstep_with HS G. cbn [rev_append push_print] in G |- *.
    pose proof (hinv_step p LP _ _ _ _ _ _ _ HI HS) as HI'.
    cbn [hrun fold_left Heap.step] in HI'.
    pose proof (hinv_fit0 p _ _ _ HI') as HF.
    assert (SKP : skipn (List.length (c0 ++ env) - List.length env) (c0 ++ env) = env).
    { rewrite app_length. replace (List.length c0 + List.length env - List.length env)%nat with (List.length c0) by lia.
      rewrite skipn_app, skipn_all, Nat.sub_diag. reflexivity. }
    destruct (hsim_create im p stop IMG FWD EVEN SMALL STOPC ENDC _ _ hs st v (Decl tn) env cls next lc code lc' pc he0 cap tn ce hl fl cl0
                R LC0 SKP ANc FRc CS PL eq_refl SL BDc IA K03 EX FIT0 HF)
      as (c12 & c3 & lc2 & lc3 & rest' & s' & -> & NX & LCn' & X & R').
    rewrite firstn_app_exact in NX, LCn', R' by reflexivity.
    apply placed_app in PL as [_ PL3]. apply placed_app in PL3 as [PL3 _].
    eassert (IHn : rfin im stop _ s' _ /\ has_nz c3).
    { eapply (IH next (c0 ++ [mkb v Cns (Decl tn)]) _ _ _ s'); eauto.
      rewrite map_h_id_app in *. unfold vars in *. rewrite !map_app in *. cbn [map h_id fst bvar].
      apply app_inv_len in NM as [NM _]; [|rewrite !map_length; exact L0]. now rewrite NM. }
    destruct IHn as [Fin NZn]. split; [eapply star_rfin; eauto|].
    apply has_nz_app_r, has_nz_app_l. exact NZn.
  - (* Invoke *)
    pose proof LC as LC0. cbn [lin_check] in LC. apply andb_true_iff in LC as [_ LC].
    destruct (split_lastn 1 c) as [[c0 [|b [|b' r]]]|] eqn:SLc; try discriminate.
    apply split_lastn_Some in SLc as [-> _].
    apply andb_true_iff in LC as [LC AO]. apply andb_true_iff in LC as [LC TY]. apply andb_true_iff in LC as [IDb CH].
    apply N.eqb_eq in IDb. apply ty_eqb_eq in TY. apply chi_eqb_eq in CH.
    rewrite app_length in LEN. cbn [List.length] in LEN.
    destruct (exists_last (l := he)) as (he0 & [[x val] q] & ->); [intros ->; cbn in LEN; lia|].
    rewrite app_length in LEN. cbn [List.length] in LEN. assert (L0 : List.length he0 = List.length c0) by lia.
    destruct (hr_vals R (List.length he0) x val q) as (b0 & Hb0 & V); [apply nth_error_mid|].
    rewrite L0, nth_error_mid in Hb0. inversion Hb0; subst b0. clear Hb0.
    inversion V as [? z ? ? KE ?|b1 v1 q1 a t1 t2 NE K1 K2 T1 T2 L1 L2 X]; subst; [congruence|].
    destruct val as [z|tn tag0 fs|tn cls ce]; cbn in K1; try congruence. cbn in K2.
    inversion X as [| |tn1 cls1 ce1 q1 a1 CLOa XF]; subst.
    pose proof CLOa as (CO & _).
    assert (IDX : idn x = idn v).
    { pose proof (hr_ids R) as Ids. unfold env_ids, ids, erase_env in Ids. rewrite !map_app in Ids. cbn [map fst] in Ids.
      apply app_inj_tail in Ids as [_ E]. congruence. }
    rewrite <- K2 in *. unfold cls_ok, type_xtors in CO. cbn [sigs_of sg_types] in CO.
    unfold args_ok, lookup_xtor, type_xtors in AO. cbn [sigs_of sg_types] in AO.
    destruct (find (fun d => ident_eqb (tname d) tn) (ptypes p)) as [d|] eqn:FD; [|discriminate].
    destruct (find (fun x => ident_eqb (xname x) tag) (txtors d)) as [xk|] eqn:FX; [|discriminate].
    destruct (XC.find_clause_total cls (txtors d) tag xk CO FX) as (cl & FC).
    destruct (XC.find_clause_pos cls (txtors d) tag cl 0%N CO FC) as (k & xk' & Hk & Hxk & XPk & FX' & SMk).
    assert (xk' = xk) by congruence. subst xk'.
    destruct (XS.bind_total (vars (cl_ctx cl)) (map snd (erase_env he0))) as (e1 & BD).
    { apply sig_match_iff, same_kt_length in AO. apply sig_match_iff, same_kt_length in SMk. unfold vars, erase_env. rewrite !map_length. unfold hentry in *. lia. }
    unfold henv, hentry in *.
    assert (HS : hstep p (he0 ++ [(x, VClo tn cls ce, q)]) hs (Invoke v tag (Decl tn) args) =
                 HStep (load_ops (List.length ce) q) (attach e1 (ptrs he0) ++ attach ce (load_ptrs hs (List.length ce) q)) (cl_body cl) None).
    { cbn [hstep]. rewrite XC.split_last1_app. apply N.eqb_eq in IDX. rewrite IDX, FC, BD. reflexivity. }
    hstep_with HS G. cbn [push_print] in G |- *.
    pose proof (hinv_step p LP _ _ _ _ _ _ _ HI HS) as HI'.
    assert (RF' : exists lk, ce <> [] -> HeapRep.rep_flds lk (Heap.m hs) (map snd ce) q).
    { destruct (hinv_last_rep p _ _ _ _ _ _ HI) as (lk & RP). exists lk. intros _. inversion RP; subst. assumption. }
    destruct RF' as (lk & RFlk).
    destruct (hsim_invoke im p stop STOPC ENDC _ _ hs st v tag (Decl tn) args code lc lc' pc he0 x tn cls ce q cl e1 lk hl fl cl0
                R (XC.split_last1_app _ _) FC BD LC0 CS (proj1 PL) IA K03 ltac:(lia) RFlk)
      as (pcb & lcb & cb & lcb' & s' & X' & CSb & PLb & LCb & ANb & FRb & R').
    eassert (IHn : rfin im stop _ s' _ /\ has_nz cb).
    { eapply (IH (cl_body cl) (cl_ctx cl ++ HRep.ctx_of_env ce) _ _ _ s'); eauto.
      rewrite map_h_id_app, !attach_names. unfold vars at 1. rewrite map_app. fold (vars (cl_ctx cl)) (vars (HRep.ctx_of_env ce)).
      rewrite vars_ctx_of_env. f_equal. exact (XS.bind_ids _ _ _ BD). }
    destruct IHn as [Fin NZn]. split; [apply (X' NZn); exact Fin|].
    destruct (cs_invoke _ _ _ _ _ _ _ _ _ _ CS) as (tmpv' & d' & _ & _ & _ & CD).
    destruct (Nat.leb (List.length (txtors d')) 1); [subst code; apply nz1; cbn; lia|destruct CD as (k' & _ & ->)].
    cbv [b_mark b_add_and_jump rv_backend r_add_and_jump]. cbn [app].
    destruct (addi_fits _); cbn [app]; apply nz1; [cbn; lia|apply isize_LI].
  - (* Literal *)
    cbn [stmt_k] in FR.
    cbn [lin_check] in LC. apply andb_true_iff in LC as [_ LC]. cbn [ann_check] in AN.
    assert (HS : hstep p he hs (Literal n v next) = HStep [] (he ++ [(v, VInt n, 0)]) next None) by reflexivity.
    hstep_with HS G. cbn [hrun fold_left rev_append push_print] in G |- *.
    destruct (cs_literal _ _ _ _ _ _ _ _ _ CS) as (tv & c2 & TV & NX & ->). cbn [b_mark b_load_immediate rv_backend app] in PL.
    apply placed_app in PL as [PL1 PL2].
    destruct (hsim_literal im (ptypes p) CLO c he hs st n v tv pc R (XS.lin_nodup _ _ _ LC) TV (proj1 PL1)) as (s' & X & R').
    eassert (IHn : rfin im stop _ s' _ /\ has_nz c2).
    { eapply (IH next (c ++ [mkb v Ext I64]) _ hs _ s'); eauto.
      + rewrite map_h_id_app. unfold vars. rewrite map_app. cbn. unfold vars in NM. now rewrite NM.
      + exact (hinv_step p LP _ _ _ _ _ _ _ HI HS). }
    destruct IHn as [Fin NZn]. split; [eapply star_rfin; eauto|nz_tail NZn].
  - (* Op *)
    cbn [stmt_k] in FR.
    cbn [lin_check] in LC. apply andb_true_iff in LC as [_ LC]. apply andb_true_iff in LC as [LCo LC].
    apply andb_true_iff in LCo as [HA HB]. cbn [ann_check] in AN.
    destruct (hhas_ext_lookup_int (ptypes p) CLO c he hs st a R HA) as (x & LA1).
    destruct (hhas_ext_lookup_int (ptypes p) CLO c he hs st b R HB) as (y & LB1).
    destruct (cs_op _ _ _ _ _ _ _ _ _ _ _ CS) as (tv & ta & tb & c2 & TV & TA & TB & NX & ->). cbn [b_mark b_arith rv_backend app] in PL.
    apply placed_app in PL as [PL1 PL2].
    destruct (eval_op op x y) as [z|w] eqn:EV.
    + assert (HS : hstep p he hs (Op a op b v next) = HStep [] (he ++ [(v, VInt z, 0)]) next None) by (cbn [hstep]; now rewrite LA1, LB1, EV).
      hstep_with HS G. cbn [hrun fold_left rev_append push_print] in G |- *.
      destruct (hsim_op im (ptypes p) CLO c he hs st a op b v x y z tv ta tb pc R (XS.lin_nodup _ _ _ LC) LA1 LB1 EV TV TA TB (proj1 PL1)) as (s' & X & R').
      replace (List.length (r_arith op tv ta tb)) with 1%nat in PL2 by (destruct op; reflexivity).
      eassert (IHn : rfin im stop _ s' _ /\ has_nz c2).
      { eapply (IH next (c ++ [mkb v Ext I64]) _ hs _ s'); eauto.
        * rewrite map_h_id_app. unfold vars. rewrite map_app. cbn. unfold vars in NM. now rewrite NM.
        * exact (hinv_step p LP _ _ _ _ _ _ _ HI HS). }
      destruct IHn as [Fin NZn]. split; [eapply star_rfin; eauto|nz_tail NZn].
    + assert (HS : hstep p he hs (Op a op b v next) = HEnd (OUndef w)) by (cbn [hstep]; now rewrite LA1, LB1, EV).
      hstep_with HS G. cbn [fst].
      destruct (hsim_op_undef im (ptypes p) CLO c he hs st a op b v x y w tv ta tb R (XS.lin_nodup _ _ _ LC) LA1 LB1 EV TV TA TB) as (ci & E & ST).
      rewrite E in PL1. destruct (proj1 PL1 O ci eq_refl) as (HC & (ad & HA')). cbn [padd] in HC, HA'.
      split; [exact (rfin_undef im stop STOPC pc ci ad st w st HC HA' (ST ad))|].
      destruct op; apply nz1; cbn; lia.
  - (* PrintI64 *)
    cbn [stmt_k] in FR. discriminate.
  - (* IfC *)
    cbn [stmt_k] in FR. apply andb_true_iff in FR as [FR1 FR2].
    cbn [lin_check] in LC. apply andb_true_iff in LC as [_ LC].
    apply andb_true_iff in LC as [LC LCe]. apply andb_true_iff in LC as [LCo LCt]. apply andb_true_iff in LCo as [HA HB].
    cbn [ann_check] in AN. apply andb_true_iff in AN as [ANt ANe].
    destruct (hhas_ext_lookup_int (ptypes p) CLO c he hs st a R HA) as (x & LA1).
    assert (LB1 : exists y, match b with Some b0 => lookup_int (erase_env he) b0 | None => Some 0 end = Some y).
    { destruct b as [b|]; [|eauto]. exact (hhas_ext_lookup_int (ptypes p) CLO c he hs st b R HB). }
    destruct LB1 as (y & LB1).
    assert (HS : hstep p he hs (IfC so a b thenc elsec) = HStep [] he (if eval_cmp so x y then thenc else elsec) None) by (cbn [hstep]; now rewrite LA1, LB1).
    hstep_with HS G. cbn [hrun fold_left rev_append push_print] in G |- *.
    destruct (hsim_ifc im (ptypes p) CLO c he hs st so a b x y thenc elsec lc code lc' pc R LA1 LB1 CS PL)
      as (c2 & lc2 & c3 & -> & EL & TH & X).
    pose proof (hinv_step p LP _ _ _ _ _ _ _ HI HS) as HI'. cbn [hrun fold_left] in HI'.
    apply placed_app in PL as [_ PL]. apply placed_app in PL as [PL2 PL]. apply placed_app in PL as [_ PL3].
    rewrite <- !padd_add in PL3. cbn [List.length] in PL2, PL3. rewrite Nat.add_assoc in PL3.
    split.
    2:{ destruct (cs_ifc _ _ _ _ _ _ _ _ _ _ _ CS) as (ta' & c1' & c2' & lc2' & c3' & _ & C1' & _ & _ & EC).
        rewrite EC. cbn [b_mark rv_backend app].
        destruct b as [b|]; [destruct C1' as (tb' & _ & ->)|subst c1']; destruct so; apply nz1; cbn; lia. }
    eapply star_rfin; eauto.
    destruct (eval_cmp so x y).
    + eapply (IH thenc c he hs _ st); eauto.
    + eapply (IH elsec c he hs _ st); eauto.
  - (* Exit *)
    cbn [lin_check] in LC. apply andb_true_iff in LC as [_ HV].
    destruct (hhas_ext_lookup_int (ptypes p) CLO c he hs st v R HV) as (z & LV).
    assert (HS : hstep p he hs (Exit v) = HEnd (OExit z)) by (cbn [hstep]; now rewrite LV).
    hstep_with HS G. cbn [fst].
    destruct (hsim_exit im (ptypes p) CLO c he hs st v z lc code lc' pc stop R LV CS (proj1 PL) STOPL) as (s' & X & FC & _).
    split; [eapply star_rfin; eauto; cbn [finish rev_append]; rewrite <- FC; apply rfin_stop; assumption|].
    destruct (cs_exit _ _ _ _ _ _ _ CS) as (tv & _ & -> & _). apply nz1. cbn; lia.
Qed.
End MainH.
