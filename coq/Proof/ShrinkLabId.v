(* Proof/ShrinkLabId.v (C12, fragment 2) - GENERATED from the label-freshness development of
   Proof/ShrinkProof.v (lift_label_fresh) with the printed form replaced by the identifier itself: the
   NAMES (identifiers) of the definitions of the output are pairwise distinct whenever those of the input
   are - a lifted label is printed unlike every label used so far, hence differs from each of them. *)
From Coq Require Import List ZArith NArith String Bool Lia.
From SCC Require Import Base.Sexp Lang.SynUtil Lang.CoreSyn Lang.AxSyn Sem.FsCheck Model.Shrink Proof.ShrinkProof.
Import ListNotations.
Open Scope list_scope.

Definition lnames_id (ds : list def) : list cident := map (fun d => dname d) ds.
Definition unames_id (u : list cident) : list cident := map (fun x : cident => x) u.
(* what a run does to (lifted_statements, used_labels): the labels of the new definitions are not
   printed like any label used before, pairwise different, and recorded as used *)
Definition lab_post_id (st st' : sst) : Prop :=
  incl (unames_id (s_used st)) (unames_id (s_used st')) /\
  exists nd, s_lifted st' = nd ++ s_lifted st /\ NoDup (lnames_id nd) /\
    (forall n, In n (lnames_id nd) -> ~ In n (unames_id (s_used st)) /\ In n (unames_id (s_used st'))).
Lemma lab_post_same_id : forall st st', s_lifted st' = s_lifted st -> s_used st' = s_used st -> lab_post_id st st'.
Proof.
  intros st st' Hl Hu. split; [rewrite Hu; apply incl_refl|]. exists []. split; [now rewrite Hl|].
  split; [constructor | intros n []].
Qed.
Lemma lab_post_trans_id : forall st1 st2 st3, lab_post_id st1 st2 -> lab_post_id st2 st3 -> lab_post_id st1 st3.
Proof.
  intros st1 st2 st3 [Hi1 [nd1 [Hl1 [Hn1 Hf1]]]] [Hi2 [nd2 [Hl2 [Hn2 Hf2]]]].
  split; [eapply incl_tran; eauto|]. exists (nd2 ++ nd1). split; [rewrite Hl2, Hl1; now rewrite app_assoc|].
  unfold lnames_id in *. rewrite map_app. split.
  - apply NoDup_app_intro; auto. intros n H2 H1. apply Hf2 in H2 as [Hnot _]. apply Hf1 in H1 as [_ Hin]. contradiction.
  - intros n Hin. apply in_app_or in Hin as [Hin|Hin].
    + apply Hf2 in Hin as [Hnot Hin']. split; auto.
    + apply Hf1 in Hin as [Hnot Hin']. split; auto.
Qed.

Lemma fresh_env_lu : forall bs st env st1, fresh_env bs st = (env, st1) ->
  s_lifted st1 = s_lifted st /\ s_used st1 = s_used st.
Proof.
  induction bs as [|b r IH]; intros st env st1 H; simpl in H; [inv H; auto|].
  destruct (fresh_env r _) as [r' st2] eqn:Hr. inv H. apply IH in Hr as [? ?]. simpl in *. auto.
Qed.
Lemma unknown_clauses_lu : forall codata ve tty xs st cls st',
  unknown_clauses codata ve tty xs st = (cls, st') -> s_lifted st' = s_lifted st /\ s_used st' = s_used st.
Proof.
  induction xs as [|[xt args] r IH]; intros st cls st' H; simpl in H; [inv H; auto|].
  destruct (fresh_env _ st) as [env st1] eqn:He. destruct (unknown_clauses _ _ _ r st1) as [r' st2] eqn:Hr. inv H.
  apply fresh_env_lu in He as [? ?]. apply IH in Hr as [? ?]. split; congruence.
Qed.
Lemma critical_clauses_lu : forall codata ve tty se xs st cls st',
  critical_clauses codata ve tty se xs st = (cls, st') -> s_lifted st' = s_lifted st /\ s_used st' = s_used st.
Proof.
  induction xs as [|[xt args] r IH]; intros st cls st' H; simpl in H; [inv H; auto|].
  destruct (fresh_env _ st) as [env st1] eqn:He. destruct (critical_clauses _ _ _ _ r _) as [r' st2] eqn:Hr. inv H.
  apply fresh_env_lu in He as [? ?]. apply IH in Hr as [? ?]. simpl in *. split; congruence.
Qed.

Section LabStep_id.
Variable rec : fsstmt -> sst -> shres (stmt * sst).
Variable E : senv.
Hypothesis Hrec : forall s st r st', rec s st = SOk (r, st') -> lab_post_id st st'.

Lemma shrink_clauses_lab_id : forall cls st r st', shrink_clauses rec E cls st = SOk (r, st') -> lab_post_id st st'.
Proof.
  induction cls as [|[c x ctx b] rr IH]; intros st r st' H; simpl in H.
  - inv H. now apply lab_post_same_id.
  - destruct (rec b st) as [[b' st1]|] eqn:Hb; [|discriminate]. cbn [sbind] in H.
    destruct (shrink_clauses rec E rr st1) as [[r' st2]|] eqn:Hr; [|discriminate]. cbn [sbind] in H. inv H.
    eapply lab_post_trans_id; eauto.
Qed.

Lemma lift_lab_id : forall s st r st', lift rec E s st = SOk (r, st') -> lab_post_id st st'.
Proof.
  intros s st r st' H. apply lift_closed in H.
  destruct H as [_ [_ [_ [_ [label [body [st3 [_ [_ [Hnew [_ [Hb ->]]]]]]]]]]]].
  apply Hrec in Hb as [Hi [nd3 [Hl3 [Hn3 Hf3]]]]. cbn [s_lifted s_used] in *.
  assert (Hlab : ~ In label (unames_id (s_used st))).
  { intros Hin. unfold unames_id in Hin. apply in_map_iff in Hin as [u [Heq Hu]].
    assert (existsb (fun u => String.eqb (show_cident u) (show_cident label)) (s_used st) = true).
    { apply existsb_exists. exists u. split; auto. rewrite Heq. apply String.eqb_refl. }
    congruence. }
  split.
  - intros n Hn. apply Hi. unfold unames_id. simpl. now right.
  - exists (mkd label (shrink_context (e_codata E) (fresh_params (typed_free_vars s) (s_max st))) body :: nd3).
    split; [now rewrite Hl3|]. unfold lnames_id in *. cbn [map dname]. split.
    + constructor; auto. intros Hin. apply Hf3 in Hin as [Hnot _]. apply Hnot. unfold unames_id. simpl. now left.
    + intros n [<-|Hin].
      * split; auto. apply Hi. unfold unames_id. simpl. now left.
      * apply Hf3 in Hin as [Hnot Hin']. split; auto. intros Hc. apply Hnot. unfold unames_id. simpl. now right.
Qed.

Lemma shrink_step_lab_id : forall s st r st', shrink_step rec E s st = SOk (r, st') -> lab_post_id st st'.
Proof.
  intros s st r st' H. destruct s as [p ty k|so a b t e|nl a nx|f args|v].
  - cbn [shrink_step] in H. unfold shrink_cut in H.
    destruct p as [c1 v1 t1|l1|a1 o1 b1|c1 v1 s1 t1|c1 x1 args1 t1|c1 cls1 t1];
    destruct k as [c2 v2 t2|l2|a2 o2 b2|c2 v2 s2 t2|c2 x2 args2 t2|c2 cls2 t2];
      try discriminate H;
      try (unfold shrink_renaming in H; eapply Hrec; exact H);
      try (inv H; apply lab_post_same_id; reflexivity);
      try (unfold fresh_var, fresh_identifier in H; inv H; apply lab_post_same_id; reflexivity);
      try (destruct (rec _ st) as [[nx st1]|] eqn:Hr; [|discriminate]; cbn [sbind] in H; inv H; eapply Hrec; exact Hr);
      try (destruct (shrink_clauses rec E _ st) as [[cls' st1]|] eqn:Hc; [|discriminate]; cbn [sbind] in H;
           first [ inv H; eapply shrink_clauses_lab_id; exact Hc
                 | destruct (rec _ st1) as [[nx st2]|] eqn:Hr; [|discriminate]; cbn [sbind] in H; inv H;
                   eapply lab_post_trans_id; [eapply shrink_clauses_lab_id; exact Hc | eapply Hrec; exact Hr] ]);
      try (unfold shrink_known_cuts in H; destruct (find _ _) as [cl|]; [|discriminate]; eapply Hrec; exact H).
    + (* XVar, XVar *) unfold shrink_unknown_cuts in H. destruct ty as [|n]; [inv H; now apply lab_post_same_id|].
      destruct (xtors_of E (CDecl n) n) as [xs|]; [|discriminate]. cbn [sbind] in H.
      destruct (is_codata (e_codata E) (CDecl n)); cbv beta iota in H;
        destruct (unknown_clauses _ _ _ _ _) as [cls st1] eqn:Hc; inv H;
        apply unknown_clauses_lu in Hc as [? ?]; now apply lab_post_same_id.
    + (* Mu, Mu *) unfold shrink_critical_pairs in H. destruct ty as [|n].
      * destruct (rec s2 st) as [[body st1]|] eqn:H1; [|discriminate]. cbn [sbind] in H.
        destruct (rec s1 st1) as [[next st2]|] eqn:H2; [|discriminate]. cbn [sbind] in H. inv H.
        eapply lab_post_trans_id; eapply Hrec; eauto.
      * destruct (xtors_of E (CDecl n) n) as [xs|]; [|discriminate]. cbn [sbind] in H.
        assert (Hgen : forall vk sk ve se,
          (dos (shrunk, st1) <- (if Nat.leb (List.length xs) 1 || is_leaf_statement se then rec se st else lift rec E se st);
           let '(clauses, st2) := critical_clauses (e_codata E) ve (shrink_ty (CDecl n)) shrunk xs st1 in
           dos (next, st3) <- rec sk st2;
           SOk (Create (shrink_identifier vk) (Decl (shrink_identifier n)) None clauses next, st3)) = SOk (r, st') ->
          lab_post_id st st').
        { intros vk sk ve se H0.
          destruct (if _ || _ then _ else _) as [[shrunk st1]|] eqn:He; [|discriminate]. cbn [sbind] in H0.
          destruct (critical_clauses _ _ _ _ _ _) as [cls st2] eqn:Hc.
          destruct (rec sk st2) as [[next st3]|] eqn:Hk; [|discriminate]. cbn [sbind] in H0. inv H0.
          apply critical_clauses_lu in Hc as [Hl2 Hu2].
          eapply lab_post_trans_id; [|eapply lab_post_trans_id; [apply lab_post_same_id; eauto | eapply Hrec; exact Hk]].
          destruct (_ || _); [eapply Hrec | eapply lift_lab_id]; exact He. }
        destruct (is_codata (e_codata E) (CDecl n)); cbv beta iota in H; eapply Hgen; exact H.
  - cbn [shrink_step] in H.
    destruct (rec t st) as [[t' st1]|] eqn:Hr1; [|discriminate]. cbn [sbind] in H.
    destruct (rec e st1) as [[e' st2]|] eqn:Hr2; [|discriminate]. cbn [sbind] in H. inv H.
    eapply lab_post_trans_id; eapply Hrec; eauto.
  - cbn [shrink_step] in H.
    destruct (rec nx st) as [[t' st1]|] eqn:Hr1; [|discriminate]. cbn [sbind] in H. inv H. eapply Hrec; eauto.
  - cbn [shrink_step] in H. inv H. now apply lab_post_same_id.
  - cbn [shrink_step] in H. inv H. now apply lab_post_same_id.
Qed.
End LabStep_id.

Lemma shrink_stmt_lab_id : forall E fuel s st r st', shrink_stmt fuel E s st = SOk (r, st') -> lab_post_id st st'.
Proof.
  intros E fuel. induction fuel as [|fuel IH]; intros s st r st' H; [discriminate|].
  simpl in H. eapply shrink_step_lab_id; eauto.
Qed.

Lemma lnames_rev_append_in_id : forall o acc n, In n (lnames_id (rev_append o acc)) <-> In n (lnames_id o) \/ In n (lnames_id acc).
Proof.
  intros o acc n. unfold lnames_id. rewrite rev_append_rev, map_app, map_rev, in_app_iff, <- in_rev. tauto.
Qed.
Lemma lnames_rev_append_nodup_id : forall o acc,
  NoDup (lnames_id o) -> NoDup (lnames_id acc) -> (forall n, In n (lnames_id o) -> In n (lnames_id acc) -> False) ->
  NoDup (lnames_id (rev_append o acc)).
Proof.
  intros o acc Ho Ha Hd. unfold lnames_id in *. rewrite rev_append_rev, map_app, map_rev.
  apply NoDup_app_intro; auto; [now apply NoDup_rev|]. intros x Hx. apply in_rev in Hx. now apply Hd.
Qed.

Lemma shrink_defs_lab_id : forall ds data codata used m acc out m',
  shrink_defs ds data codata used m acc = SOk (out, m') ->
  NoDup (lnames_id acc) -> incl (lnames_id acc) (unames_id used) ->
  (forall d, In d ds -> In (fsdname d) (unames_id used)) ->
  NoDup (map (fun d : fsdef => fsdname d) ds) ->
  (forall d, In d ds -> ~ In (fsdname d) (lnames_id acc)) ->
  NoDup (lnames_id out).
Proof.
  induction ds as [|d r IH]; intros data codata used m acc out m' H Hnd Hincl Hin Hnames Hdisj; simpl in H.
  - inv H. unfold frev. apply lnames_rev_append_nodup_id; [exact Hnd | constructor | intros n _ []].
  - destruct (shrink_def d data codata used m) as [[[o u1] m1]|] eqn:Hd; [|discriminate]. cbn [sbind] in H.
    unfold shrink_def in Hd.
    destruct (shrink_stmt _ _ _ _) as [[body st]|] eqn:Hs; [|discriminate]. cbn [sbind] in Hd. inv Hd.
    apply shrink_stmt_lab_id in Hs as [Hi [nd [Hl [Hn Hf]]]]. cbn [s_lifted s_used] in *. rewrite app_nil_r in Hl. subst nd.
    inversion Hnames as [|x l Hdn Hrn]; subst.
    assert (Hd_used : In (fsdname d) (unames_id used)) by (apply Hin; now left).
    eapply IH in H; eauto.
    + (* NoDup acc' *)
      apply lnames_rev_append_nodup_id; auto.
      * unfold lnames_id. cbn [map dname]. unfold shrink_identifier. constructor; auto.
        intros Hc. apply Hf in Hc as [Hnot _]. contradiction.
      * intros n Hn1 Hn2. unfold lnames_id in Hn1. cbn [map dname] in Hn1. destruct Hn1 as [<-|Hn1].
        -- eapply Hdisj; [now left | exact Hn2].
        -- apply Hf in Hn1 as [Hnot _]. apply Hnot. now apply Hincl.
    + (* acc' within used' *)
      intros n Hn0. apply lnames_rev_append_in_id in Hn0 as [Hn0|Hn0].
      * unfold lnames_id in Hn0. cbn [map dname] in Hn0. destruct Hn0 as [<-|Hn0]; [now apply Hi | now apply Hf in Hn0 as [_ ?]].
      * apply Hi. now apply Hincl.
    + intros d' Hd'. apply Hi. apply Hin. now right.
    + intros d' Hd' Hc. apply lnames_rev_append_in_id in Hc as [Hc|Hc].
      * unfold lnames_id in Hc. cbn [map dname] in Hc. destruct Hc as [Heq|Hc].
        -- apply Hdn. unfold shrink_identifier in Heq. rewrite Heq. apply in_map with (f := fun d => fsdname d). exact Hd'.
        -- apply Hf in Hc as [Hnot _]. apply Hnot. apply Hin. now right.
      * eapply Hdisj; [right; exact Hd' | exact Hc].
Qed.

Theorem lift_label_fresh_id : forall p q,
  NoDup (map (fun d : fsdef => fsdname d) (fspdefs p)) -> shrink_prog p = SOk q ->
  NoDup (map (fun d => dname d) (pdefs q)).
Proof.
  intros p q Hn H. unfold shrink_prog in H. destruct (_ || _); [discriminate|].
  destruct (shrink_defs _ _ _ _ _ _) as [[defs m]|] eqn:Hd; [|discriminate]. cbn [sbind] in H. inv H. cbn [pdefs].
  change (NoDup (lnames_id defs)).
  eapply shrink_defs_lab_id; eauto.
  - constructor.
  - intros n [].
  - intros d Hin. unfold unames_id. rewrite map_map. apply in_map with (f := fun d => fsdname d). exact Hin.
Qed.
