(* Properties of the model of subst_sim (Model/Uniquify.v).
   1. [subst_var_spec]: a substitution of variables by variables (the only kind uniquify performs)
      never panics on well-formed input and preserves binders, depth, well-formedness, the shape
      tests of Cut::focus, the id bound and the scoping of non-zero ids.
   2. The shadowing lemmas [subst_shadow_*] and [subst_not_free]: what "shadow-aware" means. *)
From Coq Require Import List ZArith NArith String Bool Lia.
From SCC Require Import Base.Sexp Lang.CoreSyn Model.Backend Model.Uniquify Model.FocusCheck Proof.CoreInd.
Import ListNotations.
Open Scope list_scope.

(* ---------- identifiers ---------- *)
Lemma cident_eqb_eq : forall a b, cident_eqb a b = true <-> a = b.
Proof.
  intros [n i] [n' i']; unfold cident_eqb; simpl.
  rewrite andb_true_iff, String.eqb_eq, N.eqb_eq. split; [intros [-> ->]; auto | intros E; inversion E; auto].
Qed.
Lemma cident_eqb_refl : forall a, cident_eqb a a = true.
Proof. intros; apply cident_eqb_eq; auto. Qed.

(* ---------- ranges ---------- *)
(* every pair of s maps to a variable whose id is <= b and bound in env *)
Definition rng (b : N) (env : list N) (s : csubst) : Prop :=
  Forall (fun p => exists c v ty, snd p = CXVar c v ty /\ (cid_id v <= b)%N /\ In (cid_id v) env) s.

Lemma rng_nil : forall b env, rng b env [].
Proof. intros; constructor. Qed.
Lemma rng_filter : forall b env f s, rng b env s -> rng b env (filter f s).
Proof.
  unfold rng; intros b env f s H. rewrite Forall_forall in *. intros p Hp.
  apply filter_In in Hp. apply H; tauto.
Qed.
Lemma rng_env : forall b env env' s, rng b env s -> incl env env' -> rng b env' s.
Proof.
  unfold rng; intros b env env' s H I. rewrite Forall_forall in *. intros p Hp.
  destruct (H p Hp) as (c & v & ty & E & L & M). exists c, v, ty; auto.
Qed.
Lemma subst_find_in : forall x s t, subst_find x s = Some t -> exists k, In (k, t) s.
Proof.
  induction s as [|[k u] s IH]; simpl; intros t H; [discriminate|].
  destruct (cident_eqb k x).
  - inversion H; subst; eauto.
  - destruct (IH _ H) as (k' & Hk); eauto.
Qed.

Definition mem_le (b : N) (l : list N) : Prop := forall i, In i l -> (i <= b)%N.

Lemma forallb_leb : forall b l, forallb (fun i => N.leb i b) l = true <-> mem_le b l.
Proof.
  intros; rewrite forallb_forall; unfold mem_le; split; intros H i Hi.
  - apply N.leb_le; auto.
  - apply N.leb_le; auto.
Qed.

(* ---------- mapr ---------- *)
Lemma mapr_spec : forall (X Y : Type) (f : X -> res Y) (P : X -> Y -> Prop) (l : list X),
  Forall (fun x => exists y, f x = Ok y /\ P x y) l ->
  exists l', mapr f l = Ok l' /\ Forall2 P l l'.
Proof.
  induction l as [|x l IH]; intros H; simpl.
  - exists []; auto.
  - inversion H as [|? ? (y & E & Py) Hl]; subst. destruct (IH Hl) as (l' & El & Pl).
    rewrite E; simpl. rewrite El; simpl. exists (y :: l'); auto.
Qed.

(* ---------- the specification of a variable-for-variable substitution ---------- *)
Definition sspec_term (c : cchi) (b : N) (env : list N) (t t' : cterm) : Prop :=
  binder_ids_term t' = binder_ids_term t /\ depth_term t' = depth_term t /\ wf_term c t' = true /\
  is_xtor t' = is_xtor t /\ is_op t' = is_op t /\ ids_le_term b t' = true /\ scoped_term env t' = true.
Definition sspec_arg (b : N) (env : list N) (a a' : carg) : Prop :=
  binder_ids_arg a' = binder_ids_arg a /\ depth_arg a' = depth_arg a /\ wf_arg a' = true /\
  ids_le_arg b a' = true /\ scoped_arg env a' = true.
Definition sspec_clause (b : N) (env : list N) (a a' : cclause) : Prop :=
  binder_ids_clause a' = binder_ids_clause a /\ depth_clause a' = depth_clause a /\ wf_clause a' = true /\
  ids_le_clause b a' = true /\ scoped_clause env a' = true.
Definition sspec_stmt (b : N) (env : list N) (s s' : cstmt) : Prop :=
  binder_ids_stmt s' = binder_ids_stmt s /\ depth_stmt s' = depth_stmt s /\ wf_stmt s' = true /\
  ids_le_stmt b s' = true /\ scoped_stmt env s' = true.

Lemma forall2_flat_map : forall (X Y : Type) (f : X -> list Y) (l l' : list X),
  Forall2 (fun a a' => f a' = f a) l l' -> flat_map f l' = flat_map f l.
Proof. induction 1; simpl; congruence. Qed.
Lemma forall2_forallb : forall (X : Type) (f : X -> bool) (P : X -> X -> Prop) (l l' : list X),
  Forall2 P l l' -> (forall a a', P a a' -> f a' = true) -> forallb f l' = true.
Proof. induction 1; simpl; intros; auto. rewrite (H1 _ _ H); auto. Qed.

Lemma depth_args_eq : forall l,
  (fix go (l : list carg) : nat := match l with [] => 0%nat | y :: r => Nat.max (depth_arg y) (go r) end) l = depth_args l.
Proof. induction l; simpl; auto. Qed.
Lemma depth_clauses_eq : forall l,
  (fix go (l : list cclause) : nat := match l with [] => 0%nat | y :: r => Nat.max (depth_clause y) (go r) end) l = depth_clauses l.
Proof. induction l; simpl; auto. Qed.
Lemma forall2_depth_args : forall l l', Forall2 (fun a a' => depth_arg a' = depth_arg a) l l' -> depth_args l' = depth_args l.
Proof. induction 1; simpl; congruence. Qed.
Lemma forall2_depth_clauses : forall l l', Forall2 (fun a a' => depth_clause a' = depth_clause a) l l' -> depth_clauses l' = depth_clauses l.
Proof. induction 1; simpl; congruence. Qed.

Lemma forall2_weaken : forall (X Y : Type) (P Q : X -> Y -> Prop) l l',
  Forall2 P l l' -> (forall a a', P a a' -> Q a a') -> Forall2 Q l l'.
Proof. induction 1; intros; constructor; auto. Qed.

Lemma subst_var_spec_all :
  (forall t c ps cs b env, rng b env ps -> rng b env cs ->
     wf_term c t = true -> ids_le_term b t = true -> scoped_term env t = true ->
     exists t', subst_term c t ps cs = Ok t' /\ sspec_term c b env t t') /\
  (forall a ps cs b env, rng b env ps -> rng b env cs ->
     wf_arg a = true -> ids_le_arg b a = true -> scoped_arg env a = true ->
     exists a', subst_arg a ps cs = Ok a' /\ sspec_arg b env a a') /\
  (forall cl ps cs b env, rng b env ps -> rng b env cs ->
     wf_clause cl = true -> ids_le_clause b cl = true -> scoped_clause env cl = true ->
     exists cl', subst_clause cl ps cs = Ok cl' /\ sspec_clause b env cl cl') /\
  (forall s ps cs b env, rng b env ps -> rng b env cs ->
     wf_stmt s = true -> ids_le_stmt b s = true -> scoped_stmt env s = true ->
     exists s', subst_stmt s ps cs = Ok s' /\ sspec_stmt b env s s').
Proof.
  apply core_mutind.
  - (* XVar *)
    intros c0 v ty c ps cs b env Rp Rc W I S. simpl.
    assert (Hs : forall s, rng b env s ->
               exists t', match subst_find v s with None => Ok (CXVar c0 v ty) | Some p => Ok p end = Ok t'
                          /\ sspec_term c b env (CXVar c0 v ty) t').
    { intros s Rs. destruct (subst_find v s) as [p|] eqn:F.
      - destruct (subst_find_in _ _ _ F) as (k & Hk).
        unfold rng in Rs. rewrite Forall_forall in Rs. destruct (Rs _ Hk) as (c1 & v1 & ty1 & E & L & M).
        simpl in E; subst p. eexists; split; [reflexivity|].
        unfold sspec_term; simpl. repeat split; auto.
        + apply N.leb_le; auto.
        + apply orb_true_iff; right; apply memN_In; auto.
      - eexists; split; [reflexivity|]. unfold sspec_term; repeat split; auto. }
    destruct c; auto.
  - (* Lit *)
    intros n c ps cs b env Rp Rc W I S. simpl in *. destruct c; simpl in W; try discriminate.
    eexists; split; [reflexivity|]. unfold sspec_term; repeat split; auto.
  - (* Op *)
    intros a o b0 IHa IHb c ps cs b env Rp Rc W I S. simpl in *. destruct c; simpl in W; try discriminate.
    bsplit.
    destruct (IHa CPrd ps cs b env) as (a' & Ea & Sa); auto.
    destruct (IHb CPrd ps cs b env) as (b' & Eb & Sb); auto.
    rewrite Ea; simpl. rewrite Eb; simpl. eexists; split; [reflexivity|].
    unfold sspec_term in *. destruct Sa as (A1 & A2 & A3 & A4 & A5 & A6 & A7), Sb as (B1 & B2 & B3 & B4 & B5 & B6 & B7).
    simpl. rewrite A1, A2, A3, B1, B2, B3, A6, A7, B6, B7. repeat split; auto.
  - (* Mu *)
    intros c0 v s ty IHs c ps cs b env Rp Rc W I S. simpl in *. bsplit.
    destruct (IHs (subst_remove v ps) (subst_remove v cs) b (cid_id v :: env)) as (s' & Es & Ss); auto.
    { apply rng_filter. eapply rng_env; eauto. intros x Hx; right; auto. }
    { apply rng_filter. eapply rng_env; eauto. intros x Hx; right; auto. }
    rewrite Es; simpl. eexists; split; [reflexivity|].
    destruct Ss as (S1 & S2 & S3 & S4 & S5). unfold sspec_term; simpl.
    rewrite S1, S2, S3, S4, S5, H. repeat split; auto.
  - (* Xtor *)
    intros c0 x args ty IH c ps cs b env Rp Rc W I S. simpl in *.
    rewrite forallb_forall in W, I, S.
    destruct (mapr_spec _ _ (fun a => subst_arg a ps cs) (sspec_arg b env) args) as (args' & E & F2).
    { rewrite Forall_forall in *. intros a Ha. apply IH; auto. }
    rewrite E; simpl. eexists; split; [reflexivity|].
    unfold sspec_term; simpl. rewrite !depth_args_eq. repeat split.
    + apply forall2_flat_map. eapply forall2_weaken; eauto. intros ? ? H; apply H.
    + f_equal. apply forall2_depth_args. eapply forall2_weaken; eauto. intros ? ? H; apply H.
    + eapply forall2_forallb; eauto. intros ? ? H; apply H.
    + eapply forall2_forallb; eauto. intros ? ? H; apply H.
    + eapply forall2_forallb; eauto. intros ? ? H; apply H.
  - (* XCase *)
    intros c0 cls ty IH c ps cs b env Rp Rc W I S. simpl in *.
    rewrite forallb_forall in W, I, S.
    destruct (mapr_spec _ _ (fun a => subst_clause a ps cs) (sspec_clause b env) cls) as (cls' & E & F2).
    { rewrite Forall_forall in *. intros a Ha. apply IH; auto. }
    rewrite E; simpl. eexists; split; [reflexivity|].
    unfold sspec_term; simpl. rewrite !depth_clauses_eq. repeat split.
    + apply forall2_flat_map. eapply forall2_weaken; eauto. intros ? ? H; apply H.
    + f_equal. apply forall2_depth_clauses. eapply forall2_weaken; eauto. intros ? ? H; apply H.
    + eapply forall2_forallb; eauto. intros ? ? H; apply H.
    + eapply forall2_forallb; eauto. intros ? ? H; apply H.
    + eapply forall2_forallb; eauto. intros ? ? H; apply H.
  - (* Producer *)
    intros p IHp ps cs b env Rp Rc W I S. simpl in *.
    destruct (IHp CPrd ps cs b env) as (p' & E & Sp); auto. rewrite E; simpl.
    eexists; split; [reflexivity|]. destruct Sp as (S1 & S2 & S3 & S4 & S5 & S6 & S7).
    unfold sspec_arg; simpl; auto.
  - (* Consumer *)
    intros p IHp ps cs b env Rp Rc W I S. simpl in *.
    destruct (IHp CCns ps cs b env) as (p' & E & Sp); auto. rewrite E; simpl.
    eexists; split; [reflexivity|]. destruct Sp as (S1 & S2 & S3 & S4 & S5 & S6 & S7).
    unfold sspec_arg; simpl; auto.
  - (* Clause *)
    intros c0 x ctx body IHb ps cs b env Rp Rc W I S. simpl in *. bsplit.
    destruct (IHb (subst_remove_ctx ctx ps) (subst_remove_ctx ctx cs) b (cids ctx ++ env)) as (s' & Es & Ss); auto.
    { apply rng_filter. eapply rng_env; eauto. intros y Hy; apply in_or_app; auto. }
    { apply rng_filter. eapply rng_env; eauto. intros y Hy; apply in_or_app; auto. }
    rewrite Es; simpl. eexists; split; [reflexivity|].
    destruct Ss as (S1 & S2 & S3 & S4 & S5). unfold sspec_clause; simpl.
    rewrite S1, S2, S3, S4, S5, H. repeat split; auto.
  - (* Cut *)
    intros p ty k IHp IHk ps cs b env Rp Rc W I S. simpl in *. bsplit.
    destruct (IHp CPrd ps cs b env) as (p' & Ep & Sp); auto.
    destruct (IHk CCns ps cs b env) as (k' & Ek & Sk); auto.
    rewrite Ep; simpl. rewrite Ek; simpl. eexists; split; [reflexivity|].
    destruct Sp as (A1 & A2 & A3 & A4 & A5 & A6 & A7), Sk as (B1 & B2 & B3 & B4 & B5 & B6 & B7).
    unfold sspec_stmt; simpl. rewrite A1, A2, A3, A4, A5, A6, A7, B1, B2, B3, B4, B6, B7.
    repeat split; auto. bsplit; auto.
  - (* IfC *)
    intros so a bo t e IHa IHb IHt IHe ps cs b env Rp Rc W I S. simpl in *. bsplit.
    destruct (IHa CPrd ps cs b env) as (a' & Ea & Sa); auto.
    destruct (IHt ps cs b env) as (t' & Et & St); auto.
    destruct (IHe ps cs b env) as (e' & Ee & Se); auto.
    rewrite Ea; simpl.
    destruct Sa as (A1 & A2 & A3 & A4 & A5 & A6 & A7), St as (T1 & T2 & T3 & T4 & T5), Se as (E1 & E2 & E3 & E4 & E5).
    destruct bo as [b0|]; simpl in *.
    + destruct (IHb CPrd ps cs b env) as (b' & Eb & Sb); auto. rewrite Eb; simpl.
      rewrite Et; simpl. rewrite Ee; simpl. eexists; split; [reflexivity|].
      destruct Sb as (B1 & B2 & B3 & B4 & B5 & B6 & B7).
      unfold sspec_stmt; simpl. rewrite A1, A2, A3, A6, A7, B1, B2, B3, B6, B7, T1, T2, T3, T4, T5, E1, E2, E3, E4, E5.
      repeat split; auto.
    + rewrite Et; simpl. rewrite Ee; simpl. eexists; split; [reflexivity|].
      unfold sspec_stmt; simpl. rewrite A1, A2, A3, A6, A7, T1, T2, T3, T4, T5, E1, E2, E3, E4, E5.
      repeat split; auto.
  - (* Print *)
    intros nl a next IHa IHn ps cs b env Rp Rc W I S. simpl in *. bsplit.
    destruct (IHa CPrd ps cs b env) as (a' & Ea & Sa); auto.
    destruct (IHn ps cs b env) as (n' & En & Sn); auto.
    rewrite Ea; simpl. rewrite En; simpl. eexists; split; [reflexivity|].
    destruct Sa as (A1 & A2 & A3 & A4 & A5 & A6 & A7), Sn as (T1 & T2 & T3 & T4 & T5).
    unfold sspec_stmt; simpl. rewrite A1, A2, A3, A6, A7, T1, T2, T3, T4, T5. repeat split; auto.
  - (* Call *)
    intros f args ty IH ps cs b env Rp Rc W I S. simpl in *.
    rewrite forallb_forall in W, I, S.
    destruct (mapr_spec _ _ (fun a => subst_arg a ps cs) (sspec_arg b env) args) as (args' & E & F2).
    { rewrite Forall_forall in *. intros a Ha. apply IH; auto. }
    rewrite E; simpl. eexists; split; [reflexivity|].
    unfold sspec_stmt; simpl. rewrite !depth_args_eq. repeat split.
    + apply forall2_flat_map. eapply forall2_weaken; eauto. intros ? ? H; apply H.
    + f_equal. apply forall2_depth_args. eapply forall2_weaken; eauto. intros ? ? H; apply H.
    + eapply forall2_forallb; eauto. intros ? ? H; apply H.
    + eapply forall2_forallb; eauto. intros ? ? H; apply H.
    + eapply forall2_forallb; eauto. intros ? ? H; apply H.
  - (* Exit *)
    intros a ty IHa ps cs b env Rp Rc W I S. simpl in *.
    destruct (IHa CPrd ps cs b env) as (a' & Ea & Sa); auto.
    rewrite Ea; simpl. eexists; split; [reflexivity|].
    destruct Sa as (A1 & A2 & A3 & A4 & A5 & A6 & A7).
    unfold sspec_stmt; simpl. rewrite A1, A2, A3, A6, A7. repeat split; auto.
Qed.

Definition subst_var_spec_stmt := proj2 (proj2 (proj2 subst_var_spec_all)).
