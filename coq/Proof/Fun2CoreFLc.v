(* ======================================================================================
   Proof/Fun2CoreFLc  -  statement of the fundamental lemma of the simulation ([flw] for
   compile_with_cont, [flc] for compile) and its building blocks: producers compiled by the default
   method, argument lists, the call of a top-level definition, constructor values.
   ====================================================================================== *)
From Coq Require Import List ZArith NArith String Bool Lia.
From SCC Require Import Base.Sexp Lang.SynUtil Lang.FunSyn Lang.FunTy Lang.CoreSyn.
From SCC Require Import Sem.AxSem Sem.CoreSem Sem.FunSem Model.Fun2Core.
From SCC Require Import Proof.Fun2CoreProof Proof.Fun2CoreSim Proof.Fun2CoreTfv Proof.Fun2CoreInv Proof.Fun2CoreUB
     Proof.Fun2CoreRel Proof.Fun2CoreFLa Proof.Fun2CoreFLb.
Import ListNotations.
Open Scope string_scope.
Open Scope list_scope.

Definition Sof (bs : bset) : cident -> Prop := fun x => In x (cnames bs).

Lemma names_neq_mu : forall c x s ty y, In y (cnames (fvs s)) -> y <> x -> In y (cnames (fvt (CMu c x s ty))).
Proof.
  intros c x s ty y Hy Hne. apply in_cnames_inv in Hy. destruct Hy as [bb [Hb E]]. subst y.
  apply in_cnames. apply fvt_mu_2; [exact Hb|]. intros Eb. subst bb. apply Hne. reflexivity.
Qed.
Lemma rev_append_nil_twice : forall X (l : list X), rev_append (rev_append l []) [] = l.
Proof. intros X l. rewrite !rev_append_rev, !app_nil_r. apply rev_involutive. Qed.
Lemma Forall2_rev_append : forall X Y (R : X -> Y -> Prop) l l' a a',
  Forall2 R l l' -> Forall2 R a a' -> Forall2 R (rev_append l a) (rev_append l' a').
Proof.
  intros X Y R l l' a a' H. revert a a'. induction H as [|x y r r' Hxy Hr IH]; intros a a' Ha; simpl; [exact Ha|].
  apply IH. constructor; assumption.
Qed.
Lemma cbind_snoc : forall xs vs y w ce1, cbind xs vs [(y, w)] = Some ce1 -> cbind (xs ++ [y]) (vs ++ [w]) [] = Some ce1.
Proof.
  induction xs as [|x r IH]; intros vs y w ce1 H; destruct vs as [|v vr]; simpl in *; try discriminate.
  - exact H.
  - destruct (cbind r vr [(y, w)]) as [e|] eqn:E; [|discriminate]. rewrite (IH _ _ _ _ E). exact H.
Qed.
Lemma fchi_list_eqb_eq : forall a b, list_eqb fchi_eqb a b = true -> a = b.
Proof.
  induction a as [|x a IH]; intros [|y b]; simpl; intros H; try discriminate; [reflexivity|].
  apply andb_prop in H. destruct H as [H1 H2]. apply IH in H2. subst.
  destruct x, y; simpl in H1; try discriminate; reflexivity.
Qed.

Section FLc.
  Variable p : fcprog.
  Variable cp : cprog.
  Hypothesis Hcod : cpcodata cp = codata_of p.

  Definition lifted_ok (st : cstate) : Prop :=
    forall d, In d (st_lifted st) -> cfind_def cp (cdname d) = Some d.
  Definition Gused (G : list cbinding) (st : cstate) : Prop :=
    forall bb, In bb G -> exists x, cbvar bb = new_id x /\ In x (st_used_vars st).
  Definition names_in (l : list cident) (st : cstate) : Prop :=
    forall x, In x l -> exists y, x = new_id y /\ In y (st_used_vars st).

  Lemma lifted_ok_grows : forall st st', lifted_ok st' -> grows st st' -> lifted_ok st.
  Proof. intros st st' H Hg d Hd. apply H. eapply grows_lifted_incl; eauto. Qed.
  Lemma Gused_grows : forall G st st', Gused G st -> grows st st' -> Gused G st'.
  Proof.
    intros G st st' H Hg bb Hb. destruct (H bb Hb) as [x [E Hx]]. exists x. split; [exact E|].
    eapply grows_vars_incl; eauto.
  Qed.
  Lemma names_in_grows : forall l st st', names_in l st -> grows st st' -> names_in l st'.
  Proof.
    intros l st st' H Hg x Hx. destruct (H x Hx) as [y [E Hy]]. exists y. split; [exact E|].
    eapply grows_vars_incl; eauto.
  Qed.
  Lemma incl_grows : forall l st st', incl l (st_used_vars st) -> grows st st' -> incl l (st_used_vars st').
  Proof. intros l st st' H Hg x Hx. eapply grows_vars_incl; eauto. Qed.

  (* what the compiled program contains for a callable source definition *)
  Definition callee_ok (d : fdef) : Prop :=
    exists a body st st' ty,
      wc (codata_of p) (fdname d) false (fdbody d) (CXVar CCns (new_id a) ty) st = Ok (body, st') /\
      In a (st_used_vars st) /\ ~ In a (bnd (fdbody d)) /\ ~ In a (fvars (fdctx d)) /\
      incl (fvars (fdctx d)) (st_used_vars st) /\ incl (bnd (fdbody d)) (st_used_vars st) /\
      lifted_ok st' /\
      cfind_def cp (new_id (fdname d)) =
        Some (mkcd (new_id (fdname d))
                   (compile_ctx (fdctx d) ++ [mkcb (new_id a) CCns (compile_ty (fdret d))]) body) /\
      frag p (fdbody d) = true /\ ws (compile_ctx (fdctx d)) (fdbody d) = true /\
      kd p (fdbody d) = true /\ tkind p (fdbody d) = f_is_codata p (fdret d).

  (* compile_with_cont: the continuation has the kind of the term *)
  Definition flw (N : nat) (t : fterm) : Prop :=
    forall n, (n <= N)%nat -> forall G cur cont st s st' e ce k,
      wc (codata_of p) cur false t cont st = Ok (s, st') ->
      frag p t = true -> kd p t = true -> ws G t = true ->
      lifted_ok st' -> Gused G st -> incl (bnd t) (st_used_vars st) ->
      names_in (cnames (fvt cont)) st ->
      cont_shape cp (tkind p t) cont ->
      erel p cp n G (Sof (fvs s)) e ce ->
      CK p cp n (tkind p t) k cont ce (Sof (fvs s)) ->
      sim p cp n (FEval t e k) (SNext (Run s ce)).

  (* compile, for a term of a DATA kind in argument position: evaluated, the value handed to the
     machine continuation *)
  Definition flc (N : nat) (t : fterm) : Prop :=
    forall n, (n <= N)%nat -> forall G cur ty st c st' e ce k m,
      cmp (codata_of p) cur false t ty st = Ok (c, st') ->
      frag p t = true -> kd p t = true -> tkind p t = false -> ws G t = true ->
      lifted_ok st' -> Gused G st -> incl (bnd t) (st_used_vars st) ->
      is_codata cp ty = false ->
      erel p cp n G (Sof (fvt c)) e ce ->
      Kb p cp n k (KRet m) ->
      sim p cp n (FEval t e k) (SNext (Arg (CProducer c) ce m)).

  (* compile, for a term of a CODATA kind: not evaluated; the producer denotes, in one machine step, a
     by-name value that is related to the source thunk of the term *)
  Definition flt (N : nat) (t : fterm) : Prop :=
    forall n, (n <= N)%nat -> forall G cur ty st c st' e ce,
      cmp (codata_of p) cur false t ty st = Ok (c, st') ->
      frag p t = true -> kd p t = true -> tkind p t = true -> ws G t = true ->
      lifted_ok st' -> Gused G st -> incl (bnd t) (st_used_vars st) ->
      is_codata cp ty = true ->
      erel p cp n G (Sof (fvt c)) e ce ->
      exists pv,
        (forall m, cstep cp (Arg (CProducer c) ce m) = SNext (App m (BP pv))) /\
        (forall v s ty', cstep cp (Run (CCut c ty (CMu CCns v s ty')) ce) = SNext (Run s ((v, BP pv) :: ce))) /\
        (forall cd tag vals, cut_with_k cd c ce (KDtor tag vals) = interact_val pv (KDtor tag vals)) /\
        Co p cp n (FvThunk t e) pv /\
        (forall y ty0 chi, t = FVar y ty0 chi ->
           exists val, flookup e y = Some (FbP val) /\ vrel p cp n val pv /\ cval val).

  (* ---------- producers compiled by the default method: mu a. [[t]]_a ---------- *)
  Lemma CK_covar : forall n c k a ty kv ce (S : cident -> Prop),
    clookup ce (new_id a) = Some (BK kv) -> Kk p cp n c k kv ->
    CK p cp n c k (CXVar CCns (new_id a) ty) ce S.
  Proof.
    intros n c k a ty kv ce S Hl Hk. split.
    - intros bb Hb _. apply fvt_var in Hb. subst bb. simpl. exists (BK kv). split; [exact Hl | reflexivity].
    - intros _ ce' Ha. exists kv. split; [|exact Hk]. simpl.
      rewrite (Ha (new_id a)); [rewrite Hl; reflexivity|]. simpl. left. reflexivity.
  Qed.

  (* the obligations of flw for the body of a default producer, at either kind *)
  Lemma default_body : forall N t (W : string -> cterm -> M cstmt),
    (forall cur cont, wc (codata_of p) cur false t cont = W cur cont) ->
    flw N t ->
    forall n, (n <= N)%nat -> forall G cur ty st a sta s st' e ce k kv,
    fresh_covar st = Ok (a, sta) -> W cur (CXVar CCns (new_id a) ty) sta = Ok (s, st') ->
    frag p t = true -> kd p t = true -> ws G t = true ->
    lifted_ok st' -> Gused G st -> incl (bnd t) (st_used_vars st) ->
    erel p cp n G (Sof (fvt (CMu CPrd (new_id a) s ty))) e ce ->
    Kk p cp n (tkind p t) k kv ->
    sim p cp n (FEval t e k) (SNext (Run s ((new_id a, BK kv) :: ce))).
  Proof.
    intros N t W HW H n Hn G cur ty st a sta s st' e ce k kv Ha Hs Hf Hkd Hw Hl HG Hb He HK.
    destruct (fresh_in_vars_inv _ _ _ _ Ha) as [Hfresh [Hused _]].
    assert (Hgr : grows st sta) by (eapply mgrows_fresh_covar; exact Ha).
    apply (H n Hn G cur (CXVar CCns (new_id a) ty) sta s st' e _ k).
    - rewrite HW. exact Hs.
    - exact Hf.
    - exact Hkd.
    - exact Hw.
    - exact Hl.
    - eapply Gused_grows; eauto.
    - eapply incl_grows; eauto.
    - intros x Hx. simpl in Hx. destruct Hx as [Hx|[]]. subst x.
      exists a. split; [reflexivity|]. rewrite Hused. left. reflexivity.
    - exact I.
    - eapply erel_gen; [exact He | |].
      + intros bb Hbb E. destruct (HG bb Hbb) as [x [Ex Hx]]. rewrite Ex in E. apply new_id_inj in E. subst x. exact (Hfresh Hx).
      + intros x Hx Hne. apply names_neq_mu; assumption.
    - apply CK_covar with (kv := kv); [|exact HK]. rewrite clookup_cons, cid_eqb_refl. reflexivity.
  Qed.

  Lemma flc_default : forall N t (W : string -> cterm -> M cstmt),
    (forall cur cont, wc (codata_of p) cur false t cont = W cur cont) ->
    (forall cur ty, cmp (codata_of p) cur false t ty = default_compile (W cur) ty) ->
    flw N t -> flc N t.
  Proof.
    intros N t W HW HC H n Hn G cur ty st c st' e ce k m Hc Hf Hkd Hk0 Hw Hl HG Hb Hty He HK.
    rewrite HC in Hc. apply default_compile_inv in Hc. destruct Hc as [a [sta [s [Ha [Hs Ec]]]]]. subst c.
    apply sim_cstep. simpl. rewrite Hty.
    eapply (default_body N t W HW H n Hn G cur ty st a sta s st' e ce k (KRet m)); eauto.
    rewrite Hk0. exact HK.
  Qed.

  (* the thunk of a codata-kind term compiled by the default method *)
  Lemma flt_default : forall N t (W : string -> cterm -> M cstmt),
    (forall cur cont, wc (codata_of p) cur false t cont = W cur cont) ->
    (forall cur ty, cmp (codata_of p) cur false t ty = default_compile (W cur) ty) ->
    (forall y ty0 chi, t <> FVar y ty0 chi) ->
    flw N t -> flt N t.
  Proof.
    intros N t W HW HC Hnv H n Hn G cur ty st c st' e ce Hc Hf Hkd Hk1 Hw Hl HG Hb Hty He.
    rewrite HC in Hc. apply default_compile_inv in Hc. destruct Hc as [a [sta [s [Ha [Hs Ec]]]]]. subst c.
    exists (PThunk (new_id a) s ce). split; [|split; [|split; [|split]]].
    - intros m. simpl. rewrite Hty. reflexivity.
    - intros v s0 ty'. simpl. rewrite Hty. reflexivity.
    - intros cd tag vals. simpl. destruct cd; reflexivity.
    - apply Co_intro. intros j Hj x args args' k kv Hargs Hd Hk.
      eapply sim_fstep; [reflexivity|]. simpl interact_val.
      eapply (default_body N t W HW H j ltac:(lia) G cur ty st a sta s st' e ce); eauto.
      + eapply erel_weaken; [exact He | | lia]. intros z Hz. exact Hz.
      + rewrite Hk1. apply Kk_dtor; assumption.
    - intros y ty0 chi E. exfalso. exact (Hnv y ty0 chi E).
  Qed.

  (* ---------- argument lists ---------- *)
  Lemma fstep_args_eval : forall y r done e f k,
    match y with FVar _ _ (Some FCns) => False | _ => True end -> tkind p y = false ->
    fstep p (FArgs done (y :: r) e f k) = FNext (FEval y e (FkArgs done r e f k)).
  Proof.
    intros y r done e f k Hn Hd. unfold tkind in Hd.
    destruct y; simpl in *; try (rewrite Hd; reflexivity); try reflexivity.
    destruct chi as [[|]|]; try contradiction; rewrite Hd; reflexivity.
  Qed.
  Lemma fstep_args_thunk : forall y r done e f k,
    match y with FVar _ _ _ => False | _ => True end -> tkind p y = true ->
    fstep p (FArgs done (y :: r) e f k) = FNext (FArgs (FbP (FvThunk y e) :: done) r e f k).
  Proof.
    intros y r done e f k Hn Hd. unfold tkind in Hd.
    destruct y; simpl in *; try contradiction; try (rewrite Hd; reflexivity); try discriminate Hd.
  Qed.
  Lemma fstep_args_covar : forall v ty chi r done e f k val,
    chi <> Some FCns -> f_is_codata_o p ty = true -> flookup e v = Some (FbP val) ->
    fstep p (FArgs done (FVar v ty chi :: r) e f k) = FNext (FArgs (FbP val :: done) r e f k).
  Proof.
    intros v ty chi r done e f k val Hn Hd El. simpl.
    destruct chi as [[|]|]; try congruence; rewrite Hd, El; reflexivity.
  Qed.

  Definition okb (po : bool) (y : fterm) (b : fbv) : Prop := if po then dfield b else vok (tkind p y) b.

  Lemma args_sim : forall N args, Forall (flc N) args -> Forall (flt N) args ->
    forall n, (n <= N)%nat -> forall po G cur st l st' e ce tail f fin k done done',
    subst_with (fun y => cmp (codata_of p) cur false y) args st = Ok (l, st') ->
    forallb (arg_ok p) args = true -> forallb (arg_kd p) args = true ->
    (po = true -> forallb (fun y => negb (is_cns_var y) && negb (tkind p y)) args = true) ->
    forallb (ws_arg G) args = true ->
    lifted_ok st' -> Gused G st -> incl (flat_map bnd args) (st_used_vars st) ->
    erel p cp n G (Sof (fva l)) e ce ->
    (forall j, (j <= n)%nat -> forall new new', Forall2 (brel p cp j) new new' ->
       Forall2 (fun b y => okb po y b /\ fkind b = compile_chi (arg_chi y)) new args ->
       sim p cp j (FArgs (rev_append new done) [] e f k) (cargs_res cp (rev_append new' done') tail ce fin)) ->
    sim p cp n (FArgs done args e f k) (cargs_res cp done' (l ++ tail) ce fin).
  Proof.
    intros N args HA HT. revert HT. induction HA as [|y r Hy Hr IH]; intros HT;
      intros n Hn po G cur st l st' e ce tail f fin k done done' Hs Hf Hkd Hpo Hw Hl HG Hb He Hfin.
    - simpl in Hs. apply mret_inv in Hs. destruct Hs; subst. simpl. apply (Hfin n (Nat.le_refl n) [] []); constructor.
    - inversion HT as [|? ? Hty Htr]; subst.
      apply subst_with_cons_inv in Hs. destruct Hs as [a [st1 [rest [Ha [Hrest El]]]]]. subst l.
      simpl in Hf, Hkd, Hw. apply andb_prop in Hf. destruct Hf as [Hf1 Hf2]. apply andb_prop in Hw. destruct Hw as [Hw1 Hw2].
      apply andb_prop in Hkd. destruct Hkd as [Hkd1 Hkd2].
      assert (Hg1 : grows st st1).
      { unfold compile_arg in Ha. revert Ha. apply mgrows_compile_arg. intros ty.
        apply (proj2 (wc_cmp_grows (codata_of p) cur false y)). }
      assert (Hgr : grows st1 st').
      { revert Hrest. apply mgrows_subst_with. apply Forall_forall. intros a0 _ ty.
        apply (proj2 (wc_cmp_grows (codata_of p) cur false a0)). }
      assert (Hb1 : incl (bnd y) (st_used_vars st)) by (intros z Hz; apply Hb; simpl; apply in_or_app; left; exact Hz).
      assert (Hb2 : incl (flat_map bnd r) (st_used_vars st1)).
      { eapply incl_grows; [|exact Hg1]. intros z Hz. apply Hb. simpl. apply in_or_app. right. exact Hz. }
      assert (He2 : forall j, (j <= n)%nat -> erel p cp j G (Sof (fva rest)) e ce).
      { intros j Hj. eapply erel_weaken; [exact He | | exact Hj]. intros x Hx. unfold Sof in *.
        apply in_cnames_inv in Hx. destruct Hx as [bb [Hbb E]]. subst x. apply in_cnames. apply fva_cons. right. exact Hbb. }
      assert (Hpo2 : po = true -> forallb (fun y0 => negb (is_cns_var y0) && negb (tkind p y0)) r = true).
      { intros E. specialize (Hpo E). simpl in Hpo. apply andb_prop in Hpo. tauto. }
      assert (He1 : forall j c0, a = CProducer c0 -> (j <= n)%nat -> erel p cp j G (Sof (fvt c0)) e ce).
      { intros j c0 E Hj. subst a. eapply erel_weaken; [exact He | | exact Hj]. intros x Hx. unfold Sof in *.
        apply in_cnames_inv in Hx. destruct Hx as [bb [Hbb E]]. subst x. apply in_cnames. apply fva_cons. left. exact Hbb. }
      (* what to do once the argument's value b ~ b' has been pushed *)
      assert (Hnext : forall j b b', (j <= n)%nat -> (j <= N)%nat -> brel p cp j b b' ->
                okb po y b -> fkind b = compile_chi (arg_chi y) ->
                sim p cp j (FArgs (b :: done) r e f k) (cargs_res cp (b' :: done') (rest ++ tail) ce fin)).
      { intros j b b' Hjn HjN Hbb Hok Hkind.
        apply (IH Htr j HjN po G cur st1 rest st' e ce tail f fin k (b :: done) (b' :: done')); auto.
        - eapply Gused_grows; eauto.
        - intros i Hi new new' Hnew Hkinds.
          apply (Hfin i ltac:(lia) (b :: new) (b' :: new')).
          + constructor; [|exact Hnew]. eapply brel_mono; [exact Hbb | lia].
          + constructor; [|exact Hkinds]. split; assumption. }
      simpl app. unfold cargs_res at 1.
      apply compile_arg_inv in Ha. destruct Ha as [[v [ty [ty0 [Ey [Ety [Ea Est]]]]]]|[Hncns [ty0 [c [Ety [Ec Ea]]]]]].
      + (* a covariable: looked up *)
        subst y a st1 ty. simpl in Hw1. unfold ws_arg in Hw1. apply var_ok_inv in Hw1.
        destruct Hw1 as [ty1 [E1 Hg]]. injection E1 as E1. subst ty1.
        destruct (erel_covar p cp n G _ e ce v _ He Hg) as [k0 [kv0 [El [Ec Hk0]]]].
        { unfold Sof. apply (in_cnames (mkcb (new_id v) CCns (compile_ty ty0))). apply fva_cons. left. apply fvt_var. reflexivity. }
        destruct n as [|n1]; [apply sim_zero|].
        eapply sim_fstep; [simpl; rewrite El; reflexivity|].
        apply sim_cstep. simpl. rewrite Ec. apply sim_cstep. rewrite cstep_app_margs.
        assert (Hpof : po = false).
        { destruct po; [|reflexivity]. specialize (Hpo eq_refl). simpl in Hpo. discriminate. }
        apply (Hnext n1 (FbK k0) (BK kv0)); try lia.
        * simpl. eapply Kb_mono; [exact Hk0 | lia].
        * subst po. exact I.
        * reflexivity.
      + subst a. destruct (ws_arg_not_cns p G y Hncns) as [Ew Ef]. rewrite Ew in Hw1. rewrite Ef in Hf1.
        apply andb_prop in Hf1. destruct Hf1 as [Hf1 _].
        assert (Hkdy : kd p y = true).
        { destruct y; try exact Hkd1. reflexivity. }
        assert (Hchi : compile_chi (arg_chi y) = CPrd).
        { destruct y; try reflexivity. destruct chi as [[|]|]; try reflexivity. contradiction. }
        assert (Hcdty : is_codata cp (compile_ty ty0) = tkind p y).
        { rewrite (is_codata_compile p cp Hcod). unfold tkind. rewrite Ety. reflexivity. }
        destruct (tkind p y) eqn:Hk1.
        * (* codata: by name *)
          assert (Hpof : po = false).
          { destruct po; [|reflexivity]. specialize (Hpo eq_refl). simpl in Hpo. rewrite Hk1 in Hpo.
            rewrite andb_false_r in Hpo. discriminate. }
          destruct n as [|n1]; [apply sim_zero|].
          destruct (Hty (S n1) Hn G cur (compile_ty ty0) st c st1 e ce Ec Hf1 Hkdy Hk1 Hw1) as [pv [Harg [_ [_ [HCo Hvar]]]]].
          { eapply lifted_ok_grows; eauto. }
          { exact HG. }
          { exact Hb1. }
          { exact Hcdty. }
          { apply (He1 (S n1) c eq_refl). lia. }
          apply sim_cstep. rewrite Harg. apply sim_cstep. rewrite cstep_app_margs.
          destruct y; try (eapply sim_fstep; [apply fstep_args_thunk; [exact I | exact Hk1]|];
                           apply (Hnext n1 _ (BP pv)); try lia;
                           [simpl; eapply Co_mono; [exact HCo | lia] | subst po; unfold okb, vok; rewrite Hk1; exact I | rewrite Hchi; reflexivity]).
          (* a variable of codata type: its value *)
          destruct (Hvar v ty chi eq_refl) as [val [El [Hv Hcv]]].
          eapply sim_fstep.
          { apply fstep_args_covar with (val := val); [|exact Hk1|exact El]. destruct chi as [[|]|]; try congruence; contradiction. }
          apply (Hnext n1 (FbP val) (BP pv)); try lia.
          -- simpl. eapply vrel_mono; [exact Hv | lia].
          -- subst po. unfold okb, vok. rewrite Hk1. exact Hcv.
          -- rewrite Hchi; reflexivity.
        * (* data: evaluated *)
          destruct n as [|n1]; [apply sim_zero|].
          eapply sim_fstep; [apply fstep_args_eval; assumption|].
          apply (Hy n1 (Nat.lt_le_incl _ _ Hn) G cur (compile_ty ty0) st c st1 e ce _ _ Ec Hf1 Hkdy Hk1 Hw1).
          -- eapply lifted_ok_grows; eauto.
          -- exact HG.
          -- exact Hb1.
          -- exact Hcdty.
          -- apply (He1 n1 c eq_refl). lia.
          -- apply Kb_intro. intros j Hj v pv Hd Hv. rewrite (dval_interact_ret p cp j v pv _ Hd Hv).
             destruct j as [|j1]; [apply sim_zero|].
             eapply sim_fstep; [reflexivity|]. apply sim_cstep. rewrite cstep_app_margs.
             apply (Hnext j1 (FbP v) (BP pv)); try lia.
             ++ simpl. eapply vrel_mono; [exact Hv | lia].
             ++ destruct po; unfold okb, vok; [exact Hd | rewrite Hk1; exact Hd].
             ++ rewrite Hchi; reflexivity.
  Qed.
End FLc.
