(* What `Backend.code_statement` emits, statement form by statement form, for ANY back end (inversion
   lemmas; the x86-64 development has its own copies in Proof/X86SimStmt.v / X86SimClo.v, stated for
   `x86_backend`).  Also: where `translate` puts the definitions, and the fact that the emitted code of
   a statement is never empty. *)
From Coq Require Import List ZArith NArith String Bool Lia.
From SCC Require Import Base.Sexp Lang.AxSyn Model.ParMoves Model.Backend.
Import ListNotations.
Open Scope list_scope.

Section Inv.
Context {Code Temp : Type} (B : backend Code Temp).
Notation cs := (code_statement B).
Notation vt := (variable_temporary B Snd).

Ltac ub H x E :=
  match type of H with
  | context [rbind ?r _] =>
      lazymatch r with
      | rbind _ _ => fail
      | _ => destruct r as [x|] eqn:E; cbn [rbind] in H; [|discriminate]
      end
  end.

Lemma cs_literal types n v next c lc code lc' :
  cs types (Literal n v next) c lc = Ok (code, lc') ->
  exists tv c2, vt (c ++ [mkb v Ext I64]) (idn v) = Ok tv /\
    cs types next (c ++ [mkb v Ext I64]) lc = Ok (c2, lc') /\
    code = b_mark B c ++ b_load_immediate B tv n ++ c2.
Proof.
  intros H. cbn [code_statement] in H. ub H tv TV. ub H nx NX. destruct nx as [c2 lc2].
  cbn in H. inversion H; subst. eauto.
Qed.

Lemma cs_op types a o b v next c lc code lc' :
  cs types (Op a o b v next) c lc = Ok (code, lc') ->
  exists tv ta tb c2, vt (c ++ [mkb v Ext I64]) (idn v) = Ok tv /\
    vt (c ++ [mkb v Ext I64]) (idn a) = Ok ta /\ vt (c ++ [mkb v Ext I64]) (idn b) = Ok tb /\
    cs types next (c ++ [mkb v Ext I64]) lc = Ok (c2, lc') /\
    code = b_mark B c ++ b_arith B o tv ta tb ++ c2.
Proof.
  intros H. cbn [code_statement] in H. ub H tv TV. ub H ta Hta. ub H tb Htb. ub H nx NX. destruct nx as [c2 lc2].
  cbn in H. inversion H; subst. exists tv, ta, tb, c2. auto.
Qed.

Lemma cs_print types nl v next c lc code lc' :
  cs types (PrintI64 nl v next) c lc = Ok (code, lc') ->
  exists tv c2, vt c (idn v) = Ok tv /\ cs types next c lc = Ok (c2, lc') /\ code = b_mark B c ++ b_print B nl tv c ++ c2.
Proof.
  intros H. cbn [code_statement] in H. ub H tv TV. ub H nx NX. destruct nx as [c2 lc2].
  cbn in H. inversion H; subst. eauto.
Qed.

Lemma cs_exit types v c lc code lc' :
  cs types (Exit v) c lc = Ok (code, lc') ->
  exists tv, vt c (idn v) = Ok tv /\ code = b_mark B c ++ b_mov B (b_return1 B) tv ++ b_jump_label B "cleanup" /\ lc' = lc.
Proof. intros H. cbn [code_statement] in H. ub H tv TV. cbn in H. inversion H; subst. eauto. Qed.

Lemma cs_call types l args c lc code lc' :
  cs types (Call l args) c lc = Ok (code, lc') -> code = b_mark B c ++ b_jump_label B (show_ident l +++ "_") /\ lc' = lc.
Proof. intros H. cbn [code_statement] in H. cbn in H. inversion H; subst. auto. Qed.

Definition iflabel (lc : N) : string := "lab" +++ n_to_string (lc + 1)%N.
Lemma cs_ifc types so a b thenc elsec c lc code lc' :
  cs types (IfC so a b thenc elsec) c lc = Ok (code, lc') ->
  exists ta c1 c2 lc2 c3, vt c (idn a) = Ok ta /\
    match b with
    | None => c1 = b_jcc1 B so ta (iflabel lc)
    | Some b => exists tb, vt c (idn b) = Ok tb /\ c1 = b_jcc2 B so ta tb (iflabel lc)
    end /\
    cs types elsec c (lc + 1)%N = Ok (c2, lc2) /\ cs types thenc c lc2 = Ok (c3, lc') /\
    code = b_mark B c ++ c1 ++ c2 ++ [b_label B (iflabel lc)] ++ c3.
Proof.
  intros H. cbn [code_statement] in H. fold (iflabel lc) in H. ub H ta Hta.
  destruct b as [b|].
  - ub H tb Htb. cbn [rbind] in H. ub H el EL. destruct el as [c2 lc2]. ub H th TH. destruct th as [c3 lc3].
    cbn in H. inversion H; subst. exists ta, (b_jcc2 B so ta tb (iflabel lc)), c2, lc2, c3. repeat split; eauto.
  - cbn [rbind] in H. ub H el EL. destruct el as [c2 lc2]. ub H th TH. destruct th as [c3 lc3].
    cbn in H. inversion H; subst. exists ta, (b_jcc1 B so ta (iflabel lc)), c2, lc2, c3. repeat split; eauto.
Qed.

Lemma cs_substitute types re next c lc code lc' :
  cs types (Substitute re next) c lc = Ok (code, lc') ->
  exists c1 lc1 c2 c3,
    code_weakening_contraction B (transpose re c) c lc = Ok (c1, lc1) /\
    code_exchange B (transpose re c) c (map fst re) = Ok c2 /\
    cs types next (map fst re) lc1 = Ok (c3, lc') /\ code = b_mark B c ++ c1 ++ c2 ++ c3.
Proof.
  intros H. cbn [code_statement] in H. ub H wc WC. destruct wc as [c1 lc1]. ub H c2 CE. ub H nx NX. destruct nx as [c3 lc3].
  cbn in H. inversion H; subst. exists c1, lc1, c2, c3. auto.
Qed.

(* the clause code of a Create statement *)
Section CC.
Variables (types : list tydecl) (env : ctx) (fresh : string).
Fixpoint clauses_code (l : list clause) (lc : N) {struct l} : res (list Code * N) :=
  match l with
  | [] => Ok ([], lc)
  | (x, cx, body) :: r =>
      dor ld <- b_load B env cx lc;
      let '(cl, lc1) := ld in
      dor bd <- cs types body (cx ++ env) lc1;
      let '(cb, lc2) := bd in
      dor rs <- clauses_code r lc2;
      let '(cr, lc3) := rs in
      Ok ([b_label B (fresh +++ "_" +++ show_ident x)] ++ cl ++ cb ++ cr, lc3)
  end.
End CC.

Definition table_or_nil (cls : list clause) (fresh : string) : list Code :=
  if Nat.leb (List.length cls) 1 then [] else code_table B cls fresh.

Lemma cs_create types v t env cls next c lc code lc' :
  cs types (Create v t (Some env) cls next) c lc = Ok (code, lc') ->
  exists rest cenv c1 lc1 tmpv c3 lc3 c5,
    Backend.split_last (List.length env) c = Ok (rest, cenv) /\
    b_store B cenv rest lc = Ok (c1, lc1) /\
    vt (rest ++ [mkb v Cns t]) (idn v) = Ok tmpv /\
    cs types next (rest ++ [mkb v Cns t]) (lc1 + 1)%N = Ok (c3, lc3) /\
    clauses_code types cenv (type_label t (lc1 + 1)%N) cls lc3 = Ok (c5, lc') /\
    code = b_mark B c ++ c1 ++ b_load_label B tmpv (type_label t (lc1 + 1)%N) ++ c3 ++
           ([b_label B (type_label t (lc1 + 1)%N)] ++ table_or_nil cls (type_label t (lc1 + 1)%N)) ++ c5.
Proof.
  intros H. cbn [code_statement] in H.
  ub H sp SL. destruct sp as [rest cenv]. ub H st ST. destruct st as [c1 lc1]. ub H tmpv TV. ub H nx NX. destruct nx as [c3 lc3].
  match type of H with
  | context [rbind (?f cls lc3) _] => change (f cls lc3) with (clauses_code types cenv (type_label t (lc1 + 1)%N) cls lc3) in H
  end.
  ub H cc CC. destruct cc as [c5 lc5].
  cbn in H. inversion H; subst. exists rest, cenv, c1, lc1, tmpv, c3, lc3, c5. repeat split; auto.
Qed.

Lemma cs_invoke types v tag t args c lc code lc' :
  cs types (Invoke v tag t args) c lc = Ok (code, lc') ->
  exists tmpv d, vt c (idn v) = Ok tmpv /\ lookup_type types t = Ok d /\ lc' = lc /\
    if Nat.leb (List.length (txtors d)) 1 then code = b_mark B c ++ b_jump B tmpv
    else exists k, xtor_position (txtors d) tag 0 = Ok k /\ code = b_mark B c ++ b_add_and_jump B tmpv (b_jump_length B k).
Proof.
  intros H. cbn [code_statement] in H. ub H tmpv TV. ub H d LT.
  exists tmpv, d. split; [reflexivity|]. split; [reflexivity|].
  destruct (Nat.leb (List.length (txtors d)) 1).
  - cbn in H. inversion H; subst. auto.
  - ub H k XP. cbn in H. inversion H; subst. eauto.
Qed.

(* where clause k sits in the clause code *)
Lemma clauses_code_nth types env fresh : forall cls lc c5 lc' k x cx body,
  clauses_code types env fresh cls lc = Ok (c5, lc') -> nth_error cls k = Some (x, cx, body) ->
  exists pre lc0 cl lc1 cb lc2 post,
    c5 = pre ++ [b_label B (fresh +++ "_" +++ show_ident x)] ++ cl ++ cb ++ post /\
    b_load B env cx lc0 = Ok (cl, lc1) /\ cs types body (cx ++ env) lc1 = Ok (cb, lc2) /\ (k = O -> pre = []).
Proof.
  induction cls as [|[[x0 cx0] body0] r IH]; intros lc c5 lc' k x cx body H Hk; [destruct k; discriminate|].
  cbn [clauses_code] in H. ub H ld LD. destruct ld as [cl lc1]. ub H bd BD. destruct bd as [cb lc2]. ub H rs RS. destruct rs as [cr lc3].
  inversion H; subst c5 lc'. destruct k as [|k]; cbn [nth_error] in Hk.
  - inversion Hk; subst. exists [], lc, cl, lc1, cb, lc2, cr. auto.
  - destruct (IH _ _ _ _ _ _ _ RS Hk) as (pre & lc0 & cl' & lc1' & cb' & lc2' & post & -> & L & Bd & _).
    exists ([b_label B (fresh +++ "_" +++ show_ident x0)] ++ cl ++ cb ++ pre), lc0, cl', lc1', cb', lc2', post.
    split; [|split; [auto|split; [auto|discriminate]]]. rewrite <- !app_assoc. reflexivity.
Qed.

(* ---------- where `translate` puts the definitions ---------- *)
Lemma translate_defs types : forall defs lc code lc',
  translate B types defs lc = Ok (code, lc') ->
  forall d, In d defs ->
  exists pre lcd cd lcd' post,
    code = pre ++ b_label B (show_ident (dname d) +++ "_") :: cd ++ post /\
    cs types (dbody d) (dctx d) lcd = Ok (cd, lcd').
Proof.
  induction defs as [|d0 r IH]; intros lc code lc' H d Hin; [destruct Hin|].
  cbn [translate] in H. ub H cd C0. destruct cd as [c1 lc1]. ub H cr Htr. destruct cr as [c2 lc2].
  cbn in H. inversion H; subst code lc'; clear H.
  destruct Hin as [<-|Hin].
  - exists [], lc, c1, lc1, c2. split; [reflexivity|exact C0].
  - destruct (IH lc1 c2 lc2 Htr d Hin) as (pre & lcd & cd & lcd' & post & -> & CD).
    exists (b_label B (show_ident (dname d0) +++ "_") :: c1 ++ pre), lcd, cd, lcd', post. split; [|exact CD].
    cbn [app]. f_equal. now rewrite <- app_assoc.
Qed.
End Inv.
