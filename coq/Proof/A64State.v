(* Characterisation lemmas for the accessors of Sem/A64Sem.astate, and a "location view": a
   temporary of the back end (register or spill slot relative to a fixed sp) read and written as
   one kind of location.  All instruction-selection proofs go through these lemmas only. *)
From Coq Require Import List ZArith NArith String Bool Lia FMapPositive.
From SCC Require Import Base.Sexp Lang.AxSyn Sem.AxSem Model.Backend Model.A64 Sem.A64Sem Generated.Constants.
Import ListNotations.
Open Scope Z_scope.

Lemma succ_pos_inj a b : N.succ_pos a = N.succ_pos b -> a = b.
Proof. intros H. apply (f_equal Pos.pred_N) in H. now rewrite !N.pos_pred_succ in H. Qed.

(* ---------- registers ---------- *)
Lemma xget_xset_same s n v : xget (xset s n v) n = v.
Proof. unfold xget, xset; destruct v; cbn; [apply PM.gss | apply PM.grs]. Qed.
Lemma xget_xset_other s n m v : n <> m -> xget (xset s n v) m = xget s m.
Proof.
  intros H. unfold xget, xset; destruct v; cbn; [apply PM.gso | apply PM.gro];
    intro E; apply succ_pos_inj in E; congruence.
Qed.

Lemma areg_eqb_spec a b : reflect (a = b) (areg_eqb a b).
Proof.
  destruct a as [x| |], b as [y| |]; cbn; try (constructor; congruence).
  destruct (N.eqb_spec x y); constructor; congruence.
Qed.

(* a register the generated code may name as a variable temporary or scratch: a general-purpose one *)
Definition gp (r : areg) : Prop := match r with X _ => True | _ => False end.

Lemma rget_rset_same s r v : gp r -> rget (rset s r v) r = v.
Proof. destruct r; cbn; intros H; try tauto. apply xget_xset_same. Qed.
Lemma rget_rset_other s r r' v : r <> r' -> rget (rset s r v) r' = rget s r'.
Proof.
  intros H. destruct r as [n| |], r' as [m| |]; cbn; try reflexivity; try congruence.
  apply xget_xset_other; congruence.
Qed.
Lemma spv_rset s r v : r <> SP -> spv (rset s r v) = spv s.
Proof. destruct r; cbn; congruence. Qed.
Lemma stack_rset s r v : stack (rset s r v) = stack s. Proof. destruct r; reflexivity. Qed.
Lemma heap_rset s r v : heap (rset s r v) = heap s. Proof. destruct r; reflexivity. Qed.
Lemma out_rset s r v : out (rset s r v) = out s. Proof. destruct r; reflexivity. Qed.
Lemma flags_rset s r v : flags (rset s r v) = flags s. Proof. destruct r; reflexivity. Qed.
Lemma rget_set_flags s f r : rget (set_flags s f) r = rget s r. Proof. destruct r; reflexivity. Qed.
Lemma stack_set_flags s f : stack (set_flags s f) = stack s. Proof. reflexivity. Qed.
Lemma heap_set_flags s f : heap (set_flags s f) = heap s. Proof. reflexivity. Qed.
Lemma out_set_flags s f : out (set_flags s f) = out s. Proof. reflexivity. Qed.

Lemma key_inj a b : 0 <= a -> 0 <= b -> key a = key b -> a = b.
Proof. unfold key; intros Ha Hb H. apply (f_equal Z.pos) in H. rewrite !Z2Pos.id in H by lia. lia. Qed.

(* ---------- the spill frame ---------- *)
(* sp is 16-byte aligned (the hardware rule for sp-relative accesses) and the whole spill area
   [sp, sp + SPILL_SPACE) lies inside the stack region *)
Definition sp_ok (sp : Z) : Prop := sp mod 16 = 0 /\ STACK_LIMIT <= sp /\ sp + SPILL_SPACE <= STACK_TOP.
Definition frame_ok (s : astate) (sp : Z) : Prop := spv s = Some sp /\ sp_ok sp.
Definition slot_ok (p : N) : Prop := (p < SPILL_NUM)%N.
Definition slot_addr (sp : Z) (p : N) : Z := sp + stack_offset p.

Lemma spill_space_val : SPILL_SPACE = 8 * Z.of_N SPILL_NUM.
Proof. reflexivity. Qed.

Lemma slot_addr_facts sp p :
  sp_ok sp -> slot_ok p ->
  let a := slot_addr sp p in
  a mod 8 = 0 /\ STACK_LIMIT <= a /\ a + 8 <= STACK_TOP /\ sp <= a /\ 0 <= a.
Proof.
  intros (Hal & Hlo & Hhi) Hp. unfold slot_addr, stack_offset, slot_ok in *.
  rewrite spill_space_val in *. unfold STACK_LIMIT, STACK_TOP in *.
  assert (0 <= Z.of_N p < Z.of_N SPILL_NUM) by lia.
  assert (sp mod 8 = 0).
  { rewrite (Z.div_mod sp 16) by lia. rewrite Hal, Z.add_0_r.
    replace (16 * (sp / 16)) with ((2 * (sp / 16)) * 8) by lia. apply Z.mod_mul. lia. }
  repeat split; try lia.
  replace (sp + (8 * Z.of_N SPILL_NUM - 8 * (Z.of_N p + 1))) with (sp + (Z.of_N SPILL_NUM - Z.of_N p - 1) * 8) by lia.
  rewrite Z.mod_add by lia. assumption.
Qed.

Lemma slot_addr_inj sp p q : slot_addr sp p = slot_addr sp q -> p = q.
Proof. unfold slot_addr, stack_offset. intros H. lia. Qed.

Lemma in_stack_not_heap a : in_stack a = true -> in_heap a = false.
Proof.
  unfold in_stack, in_heap, STACK_LIMIT, STACK_TOP, HEAP_BASE, HEAP_SIZE.
  intros H. apply andb_true_iff in H as [H1 H2]. apply Z.leb_le in H1, H2.
  apply andb_false_iff. right. apply Z.leb_gt. lia.
Qed.

Definition sget (s : astate) (sp : Z) (p : N) : option Z := PM.find (key (slot_addr sp p)) (stack s).
Definition sset (s : astate) (sp : Z) (p : N) (v : option Z) : astate :=
  {| regs := regs s; spv := spv s; heap := heap s;
     stack := match v with Some z => PM.add (key (slot_addr sp p)) z (stack s) | None => PM.remove (key (slot_addr sp p)) (stack s) end;
     flags := flags s; out := out s; hw := hw s |}.

Lemma mload_slot s sp p : sp_ok sp -> slot_ok p -> mload s (slot_addr sp p) = MOk (sget s sp p).
Proof.
  intros F P. destruct (slot_addr_facts sp p F P) as (A & L & H & _ & _).
  unfold mload, aligned. rewrite A. cbn [Z.eqb negb].
  assert (in_stack (slot_addr sp p) = true) as IS.
  { unfold in_stack. apply andb_true_iff; split; apply Z.leb_le; lia. }
  rewrite (in_stack_not_heap _ IS), IS. reflexivity.
Qed.
Lemma mstore_slot s sp p v : sp_ok sp -> slot_ok p -> mstore s (slot_addr sp p) v = MOk (sset s sp p v).
Proof.
  intros F P. destruct (slot_addr_facts sp p F P) as (A & L & H & _ & _).
  unfold mstore, aligned. rewrite A. cbn [Z.eqb negb].
  assert (in_stack (slot_addr sp p) = true) as IS.
  { unfold in_stack. apply andb_true_iff; split; apply Z.leb_le; lia. }
  rewrite (in_stack_not_heap _ IS), IS. reflexivity.
Qed.

Lemma sget_sset_same s sp p v : sget (sset s sp p v) sp p = v.
Proof. unfold sget, sset; destruct v; cbn; [apply PM.gss | apply PM.grs]. Qed.
Lemma sget_sset_other s sp p q v :
  sp_ok sp -> slot_ok p -> slot_ok q -> p <> q -> sget (sset s sp p v) sp q = sget s sp q.
Proof.
  intros F P Q H. destruct (slot_addr_facts sp p F P) as (_ & _ & _ & _ & Ap).
  destruct (slot_addr_facts sp q F Q) as (_ & _ & _ & _ & Aq).
  unfold sget, sset; destruct v; cbn; [apply PM.gso | apply PM.gro];
    intro E; apply key_inj in E; auto; apply slot_addr_inj in E; congruence.
Qed.
Lemma rget_sset s sp p v r : rget (sset s sp p v) r = rget s r. Proof. destruct r; reflexivity. Qed.
Lemma sget_rset s sp r v p : sget (rset s r v) sp p = sget s sp p. Proof. destruct r; reflexivity. Qed.
Lemma sget_set_flags s sp f p : sget (set_flags s f) sp p = sget s sp p. Proof. reflexivity. Qed.
Lemma heap_sset s sp p v : heap (sset s sp p v) = heap s. Proof. reflexivity. Qed.
Lemma out_sset s sp p v : out (sset s sp p v) = out s. Proof. reflexivity. Qed.
Lemma flags_sset s sp p v : flags (sset s sp p v) = flags s. Proof. reflexivity. Qed.

Lemma frame_ok_rset s sp r v : r <> SP -> frame_ok s sp -> frame_ok (rset s r v) sp.
Proof. intros H (A & B). split; [rewrite spv_rset; auto | exact B]. Qed.
Lemma frame_ok_sset s sp p v : frame_ok s sp -> frame_ok (sset s sp p v) sp.
Proof. intros (A & B). split; [exact A | exact B]. Qed.
Lemma frame_ok_set_flags s sp f : frame_ok s sp -> frame_ok (set_flags s f) sp.
Proof. intros (A & B). split; [exact A | exact B]. Qed.

(* ---------- locations ---------- *)
Definition lget (s : astate) (sp : Z) (t : atemp) : option Z :=
  match t with AR r => rget s r | AS p => sget s sp p end.
Definition lset (s : astate) (sp : Z) (t : atemp) (v : option Z) : astate :=
  match t with AR r => rset s r v | AS p => sset s sp p v end.
Definition loc_ok (t : atemp) : Prop :=
  match t with AR r => gp r | AS p => slot_ok p end.

Lemma lget_lset_same s sp t v : loc_ok t -> lget (lset s sp t v) sp t = v.
Proof. destruct t; cbn; intros; [apply rget_rset_same; auto | apply sget_sset_same]. Qed.
Lemma lget_lset_other s sp t u v :
  sp_ok sp -> loc_ok t -> loc_ok u -> t <> u -> lget (lset s sp t v) sp u = lget s sp u.
Proof.
  intros F T U H. destruct t as [r|p], u as [r'|q]; cbn in *.
  - apply rget_rset_other; congruence.
  - apply sget_rset.
  - apply rget_sset.
  - apply sget_sset_other; auto; congruence.
Qed.
Lemma gp_not_sp r : gp r -> r <> SP. Proof. destruct r; cbn; congruence || tauto. Qed.
Lemma frame_ok_lset s sp t v : loc_ok t -> frame_ok s sp -> frame_ok (lset s sp t v) sp.
Proof. destruct t; cbn; intros; [apply frame_ok_rset; auto using gp_not_sp | apply frame_ok_sset]; auto. Qed.
Lemma heap_lset s sp t v : heap (lset s sp t v) = heap s. Proof. destruct t; [apply heap_rset|reflexivity]. Qed.
Lemma out_lset s sp t v : out (lset s sp t v) = out s. Proof. destruct t; [apply out_rset|reflexivity]. Qed.
Lemma flags_lset s sp t v : flags (lset s sp t v) = flags s. Proof. destruct t; [apply flags_rset|reflexivity]. Qed.
Lemma lget_set_flags s sp f t : lget (set_flags s f) sp t = lget s sp t.
Proof. destruct t; [apply rget_set_flags|reflexivity]. Qed.

Lemma atemp_eqb_spec a b : reflect (a = b) (match a, b with AR x, AR y => areg_eqb x y | AS p, AS q => N.eqb p q | _, _ => false end).
Proof.
  destruct a as [x|x], b as [y|y]; try (constructor; congruence).
  - destruct (areg_eqb_spec x y); constructor; congruence.
  - destruct (N.eqb_spec x y); constructor; congruence.
Qed.
Definition atemp_eqb (a b : atemp) : bool :=
  match a, b with AR x, AR y => areg_eqb x y | AS p, AS q => N.eqb p q | _, _ => false end.

(* ---------- straight-line execution ---------- *)
Lemma run_straight_app im a b s :
  run_straight im (a ++ b) s = match run_straight im a s with MOk s' => run_straight im b s' | MFault w => MFault w end.
Proof. revert s; induction a as [|c a IH]; intros s; cbn; [reflexivity|]. destruct (step im c s); auto. Qed.

(* ---------- the constants the proofs rely on (re-checked against the regenerated values) ---------- *)
Lemma TEMP_is : TEMP = X 2. Proof. reflexivity. Qed.
Lemma TEMP2_is : TEMP2 = X 3. Proof. reflexivity. Qed.
Lemma TEMPORARY_TEMP_is : TEMPORARY_TEMP = X 10. Proof. reflexivity. Qed.
Lemma SPILL_TEMP_is : SPILL_TEMP = 0%N. Proof. reflexivity. Qed.
Lemma SPILL_NUM_is : SPILL_NUM = 256%N. Proof. reflexivity. Qed.

Lemma ea_sp s sp p k : frame_ok s sp -> ea s SP (stack_offset p) k = k (slot_addr sp p).
Proof.
  intros (H & A & _). unfold ea, need. cbn [rget]. rewrite H, A. reflexivity.
Qed.

Section Steps.
Variable im : image.
Variables (s : astate) (sp : Z).
Hypothesis F : frame_ok s sp.

Lemma step_MOVR a b : step im (MOVR a b) s = Next (rset s a (rget s b)).
Proof. reflexivity. Qed.
Lemma step_LDR_slot a p : slot_ok p -> step im (LDR a SP (stack_offset p)) s = Next (rset s a (sget s sp p)).
Proof. intros P. cbn [step]. rewrite (ea_sp s sp) by exact F. unfold withm. rewrite mload_slot; auto. apply F. Qed.
Lemma step_STR_slot a p : slot_ok p -> step im (STR a SP (stack_offset p)) s = Next (sset s sp p (rget s a)).
Proof. intros P. cbn [step]. rewrite (ea_sp s sp) by exact F. unfold withm. rewrite mstore_slot; auto. apply F. Qed.
Lemma step_arith3 f d a b x y :
  rget s a = Some x -> rget s b = Some y -> arith3 f s d a b = Next (rset s d (Some (wrap (f x y)))).
Proof. intros A B. unfold arith3, need. now rewrite A, B. Qed.
End Steps.
