(* `x_load` of any number of variables (objects chained over several blocks, memory.rs load_fields with
   the TEMPORARY_TEMP evacuation) refines `Heap.load_object (nlinks n) p`.
     x86_load_block_ok      one block: (release,) (link,) loads (and shares), the block pointer in a register;
     x86_lf_blk_ok          the same with the block pointer in a register or in a spill slot (then
                            TEMPORARY_TEMP is evacuated to SPILL_TEMP once and restored after the last block);
     x86_load_fields_ok     the recursion of load_fields, against the abstract walk `lf_abs` in emission order;
     x86_load_ok            x_load = Heap.load_object (nlinks n) p. *)
From Coq Require Import List ZArith NArith String Bool Lia FMapPositive.
From SCC Require Import Base.Sexp Lang.AxSyn Sem.AxSem Model.Backend Model.X86 Sem.X86Sem Generated.Constants
  Proof.X86State Proof.X86Sel Proof.X86Mem Proof.X86MemFrame Proof.X86MemStore Proof.X86MemLoad Proof.X86MemStoreChain.
From SCC Require Model.Heap.
Import ListNotations.
Open Scope list_scope.
Open Scope Z_scope.

(* the abstract effect of the code of one block, in emission order *)
Definition blk_abs (m : load_mode) (w : Z -> Z) (next : list binding) (q : Z) (cap : N) (a : Heap.st) : Heap.st :=
  lv_abs m w (rev next) q cap (match m with Release => Heap.release q a | Share => a end).

Definition link_load_code (bp : block_position) (klink : N) (R : reg) : list xcode :=
  match bp with Other => load_field_code (tpos klink) R (field_offset Fst 2) | Last => [] end.

Section LoadChain.
Variable im : image.

Ltac nxt HC k := eapply steps_next; [apply (HC k); reflexivity| |].

Lemma reg_not_rsp_of_blk s sp r p : frame_ok s sp -> rget s r = Some p -> is_blk p -> r <> 0%N.
Proof.
  intros (A & (_ & B & _)) R Hb ->. rewrite A in R. inversion R; subst.
  unfold STACK_LIMIT, STACK_TOP in B. destruct Hb as (k & Hk & Eq & Hhi). unfold HEAP_BASE, HEAP_SIZE in *. lia.
Qed.

(* ---------- one block, the pointer in register R ---------- *)
Lemma x86_load_block_ok pos bp next epr m lc lv lc' R klink s sp p h F :
  load_values (rev next) epr R (3 - bp_n bp) m lc = Ok (lv, lc') ->
  next <> [] -> (N.of_nat (List.length next) <= 3 - bp_n bp)%N ->
  klink = (2 * N.of_nat (List.length epr + List.length next))%N -> (bp = Other -> (klink < MAXPOS)%N) ->
  code_at im pos (rel_code m R ++ link_load_code bp klink R ++ lv) ->
  labels_at im pos (rel_code m R ++ link_load_code bp klink R ++ lv) -> frame_ok s sp ->
  rget s R = Some p -> is_blk p -> rget s HEAP = Some h -> R <> TEMP -> R <> HEAP ->
  (forall k, (2 * N.of_nat (List.length epr) < k)%N -> XR R <> tpos k) ->
  lv_kids m (hword s) (rev next) p (3 - bp_n bp) ->
  (m = Share -> forall x, is_blk x -> min_int <= hword s x /\ hword s x + Z.of_nat (List.length next) <= max_int) ->
  exists s', steps im pos s (pnth pos (List.length (rel_code m R ++ link_load_code bp klink R ++ lv))) s' /\
    st_eqB (abs_heap F s') (blk_abs m (hword s) next p (3 - bp_n bp) (abs_heap F s)) /\
    (bp = Other -> lget s' sp (tpos klink) = Some (hword s (p + 48))) /\
    (forall i b, nth_error next i = Some b ->
       lget s' sp (tpos (2 * N.of_nat (List.length epr + i) + 1)) =
         Some (hword s (p + field_offset Snd (3 - bp_n bp - N.of_nat (List.length next) + N.of_nat i))) /\
       (bchi b <> Ext -> lget s' sp (tpos (2 * N.of_nat (List.length epr + i))) =
         Some (hword s (p + field_offset Fst (3 - bp_n bp - N.of_nat (List.length next) + N.of_nat i))))) /\
    (forall l, loc_ok l -> l <> XR TEMP -> l <> XR HEAP ->
       (forall k, (2 * N.of_nat (List.length epr) <= k <= klink)%N -> l <> tpos k) ->
       lget s' sp l = lget s sp l) /\
    nonblk_same s s' /\
    (m = Share -> forall x, is_blk x -> hword s x <= hword s' x <= hword s x + Z.of_nat (List.length next)) /\
    (exists h', rget s' HEAP = Some h') /\
    out s' = out s /\ frame_ok s' sp.
Proof.
  intros Hlv Hne Hlen Hkl Hklm HC HL FR R0 Hb Hh NT NH NK Kids Room.
  set (cap := (3 - bp_n bp)%N) in *. set (Eb := List.length epr) in *.
  assert (Hcap : (cap <= 3)%N) by (unfold cap; destruct bp; cbn; lia).
  assert (Hn1 : (1 <= List.length next)%nat) by (destruct next; [contradiction|cbn; lia]).
  fold Eb in Hkl.
  apply code_at_app2 in HC as [HC1 HC2]. apply labels_at_app2 in HL as [HL1 HL2].
  apply code_at_app2 in HC2 as [HC2 HC3]. apply labels_at_app2 in HL2 as [_ HL3].
  (* release *)
  assert (S1 : exists s1, steps im pos s (pnth pos (List.length (rel_code m R))) s1 /\
     st_eqB (abs_heap F s1) (match m with Release => Heap.release p (abs_heap F s) | Share => abs_heap F s end) /\
     (forall r', r' <> HEAP -> rget s1 r' = rget s r') /\ (exists h', rget s1 HEAP = Some h') /\ stack s1 = stack s /\ out s1 = out s /\
     (forall a, hword s1 a = if (match m with Release => true | Share => false end) && (a =? p) then h else hword s a)).
  { destruct m; cbn [rel_code].
    - destruct (x86_release_block_frame im pos R s p h F HC1 R0 Hh Hb) as (s1 & ST1 & EQ1 & Oth1 & H1 & Stk1 & O1 & W1).
      exists s1. split; [exact ST1|]. split; [exact EQ1|]. split; [exact Oth1|]. split; [eauto|]. split; [exact Stk1|]. split; [exact O1|exact W1].
    - exists s. split; [apply steps_refl|]. split; [apply st_eqB_refl|]. split; [auto|]. split; [eauto|]. auto. }
  destruct S1 as (s1 & ST1 & EQ1 & Oth1 & (h1 & H1) & Stk1 & O1 & W1).
  assert (FR1 : frame_ok s1 sp) by (destruct FR as (A & B); split; [rewrite Oth1 by discriminate; exact A|exact B]).
  assert (R1 : rget s1 R = Some p) by (rewrite Oth1 by exact NH; exact R0).
  assert (L1 : forall l, l <> XR HEAP -> lget s1 sp l = lget s sp l).
  { intros [r|q] Hl; cbn [lget]; [apply Oth1; congruence|unfold sget; now rewrite Stk1]. }
  assert (Hoff : forall i, 0 < i < 64 -> hword s1 (p + i) = hword s (p + i)).
  { intros i Hi. rewrite W1. destruct (Z.eqb_spec (p + i) p); [lia|]. now rewrite andb_false_r. }
  assert (Hfld : forall t j, (j < 3)%N -> hword s1 (p + field_offset t j) = hword s (p + field_offset t j)).
  { intros t j Hj. apply Hoff. rewrite field_offset_val. destruct t; cbn [tnum_n]; lia. }
  assert (NB1 : nonblk_same s s1).
  { intros a Ha. rewrite W1. destruct (Z.eqb_spec a p) as [->|]; [contradiction|]. now rewrite andb_false_r. }
  (* the link *)
  assert (S2 : exists s2, steps im (pnth pos (List.length (rel_code m R))) s1
                            (pnth (pnth pos (List.length (rel_code m R))) (List.length (link_load_code bp klink R))) s2 /\
     (bp = Other -> lget s2 sp (tpos klink) = Some (hword s (p + 48))) /\
     (forall l, loc_ok l -> l <> tpos klink -> l <> XR TEMP -> lget s2 sp l = lget s1 sp l) /\
     (forall a, hword s2 a = hword s1 a) /\ out s2 = out s1 /\ frame_ok s2 sp).
  { destruct bp; cbn [link_load_code] in *.
    - exists s1. split; [apply steps_refl|]. split; [discriminate|]. auto.
    - assert (Ha : heap_addr (p + field_offset Fst 2)) by (apply field_addr; auto; lia).
      destruct (x86_load_field_code_ok im _ (tpos klink) R _ s1 sp p HC2 FR1 (tpos_loc_ok _ (Hklm eq_refl)) R1 Ha) as (s2 & ST2 & V2 & _ & Oth2 & W2 & O2 & FR2).
      exists s2. split; [exact ST2|]. split; [|auto]. intros _. rewrite V2. rewrite fo_F2. now rewrite Hoff by lia. }
  destruct S2 as (s2 & ST2 & Vl & Oth2 & W2 & O2 & FR2).
  assert (NKl : XR R <> tpos klink) by (apply NK; lia).
  assert (R2 : rget s2 R = Some p).
  { change (lget s2 sp (XR R) = Some p). rewrite Oth2; [exact R1| |exact NKl|congruence].
    cbn [loc_ok]. exact (reg_not_rsp_of_blk s sp R p FR R0 Hb). }
  assert (W12 : forall a, hword s2 a = hword s1 a) by exact W2.
  (* the values *)
  destruct (x86_load_values_rev_ok im (rev next) epr R cap m lc lv lc' _ s2 sp p F Hlv ltac:(rewrite rev_length; exact Hlen) Hcap HC3 HL3 FR2)
    as (s3 & ST3 & EQ3 & V3 & Oth3 & NB3 & Hd3 & O3 & FR3); auto.
  { eapply lv_kids_congr; [|rewrite rev_length; exact Hlen|exact Kids]. intros j Hj. rewrite W12. symmetry. apply Hfld. lia. }
  { intros Hm x Hx. subst m. rewrite W12, W1. cbn [andb]. rewrite rev_length. now apply Room. }
  rewrite rev_length, rev_involutive in *.
  exists s3. split; [|split; [|split; [|split; [|split; [|split; [|split; [|split; [|split]]]]]]]].
  - rewrite !app_length, <- !pnth_add. eapply steps_trans; [exact ST1|]. eapply steps_trans; [exact ST2|]. exact ST3.
  - unfold blk_abs. eapply st_eqB_trans; [exact EQ3|]. apply lv_abs_congr.
    + eapply st_eqB_trans; [|exact EQ1]. apply abs_heap_same; [exact W12| |].
      * change (lget s2 sp (XR HEAP) = lget s1 sp (XR HEAP)). apply Oth2; [cbn; discriminate|apply not_eq_sym, tpos_not_reserved|discriminate].
      * change (lget s2 sp (XR FREE) = lget s1 sp (XR FREE)). apply Oth2; [cbn; discriminate|apply not_eq_sym, tpos_not_reserved|discriminate].
    + intros j Hj. rewrite W12. apply Hfld. lia.
    + rewrite rev_length. exact Hlen.
    + eapply lv_kids_congr; [|rewrite rev_length; exact Hlen|exact Kids]. intros j Hj. rewrite W12. symmetry. apply Hfld. lia.
  - intros Ho. rewrite Oth3; [exact (Vl Ho)|apply tpos_loc_ok; auto|apply tpos_not_temp|]. intros k Hk. apply tpos_neq. lia.
  - intros i b Hi. destruct (V3 i b Hi) as [A B].
    assert (Hi' : (i < List.length next)%nat) by (apply nth_error_Some; congruence).
    rewrite !W12, !Hfld in A, B by lia. auto.
  - intros l L N1 N2 N3. rewrite Oth3; [|exact L|exact N1|intros k Hk; apply N3; lia].
    rewrite Oth2; [apply L1; exact N2|exact L|apply N3; lia|exact N1].
  - eapply nonblk_same_trans; [exact NB1|]. intros a Ha. rewrite NB3 by exact Ha. apply W12.
  - intros Hm x Hx. subst m. specialize (Hd3 x Hx). rewrite W12, W1 in Hd3. cbn [andb] in Hd3. exact Hd3.
  - assert (LH : lget s3 sp (XR HEAP) = lget s1 sp (XR HEAP)).
    { rewrite Oth3; [apply Oth2|cbn; discriminate|discriminate|]; [cbn; discriminate|apply not_eq_sym, tpos_not_reserved|discriminate|].
      intros k _. apply not_eq_sym, tpos_not_reserved. }
    cbn [lget] in LH. exists h1. now rewrite LH.
  - congruence.
  - exact FR3.
Qed.

(* ---------- the logical contents of TEMPORARY_TEMP: in the register, or evacuated to SPILL_TEMP ---------- *)
Definition saved (s : xstate) (sp : Z) (freed : bool) : option Z :=
  if freed then sget s sp SPILL_TEMP else rget s TEMPORARY_TEMP.
Definition lgetL (s : xstate) (sp : Z) (freed : bool) (l : xtemp) : option Z :=
  if xtemp_eqb l (XR TEMPORARY_TEMP) then saved s sp freed else lget s sp l.
Lemma lgetL_other s sp freed l : l <> XR TEMPORARY_TEMP -> lgetL s sp freed l = lget s sp l.
Proof. intros H. unfold lgetL. destruct (xtemp_eqb_spec l (XR TEMPORARY_TEMP)); [contradiction|reflexivity]. Qed.
Lemma lgetL_tt s sp freed : lgetL s sp freed (XR TEMPORARY_TEMP) = saved s sp freed.
Proof. unfold lgetL. destruct (xtemp_eqb_spec (XR TEMPORARY_TEMP) (XR TEMPORARY_TEMP)); [reflexivity|contradiction]. Qed.
Lemma lgetL_false s sp l : lgetL s sp false l = lget s sp l.
Proof. unfold lgetL, saved. destruct (xtemp_eqb_spec l (XR TEMPORARY_TEMP)) as [->|]; reflexivity. Qed.
Lemma tpos_tt k : tpos k = XR TEMPORARY_TEMP -> k = 0%N.
Proof. intros H. apply tpos_reg in H as [H _]. change TEMPORARY_TEMP with 4%N in H. lia. Qed.
Lemma tpos_not_tt k : (0 < k)%N -> tpos k <> XR TEMPORARY_TEMP.
Proof. intros Hk H. apply tpos_tt in H. lia. Qed.

Definition lf_blk_code (t : xtemp) (freed0 : bool) (bp : block_position) (m : load_mode) (klink : N) (lv : list xcode) : list xcode :=
  match t with
  | XR mr => rel_code m mr ++ link_load_code bp klink mr ++ lv
  | XS mp => ((if freed0 then [] else [MOVS TEMPORARY_TEMP STACK (stack_offset SPILL_TEMP)]) ++ [MOVL TEMPORARY_TEMP STACK (stack_offset mp)]) ++
             (rel_code m TEMPORARY_TEMP ++ link_load_code bp klink TEMPORARY_TEMP ++ lv) ++
             (match bp with Last => [MOVL TEMPORARY_TEMP STACK (stack_offset SPILL_TEMP)] | Other => [] end)
  end.
Definition freed_after (t : xtemp) (freed0 : bool) (bp : block_position) : bool :=
  match t with XR _ => freed0 | XS _ => match bp with Last => false | Other => true end end.
Definition untouched (l : xtemp) : Prop := loc_ok l /\ l <> XR TEMP /\ l <> XR HEAP /\ l <> XS SPILL_TEMP.

Lemma x86_lf_blk_ok pos bp next epr m lc lv lc' freed0 klink s sp p h F :
  let t := tpos (2 * N.of_nat (List.length epr)) in
  load_values (rev next) epr (blk_reg_of t) (3 - bp_n bp) m lc = Ok (lv, lc') ->
  next <> [] -> (N.of_nat (List.length next) <= 3 - bp_n bp)%N ->
  klink = (2 * N.of_nat (List.length epr + List.length next))%N -> (klink < MAXPOS)%N ->
  code_at im pos (lf_blk_code t freed0 bp m klink lv) -> labels_at im pos (lf_blk_code t freed0 bp m klink lv) -> frame_ok s sp ->
  (freed0 = true -> (12 <= 2 * N.of_nat (List.length epr))%N) ->
  lgetL s sp freed0 t = Some p -> is_blk p -> rget s HEAP = Some h ->
  lv_kids m (hword s) (rev next) p (3 - bp_n bp) ->
  (m = Share -> forall x, is_blk x -> min_int <= hword s x /\ hword s x + Z.of_nat (List.length next) <= max_int) ->
  let freed1 := freed_after t freed0 bp in
  exists s', steps im pos s (pnth pos (List.length (lf_blk_code t freed0 bp m klink lv))) s' /\
    st_eqB (abs_heap F s') (blk_abs m (hword s) next p (3 - bp_n bp) (abs_heap F s)) /\
    (bp = Other -> lgetL s' sp freed1 (tpos klink) = Some (hword s (p + 48))) /\
    (forall i b, nth_error next i = Some b ->
       lgetL s' sp freed1 (tpos (2 * N.of_nat (List.length epr + i) + 1)) =
         Some (hword s (p + field_offset Snd (3 - bp_n bp - N.of_nat (List.length next) + N.of_nat i))) /\
       (bchi b <> Ext -> lgetL s' sp freed1 (tpos (2 * N.of_nat (List.length epr + i))) =
         Some (hword s (p + field_offset Fst (3 - bp_n bp - N.of_nat (List.length next) + N.of_nat i))))) /\
    (forall l, untouched l -> (forall k, (2 * N.of_nat (List.length epr) <= k <= klink)%N -> l <> tpos k) ->
       lgetL s' sp freed1 l = lgetL s sp freed0 l) /\
    nonblk_same s s' /\
    (m = Share -> forall x, is_blk x -> hword s x <= hword s' x <= hword s x + Z.of_nat (List.length next)) /\
    (exists h', rget s' HEAP = Some h') /\
    out s' = out s /\ frame_ok s' sp.
Proof.
  intros t Hlv Hne Hlen Hkl Hklm HC HL FR Hfr P Hb Hh Kids Room freed1.
  set (Eb := List.length epr) in *.
  assert (Hn1 : (1 <= List.length next)%nat) by (destruct next; [contradiction|cbn; lia]).
  assert (Kt : (2 * N.of_nat Eb < MAXPOS)%N) by lia.
  destruct (tpos_not_reserved (2 * N.of_nat Eb)) as (_ & NT & NH & _).
  unfold freed1. clear freed1. subst t. destruct (tpos (2 * N.of_nat Eb)) as [mr|mp] eqn:Et; cbn [blk_reg_of lf_blk_code freed_after] in *.
  - (* the pointer in a register *)
    assert (Hf0 : freed0 = false).
    { destruct freed0; [|reflexivity]. specialize (Hfr eq_refl). apply tpos_reg in Et as [_ Hlt]. lia. }
    subst freed0. rewrite lgetL_false in P. cbn [lget] in P.
    destruct (x86_load_block_ok pos bp next epr m lc lv lc' mr klink s sp p h F Hlv Hne Hlen Hkl (fun _ => Hklm) HC HL FR P Hb Hh)
      as (s2 & ST & EQ & Vl & V & Oth & NB & Hd & HH & O & FR2); auto; try congruence.
    { intros k Hk. rewrite <- Et. apply tpos_neq. fold Eb in Hk. lia. }
    exists s2. split; [exact ST|]. split; [exact EQ|].
    split; [intros Ho; rewrite lgetL_false; auto|]. split; [intros i b Hi; rewrite !lgetL_false; auto|].
    split; [|auto]. intros l (L1 & L2 & L3 & L4) Hr. rewrite !lgetL_false. now apply Oth.
  - (* the pointer in a spill slot *)
    destruct (tpos_slot _ _ Et) as (Emp & HE).
    rewrite lgetL_other in P by discriminate. cbn [lget] in P.
    assert (SP : sp_ok sp) by apply FR.
    assert (Qmp : slot_ok mp) by (pose proof (tpos_loc_ok _ Kt) as L; rewrite Et in L; exact L).
    assert (Q0 : slot_ok SPILL_TEMP) by (unfold slot_ok; reflexivity).
    assert (Nmp : SPILL_TEMP <> mp) by (change SPILL_TEMP with 0%N; lia).
    apply code_at_app2 in HC as [HC1 HC2]. apply labels_at_app2 in HL as [_ HL2].
    apply code_at_app2 in HC2 as [HC2 HC3]. apply labels_at_app2 in HL2 as [HL2 _].
    (* evacuate (once) and fetch the pointer *)
    assert (SA : exists sA, steps im pos s (pnth pos (List.length ((if freed0 then [] else [MOVS TEMPORARY_TEMP STACK (stack_offset SPILL_TEMP)]) ++ [MOVL TEMPORARY_TEMP STACK (stack_offset mp)]))) sA /\
       rget sA TEMPORARY_TEMP = Some p /\ sget sA sp SPILL_TEMP = saved s sp freed0 /\
       (forall l, l <> XR TEMPORARY_TEMP -> l <> XS SPILL_TEMP -> loc_ok l -> lget sA sp l = lget s sp l) /\
       (forall a, hword sA a = hword s a) /\ out sA = out s /\ frame_ok sA sp).
    { destruct freed0; cbn [app List.length saved] in *.
      - exists (rset s TEMPORARY_TEMP (Some p)). split; [|split; [|split; [|split; [|split; [|split]]]]]; try reflexivity.
        + nxt HC1 0%nat. { rewrite (step_MOVL_slot im s sp FR) by exact Qmp. rewrite P. reflexivity. } apply steps_refl.
        + apply rget_rset_same.
        + intros [r|q] N1 N2 L; cbn [lget]; [apply rget_rset_other; congruence|apply sget_rset].
        + apply frame_ok_rset; [discriminate|exact FR].
      - set (s1 := sset s sp SPILL_TEMP (rget s TEMPORARY_TEMP)).
        assert (F1 : frame_ok s1 sp) by (apply frame_ok_sset; exact FR).
        exists (rset s1 TEMPORARY_TEMP (Some p)). split; [|split; [|split; [|split; [|split; [|split]]]]]; try reflexivity.
        + nxt HC1 0%nat. { apply (step_MOVS_slot im s sp FR). exact Q0. }
          nxt HC1 1%nat. { rewrite (step_MOVL_slot im s1 sp F1) by exact Qmp. unfold s1 at 2. rewrite sget_sset_other by auto. rewrite P. reflexivity. }
          apply steps_refl.
        + apply rget_rset_same.
        + rewrite sget_rset. unfold s1. apply sget_sset_same.
        + intros [r|q] N1 N2 L; cbn [lget loc_ok] in *.
          * rewrite rget_rset_other by congruence. apply rget_sset.
          * rewrite sget_rset. unfold s1. apply sget_sset_other; auto. congruence.
        + apply frame_ok_rset; [discriminate|exact F1]. }
    destruct SA as (sA & STA & RA & SvA & OthA & WA & OA & FRA).
    destruct (x86_load_block_ok _ bp next epr m lc lv lc' TEMPORARY_TEMP klink sA sp p h F Hlv Hne Hlen Hkl (fun _ => Hklm) HC2 HL2 FRA RA Hb)
      as (s2 & ST & EQ & Vl & V & Oth & NB & Hd & HH & O & FR2); auto; try discriminate.
    { rewrite <- Hh. change (lget sA sp (XR HEAP) = lget s sp (XR HEAP)). apply OthA; [discriminate|discriminate|cbn; discriminate]. }
    { intros k Hk. apply not_eq_sym, tpos_not_tt. lia. }
    { eapply lv_kids_congr; [|rewrite rev_length; exact Hlen|exact Kids]. intros j Hj. now rewrite WA. }
    { intros Hm x Hx. rewrite WA. now apply Room. }
    assert (S20 : sget s2 sp SPILL_TEMP = saved s sp freed0).
    { change (lget s2 sp (XS SPILL_TEMP) = saved s sp freed0). rewrite Oth; [exact SvA|exact Q0|discriminate|discriminate|].
      intros k _. apply not_eq_sym, tpos_not_reserved. }
    assert (EQA : st_eqB (abs_heap F sA) (abs_heap F s)).
    { apply abs_heap_same; [exact WA| |].
      - change (lget sA sp (XR HEAP) = lget s sp (XR HEAP)). apply OthA; [discriminate|discriminate|cbn; discriminate].
      - change (lget sA sp (XR FREE) = lget s sp (XR FREE)). apply OthA; [discriminate|discriminate|cbn; discriminate]. }
    assert (EQ' : st_eqB (abs_heap F s2) (blk_abs m (hword s) next p (3 - bp_n bp) (abs_heap F s))).
    { eapply st_eqB_trans; [exact EQ|]. unfold blk_abs. apply lv_abs_congr.
      - destruct m; [apply release_st_eqB; auto|exact EQA].
      - intros j Hj. apply WA.
      - rewrite rev_length. exact Hlen.
      - eapply lv_kids_congr; [|rewrite rev_length; exact Hlen|exact Kids]. intros j Hj. now rewrite WA. }
    assert (NBs : nonblk_same s s2) by (intros a Ha; rewrite NB by exact Ha; apply WA).
    assert (Hds : m = Share -> forall x, is_blk x -> hword s x <= hword s2 x <= hword s x + Z.of_nat (List.length next)).
    { intros Hm x Hx. specialize (Hd Hm x Hx). now rewrite WA in Hd. }
    assert (Hspill : forall k, (2 * N.of_nat Eb <= k)%N -> tpos k <> XR TEMPORARY_TEMP) by (intros k Hk; apply tpos_not_tt; lia).
    (* the end of the block: restore after the last one *)
    assert (SE : exists s3, steps im (pnth (pnth pos (List.length ((if freed0 then [] else [MOVS TEMPORARY_TEMP STACK (stack_offset SPILL_TEMP)]) ++ [MOVL TEMPORARY_TEMP STACK (stack_offset mp)])))
                                       (List.length (rel_code m TEMPORARY_TEMP ++ link_load_code bp klink TEMPORARY_TEMP ++ lv))) s2
                             (pnth (pnth (pnth pos (List.length ((if freed0 then [] else [MOVS TEMPORARY_TEMP STACK (stack_offset SPILL_TEMP)]) ++ [MOVL TEMPORARY_TEMP STACK (stack_offset mp)])))
                                       (List.length (rel_code m TEMPORARY_TEMP ++ link_load_code bp klink TEMPORARY_TEMP ++ lv)))
                                   (List.length (match bp with Last => [MOVL TEMPORARY_TEMP STACK (stack_offset SPILL_TEMP)] | Other => [] end))) s3 /\
       saved s3 sp (match bp with Last => false | Other => true end) = saved s sp freed0 /\
       (forall l, l <> XR TEMPORARY_TEMP -> lget s3 sp l = lget s2 sp l) /\
       (forall a, hword s3 a = hword s2 a) /\ rget s3 HEAP = rget s2 HEAP /\ rget s3 FREE = rget s2 FREE /\ out s3 = out s2 /\ frame_ok s3 sp).
    { destruct bp; cbn [List.length pnth saved].
      - exists (rset s2 TEMPORARY_TEMP (sget s2 sp SPILL_TEMP)). split; [|split; [|split; [|split; [|split; [|split; [|split]]]]]].
        + eapply steps_next; [apply (HC3 0%nat); reflexivity| |apply steps_refl]. apply (step_MOVL_slot im s2 sp FR2). exact Q0.
        + rewrite rget_rset_same. exact S20.
        + intros [r|q] N1; cbn [lget]; [apply rget_rset_other; congruence|apply sget_rset].
        + reflexivity.
        + apply rget_rset_other. discriminate.
        + apply rget_rset_other. discriminate.
        + reflexivity.
        + apply frame_ok_rset; [discriminate|exact FR2].
      - exists s2. split; [apply steps_refl|]. split; [exact S20|]. split; [intros; reflexivity|]. split; [intros; reflexivity|].
        split; [reflexivity|]. split; [reflexivity|]. split; [reflexivity|exact FR2]. }
    destruct SE as (s3 & ST3 & Sv3 & Oth3 & W3 & H3 & F3 & O3 & FR3).
    exists s3. split; [|split; [|split; [|split; [|split; [|split; [|split; [|split; [|split]]]]]]]].
    + eapply steps_app_len; [exact STA|]. eapply steps_app_len; [exact ST|exact ST3].
    + eapply st_eqB_trans; [|exact EQ']. apply abs_heap_same; auto.
    + intros Ho. rewrite lgetL_other by (apply Hspill; lia). rewrite Oth3 by (apply Hspill; lia). rewrite <- WA. exact (Vl Ho).
    + intros i b Hi. destruct (V i b Hi) as [A B]. rewrite !WA in A, B.
      rewrite !lgetL_other by (apply Hspill; fold Eb; lia). rewrite !Oth3 by (apply Hspill; fold Eb; lia). auto.
    + intros l (L1 & L2 & L3 & L4) Hr. destruct (xtemp_eqb_spec l (XR TEMPORARY_TEMP)) as [->|Hl].
      * rewrite !lgetL_tt. exact Sv3.
      * rewrite !lgetL_other by exact Hl. rewrite Oth3 by exact Hl. rewrite Oth by auto. apply OthA; auto.
    + intros a Ha. rewrite W3. now apply NBs.
    + intros Hm x Hx. rewrite W3. now apply Hds.
    + destruct HH as (h' & HH). exists h'. now rewrite H3.
    + congruence.
    + exact FR3.
Qed.
End LoadChain.
