(* `x_load` of any number of variables (objects chained over several blocks, memory.rs load_fields with
   the TEMPORARY_TEMP evacuation) refines `Heap.load_object (nlinks n) p`.
     x86_load_block_ok      one block: (release,) (link,) loads (and shares), the block pointer in a register;
     x86_lf_blk_ok          the same with the block pointer in a register or in a spill slot (then
                            TEMPORARY_TEMP is evacuated to SPILL_TEMP once and restored after the last block);
     x86_load_fields_ok     the recursion of load_fields, against the abstract walk `lf_abs` in emission order;
     x86_load_ok            x_load = Heap.load_object (nlinks n) p. *)
From Coq Require Import List ZArith NArith String Bool Lia FMapPositive.
From SCC Require Import Base.Sexp Lang.AxSyn Sem.AxSem Model.Backend Model.X86 Sem.X86Sem Generated.Constants
  Proof.X86State Proof.X86Sel Proof.X86Mem Proof.X86MemFrame Proof.X86MemStore Proof.X86MemLoad Proof.X86MemStoreChain.
From SCC Require Model.Heap.
Import ListNotations.
Open Scope list_scope.
Open Scope Z_scope.

(* the abstract effect of the code of one block, in emission order *)
Definition blk_abs (m : load_mode) (w : Z -> Z) (next : list binding) (q : Z) (cap : N) (a : Heap.st) : Heap.st :=
  lv_abs m w (rev next) q cap (match m with Release => Heap.release q a | Share => a end).

Definition link_load_code (bp : block_position) (klink : N) (R : reg) : list xcode :=
  match bp with Other => load_field_code (tpos klink) R (field_offset Fst 2) | Last => [] end.

Section LoadChain.
Variable im : image.

Ltac nxt HC k := eapply steps_next; [apply (HC k); reflexivity| |].

Lemma reg_not_rsp_of_blk s sp r p : frame_ok s sp -> rget s r = Some p -> is_blk p -> r <> 0%N.
Proof.
  intros (A & (_ & B & _)) R Hb ->. rewrite A in R. inversion R; subst.
  unfold STACK_LIMIT, STACK_TOP in B. destruct Hb as (k & Hk & Eq & Hhi). unfold HEAP_BASE, HEAP_SIZE in *. lia.
Qed.

(* ---------- one block, the pointer in register R ---------- *)
Lemma x86_load_block_ok pos bp next epr m lc lv lc' R klink s sp p h F :
  load_values (rev next) epr R (3 - bp_n bp) m lc = Ok (lv, lc') ->
  next <> [] -> (N.of_nat (List.length next) <= 3 - bp_n bp)%N ->
  klink = (2 * N.of_nat (List.length epr + List.length next))%N -> (bp = Other -> (klink < MAXPOS)%N) ->
  code_at im pos (rel_code m R ++ link_load_code bp klink R ++ lv) ->
  labels_at im pos (rel_code m R ++ link_load_code bp klink R ++ lv) -> frame_ok s sp ->
  rget s R = Some p -> is_blk p -> rget s HEAP = Some h -> R <> TEMP -> R <> HEAP ->
  (forall k, (2 * N.of_nat (List.length epr) < k)%N -> XR R <> tpos k) ->
  lv_kids m (hword s) (rev next) p (3 - bp_n bp) ->
  (m = Share -> forall x, is_blk x -> min_int <= hword s x /\ hword s x + Z.of_nat (List.length next) <= max_int) ->
  exists s', steps im pos s (pnth pos (List.length (rel_code m R ++ link_load_code bp klink R ++ lv))) s' /\
    st_eqB (abs_heap F s') (blk_abs m (hword s) next p (3 - bp_n bp) (abs_heap F s)) /\
    (bp = Other -> lget s' sp (tpos klink) = Some (hword s (p + 48))) /\
    (forall i b, nth_error next i = Some b ->
       lget s' sp (tpos (2 * N.of_nat (List.length epr + i) + 1)) =
         Some (hword s (p + field_offset Snd (3 - bp_n bp - N.of_nat (List.length next) + N.of_nat i))) /\
       (bchi b <> Ext -> lget s' sp (tpos (2 * N.of_nat (List.length epr + i))) =
         Some (hword s (p + field_offset Fst (3 - bp_n bp - N.of_nat (List.length next) + N.of_nat i))))) /\
    (forall l, loc_ok l -> l <> XR TEMP -> l <> XR HEAP ->
       (forall k, (2 * N.of_nat (List.length epr) <= k <= klink)%N -> l <> tpos k) ->
       lget s' sp l = lget s sp l) /\
    nonblk_same s s' /\
    (m = Share -> forall x, is_blk x -> hword s x <= hword s' x <= hword s x + Z.of_nat (List.length next)) /\
    (exists h', rget s' HEAP = Some h') /\
    out s' = out s /\ frame_ok s' sp.
Proof.
  intros Hlv Hne Hlen Hkl Hklm HC HL FR R0 Hb Hh NT NH NK Kids Room.
  set (cap := (3 - bp_n bp)%N) in *. set (Eb := List.length epr) in *.
  assert (Hcap : (cap <= 3)%N) by (unfold cap; destruct bp; cbn; lia).
  assert (Hn1 : (1 <= List.length next)%nat) by (destruct next; [contradiction|cbn; lia]).
  fold Eb in Hkl.
  apply code_at_app2 in HC as [HC1 HC2]. apply labels_at_app2 in HL as [HL1 HL2].
  apply code_at_app2 in HC2 as [HC2 HC3]. apply labels_at_app2 in HL2 as [_ HL3].
  (* release *)
  assert (S1 : exists s1, steps im pos s (pnth pos (List.length (rel_code m R))) s1 /\
     st_eqB (abs_heap F s1) (match m with Release => Heap.release p (abs_heap F s) | Share => abs_heap F s end) /\
     (forall r', r' <> HEAP -> rget s1 r' = rget s r') /\ (exists h', rget s1 HEAP = Some h') /\ stack s1 = stack s /\ out s1 = out s /\
     (forall a, hword s1 a = if (match m with Release => true | Share => false end) && (a =? p) then h else hword s a)).
  { destruct m; cbn [rel_code].
    - destruct (x86_release_block_frame im pos R s p h F HC1 R0 Hh Hb) as (s1 & ST1 & EQ1 & Oth1 & H1 & Stk1 & O1 & W1).
      exists s1. split; [exact ST1|]. split; [exact EQ1|]. split; [exact Oth1|]. split; [eauto|]. split; [exact Stk1|]. split; [exact O1|exact W1].
    - exists s. split; [apply steps_refl|]. split; [apply st_eqB_refl|]. split; [auto|]. split; [eauto|]. auto. }
  destruct S1 as (s1 & ST1 & EQ1 & Oth1 & (h1 & H1) & Stk1 & O1 & W1).
  assert (FR1 : frame_ok s1 sp) by (destruct FR as (A & B); split; [rewrite Oth1 by discriminate; exact A|exact B]).
  assert (R1 : rget s1 R = Some p) by (rewrite Oth1 by exact NH; exact R0).
  assert (L1 : forall l, l <> XR HEAP -> lget s1 sp l = lget s sp l).
  { intros [r|q] Hl; cbn [lget]; [apply Oth1; congruence|unfold sget; now rewrite Stk1]. }
  assert (Hoff : forall i, 0 < i < 64 -> hword s1 (p + i) = hword s (p + i)).
  { intros i Hi. rewrite W1. destruct (Z.eqb_spec (p + i) p); [lia|]. now rewrite andb_false_r. }
  assert (Hfld : forall t j, (j < 3)%N -> hword s1 (p + field_offset t j) = hword s (p + field_offset t j)).
  { intros t j Hj. apply Hoff. rewrite field_offset_val. destruct t; cbn [tnum_n]; lia. }
  assert (NB1 : nonblk_same s s1).
  { intros a Ha. rewrite W1. destruct (Z.eqb_spec a p) as [->|]; [contradiction|]. now rewrite andb_false_r. }
  (* the link *)
  assert (S2 : exists s2, steps im (pnth pos (List.length (rel_code m R))) s1
                            (pnth (pnth pos (List.length (rel_code m R))) (List.length (link_load_code bp klink R))) s2 /\
     (bp = Other -> lget s2 sp (tpos klink) = Some (hword s (p + 48))) /\
     (forall l, loc_ok l -> l <> tpos klink -> l <> XR TEMP -> lget s2 sp l = lget s1 sp l) /\
     (forall a, hword s2 a = hword s1 a) /\ out s2 = out s1 /\ frame_ok s2 sp).
  { destruct bp; cbn [link_load_code] in *.
    - exists s1. split; [apply steps_refl|]. split; [discriminate|]. auto.
    - assert (Ha : heap_addr (p + field_offset Fst 2)) by (apply field_addr; auto; lia).
      destruct (x86_load_field_code_ok im _ (tpos klink) R _ s1 sp p HC2 FR1 (tpos_loc_ok _ (Hklm eq_refl)) R1 Ha) as (s2 & ST2 & V2 & _ & Oth2 & W2 & O2 & FR2).
      exists s2. split; [exact ST2|]. split; [|auto]. intros _. rewrite V2. rewrite fo_F2. now rewrite Hoff by lia. }
  destruct S2 as (s2 & ST2 & Vl & Oth2 & W2 & O2 & FR2).
  assert (NKl : XR R <> tpos klink) by (apply NK; lia).
  assert (R2 : rget s2 R = Some p).
  { change (lget s2 sp (XR R) = Some p). rewrite Oth2; [exact R1| |exact NKl|congruence].
    cbn [loc_ok]. exact (reg_not_rsp_of_blk s sp R p FR R0 Hb). }
  assert (W12 : forall a, hword s2 a = hword s1 a) by exact W2.
  (* the values *)
  destruct (x86_load_values_rev_ok im (rev next) epr R cap m lc lv lc' _ s2 sp p F Hlv ltac:(rewrite rev_length; exact Hlen) Hcap HC3 HL3 FR2)
    as (s3 & ST3 & EQ3 & V3 & Oth3 & NB3 & Hd3 & O3 & FR3); auto.
  { eapply lv_kids_congr; [|rewrite rev_length; exact Hlen|exact Kids]. intros j Hj. rewrite W12. symmetry. apply Hfld. lia. }
  { intros Hm x Hx. subst m. rewrite W12, W1. cbn [andb]. rewrite rev_length. now apply Room. }
  rewrite rev_length, rev_involutive in *.
  exists s3. split; [|split; [|split; [|split; [|split; [|split; [|split; [|split; [|split]]]]]]]].
  - rewrite !app_length, <- !pnth_add. eapply steps_trans; [exact ST1|]. eapply steps_trans; [exact ST2|]. exact ST3.
  - unfold blk_abs. eapply st_eqB_trans; [exact EQ3|]. apply lv_abs_congr.
    + eapply st_eqB_trans; [|exact EQ1]. apply abs_heap_same; [exact W12| |].
      * change (lget s2 sp (XR HEAP) = lget s1 sp (XR HEAP)). apply Oth2; [cbn; discriminate|apply not_eq_sym, tpos_not_reserved|discriminate].
      * change (lget s2 sp (XR FREE) = lget s1 sp (XR FREE)). apply Oth2; [cbn; discriminate|apply not_eq_sym, tpos_not_reserved|discriminate].
    + intros j Hj. rewrite W12. apply Hfld. lia.
    + rewrite rev_length. exact Hlen.
    + eapply lv_kids_congr; [|rewrite rev_length; exact Hlen|exact Kids]. intros j Hj. rewrite W12. symmetry. apply Hfld. lia.
  - intros Ho. rewrite Oth3; [exact (Vl Ho)|apply tpos_loc_ok; auto|apply tpos_not_temp|]. intros k Hk. apply tpos_neq. lia.
  - intros i b Hi. destruct (V3 i b Hi) as [A B].
    assert (Hi' : (i < List.length next)%nat) by (apply nth_error_Some; congruence).
    rewrite !W12, !Hfld in A, B by lia. auto.
  - intros l L N1 N2 N3. rewrite Oth3; [|exact L|exact N1|intros k Hk; apply N3; lia].
    rewrite Oth2; [apply L1; exact N2|exact L|apply N3; lia|exact N1].
  - eapply nonblk_same_trans; [exact NB1|]. intros a Ha. rewrite NB3 by exact Ha. apply W12.
  - intros Hm x Hx. subst m. specialize (Hd3 x Hx). rewrite W12, W1 in Hd3. cbn [andb] in Hd3. exact Hd3.
  - assert (LH : lget s3 sp (XR HEAP) = lget s1 sp (XR HEAP)).
    { rewrite Oth3; [apply Oth2|cbn; discriminate|discriminate|]; [cbn; discriminate|apply not_eq_sym, tpos_not_reserved|discriminate|].
      intros k _. apply not_eq_sym, tpos_not_reserved. }
    cbn [lget] in LH. exists h1. now rewrite LH.
  - congruence.
  - exact FR3.
Qed.

(* ---------- the logical contents of TEMPORARY_TEMP: in the register, or evacuated to SPILL_TEMP ---------- *)
Definition saved (s : xstate) (sp : Z) (freed : bool) : option Z :=
  if freed then sget s sp SPILL_TEMP else rget s TEMPORARY_TEMP.
Definition lgetL (s : xstate) (sp : Z) (freed : bool) (l : xtemp) : option Z :=
  if xtemp_eqb l (XR TEMPORARY_TEMP) then saved s sp freed else lget s sp l.
Lemma lgetL_other s sp freed l : l <> XR TEMPORARY_TEMP -> lgetL s sp freed l = lget s sp l.
Proof. intros H. unfold lgetL. destruct (xtemp_eqb_spec l (XR TEMPORARY_TEMP)); [contradiction|reflexivity]. Qed.
Lemma lgetL_tt s sp freed : lgetL s sp freed (XR TEMPORARY_TEMP) = saved s sp freed.
Proof. unfold lgetL. destruct (xtemp_eqb_spec (XR TEMPORARY_TEMP) (XR TEMPORARY_TEMP)); [reflexivity|contradiction]. Qed.
Lemma lgetL_false s sp l : lgetL s sp false l = lget s sp l.
Proof. unfold lgetL, saved. destruct (xtemp_eqb_spec l (XR TEMPORARY_TEMP)) as [->|]; reflexivity. Qed.
Lemma tpos_tt k : tpos k = XR TEMPORARY_TEMP -> k = 0%N.
Proof. intros H. apply tpos_reg in H as [H _]. change TEMPORARY_TEMP with 4%N in H. lia. Qed.
Lemma tpos_not_tt k : (0 < k)%N -> tpos k <> XR TEMPORARY_TEMP.
Proof. intros Hk H. apply tpos_tt in H. lia. Qed.

Definition lf_blk_code (t : xtemp) (freed0 : bool) (bp : block_position) (m : load_mode) (klink : N) (lv : list xcode) : list xcode :=
  match t with
  | XR mr => rel_code m mr ++ link_load_code bp klink mr ++ lv
  | XS mp => ((if freed0 then [] else [MOVS TEMPORARY_TEMP STACK (stack_offset SPILL_TEMP)]) ++ [MOVL TEMPORARY_TEMP STACK (stack_offset mp)]) ++
             (rel_code m TEMPORARY_TEMP ++ link_load_code bp klink TEMPORARY_TEMP ++ lv) ++
             (match bp with Last => [MOVL TEMPORARY_TEMP STACK (stack_offset SPILL_TEMP)] | Other => [] end)
  end.
Definition freed_after (t : xtemp) (freed0 : bool) (bp : block_position) : bool :=
  match t with XR _ => freed0 | XS _ => match bp with Last => false | Other => true end end.
Definition untouched (l : xtemp) : Prop := loc_ok l /\ l <> XR TEMP /\ l <> XR HEAP /\ l <> XS SPILL_TEMP.

Lemma x86_lf_blk_ok pos bp next epr m lc lv lc' freed0 klink s sp p h F :
  let t := tpos (2 * N.of_nat (List.length epr)) in
  load_values (rev next) epr (blk_reg_of t) (3 - bp_n bp) m lc = Ok (lv, lc') ->
  next <> [] -> (N.of_nat (List.length next) <= 3 - bp_n bp)%N ->
  klink = (2 * N.of_nat (List.length epr + List.length next))%N ->
  (2 * N.of_nat (List.length epr) < MAXPOS)%N -> (bp = Other -> (klink < MAXPOS)%N) ->
  code_at im pos (lf_blk_code t freed0 bp m klink lv) -> labels_at im pos (lf_blk_code t freed0 bp m klink lv) -> frame_ok s sp ->
  (freed0 = true -> (12 <= 2 * N.of_nat (List.length epr))%N) ->
  lgetL s sp freed0 t = Some p -> is_blk p -> rget s HEAP = Some h ->
  lv_kids m (hword s) (rev next) p (3 - bp_n bp) ->
  (m = Share -> forall x, is_blk x -> min_int <= hword s x /\ hword s x + Z.of_nat (List.length next) <= max_int) ->
  let freed1 := freed_after t freed0 bp in
  exists s', steps im pos s (pnth pos (List.length (lf_blk_code t freed0 bp m klink lv))) s' /\
    st_eqB (abs_heap F s') (blk_abs m (hword s) next p (3 - bp_n bp) (abs_heap F s)) /\
    (bp = Other -> lgetL s' sp freed1 (tpos klink) = Some (hword s (p + 48))) /\
    (forall i b, nth_error next i = Some b ->
       lgetL s' sp freed1 (tpos (2 * N.of_nat (List.length epr + i) + 1)) =
         Some (hword s (p + field_offset Snd (3 - bp_n bp - N.of_nat (List.length next) + N.of_nat i))) /\
       (bchi b <> Ext -> lgetL s' sp freed1 (tpos (2 * N.of_nat (List.length epr + i))) =
         Some (hword s (p + field_offset Fst (3 - bp_n bp - N.of_nat (List.length next) + N.of_nat i))))) /\
    (forall l, untouched l -> (forall k, (2 * N.of_nat (List.length epr) <= k <= klink)%N -> l <> tpos k) ->
       lgetL s' sp freed1 l = lgetL s sp freed0 l) /\
    nonblk_same s s' /\
    (m = Share -> forall x, is_blk x -> hword s x <= hword s' x <= hword s x + Z.of_nat (List.length next)) /\
    (exists h', rget s' HEAP = Some h') /\
    out s' = out s /\ frame_ok s' sp.
Proof.
  intros t Hlv Hne Hlen Hkl Kt Hklm HC HL FR Hfr P Hb Hh Kids Room freed1.
  set (Eb := List.length epr) in *.
  assert (Hn1 : (1 <= List.length next)%nat) by (destruct next; [contradiction|cbn; lia]).
  destruct (tpos_not_reserved (2 * N.of_nat Eb)) as (_ & NT & NH & _).
  unfold freed1. clear freed1. subst t. destruct (tpos (2 * N.of_nat Eb)) as [mr|mp] eqn:Et; cbn [blk_reg_of lf_blk_code freed_after] in *.
  - (* the pointer in a register *)
    assert (Hf0 : freed0 = false).
    { destruct freed0; [|reflexivity]. specialize (Hfr eq_refl). apply tpos_reg in Et as [_ Hlt]. lia. }
    subst freed0. rewrite lgetL_false in P. cbn [lget] in P.
    destruct (x86_load_block_ok pos bp next epr m lc lv lc' mr klink s sp p h F Hlv Hne Hlen Hkl Hklm HC HL FR P Hb Hh)
      as (s2 & ST & EQ & Vl & V & Oth & NB & Hd & HH & O & FR2); auto; try congruence.
    { intros k Hk. rewrite <- Et. apply tpos_neq. fold Eb in Hk. lia. }
    exists s2. split; [exact ST|]. split; [exact EQ|].
    split; [intros Ho; rewrite lgetL_false; auto|]. split; [intros i b Hi; rewrite !lgetL_false; auto|].
    split; [|auto]. intros l (L1 & L2 & L3 & L4) Hr. rewrite !lgetL_false. now apply Oth.
  - (* the pointer in a spill slot *)
    destruct (tpos_slot _ _ Et) as (Emp & HE).
    rewrite lgetL_other in P by discriminate. cbn [lget] in P.
    assert (SP : sp_ok sp) by apply FR.
    assert (Qmp : slot_ok mp) by (pose proof (tpos_loc_ok _ Kt) as L; rewrite Et in L; exact L).
    assert (Q0 : slot_ok SPILL_TEMP) by (unfold slot_ok; reflexivity).
    assert (Nmp : SPILL_TEMP <> mp) by (change SPILL_TEMP with 0%N; lia).
    apply code_at_app2 in HC as [HC1 HC2]. apply labels_at_app2 in HL as [_ HL2].
    apply code_at_app2 in HC2 as [HC2 HC3]. apply labels_at_app2 in HL2 as [HL2 _].
    (* evacuate (once) and fetch the pointer *)
    assert (SA : exists sA, steps im pos s (pnth pos (List.length ((if freed0 then [] else [MOVS TEMPORARY_TEMP STACK (stack_offset SPILL_TEMP)]) ++ [MOVL TEMPORARY_TEMP STACK (stack_offset mp)]))) sA /\
       rget sA TEMPORARY_TEMP = Some p /\ sget sA sp SPILL_TEMP = saved s sp freed0 /\
       (forall l, l <> XR TEMPORARY_TEMP -> l <> XS SPILL_TEMP -> loc_ok l -> lget sA sp l = lget s sp l) /\
       (forall a, hword sA a = hword s a) /\ out sA = out s /\ frame_ok sA sp).
    { destruct freed0; cbn [app List.length saved] in *.
      - exists (rset s TEMPORARY_TEMP (Some p)). split; [|split; [|split; [|split; [|split; [|split]]]]]; try reflexivity.
        + nxt HC1 0%nat. { rewrite (step_MOVL_slot im s sp FR) by exact Qmp. rewrite P. reflexivity. } apply steps_refl.
        + apply rget_rset_same.
        + intros [r|q] N1 N2 L; cbn [lget]; [apply rget_rset_other; congruence|apply sget_rset].
        + apply frame_ok_rset; [discriminate|exact FR].
      - set (s1 := sset s sp SPILL_TEMP (rget s TEMPORARY_TEMP)).
        assert (F1 : frame_ok s1 sp) by (apply frame_ok_sset; exact FR).
        exists (rset s1 TEMPORARY_TEMP (Some p)). split; [|split; [|split; [|split; [|split; [|split]]]]]; try reflexivity.
        + nxt HC1 0%nat. { apply (step_MOVS_slot im s sp FR). exact Q0. }
          nxt HC1 1%nat. { rewrite (step_MOVL_slot im s1 sp F1) by exact Qmp. unfold s1 at 2. rewrite sget_sset_other by auto. rewrite P. reflexivity. }
          apply steps_refl.
        + apply rget_rset_same.
        + rewrite sget_rset. unfold s1. apply sget_sset_same.
        + intros [r|q] N1 N2 L; cbn [lget loc_ok] in *.
          * rewrite rget_rset_other by congruence. apply rget_sset.
          * rewrite sget_rset. unfold s1. apply sget_sset_other; auto. congruence.
        + apply frame_ok_rset; [discriminate|exact F1]. }
    destruct SA as (sA & STA & RA & SvA & OthA & WA & OA & FRA).
    destruct (x86_load_block_ok _ bp next epr m lc lv lc' TEMPORARY_TEMP klink sA sp p h F Hlv Hne Hlen Hkl Hklm HC2 HL2 FRA RA Hb)
      as (s2 & ST & EQ & Vl & V & Oth & NB & Hd & HH & O & FR2); auto; try discriminate.
    { rewrite <- Hh. change (lget sA sp (XR HEAP) = lget s sp (XR HEAP)). apply OthA; [discriminate|discriminate|cbn; discriminate]. }
    { intros k Hk. apply not_eq_sym, tpos_not_tt. lia. }
    { eapply lv_kids_congr; [|rewrite rev_length; exact Hlen|exact Kids]. intros j Hj. now rewrite WA. }
    { intros Hm x Hx. rewrite WA. now apply Room. }
    assert (S20 : sget s2 sp SPILL_TEMP = saved s sp freed0).
    { change (lget s2 sp (XS SPILL_TEMP) = saved s sp freed0). rewrite Oth; [exact SvA|exact Q0|discriminate|discriminate|].
      intros k _. apply not_eq_sym, tpos_not_reserved. }
    assert (EQA : st_eqB (abs_heap F sA) (abs_heap F s)).
    { apply abs_heap_same; [exact WA| |].
      - change (lget sA sp (XR HEAP) = lget s sp (XR HEAP)). apply OthA; [discriminate|discriminate|cbn; discriminate].
      - change (lget sA sp (XR FREE) = lget s sp (XR FREE)). apply OthA; [discriminate|discriminate|cbn; discriminate]. }
    assert (EQ' : st_eqB (abs_heap F s2) (blk_abs m (hword s) next p (3 - bp_n bp) (abs_heap F s))).
    { eapply st_eqB_trans; [exact EQ|]. unfold blk_abs. apply lv_abs_congr.
      - destruct m; [apply release_st_eqB; auto|exact EQA].
      - intros j Hj. apply WA.
      - rewrite rev_length. exact Hlen.
      - eapply lv_kids_congr; [|rewrite rev_length; exact Hlen|exact Kids]. intros j Hj. now rewrite WA. }
    assert (NBs : nonblk_same s s2) by (intros a Ha; rewrite NB by exact Ha; apply WA).
    assert (Hds : m = Share -> forall x, is_blk x -> hword s x <= hword s2 x <= hword s x + Z.of_nat (List.length next)).
    { intros Hm x Hx. specialize (Hd Hm x Hx). now rewrite WA in Hd. }
    assert (Hspill : forall k, (2 * N.of_nat Eb <= k)%N -> tpos k <> XR TEMPORARY_TEMP) by (intros k Hk; apply tpos_not_tt; lia).
    (* the end of the block: restore after the last one *)
    assert (SE : exists s3, steps im (pnth (pnth pos (List.length ((if freed0 then [] else [MOVS TEMPORARY_TEMP STACK (stack_offset SPILL_TEMP)]) ++ [MOVL TEMPORARY_TEMP STACK (stack_offset mp)])))
                                       (List.length (rel_code m TEMPORARY_TEMP ++ link_load_code bp klink TEMPORARY_TEMP ++ lv))) s2
                             (pnth (pnth (pnth pos (List.length ((if freed0 then [] else [MOVS TEMPORARY_TEMP STACK (stack_offset SPILL_TEMP)]) ++ [MOVL TEMPORARY_TEMP STACK (stack_offset mp)])))
                                       (List.length (rel_code m TEMPORARY_TEMP ++ link_load_code bp klink TEMPORARY_TEMP ++ lv)))
                                   (List.length (match bp with Last => [MOVL TEMPORARY_TEMP STACK (stack_offset SPILL_TEMP)] | Other => [] end))) s3 /\
       saved s3 sp (match bp with Last => false | Other => true end) = saved s sp freed0 /\
       (forall l, l <> XR TEMPORARY_TEMP -> lget s3 sp l = lget s2 sp l) /\
       (forall a, hword s3 a = hword s2 a) /\ rget s3 HEAP = rget s2 HEAP /\ rget s3 FREE = rget s2 FREE /\ out s3 = out s2 /\ frame_ok s3 sp).
    { destruct bp; cbn [List.length pnth saved].
      - exists (rset s2 TEMPORARY_TEMP (sget s2 sp SPILL_TEMP)). split; [|split; [|split; [|split; [|split; [|split; [|split]]]]]].
        + eapply steps_next; [apply (HC3 0%nat); reflexivity| |apply steps_refl]. apply (step_MOVL_slot im s2 sp FR2). exact Q0.
        + rewrite rget_rset_same. exact S20.
        + intros [r|q] N1; cbn [lget]; [apply rget_rset_other; congruence|apply sget_rset].
        + reflexivity.
        + apply rget_rset_other. discriminate.
        + apply rget_rset_other. discriminate.
        + reflexivity.
        + apply frame_ok_rset; [discriminate|exact FR2].
      - exists s2. split; [apply steps_refl|]. split; [exact S20|]. split; [intros; reflexivity|]. split; [intros; reflexivity|].
        split; [reflexivity|]. split; [reflexivity|]. split; [reflexivity|exact FR2]. }
    destruct SE as (s3 & ST3 & Sv3 & Oth3 & W3 & H3 & F3 & O3 & FR3).
    exists s3. split; [|split; [|split; [|split; [|split; [|split; [|split; [|split; [|split]]]]]]]].
    + eapply steps_app_len; [exact STA|]. eapply steps_app_len; [exact ST|exact ST3].
    + eapply st_eqB_trans; [|exact EQ']. apply abs_heap_same; auto.
    + intros Ho. rewrite lgetL_other by (apply Hspill; lia). rewrite Oth3 by (apply Hspill; lia). rewrite <- WA. exact (Vl Ho).
    + intros i b Hi. destruct (V i b Hi) as [A B]. rewrite !WA in A, B.
      rewrite !lgetL_other by (apply Hspill; fold Eb; lia). rewrite !Oth3 by (apply Hspill; fold Eb; lia). auto.
    + intros l (L1 & L2 & L3 & L4) Hr. destruct (xtemp_eqb_spec l (XR TEMPORARY_TEMP)) as [->|Hl].
      * rewrite !lgetL_tt. exact Sv3.
      * rewrite !lgetL_other by exact Hl. rewrite Oth3 by exact Hl. rewrite Oth by auto. apply OthA; auto.
    + intros a Ha. rewrite W3. now apply NBs.
    + intros Hm x Hx. rewrite W3. now apply Hds.
    + destruct HH as (h' & HH). exists h'. now rewrite H3.
    + congruence.
    + exact FR3.
Qed.
End LoadChain.

(* ---------- the walk of load_fields over the blocks of an object, in emission order ---------- *)
(* the pointer found after the blocks of a call (the link of its last block) *)
Fixpoint lf_ptr (fuel : nat) (w : Z -> Z) (to_load : ctx) (bp : block_position) (p : Z) : Z :=
  match fuel with
  | O => p
  | S f => match to_load with
           | [] => p
           | _ => w (lf_ptr f w (firstn (rest_len (List.length to_load) (3 - bp_n bp)) to_load) Other p + 48)
           end
  end.
Fixpoint lf_abs (fuel : nat) (m : load_mode) (w : Z -> Z) (to_load : ctx) (bp : block_position) (p : Z) (a : Heap.st) : Heap.st :=
  match fuel with
  | O => a
  | S f => match to_load with
           | [] => a
           | _ => let rl := rest_len (List.length to_load) (3 - bp_n bp) in
                  blk_abs m w (skipn rl to_load) (lf_ptr f w (firstn rl to_load) Other p) (3 - bp_n bp)
                          (lf_abs f m w (firstn rl to_load) Other p a)
           end
  end.
(* every block pointer is a block, the pointer slots that get shared are null or blocks *)
Fixpoint lf_ok (fuel : nat) (m : load_mode) (w : Z -> Z) (to_load : ctx) (bp : block_position) (p : Z) : Prop :=
  match fuel with
  | O => True
  | S f => match to_load with
           | [] => True
           | _ => let rl := rest_len (List.length to_load) (3 - bp_n bp) in
                  lf_ok f m w (firstn rl to_load) Other p /\
                  is_blk (lf_ptr f w (firstn rl to_load) Other p) /\
                  lv_kids m w (rev (skipn rl to_load)) (lf_ptr f w (firstn rl to_load) Other p) (3 - bp_n bp)
           end
  end.
(* the addresses of the field slots, left to right *)
Definition blk_addrs (q : Z) (cap : N) : list Z := if (cap =? 3)%N then [q + 16; q + 32; q + 48] else [q + 16; q + 32].
Fixpoint lf_addrs (fuel : nat) (w : Z -> Z) (to_load : ctx) (bp : block_position) (p : Z) : list Z :=
  match fuel with
  | O => []
  | S f => match to_load with
           | [] => []
           | _ => let rl := rest_len (List.length to_load) (3 - bp_n bp) in
                  lf_addrs f w (firstn rl to_load) Other p ++ blk_addrs (lf_ptr f w (firstn rl to_load) Other p) (3 - bp_n bp)
           end
  end.

Lemma blk_addrs_nth q cap j : (cap = 3 \/ cap = 2)%N -> (j < cap)%N -> nth (N.to_nat j) (blk_addrs q cap) 0 = q + field_offset Fst j.
Proof.
  intros [-> | ->] Hj; unfold blk_addrs; cbn [N.eqb Pos.eqb].
  - assert (Hc : (j = 0 \/ j = 1 \/ j = 2)%N) by lia. destruct Hc as [->|[->| ->]]; reflexivity.
  - assert (Hc : (j = 0 \/ j = 1)%N) by lia. destruct Hc as [->| ->]; reflexivity.
Qed.
Lemma blk_addrs_length q cap : (cap = 3 \/ cap = 2)%N -> List.length (blk_addrs q cap) = N.to_nat cap.
Proof. intros [-> | ->]; reflexivity. Qed.
Lemma fo_snd_fst j : field_offset Snd j = field_offset Fst j + 8.
Proof. rewrite !field_offset_val. cbn [tnum_n]. lia. Qed.


Section LoadChain2.
Variable im : image.

Lemma load_values_pos bsrev : forall epr R ff m lc lv lc',
  load_values bsrev epr R ff m lc = Ok (lv, lc') -> bsrev <> [] ->
  (2 * N.of_nat (List.length epr + List.length bsrev) < MAXPOS + 1)%N.
Proof.
  destruct bsrev as [|b rest]; intros epr R ff m lc lv lc' H Hne; [contradiction|].
  cbn [load_values] in H.
  destruct (load_value b (epr ++ rev rest) R (ff - 1) m lc) as [[c1 lc1]|] eqn:E1; [|discriminate].
  destruct (load_value_shape _ _ _ _ _ _ _ _ E1) as (K & _). rewrite app_length, rev_length in K. cbn [List.length]. lia.
Qed.

Lemma load_fields_unfold fuel to_load existing bp m freed lc cs fr lc' :
  to_load <> [] -> load_fields (S fuel) to_load existing bp m freed lc = Ok (cs, fr, lc') ->
  let rl := rest_len (List.length to_load) (3 - bp_n bp) in
  let epr := existing ++ firstn rl to_load in
  let t := tpos (2 * N.of_nat (List.length epr)) in
  let klink := (2 * N.of_nat (List.length (existing ++ to_load)))%N in
  exists c0 freed0 lc0 lv,
    load_fields fuel (firstn rl to_load) existing Other m freed lc = Ok (c0, freed0, lc0) /\
    (2 * N.of_nat (List.length epr) < MAXPOS)%N /\
    (bp = Other -> (klink < MAXPOS)%N) /\
    load_values (rev (skipn rl to_load)) epr (blk_reg_of t) (3 - bp_n bp) m lc0 = Ok (lv, lc') /\
    cs = c0 ++ lf_blk_code t freed0 bp m klink lv /\
    fr = match t with XR _ => freed0 | XS _ => true end.
Proof.
  intros Hne H rl epr t klink. cbn [load_fields] in H. destruct to_load as [|x r]; [contradiction|].
  change (FIELDS_PER_BLOCK - bp_n bp)%N with (3 - bp_n bp)%N in H.
  fold (rest_len (List.length (x :: r)) (3 - bp_n bp)) in H. fold rl in H. fold epr in H.
  destruct (load_fields fuel (firstn rl (x :: r)) existing Other m freed lc) as [[[c0 freed0] lc0]|] eqn:E0; [|discriminate].
  cbn [rbind] in H.
  destruct (x_fresh Fst epr) as [t'|] eqn:Et; [|discriminate]. cbn [rbind] in H.
  apply x_fresh_tpos in Et as [-> Hk]. cbn [tnum_n] in *. rewrite N.add_0_r in *. fold t in H.
  exists c0, freed0, lc0.
  assert (Hlink : forall R c2, (match bp with Other => load_field Fst (existing ++ x :: r) R (FIELDS_PER_BLOCK - 1) | Last => Ok [] end) = Ok c2 ->
            c2 = link_load_code bp klink R /\ (bp = Other -> (klink < MAXPOS)%N)).
  { intros R c2 Hc. destruct bp; cbn [link_load_code].
    - inversion Hc. split; [reflexivity|discriminate].
    - change (FIELDS_PER_BLOCK - 1)%N with 2%N in Hc. apply load_field_shape in Hc as [K ->]. cbn [tnum_n] in *. rewrite N.add_0_r in *.
      split; [reflexivity|intros _; exact K]. }
  destruct t as [mr|mp] eqn:Etp; cbn [blk_reg_of lf_blk_code].
  - destruct (match bp with Other => load_field Fst (existing ++ x :: r) mr (FIELDS_PER_BLOCK - 1) | Last => Ok [] end) as [c2|] eqn:E2; [|discriminate].
    cbn [rbind] in H. destruct (Hlink _ _ E2) as [-> HK].
    destruct (load_values (rev (skipn rl (x :: r))) epr mr (3 - bp_n bp) m lc0) as [[c3 lc3]|] eqn:E3; [|discriminate]. cbn [rbind] in H.
    inversion H; subst. exists c3. auto 7.
  - destruct (match bp with Other => load_field Fst (existing ++ x :: r) TEMPORARY_TEMP (FIELDS_PER_BLOCK - 1) | Last => Ok [] end) as [c2|] eqn:E2; [|discriminate].
    cbn [rbind] in H. destruct (Hlink _ _ E2) as [-> HK].
    destruct (load_values (rev (skipn rl (x :: r))) epr TEMPORARY_TEMP (3 - bp_n bp) m lc0) as [[c3 lc3]|] eqn:E3; [|discriminate]. cbn [rbind] in H.
    inversion H; subst. exists c3. split; [reflexivity|]. split; [exact Hk|]. split; [exact HK|]. split; [reflexivity|]. split; [|reflexivity].
    f_equal. rewrite <- !app_assoc. destruct freed0; destruct m; destruct bp; reflexivity.
Qed.

Definition frL (bp : block_position) (fr : bool) : bool := match bp with Last => false | Other => fr end.

Lemma lf_addrs_length w p : forall fuel to_load bp, (List.length to_load < fuel)%nat ->
  (List.length to_load <= List.length (lf_addrs fuel w to_load bp p))%nat.
Proof.
  induction fuel as [|f IH]; intros to_load bp Hf; [lia|]. cbn [lf_addrs].
  destruct to_load as [|x r]; [cbn; lia|].
  set (tl := x :: r) in *. set (cap := (3 - bp_n bp)%N). set (rl := rest_len (List.length tl) cap).
  assert (Hcap : (cap = 3 \/ cap = 2)%N) by (unfold cap; destruct bp; cbn; auto).
  assert (Hrl : rl = (List.length tl - N.to_nat cap)%nat) by apply rest_len_val.
  rewrite app_length, blk_addrs_length by exact Hcap.
  specialize (IH (firstn rl tl) Other). rewrite firstn_length in IH.
  assert (Hn : (1 <= List.length tl)%nat) by (unfold tl; cbn; lia).
  specialize (IH ltac:(lia)). lia.
Qed.

Lemma blk_abs_congr m w w' next q cap a a' :
  st_eqB a a' -> (forall j, (j < cap)%N -> w (q + field_offset Fst j) = w' (q + field_offset Fst j)) ->
  is_blk q -> (N.of_nat (List.length next) <= cap)%N -> lv_kids m w (rev next) q cap ->
  st_eqB (blk_abs m w next q cap a) (blk_abs m w' next q cap a').
Proof.
  intros E Hw Hb Hlen K. unfold blk_abs. apply lv_abs_congr; auto.
  - destruct m; [apply release_st_eqB; auto|exact E].
  - now rewrite rev_length.
Qed.

(* ---------- the recursion of load_fields ---------- *)
Lemma x86_load_fields_ok : forall fuel to_load existing bp m freed lc cs fr lc' pos s sp p h F,
  load_fields fuel to_load existing bp m freed lc = Ok (cs, fr, lc') ->
  (List.length to_load < fuel)%nat -> (bp = Last -> to_load <> []) ->
  code_at im pos cs -> labels_at im pos cs -> frame_ok s sp ->
  (freed = true -> (12 <= 2 * N.of_nat (List.length existing))%N) ->
  lgetL s sp freed (tpos (2 * N.of_nat (List.length existing))) = Some p -> rget s HEAP = Some h ->
  lf_ok fuel m (hword s) to_load bp p ->
  (m = Share -> forall x, is_blk x -> min_int <= hword s x /\ hword s x + Z.of_nat (List.length to_load) <= max_int) ->
  exists s', steps im pos s (pnth pos (List.length cs)) s' /\
    st_eqB (abs_heap F s') (lf_abs fuel m (hword s) to_load bp p (abs_heap F s)) /\
    (frL bp fr = true -> (12 <= 2 * N.of_nat (List.length existing + List.length to_load))%N) /\
    (bp = Other -> lgetL s' sp (frL bp fr) (tpos (2 * N.of_nat (List.length existing + List.length to_load))) =
                   Some (lf_ptr fuel (hword s) to_load bp p)) /\
    (forall i b, nth_error to_load i = Some b ->
       let A := lf_addrs fuel (hword s) to_load bp p in
       let a := nth (List.length A - List.length to_load + i) A 0 in
       lgetL s' sp (frL bp fr) (tpos (2 * N.of_nat (List.length existing + i) + 1)) = Some (hword s (a + 8)) /\
       (bchi b <> Ext -> lgetL s' sp (frL bp fr) (tpos (2 * N.of_nat (List.length existing + i))) = Some (hword s a))) /\
    (forall l, untouched l ->
       (forall k, (2 * N.of_nat (List.length existing) <= k <= 2 * N.of_nat (List.length existing + List.length to_load))%N -> l <> tpos k) ->
       lgetL s' sp (frL bp fr) l = lgetL s sp freed l) /\
    nonblk_same s s' /\
    (m = Share -> forall x, is_blk x -> hword s x <= hword s' x <= hword s x + Z.of_nat (List.length to_load)) /\
    (exists h', rget s' HEAP = Some h') /\ out s' = out s /\ frame_ok s' sp.
Proof.
  induction fuel as [|fuel IH]; intros to_load existing bp m freed lc cs fr lc' pos s sp p h F Hlf Hfuel HLast HC HL FR Hfr P Hh OK Room; [lia|].
  set (E := List.length existing) in *.
  destruct to_load as [|x r].
  - (* nothing to load *)
    destruct bp; [specialize (HLast eq_refl); contradiction|].
    cbn [load_fields] in Hlf. inversion Hlf; subst cs fr lc'. cbn [frL List.length pnth lf_abs lf_ptr]. rewrite Nat.add_0_r.
    exists s. split; [apply steps_refl|]. split; [apply st_eqB_refl|]. split; [exact Hfr|]. split; [intros _; exact P|].
    split; [intros i b Hi; destruct i; discriminate|]. split; [auto|]. split; [apply nonblk_same_refl|]. split; [intros; lia|]. eauto.
  - set (to_load := x :: r) in *. set (n := List.length to_load) in *.
    assert (Hne : to_load <> []) by discriminate.
    destruct (load_fields_unfold fuel to_load existing bp m freed lc cs fr lc' Hne Hlf) as (c0 & freed0 & lc0 & lv & Hlf0 & Kt & Hklm & Hlv & -> & Efr).
    fold n in Hlf0, Kt, Hlv, Efr, HC, HL, Hklm |- *.
    set (cap := (3 - bp_n bp)%N) in *. set (rl := rest_len n cap) in *.
    set (rest := firstn rl to_load) in *. set (next := skipn rl to_load) in *.
    assert (Hcap : (cap = 3 \/ cap = 2)%N) by (unfold cap; destruct bp; cbn; auto).
    assert (Hrl : rl = (n - N.to_nat cap)%nat) by apply rest_len_val.
    assert (Hn : (1 <= n)%nat) by (unfold n, to_load; cbn; lia).
    assert (Lrest : List.length rest = rl) by (unfold rest; rewrite firstn_length; fold n; lia).
    assert (Lnext : List.length next = (n - rl)%nat) by (unfold next; rewrite skipn_length; reflexivity).
    assert (Lepr : List.length (existing ++ rest) = (E + rl)%nat) by (rewrite app_length, Lrest; reflexivity).
    assert (Lall : List.length (existing ++ to_load) = (E + n)%nat) by (rewrite app_length; reflexivity).
    assert (Hsplit : to_load = rest ++ next) by (unfold rest, next; now rewrite firstn_skipn).
    assert (Hnext : next <> []) by (intros Hx; rewrite Hx in Lnext; cbn [List.length] in Lnext; lia).
    rewrite Lepr, Lall in *.
    cbn [lf_ok] in OK. fold n cap rl rest next in OK. destruct OK as (OK0 & Hbq & Kids).
    cbn [lf_abs lf_ptr lf_addrs]. fold n cap rl rest next.
    set (q := lf_ptr fuel (hword s) rest Other p) in *.
    apply code_at_app2 in HC as [HC0 HC1]. apply labels_at_app2 in HL as [HL0 HL1].
    (* the blocks before *)
    destruct (IH rest existing Other m freed lc c0 freed0 lc0 pos s sp p h F Hlf0 ltac:(rewrite Lrest; lia) ltac:(discriminate) HC0 HL0 FR Hfr P Hh OK0)
      as (s1 & ST1 & EQ1 & Fr1 & Lk1 & V1 & Oth1 & NB1 & Hd1 & (h1 & H1) & O1 & FR1).
    { intros Hm x' Hx'. destruct (Room Hm x' Hx'). rewrite Lrest. fold n in H0. lia. }
    cbn [frL] in Fr1, Lk1, V1, Oth1. rewrite Lrest in *. fold E q in Fr1, Lk1, V1, Oth1.
    specialize (Lk1 eq_refl).
    assert (Hfld1 : forall t j, (j < 3)%N -> hword s1 (q + field_offset t j) = hword s (q + field_offset t j)).
    { intros t j Hj. apply NB1. now apply field_not_blk. }
    (* this block *)
    assert (B3 : (N.of_nat (n - rl) <= cap)%N) by lia.
    assert (B4 : (2 * N.of_nat (E + n))%N = (2 * N.of_nat (E + rl + (n - rl)))%N) by (f_equal; f_equal; lia).
    assert (B14 : lv_kids m (hword s1) (rev next) q cap).
    { eapply lv_kids_congr; [|rewrite rev_length, Lnext; lia|exact Kids]. intros j Hj. symmetry. apply Hfld1. lia. }
    assert (B15 : m = Share -> forall x, is_blk x -> min_int <= hword s1 x /\ hword s1 x + Z.of_nat (n - rl) <= max_int).
    { intros Hm x' Hx'. destruct (Room Hm x' Hx') as [R1 R2]. destruct (Hd1 Hm x' Hx') as [D1 D2]. fold n in R2. lia. }
    pose proof (x86_lf_blk_ok im (pnth pos (List.length c0)) bp next (existing ++ rest) m lc0 lv lc' freed0 (2 * N.of_nat (E + n)) s1 sp q h1 F) as BL.
    cbv zeta in BL. rewrite Lepr, Lnext in BL. fold cap in BL.
    destruct (BL Hlv Hnext B3 B4 Kt Hklm HC1 HL1 FR1 Fr1 Lk1 Hbq H1 B14 B15) as (s2 & ST2 & EQ2 & Lk2 & V2 & Oth2 & NB2 & Hd2 & HH2 & O2 & FR2).
    clear BL.
    assert (Hfa : freed_after (tpos (2 * N.of_nat (E + rl))) freed0 bp = frL bp fr).
    { rewrite Efr. destruct (tpos (2 * N.of_nat (E + rl))) as [mr|mp] eqn:Et; cbn [freed_after frL]; destruct bp; auto.
      destruct freed0; [|reflexivity]. specialize (Fr1 eq_refl). apply tpos_reg in Et as [_ Hlt]. lia. }
    rewrite Hfa in *.
    exists s2. split; [|split; [|split; [|split; [|split; [|split; [|split; [|split; [|split; [|split]]]]]]]]].
    + eapply steps_app_len; eassumption.
    + eapply st_eqB_trans; [exact EQ2|].
      apply blk_abs_congr; [exact EQ1|intros j Hj; apply Hfld1; lia|exact Hbq|rewrite Lnext; lia|exact B14].
    + intros Hf. destruct bp; cbn [frL] in Hf; [discriminate|]. rewrite Efr in Hf.
      destruct (tpos (2 * N.of_nat (E + rl))) as [mr|mp] eqn:Et.
      * specialize (Fr1 Hf). lia.
      * apply tpos_slot in Et as [_ Ht]. lia.
    + intros Ho. rewrite (Lk2 Ho). f_equal. apply NB1. apply not_blk_off; [exact Hbq|lia].
    + intros i b Hi. set (A := lf_addrs fuel (hword s) rest Other p ++ blk_addrs q cap).
      change (match to_load with [] => [] | _ :: _ => A end) with A.
      set (a := nth (List.length A - n + i) A 0).
      assert (LA : (rl <= List.length (lf_addrs fuel (hword s) rest Other p))%nat).
      { rewrite <- Lrest at 1. apply lf_addrs_length. rewrite Lrest. lia. }
      assert (LB : List.length (blk_addrs q cap) = N.to_nat cap) by (now apply blk_addrs_length).
      destruct (Nat.lt_ge_cases i rl) as [Hlt|Hge].
      * (* a variable of an earlier block *)
        assert (Hi' : nth_error rest i = Some b).
        { rewrite Hsplit in Hi. rewrite nth_error_app1 in Hi by (rewrite Lrest; exact Hlt). exact Hi. }
        destruct (V1 i b Hi') as [VS VF].
        assert (Ea : a = nth (List.length (lf_addrs fuel (hword s) rest Other p) - rl + i) (lf_addrs fuel (hword s) rest Other p) 0).
        { unfold a, A. rewrite app_length, LB. rewrite app_nth1 by lia. f_equal. lia. }
        rewrite Ea.
        assert (U : forall k, (k < 2 * N.of_nat (E + rl))%N -> untouched (tpos k) /\
                     (forall k', (2 * N.of_nat (E + rl) <= k' <= 2 * N.of_nat (E + n))%N -> tpos k <> tpos k')).
        { intros k Hk. destruct (tpos_not_reserved k) as (_ & U2 & U3 & _ & U5).
          split; [split; [apply tpos_loc_ok; lia|auto]|]. intros k' Hk'. apply tpos_neq. lia. }
        split; [|intros Hx].
        -- destruct (U (2 * N.of_nat (E + i) + 1)%N ltac:(lia)) as [U1 U2]. rewrite (Oth2 _ U1 U2). exact VS.
        -- destruct (U (2 * N.of_nat (E + i))%N ltac:(lia)) as [U1 U2]. rewrite (Oth2 _ U1 U2). exact (VF Hx).
      * (* a variable of this block *)
        assert (Hi' : nth_error next (i - rl) = Some b).
        { rewrite Hsplit in Hi. rewrite nth_error_app2 in Hi by (rewrite Lrest; exact Hge). now rewrite Lrest in Hi. }
        assert (Hi'' : (i - rl < n - rl)%nat) by (rewrite <- Lnext; apply nth_error_Some; congruence).
        destruct (V2 _ b Hi') as [VS VF].
        replace (E + rl + (i - rl))%nat with (E + i)%nat in VS, VF by lia.
        set (j := (cap - N.of_nat (n - rl) + N.of_nat (i - rl))%N) in *.
        assert (Hj : (j < cap)%N) by (unfold j; lia).
        assert (Ea : a = q + field_offset Fst j).
        { unfold a, A. rewrite app_length, LB. rewrite app_nth2 by lia.
          rewrite <- (blk_addrs_nth q cap j Hcap Hj). f_equal. unfold j. lia. }
        rewrite Ea. rewrite <- Z.add_assoc, <- fo_snd_fst. rewrite <- !Hfld1 by lia. auto.
    + intros l U Hr. rewrite Oth2; [apply Oth1; [exact U|]|exact U|]; intros k Hk; apply Hr; lia.
    + eapply nonblk_same_trans; eassumption.
    + intros Hm x' Hx'. destruct (Hd1 Hm x' Hx'), (Hd2 Hm x' Hx'). fold n. lia.
    + exact HH2.
    + congruence.
    + exact FR2.
Qed.
End LoadChain2.

(* ---------- the walk only reads link and field words, which are not block headers ---------- *)
Lemma next_len_le n cap : (cap = 3 \/ cap = 2)%N -> (N.of_nat (n - rest_len n cap) <= cap)%N.
Proof. intros H. rewrite rest_len_val. lia. Qed.

Lemma lf_ext m w w' : (forall a, ~ is_blk a -> w' a = w a) ->
  forall fuel to_load bp p a a', lf_ok fuel m w to_load bp p -> st_eqB a a' ->
    lf_ptr fuel w' to_load bp p = lf_ptr fuel w to_load bp p /\
    lf_addrs fuel w' to_load bp p = lf_addrs fuel w to_load bp p /\
    lf_ok fuel m w' to_load bp p /\
    st_eqB (lf_abs fuel m w' to_load bp p a) (lf_abs fuel m w to_load bp p a').
Proof.
  intros Hw. induction fuel as [|f IH]; intros to_load bp p a a' OK E; cbn [lf_ptr lf_addrs lf_ok lf_abs] in *; auto.
  destruct to_load as [|x r]; auto.
  set (tl := x :: r) in *. set (cap := (3 - bp_n bp)%N) in *. set (rl := rest_len (List.length tl) cap) in *.
  assert (Hcap : (cap = 3 \/ cap = 2)%N) by (unfold cap; destruct bp; cbn; auto).
  destruct OK as (OK0 & Hbq & Kids).
  destruct (IH (firstn rl tl) Other p a a' OK0 E) as (E1 & E2 & E3 & E4). rewrite E1, E2.
  set (q := lf_ptr f w (firstn rl tl) Other p) in *.
  assert (Hfld : forall j, (j < cap)%N -> w (q + field_offset Fst j) = w' (q + field_offset Fst j)).
  { intros j Hj. symmetry. apply Hw. apply field_not_blk; auto. lia. }
  assert (Lnext : (N.of_nat (List.length (skipn rl tl)) <= cap)%N) by (rewrite skipn_length; now apply next_len_le).
  assert (K' : lv_kids m w' (rev (skipn rl tl)) q cap).
  { eapply lv_kids_congr; [exact Hfld|rewrite rev_length; exact Lnext|exact Kids]. }
  split; [apply Hw; apply not_blk_off; [exact Hbq|lia]|]. split; [reflexivity|]. split; [auto|].
  apply blk_abs_congr; auto. intros j Hj. symmetry. now apply Hfld.
Qed.

Lemma lf_ok_release m w : forall fuel to_load bp p, lf_ok fuel m w to_load bp p -> lf_ok fuel Release w to_load bp p.
Proof.
  induction fuel as [|f IH]; intros to_load bp p OK; cbn [lf_ok] in *; auto.
  destruct to_load as [|x r]; auto. destruct OK as (OK0 & Hbq & _). split; [now apply IH|]. split; [exact Hbq|apply lv_kids_release].
Qed.

(* every field slot address is a field of a block *)
Lemma blk_addrs_in q cap a : (cap = 3 \/ cap = 2)%N -> In a (blk_addrs q cap) -> exists j, (j < 3)%N /\ a = q + field_offset Fst j.
Proof.
  intros [-> | ->]; unfold blk_addrs; cbn [N.eqb Pos.eqb In]; intros H.
  - destruct H as [<-|[<-|[<-|[]]]]; [exists 0%N|exists 1%N|exists 2%N]; split; try lia; reflexivity.
  - destruct H as [<-|[<-|[]]]; [exists 0%N|exists 1%N]; split; try lia; reflexivity.
Qed.
Lemma lf_addrs_in m w : forall fuel to_load bp p a, lf_ok fuel m w to_load bp p -> In a (lf_addrs fuel w to_load bp p) ->
  exists q j, is_blk q /\ (j < 3)%N /\ a = q + field_offset Fst j.
Proof.
  induction fuel as [|f IH]; intros to_load bp p a OK Hin; cbn [lf_ok lf_addrs] in *; [contradiction|].
  destruct to_load as [|x r]; [contradiction|]. destruct OK as (OK0 & Hbq & _).
  apply in_app_iff in Hin as [Hin|Hin]; [eapply IH; eauto|].
  apply blk_addrs_in in Hin as (j & Hj & ->); [eauto|]. destruct bp; cbn; auto.
Qed.

Section LoadChain3.
Variable im : image.

(* what the walk needs of the object at p: every block of the chain is a block, the pointer slots that
   are shared are null or blocks, and the counts have room for one more reference per variable *)
Definition walk_pre (s : xstate) (p : Z) (to_load : ctx) : Prop :=
  lf_ok (S (List.length to_load)) Share (hword s) to_load Last p /\
  (forall x, is_blk x -> min_int + 1 <= hword s x /\ hword s x + Z.of_nat (List.length to_load) <= max_int).

Theorem x86_load_walk_ok pos to_load existing lc cs lc' s sp p h F :
  x_load to_load existing lc = Ok (cs, lc') -> to_load <> [] ->
  code_at im pos cs -> labels_at im pos cs -> frame_ok s sp ->
  lget s sp (tpos (2 * N.of_nat (List.length existing))) = Some p -> is_blk p -> rget s HEAP = Some h ->
  walk_pre s p to_load ->
  let fuel := S (List.length to_load) in
  exists s', steps im pos s (pnth pos (List.length cs)) s' /\
    st_eqB (abs_heap F s')
      (if hword s p =? 0 then lf_abs fuel Release (hword s) to_load Last p (abs_heap F s)
       else lf_abs fuel Share (hword s) to_load Last p (Heap.dec p (abs_heap F s))) /\
    (forall i b, nth_error to_load i = Some b ->
       let A := lf_addrs fuel (hword s) to_load Last p in
       let a := nth (List.length A - List.length to_load + i) A 0 in
       lget s' sp (tpos (2 * N.of_nat (List.length existing + i) + 1)) = Some (hword s (a + 8)) /\
       (bchi b <> Ext -> lget s' sp (tpos (2 * N.of_nat (List.length existing + i))) = Some (hword s a))) /\
    (forall k, (k < 2 * N.of_nat (List.length existing))%N -> lget s' sp (tpos k) = lget s sp (tpos k)) /\
    out s' = out s /\ frame_ok s' sp.
Proof.
  intros Hx Hne HC HL FR P Hb Hh (OK & Room) fuel.
  assert (Hk2E : (2 * N.of_nat (List.length existing) < MAXPOS)%N).
  { unfold x_load in Hx. destruct to_load; [contradiction|]. destruct (x_fresh Fst existing) as [t|] eqn:Et; [|discriminate].
    apply x_fresh_tpos in Et as [_ K]. cbn [tnum_n] in K. now rewrite N.add_0_r in K. }
  (* a common statement for the block register br that holds p for the header test *)
  assert (Main : forall br cs1 pos1 s0, load_register br to_load existing lc = Ok (cs1, lc') ->
     code_at im pos1 cs1 -> labels_at im pos1 cs1 -> frame_ok s0 sp ->
     rget s0 br = Some p -> lget s0 sp (tpos (2 * N.of_nat (List.length existing))) = Some p -> rget s0 HEAP = Some h ->
     (forall a, hword s0 a = hword s a) ->
     exists s', steps im pos1 s0 (pnth pos1 (List.length cs1)) s' /\
       st_eqB (abs_heap F s')
         (if hword s p =? 0 then lf_abs fuel Release (hword s) to_load Last p (abs_heap F s0)
          else lf_abs fuel Share (hword s) to_load Last p (Heap.dec p (abs_heap F s0))) /\
       (forall i b, nth_error to_load i = Some b ->
          let A := lf_addrs fuel (hword s) to_load Last p in
          let a := nth (List.length A - List.length to_load + i) A 0 in
          lget s' sp (tpos (2 * N.of_nat (List.length existing + i) + 1)) = Some (hword s (a + 8)) /\
          (bchi b <> Ext -> lget s' sp (tpos (2 * N.of_nat (List.length existing + i))) = Some (hword s a))) /\
       (forall k, (k < 2 * N.of_nat (List.length existing))%N -> lget s' sp (tpos k) = lget s0 sp (tpos k)) /\
       out s' = out s0 /\ frame_ok s' sp).
  { clear HC HL Hx pos cs. intros br cs pos s0 Hlr HC HL FR0 Rb P0 Hh0 W0.
    destruct (load_register_shape _ _ _ _ _ _ Hlr) as (thn & fr1 & lc1 & els & fr2 & lc2 & Ethn & Eels & -> & _).
    pose proof (blk_heap_addr p Hb) as Ha.
    set (seg2 := [ADDIM br 0 (-1)] ++ els) in *.
    apply code_at_app2 in HC as [HC1 HCr]. apply labels_at_app2 in HL as [_ HLr].
    apply code_at_app2 in HCr as [HC2 HCr]. apply labels_at_app2 in HLr as [HL2 HLr].
    apply code_at_app2 in HCr as [HC3 HCr]. apply labels_at_app2 in HLr as [HL3 HLr].
    apply code_at_app2 in HCr as [HC4 HC5]. apply labels_at_app2 in HLr as [HL4 HL5].
    rewrite !pnth_app_len.
    set (p2 := pnth pos (List.length [CMPIM br 0 0; JEL (lab (lc2 + 1))])) in *.
    set (p3 := pnth p2 (List.length seg2)) in *.
    set (p4 := pnth p3 (List.length [JMPL (lab (lc2 + 2)); LAB (lab (lc2 + 1))])) in *.
    set (p5 := pnth p4 (List.length thn)) in *.
    pose proof (HL3 1%nat _ eq_refl) as Lthen. pose proof (HL5 0%nat _ eq_refl) as Lelse. cbn [pnth] in Lelse.
    set (sa := set_flags s0 (Some (hword s0 p, 0))).
    assert (STa : steps im pos s0 (Pos.succ pos) sa).
    { eapply steps_next; [apply (HC1 0%nat); reflexivity| |apply steps_refl]. eapply step_CMPIM0_heap; [exact Rb|exact Ha]. }
    assert (FRa : frame_ok sa sp) by (now apply frame_ok_set_flags).
    assert (Wa : forall a, hword sa a = hword s a) by exact W0.
    assert (Pa : lgetL sa sp false (tpos (2 * N.of_nat (List.length existing))) = Some p) by (rewrite lgetL_false; exact P0).
    assert (Frame : forall s' : xstate, (forall l, untouched l ->
              (forall k, (2 * N.of_nat (List.length existing) <= k <= 2 * N.of_nat (List.length existing + List.length to_load))%N -> l <> tpos k) ->
              lgetL s' sp false l = lgetL sa sp false l) ->
            forall k, (k < 2 * N.of_nat (List.length existing))%N -> lget s' sp (tpos k) = lget s0 sp (tpos k)).
    { intros s' Hfr k Hk. rewrite <- (lgetL_false s' sp), Hfr, lgetL_false; [reflexivity| |intros k' Hk'; apply tpos_neq; lia].
      destruct (tpos_not_reserved k) as (_ & U2 & U3 & _ & U5). split; [apply tpos_loc_ok; lia|auto]. }
    destruct (Z.eqb_spec (hword s p) 0) as [H0|Hn0].
    - (* release *)
      destruct (lf_ext Release (hword s) (hword sa) (fun a _ => Wa a) fuel to_load Last p (abs_heap F sa) (abs_heap F s0) (lf_ok_release _ _ _ _ _ _ OK))
        as (X1 & X2 & X3 & X4); [apply abs_heap_same; reflexivity|].
      destruct (x86_load_fields_ok im fuel to_load existing Last Release false lc thn fr1 lc1 p4 sa sp p h F Ethn ltac:(unfold fuel; lia) (fun _ => Hne) HC4 HL4 FRa
                  ltac:(discriminate) Pa Hh0 X3 ltac:(discriminate))
        as (sb & STb & EQb & _ & _ & Vb & Ob & _ & _ & _ & Outb & FRb).
      cbn [frL] in Vb, Ob.
      exists sb. split; [|split; [|split; [|split; [|split; [exact Outb|exact FRb]]]]].
      + eapply steps_trans; [exact STa|].
        eapply steps_jump; [apply (HC1 1%nat); reflexivity| |].
        { rewrite (step_JEL im _ _ (hword s0 p) 0) by reflexivity. rewrite W0, H0. cbn [Z.eqb]. unfold goto_label. rewrite Lthen. reflexivity. }
        eapply steps_next; [apply (HC3 1%nat); reflexivity|reflexivity|].
        change (Pos.succ (pnth p3 1)) with p4.
        eapply steps_trans; [exact STb|]. fold p5.
        eapply steps_next; [apply (HC5 0%nat); reflexivity|reflexivity|]. apply steps_refl.
      + eapply st_eqB_trans; [exact EQb|exact X4].
      + intros i b Hi A a. destruct (Vb i b Hi) as [VS VF]. rewrite !lgetL_false in VS, VF. rewrite X2 in VS, VF.
        rewrite !Wa in VS, VF. auto.
      + now apply Frame.
    - (* decrement, share *)
      destruct (Room p Hb) as [Rlo Rhi].
      assert (Wd : wrap (hword s p + -1) = hword s p - 1) by (apply wrap_id; unfold min_int, max_int, two63 in *; lia).
      set (sd := set_flags (hset sa p (wrap (hword sa p + -1))) None).
      assert (FRd : frame_ok sd sp) by (apply frame_ok_set_flags, frame_ok_hset; exact FRa).
      assert (Wsd : forall a, hword sd a = if a =? p then hword s p - 1 else hword s a).
      { intros a. unfold sd. rewrite hword_set_flags, hword_hset by (now apply is_blk_pos). rewrite !Wa. now rewrite Wd. }
      assert (Wnb : forall a, ~ is_blk a -> hword sd a = hword s a).
      { intros a Hna. rewrite Wsd. destruct (Z.eqb_spec a p) as [->|]; [contradiction|reflexivity]. }
      assert (EQd : st_eqB (abs_heap F sd) (Heap.dec p (abs_heap F s0))).
      { unfold Heap.dec. split; [reflexivity|]. split; [reflexivity|]. split; [reflexivity|].
        intros x Hx'. cbn [abs_heap Heap.m]. unfold sd. rewrite Wa, Wd. change (Heap.hdr (abs_mem s0 p)) with (hword s0 p). rewrite W0.
        change (abs_mem (set_flags (hset sa p (hword s p - 1)) None) x) with (abs_mem (hset s0 p (hword s p - 1)) x).
        now apply abs_mem_hset. }
      destruct (lf_ext Share (hword s) (hword sd) Wnb fuel to_load Last p (abs_heap F sd) (Heap.dec p (abs_heap F s0)) OK EQd) as (X1 & X2 & X3 & X4).
      unfold seg2 in HC2, HL2. apply code_at_app2 in HC2 as [HC2a HC2b]. apply labels_at_app2 in HL2 as [_ HL2b].
      assert (Pd : lgetL sd sp false (tpos (2 * N.of_nat (List.length existing))) = Some p) by (rewrite lgetL_false; exact P0).
      destruct (x86_load_fields_ok im fuel to_load existing Last Share false lc1 els fr2 lc2 _ sd sp p h F Eels ltac:(unfold fuel; lia) (fun _ => Hne) HC2b HL2b FRd
                  ltac:(discriminate) Pd Hh0 X3)
        as (se & STe & EQe & _ & _ & Ve & Oe & _ & _ & _ & Oute & FRe).
      { intros _ x Hx'. destruct (Room x Hx'). rewrite Wsd. destruct (x =? p); lia. }
      cbn [frL] in Ve, Oe.
      exists se. split; [|split; [|split; [|split; [|split; [exact Oute|exact FRe]]]]].
      + eapply steps_trans; [exact STa|].
        eapply steps_next; [apply (HC1 1%nat); reflexivity| |].
        { rewrite (step_JEL im _ _ (hword s0 p) 0) by reflexivity. rewrite W0. destruct (Z.eqb_spec (hword s p) 0); [contradiction|reflexivity]. }
        change (Pos.succ (Pos.succ pos)) with p2.
        eapply steps_next; [apply (HC2a 0%nat); reflexivity| |].
        { eapply step_ADDIM_heap; [exact Rb|exact Ha|reflexivity]. }
        fold sd. change (Pos.succ p2) with (pnth p2 (List.length [ADDIM br 0 (-1)])).
        eapply steps_trans; [exact STe|]. rewrite <- pnth_app_len. fold seg2. fold p3.
        eapply steps_jump; [apply (HC3 0%nat); reflexivity| |].
        { cbn [step]. unfold goto_label. rewrite Lelse. reflexivity. }
        eapply steps_next; [apply (HC5 0%nat); reflexivity|reflexivity|]. apply steps_refl.
      + eapply st_eqB_trans; [exact EQe|exact X4].
      + intros i b Hi A a. destruct (Ve i b Hi) as [VS VF]. rewrite !lgetL_false in VS, VF. rewrite X2 in VS, VF. fold A a in VS, VF.
        assert (Hi' : (i < List.length to_load)%nat) by (apply nth_error_Some; congruence).
        assert (LA : (List.length to_load <= List.length A)%nat) by (apply lf_addrs_length; unfold fuel; lia).
        assert (Hin : In a A) by (apply nth_In; lia).
        destruct (lf_addrs_in Share (hword s) fuel to_load Last p a OK Hin) as (q & j & Hq & Hj & Ea).
        assert (N1 : ~ is_blk a) by (rewrite Ea; now apply field_not_blk).
        assert (N2 : ~ is_blk (a + 8)) by (rewrite Ea, <- Z.add_assoc, <- fo_snd_fst; now apply field_not_blk).
        rewrite (Wnb _ N1) in VF. rewrite (Wnb _ N2) in VS. auto.
      + now apply Frame. }
  unfold x_load in Hx. destruct to_load as [|x0 r0]; [contradiction|].
  destruct (x_fresh Fst existing) as [t|] eqn:Et; [|discriminate]. cbn [rbind] in Hx.
  apply x_fresh_tpos in Et as [-> Hk]. cbn [tnum_n] in *. rewrite N.add_0_r in *.
  destruct (tpos (2 * N.of_nat (List.length existing))) as [r|q] eqn:Etp.
  - cbn [lget] in P. rewrite <- Etp in *.
    apply (Main r cs pos s Hx HC HL FR); auto. rewrite Etp. exact P.
  - destruct (load_register TEMP (x0 :: r0) existing lc) as [[c1 lc1]|] eqn:Elr; [|discriminate]. cbn [rbind fst snd] in Hx.
    inversion Hx; subst cs lc'. clear Hx.
    assert (Q : slot_ok q) by (pose proof (tpos_loc_ok _ Hk) as L; rewrite Etp in L; exact L).
    cbn [lget] in P.
    change (MOVL TEMP STACK (stack_offset q) :: c1) with ([MOVL TEMP STACK (stack_offset q)] ++ c1) in *.
    apply code_at_app2 in HC as [HC1 HC2]. apply labels_at_app2 in HL as [_ HL2].
    set (s0 := rset s TEMP (Some p)).
    assert (FR0 : frame_ok s0 sp) by (apply frame_ok_rset; [discriminate|exact FR]).
    rewrite <- Etp in *.
    destruct (Main TEMP c1 _ s0 Elr HC2 HL2 FR0) as (s' & ST & EQ & V & O & Out & FR'); auto.
    { apply rget_rset_same. }
    { rewrite Etp. cbn [lget]. unfold s0. rewrite sget_rset. exact P. }
    { unfold s0. rewrite rget_rset_other by discriminate. exact Hh. }
    exists s'. split; [|split; [|split; [exact V|split; [|split; [exact Out|exact FR']]]]].
    + eapply steps_app_len; [|exact ST].
      eapply steps_next; [apply (HC1 0%nat); reflexivity| |apply steps_refl].
      rewrite (step_MOVL_slot im s sp FR) by exact Q. rewrite P. reflexivity.
    + eapply st_eqB_trans; [exact EQ|].
      assert (E0 : st_eqB (abs_heap F s0) (abs_heap F s)) by apply abs_heap_rset_temp.
      destruct (hword s p =? 0).
      * apply (lf_ext Release (hword s) (hword s) (fun a _ => eq_refl)); [exact (lf_ok_release _ _ _ _ _ _ OK)|exact E0].
      * apply (lf_ext Share (hword s) (hword s) (fun a _ => eq_refl)); [exact OK|]. apply dec_st_eqB; auto.
    + intros k Hk'. rewrite O by exact Hk'. unfold s0.
      pose proof (tpos_not_temp k) as NT. destruct (tpos k) as [r|q']; cbn [lget]; [apply rget_rset_other; congruence|apply sget_rset].
Qed.
End LoadChain3.

(* ====================================================================================== *)
(* The walk in emission order is Heap.load_object. *)
From SCC Require Proof.HeapMore.

(* the pointer slots of the abstract state are the words w *)
Definition ps_w (w : Z -> Z) (a : Heap.st) : Prop := forall q, Heap.ps (Heap.m a q) = [w (q + 16); w (q + 32); w (q + 48)].
Lemma ps_w_abs F s : ps_w (hword s) (abs_heap F s). Proof. intros q. reflexivity. Qed.
Lemma ps_w_release w p a : ps_w w a -> ps_w w (Heap.release p a).
Proof. intros H q. rewrite HeapMore.release_ps. apply H. Qed.
Lemma ps_w_dec w p a : ps_w w a -> ps_w w (Heap.dec p a).
Proof. intros H q. rewrite HeapMore.dec_ps. apply H. Qed.
Lemma ps_w_share_list w l a : ps_w w a -> ps_w w (Heap.share_list l a).
Proof. intros H q. rewrite HeapMore.share_list_ps. apply H. Qed.
Lemma ps_w_link w a q : ps_w w a -> Heap.link_of (Heap.m a) q = w (q + 48).
Proof. intros H. unfold Heap.link_of. now rewrite H. Qed.

Fixpoint nthlink (w : Z -> Z) (j : nat) (p : Z) : Z := match j with O => p | S j' => w (nthlink w j' p + 48) end.
Lemma nthlink_shift w j p : nthlink w (S j) p = nthlink w j (w (p + 48)).
Proof. induction j as [|j IH]; [reflexivity|]. cbn [nthlink] in *. now rewrite IH. Qed.

(* number of continuation blocks for n variables *)
Definition nbo (n : nat) : nat := Nat.div (n + 1) 2.
Lemma nbo_step n : (1 <= n)%nat -> nbo n = S (nbo (n - 2)).
Proof.
  intros Hn. unfold nbo. destruct n as [|[|n]]; [lia|reflexivity|].
  replace (S (S n) - 2 + 1)%nat with (n + 1)%nat by lia. replace (S (S n) + 1)%nat with (n + 1 + 1 * 2)%nat by lia.
  rewrite Nat.div_add by lia. lia.
Qed.
Lemma nlinks_nbo n : Heap.nlinks n = nbo (n - 3).
Proof. unfold Heap.nlinks, nbo. destruct (Nat.leb_spec n 3); [|reflexivity]. replace (n - 3)%nat with 0%nat by lia. reflexivity. Qed.

Lemma lf_ptr_nthlink w p : forall fuel to_load, (List.length to_load < fuel)%nat ->
  lf_ptr fuel w to_load Other p = nthlink w (nbo (List.length to_load)) p.
Proof.
  induction fuel as [|f IH]; intros to_load Hf; [lia|]. cbn [lf_ptr].
  destruct to_load as [|x r]; [reflexivity|].
  set (tl := x :: r) in *. assert (Hn : (1 <= List.length tl)%nat) by (unfold tl; cbn; lia).
  change (3 - bp_n Other)%N with 2%N. rewrite IH by (rewrite firstn_length, rest_len_val; change (N.to_nat 2) with 2%nat; lia).
  rewrite firstn_length, rest_len_val. change (N.to_nat 2) with 2%nat.
  replace (Nat.min (List.length tl - 2) (List.length tl)) with (List.length tl - 2)%nat by lia.
  now rewrite (nbo_step (List.length tl) Hn).
Qed.

(* ---------- Release ---------- *)
Fixpoint rel_upto (w : Z -> Z) (j : nat) (p : Z) (a : Heap.st) : Heap.st :=
  match j with O => a | S j' => Heap.release (nthlink w j' p) (rel_upto w j' p a) end.
Lemma rel_upto_shift w j : forall p a, rel_upto w (S j) p a = rel_upto w j (w (p + 48)) (Heap.release p a).
Proof.
  induction j as [|j IH]; intros p a; [reflexivity|].
  change (rel_upto w (S (S j)) p a) with (Heap.release (nthlink w (S j) p) (rel_upto w (S j) p a)).
  rewrite IH, nthlink_shift. reflexivity.
Qed.
Lemma blk_abs_release w next q cap a : blk_abs Release w next q cap a = Heap.release q a.
Proof. unfold blk_abs. apply lv_abs_release. Qed.

Lemma lf_abs_release_other w p a : forall fuel to_load, (List.length to_load < fuel)%nat ->
  lf_abs fuel Release w to_load Other p a = rel_upto w (nbo (List.length to_load)) p a.
Proof.
  induction fuel as [|f IH]; intros to_load Hf; [lia|]. cbn [lf_abs].
  destruct to_load as [|x r]; [reflexivity|].
  set (tl := x :: r) in *. assert (Hn : (1 <= List.length tl)%nat) by (unfold tl; cbn; lia).
  change (3 - bp_n Other)%N with 2%N. rewrite blk_abs_release.
  assert (Lr : List.length (firstn (rest_len (List.length tl) 2) tl) = (List.length tl - 2)%nat).
  { rewrite firstn_length, rest_len_val. change (N.to_nat 2) with 2%nat. lia. }
  rewrite IH, lf_ptr_nthlink by (rewrite Lr; lia). rewrite Lr, (nbo_step (List.length tl) Hn). reflexivity.
Qed.
Lemma load_object_release_upto w : forall k p a, ps_w w a ->
  Heap.load_object_release k p a = Heap.release (nthlink w k p) (rel_upto w k p a).
Proof.
  induction k as [|k IH]; intros p a Hps; [reflexivity|].
  cbn [Heap.load_object_release]. rewrite (ps_w_link w a p Hps).
  rewrite IH by (now apply ps_w_release). rewrite <- nthlink_shift, <- rel_upto_shift. reflexivity.
Qed.
Theorem lf_abs_release_load_object w to_load p a :
  to_load <> [] -> ps_w w a ->
  lf_abs (S (List.length to_load)) Release w to_load Last p a = Heap.load_object_release (Heap.nlinks (List.length to_load)) p a.
Proof.
  intros Hne Hps. cbn [lf_abs]. destruct to_load as [|x r]; [contradiction|].
  set (tl := x :: r) in *. assert (Hn : (1 <= List.length tl)%nat) by (unfold tl; cbn; lia).
  change (3 - bp_n Last)%N with 3%N. rewrite blk_abs_release.
  assert (Lr : List.length (firstn (rest_len (List.length tl) 3) tl) = (List.length tl - 3)%nat).
  { rewrite firstn_length, rest_len_val. change (N.to_nat 3) with 3%nat. lia. }
  rewrite lf_abs_release_other, lf_ptr_nthlink by (rewrite Lr; lia). rewrite Lr.
  rewrite (load_object_release_upto w _ _ _ Hps), nlinks_nbo. reflexivity.
Qed.

(* ---------- Share ---------- *)
Lemma lv_abs_share_list2 w bs p a :
  (List.length bs <= 2)%nat ->
  (forall j, (j < 2 - N.of_nat (List.length bs))%N -> w (p + field_offset Fst j) = 0) ->
  (forall i b, nth_error bs i = Some b -> bchi b = Ext -> w (p + field_offset Fst (2 - N.of_nat (List.length bs) + N.of_nat i)) = 0) ->
  (forall j, (j < 2)%N -> w (p + field_offset Fst j) = 0 \/ is_blk (w (p + field_offset Fst j))) ->
  st_eqB (lv_abs Share w (rev bs) p 2 a) (Heap.share_list [w (p + 16); w (p + 32)] a).
Proof.
  intros Hlen Hz He Hk.
  assert (E : lv_abs Share w (rev bs) p 2 a = Heap.share (w (p + 16)) 1 (Heap.share (w (p + 32)) 1 a)).
  { destruct bs as [|b0 [|b1 [|]]]; cbn [List.length] in *; try lia; cbn [rev app lv_abs];
      change (2 - 1)%N with 1%N; change (1 - 1)%N with 0%N; rewrite ?fo_F0, ?fo_F1.
    - pose proof (Hz 0%N ltac:(cbn; lia)) as Z0. pose proof (Hz 1%N ltac:(cbn; lia)) as Z1.
      rewrite fo_F0 in Z0. rewrite fo_F1 in Z1. rewrite Z0, Z1. reflexivity.
    - pose proof (Hz 0%N ltac:(cbn; lia)) as Z0. rewrite fo_F0 in Z0. rewrite Z0.
      rewrite share_if; [reflexivity|]. intros Hx. exact (He 0%nat b0 eq_refl Hx).
    - rewrite (share_if b1); [|intros Hx; exact (He 1%nat b1 eq_refl Hx)].
      rewrite (share_if b0); [reflexivity|]. intros Hx. exact (He 0%nat b0 eq_refl Hx). }
  rewrite E. unfold Heap.share_list. cbn [fold_left]. apply share_comm.
Qed.

Fixpoint lf_share_ok (fuel : nat) (w : Z -> Z) (to_load : ctx) (bp : block_position) (p : Z) : Prop :=
  match fuel with
  | O => True
  | S f => match to_load with
           | [] => True
           | _ => let cap := (3 - bp_n bp)%N in
                  let rl := rest_len (List.length to_load) cap in
                  let q := lf_ptr f w (firstn rl to_load) Other p in
                  let next := skipn rl to_load in
                  lf_share_ok f w (firstn rl to_load) Other p /\ is_blk q /\
                  (forall j, (j < cap)%N -> w (q + field_offset Fst j) = 0 \/ is_blk (w (q + field_offset Fst j))) /\
                  (forall j, (j < cap - N.of_nat (List.length next))%N -> w (q + field_offset Fst j) = 0) /\
                  (forall i b, nth_error next i = Some b -> bchi b = Ext ->
                     w (q + field_offset Fst (cap - N.of_nat (List.length next) + N.of_nat i)) = 0)
           end
  end.
Lemma lf_share_ok_lf_ok w p : forall fuel to_load bp, lf_share_ok fuel w to_load bp p -> lf_ok fuel Share w to_load bp p.
Proof.
  induction fuel as [|f IH]; intros to_load bp H; cbn [lf_share_ok lf_ok] in *; auto.
  destruct to_load as [|x r]; auto. destruct H as (H0 & Hq & Hk & _). split; [now apply IH|]. split; [exact Hq|].
  apply lv_kids_all; [exact Hk|]. rewrite rev_length, skipn_length. apply next_len_le. destruct bp; cbn; auto.
Qed.

Fixpoint shr_upto (w : Z -> Z) (j : nat) (p : Z) (a : Heap.st) : Heap.st :=
  match j with
  | O => a
  | S j' => Heap.share_list [w (nthlink w j' p + 16); w (nthlink w j' p + 32)] (shr_upto w j' p a)
  end.
Lemma shr_upto_shift w j : forall p a,
  shr_upto w (S j) p a = shr_upto w j (w (p + 48)) (Heap.share_list [w (p + 16); w (p + 32)] a).
Proof.
  induction j as [|j IH]; intros p a; [reflexivity|].
  change (shr_upto w (S (S j)) p a) with (Heap.share_list [w (nthlink w (S j) p + 16); w (nthlink w (S j) p + 32)] (shr_upto w (S j) p a)).
  rewrite IH, nthlink_shift. reflexivity.
Qed.
Lemma share_walk_upto w : forall k p a, ps_w w a ->
  Heap.share_walk k p a =
  Heap.share_list [w (nthlink w k p + 16); w (nthlink w k p + 32); w (nthlink w k p + 48)] (shr_upto w k p a).
Proof.
  induction k as [|k IH]; intros p a Hps.
  - cbn [Heap.share_walk nthlink shr_upto]. now rewrite Hps.
  - cbn [Heap.share_walk]. rewrite (ps_w_link w a p Hps). unfold Heap.fields_of. rewrite Hps. cbn [firstn skipn app].
    rewrite IH by (now apply ps_w_share_list). rewrite <- nthlink_shift, <- shr_upto_shift. reflexivity.
Qed.
Lemma share_list_st_eqB l : forall a b, st_eqB a b -> Forall (fun c => c = 0 \/ is_blk c) l -> st_eqB (Heap.share_list l a) (Heap.share_list l b).
Proof.
  unfold Heap.share_list. induction l as [|c l IH]; intros a b E Hl; cbn [fold_left]; auto.
  inversion Hl; subst. apply IH; auto. now apply share_st_eqB.
Qed.

Lemma lf_abs_share_other w p a : forall fuel to_load, (List.length to_load < fuel)%nat ->
  lf_share_ok fuel w to_load Other p ->
  st_eqB (lf_abs fuel Share w to_load Other p a) (shr_upto w (nbo (List.length to_load)) p a).
Proof.
  induction fuel as [|f IH]; intros to_load Hf OK; [lia|]. cbn [lf_abs lf_share_ok] in *.
  destruct to_load as [|x r]; [apply st_eqB_refl|].
  set (tl := x :: r) in *. assert (Hn : (1 <= List.length tl)%nat) by (unfold tl; cbn; lia).
  change (3 - bp_n Other)%N with 2%N in *.
  set (rl := rest_len (List.length tl) 2) in *.
  assert (Lr : List.length (firstn rl tl) = (List.length tl - 2)%nat).
  { rewrite firstn_length. unfold rl. rewrite rest_len_val. change (N.to_nat 2) with 2%nat. lia. }
  assert (Ln : (List.length (skipn rl tl) <= 2)%nat).
  { rewrite skipn_length. unfold rl. rewrite rest_len_val. change (N.to_nat 2) with 2%nat. lia. }
  destruct OK as (OK0 & Hq & Hk & Hz & He).
  rewrite lf_ptr_nthlink in * by (rewrite Lr; lia). rewrite Lr in *.
  rewrite (nbo_step (List.length tl) Hn). cbn [shr_upto].
  set (q := nthlink w (nbo (List.length tl - 2)) p) in *.
  unfold blk_abs.
  eapply st_eqB_trans; [apply (lv_abs_congr Share (rev (skipn rl tl)) w w q 2 _ (shr_upto w (nbo (List.length tl - 2)) p a))|].
  - pose proof (IH (firstn rl tl) ltac:(rewrite Lr; lia) OK0) as IH0. rewrite Lr in IH0. exact IH0.
  - reflexivity.
  - rewrite rev_length. lia.
  - apply lv_kids_all; [exact Hk|rewrite rev_length; lia].
  - apply lv_abs_share_list2; auto.
Qed.

Theorem lf_abs_share_load_object w to_load p a :
  to_load <> [] -> ps_w w a -> lf_share_ok (S (List.length to_load)) w to_load Last p ->
  st_eqB (lf_abs (S (List.length to_load)) Share w to_load Last p a) (Heap.share_walk (Heap.nlinks (List.length to_load)) p a).
Proof.
  intros Hne Hps OK. cbn [lf_abs lf_share_ok] in *. destruct to_load as [|x r]; [contradiction|].
  set (tl := x :: r) in *. assert (Hn : (1 <= List.length tl)%nat) by (unfold tl; cbn; lia).
  change (3 - bp_n Last)%N with 3%N in *.
  set (rl := rest_len (List.length tl) 3) in *.
  assert (Lr : List.length (firstn rl tl) = (List.length tl - 3)%nat).
  { rewrite firstn_length. unfold rl. rewrite rest_len_val. change (N.to_nat 3) with 3%nat. lia. }
  assert (Ln : (List.length (skipn rl tl) <= 3)%nat).
  { rewrite skipn_length. unfold rl. rewrite rest_len_val. change (N.to_nat 3) with 3%nat. lia. }
  destruct OK as (OK0 & Hq & Hk & Hz & He).
  rewrite lf_ptr_nthlink in * by (rewrite Lr; lia). rewrite Lr in *.
  rewrite (share_walk_upto w _ _ _ Hps), nlinks_nbo.
  set (q := nthlink w (nbo (List.length tl - 3)) p) in *.
  unfold blk_abs.
  eapply st_eqB_trans; [apply (lv_abs_congr Share (rev (skipn rl tl)) w w q 3 _ (shr_upto w (nbo (List.length tl - 3)) p a))|].
  - pose proof (lf_abs_share_other w p a (List.length tl) (firstn rl tl) ltac:(rewrite Lr; lia) OK0) as IH0. rewrite Lr in IH0. exact IH0.
  - reflexivity.
  - rewrite rev_length. lia.
  - apply lv_kids_all; [exact Hk|rewrite rev_length; lia].
  - apply lv_abs_share_list; auto.
Qed.

(* ---------- 4b. x_load of any number of variables = Heap.load_object ---------- *)
Theorem x86_load_ok im pos to_load existing lc cs lc' s sp p h F :
  x_load to_load existing lc = Ok (cs, lc') -> to_load <> [] ->
  code_at im pos cs -> labels_at im pos cs -> frame_ok s sp ->
  lget s sp (tpos (2 * N.of_nat (List.length existing))) = Some p -> is_blk p -> rget s HEAP = Some h ->
  lf_share_ok (S (List.length to_load)) (hword s) to_load Last p ->
  (forall x, is_blk x -> min_int + 1 <= hword s x /\ hword s x + Z.of_nat (List.length to_load) <= max_int) ->
  exists s', steps im pos s (pnth pos (List.length cs)) s' /\
    st_eqB (abs_heap F s') (Heap.load_object (Heap.nlinks (List.length to_load)) p (abs_heap F s)) /\
    (forall i b, nth_error to_load i = Some b ->
       let A := lf_addrs (S (List.length to_load)) (hword s) to_load Last p in
       let a := nth (List.length A - List.length to_load + i) A 0 in
       lget s' sp (tpos (2 * N.of_nat (List.length existing + i) + 1)) = Some (hword s (a + 8)) /\
       (bchi b <> Ext -> lget s' sp (tpos (2 * N.of_nat (List.length existing + i))) = Some (hword s a))) /\
    (forall k, (k < 2 * N.of_nat (List.length existing))%N -> lget s' sp (tpos k) = lget s sp (tpos k)) /\
    out s' = out s /\ frame_ok s' sp.
Proof.
  intros Hx Hne HC HL FR P Hb Hh OK Room.
  destruct (x86_load_walk_ok im pos to_load existing lc cs lc' s sp p h F Hx Hne HC HL FR P Hb Hh)
    as (s' & ST & EQ & V & O & Out & FR').
  { split; [now apply lf_share_ok_lf_ok|exact Room]. }
  exists s'. split; [exact ST|]. split; [|auto].
  eapply st_eqB_trans; [exact EQ|]. unfold Heap.load_object.
  change (Heap.hdr (Heap.m (abs_heap F s) p)) with (hword s p).
  destruct (hword s p =? 0).
  - rewrite lf_abs_release_load_object; [apply st_eqB_refl|exact Hne|apply ps_w_abs].
  - unfold Heap.load_object_share. apply lf_abs_share_load_object; [exact Hne|apply ps_w_dec, ps_w_abs|exact OK].
Qed.

Print Assumptions x86_load_walk_ok.
Print Assumptions x86_load_ok.

(* ---------- the hypotheses are satisfiable: a shared two-block object with five fields, its pointer and
   all loaded variables in spill slots (six variables before it), TEMPORARY_TEMP evacuated and restored ---------- *)
Definition ex6_existing : ctx := map (fun i => mkb ("v"%string, i) Ext I64) [0; 1; 2; 3; 4; 5]%N.
Definition ex6_state : xstate :=
  let r := rset (rset (rset (rset (init_state []) 0 (Some ex_sp)) HEAP (Some (HEAP_BASE + 192))) FREE (Some (HEAP_BASE + 256))) 4 (Some 777) in
  let st := sset r ex_sp 1 (Some HEAP_BASE) in
  fold_left (fun s (az : Z * Z) => hset s (HEAP_BASE + fst az) (snd az))
            [(0, 1); (24, 11); (32, HEAP_BASE + 128); (40, 22); (48, HEAP_BASE + 64); (64 + 24, 33); (64 + 40, 44); (64 + 56, 55)] st.
Definition ex6_code : list xcode := match x_load ex5_store ex6_existing 0 with Ok (cs, _) => cs | Err _ => [] end.

Example x86_load_example :
  exists lc', x_load ex5_store ex6_existing 0 = Ok (ex6_code, lc') /\
  exists s', steps (mk_image ex6_code) 1 ex6_state (pnth 1 (List.length ex6_code)) s' /\
     st_eqB (abs_heap (HEAP_BASE + 256) s') (Heap.load_object 1 HEAP_BASE (abs_heap (HEAP_BASE + 256) ex6_state)) /\
     sget s' ex_sp 2 = Some 11 /\ sget s' ex_sp 3 = Some (HEAP_BASE + 128) /\ sget s' ex_sp 10 = Some 55 /\
     rget s' 4%N = Some 777.
Proof.
  assert (Hx : exists lc', x_load ex5_store ex6_existing 0 = Ok (ex6_code, lc')) by (eexists; vm_compute; reflexivity).
  destruct Hx as [lc' Hx]. exists lc'. split; [exact Hx|].
  destruct (mk_image_code_labels ex6_code) as [HC HL]; [apply nodupb_sound; vm_compute; reflexivity|].
  assert (Bk : forall k, 0 <= k <= 4 -> is_blk (HEAP_BASE + 64 * k)).
  { intros k Hk. exists k. split; [lia|]. split; [reflexivity|]. unfold HEAP_BASE, HEAP_SIZE. lia. }
  assert (W : forall o, hword ex6_state (HEAP_BASE + o) =
     if o =? 120 then 55 else if o =? 104 then 44 else if o =? 88 then 33 else if o =? 48 then HEAP_BASE + 64 else
     if o =? 40 then 22 else if o =? 32 then HEAP_BASE + 128 else if o =? 24 then 11 else if o =? 0 then 1 else 0).
  { intros o. unfold ex6_state. cbn [fold_left fst snd]. rewrite !hword_hset by (vm_compute; reflexivity).
    rewrite hword_sset, !hword_rset. replace (hword (init_state []) (HEAP_BASE + o)) with 0 by (unfold hword, init_state; cbn [heap]; now rewrite PM.gempty).
    unfold HEAP_BASE.
    repeat match goal with |- context [?a =? ?b] => destruct (Z.eqb_spec a b); try lia end; reflexivity. }
  destruct (x86_load_ok (mk_image ex6_code) 1 ex5_store ex6_existing 0 ex6_code lc' ex6_state ex_sp HEAP_BASE (HEAP_BASE + 192) (HEAP_BASE + 256) Hx ltac:(discriminate) HC HL)
    as (s' & ST & EQ & V & O & _).
  - split; [vm_compute; reflexivity|]. repeat split; vm_compute; easy.
  - vm_compute; reflexivity.
  - exact (Bk 0 ltac:(lia)).
  - vm_compute; reflexivity.
  - unfold ex5_store. cbn [lf_share_ok List.length]. change (3 - bp_n Last)%N with 3%N. change (3 - bp_n Other)%N with 2%N.
    change (rest_len 5 3) with 2%nat. cbn [firstn skipn List.length]. change (rest_len 2 2) with 0%nat. cbn [firstn skipn List.length lf_ptr].
    change (rest_len 2 (3 - bp_n Other)) with 0%nat. cbn [firstn lf_ptr].
    replace (hword ex6_state (HEAP_BASE + 48)) with (HEAP_BASE + 64 * 1) by (rewrite W; reflexivity).
    split; [split; [exact I|]|].
    + split; [exact (Bk 0 ltac:(lia))|]. split; [|split].
      * intros j Hj. assert (Hc : (j = 0 \/ j = 1)%N) by lia. destruct Hc as [-> | ->]; rewrite ?fo_F0, ?fo_F1, W; cbn; auto.
        right. exact (Bk 2 ltac:(lia)).
      * intros j Hj. cbn in Hj. lia.
      * intros i b Hi Hb. destruct i as [|[|i]]; cbn in Hi; try (destruct i; discriminate); inversion Hi; subst b; cbn in Hb; try discriminate.
        change (hword ex6_state (HEAP_BASE + 16) = 0). rewrite W. reflexivity.
    + split; [exact (Bk 1 ltac:(lia))|]. split; [|split].
      * intros j Hj. assert (Hc : (j = 0 \/ j = 1 \/ j = 2)%N) by lia.
        destruct Hc as [->|[->| ->]]; rewrite ?fo_F0, ?fo_F1, ?fo_F2, <- Z.add_assoc, W; cbn; auto.
      * intros j Hj. cbn in Hj. lia.
      * intros i b Hi Hb. destruct i as [|[|[|i]]]; cbn in Hi; try (destruct i; discriminate); inversion Hi; subst b; cbn in Hb; try discriminate;
          first [change (hword ex6_state (HEAP_BASE + (64 * 1 + 16)) = 0)|change (hword ex6_state (HEAP_BASE + (64 * 1 + 48)) = 0)]; rewrite W; reflexivity.
  - intros x Hx'. destruct Hx' as (k & Hk & -> & Hhi). replace (HEAP_BASE + 64 * k) with (HEAP_BASE + (64 * k)) by lia. rewrite W.
    cbn [List.length ex5_store]. unfold min_int, max_int, two63, HEAP_BASE.
    repeat match goal with |- context [?a =? ?b] => destruct (Z.eqb_spec a b) end; lia.
  - exists s'. split; [exact ST|]. split; [exact EQ|].
    destruct (V 0%nat _ eq_refl) as [V0 _]. destruct (V 1%nat _ eq_refl) as [_ V1]. destruct (V 4%nat _ eq_refl) as [V4 _].
    specialize (V1 ltac:(discriminate)). specialize (O 0%N ltac:(cbn; lia)).
    split; [|split; [|split]].
    + etransitivity; [exact V0|]. vm_compute; reflexivity.
    + etransitivity; [exact V1|]. vm_compute; reflexivity.
    + etransitivity; [exact V4|]. vm_compute; reflexivity.
    + etransitivity; [exact O|]. vm_compute. reflexivity.
Qed.
Print Assumptions x86_load_example.
