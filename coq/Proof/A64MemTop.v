(* C09 on AArch64: the image hypotheses of the refinement theorems hold for `mk_image` of a program with
   duplicate-free labels, and `exec_to` is what the executable runner does (A64Exec.exec_to_run_chunk). *)
From Coq Require Import List ZArith NArith String Bool Lia FMapPositive.
From SCC Require Import Base.Sexp Lang.AxSyn Sem.AxSem Model.Backend Model.A64 Sem.A64Sem
     Proof.A64State Proof.A64Exec.
From SCC Require Model.Heap.
Import ListNotations.
Open Scope Z_scope.
Open Scope list_scope.

Definition label_names (cs : list acode) : list string :=
  flat_map (fun c => match c with LAB l => [l] | _ => [] end) cs.

Lemma build_code_below : forall cs i a im j, (j < i)%positive -> PM.find j (code (build cs i a im)) = PM.find j (code im).
Proof.
  induction cs as [|c r IH]; intros i a im j Hj; cbn [build code]; auto.
  rewrite IH by lia. cbn [code]. apply PM.gso. lia.
Qed.
Lemma build_code_at : forall cs i a im, code_at (build cs i a im) i cs.
Proof.
  induction cs as [|c r IH]; intros i a im n c0 Hn; [destruct n; discriminate|].
  destruct n as [|n]; cbn [nth_error padd] in *.
  - inversion Hn; subst. cbn [build]. rewrite build_code_below by lia. cbn [code]. apply PM.gss.
  - cbn [build]. eapply IH; eauto.
Qed.
Lemma build_labels_old : forall cs i a im l,
  ~ In l (label_names cs) -> find_label (labels (build cs i a im)) l = find_label (labels im) l.
Proof.
  induction cs as [|c r IH]; intros i a im l Hl; cbn [build labels]; auto.
  rewrite IH.
  - cbn [labels]. destruct c; auto. cbn [find_label]. destruct (String.eqb_spec l l0); auto.
    subst. exfalso. apply Hl. cbn. now left.
  - intro H. apply Hl. cbn [label_names flat_map]. apply in_app_iff. now right.
Qed.
Lemma build_labels_at : forall cs i a im, NoDup (label_names cs) -> labels_at (build cs i a im) i cs.
Proof.
  induction cs as [|c r IH]; intros i a im Hnd n l Hn; [destruct n; discriminate|].
  assert (Hnd' : NoDup (label_names r)).
  { cbn [label_names flat_map] in Hnd. now apply Heap.NoDup_app_r in Hnd. }
  destruct n as [|n]; cbn [nth_error padd] in *.
  - inversion Hn; subst. cbn [build]. rewrite build_labels_old.
    + cbn [labels find_label]. now rewrite String.eqb_refl.
    + cbn [label_names flat_map app] in Hnd. now inversion Hnd.
  - cbn [build]. eapply IH; eauto.
Qed.
Theorem mk_image_code_labels cs :
  NoDup (label_names cs) -> code_at (mk_image cs) 1%positive cs /\ labels_at (mk_image cs) 1%positive cs.
Proof. intros H. split; [apply build_code_at|now apply build_labels_at]. Qed.
