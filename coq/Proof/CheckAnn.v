(* C15 check_annotates: the checked program is the parsed program plus annotations.
   [ann_of t' t]: t' is t with other annotation fields (ty / chi / clause contexts) and with the
   clauses of every case/new permuted.  Main result: [check_gen_annotates]. *)
From Coq Require Import List ZArith String Bool Permutation Lia.
From SCC Require Import Base.Sexp Lang.SynUtil Lang.FunSyn Model.Check Proof.FunInd.
Import ListNotations.
Open Scope list_scope.

Inductive clause_rel (R : fterm -> fterm -> Prop) : fclause -> fclause -> Prop :=
| clause_rel_intro : forall p x ns c' c b' b, R b' b -> clause_rel R (FClause p x ns c' b') (FClause p x ns c b).

Inductive ann_of : fterm -> fterm -> Prop :=
| AVar : forall v ty' chi' ty chi, ann_of (FVar v ty' chi') (FVar v ty chi)
| ALit : forall n, ann_of (FLit n) (FLit n)
| AOp : forall a' a o b' b, ann_of a' a -> ann_of b' b -> ann_of (FOp a' o b') (FOp a o b)
| AIfC2 : forall s a' a b' b th' th el' el ty' ty,
    ann_of a' a -> ann_of b' b -> ann_of th' th -> ann_of el' el ->
    ann_of (FIfC s a' (Some b') th' el' ty') (FIfC s a (Some b) th el ty)
| AIfC1 : forall s a' a th' th el' el ty' ty,
    ann_of a' a -> ann_of th' th -> ann_of el' el ->
    ann_of (FIfC s a' None th' el' ty') (FIfC s a None th el ty)
| APrint : forall nl a' a n' n ty' ty, ann_of a' a -> ann_of n' n -> ann_of (FPrint nl a' n' ty') (FPrint nl a n ty)
| ALet : forall v vty a' a b' b ty' ty, ann_of a' a -> ann_of b' b -> ann_of (FLet v vty a' b' ty') (FLet v vty a b ty)
| ACall : forall f args' args r' r, Forall2 ann_of args' args -> ann_of (FCall f args' r') (FCall f args r)
| ACtor : forall x args' args r' r, Forall2 ann_of args' args -> ann_of (FCtor x args' r') (FCtor x args r)
| ADtor : forall s' s x targs args' args r' r,
    ann_of s' s -> Forall2 ann_of args' args -> ann_of (FDtor s' x targs args' r') (FDtor s x targs args r)
| ACase : forall s' s targs cls' cls'' cls r' r,
    ann_of s' s -> Forall2 (clause_rel ann_of) cls' cls'' -> Permutation cls'' cls ->
    ann_of (FCase s' targs cls' r') (FCase s targs cls r)
| ANew : forall cls' cls'' cls r' r,
    Forall2 (clause_rel ann_of) cls' cls'' -> Permutation cls'' cls -> ann_of (FNew cls' r') (FNew cls r)
| ALabel : forall l t' t r' r, ann_of t' t -> ann_of (FLabel l t' r') (FLabel l t r)
| AGoto : forall l t' t r' r, ann_of t' t -> ann_of (FGoto l t' r') (FGoto l t r)
| AExit : forall a' a r' r, ann_of a' a -> ann_of (FExit a' r') (FExit a r)
| AParen : forall t' t, ann_of t' t -> ann_of (FParen t') (FParen t).

(* ---------- the error monad ---------- *)
Lemma cbind_ok : forall {X Y} (r : cres X) (f : X -> cres Y) y,
  cbind r f = COk y -> exists x, r = COk x /\ f x = COk y.
Proof. intros X Y [x|e] f y H; simpl in H; [eauto | discriminate]. Qed.

Ltac inv_ok :=
  repeat match goal with
  | H : cbind ?r ?f = COk _ |- _ =>
      let x := fresh "x" in let Hx := fresh "Hx" in
      apply cbind_ok in H; destruct H as [x [Hx H]]
  | H : (let '(_, _) := ?p in _) = COk _ |- _ => destruct p
  | H : COk _ = COk _ |- _ => inversion H; subst; clear H
  | H : CErr _ = COk _ |- _ => discriminate H
  | H : (if ?b then _ else _) = COk _ |- _ => destruct b eqn:?
  | H : match ?x with _ => _ end = COk _ |- _ => destruct x eqn:?
  end.

(* ---------- swap_remove ---------- *)
Lemma pop_last_spec : forall {X} (l : list X) m z, pop_last l = Some (m, z) -> l = m ++ [z].
Proof.
  induction l as [|x r IH]; simpl; intros m z H; [discriminate|].
  destruct (pop_last r) as [[m' z']|] eqn:E.
  - inversion H; subst. rewrite (IH _ _ eq_refl). reflexivity.
  - inversion H; subst. destruct r; [reflexivity|]. simpl in E. destruct (pop_last r) as [[? ?]|]; discriminate.
Qed.
Lemma pop_last_none : forall {X} (l : list X), pop_last l = None -> l = [].
Proof. destruct l; simpl; intros H; [reflexivity|]. destruct (pop_last l) as [[? ?]|]; discriminate. Qed.

Lemma swap_remove_first_spec : forall {X} (f : X -> bool) (l : list X) x l',
  swap_remove_first f l = Some (x, l') -> f x = true /\ Permutation (x :: l') l.
Proof.
  induction l as [|y r IH]; simpl; intros x l' H; [discriminate|].
  destruct (f y) eqn:Ef.
  - destruct (pop_last r) as [[m z]|] eqn:Ep; inversion H; subst.
    + split; [assumption|]. apply pop_last_spec in Ep. subst r.
      apply perm_skip. change (z :: m) with ([z] ++ m). apply Permutation_app_comm.
    + split; [assumption|]. apply pop_last_none in Ep. subst r. apply Permutation_refl.
  - destruct (swap_remove_first f r) as [[y' r']|] eqn:Es; [|discriminate].
    inversion H; subst. destruct (IH _ _ eq_refl) as [Hf Hp]. split; [assumption|].
    eapply perm_trans; [apply perm_swap|]. apply perm_skip. assumption.
Qed.

(* ---------- arguments ---------- *)
Definition chk_ann (chk : checker) (t : fterm) : Prop :=
  forall st ctx T t' st', chk st ctx T = COk (t', st') -> ann_of t' t.

Lemma check_args_with_ann : forall (chk : fterm -> checker) args,
  Forall (fun a => chk_ann (chk a) a) args ->
  forall tys st ctx args' st', check_args_with chk args tys st ctx = COk (args', st') ->
  List.length args = List.length tys -> Forall2 ann_of args' args.
Proof.
  intros chk args HF. induction HF as [|a ar Ha _ IH]; intros tys st ctx args' st' H Hlen.
  - simpl in H. inv_ok. constructor.
  - destruct tys as [|b br]; [simpl in Hlen; discriminate|].
    simpl in H. simpl in Hlen.
    destruct (fbchi b).
    + inv_ok. constructor; [eapply Ha; eassumption|]. eapply IH; [eassumption|lia].
    + destruct a; try discriminate.
      destruct chi as [[|]|]; try discriminate; inv_ok;
        (constructor; [constructor|eapply IH; [eassumption|lia]]).
Qed.

Lemma check_args_ann : forall (chk : fterm -> checker) args,
  Forall (fun a => chk_ann (chk a) a) args ->
  forall tys st ctx args' st', check_args chk args tys st ctx = COk (args', st') -> Forall2 ann_of args' args.
Proof.
  intros chk args HF tys st ctx args' st' H. unfold check_args in H.
  destruct (Nat.eqb (List.length tys) (List.length args)) eqn:E; simpl in H; [|discriminate].
  apply PeanoNat.Nat.eqb_eq in E. eapply check_args_with_ann; eauto.
Qed.

(* ---------- clauses ---------- *)
Definition clause_of (pc : pclause) : fclause := FClause (pc_pol pc) (pc_xtor pc) (pc_names pc) (pc_ctx pc) (pc_body pc).
Definition pc_ann (pc : pclause) : Prop := chk_ann (pc_chk pc) (pc_body pc).

Lemma check_clauses_ann : forall is_case sfx expected xtors pcls st ctx cls' leftover st',
  Forall pc_ann pcls ->
  check_clauses is_case sfx expected xtors pcls st ctx = COk (cls', leftover, st') ->
  exists used, Permutation (used ++ leftover) pcls /\ Forall2 (clause_rel ann_of) cls' (map clause_of used).
Proof.
  intros is_case sfx expected xtors. induction xtors as [|x xr IH]; intros pcls st ctx cls' leftover st' HF H.
  - simpl in H. inv_ok. exists []. split; [apply Permutation_refl|constructor].
  - simpl in H.
    destruct (swap_remove_first (fun c => String.eqb (pc_xtor c) x) pcls) as [[cl pcls']|] eqn:Es; [|discriminate].
    apply swap_remove_first_spec in Es. destruct Es as [_ Hperm].
    assert (HF' : Forall pc_ann (cl :: pcls')).
    { eapply Permutation_Forall; [apply Permutation_sym; eassumption|assumption]. }
    inversion HF' as [|? ? Hcl HFr]; subst.
    apply cbind_ok in H. destruct H as [[sg bty] [Hsig H]]. clear Hsig.
    inv_ok.
    match goal with
    | Hr : check_clauses _ _ _ xr pcls' _ _ = COk _ |- _ => destruct (IH _ _ _ _ _ _ HFr Hr) as [used [Hp Hf]]
    end.
    exists (cl :: used). split.
    + simpl. eapply perm_trans; [apply perm_skip; eassumption|assumption].
    + simpl. constructor; [|assumption]. unfold clause_of. constructor.
      eapply Hcl. eassumption.
Qed.

Lemma prep_clauses_map : forall chk cls, map clause_of (prep_clauses chk cls) = cls.
Proof. induction cls as [|[p x ns c b] r IH]; simpl; [reflexivity|]. rewrite IH. reflexivity. Qed.

Lemma prep_clauses_ann : forall (chk : fterm -> checker) cls,
  Forall (fun c => chk_ann (chk (clause_body c)) (clause_body c)) cls -> Forall pc_ann (prep_clauses chk cls).
Proof.
  intros chk cls HF. induction HF as [|[p x ns c b] r Hc _ IH]; simpl; constructor; [exact Hc|exact IH].
Qed.

Lemma clauses_result_ann : forall is_case sfx expected xtors (chk : fterm -> checker) cls st ctx cls' st',
  Forall (fun c => chk_ann (chk (clause_body c)) (clause_body c)) cls ->
  check_clauses is_case sfx expected xtors (prep_clauses chk cls) st ctx = COk (cls', [], st') ->
  exists cls'', Forall2 (clause_rel ann_of) cls' cls'' /\ Permutation cls'' cls.
Proof.
  intros is_case sfx expected xtors chk cls st ctx cls' st' HF H.
  edestruct check_clauses_ann as [used [Hp Hf]]; [apply prep_clauses_ann; eassumption|eassumption|].
  rewrite app_nil_r in Hp. exists (map clause_of used). split; [assumption|].
  rewrite <- (prep_clauses_map chk cls). apply Permutation_map. assumption.
Qed.

(* ---------- terms ---------- *)
Theorem check_term_gen_ann : forall eager t, chk_ann (check_term_gen eager t) t.
Proof.
  intros eager t. induction t using fterm_ind'; unfold chk_ann; intros st ctx T t' st' Hc; simpl in Hc.
  - (* FVar *) destruct chi as [[|]|]; try discriminate; inv_ok; constructor.
  - inv_ok. constructor.
  - inv_ok. constructor; [eapply IHt1|eapply IHt2]; eassumption.
  - (* IfC *)
    apply cbind_ok in Hc. destruct Hc as [[a' st1] [Ha Hc]].
    apply cbind_ok in Hc. destruct Hc as [[b' st2] [Hb Hc]].
    inv_ok.
    + constructor; [eapply IHt1|eapply H; [reflexivity|]|eapply IHt2|eapply IHt3]; eassumption.
    + constructor; [eapply IHt1|eapply IHt2|eapply IHt3]; eassumption.
  - inv_ok. constructor; [eapply IHt1|eapply IHt2]; eassumption.
  - inv_ok. constructor; [eapply IHt1|eapply IHt2]; eassumption.
  - (* Call *)
    destruct (aget (st_defs st) f) as [[types ret]|]; [|discriminate]. inv_ok.
    constructor. eapply check_args_ann; eassumption.
  - (* Ctor *)
    inv_ok; constructor; eapply check_args_ann; eassumption.
  - (* Dtor *)
    inv_ok. constructor; [eapply IHt; eassumption|eapply check_args_ann; eassumption].
  - (* Case *)
    destruct cls as [|[p0 x0 ns0 c0 b0] clr]; [discriminate|].
    inv_ok.
    edestruct clauses_result_ann as [cls'' [Hf Hp]]; [eassumption|eassumption|].
    econstructor; [eapply IHt; eassumption|eassumption|assumption].
  - (* New *)
    inv_ok;
    (edestruct clauses_result_ann as [cls'' [Hf Hp]]; [eassumption|eassumption|];
     econstructor; eassumption).
  - inv_ok. constructor. eapply IHt; eassumption.
  - inv_ok. constructor. eapply IHt; eassumption.
  - inv_ok. constructor. eapply IHt; eassumption.
  - inv_ok. constructor. eapply IHt; eassumption.
Qed.

(* ---------- definitions and programs ---------- *)
Definition def_ann (d' d : fdef) : Prop :=
  fdname d' = fdname d /\ fdctx d' = fdctx d /\ fdret d' = fdret d /\ ann_of (fdbody d') (fdbody d).

Lemma check_defs_gen_ann : forall eager ds st ds' st',
  check_defs_gen eager ds st = COk (ds', st') -> Forall2 def_ann ds' ds.
Proof.
  intros eager ds. induction ds as [|d r IH]; intros st ds' st' H; simpl in H.
  - inv_ok. constructor.
  - unfold def_check_gen in H. inv_ok. constructor; [|eapply IH; eassumption].
    repeat split; simpl; try reflexivity. eapply check_term_gen_ann. eassumption.
Qed.

Theorem check_gen_annotates : forall eager p q,
  check_gen eager p = COk q -> Forall2 def_ann (fcpdefs q) (defs_of (fpdecls p)).
Proof.
  intros eager p q H. unfold check_gen, check_with_table_gen in H. inv_ok. simpl.
  eapply check_defs_gen_ann. eassumption.
Qed.

(* ---------- every annotation is present after checking ---------- *)
Definition chk_full (chk : checker) : Prop :=
  forall st ctx T t' st', chk st ctx T = COk (t', st') -> annotated_fterm t' = true.

Definition all_annotated (l : list fterm) : bool := forallb annotated_fterm l.
Definition all_annotated_cls (l : list fclause) : bool := forallb (fun c => annotated_fterm (clause_body c)) l.
Lemma annotated_args_eq : forall l,
  (fix go (l : list fterm) : bool := match l with [] => true | y :: r => annotated_fterm y && go r end) l = all_annotated l.
Proof. induction l; simpl; [reflexivity|]. rewrite IHl. reflexivity. Qed.
Lemma annotated_cls_eq : forall l,
  (fix go (l : list fclause) : bool :=
     match l with [] => true | FClause _ _ _ _ body :: r => annotated_fterm body && go r end) l = all_annotated_cls l.
Proof. induction l as [|[? ? ? ? ?] r IH]; simpl; [reflexivity|]. rewrite IH. reflexivity. Qed.

Lemma check_args_with_full : forall (chk : fterm -> checker) args,
  Forall (fun a => chk_full (chk a)) args ->
  forall tys st ctx args' st', check_args_with chk args tys st ctx = COk (args', st') -> all_annotated args' = true.
Proof.
  intros chk args HF. induction HF as [|a ar Ha _ IH]; intros tys st ctx args' st' H.
  - simpl in H. inv_ok. reflexivity.
  - destruct tys as [|b br]; [simpl in H; inv_ok; reflexivity|].
    simpl in H. destruct (fbchi b).
    + inv_ok. simpl. erewrite Ha by eassumption. erewrite IH by eassumption. reflexivity.
    + destruct a; try discriminate.
      destruct chi as [[|]|]; try discriminate; inv_ok; simpl; erewrite IH by eassumption; reflexivity.
Qed.
Lemma check_args_full : forall (chk : fterm -> checker) args,
  Forall (fun a => chk_full (chk a)) args ->
  forall tys st ctx args' st', check_args chk args tys st ctx = COk (args', st') -> all_annotated args' = true.
Proof.
  intros chk args HF tys st ctx args' st' H. unfold check_args in H.
  destruct (negb (Nat.eqb (List.length tys) (List.length args))); [discriminate|].
  eapply check_args_with_full; eauto.
Qed.

Lemma check_clauses_full : forall is_case sfx expected xtors pcls st ctx cls' leftover st',
  Forall (fun pc => chk_full (pc_chk pc)) pcls ->
  check_clauses is_case sfx expected xtors pcls st ctx = COk (cls', leftover, st') ->
  all_annotated_cls cls' = true.
Proof.
  intros is_case sfx expected xtors. induction xtors as [|x xr IH]; intros pcls st ctx cls' leftover st' HF H.
  - simpl in H. inv_ok. reflexivity.
  - simpl in H.
    destruct (swap_remove_first (fun c => String.eqb (pc_xtor c) x) pcls) as [[cl pcls']|] eqn:Es; [|discriminate].
    apply swap_remove_first_spec in Es. destruct Es as [_ Hperm].
    assert (HF' : Forall (fun pc => chk_full (pc_chk pc)) (cl :: pcls')).
    { eapply Permutation_Forall; [apply Permutation_sym; eassumption|assumption]. }
    inversion HF' as [|? ? Hcl HFr]; subst.
    apply cbind_ok in H. destruct H as [[sg bty] [Hsig H]]. clear Hsig.
    inv_ok. simpl. erewrite Hcl by eassumption. erewrite IH by eassumption. reflexivity.
Qed.
Lemma prep_clauses_full : forall (chk : fterm -> checker) cls,
  Forall (fun c => chk_full (chk (clause_body c))) cls -> Forall (fun pc => chk_full (pc_chk pc)) (prep_clauses chk cls).
Proof.
  intros chk cls HF. induction HF as [|[p x ns c b] r Hc _ IH]; simpl; constructor; [exact Hc|exact IH].
Qed.

Ltac use_full :=
  repeat match goal with
  | IH : chk_full ?c, Hx : ?c _ _ _ = COk (?t', _) |- _ =>
      let E := fresh "E" in
      assert (E : annotated_fterm t' = true) by (eapply IH; eassumption); rewrite E; clear Hx
  end.

Theorem check_term_gen_full : forall eager t, chk_full (check_term_gen eager t).
Proof.
  intros eager t. induction t using fterm_ind'; unfold chk_full; intros st ctx T t' st' Hc; simpl in Hc.
  - destruct chi as [[|]|]; try discriminate; inv_ok; reflexivity.
  - inv_ok. reflexivity.
  - inv_ok. simpl. use_full. reflexivity.
  - apply cbind_ok in Hc. destruct Hc as [[a' st1] [Ha Hc]].
    apply cbind_ok in Hc. destruct Hc as [[b' st2] [Hb Hc]].
    inv_ok; simpl.
    + pose proof (H _ eq_refl) as IHb. use_full. reflexivity.
    + use_full. reflexivity.
  - inv_ok. simpl. use_full. reflexivity.
  - inv_ok. simpl. use_full. reflexivity.
  - destruct (aget (st_defs st) f) as [[types ret]|]; [|discriminate]. inv_ok.
    simpl. rewrite annotated_args_eq. erewrite check_args_full by eassumption. reflexivity.
  - inv_ok; simpl; rewrite annotated_args_eq; erewrite check_args_full by eassumption; reflexivity.
  - inv_ok. simpl. rewrite annotated_args_eq. erewrite check_args_full by eassumption. use_full. reflexivity.
  - destruct cls as [|[p0 x0 ns0 c0 b0] clr]; [discriminate|].
    inv_ok. simpl. rewrite annotated_cls_eq.
    erewrite check_clauses_full; [|apply prep_clauses_full; eassumption|eassumption].
    use_full. reflexivity.
  - inv_ok; simpl; rewrite annotated_cls_eq;
      (erewrite check_clauses_full; [reflexivity|apply prep_clauses_full; eassumption|eassumption]).
  - inv_ok. simpl. use_full. reflexivity.
  - inv_ok. simpl. use_full. reflexivity.
  - inv_ok. simpl. use_full. reflexivity.
  - inv_ok. simpl. eapply IHt; eassumption.
Qed.

Lemma check_defs_gen_full : forall eager ds st ds' st',
  check_defs_gen eager ds st = COk (ds', st') -> forallb (fun d => annotated_fterm (fdbody d)) ds' = true.
Proof.
  intros eager ds. induction ds as [|d r IH]; intros st ds' st' H; simpl in H.
  - inv_ok. reflexivity.
  - unfold def_check_gen in H. inv_ok. simpl.
    erewrite check_term_gen_full by eassumption. erewrite IH by eassumption. reflexivity.
Qed.
Theorem check_gen_annotated : forall eager p q, check_gen eager p = COk q -> annotated_fcprog q = true.
Proof.
  intros eager p q H. unfold check_gen, check_with_table_gen in H. inv_ok.
  unfold annotated_fcprog. simpl. eapply check_defs_gen_full. eassumption.
Qed.
