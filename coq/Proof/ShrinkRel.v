(* Proof/ShrinkRel.v (C04, fragment 2) - the simulation relation between the focused-Core machine
   (Sem/CoreSem.v) and the named AxCut machine (Sem/AxSem.v), for the WHOLE language.

   A typed, step-indexed relation [vrel n chi ty cv av] between a Core machine value and an AxCut
   value, following the chirality collapse of shrink_binding:
     prd i64        PInt z               ~  VInt z
     prd data T     PCtor K args         ~  VObj _ K fields        (fields related at K's signature)
     cns codata T   KDtor D args         ~  VObj _ D fields
     cns i64        any consumer value   ~  VClo: invoking Ret(z) simulates the consumer meeting z
     cns data T     any consumer value   ~  VClo: invoking K(fields) simulates it meeting K(args)
     prd codata T   any producer value   ~  VClo: invoking D(fields) simulates it meeting D(args)
   "simulates" = [beh k]: whenever the Core machine, continued for k steps, ends with exit or undefined
   arithmetic, the AxCut machine reaches the same observation.  The closure cases hold for all k < n
   (so the relation is downward closed in n). *)
From Coq Require Import List ZArith NArith String Bool Lia.
From SCC Require Import Base.Sexp Lang.SynUtil Lang.CoreSyn Lang.AxSyn Sem.AxSem Sem.FsCheck Model.Shrink
     Proof.ShrinkProof Proof.ShrinkSem Proof.ShrinkRn.
From SCC Require Sem.CoreSem.
Import ListNotations.
Open Scope list_scope.

Notation bval := CoreSem.bval.
Notation BP := CoreSem.BP.
Notation BK := CoreSem.BK.
Notation PInt := CoreSem.PInt.
Notation PCtor := CoreSem.PCtor.
Notation KDtor := CoreSem.KDtor.
Notation cenv := CoreSem.cenv.

Section Rel.
Variable p : fsprog.
Variable q : prog.
Notation P := (CoreSem.fs2c_prog p).
Notation data := (fspdata p).
Notation codata := (fspcodata p).

(* continuing after a Core step *)
Definition cont (n : nat) (sr : CoreSem.sres) (out : prints) : obs :=
  match sr with
  | CoreSem.SNext c => CoreSem.crun n P c out
  | CoreSem.SPrint nl z c => CoreSem.crun n P c ((nl, z) :: out)
  | CoreSem.SHalt o => finish out o
  end.
Lemma crun_cont : forall n c out, CoreSem.crun (S n) P c out = cont n (CoreSem.cstep P c) out.
Proof. reflexivity. Qed.
Definition beh (n : nat) (sr : CoreSem.sres) (ae : env) (t : stmt) : Prop :=
  forall out r, cont n sr out = r -> good r -> exists m, exec_named m q ae t out = r.

(* ---------- values ---------- *)
Inductive vrelF (R : cchi -> cty -> bval -> value -> Prop) : cchi -> cty -> bval -> value -> Prop :=
| VR_int : forall z, vrelF R CPrd CI64 (BP (PInt z)) (VInt z)
| VR_ctor : forall T d K sg args fs tn,
    is_codata codata (CDecl T) = false -> find_decl data T = Some d -> find_cxtor d K = Some sg ->
    vrelsF R (cxargs sg) args fs -> vrelF R CPrd (CDecl T) (BP (PCtor K args)) (VObj tn K fs)
| VR_dtor : forall T d D sg args fs tn,
    is_codata codata (CDecl T) = true -> find_decl codata T = Some d -> find_cxtor d D = Some sg ->
    vrelsF R (cxargs sg) args fs -> vrelF R CCns (CDecl T) (BK (KDtor D args)) (VObj tn D fs)
| VR_clo : forall c ty cv tn cls ce,
    R c ty cv (VClo tn cls ce) -> vrelF R c ty cv (VClo tn cls ce)
with vrelsF (R : cchi -> cty -> bval -> value -> Prop) : cctx -> list bval -> list value -> Prop :=
| VRs_nil : vrelsF R [] [] []
| VRs_cons : forall b sg cv cvs av avs,
    vrelF R (cbchi b) (cbty b) cv av -> vrelsF R sg cvs avs -> vrelsF R (b :: sg) (cv :: cvs) (av :: avs).
Scheme vrelF_mut := Induction for vrelF Sort Prop
with vrelsF_mut := Induction for vrelsF Sort Prop.

Lemma vrelF_mono_all : forall (R R' : cchi -> cty -> bval -> value -> Prop),
  (forall c ty cv av, R c ty cv av -> R' c ty cv av) ->
  (forall c ty cv av, vrelF R c ty cv av -> vrelF R' c ty cv av) /\
  (forall sg cvs avs, vrelsF R sg cvs avs -> vrelsF R' sg cvs avs).
Proof.
  intros R R' HR. split.
  - intros c ty cv av H.
    induction H using vrelF_mut with (P0 := fun sg cvs avs _ => vrelsF R' sg cvs avs); try (econstructor; eauto; fail).
  - intros sg cvs avs H.
    induction H using vrelsF_mut with (P := fun c ty cv av _ => vrelF R' c ty cv av); try (econstructor; eauto; fail).
Qed.

(* pointwise relation of argument lists along a signature, for an arbitrary value relation *)
Inductive relsV (V : cchi -> cty -> bval -> value -> Prop) : cctx -> list bval -> list value -> Prop :=
| RV_nil : relsV V [] [] []
| RV_cons : forall b sg cv cvs av avs,
    V (cbchi b) (cbty b) cv av -> relsV V sg cvs avs -> relsV V (b :: sg) (cv :: cvs) (av :: avs).
Lemma relsV_vrelsF : forall R sg cvs avs, relsV (vrelF R) sg cvs avs <-> vrelsF R sg cvs avs.
Proof.
  intros R sg cvs avs. split; intros H; induction H; constructor; auto.
Qed.

(* the message a closure-like Core value of kind (c, ty) understands, the AxCut invocation that
   carries it (tag, fields) and the Core reaction *)
Definition msg (V : cchi -> cty -> bval -> value -> Prop) (c : cchi) (ty : cty) (cv : bval)
           (tag : ident) (fs : list value) (sr : CoreSem.sres) : Prop :=
  match c, ty, cv with
  | CCns, CI64, CoreSem.BK kv =>
      exists z, tag = ret_name /\ fs = [VInt z] /\ sr = CoreSem.interact_val (PInt z) kv
  | CCns, CDecl T, CoreSem.BK kv =>
      is_codata codata ty = false /\
      exists d sg args, find_decl data T = Some d /\ find_cxtor d tag = Some sg /\
        relsV V (cxargs sg) args fs /\ sr = CoreSem.interact_val (PCtor tag args) kv
  | CPrd, CDecl T, CoreSem.BP pv =>
      is_codata codata ty = true /\
      exists d sg args, find_decl codata T = Some d /\ find_cxtor d tag = Some sg /\
        relsV V (cxargs sg) args fs /\ sr = CoreSem.interact_val pv (KDtor tag args)
  | _, _, _ => False
  end.
Definition clo_ok (k : nat) (V : cchi -> cty -> bval -> value -> Prop) (c : cchi) (ty : cty) (cv : bval)
           (cls : list clause) (ce : env) : Prop :=
  forall tag fs sr, msg V c ty cv tag fs sr ->
  exists cl e1, find_clause cls tag = Some cl /\ bind (vars (cl_ctx cl)) fs = Some e1 /\
                beh k sr (e1 ++ ce) (cl_body cl).
Definition is_kind (c : cchi) (ty : cty) (cv : bval) : Prop :=
  match c, ty, cv with
  | CCns, CI64, CoreSem.BK _ => True
  | CCns, CDecl _, CoreSem.BK _ => is_codata codata ty = false
  | CPrd, CDecl _, CoreSem.BP _ => is_codata codata ty = true
  | _, _, _ => False
  end.

Fixpoint cloR (n : nat) (c : cchi) (ty : cty) (cv : bval) (av : value) : Prop :=
  match n with
  | O => is_kind c ty cv
  | S k =>
      match av with
      | VClo _ cls ce => clo_ok k (vrelF (cloR k)) c ty cv cls ce
      | _ => False
      end /\ cloR k c ty cv av
  end.
Definition vrel (n : nat) := vrelF (cloR n).
Definition vrels (n : nat) := vrelsF (cloR n).

Lemma cloR_S : forall n c ty cv av, cloR (S n) c ty cv av -> cloR n c ty cv av.
Proof. intros n c ty cv av [_ H]. exact H. Qed.
Lemma cloR_le : forall n k c ty cv av, k <= n -> cloR n c ty cv av -> cloR k c ty cv av.
Proof. induction 1; [auto|]. intros H1. apply IHle. now apply cloR_S. Qed.
Lemma vrel_le : forall n k c ty cv av, k <= n -> vrel n c ty cv av -> vrel k c ty cv av.
Proof. intros n k c ty cv av Hle. apply vrelF_mono_all. intros. eapply cloR_le; eauto. Qed.
Lemma vrels_le : forall n k sg cvs avs, k <= n -> vrels n sg cvs avs -> vrels k sg cvs avs.
Proof. intros n k sg cvs avs Hle. apply vrelF_mono_all. intros. eapply cloR_le; eauto. Qed.
Lemma cloR_kind : forall n c ty cv av, cloR n c ty cv av -> is_kind c ty cv.
Proof. induction n; intros c ty cv av H; [exact H|]. apply IHn with av. now apply cloR_S. Qed.

Lemma cloR_use : forall n k c ty cv tn cls ce, cloR n c ty cv (VClo tn cls ce) -> k < n ->
  clo_ok k (vrel k) c ty cv cls ce.
Proof.
  induction n; intros k c ty cv tn cls ce H Hk; [lia|].
  destruct H as [H1 H2]. destruct (Nat.eq_dec k n) as [->|Hne]; [exact H1|].
  eapply IHn; eauto. lia.
Qed.
Lemma cloR_intro : forall n c ty cv tn cls ce, is_kind c ty cv ->
  (forall k, k < n -> clo_ok k (vrel k) c ty cv cls ce) -> cloR n c ty cv (VClo tn cls ce).
Proof.
  induction n; intros c ty cv tn cls ce Hk H; [exact Hk|]. split.
  - apply H. lia.
  - apply IHn; auto.
Qed.

(* ---------- environments ---------- *)
(* the Core environment is parallel to the typing context; every NEEDED variable x of the context
   is found under the id of (pi x) on the AxCut side, with a related value; that id is in A *)
Definition erel (n : nat) (need : cident -> Prop) (pi : cident -> ident) (A : list N)
           (G : cctx) (e : cenv) (ae : env) : Prop :=
  Forall2 (fun b ev => fst ev = cbvar b /\
                       (need (cbvar b) -> In (idn (pi (cbvar b))) A /\
                          exists av, lookup ae (idn (pi (cbvar b))) = Some av /\
                                     vrel n (cbchi b) (cbty b) (snd ev) av)) G e.

Lemma erel_weaken : forall n k (need need' : cident -> Prop) pi A A' G e ae,
  erel n need pi A G e ae -> k <= n -> (forall x, need' x -> need x) -> incl A A' ->
  erel k need' pi A' G e ae.
Proof.
  intros n k need need' pi A A' G e ae H Hk Hn HA. unfold erel in *.
  induction H as [|b ev G' e' [H1 H2] _ IH]; constructor; auto.
  split; [exact H1|]. intros Hx. destruct (H2 (Hn _ Hx)) as (Hin & av & Hl & Hv).
  split; [apply HA; exact Hin|]. exists av. split; [exact Hl|]. eapply vrel_le; eauto.
Qed.

Lemma flookup_notin : forall G x, ~ In x (cids G) -> flookup G x = None.
Proof.
  induction G as [|b G IH]; intros x H; [reflexivity|]. simpl in *.
  destruct (N.eqb (cid_id (cbvar b)) x) eqn:E; [apply N.eqb_eq in E; tauto|]. apply IH. tauto.
Qed.
Lemma flookup_in : forall G x b, flookup G x = Some b -> In b G /\ cid_id (cbvar b) = x.
Proof.
  induction G as [|b0 G IH]; intros x b H; [discriminate|]. simpl in H.
  destruct (N.eqb (cid_id (cbvar b0)) x) eqn:E.
  - inv H. apply N.eqb_eq in E. split; [now left | exact E].
  - apply IH in H as [H1 H2]. split; [now right | exact H2].
Qed.

Lemma erel_clookup : forall n need pi A G e ae x cv,
  erel n need pi A G e ae -> NoDup (cids G) -> CoreSem.clookup e x = Some cv ->
  exists b, flookup G (cid_id x) = Some b /\ cbvar b = x /\
    (need x -> In (idn (pi x)) A /\ exists av, lookup ae (idn (pi x)) = Some av /\ vrel n (cbchi b) (cbty b) cv av).
Proof.
  intros n need pi A G e ae x cv H. unfold erel in H.
  induction H as [|b [y v] G' e' [H1 H2] Hr IH]; intros Hnd Hl; [discriminate|].
  simpl in H1, H2. subst y. simpl in Hl. simpl in Hnd. inversion Hnd as [|? ? Hni Hnd']; subst.
  destruct (cident_eqb (cbvar b) x) eqn:E.
  - apply cident_eqb_eq in E. inv Hl. exists b. simpl. rewrite N.eqb_refl. auto.
  - destruct (IH Hnd' Hl) as (b' & Hf & Hb & Hn). exists b'. simpl.
    destruct (N.eqb (cid_id (cbvar b)) (cid_id x)) eqn:E2; [|auto].
    apply N.eqb_eq in E2. apply flookup_in in Hf as [Hin Hid]. exfalso. apply Hni. rewrite E2, <- Hid.
    unfold cids. apply in_map_iff. exists b'. auto.
Qed.

Lemma fbound_inv : forall G x c t, fbound G x c t = None ->
  exists b, flookup G (cid_id x) = Some b /\ cbchi b = c /\ cbty b = t.
Proof.
  intros G x c t H. unfold fbound in H. destruct (flookup G (cid_id x)) as [b|]; [|discriminate].
  apply fensure_none in H. apply andb_prop in H as [H1 H2]. exists b. split; [reflexivity|].
  split.
  - destruct (cbchi b), c; try discriminate; reflexivity.
  - destruct (cbty b) as [|n1], t as [|n2]; try discriminate; [reflexivity|]. simpl in H2. apply cident_eqb_eq in H2. now subst.
Qed.

(* a variable occurrence that the Core machine finds: typed, related *)
Lemma erel_var : forall n need pi A G e ae x c t cv,
  erel n need pi A G e ae -> NoDup (cids G) -> fbound G x c t = None -> need x ->
  CoreSem.clookup e x = Some cv ->
  In (idn (pi x)) A /\ exists av, lookup ae (idn (pi x)) = Some av /\ vrel n c t cv av.
Proof.
  intros n need pi A G e ae x c t cv He Hnd Hb Hn Hl.
  destruct (erel_clookup _ _ _ _ _ _ _ _ _ He Hnd Hl) as (b & Hf & _ & Hr).
  destruct (fbound_inv _ _ _ _ Hb) as (b' & Hf' & <- & <-). rewrite Hf in Hf'. inv Hf'. auto.
Qed.

(* ---------- inversion of the value relation at the first-order kinds ---------- *)
Lemma vrel_int_inv : forall n cv av, vrel n CPrd CI64 cv av -> exists z, cv = BP (PInt z) /\ av = VInt z.
Proof.
  intros n cv av H. inversion H; subst.
  - eauto.
  - apply cloR_kind in H0. contradiction.
Qed.
Lemma vrel_kind_bp : forall n ty cv av, vrel n CPrd ty cv av -> exists pv, cv = BP pv.
Proof.
  intros n ty cv av H. inversion H; subst; eauto.
  apply cloR_kind in H0. destruct ty; [contradiction|]. destruct cv; [eauto | contradiction].
Qed.
Lemma vrel_kind_bk : forall n ty cv av, vrel n CCns ty cv av -> exists kv, cv = BK kv.
Proof.
  intros n ty cv av H. inversion H; subst; eauto.
  apply cloR_kind in H0. destruct ty; (destruct cv; [contradiction | eauto]).
Qed.
Lemma vrel_clo_inv : forall n c ty cv av, vrel n c ty cv av ->
  match c, ty with
  | CCns, CI64 => True
  | CCns, CDecl _ => is_codata codata ty = false
  | CPrd, CDecl _ => is_codata codata ty = true
  | CPrd, CI64 => False
  end ->
  exists tn cls ce, av = VClo tn cls ce /\ cloR n c ty cv av.
Proof.
  intros n c ty cv av H Hk. inversion H; subst; try contradiction; try congruence; eauto.
Qed.
Lemma vrel_prd_data_inv : forall n T cv av, vrel n CPrd (CDecl T) cv av -> is_codata codata (CDecl T) = false ->
  exists d K sg args fs tn, cv = BP (PCtor K args) /\ av = VObj tn K fs /\
    find_decl data T = Some d /\ find_cxtor d K = Some sg /\ vrels n (cxargs sg) args fs.
Proof.
  intros n T cv av H Hk. inversion H; subst.
  - do 6 eexists. repeat split; eauto.
  - apply cloR_kind in H0. unfold is_kind in H0. destruct cv; [congruence | contradiction].
Qed.
Lemma vrel_cns_codata_inv : forall n T cv av, vrel n CCns (CDecl T) cv av -> is_codata codata (CDecl T) = true ->
  exists d K sg args fs tn, cv = BK (KDtor K args) /\ av = VObj tn K fs /\
    find_decl codata T = Some d /\ find_cxtor d K = Some sg /\ vrels n (cxargs sg) args fs.
Proof.
  intros n T cv av H Hk. inversion H; subst.
  - do 6 eexists. repeat split; eauto.
  - apply cloR_kind in H0. unfold is_kind in H0. destruct cv; [contradiction | congruence].
Qed.

(* sending a message to a related closure *)
Lemma invoke_clo : forall k c ty cv tn cls ce tag fs sr out r,
  cloR (S k) c ty cv (VClo tn cls ce) -> msg (vrel k) c ty cv tag fs sr ->
  cont k sr out = r -> good r ->
  exists cl e1 m, find_clause cls tag = Some cl /\ bind (vars (cl_ctx cl)) fs = Some e1 /\
                  exec_named m q (e1 ++ ce) (cl_body cl) out = r.
Proof.
  intros k c ty cv tn cls ce tag fs sr out r Hc Hm Hr Hg.
  destruct (cloR_use _ k _ _ _ _ _ _ Hc (Nat.lt_succ_diag_r k) _ _ _ Hm) as (cl & e1 & Hf & Hb & Hbeh).
  destruct (Hbeh out r Hr Hg) as [m Hm']. eauto 8.
Qed.
End Rel.
