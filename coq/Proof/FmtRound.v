(* C16: the parser model reads back the token stream of every parser-shaped tree.
     parse (T_prog p) = Some p          (roundtrip_tokens)
   Induction over the syntax tree (by size, because argument and clause lists nest), one lemma per
   precedence level of the grammar; fuel: 6 * size suffices at each level. *)
From Coq Require Import List ZArith NArith String Ascii Bool Lia.
From SCC Require Import Base.Sexp Lang.SynUtil Lang.FunSyn Model.Printer Model.Parser Model.FmtClass Proof.FmtDefs.
Import ListNotations.
Open Scope string_scope.

(* ---------- small facts ---------- *)
Lemma fifsort_eqb_refl c : fifsort_eqb c c = true.
Proof. destruct c; reflexivity. Qed.
Lemma sym_eqb_refl y : sym_eqb y y = true.
Proof. destruct y; try reflexivity. apply fifsort_eqb_refl. Qed.

Definition head_is (y : sym) (ts : list token) : bool :=
  match ts with TSym z :: _ => sym_eqb y z | _ => false end.
Lemma expect_hit y r : expect y (TSym y :: r) = Some r.
Proof. unfold expect. now rewrite sym_eqb_refl. Qed.
Lemma expect_miss y ts : head_is y ts = false -> expect y ts = None.
Proof. destruct ts as [|[] ?]; simpl; try reflexivity. intros ->. reflexivity. Qed.

Lemma in_list_sum {X} (f : X -> nat) x l : In x l -> f x <= list_sum (map f l).
Proof. induction l; simpl; intros []; subst; try lia. specialize (IHl H). lia. Qed.
Lemma length_le_sum {X} (f : X -> nat) l : (forall x, 1 <= f x) -> List.length l <= list_sum (map f l).
Proof. intros H. induction l; simpl; auto. specialize (H a). lia. Qed.
Lemma tysz_pos t : 1 <= tysz t.
Proof. destruct t; simpl; lia. Qed.
Lemma tsz_pos t : 1 <= tsz t.
Proof. destruct t; simpl; lia. Qed.
Lemma csz_pos c : 1 <= csz c.
Proof. destruct c; simpl; lia. Qed.
(* size equations (cbn would expose the inner fix and confuse lia) *)
Lemma tysz_decl n l : tysz (FDecl n l) = S (list_sum (map tysz l)).
Proof. reflexivity. Qed.

(* ---------- Comma<Rule> close ---------- *)
Lemma comma_loop_ok {X} (item : list token -> pr X) (F : X -> tcont) (close : sym) (xs : list X) :
  sym_eqb SComma close = false ->
  (forall x r, In x xs -> head_is close (F x r) = false) ->
  (forall x r, In x xs -> head_is SComma r = true \/ head_is close r = true -> item (F x r) = Some (x, r)) ->
  forall m rest, List.length xs < m ->
    comma_loop item close m (commas (map F xs) (TSym close :: rest)) = Some (xs, rest).
Proof.
  intros Hc Hhead Hitem. induction xs as [|x xs IH]; intros m rest Hm.
  - destruct m; [simpl in Hm; lia|]. simpl. now rewrite sym_eqb_refl.
  - destruct m; [simpl in Hm; lia|]. simpl in Hm.
    assert (IH' := IH (fun y r H => Hhead y r (or_intror H)) (fun y r H => Hitem y r (or_intror H))).
    destruct xs as [|y ys].
    + cbn [map commas comma_loop].
      rewrite (expect_miss close) by (apply Hhead; now left).
      rewrite Hitem; [| now left | right; simpl; apply sym_eqb_refl]. cbn [obind].
      rewrite (expect_miss SComma) by (simpl; exact Hc). rewrite expect_hit. reflexivity.
    + change (commas (map F (x :: y :: ys)) (TSym close :: rest))
        with (F x (TSym SComma :: commas (map F (y :: ys)) (TSym close :: rest))).
      cbn [comma_loop].
      rewrite (expect_miss close) by (apply Hhead; now left).
      rewrite Hitem; [| now left | left; reflexivity]. cbn [obind].
      rewrite expect_hit. rewrite IH' by lia. reflexivity.
Qed.

(* ---------- types ---------- *)
Lemma Tk_ty_head t k : head_is SRBrack (Tk_ty t k) = false /\ head_is SRPar (Tk_ty t k) = false
                       /\ head_is SRBrace (Tk_ty t k) = false.
Proof. destruct t; simpl; auto. Qed.

Lemma p_ty_ok : forall n t rest, wf_ty t = true -> tysz t < n -> head_is SLBrack rest = false ->
  p_ty n (Tk_ty t rest) = Some (t, rest).
Proof.
  induction n as [|n IH]; intros t rest Hwf Hn Hrest.
  - pose proof (tysz_pos t). lia.
  - destruct t as [|s args]; [reflexivity|].
    cbn [wf_ty] in Hwf. apply andb_prop in Hwf. destruct Hwf as [_ Hargs].
    rewrite forallb_forall in Hargs. rewrite tysz_decl in Hn.
    destruct args as [|a args'].
    + cbn [Tk_ty map opt_bracketed]. destruct rest as [|[] rest']; try reflexivity.
      simpl in Hrest. destruct y; try reflexivity. discriminate.
    + remember (a :: args') as args eqn:E.
      assert (Tk_ty (FDecl s args) rest = TUpper s :: TSym SLBrack :: commas (map Tk_ty args) (TSym SRBrack :: rest))
        as -> by (subst args; reflexivity).
      cbn [p_ty].
      rewrite (comma_loop_ok (p_ty n) Tk_ty SRBrack args); [reflexivity | reflexivity | | | ].
      * intros x r _. apply Tk_ty_head.
      * intros x r Hin Hr. apply IH.
        -- now apply Hargs.
        -- pose proof (in_list_sum tysz x args Hin). lia.
        -- destruct r as [|[] ?]; try reflexivity. destruct Hr as [Hr|Hr]; simpl in Hr; destruct y; try reflexivity; discriminate.
      * pose proof (length_le_sum tysz args tysz_pos). lia.
Qed.

Lemma p_opttyargs_ok n l rest :
  forallb wf_ty l = true -> list_sum (map tysz l) < n -> head_is SLBrack rest = false ->
  p_opttyargs n (Tk_tyargs l rest) = Some (l, rest).
Proof.
  intros Hwf Hn Hrest. rewrite forallb_forall in Hwf. destruct l as [|a l'].
  - unfold Tk_tyargs, opt_bracketed, p_opttyargs; simpl.
    destruct rest as [|[] ?]; try reflexivity. simpl in Hrest. destruct y; try reflexivity; discriminate.
  - remember (a :: l') as l eqn:E.
    assert (Tk_tyargs l rest = TSym SLBrack :: commas (map Tk_ty l) (TSym SRBrack :: rest)) as ->
      by (subst l; reflexivity).
    cbn [p_opttyargs].
    apply (comma_loop_ok (p_ty n) Tk_ty SRBrack l); [reflexivity | | | ].
    + intros x r _. apply Tk_ty_head.
    + intros x r Hin Hr. apply p_ty_ok.
      * now apply Hwf.
      * pose proof (in_list_sum tysz x l Hin). lia.
      * destruct r as [|[] ?]; try reflexivity. destruct Hr as [Hr|Hr]; simpl in Hr; destruct y; try reflexivity; discriminate.
    + pose proof (length_le_sum tysz l tysz_pos). lia.
Qed.

(* ---------- names, bindings, contexts ---------- *)
Lemma p_names_ok n (l : fnamectx) rest :
  List.length l < n -> head_is SLPar rest = false -> p_optnames n (Tk_names l rest) = Some (l, rest).
Proof.
  intros Hn Hrest. destruct l as [|a l'].
  - unfold Tk_names, opt_bracketed, p_optnames; simpl.
    destruct rest as [|[] ?]; try reflexivity. simpl in Hrest. destruct y; try reflexivity; discriminate.
  - remember (a :: l') as l eqn:E.
    assert (Tk_names l rest = TSym SLPar :: commas (map Tk_lower l) (TSym SRPar :: rest)) as ->
      by (subst l; reflexivity).
    cbn [p_optnames].
    apply (comma_loop_ok p_lower Tk_lower SRPar l); [reflexivity | | | exact Hn].
    + reflexivity.
    + reflexivity.
Qed.
Lemma p_typarams_ok n (l : fnamectx) rest :
  List.length l < n -> head_is SLBrack rest = false -> p_opttypectx n (Tk_typarams l rest) = Some (l, rest).
Proof.
  intros Hn Hrest. destruct l as [|a l'].
  - unfold Tk_typarams, opt_bracketed, p_opttypectx; simpl.
    destruct rest as [|[] ?]; try reflexivity. simpl in Hrest. destruct y; try reflexivity; discriminate.
  - remember (a :: l') as l eqn:E.
    assert (Tk_typarams l rest = TSym SLBrack :: commas (map Tk_upper l) (TSym SRBrack :: rest)) as ->
      by (subst l; reflexivity).
    cbn [p_opttypectx].
    apply (comma_loop_ok p_upper Tk_upper SRBrack l); [reflexivity | | | exact Hn]; reflexivity.
Qed.

Definition ctxsz (g : fctx) : nat := list_sum (map (fun b => S (tysz (fbty b))) g).
Lemma p_binding_ok n b r :
  wf_binding b = true -> tysz (fbty b) < n -> head_is SLBrack r = false ->
  p_binding n (Tk_binding b r) = Some (b, r).
Proof.
  intros Hwf Hn Hr. unfold wf_binding in Hwf. apply andb_prop in Hwf. destruct Hwf as [_ Hty].
  destruct b as [v chi ty]. unfold Tk_binding. simpl in *.
  destruct chi; cbn [p_binding]; rewrite p_ty_ok by assumption; reflexivity.
Qed.
Lemma comma_or_close_not_lbrack close r :
  sym_eqb close SLBrack = false -> head_is SComma r = true \/ head_is close r = true -> head_is SLBrack r = false.
Proof.
  intros Hc Hr. destruct r as [|[] ?]; try reflexivity. simpl in *.
  destruct y; try reflexivity. destruct Hr as [Hr|Hr]; [discriminate|]. now rewrite Hr in Hc.
Qed.
Lemma p_ctx_list_ok n g rest :
  wf_ctx g = true -> ctxsz g < n ->
  comma_loop (p_binding n) SRPar n (commas (map Tk_binding g) (TSym SRPar :: rest)) = Some (g, rest).
Proof.
  intros Hwf Hn. unfold wf_ctx in Hwf. rewrite forallb_forall in Hwf.
  apply (comma_loop_ok (p_binding n) Tk_binding SRPar g); [reflexivity | | | ].
  - intros x r _. reflexivity.
  - intros x r Hin Hr. apply p_binding_ok; [now apply Hwf | | ].
    + pose proof (in_list_sum (fun b => S (tysz (fbty b))) x g Hin). unfold ctxsz in Hn. cbv beta in H. lia.
    + eapply comma_or_close_not_lbrack; [|exact Hr]. reflexivity.
  - unfold ctxsz in Hn. pose proof (length_le_sum (fun b => S (tysz (fbty b))) g).
    assert (forall x : fbinding, 1 <= S (tysz (fbty x))) by (intros; lia). specialize (H H0). lia.
Qed.
Lemma p_ctx_ok n g rest :                                     (* def f( .. ) *)
  wf_ctx g = true -> ctxsz g < n -> p_optctx n (Tk_ctx g rest) = Some (g, rest).
Proof. intros. unfold Tk_ctx, bracketed. cbn [p_optctx]. now apply p_ctx_list_ok. Qed.
Lemma p_sigargs_ok n g rest :                                 (* Ctor / Dtor signatures: optional *)
  wf_ctx g = true -> ctxsz g < n -> head_is SLPar rest = false -> p_optctx n (Tk_sigargs g rest) = Some (g, rest).
Proof.
  intros Hwf Hn Hrest. destruct g as [|b g'].
  - unfold Tk_sigargs, opt_bracketed, p_optctx; simpl.
    destruct rest as [|[] ?]; try reflexivity. simpl in Hrest. destruct y; try reflexivity; discriminate.
  - remember (b :: g') as g eqn:E.
    assert (Tk_sigargs g rest = TSym SLPar :: commas (map Tk_binding g) (TSym SRPar :: rest)) as ->
      by (subst g; reflexivity).
    cbn [p_optctx]. now apply p_ctx_list_ok.
Qed.

(* ================= terms ================= *)
(* size equations *)
Lemma tsz_op a o b : tsz (FOp a o b) = S (tsz a + tsz b). Proof. reflexivity. Qed.
Lemma tsz_if s a b th el ty :
  tsz (FIfC s a b th el ty) = S (tsz a + match b with Some b' => tsz b' | None => 0 end + tsz th + tsz el).
Proof. reflexivity. Qed.
Lemma tsz_print nl a n ty : tsz (FPrint nl a n ty) = S (tsz a + tsz n). Proof. reflexivity. Qed.
Lemma tsz_let v vty b t ty : tsz (FLet v vty b t ty) = S (tysz vty + tsz b + tsz t). Proof. reflexivity. Qed.
Lemma tsz_call f args r : tsz (FCall f args r) = S (list_sum (map tsz args)). Proof. reflexivity. Qed.
Lemma tsz_ctor f args r : tsz (FCtor f args r) = S (list_sum (map tsz args)). Proof. reflexivity. Qed.
Lemma tsz_dtor s x targs args ty :
  tsz (FDtor s x targs args ty) = S (tsz s + list_sum (map tysz targs) + list_sum (map tsz args)).
Proof. reflexivity. Qed.
Lemma tsz_case s targs cls ty :
  tsz (FCase s targs cls ty) = S (tsz s + list_sum (map tysz targs) + list_sum (map csz cls)).
Proof. reflexivity. Qed.
Lemma tsz_new cls ty : tsz (FNew cls ty) = S (list_sum (map csz cls)). Proof. reflexivity. Qed.
Lemma tsz_label l t ty : tsz (FLabel l t ty) = S (tsz t). Proof. reflexivity. Qed.
Lemma tsz_goto l t ty : tsz (FGoto l t ty) = S (tsz t). Proof. reflexivity. Qed.
Lemma tsz_exit a ty : tsz (FExit a ty) = S (tsz a). Proof. reflexivity. Qed.
Lemma tsz_paren t : tsz (FParen t) = S (tsz t). Proof. reflexivity. Qed.
Lemma csz_clause p x names g body : csz (FClause p x names g body) = S (List.length names + tsz body).
Proof. reflexivity. Qed.

(* the first token of a printed term *)
Fixpoint thead (t : fterm) : token :=
  match t with
  | FVar v _ _ => TLower v
  | FLit z => if (z <? 0)%Z then TSym SMinus else TNum (Z.to_N z)
  | FOp a _ _ => thead a
  | FIfC _ _ _ _ _ _ => TKw KIf
  | FPrint nl _ _ _ => TKw (if nl then KPrintln else KPrint)
  | FLet _ _ _ _ _ => TKw KLet
  | FCall f _ _ => TLower f
  | FCtor x _ _ => TUpper x
  | FDtor s _ _ _ _ => thead s
  | FCase s _ _ _ => thead s
  | FNew _ _ => TKw KNew
  | FLabel _ _ _ => TKw KLabel
  | FGoto _ _ _ => TKw KGoto
  | FExit _ _ => TKw KExit
  | FParen _ => TSym SLPar
  end.
Lemma Tk_thead t : forall k, exists tl, Tk_term t k = thead t :: tl.
Proof.
  induction t; intros k; cbn [Tk_term thead]; eauto.
  - unfold Tk_lit. destruct (n <? 0)%Z; eauto.
Qed.
Definition t1head (h : token) : bool :=
  match h with TLower _ | TNum _ | TSym SMinus | TSym SLPar => true | _ => false end.
Definition t2head (h : token) : bool :=
  t1head h || match h with TUpper _ | TKw KNew => true | _ => false end.
Definition t3head (h : token) : bool :=
  t2head h || match h with TKw (KIf | KLabel | KGoto | KExit | KLet) => true | _ => false end.
Definition t4head (h : token) : bool :=
  t3head h || match h with TKw (KPrint | KPrintln) => true | _ => false end.
Lemma thead1 t : level t <= 1 -> t1head (thead t) = true.
Proof. destruct t; cbn [level thead]; intros; try lia; try reflexivity. destruct (n <? 0)%Z; reflexivity. Qed.
Lemma wf_dtor_inv s x targs args ty : wf (FDtor s x targs args ty) = true ->
  wf s = true /\ level s <= 2 /\ lower_ok x = true /\ forallb wf_ty targs = true /\ forallb wf args = true /\ ty = None.
Proof.
  cbn [wf]. intros H. rewrite !andb_true_iff in H. destruct H as (((((A & B) & C) & D) & E) & F).
  apply Nat.leb_le in B. destruct ty; [discriminate|]. auto 10.
Qed.
Lemma wf_case_inv s targs cls ty : wf (FCase s targs cls ty) = true ->
  wf s = true /\ level s <= 2 /\ forallb wf_ty targs = true /\ forallb (wf_clause FData) cls = true /\ ty = None.
Proof.
  cbn [wf]. intros H. rewrite !andb_true_iff in H. destruct H as ((((A & B) & C) & D) & E).
  apply Nat.leb_le in B. destruct ty; [discriminate|]. auto 10.
Qed.
Lemma thead2 t : wf t = true -> level t <= 2 -> t2head (thead t) = true.
Proof.
  induction t; cbn [level thead]; intros Hwf Hl; try lia; try reflexivity.
  - destruct (n <? 0)%Z; reflexivity.
  - apply wf_dtor_inv in Hwf. destruct Hwf as (? & ? & _). auto.
  - apply wf_case_inv in Hwf. destruct Hwf as (? & ? & _). auto.
Qed.
Lemma t1_t2 h : t1head h = true -> t2head h = true.
Proof. unfold t2head. intros ->. reflexivity. Qed.
Lemma t2_t3 h : t2head h = true -> t3head h = true.
Proof. unfold t3head. intros ->. reflexivity. Qed.
Lemma thead3 t : wf t = true -> level t <= 3 -> t3head (thead t) = true.
Proof.
  intros Hwf Hl. destruct (Nat.le_gt_cases (level t) 2) as [H2|H2].
  - apply t2_t3. now apply thead2.
  - destruct t; cbn [level] in *; try lia; try reflexivity.
    (* FOp *)
    cbn [wf] in Hwf. rewrite !andb_true_iff in Hwf. destruct Hwf as (((A & B) & C) & D).
    apply Nat.leb_le in C. cbn [thead]. apply t2_t3, t1_t2, thead1. assumption.
Qed.
Lemma thead4 t : wf t = true -> t4head (thead t) = true.
Proof.
  intros Hwf. destruct (Nat.le_gt_cases (level t) 3) as [H|H].
  - unfold t4head. rewrite thead3; auto.
  - destruct t; cbn [level] in *; try lia. cbn [thead]. destruct nl; reflexivity.
Qed.

(* ---------- the productions, one equation each ---------- *)
Lemma p_term_print n nl r :
  p_term (S n) (TKw (if nl : bool then KPrintln else KPrint) :: TSym SLPar :: r) =
  (do (a, r1) <- p_term n r; do r2 <- expect SRPar r1; do r3 <- expect SSemi r2;
   do (t, r4) <- p_term n r3; Some (FPrint nl a t None, r4)).
Proof. destruct nl; reflexivity. Qed.
Lemma p_term_other n h tl : t3head h = true -> p_term (S n) (h :: tl) = p_term3 n (h :: tl).
Proof. destruct h as [ | | | | | | |[]]; try discriminate; reflexivity. Qed.

Definition if_tail (n : nat) (a : fterm) (r1 : list token) : pr fterm :=
  match r1 with
  | TSym (SCmp c) :: r2 =>
      do (b, r3) <- p_term n r2;
      do (th, r4) <- p_block n r3;
      match r4 with
      | TKw KElse :: r5 => do (el, r6) <- p_block n r5; Some (FIfC c a (Some b) th el None, r6)
      | _ => None end
  | TCmpZ c :: r2 =>
      do (th, r4) <- p_block n r2;
      match r4 with
      | TKw KElse :: r5 => do (el, r6) <- p_block n r5; Some (FIfC c a None th el None, r6)
      | _ => None end
  | _ => None
  end.
Lemma p_term3_if n h tl : t4head h = true ->
  p_term3 (S n) (TKw KIf :: h :: tl) = (do (a, r1) <- p_term n (h :: tl); if_tail n a r1).
Proof. destruct h; try discriminate; reflexivity. Qed.
Lemma p_term3_label n l r :
  p_term3 (S n) (TKw KLabel :: TLower l :: r) = (do (t, r1) <- p_block n r; Some (FLabel l t None, r1)).
Proof. reflexivity. Qed.
Lemma p_term3_goto n l r :
  p_term3 (S n) (TKw KGoto :: TLower l :: TSym SLPar :: r) =
  (do (t, r1) <- p_term n r; do r2 <- expect SRPar r1; Some (FGoto l t None, r2)).
Proof. reflexivity. Qed.
Lemma p_term3_exit n r :
  p_term3 (S n) (TKw KExit :: r) = (do (t, r1) <- p_term n r; Some (FExit t None, r1)).
Proof. reflexivity. Qed.
Lemma p_term3_let n v r :
  p_term3 (S n) (TKw KLet :: TLower v :: TSym SColon :: r) =
  (do (ty, r1) <- p_ty n r; do r2 <- expect SAssign r1;
   do (b, r3) <- p_term3 n r2; do r4 <- expect SSemi r3;
   do (t, r5) <- p_term n r4; Some (FLet v ty b t None, r5)).
Proof. reflexivity. Qed.
Definition op_tail (n : nat) (eb : fterm * bool) (r : list token) : pr fterm :=
  let (e, is1) := eb in
  match r with
  | TSym y :: r1 =>
      match binop_of y with
      | Some o => if is1 then do (b, r2) <- p_term1 n r1; Some (FOp e o b, r2) else None
      | None => Some (e, r)
      end
  | _ => Some (e, r)
  end.
Lemma p_term3_other n h tl : t2head h = true ->
  p_term3 (S n) (h :: tl) = (do (eb, r) <- p_term2 n (h :: tl); op_tail n eb r).
Proof.
  destruct h as [[]| | | | | | |[]]; try discriminate; reflexivity.
Qed.
Lemma p_block_S n r :
  p_block (S n) (TSym SLBrace :: r) = (do (t, r1) <- p_term n r; do r2 <- expect SRBrace r1; Some (t, r2)).
Proof. reflexivity. Qed.
Lemma p_term2_new n r :
  p_term2 (S n) (TKw KNew :: TSym SLBrace :: r) =
  (do (cls, r1) <- comma_loop (p_clause n FCodata) SRBrace n r; p_postfix n (FNew cls None) false r1).
Proof. reflexivity. Qed.
Lemma p_term2_ctor_args n x r :
  p_term2 (S n) (TUpper x :: TSym SLPar :: r) =
  (do (args, r1) <- comma_loop (p_term n) SRPar n r; p_postfix n (FCtor x args None) false r1).
Proof. reflexivity. Qed.
Lemma p_term2_ctor n x r : head_is SLPar r = false ->
  p_term2 (S n) (TUpper x :: r) = p_postfix n (FCtor x [] None) false r.
Proof. destruct r as [|[[]| | | | | | |] ?]; try discriminate; reflexivity. Qed.
Lemma p_term2_other n h tl : t1head h = true ->
  p_term2 (S n) (h :: tl) = (do (e, r) <- p_term1 n (h :: tl); p_postfix n e true r).
Proof. destruct h as [[]| | | | | | |]; try discriminate; reflexivity. Qed.
Lemma p_term1_num n k r :
  p_term1 (S n) (TNum k :: r) = if lit_ok k then Some (FLit (Z.of_N k), r) else None.
Proof. reflexivity. Qed.
Lemma p_term1_neg n k r :
  p_term1 (S n) (TSym SMinus :: TNum k :: r) = if lit_ok k then Some (FLit (- Z.of_N k), r) else None.
Proof. reflexivity. Qed.
Lemma p_term1_call n v r :
  p_term1 (S n) (TLower v :: TSym SLPar :: r) =
  (do (args, r1) <- comma_loop (p_term n) SRPar n r; Some (FCall v args None, r1)).
Proof. reflexivity. Qed.
Lemma p_term1_var n v r : head_is SLPar r = false ->
  p_term1 (S n) (TLower v :: r) = Some (FVar v None None, r).
Proof. destruct r as [|[[]| | | | | | |] ?]; try discriminate; reflexivity. Qed.
Lemma p_term1_paren n r :
  p_term1 (S n) (TSym SLPar :: r) = (do (t, r1) <- p_term n r; do r2 <- expect SRPar r1; Some (FParen t, r2)).
Proof. reflexivity. Qed.
Definition dtor_tail (n : nat) (e : fterm) (x : fname) (targs : list fty) (r1 : list token) : pr (fterm * bool) :=
  match r1 with
  | TSym SLPar :: r2 =>
      do (args, r3) <- comma_loop (p_term n) SRPar n r2; p_postfix n (FDtor e x targs args None) false r3
  | _ => p_postfix n (FDtor e x targs [] None) false r1
  end.
Lemma p_postfix_dtor n e is1 x r :
  p_postfix (S n) e is1 (TSym SDot :: TLower x :: r) =
  (do (targs, r1) <- p_opttyargs n r; dtor_tail n e x targs r1).
Proof. reflexivity. Qed.
Lemma dtor_tail_noargs n e x targs r1 : head_is SLPar r1 = false ->
  dtor_tail n e x targs r1 = p_postfix n (FDtor e x targs [] None) false r1.
Proof. destruct r1 as [|[[]| | | | | | |] ?]; try discriminate; reflexivity. Qed.
Lemma p_postfix_case n e is1 r :
  p_postfix (S n) e is1 (TSym SDot :: TKw KCase :: r) =
  (do (targs, r1) <- p_opttyargs n r; do r2 <- expect SLBrace r1;
   do (cls, r3) <- comma_loop (p_clause n FData) SRBrace n r2; p_postfix n (FCase e targs cls None) false r3).
Proof. reflexivity. Qed.
Lemma p_postfix_stop n e is1 r : head_is SDot r = false -> p_postfix (S n) e is1 r = Some ((e, is1), r).
Proof. destruct r as [|[[]| | | | | | |] ?]; try discriminate; reflexivity. Qed.
Lemma p_clause_S n pol ts :
  p_clause (S n) pol ts =
  (do (x, r) <- match pol with FData => p_upper ts | FCodata => p_lower ts end;
   do (names, r1) <- p_optnames n r; do r2 <- expect SArrow r1;
   do (body, r3) <- p_term n r2; Some (FClause pol x names [] body, r3)).
Proof. reflexivity. Qed.

(* ---------- what may follow a term ---------- *)
Definition stop_tok (t : token) : bool :=
  match t with
  | TSym (SRPar | SRBrace | SComma | SSemi | SCmp _ | SLBrace) | TCmpZ _ => true
  | _ => false
  end.
Definition stops (ts : list token) : bool := match ts with [] => true | t :: _ => stop_tok t end.
Lemma stops_nolp r : stops r = true -> head_is SLPar r = false.
Proof. destruct r as [|[[]| | | | | | |] ?]; try discriminate; reflexivity. Qed.
Lemma stops_nolb r : stops r = true -> head_is SLBrack r = false.
Proof. destruct r as [|[[]| | | | | | |] ?]; try discriminate; reflexivity. Qed.
Lemma stops_nodot r : stops r = true -> head_is SDot r = false.
Proof. destruct r as [|[[]| | | | | | |] ?]; try discriminate; reflexivity. Qed.
Lemma stops_sep close r : (close = SRPar \/ close = SRBrace) ->
  head_is SComma r = true \/ head_is close r = true -> stops r = true.
Proof.
  intros Hc [H|H]; destruct r as [|[[]| | | | | | |] ?]; try discriminate; try reflexivity;
    destruct Hc; subst; discriminate.
Qed.
Lemma op_tail_stops n e b r : stops r = true -> op_tail n (e, b) r = Some (e, r).
Proof. destruct r as [|[[]| | | | | | |] ?]; try discriminate; reflexivity. Qed.
Lemma binop_of_sym o : binop_of (sym_of_binop o) = Some o.
Proof. destruct o; reflexivity. Qed.

Definition is1 (t : fterm) : bool := (level t <=? 1)%nat.
Fixpoint chain (t : fterm) : nat :=
  match t with FDtor s _ _ _ _ | FCase s _ _ _ => S (chain s) | _ => 0 end.
Lemma chain_lt t : chain t < tsz t.
Proof.
  induction t; cbn [chain]; try (pose proof (tsz_pos t); lia); try (cbn; lia).
Qed.
Lemma chain_level1 t : level t <= 1 -> chain t = 0.
Proof. destruct t; cbn; intros; try lia; reflexivity. Qed.

(* ---------- the four statements, one per grammar level ---------- *)
Definition C1 (t : fterm) : Prop := forall n rest,
  6 * tsz t <= n -> level t <= 1 -> head_is SLPar rest = false ->
  p_term1 n (Tk_term t rest) = Some (t, rest).
Definition C2 (t : fterm) : Prop := forall n rest,
  6 * tsz t + 1 <= n -> level t <= 2 -> head_is SLPar rest = false -> head_is SLBrack rest = false ->
  p_term2 n (Tk_term t rest) = p_postfix (n - 1 - chain t) t (is1 t) rest.
Definition C3 (t : fterm) : Prop := forall n rest,
  6 * tsz t + 2 <= n -> level t <= 3 -> stops rest = true ->
  p_term3 n (Tk_term t rest) = Some (t, rest).
Definition C4 (t : fterm) : Prop := forall n rest,
  6 * tsz t + 3 <= n -> stops rest = true ->
  p_term n (Tk_term t rest) = Some (t, rest).
Definition Call (t : fterm) : Prop := C1 t /\ C2 t /\ C3 t /\ C4 t.

Lemma lift12 t : level t <= 1 -> C1 t -> C2 t.
Proof.
  intros L1 H1 n rest Hn Hl Hp Hb.
  destruct n as [|n]; [lia|].
  destruct (Tk_thead t rest) as [tl E]. rewrite E.
  rewrite p_term2_other by (now apply thead1). rewrite <- E.
  rewrite H1 by (auto; lia). cbn [obind].
  rewrite chain_level1 by assumption. unfold is1. apply Nat.leb_le in L1. rewrite L1.
  f_equal. lia.
Qed.
Lemma lift23 t : wf t = true -> level t <= 2 -> C2 t -> C3 t.
Proof.
  intros Hwf L2 H2 n rest Hn Hl Hs.
  destruct n as [|n]; [lia|].
  destruct (Tk_thead t rest) as [tl E]. rewrite E.
  rewrite p_term3_other by (now apply thead2). rewrite <- E.
  rewrite H2; [| lia | assumption | now apply stops_nolp | now apply stops_nolb].
  pose proof (chain_lt t).
  destruct (n - 1 - chain t) as [|m] eqn:Em; [lia|].
  rewrite p_postfix_stop by (now apply stops_nodot). cbn [obind].
  now apply op_tail_stops.
Qed.
Lemma lift34 t : wf t = true -> level t <= 3 -> C3 t -> C4 t.
Proof.
  intros Hwf L3 H3 n rest Hn Hs.
  destruct n as [|n]; [lia|].
  destruct (Tk_thead t rest) as [tl E]. rewrite E.
  rewrite p_term_other by (now apply thead3). rewrite <- E.
  apply H3; auto. lia.
Qed.

(* the first token of a term is never a closing bracket, a comma, or a zero-comparison terminal *)
Definition starter (h : token) : bool :=
  match h with
  | TSym (SMinus | SLPar) | TLower _ | TUpper _ | TNum _ | TKw _ => true
  | _ => false
  end.
Lemma thead_starter t : starter (thead t) = true.
Proof. induction t; cbn [thead]; auto. destruct (n <? 0)%Z; reflexivity. Qed.
Lemma Tk_term_not_close t r y : (y = SRPar \/ y = SRBrace) -> head_is y (Tk_term t r) = false.
Proof.
  intros Hy. destruct (Tk_thead t r) as [tl ->]. pose proof (thead_starter t) as H.
  destruct (thead t) as [[]| | | | | | |]; try discriminate; try reflexivity; destruct Hy; subst; reflexivity.
Qed.
Lemma starter_t4 t : wf t = true -> t4head (thead t) = true.
Proof. apply thead4. Qed.

(* argument lists: ( t1 , .. , tn ) *)
Lemma args_ok n args rest :
  (forall a, In a args -> C4 a) -> 6 * list_sum (map tsz args) + 4 <= n ->
  comma_loop (p_term n) SRPar n (commas (map Tk_term args) (TSym SRPar :: rest)) = Some (args, rest).
Proof.
  intros HC Hn.
  apply (comma_loop_ok (p_term n) Tk_term SRPar args); [reflexivity | | | ].
  - intros x r _. apply Tk_term_not_close. now left.
  - intros x r Hin Hr. apply (HC x Hin).
    + pose proof (in_list_sum tsz x args Hin). lia.
    + eapply stops_sep; [|exact Hr]. now left.
  - pose proof (length_le_sum tsz args tsz_pos). lia.
Qed.

Lemma C1_var v : C1 (FVar v None None).
Proof.
  intros n rest Hn _ Hp. destruct n as [|n]; [cbn in Hn; lia|].
  cbn [Tk_term]. now apply p_term1_var.
Qed.
Lemma C1_lit z : lit_in_range z = true -> C1 (FLit z).
Proof.
  intros Hz n rest Hn _ Hp. destruct n as [|n]; [cbn in Hn; lia|].
  unfold lit_in_range in Hz. apply Z.leb_le in Hz.
  cbn [Tk_term]. unfold Tk_lit. destruct (z <? 0)%Z eqn:Ez.
  - apply Z.ltb_lt in Ez. rewrite p_term1_neg.
    assert (lit_ok (Z.to_N (- z)) = true) as -> by (unfold lit_ok; apply N.leb_le; lia).
    repeat f_equal. lia.
  - apply Z.ltb_ge in Ez. rewrite p_term1_num.
    assert (lit_ok (Z.to_N z) = true) as -> by (unfold lit_ok; apply N.leb_le; lia).
    repeat f_equal. lia.
Qed.
Lemma C1_call f args : (forall a, In a args -> C4 a) -> C1 (FCall f args None).
Proof.
  intros HC n rest Hn _ Hp. destruct n as [|n]; [cbn in Hn; lia|]. rewrite tsz_call in Hn.
  cbn [Tk_term]. unfold bracketed. rewrite p_term1_call.
  rewrite args_ok by (auto; lia). reflexivity.
Qed.
Lemma C1_paren u : C4 u -> C1 (FParen u).
Proof.
  intros HC n rest Hn _ Hp. destruct n as [|n]; [cbn in Hn; lia|]. rewrite tsz_paren in Hn.
  cbn [Tk_term]. rewrite p_term1_paren. rewrite HC by (try reflexivity; lia). cbn [obind].
  rewrite expect_hit. reflexivity.
Qed.

Lemma C2_ctor x args : (forall a, In a args -> C4 a) -> C2 (FCtor x args None).
Proof.
  intros HC n rest Hn _ Hp Hb. destruct n as [|n]; [lia|]. rewrite tsz_ctor in Hn.
  cbn [Tk_term chain]. replace (S n - 1 - 0) with n by lia. unfold is1; cbn [level Nat.leb].
  destruct args as [|a args'].
  - cbn [map opt_bracketed]. now apply p_term2_ctor.
  - remember (a :: args') as args eqn:E.
    assert (opt_bracketed SLPar SRPar (map Tk_term args) rest
            = TSym SLPar :: commas (map Tk_term args) (TSym SRPar :: rest)) as -> by (subst args; reflexivity).
    rewrite p_term2_ctor_args. rewrite args_ok by (auto; lia). reflexivity.
Qed.

(* clauses *)
Lemma clause_ok n pol c rest :
  wf_clause pol c = true -> (forall p x ns g body, c = FClause p x ns g body -> C4 body) ->
  6 * csz c <= n -> stops rest = true ->
  p_clause n pol (Tk_clause c rest) = Some (c, rest).
Proof.
  intros Hwf HC Hn Hs. destruct c as [p x names g body]. specialize (HC _ _ _ _ _ eq_refl).
  rewrite csz_clause in Hn. destruct n as [|n]; [lia|].
  cbn [wf_clause] in Hwf. rewrite !andb_true_iff in Hwf. destruct Hwf as ((((Hp & Hx) & Hns) & Hg) & Hb).
  destruct g; [|discriminate].
  assert (p = pol) as -> by (destruct p, pol; try discriminate; reflexivity).
  rewrite p_clause_S. cbn [Tk_clause].
  destruct pol; cbn [p_upper p_lower obind];
    (rewrite p_names_ok by (try reflexivity; lia)); cbn [obind]; rewrite expect_hit; cbn [obind];
    (rewrite HC by (auto; lia)); reflexivity.
Qed.
Lemma clauses_ok n pol cls rest :
  forallb (wf_clause pol) cls = true ->
  (forall c, In c cls -> forall p x ns g body, c = FClause p x ns g body -> C4 body) ->
  6 * list_sum (map csz cls) + 1 <= n ->
  comma_loop (p_clause n pol) SRBrace n (commas (map Tk_clause cls) (TSym SRBrace :: rest)) = Some (cls, rest).
Proof.
  intros Hwf HC Hn. rewrite forallb_forall in Hwf.
  apply (comma_loop_ok (p_clause n pol) Tk_clause SRBrace cls); [reflexivity | | | ].
  - intros [p x ns g b] r _. cbn [Tk_clause]. destruct p; reflexivity.
  - intros c r Hin Hr. apply clause_ok.
    + now apply Hwf.
    + now apply HC.
    + pose proof (in_list_sum csz c cls Hin). lia.
    + eapply stops_sep; [|exact Hr]. now right.
  - pose proof (length_le_sum csz cls csz_pos). lia.
Qed.

Lemma C2_new cls :
  forallb (wf_clause FCodata) cls = true ->
  (forall c, In c cls -> forall p x ns g body, c = FClause p x ns g body -> C4 body) ->
  C2 (FNew cls None).
Proof.
  intros Hwf HC n rest Hn _ Hp Hb. destruct n as [|n]; [lia|]. rewrite tsz_new in Hn.
  cbn [Tk_term chain]. replace (S n - 1 - 0) with n by lia. unfold is1; cbn [level Nat.leb].
  unfold bracketed. rewrite p_term2_new. rewrite clauses_ok by (auto; lia). reflexivity.
Qed.

Lemma C2_dtor s x targs args :
  level s <= 2 -> C2 s -> forallb wf_ty targs = true -> (forall a, In a args -> C4 a) ->
  C2 (FDtor s x targs args None).
Proof.
  intros Ls Hs Hty HC n rest Hn _ Hp Hb. rewrite tsz_dtor in Hn.
  cbn [Tk_term]. rewrite Hs by (auto; lia).
  pose proof (chain_lt s).
  destruct (n - 1 - chain s) as [|m] eqn:Em; [lia|].
  rewrite p_postfix_dtor.
  unfold is1. cbn [level Nat.leb chain]. replace (n - 1 - S (chain s)) with m by lia.
  destruct args as [|a args'].
  - cbn [map opt_bracketed]. rewrite p_opttyargs_ok by (auto; lia). cbn [obind].
    now apply dtor_tail_noargs.
  - remember (a :: args') as args eqn:E.
    assert (opt_bracketed SLPar SRPar (map Tk_term args) rest
            = TSym SLPar :: commas (map Tk_term args) (TSym SRPar :: rest)) as -> by (subst args; reflexivity).
    rewrite p_opttyargs_ok by (auto; lia). cbn [obind dtor_tail].
    rewrite args_ok by (auto; lia). reflexivity.
Qed.
Lemma C2_case s targs cls :
  level s <= 2 -> C2 s -> forallb wf_ty targs = true ->
  forallb (wf_clause FData) cls = true ->
  (forall c, In c cls -> forall p x ns g body, c = FClause p x ns g body -> C4 body) ->
  C2 (FCase s targs cls None).
Proof.
  intros Ls Hs Hty Hwf HC n rest Hn _ Hp Hb. rewrite tsz_case in Hn.
  cbn [Tk_term]. rewrite Hs by (auto; lia).
  pose proof (chain_lt s).
  destruct (n - 1 - chain s) as [|m] eqn:Em; [lia|].
  rewrite p_postfix_case.
  unfold is1. cbn [level Nat.leb chain]. replace (n - 1 - S (chain s)) with m by lia.
  unfold bracketed. rewrite p_opttyargs_ok by (auto; lia). cbn [obind].
  rewrite expect_hit. cbn [obind]. rewrite clauses_ok by (auto; lia). reflexivity.
Qed.

Lemma C3_op a o b : level a <= 1 -> level b <= 1 -> C2 a -> C1 b -> C3 (FOp a o b).
Proof.
  intros La Lb Ha Hb n rest Hn _ Hs. destruct n as [|n]; [lia|]. rewrite tsz_op in Hn.
  cbn [Tk_term]. destruct (Tk_thead a (TSym (sym_of_binop o) :: Tk_term b rest)) as [tl E]. rewrite E.
  rewrite p_term3_other by (apply t1_t2; now apply thead1). rewrite <- E.
  rewrite Ha; [| lia | lia | destruct o; reflexivity | destruct o; reflexivity].
  rewrite chain_level1 by assumption.
  destruct (n - 1 - 0) as [|m] eqn:Em; [lia|].
  rewrite p_postfix_stop by (destruct o; reflexivity). cbn [obind op_tail].
  rewrite binop_of_sym. unfold is1. apply Nat.leb_le in La. rewrite La.
  rewrite Hb; [reflexivity | lia | assumption | now apply stops_nolp].
Qed.

Lemma block_ok n t rest : C4 t -> 6 * tsz t + 4 <= n ->
  p_block n (TSym SLBrace :: Tk_term t (TSym SRBrace :: rest)) = Some (t, rest).
Proof.
  intros HC Hn. destruct n as [|n]; [lia|]. rewrite p_block_S.
  rewrite HC by (try reflexivity; lia). cbn [obind]. rewrite expect_hit. reflexivity.
Qed.
(* the zero-left production: `if 0 cmp t { .. } else { .. }` *)
Lemma p_term3_ifz n c r :
  p_term3 (S n) (TKw KIf :: TZCmp c :: r) =
  (do (a, r1) <- p_term n r; do (th, r2) <- p_block n r1;
   match r2 with
   | TKw KElse :: r3 => do (el, r4) <- p_block n r3; Some (FIfC (flip c) a None th el None, r4)
   | _ => None end).
Proof. reflexivity. Qed.
Lemma flip_flip c : flip (flip c) = c.
Proof. destruct c; reflexivity. Qed.
(* `-0` is the literal 0 *)
Lemma p_term_minus0 n r : p_term n (TSym SMinus :: TNum 0 :: r) = p_term n (TNum 0 :: r).
Proof. destruct n as [|[|[|[|n]]]]; reflexivity. Qed.
Lemma thead_starts_zero t : starts_zero t = true -> thead t = TNum 0.
Proof.
  induction t; cbn [starts_zero thead]; try discriminate; auto.
  destruct n; try discriminate. reflexivity.
Qed.
Lemma C3_if s a b th el :
  wf a = true -> C4 a -> match b with Some b' => C4 b' | None => True end -> C4 th -> C4 el ->
  C3 (FIfC s a b th el None).
Proof.
  intros Hwa Ha Hb Hth Hel n rest Hn _ Hs. destruct n as [|n]; [lia|]. rewrite tsz_if in Hn.
  cbn [Tk_term].
  destruct b as [b|].
  - match goal with |- p_term3 _ (TKw KIf :: Tk_term a ?k) = _ => destruct (Tk_thead a k) as [tl E]; rewrite E end.
    rewrite p_term3_if by (now apply thead4). rewrite <- E. clear E tl.
    rewrite Ha by (try reflexivity; lia). cbn [obind if_tail].
    destruct (starts_zero b) eqn:Zb.
    + (* the second operand is printed with a minus sign in front of its leading 0 *)
      match goal with |- context [p_term n (TSym SMinus :: Tk_term b ?k)] =>
        destruct (Tk_thead b k) as [tl E]; rewrite (thead_starts_zero b Zb) in E; rewrite E, p_term_minus0, <- E end.
      rewrite Hb by (try reflexivity; lia). cbn [obind].
      rewrite block_ok by (auto; lia). cbn [obind].
      rewrite block_ok by (auto; lia). reflexivity.
    + rewrite Hb by (try reflexivity; lia). cbn [obind].
      rewrite block_ok by (auto; lia). cbn [obind].
      rewrite block_ok by (auto; lia). reflexivity.
  - destruct (ends_zero a) eqn:Za.
    + (* zero on the left: the production stores the mirrored sort *)
      rewrite p_term3_ifz. rewrite Ha by (try reflexivity; lia). cbn [obind].
      rewrite block_ok by (auto; lia). cbn [obind].
      rewrite block_ok by (auto; lia). now rewrite flip_flip.
    + match goal with |- p_term3 _ (TKw KIf :: Tk_term a ?k) = _ => destruct (Tk_thead a k) as [tl E]; rewrite E end.
      rewrite p_term3_if by (now apply thead4). rewrite <- E. clear E tl.
      rewrite Ha by (try reflexivity; lia). cbn [obind if_tail].
      rewrite block_ok by (auto; lia). cbn [obind].
      rewrite block_ok by (auto; lia). reflexivity.
Qed.
Lemma C3_label l t : C4 t -> C3 (FLabel l t None).
Proof.
  intros Ht n rest Hn _ Hs. destruct n as [|n]; [lia|]. rewrite tsz_label in Hn.
  cbn [Tk_term]. rewrite p_term3_label. rewrite block_ok by (auto; lia). reflexivity.
Qed.
Lemma C3_goto l t : C4 t -> C3 (FGoto l t None).
Proof.
  intros Ht n rest Hn _ Hs. destruct n as [|n]; [lia|]. rewrite tsz_goto in Hn.
  cbn [Tk_term]. rewrite p_term3_goto. rewrite Ht by (try reflexivity; lia). cbn [obind].
  rewrite expect_hit. reflexivity.
Qed.
Lemma C3_exit a : C4 a -> C3 (FExit a None).
Proof.
  intros Ha n rest Hn _ Hs. destruct n as [|n]; [lia|]. rewrite tsz_exit in Hn.
  cbn [Tk_term]. rewrite p_term3_exit. rewrite Ha by (auto; lia). reflexivity.
Qed.
Lemma C3_let v ty b t : wf_ty ty = true -> level b <= 3 -> C3 b -> C4 t -> C3 (FLet v ty b t None).
Proof.
  intros Hty Lb Hb Ht n rest Hn _ Hs. destruct n as [|n]; [lia|]. rewrite tsz_let in Hn.
  cbn [Tk_term]. rewrite p_term3_let. rewrite p_ty_ok by (try reflexivity; auto; lia). cbn [obind].
  rewrite expect_hit. cbn [obind]. rewrite Hb by (try reflexivity; auto; lia). cbn [obind].
  rewrite expect_hit. cbn [obind]. rewrite Ht by (auto; lia). reflexivity.
Qed.
Lemma C4_print nl a next : C4 a -> C4 next -> C4 (FPrint nl a next None).
Proof.
  intros Ha Hn' n rest Hn Hs. destruct n as [|n]; [lia|]. rewrite tsz_print in Hn.
  cbn [Tk_term]. rewrite p_term_print. rewrite Ha by (try reflexivity; lia). cbn [obind].
  rewrite expect_hit. cbn [obind]. rewrite expect_hit. cbn [obind]. rewrite Hn' by (auto; lia). reflexivity.
Qed.

(* ---------- assembling: every parser-shaped term, at every level it belongs to ---------- *)
Lemma from1 t : wf t = true -> level t <= 1 -> C1 t -> Call t.
Proof.
  intros Hwf L H1. assert (H2 : C2 t) by (now apply lift12).
  assert (H3 : C3 t) by (apply lift23; auto; lia).
  assert (H4 : C4 t) by (apply lift34; auto; lia).
  repeat split; assumption.
Qed.
Lemma from2 t : wf t = true -> level t = 2 -> C2 t -> Call t.
Proof.
  intros Hwf L H2.
  assert (H3 : C3 t) by (apply lift23; auto; lia).
  assert (H4 : C4 t) by (apply lift34; auto; lia).
  repeat split; try assumption. intros n rest _ L1. lia.
Qed.
Lemma from3 t : wf t = true -> level t = 3 -> C3 t -> Call t.
Proof.
  intros Hwf L H3. assert (H4 : C4 t) by (apply lift34; auto; lia).
  repeat split; try assumption; intros n rest _ L1; lia.
Qed.
Lemma from4 t : level t = 4 -> C4 t -> Call t.
Proof. intros L H4. repeat split; try assumption; intros n rest _ L1; lia. Qed.

Lemma is_none_eq {X} (o : option X) : is_none o = true -> o = None.
Proof. destruct o; [discriminate|reflexivity]. Qed.

Lemma term_all : forall k t, tsz t <= k -> wf t = true -> Call t.
Proof.
  induction k as [|k IH]; intros t Hk Hwf. { pose proof (tsz_pos t). lia. }
  assert (IH4 : forall u, tsz u <= k -> wf u = true -> C4 u) by (intros u H1 H2; apply (IH u H1 H2)).
  assert (IHargs : forall args, list_sum (map tsz args) <= k -> forallb wf args = true ->
                               forall a, In a args -> C4 a).
  { intros args Hs Hw a Hin. rewrite forallb_forall in Hw. apply IH4; [|now apply Hw].
    pose proof (in_list_sum tsz a args Hin). lia. }
  assert (IHcls : forall pol cls, list_sum (map csz cls) <= k -> forallb (wf_clause pol) cls = true ->
                  forall c, In c cls -> forall p x ns g body, c = FClause p x ns g body -> C4 body).
  { intros pol cls Hs Hw c Hin p x ns g body ->. rewrite forallb_forall in Hw. specialize (Hw _ Hin).
    cbn [wf_clause] in Hw. rewrite !andb_true_iff in Hw. destruct Hw as (_ & Hb).
    pose proof (in_list_sum csz _ cls Hin) as Hc. rewrite csz_clause in Hc.
    apply IH4; [lia | assumption]. }
  destruct t as [v ty chi | z | a o b | s a b th el ty | nl a next ty | v vty bound body ty | f args ret
                 | x args ty | scrut x targs args ty | scrut targs cls ty | cls ty | l u ty | l u ty | a ty | u].
  - (* FVar *) cbn [wf] in Hwf. rewrite !andb_true_iff in Hwf. destruct Hwf as ((Hv & Hty) & Hchi).
    apply is_none_eq in Hty, Hchi. subst. apply from1; [cbn [wf]; now rewrite Hv | cbn; lia | apply C1_var].
  - (* FLit *) apply from1; [assumption | cbn; lia | now apply C1_lit].
  - (* FOp *) pose proof Hwf as Hwf0. cbn [wf] in Hwf. rewrite !andb_true_iff in Hwf.
    destruct Hwf as (((Ha & Hb) & La) & Lb). apply Nat.leb_le in La, Lb. rewrite tsz_op in Hk.
    apply from3; [assumption | reflexivity |].
    apply C3_op; auto.
    + apply (IH a); [lia | assumption].
    + apply (IH b); [lia | assumption].
  - (* FIfC *) pose proof Hwf as Hwf0. cbn [wf] in Hwf. rewrite !andb_true_iff in Hwf.
    destruct Hwf as ((((Ha & Hb) & Hth) & Hel) & Hty). apply is_none_eq in Hty. subst ty.
    rewrite tsz_if in Hk. apply from3; [assumption | reflexivity |].
    apply C3_if; auto.
    + apply IH4; [lia | assumption].
    + destruct b as [b|]; [|exact I]. apply IH4; [lia | assumption].
    + apply IH4; [lia | assumption].
    + apply IH4; [lia | assumption].
  - (* FPrint *) cbn [wf] in Hwf. rewrite !andb_true_iff in Hwf. destruct Hwf as ((Ha & Hn) & Hty).
    apply is_none_eq in Hty. subst ty. rewrite tsz_print in Hk.
    apply from4; [reflexivity|]. apply C4_print; apply IH4; auto; lia.
  - (* FLet *) pose proof Hwf as Hwf0. cbn [wf] in Hwf. rewrite !andb_true_iff in Hwf.
    destruct Hwf as (((((Hv & Hvty) & Hb) & Lb) & Ht) & Hty). apply is_none_eq in Hty. subst ty.
    apply Nat.leb_le in Lb. rewrite tsz_let in Hk.
    apply from3; [assumption | reflexivity |].
    apply C3_let; auto.
    + apply (IH bound); [lia | assumption].
    + apply IH4; [lia | assumption].
  - (* FCall *) pose proof Hwf as Hwf0. cbn [wf] in Hwf. rewrite !andb_true_iff in Hwf.
    destruct Hwf as ((Hf & Hargs) & Hty). apply is_none_eq in Hty. subst ret. rewrite tsz_call in Hk.
    apply from1; [assumption | cbn; lia |]. apply C1_call. apply IHargs; [lia | assumption].
  - (* FCtor *) pose proof Hwf as Hwf0. cbn [wf] in Hwf. rewrite !andb_true_iff in Hwf.
    destruct Hwf as ((Hf & Hargs) & Hty). apply is_none_eq in Hty. subst ty. rewrite tsz_ctor in Hk.
    apply from2; [assumption | reflexivity |]. apply C2_ctor. apply IHargs; [lia | assumption].
  - (* FDtor *) pose proof Hwf as Hwf0. apply wf_dtor_inv in Hwf.
    destruct Hwf as (Hs & Ls & Hx & Hty & Hargs & ->). rewrite tsz_dtor in Hk.
    apply from2; [assumption | reflexivity |].
    apply C2_dtor; auto.
    + apply (IH scrut); [lia | assumption].
    + apply IHargs; [lia | assumption].
  - (* FCase *) pose proof Hwf as Hwf0. apply wf_case_inv in Hwf.
    destruct Hwf as (Hs & Ls & Hty & Hcls & ->). rewrite tsz_case in Hk.
    apply from2; [assumption | reflexivity |].
    apply C2_case; auto.
    + apply (IH scrut); [lia | assumption].
    + apply (IHcls FData); [lia | assumption].
  - (* FNew *) pose proof Hwf as Hwf0. cbn [wf] in Hwf. rewrite !andb_true_iff in Hwf.
    destruct Hwf as (Hcls & Hty). apply is_none_eq in Hty. subst ty. rewrite tsz_new in Hk.
    apply from2; [assumption | reflexivity |].
    apply C2_new; auto. apply (IHcls FCodata); [lia | assumption].
  - (* FLabel *) pose proof Hwf as Hwf0. cbn [wf] in Hwf. rewrite !andb_true_iff in Hwf.
    destruct Hwf as ((Hl & Ht) & Hty). apply is_none_eq in Hty. subst ty. rewrite tsz_label in Hk.
    apply from3; [assumption | reflexivity |]. apply C3_label. apply IH4; [lia | assumption].
  - (* FGoto *) pose proof Hwf as Hwf0. cbn [wf] in Hwf. rewrite !andb_true_iff in Hwf.
    destruct Hwf as ((Hl & Ht) & Hty). apply is_none_eq in Hty. subst ty. rewrite tsz_goto in Hk.
    apply from3; [assumption | reflexivity |]. apply C3_goto. apply IH4; [lia | assumption].
  - (* FExit *) pose proof Hwf as Hwf0. cbn [wf] in Hwf. rewrite !andb_true_iff in Hwf.
    destruct Hwf as (Ha & Hty). apply is_none_eq in Hty. subst ty. rewrite tsz_exit in Hk.
    apply from3; [assumption | reflexivity |]. apply C3_exit. apply IH4; [lia | assumption].
  - (* FParen *) pose proof Hwf as Hwf0. cbn [wf] in Hwf. rewrite tsz_paren in Hk.
    apply from1; [assumption | cbn; lia |]. apply C1_paren. apply IH4; [lia | assumption].
Qed.

Theorem term_roundtrip t n rest :
  wf t = true -> 6 * tsz t + 3 <= n -> stops rest = true -> p_term n (Tk_term t rest) = Some (t, rest).
Proof. intros Hwf Hn Hs. destruct (term_all (tsz t) t (le_n _) Hwf) as (_ & _ & _ & H4). now apply H4. Qed.

(* ================= declarations and programs ================= *)
Definition sigsz_c (s : fctorsig) : nat := S (ctxsz (fctargs s)).
Definition sigsz_d (s : fdtorsig) : nat := S (ctxsz (fdtargs s) + tysz (fdtcont s)).
Definition declsz (d : fdecl) : nat :=
  match d with
  | FDDef d => S (ctxsz (fdctx d) + tysz (fdret d) + tsz (fdbody d))
  | FDData d => S (List.length (fdaparams d) + list_sum (map sigsz_c (fdactors d)))
  | FDCodata d => S (List.length (fcoparams d) + list_sum (map sigsz_d (fcodtors d)))
  end.

Lemma p_ctorsig_ok n s r :
  upper_ok (fctname s) && wf_ctx (fctargs s) = true -> sigsz_c s <= n -> head_is SLPar r = false ->
  p_ctorsig n (Tk_ctorsig s r) = Some (s, r).
Proof.
  intros Hwf Hn Hr. apply andb_prop in Hwf. destruct Hwf as [_ Hg]. destruct s as [x g]. unfold sigsz_c in Hn.
  cbn [fctname fctargs] in *. unfold p_ctorsig, Tk_ctorsig. cbn [p_upper obind fctname fctargs].
  rewrite p_sigargs_ok by (auto; lia). reflexivity.
Qed.
Lemma p_dtorsig_ok n s r :
  lower_ok (fdtname s) && wf_ctx (fdtargs s) && wf_ty (fdtcont s) = true -> sigsz_d s < n ->
  head_is SLBrack r = false ->
  p_dtorsig n (Tk_dtorsig s r) = Some (s, r).
Proof.
  intros Hwf Hn Hr. rewrite !andb_true_iff in Hwf. destruct Hwf as ((_ & Hg) & Hty). destruct s as [x g t].
  unfold sigsz_d in Hn. cbn [fdtname fdtargs fdtcont] in *. unfold p_dtorsig, Tk_dtorsig. cbn [p_lower obind fdtname fdtargs fdtcont].
  rewrite p_sigargs_ok by (try reflexivity; auto; lia). cbn [obind]. rewrite expect_hit. cbn [obind].
  rewrite p_ty_ok by (auto; lia). reflexivity.
Qed.

Lemma p_decl_ok n d rest :
  wf_decl d = true -> 6 * declsz d + 8 <= n -> p_decl n (Tk_decl d rest) = Some (d, rest).
Proof.
  intros Hwf Hn. destruct d as [d|d|d]; cbn [wf_decl declsz] in *.
  - (* data *) destruct d as [x ps cs]. cbn [fdaname fdaparams fdactors] in *.
    rewrite !andb_true_iff in Hwf. destruct Hwf as ((_ & _) & Hcs). rewrite forallb_forall in Hcs.
    unfold Tk_decl. cbn [p_decl fdaname fdaparams fdactors]. unfold bracketed.
    rewrite p_typarams_ok by (try reflexivity; lia). cbn [obind]. rewrite expect_hit. cbn [obind].
    rewrite (comma_loop_ok (p_ctorsig n) Tk_ctorsig SRBrace cs); [reflexivity | reflexivity | | | ].
    + intros s r _. reflexivity.
    + intros s r Hin Hr. apply p_ctorsig_ok; [now apply Hcs | | ].
      * pose proof (in_list_sum sigsz_c s cs Hin). lia.
      * apply stops_nolp. eapply stops_sep; [|exact Hr]. now right.
    + pose proof (length_le_sum sigsz_c cs). assert (forall x, 1 <= sigsz_c x) by (intros; unfold sigsz_c; lia).
      specialize (H H0). lia.
  - (* codata *) destruct d as [x ps ds]. cbn [fcoaname fcoparams fcodtors] in *.
    rewrite !andb_true_iff in Hwf. destruct Hwf as ((_ & _) & Hds). rewrite forallb_forall in Hds.
    unfold Tk_decl. cbn [p_decl fcoaname fcoparams fcodtors]. unfold bracketed.
    rewrite p_typarams_ok by (try reflexivity; lia). cbn [obind]. rewrite expect_hit. cbn [obind].
    rewrite (comma_loop_ok (p_dtorsig n) Tk_dtorsig SRBrace ds); [reflexivity | reflexivity | | | ].
    + intros s r _. reflexivity.
    + intros s r Hin Hr. apply p_dtorsig_ok; [now apply Hds | | ].
      * pose proof (in_list_sum sigsz_d s ds Hin). lia.
      * apply stops_nolb. eapply stops_sep; [|exact Hr]. now right.
    + pose proof (length_le_sum sigsz_d ds). assert (forall x, 1 <= sigsz_d x) by (intros; unfold sigsz_d; lia).
      specialize (H H0). lia.
  - (* def *) destruct d as [f g ret body]. cbn [fdname fdctx fdret fdbody] in *.
    rewrite !andb_true_iff in Hwf. destruct Hwf as (((_ & Hg) & Hret) & Hbody).
    unfold Tk_decl. cbn [p_decl fdname fdctx fdret fdbody].
    rewrite p_ctx_ok by (auto; lia). cbn [obind]. rewrite expect_hit. cbn [obind].
    rewrite p_ty_ok by (try reflexivity; auto; lia). cbn [obind].
    pose proof (term_all (tsz body) body (le_n _) Hbody) as (_ & _ & _ & H4).
    rewrite block_ok by (auto; lia). reflexivity.
Qed.

Definition progsz (ds : list fdecl) : nat := list_sum (map declsz ds).
Lemma Tk_decl_cons d k : exists h tl, Tk_decl d k = h :: tl.
Proof. destruct d; unfold Tk_decl; eauto. Qed.
Lemma p_decls_ok ds : forall m n, forallb wf_decl ds = true -> List.length ds < m -> 6 * progsz ds + 8 <= n ->
  p_decls m n (Tk_decls ds []) = Some ds.
Proof.
  induction ds as [|d ds IH]; intros m n Hwf Hm Hn.
  - destruct m; [cbn in Hm; lia|]. reflexivity.
  - destruct m; [cbn in Hm; lia|]. cbn [forallb] in Hwf. apply andb_prop in Hwf. destruct Hwf as [Hd Hds].
    assert (Hp : progsz (d :: ds) = declsz d + progsz ds) by reflexivity. rewrite Hp in Hn.
    cbn [Tk_decls]. destruct (Tk_decl_cons d (Tk_decls ds [])) as (h & tl & E).
    cbn [p_decls]. rewrite E. rewrite <- E.
    rewrite p_decl_ok by (auto; lia). cbn [obind].
    rewrite IH by (auto; cbn in Hm; lia). reflexivity.
Qed.

(* ---------- the printed tree has at least as many tokens as its size ---------- *)
Lemma list_sum_cons a l : list_sum (a :: l) = a + list_sum l.
Proof. reflexivity. Qed.
Lemma commas_len {X} (g : X -> nat) (F : X -> tcont) (xs : list X) :
  (forall x, In x xs -> forall k, g x + List.length k <= List.length (F x k)) ->
  forall k, list_sum (map g xs) + List.length k <= List.length (commas (map F xs) k).
Proof.
  induction xs as [|x xs IH]; intros H k; [cbn; lia|].
  assert (IH' := IH (fun y Hy => H y (or_intror Hy))).
  pose proof (H x (or_introl eq_refl)) as Hx.
  destruct xs as [|y ys].
  - cbn [map commas]. rewrite list_sum_cons. cbn [list_sum fold_right]. specialize (Hx k). lia.
  - change (commas (map F (x :: y :: ys)) k) with (F x (TSym SComma :: commas (map F (y :: ys)) k)).
    specialize (Hx (TSym SComma :: commas (map F (y :: ys)) k)). specialize (IH' k).
    cbn [map] in *. rewrite !list_sum_cons in *. cbn [List.length] in Hx. lia.
Qed.
Lemma opt_bracketed_len {X} (g : X -> nat) (F : X -> tcont) l r (xs : list X) :
  (forall x, In x xs -> forall k, g x + List.length k <= List.length (F x k)) ->
  forall k, list_sum (map g xs) + List.length k <= List.length (opt_bracketed l r (map F xs) k).
Proof.
  intros H k. destruct xs as [|x xs]; [cbn; lia|].
  change (opt_bracketed l r (map F (x :: xs)) k) with (TSym l :: commas (map F (x :: xs)) (TSym r :: k)).
  pose proof (commas_len g F (x :: xs) H (TSym r :: k)). cbn [List.length] in *. lia.
Qed.
Lemma bracketed_len {X} (g : X -> nat) (F : X -> tcont) l r (xs : list X) :
  (forall x, In x xs -> forall k, g x + List.length k <= List.length (F x k)) ->
  forall k, list_sum (map g xs) + List.length k <= List.length (bracketed l r (map F xs) k).
Proof.
  intros H k. unfold bracketed.
  pose proof (commas_len g F xs H (TSym r :: k)). cbn [List.length] in *. lia.
Qed.

Lemma Tk_ty_decl n l k : Tk_ty (FDecl n l) k = TUpper n :: opt_bracketed SLBrack SRBrack (map Tk_ty l) k.
Proof. reflexivity. Qed.
Lemma Tk_call f args r k : Tk_term (FCall f args r) k = TLower f :: bracketed SLPar SRPar (map Tk_term args) k.
Proof. reflexivity. Qed.
Lemma Tk_ctor x args r k : Tk_term (FCtor x args r) k = TUpper x :: opt_bracketed SLPar SRPar (map Tk_term args) k.
Proof. reflexivity. Qed.
Lemma Tk_dtor s x targs args ty k : Tk_term (FDtor s x targs args ty) k =
  Tk_term s (TSym SDot :: TLower x :: Tk_tyargs targs (opt_bracketed SLPar SRPar (map Tk_term args) k)).
Proof. reflexivity. Qed.
Lemma Tk_case s targs cls ty k : Tk_term (FCase s targs cls ty) k =
  Tk_term s (TSym SDot :: TKw KCase :: Tk_tyargs targs (bracketed SLBrace SRBrace (map Tk_clause cls) k)).
Proof. reflexivity. Qed.
Lemma Tk_new cls ty k : Tk_term (FNew cls ty) k = TKw KNew :: bracketed SLBrace SRBrace (map Tk_clause cls) k.
Proof. reflexivity. Qed.
Lemma ty_len : forall m t, tysz t <= m -> forall k, tysz t + List.length k <= List.length (Tk_ty t k).
Proof.
  induction m as [|m IH]; intros t Hm k. { pose proof (tysz_pos t). lia. }
  destruct t as [|x args]; [cbn; lia|]. rewrite tysz_decl in *. rewrite Tk_ty_decl. cbn [List.length].
  pose proof (opt_bracketed_len tysz Tk_ty SLBrack SRBrack args) as H.
  assert (forall x, In x args -> forall k, tysz x + List.length k <= List.length (Tk_ty x k)) as H0.
  { intros y Hy k'. apply IH. pose proof (in_list_sum tysz y args Hy). lia. }
  specialize (H H0 k). lia.
Qed.
Lemma ty_len' t k : tysz t + List.length k <= List.length (Tk_ty t k).
Proof. now apply (ty_len (tysz t)). Qed.
Lemma tyargs_len l k : list_sum (map tysz l) + List.length k <= List.length (Tk_tyargs l k).
Proof. apply opt_bracketed_len. intros; apply ty_len'. Qed.
Lemma names_len l k : List.length l + List.length k <= List.length (Tk_names l k).
Proof.
  unfold Tk_names. pose proof (opt_bracketed_len (fun _ : string => 1) Tk_lower SLPar SRPar l) as H.
  assert (list_sum (map (fun _ : string => 1) l) = List.length l) as E by (clear; induction l as [|a l IHl]; [reflexivity | cbn [map]; rewrite list_sum_cons, IHl; reflexivity]).
  rewrite <- E. apply H. intros; cbn; lia.
Qed.
Lemma typarams_len l k : List.length l + List.length k <= List.length (Tk_typarams l k).
Proof.
  unfold Tk_typarams. pose proof (opt_bracketed_len (fun _ : string => 1) Tk_upper SLBrack SRBrack l) as H.
  assert (list_sum (map (fun _ : string => 1) l) = List.length l) as E by (clear; induction l as [|a l IHl]; [reflexivity | cbn [map]; rewrite list_sum_cons, IHl; reflexivity]).
  rewrite <- E. apply H. intros; cbn; lia.
Qed.
Lemma binding_len b k : S (tysz (fbty b)) + List.length k <= List.length (Tk_binding b k).
Proof. unfold Tk_binding. cbn [List.length]. pose proof (ty_len' (fbty b) k). lia. Qed.

Lemma term_len : forall m t, tsz t <= m -> forall k, tsz t + List.length k <= List.length (Tk_term t k).
Proof.
  induction m as [|m IH]; intros t Hm k. { pose proof (tsz_pos t). lia. }
  assert (IHargs : forall args, list_sum (map tsz args) <= m ->
            forall x, In x args -> forall k, tsz x + List.length k <= List.length (Tk_term x k)).
  { intros args Hs x Hx k'. apply IH. pose proof (in_list_sum tsz x args Hx). lia. }
  assert (IHcls : forall cls, list_sum (map csz cls) <= m ->
            forall c, In c cls -> forall k, csz c + List.length k <= List.length (Tk_clause c k)).
  { intros cls Hs c Hc k'. pose proof (in_list_sum csz c cls Hc) as Hle. destruct c as [p x ns g body].
    rewrite csz_clause in *. cbn [Tk_clause List.length].
    pose proof (names_len ns (TSym SArrow :: Tk_term body k')) as H1. cbn [List.length] in H1.
    pose proof (IH body ltac:(lia) k'). lia. }
  destruct t as [v ty chi | z | a o b | s a b th el ty | nl a next ty | v vty bound body ty | f args ret
                 | x args ty | scrut x targs args ty | scrut targs cls ty | cls ty | l u ty | l u ty | a ty | u].
  - cbn; lia.
  - cbn [Tk_term]. unfold Tk_lit. destruct (z <? 0)%Z; cbn; lia.
  - rewrite tsz_op in *. cbn [Tk_term].
    pose proof (IH a ltac:(lia) (TSym (sym_of_binop o) :: Tk_term b k)) as H1. cbn [List.length] in H1.
    pose proof (IH b ltac:(lia) k). lia.
  - rewrite tsz_if in *.
    pose proof (IH el ltac:(lia) (TSym SRBrace :: k)) as H4.
    pose proof (IH th ltac:(lia) (TSym SRBrace :: TKw KElse :: TSym SLBrace :: Tk_term el (TSym SRBrace :: k))) as H3.
    set (br := TSym SLBrace :: Tk_term th (TSym SRBrace :: TKw KElse :: TSym SLBrace :: Tk_term el (TSym SRBrace :: k))).
    assert (Hbr : S (S (S (tsz th + tsz el + List.length k))) <= List.length br) by (subst br; cbn [List.length] in *; lia).
    cbn [Tk_term]. fold br.
    destruct b as [b|].
    + pose proof (IH b ltac:(lia) br) as H2.
      destruct (starts_zero b).
      * pose proof (IH a ltac:(lia) (TSym (SCmp s) :: TSym SMinus :: Tk_term b br)) as H1. cbn [List.length] in *. lia.
      * pose proof (IH a ltac:(lia) (TSym (SCmp s) :: Tk_term b br)) as H1. cbn [List.length] in *. lia.
    + destruct (ends_zero a).
      * pose proof (IH a ltac:(lia) br) as H1. cbn [List.length] in *. lia.
      * pose proof (IH a ltac:(lia) (TCmpZ s :: br)) as H1. cbn [List.length] in *. lia.
  - rewrite tsz_print in *.
    pose proof (IH next ltac:(lia) k) as H2.
    pose proof (IH a ltac:(lia) (TSym SRPar :: TSym SSemi :: Tk_term next k)) as H1.
    cbn [Tk_term List.length] in *. lia.
  - rewrite tsz_let in *.
    pose proof (IH body ltac:(lia) k) as H3.
    pose proof (IH bound ltac:(lia) (TSym SSemi :: Tk_term body k)) as H2.
    pose proof (ty_len' vty (TSym SAssign :: Tk_term bound (TSym SSemi :: Tk_term body k))) as H1.
    cbn [Tk_term List.length] in *. lia.
  - rewrite tsz_call in *. rewrite Tk_call. cbn [List.length].
    pose proof (bracketed_len tsz Tk_term SLPar SRPar args (IHargs args ltac:(lia)) k). lia.
  - rewrite tsz_ctor in *. rewrite Tk_ctor. cbn [List.length].
    pose proof (opt_bracketed_len tsz Tk_term SLPar SRPar args (IHargs args ltac:(lia)) k). lia.
  - rewrite tsz_dtor in *. rewrite Tk_dtor.
    pose proof (opt_bracketed_len tsz Tk_term SLPar SRPar args (IHargs args ltac:(lia)) k) as H3.
    pose proof (tyargs_len targs (opt_bracketed SLPar SRPar (map Tk_term args) k)) as H2.
    pose proof (IH scrut ltac:(lia) (TSym SDot :: TLower x :: Tk_tyargs targs (opt_bracketed SLPar SRPar (map Tk_term args) k))) as H1.
    cbn [List.length] in *. lia.
  - rewrite tsz_case in *. rewrite Tk_case.
    pose proof (bracketed_len csz Tk_clause SLBrace SRBrace cls (IHcls cls ltac:(lia)) k) as H3.
    pose proof (tyargs_len targs (bracketed SLBrace SRBrace (map Tk_clause cls) k)) as H2.
    pose proof (IH scrut ltac:(lia) (TSym SDot :: TKw KCase :: Tk_tyargs targs (bracketed SLBrace SRBrace (map Tk_clause cls) k))) as H1.
    cbn [List.length] in *. lia.
  - rewrite tsz_new in *. rewrite Tk_new. cbn [List.length].
    pose proof (bracketed_len csz Tk_clause SLBrace SRBrace cls (IHcls cls ltac:(lia)) k). lia.
  - rewrite tsz_label in *. cbn [Tk_term List.length].
    pose proof (IH u ltac:(lia) (TSym SRBrace :: k)) as H1. cbn [List.length] in H1. lia.
  - rewrite tsz_goto in *. cbn [Tk_term List.length].
    pose proof (IH u ltac:(lia) (TSym SRPar :: k)) as H1. cbn [List.length] in H1. lia.
  - rewrite tsz_exit in *. cbn [Tk_term List.length]. pose proof (IH a ltac:(lia) k). lia.
  - rewrite tsz_paren in *. cbn [Tk_term List.length].
    pose proof (IH u ltac:(lia) (TSym SRPar :: k)) as H1. cbn [List.length] in H1. lia.
Qed.
Lemma term_len' t k : tsz t + List.length k <= List.length (Tk_term t k).
Proof. now apply (term_len (tsz t)). Qed.

Lemma ctx_len g k : ctxsz g + List.length k <= List.length (Tk_ctx g k).
Proof. unfold Tk_ctx, ctxsz. apply bracketed_len. intros; apply binding_len. Qed.
Lemma sigargs_len g k : ctxsz g + List.length k <= List.length (Tk_sigargs g k).
Proof. unfold Tk_sigargs, ctxsz. apply opt_bracketed_len. intros; apply binding_len. Qed.
Lemma decl_len d k : declsz d + List.length k <= List.length (Tk_decl d k).
Proof.
  destruct d as [d|d|d]; unfold Tk_decl; cbn [declsz List.length].
  - pose proof (bracketed_len sigsz_c Tk_ctorsig SLBrace SRBrace (fdactors d)) as H.
    assert (forall x, In x (fdactors d) -> forall k, sigsz_c x + List.length k <= List.length (Tk_ctorsig x k)) as H0.
    { intros s _ k'. unfold sigsz_c, Tk_ctorsig. cbn [List.length]. pose proof (sigargs_len (fctargs s) k'). lia. }
    specialize (H H0 k).
    pose proof (typarams_len (fdaparams d) (bracketed SLBrace SRBrace (map Tk_ctorsig (fdactors d)) k)). lia.
  - pose proof (bracketed_len sigsz_d Tk_dtorsig SLBrace SRBrace (fcodtors d)) as H.
    assert (forall x, In x (fcodtors d) -> forall k, sigsz_d x + List.length k <= List.length (Tk_dtorsig x k)) as H0.
    { intros s _ k'. unfold sigsz_d, Tk_dtorsig. cbn [List.length].
      pose proof (sigargs_len (fdtargs s) (TSym SColon :: Tk_ty (fdtcont s) k')) as H1. cbn [List.length] in H1.
      pose proof (ty_len' (fdtcont s) k'). lia. }
    specialize (H H0 k).
    pose proof (typarams_len (fcoparams d) (bracketed SLBrace SRBrace (map Tk_dtorsig (fcodtors d)) k)). lia.
  - pose proof (term_len' (fdbody d) (TSym SRBrace :: k)) as H3. cbn [List.length] in H3.
    pose proof (ty_len' (fdret d) (TSym SLBrace :: Tk_term (fdbody d) (TSym SRBrace :: k))) as H2. cbn [List.length] in H2.
    pose proof (ctx_len (fdctx d) (TSym SColon :: Tk_ty (fdret d) (TSym SLBrace :: Tk_term (fdbody d) (TSym SRBrace :: k)))) as H1.
    cbn [List.length] in H1. lia.
Qed.
Lemma decls_len ds k : progsz ds + List.length k <= List.length (Tk_decls ds k).
Proof.
  induction ds as [|d ds IH]; [cbn; lia|].
  assert (Hp : progsz (d :: ds) = declsz d + progsz ds) by reflexivity. rewrite Hp. cbn [Tk_decls].
  pose proof (decl_len d (Tk_decls ds k)). lia.
Qed.
Lemma declsz_pos d : 1 <= declsz d.
Proof. destruct d; cbn; lia. Qed.

(* The parser model reads the token stream of every parser-shaped program back to the same tree. *)
Theorem roundtrip_tokens p : wf_prog p = true -> parse (T_prog p) = Some p.
Proof.
  intros Hwf. destruct p as [ds]. unfold wf_prog, T_prog, parse in *. cbn [fpdecls] in *.
  pose proof (decls_len ds []) as Hl. cbn [List.length] in Hl.
  pose proof (length_le_sum declsz ds declsz_pos) as Hn. fold (progsz ds) in Hn.
  rewrite p_decls_ok; [reflexivity | assumption | lia | unfold fuel_of; lia].
Qed.
