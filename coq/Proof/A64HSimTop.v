(* C07, forward simulation of the AArch64 code generator for ALL statement forms: the program-level theorem.
   Port of Proof/X86HSimTop.v on the skeleton of Proof/A64SimTop.v / A64SimTopC.v: image layout from `asm_wf`
   (`mk_image_layout`), `img_ok`, the forward property `fwd_ok` of the image (the code ends with the RET of `cleanup`:
   Proof/A64HLayout.v), the prologue with the allocator registers (`hprologue_ok`), the instrumented machine's run erases
   to `run_linear` (Proof/AxHeapErase.v), the invariant `hinv` initially, then `hsim_exec`.
   Hypotheses beyond the x86-64 theorem: `lits_i64`, `args_i64` (as for the fragments: AArch64's immediates, SDIV/MSUB and
   NZCV conditions are exact on 64-bit values) and `tags_i64` (a type has fewer than 2^61 constructors / destructors: the
   tag word 4k of a Let is materialised with MOVZ/MOVK; the Rust code computes `4 * k` in i64). *)
From Coq Require Import List ZArith NArith String Bool Lia FMapPositive Permutation.
From SCC Require Import Base.Sexp Lang.AxSyn Sem.AxSem Sem.AxHeap Model.ParMoves Model.Backend Model.A64 Sem.A64Sem
     Model.Linearize Model.LinCheck Generated.Constants Proof.LinBasics Proof.LinTyping Proof.LinMachine
     Proof.A64State Proof.A64ImmHw Proof.A64Imm Proof.A64Sel Proof.A64PM Proof.A64Exec
     Proof.A64MemSubst Proof.SubstGraph Proof.SubstBackends Proof.A64Subst Proof.A64Wf Proof.A64Print Proof.A64Entry
     Proof.A64SimRel Proof.A64SimStmt Proof.A64SimAddr Proof.A64SimClo Proof.A64SimProg Proof.A64SimProgC Proof.A64SimTop Proof.A64SimTopC
     Proof.HRep Proof.A64Mem Proof.A64MemOps Proof.A64HSimRel Proof.A64HSimStmt Proof.A64HConv Proof.A64HSimStore Proof.A64HSimLoad
     Proof.A64HSimSubst Proof.A64HLayout Proof.A64HSimHeapA Proof.X86HAnn Proof.A64HSimHeapB Proof.A64HSimHeapC Proof.A64HSimProgA Proof.A64HSimProg.
From SCC Require Import Sem.A64Wf.
From SCC Require Model.Heap Proof.HeapMore Proof.HeapTrace Proof.HeapRep Proof.AxHeapErase Proof.AxHeapTyping Proof.AxHeapSafe
     Proof.X86HeapDefs Proof.X86HFrame Proof.X86HSimProgA Proof.X86HSimTop.
Import Sem.AxHeap.
Import ListNotations.
Open Scope Z_scope.
Open Scope list_scope.

(* the frontier of every reachable configuration of the instrumented machine leaves room for the reserved block in the
   driver's 32 MiB buffer (the same bound as for x86-64: the two ISA models place the heap identically) *)
Definition heap_fits (p : prog) (args : list Z) : Prop :=
  forall tr c, hreach HEAP_BASE p args tr c -> Heap.frontier (hc_heap c) + 64 <= HEAP_BASE + HEAP_SIZE.
Lemma heap_fits_x86 p args : heap_fits p args <-> X86HSimTop.heap_fits p args.
Proof. split; intros H; exact H. Qed.

(* every type has fewer than 2^61 constructors / destructors *)
Definition tags_i64 (p : prog) : bool :=
  forallb (fun d => Z.of_nat (List.length (txtors d)) <? 2305843009213693952) (ptypes p).

Theorem a64_codegen_simulates p lc cs n lc' args fuel o :
  lin_check_prog p = true -> ann_check_prog p = true -> AxHeapTyping.entry_ext p = true ->
  plain_names p = true -> plain_types p = true -> lits_i64 p = true -> tags_i64 p = true ->
  a64_compile p lc = Ok (cs, n, lc') -> asm_wf cs = None -> code_small cs = true ->
  List.length args = n -> args_i64 args = true -> heap_fits p args ->
  run_linear fuel p args = o -> snd o <> OOutOfFuel ->
  exists outer inner, fst (run_a64 outer inner cs args) = o.
Proof.
  intros LIN ANN EI PL PLTY LITS TG XC WF SM.
  unfold a64_compile, a64_compile_with in XC.
  destruct (compile (a64_backend_with (fun _ => [])) p lc) as [[[is n0] lc0]|] eqn:CP; cbn [rbind] in XC; [|discriminate].
  destruct (into_aarch64_routine is n0) as [r|] eqn:RT; cbn [rbind] in XC; [|discriminate].
  inversion XC; subst r n0 lc0; clear XC.
  change (a64_backend_with (fun _ => [])) with a64_backend in CP.
  pose proof (routine_image_fwd _ _ _ RT) as FWD.
  unfold compile in CP. destruct (pdefs p) as [|d0 rest] eqn:PD; [discriminate|].
  destruct (translate a64_backend (ptypes p) (d0 :: rest) lc) as [[is' lc1]|] eqn:TR; cbn [rbind] in CP; [|discriminate].
  cbn in CP. inversion CP; subst is n lc'; clear CP.
  unfold into_aarch64_routine in RT. destruct (setup (List.length (dctx d0))) as [su|] eqn:SU; cbn [rbind] in RT; [|discriminate].
  inversion RT; subst cs; clear RT.
  intros NARGS AI FITS RUN G.
  assert (LEN : List.length args = List.length (dctx d0)) by exact NARGS.
  destruct (bind_total (vars (dctx d0)) (map VInt args)) as (e0 & EE); [unfold vars; rewrite !map_length; auto|].
  assert (LE7 : (List.length args <= 7)%nat).
  { rewrite LEN. destruct (Nat.le_gt_cases (List.length (dctx d0)) 7) as [L|L]; [exact L|]. exfalso.
    unfold setup in SU. destruct (List.length (dctx d0)) as [|k]; [lia|]. cbn [move_arguments] in SU.
    destruct (Nat.ltb_spec 7 (S k)); [discriminate|lia]. }
  set (cs := preamble ++ su ++ is' ++ cleanup) in *.
  set (im := mk_image cs).
  destruct (mk_image_layout cs WF) as [CA LA]. fold im in CA, LA, FWD.
  assert (IMG : img_ok im) by apply mk_image_ok.
  assert (SMALL : forall pc a, PM.find pc (addr_of im) = Some a -> a < 4611686018427387904) by (apply mk_image_small; exact SM).
  assert (PLT : forall d, In d (ptypes p) -> hash_name (label_of_type_name (show_ident (tname d))) = false).
  { unfold plain_types in PLTY. rewrite forallb_forall in PLTY. intros d Hd. specialize (PLTY d Hd).
    destruct (hash_name _); [discriminate|reflexivity]. }
  assert (TAGS : forall d, In d (ptypes p) -> Z.of_nat (List.length (txtors d)) < 2305843009213693952).
  { unfold tags_i64 in TG. rewrite forallb_forall in TG. intros d Hd. apply Z.ltb_lt. exact (TG d Hd). }
  assert (LITd : forall d, In d (pdefs p) -> stmt_lits (dbody d) = true).
  { unfold lits_i64 in LITS. rewrite forallb_forall in LITS. exact LITS. }
  assert (DEFS : forall d, In d (pdefs p) ->
    exists pcd lcd cd lcd', find_label (labels im) (show_ident (dname d) +++ "_") = Some pcd /\
      PM.find pcd (code im) = Some (LAB (show_ident (dname d) +++ "_")) /\
      acs (ptypes p) (dbody d) (dctx d) lcd = Ok (cd, lcd') /\
      code_at im (Pos.succ pcd) cd /\ labels_at_nh im (Pos.succ pcd) cd).
  { intros d Hd. rewrite PD in Hd.
    destruct (translate_defs (ptypes p) _ _ _ _ TR d Hd) as (pre & lcd & cd & lcd' & post & EQ & CD).
    assert (NH : hash_name (show_ident (dname d) +++ "_") = false).
    { unfold plain_names in PL. rewrite forallb_forall in PL. rewrite <- PD in Hd. specialize (PL d Hd).
      destruct (hash_name (show_ident (dname d) +++ "_")) eqn:E; auto.
      apply hash_name_app_ in E. rewrite E in PL. discriminate. }
    destruct (layout_at im cs (preamble ++ su ++ pre) (LAB (show_ident (dname d) +++ "_") :: cd) (post ++ cleanup) CA LA)
      as [CAd LAd].
    { unfold cs. rewrite EQ. rewrite <- !app_assoc. cbn [app]. rewrite <- !app_assoc. reflexivity. }
    exists (padd 1%positive (List.length (preamble ++ su ++ pre))), lcd, cd, lcd'.
    apply code_at_cons in CAd as [C0 C1].
    change (LAB (show_ident (dname d) +++ "_") :: cd) with ([LAB (show_ident (dname d) +++ "_")] ++ cd) in LAd.
    pose proof LAd as LAd'. apply labels_at_nh_app in LAd' as [_ L1]. cbn [List.length padd] in L1.
    split; [exact (LAd O _ eq_refl NH)|]. split; [exact C0|]. split; [exact CD|]. split; [exact C1|exact L1]. }
  (* the run of the instrumented machine *)
  assert (ERUN : o = fst (fst (hexec fuel p (mkhc (attach e0 []) (Heap.init HEAP_BASE) (dbody d0)) [] []))).
  { rewrite AxHeapErase.hexec_erase. cbn [hc_env hc_stmt]. rewrite AxHeapErase.erase_attach.
    unfold run_linear in RUN. rewrite PD in RUN. unfold entry_env in RUN. rewrite EE in RUN. congruence. }
  assert (D0 : In d0 (pdefs p)) by (rewrite PD; now left).
  assert (I1 : ctx_int (dctx d0) = true).
  { apply X86HSimTop.all_ext_ctx_int. unfold AxHeapTyping.entry_ext in EI. rewrite PD in EI. exact EI. }
  assert (HI0 : hinv p (attach e0 []) (Heap.init HEAP_BASE) (dbody d0)).
  { split.
    - apply (AxHeapSafe.hinit_inv HEAP_BASE d0 e0 args); [unfold HEAP_BASE; lia|exact EE].
    - apply (AxHeapTyping.hinit_wt HEAP_BASE p d0 rest e0 args LIN EI PD EE).
    - apply X86HFrame.P03_init.
    - intros tr c' HSs. apply (FITS tr c'). exists d0, rest, e0. repeat split; auto. }
  assert (FIN : finishes im 3%positive (init_state args) o).
  { destruct (layout_at im cs [TEXT; GLOBAL "asm_main"] [LAB "asm_main"] (su ++ is' ++ cleanup) CA LA eq_refl) as [CA0 _].
    destruct (layout_at im cs preamble su (is' ++ cleanup) CA LA eq_refl) as [CA1 _].
    cbn [List.length padd preamble] in CA0, CA1.
    rewrite <- LEN in SU. destruct (hprologue_ok im args su SU) as (s1 & E1 & F1 & O1 & RH1 & RF1 & HE1 & RG1 & EPI).
    assert (CLEAN : exists pcc, find_label (labels im) "cleanup" = Some pcc /\
      forall s z, frame_ok s sp0 -> outer_ok (stack s1) sp0 s -> rget s RETURN1 = Some z -> finishes im pcc s (finish (out s) (OExit z))).
    { destruct (layout_at im cs (preamble ++ su ++ is') cleanup [] CA LA) as [CAc LAc].
      { unfold cs. rewrite app_nil_r, <- !app_assoc. reflexivity. }
      exists (padd 1%positive (List.length (preamble ++ su ++ is'))). split.
      - exact (LAc O "cleanup"%string eq_refl eq_refl).
      - intros s z Fs OKs RV. eapply EPI; eauto. }
    cbn [translate] in TR.
    destruct (acs (ptypes p) (dbody d0) (dctx d0) lc) as [[cd0 lcd0]|] eqn:C0; cbn [rbind] in TR; [|discriminate].
    destruct (translate a64_backend (ptypes p) rest lcd0) as [[c2 lc2]|] eqn:TR2; cbn [rbind] in TR; [|discriminate].
    cbn [b_label a64_backend a64_backend_with] in TR. inversion TR; subst is' lc1; clear TR.
    destruct (layout_at im cs (preamble ++ su) (LAB (show_ident (dname d0) +++ "_") :: cd0) (c2 ++ cleanup) CA LA) as [CAe LAe].
    { unfold cs. rewrite <- !app_assoc. cbn [app]. rewrite <- !app_assoc. reflexivity. }
    apply code_at_cons in CAe as [CL CAe].
    change (LAB (show_ident (dname d0) +++ "_") :: cd0) with ([LAB (show_ident (dname d0) +++ "_")] ++ cd0) in LAe.
    apply labels_at_nh_app in LAe as [_ LAe]. cbn [List.length padd] in LAe.
    rewrite app_length in CL. cbn [List.length preamble] in CL. rewrite padd_add in CL. cbn [padd] in CL.
    eapply exec_to_finishes.
    { eapply exec_next; [apply (CA0 O _ eq_refl)|reflexivity|].
      eapply exec_to_trans; [apply (run_straight_exec_to im su _ _ s1 CA1 E1)|].
      eapply exec_next; [exact CL|reflexivity|apply exec_refl]. }
    rewrite ERUN.
    assert (R0 : hrel (ptypes p) (hclo_ok im p) (dctx d0) (attach e0 []) (Heap.init HEAP_BASE) s1 sp0).
    { eapply hentry_rel; eauto. eapply lin_nodup. unfold lin_check_prog in LIN. rewrite forallb_forall in LIN. exact (LIN d0 D0). }
    rewrite app_length in CAe, LAe. cbn [List.length preamble] in CAe, LAe. rewrite padd_add in CAe, LAe. cbn [padd] in CAe, LAe.
    eapply (hsim_exec im p sp0 (stack s1) IMG FWD SMALL TAGS PLT DEFS CLEAN LIN ANN LITd) with (c := dctx d0) (lc := lc); eauto.
    - unfold lin_check_prog in LIN. rewrite forallb_forall in LIN. exact (LIN d0 D0).
    - unfold ann_check_prog in ANN. rewrite forallb_forall in ANN. exact (ANN d0 D0).
    - rewrite attach_names. exact (bind_ids _ _ _ EE).
    - intros k _. reflexivity.
    - unfold not_oof. rewrite <- ERUN. exact G. }
  destruct (finishes_run im _ _ _ FIN) as (outer & inner & RN).
  exists outer, inner. unfold run_a64. cbv zeta. change (mk_image _) with im.
  assert (AM : find_label (labels im) "asm_main" = Some 3%positive).
  { exact (LA 2%nat "asm_main"%string eq_refl eq_refl). }
  rewrite AM. destruct (Nat.ltb_spec 7 (List.length args)); [lia|]. exact RN.
Qed.
Print Assumptions a64_codegen_simulates.
