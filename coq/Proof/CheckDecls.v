(* C15, declarations (since fix eb42971 of /repo): Data::check / Codata::check establish EXACTLY the
   declaration part of the typing rules.
     Ty::check_template (model [ty_check_template]) succeeds on a type written in a declaration with
     parameters ps  iff  [wf_tty ts ps] holds of it: i64, a parameter WITHOUT arguments, or a declared
     type applied to as many well-formed types as it has parameters - provided no parameter of the
     declaration is the name of a declared type (check_type_params, run by build_symbol_table).
     Hence  check_type_decls (fpdecls p) st = COk tt  <->  decl_types_wf (tdecls (fpdecls p)) = true.
   No instance is created (the functions do not return a symbol table), so non-regular recursive
   declarations are handled (example [nest_accepted]).  For all programs, no fragment. *)
From Coq Require Import List ZArith String Bool Lia.
From SCC Require Import Base.Sexp Lang.SynUtil Lang.FunSyn Model.Check Sem.FunTyping Sem.FunNames
  Proof.FunEq Proof.CheckAnn Proof.TypingReject Proof.CheckBuild Proof.PrintInj.
Import ListNotations.
Open Scope list_scope.

Fixpoint tys_check_template (st : symtab) (ps : fnamectx) (l : list fty) : cres unit :=
  match l with
  | [] => COk tt
  | a :: r => doc _ <- ty_check_template st ps a; tys_check_template st ps r
  end.
Lemma ty_check_template_decl : forall st ps n targs,
  ty_check_template st ps (FDecl n targs) =
  match template_arity st ps n with
  | None => CErr EUndefined
  | Some expected =>
      if negb (Nat.eqb (List.length targs) expected) then CErr EWrongNumberOfTypeArguments
      else tys_check_template st ps targs
  end.
Proof.
  intros st ps n targs. simpl. destruct (template_arity st ps n) as [e|]; [|reflexivity].
  destruct (negb (Nat.eqb (List.length targs) e)); [reflexivity|].
  induction targs as [|a r IH]; [reflexivity|]. simpl.
  destruct (ty_check_template st ps a); simpl; [assumption|reflexivity].
Qed.
Lemma cres_unit_ok : forall (r : cres unit), (exists u, r = COk u) -> r = COk tt.
Proof. intros r [[] H]. exact H. Qed.

Section Decls.
  Variable ts : list tdecl.
  Variable fs : list fdef.
  Variable st : symtab.
  Hypothesis Tb : tables ts fs st.

  Definition params_fresh (ps : list fname) : Prop :=
    forallb (fun p => negb (is_some (find_type ts p))) ps = true.

  Lemma mem_name_mem : forall x l, mem_name x l = mem x l.
  Proof. reflexivity. Qed.

  (* the number of arguments the head of a declaration type takes *)
  Lemma template_arity_spec : forall ps n, params_fresh ps ->
    template_arity st ps n =
    if mem n ps then Some 0%nat else option_map (fun td => List.length (td_params td)) (find_type ts n).
  Proof.
    intros ps n Hf. unfold template_arity. rewrite (t_tt _ _ _ Tb), mem_name_mem.
    destruct (mem n ps) eqn:Em.
    - unfold params_fresh in Hf. rewrite forallb_forall in Hf. apply mem_In in Em. specialize (Hf _ Em).
      destruct (find_type ts n); [discriminate|reflexivity].
    - destruct (find_type ts n) as [td|]; reflexivity.
  Qed.

  Lemma tys_check_template_iff : forall ps l,
    Forall (fun a => ty_check_template st ps a = COk tt <-> wf_tty ts ps a = true) l ->
    (tys_check_template st ps l = COk tt <-> forallb (wf_tty ts ps) l = true).
  Proof.
    intros ps l H. induction H as [|a r Ha Hr IH]; simpl; [tauto|].
    rewrite andb_true_iff, <- Ha, <- IH. split.
    - intro H. apply cbind_ok in H. destruct H as [[] [H1 H2]]. auto.
    - intros [H1 H2]. rewrite H1. simpl. exact H2.
  Qed.

  Theorem ty_check_template_iff : forall ps, params_fresh ps ->
    forall t, ty_check_template st ps t = COk tt <-> wf_tty ts ps t = true.
  Proof.
    intros ps Hf. induction t using fty_ind'; [simpl; tauto|].
    rewrite ty_check_template_decl, (template_arity_spec _ _ Hf).
    pose proof (tys_check_template_iff ps args H) as Hargs. clear H.
    simpl wf_tty. destruct (mem n ps) eqn:Em.
    - destruct args as [|a r]; simpl; [tauto|]. split; discriminate.
    - destruct (find_type ts n) as [td|]; simpl; [|split; discriminate].
      destruct (Nat.eqb (List.length args) (List.length (td_params td))); simpl; [exact Hargs|split; discriminate].
  Qed.

  Lemma ctx_check_template_iff : forall ps, params_fresh ps -> forall c,
    ctx_check_template st ps c = COk tt <-> forallb (fun b => wf_tty ts ps (fbty b)) c = true.
  Proof.
    intros ps Hf. induction c as [|b r IH]; simpl; [tauto|].
    rewrite andb_true_iff, <- (ty_check_template_iff ps Hf), <- IH. split.
    - intro H. apply cbind_ok in H. destruct H as [[] [H1 H2]]. auto.
    - intros [H1 H2]. rewrite H1. simpl. exact H2.
  Qed.

  Lemma data_check_iff : forall ps, params_fresh ps -> forall cs,
    data_check st ps cs = COk tt
    <-> forallb (xsig_ok ts ps) (map (fun c => mkxsig (fctname c) (fctargs c) None) cs) = true.
  Proof.
    intros ps Hf. induction cs as [|c r IH]; simpl; [tauto|].
    rewrite andb_true_iff, <- IH. unfold xsig_ok at 1. simpl. rewrite andb_true_r, <- (ctx_check_template_iff ps Hf). split.
    - intro H. apply cbind_ok in H. destruct H as [[] [H1 H2]]. auto.
    - intros [H1 H2]. rewrite H1. simpl. exact H2.
  Qed.
  Lemma codata_check_iff : forall ps, params_fresh ps -> forall ds,
    codata_check st ps ds = COk tt
    <-> forallb (xsig_ok ts ps) (map (fun c => mkxsig (fdtname c) (fdtargs c) (Some (fdtcont c))) ds) = true.
  Proof.
    intros ps Hf. induction ds as [|d r IH]; simpl; [tauto|].
    rewrite andb_true_iff, <- IH. unfold xsig_ok at 1. simpl.
    rewrite andb_true_iff, <- (ctx_check_template_iff ps Hf), <- (ty_check_template_iff ps Hf). split.
    - intro H. apply cbind_ok in H. destruct H as [[] [H1 H]].
      apply cbind_ok in H. destruct H as [[] [H2 H3]]. auto.
    - intros [[H1 H2] H3]. rewrite H1. simpl. rewrite H2. simpl. exact H3.
  Qed.

  Theorem check_type_decls_iff : forall ds,
    (forall td, In td (tdecls ds) -> params_fresh (td_params td)) ->
    (check_type_decls ds st = COk tt
     <-> forallb (fun t => forallb (xsig_ok ts (td_params t)) (td_xtors t)) (tdecls ds) = true).
  Proof.
    induction ds as [|d r IH]; intros Hp; [simpl; tauto|].
    destruct d as [d|d|d]; simpl in *.
    - rewrite andb_true_iff, <- IH by (intros; apply Hp; right; assumption).
      rewrite <- (data_check_iff _ (Hp _ (or_introl eq_refl))). simpl. split.
      + intro H. apply cbind_ok in H. destruct H as [[] [H1 H2]]. auto.
      + intros [H1 H2]. rewrite H1. simpl. exact H2.
    - rewrite andb_true_iff, <- IH by (intros; apply Hp; right; assumption).
      rewrite <- (codata_check_iff _ (Hp _ (or_introl eq_refl))). simpl. split.
      + intro H. apply cbind_ok in H. destruct H as [[] [H1 H2]]. auto.
      + intros [H1 H2]. rewrite H1. simpl. exact H2.
    - apply IH. exact Hp.
  Qed.
End Decls.

(* the two directions as they are used by the soundness / completeness proofs *)
Lemma check_type_decls_ok : forall ts fs st ds,
  tables ts fs st ->
  (forall td, In td (tdecls ds) -> forallb (fun p => negb (is_some (find_type ts p))) (td_params td) = true) ->
  check_type_decls ds st = COk tt ->
  forall td, In td (tdecls ds) -> forallb (xsig_ok ts (td_params td)) (td_xtors td) = true.
Proof.
  intros ts fs st ds Tb Hp H td Hin.
  apply (check_type_decls_iff ts fs st Tb ds Hp) in H. rewrite forallb_forall in H. exact (H td Hin).
Qed.
Lemma check_type_decls_ok_conv : forall ts fs st ds,
  tables ts fs st ->
  (forall td, In td (tdecls ds) -> forallb (fun p => negb (is_some (find_type ts p))) (td_params td) = true) ->
  (forall td, In td (tdecls ds) -> forallb (xsig_ok ts (td_params td)) (td_xtors td) = true) ->
  check_type_decls ds st = COk tt.
Proof.
  intros ts fs st ds Tb Hp H. apply (check_type_decls_iff ts fs st Tb ds Hp). apply forallb_forall. exact H.
Qed.

(* every accepted program has well-formed declaration types: the former guard of the soundness theorem *)
Theorem check_gen_decl_types_wf : forall eager p q,
  check_gen eager p = COk q -> decl_types_wf (tdecls (fpdecls p)) = true.
Proof.
  intros eager p q H. unfold check_gen in H. apply cbind_ok in H. destruct H as [st [Hb H]].
  destruct (build_symbol_table_spec p st Hb) as [Tb [_ [_ [_ [_ Hps]]]]].
  unfold check_with_table_gen in H. apply cbind_ok in H. destruct H as [[] [Hdecls _]].
  unfold decl_types_wf.
  apply (check_type_decls_iff _ _ st Tb (fpdecls p)); [|exact Hdecls].
  intros td Hin. exact (proj2 (Hps td Hin)).
Qed.
(* ... and conversely a program whose declaration types are ill-formed is rejected, whatever else it contains *)
Theorem check_gen_rejects_ill_formed_decl : forall eager p,
  decl_types_wf (tdecls (fpdecls p)) = false -> exists e, check_gen eager p = CErr e.
Proof.
  intros eager p H. destruct (check_gen eager p) as [q|e] eqn:E; [|eauto].
  rewrite (check_gen_decl_types_wf _ _ _ E) in H. discriminate.
Qed.

(* ---------- non-regular recursion: nothing is instantiated by the declaration check ----------
   data Wrap[A] { W(x: A) }   data Nest[A] { Flat(x: A), Deep(n: Nest[Wrap[A]]) }
   def depth(n: Nest[i64]): i64 { n.case[i64] { Flat(x) => x, Deep(m) => 1 } }
   def main(): i64 { depth(Deep(Flat(W(5)))) }
   (instantiating the field types of every created instance would not terminate: Nest[i64] needs
   Nest[Wrap[i64]] needs Nest[Wrap[Wrap[i64]]] ...) *)
Local Open Scope string_scope.
Definition p_nest : fprog :=
  mkfprog [FDData (mkfdata "Wrap" ["A"] [mkfctor "W" [mkfb "x" FPrd (FDecl "A" [])]]);
           FDData (mkfdata "Nest" ["A"] [mkfctor "Flat" [mkfb "x" FPrd (FDecl "A" [])];
                                         mkfctor "Deep" [mkfb "n" FPrd (FDecl "Nest" [FDecl "Wrap" [FDecl "A" []]])]]);
           FDDef (mkfdef "depth" [mkfb "n" FPrd (FDecl "Nest" [FI64])] FI64
                    (FCase (FVar "n" None None) [FI64]
                       [FClause FData "Flat" ["x"] [] (FVar "x" None None); FClause FData "Deep" ["m"] [] (FLit 1)] None));
           FDDef (mkfdef "main" [] FI64
                    (FCall "depth" [FCtor "Deep" [FCtor "Flat" [FCtor "W" [FLit 5] None] None] None] None))].
Lemma nest_accepted :
  has_type_b p_nest = true /\ prog_names_ok p_nest = true
  /\ exists q, check p_nest = COk q /\ map fdaname (fcpdata q) = ["Nest[Wrap[i64]]"; "Nest[i64]"; "Wrap[i64]"].
Proof. split; [vm_compute; reflexivity|]. split; [vm_compute; reflexivity|]. eexists. split; vm_compute; reflexivity. Qed.
