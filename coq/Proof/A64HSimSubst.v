(* C07, forward simulation for HEAP statements on AArch64, part 5: Substitute with objects under `hrel`.  Port of
   Proof/X86HSimSubst.v: phase 1 (erase / share of the instrumented machine's `subst_ops`, in the generator's order)
   through a64abi's exact-heap theorem `a64_emit_rc_ok` (Proof/A64Subst.v) and the abstraction `absH`
   (Proof/A64HSubstHeap.v); phase 2 = the parallel moves (`a64_parallel_moves_frame_ok`).  The ISA-independent helper
   lemmas about `hsubst` are the ones of the x86 file (used by qualified name). *)
From Coq Require Import List ZArith NArith String Bool Lia FMapPositive Permutation.
From SCC Require Import Base.Sexp Lang.AxSyn Sem.AxSem Sem.AxHeap Model.ParMoves Model.Backend Model.A64 Sem.A64Sem
     Model.Linearize Model.LinCheck Generated.Constants Proof.LinBasics
     Proof.A64State Proof.A64ImmHw Proof.A64Imm Proof.A64Sel Proof.A64PM Proof.A64Exec
     Proof.A64MemSubst Proof.SubstGraph Proof.SubstBackends Proof.A64Subst Proof.A64Wf Proof.A64Print
     Proof.A64SimRel Proof.A64SimStmt Proof.HRep Proof.A64Mem Proof.A64MemOps Proof.A64HSimRel Proof.A64HConv Proof.A64HSimStore
     Proof.A64HSubstHeap.
From SCC Require Model.Heap Proof.HeapMore Proof.HeapTrace Proof.HeapRep Proof.AxHeapSubst
     Proof.X86Mem Proof.X86MemFrame Proof.X86HeapDefs Proof.X86HeapCongr Proof.X86HBridge Proof.X86HFrame Proof.X86Subst Proof.X86HSimSubst.
Import ListNotations.
Open Scope Z_scope.
Open Scope list_scope.

Notation hsubst_nth := X86HSimSubst.hsubst_nth.
Notation hsubst_ids := X86HSimSubst.hsubst_ids.
Notation hlookup_Some := X86HSimSubst.hlookup_Some.
Notation hlookup_nodup := X86HSimSubst.hlookup_nodup.
Notation count_targets_le := X86Subst.count_targets_le.
Notation HB := X86HBridge.HB.
Notation hdr_bounds_x := X86HBridge.hdr_bounds_x.
Notation heq_rc_ops := X86HeapCongr.heq_rc_ops.
Notation rc_opnd_ok := X86HeapCongr.rc_opnd_ok.

(* the operations of a substitution, along the object variables of the transposed map *)
Lemma subst_ops_order (P : binding -> Z) re : forall (tm : list (binding * list N)),
  (forall b tg, In (b, tg) tm -> tg = targets re b) ->
  flat_map (fun bt : binding * list N => AxHeap.rc_op (bchi (fst bt)) (P (fst bt)) (List.length (snd bt))) tm =
  flat_map (fun b => AxHeap.rc_op (bchi b) (P b) (count_targets re b)) (filter is_obj (map fst tm)).
Proof.
  induction tm as [|[b tg] tm IH]; intros H; [reflexivity|]. cbn [flat_map map filter fst snd].
  rewrite IH by (intros b' tg' Hin; apply (H b' tg'); now right).
  rewrite (H b tg (or_introl eq_refl)). unfold is_obj.
  replace (List.length (targets re b)) with (count_targets re b) by (unfold targets, count_targets; now rewrite map_length).
  destruct (bchi b) eqn:Kb; cbn [flat_map app]; rewrite ?Kb; reflexivity.
Qed.

Section HSubst.
Variable im : image.
Variable types : list tydecl.
Variable CLO : Z -> ident -> list clause -> ctx -> Prop.
Local Notation hrel := (hrel types CLO).
Local Notation hvrep := (hvrep types CLO).
Local Notation xrep := (HRep.xrep types CLO jump_length in64).

Theorem hsim_substitute c he hs s sp re he' c1 lc lc1 c2 pc hl fl cl :
  hrel c he hs s sp -> NoDup (new_ids re) ->
  (forall q, In q re -> has c (snd q) (bchi (fst q)) (bty (fst q)) = true) ->
  hsubst he re = Some he' -> ctx_of he = c ->
  InvA X86Sem.HEAP_BASE hs (roots he) hl fl cl -> P03 hs -> Heap.frontier hs <= LIMIT ->
  code_weakening_contraction a64_backend (transpose re c) c lc = Ok (c1, lc1) ->
  code_exchange a64_backend (transpose re c) c (map fst re) = Ok c2 ->
  code_at im pc (c1 ++ c2) -> labels_at_nh im pc (c1 ++ c2) ->
  exists s', exec_to im pc s (padd pc (List.length (c1 ++ c2))) s' /\
             hrel (map fst re) he' (hrun (subst_ops he re) hs) s' sp /\ hframe_eq s s' sp.
Proof.
  intros R NDn KIND HS CTX IA K03 HFr WC CE CA LA.
  pose proof (hr_nodup R) as NDc. pose proof (hr_frame R) as F. pose proof (hrel_length R) as LEN.
  pose proof (hrel_small types CLO _ _ _ _ _ R) as SMALL.
  apply code_at_app in CA as [CA1 CA2]. apply labels_at_nh_app in LA as [LA1 _].
  unfold code_exchange in CE.
  destruct (connections a64_backend (transpose re c) c (map fst re)) as [am|] eqn:CN; cbn [rbind] in CE; [|discriminate].
  assert (SRC : forall j pj, nth_error re j = Some pj ->
            exists i bi, nth_error c i = Some bi /\ idn (bvar bi) = idn (snd pj) /\
                         bchi bi = bchi (fst pj) /\ bty bi = bty (fst pj)).
  { intros j pj Hj. specialize (KIND pj (nth_error_In _ _ Hj)). unfold has in KIND.
    destruct (lookup_b c (idn (snd pj))) as [bi|] eqn:LB; [|discriminate].
    apply lookup_b_Some in LB as [Hin Hid]. apply andb_true_iff in KIND as [K1 K2].
    apply chi_eqb_eq in K1. apply ty_eqb_eq in K2. apply In_nth_error in Hin as (i & Hi). eauto 8. }
  assert (LR : (List.length re <= 141)%nat).
  { destruct (Nat.le_gt_cases (List.length re) 141) as [L|L]; [exact L|]. exfalso.
    destruct (nth_error re 141) as [pj|] eqn:Hj; [|apply nth_error_None in Hj; lia].
    destruct (SRC _ _ Hj) as (i & bi & Hi & Ei & _).
    destruct (subst_edge c re am Snd i bi 141%nat pj NDc NDn CN Hi (or_introl eq_refl) Hj (eq_sym Ei)) as (_ & tb & _ & Tb & _).
    vm_compute in Tb. discriminate. }
  (* the entries of the environment, by position *)
  assert (ENT : forall i b, nth_error c i = Some b -> exists x v q, nth_error he i = Some (x, v, q) /\ idn x = idn (bvar b) /\ hvrep s sp i b v q).
  { intros i b Hb. assert (Li : (i < List.length he)%nat) by (rewrite LEN; apply nth_error_Some; congruence).
    destruct (nth_error he i) as [[[x v] q]|] eqn:He; [|apply nth_error_None in He; lia].
    destruct (hr_vals R i x v q He) as (b' & Hb' & V). assert (b' = b) by congruence. subst b'.
    destruct (henv_ctx_nth c he i x v q (hr_ids R) He) as (b'' & Hb'' & Eb). assert (b'' = b) by congruence. subst b''.
    exists x, v, q. auto. }
  (* phase 1: the reference counts *)
  assert (TMOK : forall b tg, In (b, tg) (transpose re c) -> In b c /\ tg = targets re b).
  { intros b tg Hb. now apply (In_transpose re c b tg (NoDup_map_inv _ _ NDc)) in Hb. }
  destruct (cwc_spec a64_backend c re NDc (transpose re c) lc c1 lc1 TMOK WC) as (order & OM & ORD & ops & F2 & EM).
  assert (OBJ : forall i b, In (i, b) order -> is_obj b = true).
  { intros i b Hin. assert (In b (map snd order)) as Hb by (apply in_map_iff; exists (i, b); auto).
    rewrite OM in Hb. apply filter_In in Hb. tauto. }
  (* pointer of an object variable *)
  assert (PTR : forall i b t, In (i, b) order -> atpos Fst i = Ok t ->
            exists x v q, nth_error he i = Some (x, v, q) /\ idn x = idn (bvar b) /\ lget s sp t = Some q /\ (q = 0 \/ is_blk q)).
  { intros i b t Hin Ht. destruct (ENT i b (ORD i b Hin)) as (x & v & q & He & Ex & V).
    exists x, v, q. split; [exact He|]. split; [exact Ex|].
    pose proof (OBJ i b Hin) as Ho. unfold is_obj in Ho.
    destruct V as [b z q t0 A B T Lg|b v q a t1 t2 A K1 K2 T1 T2 L1 L2 X]; [rewrite A in Ho; discriminate|].
    assert (t1 = t) by congruence. subst t1. split; [exact L1|]. eapply (HRep.xrep_ptr types CLO jump_length in64); eauto. }
  assert (NDe : NoDup (env_ids (erase_env he))) by (rewrite (hr_ids R); exact NDc).
  set (g := fun b : binding => AxHeap.rc_op (bchi b) (AxHeap.ptr_of he (idn (bvar b))) (count_targets re b)).
  assert (ALL : forall (order0 : list (nat * binding)) (ops0 : list (list (@SubstGraph.rc_op atemp))),
            Forall2 (fun ib o => exists t, atpos Fst (fst ib) = Ok t /\ o = rc_op_for t (count_targets re (snd ib))) order0 ops0 ->
            (forall i b, In (i, b) order0 -> In (i, b) order) ->
            Forall (rc_ok s sp) (List.concat ops0) /\ Forall (rc_good s sp) (List.concat ops0) /\
            map (rc_abs s sp) (List.concat ops0) = flat_map g (map snd order0) /\
            (List.length (List.concat ops0) <= List.length order0)%nat).
  { induction 1 as [|[i b] o order' ops' (t & Ht & ->) _ IHF]; intros SUB; cbn [List.concat map flat_map List.length].
    - repeat split; auto.
    - destruct (IHF (fun i0 b0 H0 => SUB i0 b0 (or_intror H0))) as (I1 & I2 & I3 & I4).
      cbn [fst snd] in *. pose proof (SUB i b (or_introl eq_refl)) as Hin.
      destruct (atpos_operand_ok Fst i t Ht) as (VT & NF & _).
      destruct (PTR i b t Hin Ht) as (x & v & q & He & Ex & Lq & Bq).
      assert (BO : q = 0 \/ block_ok q).
      { destruct Bq as [->|Bq]; [now left|right]. now apply is_blk_block_ok. }
      assert (PQ : A64Subst.ptr_of s sp t = q) by (unfold A64Subst.ptr_of; now rewrite Lq).
      assert (AQ : AxHeap.ptr_of he (idn (bvar b)) = q).
      { unfold AxHeap.ptr_of. rewrite <- Ex. change (idn x) with (idn (h_id (x, v, q))).
        rewrite (hlookup_nodup he i (x, v, q) NDe He). reflexivity. }
      pose proof (OBJ i b Hin) as Ho. unfold is_obj in Ho.
      pose proof (count_targets_le re b) as LE.
      rewrite !map_app, !app_length. unfold g at 1. rewrite AQ.
      destruct (count_targets re b) as [|[|k]] eqn:CT; cbn [rc_op_for map app List.length rc_abs].
      + split; [|split; [|split]].
        * constructor; [|exact I1]. unfold rc_ok; cbn [rc_temp]. split; [exact VT|split; [exact NF|exists q; auto]].
        * constructor; [|exact I2]. split; [cbn [rc_temp]; rewrite PQ; exact Bq|exact I].
        * rewrite PQ, I3. destruct (bchi b); try discriminate; reflexivity.
        * lia.
      + split; [exact I1|split; [exact I2|split]].
        * rewrite I3. destruct (bchi b); try discriminate; reflexivity.
        * lia.
      + split; [|split; [|split]].
        * constructor; [|exact I1]. unfold rc_ok; cbn [rc_temp]. split; [exact VT|split; [exact NF|exists q; auto]].
        * constructor; [|exact I2]. split; [cbn [rc_temp]; rewrite PQ; exact Bq|lia].
        * rewrite PQ, I3, nat_N_Z. destruct (bchi b); try discriminate; reflexivity.
        * lia. }
  destruct (ALL order ops F2 (fun _ _ H => H)) as (RCOK & GOOD & OPSEQ & NOPS).
  assert (LORD : (List.length order <= 141)%nat).
  { rewrite <- (map_length snd order), OM.
    assert (FL : forall (l : list binding), (List.length (filter is_obj l) <= List.length l)%nat).
    { induction l as [|a l IHl]; cbn [filter List.length]; [lia|]. destruct (is_obj a); cbn [List.length]; lia. }
    etransitivity; [apply FL|]. rewrite map_length.
    rewrite (Permutation_length (transpose_perm re c (NoDup_map_inv _ _ NDc))), map_length. lia. }
  assert (SOPS : subst_ops he re = flat_map g (map snd order)).
  { unfold subst_ops. rewrite CTX, OM. apply (subst_ops_order (fun b => AxHeap.ptr_of he (idn (bvar b))) re (transpose re c)).
    intros b tg Hb. exact (proj2 (TMOK b tg Hb)). }
  rewrite <- SOPS in OPSEQ.
  assert (EMc : c1 = fst (emit_rc a64_backend (List.concat ops) lc)) by (now rewrite <- EM).
  pose proof (hr_freereg R) as FR. set (f := Heap.free hs) in *.
  assert (LA1' : labels_at im pc c1) by (apply labels_at_of_nh; [rewrite EMc; apply nh_emit_rc|exact LA1]).
  rewrite EMc in CA1, LA1'.
  destruct (a64_emit_rc_ok im s sp (List.concat ops) pc lc s f RCOK (fun r _ _ _ => eq_refl) eq_refl CA1 LA1' F FR)
    as (s1 & f1 & X1 & X2 & X3 & X4 & X5 & X6).
  rewrite <- EMc in X1.
  (* the abstraction of the heap after phase 1 *)
  set (F0 := Heap.frontier hs). set (H0 := Heap.heap hs).
  pose proof (hr_heq R) as HQ. fold F0 in HQ.
  assert (EA : abs_heap F0 s = absH F0 H0 (heap s, f)).
  { rewrite <- absH_abs. unfold reg_or0. now rewrite (hr_heapreg R), FR. }
  assert (HB0 : hb2 HB (heap s, f)).
  { split; cbn [fst snd].
    - intros y Hy. destruct (heq_abs_ps F0 s hs y HQ Hy) as [_ E]. change (hget (heap s) y) with (hword s y). rewrite <- E.
      pose proof (hdr_bounds_x hs _ hl fl cl IA (P03_P3 _ K03) HFr ltac:(pose proof (roots_length he); lia) y Hy). lia.
    - unfold f. destruct (HeapRep.free_cases _ _ _ _ _ (proj1 IA)) as [[E _]|Hf].
      + rewrite E. pose proof (Heap.i_front _ _ _ _ _ (proj1 IA)). unfold X86HBridge.HB, X86HeapDefs.LIMIT in *; unfb; lia.
      + pose proof (Heap.i_below _ _ _ _ _ (proj1 IA) (Heap.free hs) ltac:(rewrite !in_app_iff; auto)). unfold X86HBridge.HB, X86HeapDefs.LIMIT in *; unfb; lia. }
  destruct (rc_fold_abs F0 H0 s sp (List.concat ops) (heap s, f) HB GOOD HB0 ltac:(unfold X86HBridge.HB, X86HeapDefs.LIMIT; unfb; lia)
              ltac:(unfold X86HBridge.HB; lia)) as (EQ1 & NB1 & FP1).
  cbv zeta in EQ1, NB1, FP1. rewrite <- X3 in EQ1, NB1, FP1. cbn [fst snd] in NB1, FP1.
  rewrite OPSEQ, <- EA in EQ1.
  set (hs2 := hrun (subst_ops he re) hs) in *.
  assert (HQ2 : heq (absH F0 H0 (heap s1, f1)) hs2).
  { eapply heq_eqB; [exact EQ1|]. apply heq_rc_ops; [exact HQ|].
    rewrite <- OPSEQ. apply Forall_forall. intros o Ho. apply in_map_iff in Ho as (o' & <- & Ho').
    pose proof (rc_abs_opnd s sp o') as G. rewrite Forall_forall in GOOD. specialize (G (GOOD o' Ho')).
    unfold rc_opnd_ok. destruct (rc_abs s sp o'); auto. }
  assert (F1 : frame_ok s1 sp).
  { destruct F as [A B]. split; [|exact B]. change (spv s1) with (rget s1 SP). rewrite X4; [exact A|discriminate|discriminate|discriminate]. }
  assert (AG : forall t, operand_ok t -> t <> AR FREE -> lget s1 sp t = lget s sp t).
  { intros t VT NF. apply lget_agree; auto. }
  (* phase 2: the parallel moves *)
  destruct (transpose_connections_indeg1 a64_backend a64_backend_ok c re am NDc NDn CN) as (IDG & NT & SRT & KEYS).
  pose proof (connections_edges a64_backend a64_backend_ok c re am NDc NDn CN) as EDG.
  assert (VTam : forall t, In t (map fst am) \/ In t (all_targets atemp am) -> operand_ok t /\ t <> AR FREE /\ t <> AR HEAP).
  { intros t [Hk|Ht].
    - destruct (KEYS t Hk) as (i & bi & n & _ & _ & Hp). destruct (atpos_operand_ok n i t Hp); tauto.
    - unfold all_targets in Ht. apply in_flat_map in Ht as ([k ts] & Hin & Ht). cbn [snd] in Ht.
      assert (edge atemp a64_teqb am k t) as E.
      { exists ts. split; [|exact Ht]. apply lookup_of_In; auto.
        apply (sorted_nodup atemp_compare (cmp_eq a64_backend a64_backend_ok)). exact SRT. }
      apply EDG in E as (i & j & bi & pj & n & _ & _ & _ & _ & _ & Hb). destruct (atpos_operand_ok n j t Hb); tauto. }
  assert (AMOK : amap_ok atemp operand_ok am).
  { intros k ts Hin. split.
    - apply VTam. left. apply in_map_iff. exists (k, ts). auto.
    - apply Forall_forall. intros t Ht. apply VTam. right. unfold all_targets. apply in_flat_map. exists (k, ts). auto. }
  destruct (a64_parallel_moves_frame_ok im am c2 s1 sp IDG NT AMOK CE F1) as (s2 & E2 & P1 & P2 & F2' & SH & SO & _ & SK).
  pose proof (run_straight_exec_to im c2 _ s1 s2 CA2 E2) as X2'.
  assert (KEEPR : forall r, r = FREE \/ r = HEAP -> rget s2 r = rget s1 r).
  { intros r Hr. change (rget s2 r) with (lget s2 sp (AR r)). change (rget s1 r) with (lget s1 sp (AR r)).
    apply P2.
    + destruct Hr as [-> | ->]; (split; [exact I|split; discriminate]).
    + intros a E. apply EDG in E as (i & j & bi & pj & n & _ & _ & _ & _ & _ & Hb).
      destruct (atpos_operand_ok n j _ Hb) as (_ & N1 & N2). destruct Hr as [-> | ->]; congruence. }
  assert (EXT : forall a, ~ is_blk a -> hword s2 a = hword s a).
  { intros a Ha. unfold hword. rewrite SH. exact (NB1 a Ha). }
  exists s2. split; [rewrite app_length, padd_add; eapply exec_to_trans; eauto|]. split.
  - destruct HQ2 as (Q1 & Q2 & Q3 & Q4). cbn [absH Heap.heap Heap.free Heap.frontier fst snd] in Q1, Q2, Q3.
    assert (RH2 : rget s2 HEAP = Some H0).
    { rewrite (KEEPR HEAP (or_intror eq_refl)), X4; [exact (hr_heapreg R)|discriminate|discriminate|discriminate]. }
    assert (RF2 : rget s2 FREE = Some f1) by (rewrite (KEEPR FREE (or_introl eq_refl)); exact X2).
    destruct R as [Fr0 Ro Hr Frr HQ0 Ids ND0 Vals]. split; auto.
    + rewrite RH2. now rewrite Q1.
    + rewrite RF2. now rewrite Q2.
    + rewrite <- Q3. split; [|split; [|split]]; cbn [abs_heap Heap.heap Heap.free Heap.frontier]; unfold reg_or0; rewrite ?RH2, ?RF2; auto.
      intros y Hy. destruct (Q4 y Hy) as [QA QB]. rewrite <- QA, <- QB. cbn [abs_heap absH Heap.m Heap.hdr Heap.ps fst].
      unfold abs_mem, hword, hget. cbn [Heap.hdr Heap.ps]. rewrite SH. auto.
    + rewrite (hsubst_ids re he he' HS). now rewrite ids_new.
    + now rewrite ids_new.
    + intros j x v q Hj.
      destruct (hsubst_nth re he he' j x v q HS Hj) as (pj & en & Hre & HL & -> & -> & ->).
      exists (fst pj). split; [now rewrite nth_error_map, Hre|].
      destruct (hlookup_Some he _ en HL) as (i & Hi & Ei). destruct en as [[y w] p]. cbn [h_val h_ptr h_id fst snd] in *.
      destruct (Vals i y w p Hi) as (bi & Hbi & V).
      destruct (SRC j pj Hre) as (i' & bi' & Hi' & Ei' & KC & KT).
      assert (i' = i).
      { destruct (henv_ctx_nth c he i y w p Ids Hi) as (b0 & Hb0 & Eb0).
        eapply (ids_nth_inj c i' i bi' b0); eauto. congruence. }
      subst i'. assert (bi' = bi) by congruence. subst bi'.
      assert (MV : forall n ta, allowed n bi -> atpos n i = Ok ta -> exists tb, atpos n j = Ok tb /\ lget s2 sp tb = lget s sp ta).
      { intros n ta AL Ta.
        destruct (subst_edge c re am n i bi j pj NDc NDn CN Hbi AL Hre (eq_sym Ei')) as (ta' & tb & Ta' & Tb & ED).
        assert (ta' = ta) by congruence. subst ta'. exists tb. split; [exact Tb|].
        rewrite (P1 ta tb ED). destruct (atpos_operand_ok n i ta Ta) as (VT & NF & _). now apply AG. }
      destruct V as [bi z p t A B T Lg|bi w p a t1 t2 A K1 K2 T1 T2 L1 L2 X].
      * destruct (MV Snd t (or_introl eq_refl) T) as (tb & Tb & Lb).
        eapply hv_int; eauto; congruence.
      * assert (AL : forall n, allowed n bi) by (intros n; right; exact A).
        destruct (MV Fst t1 (AL Fst) T1) as (tb1 & Tb1 & Lb1). destruct (MV Snd t2 (AL Snd) T2) as (tb2 & Tb2 & Lb2).
        eapply (hv_ptr types CLO s2 sp j (fst pj) w p a); eauto; try congruence.
        eapply (HRep.xrep_ext types CLO jump_length in64); [exact EXT|exact X].
  - split; [congruence|]. intros k Hk. rewrite (SK k Hk). now rewrite X5.
Qed.
End HSubst.
