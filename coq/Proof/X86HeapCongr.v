(* C06, heap statements: the operations of the abstract allocator (Model/Heap.v) respect the
   agreement up to zero padding `heq` (Proof/X86HeapDefs.v) between an abstract state whose blocks
   always have three pointer slots (in practice `abs_heap F s`) and the abstract heap `hs` of the
   instrumented machine (Sem/AxHeap.v), whose blocks have at most three slots (`P3`):
     heq_share / heq_erase / heq_release / heq_dec / heq_rc_ops      reference counts;
     P3_step / P3_hrun / P3_init                                    P3 is an invariant of the machine;
     heq_alloc / heq_alloc_object                                   allocation (`acq_ok` on the a side);
     heq_load_object                                                load of a chained object, both modes.
   The pointer slots change only in `alloc`, which always writes exactly three of them; everywhere
   else the two sides differ by trailing zeros, and erase 0 / share 0 are the identity. *)
From Coq Require Import List ZArith NArith String Bool Lia.
From SCC Require Import Sem.AxHeap.
From SCC Require Import Sem.X86Sem Proof.X86Mem Proof.X86MemFrame Proof.X86MemStoreChain Proof.X86HeapDefs.
From SCC Require Model.Heap Proof.HeapMore Proof.HeapRepAlloc Proof.HeapRepLoad.
Import ListNotations.
Open Scope list_scope.
Open Scope Z_scope.

(* ---------- the block-wise part of heq ---------- *)
Definition meq (ma mh : Heap.mem) : Prop :=
  forall x, is_blk x -> Heap.hdr (ma x) = Heap.hdr (mh x) /\ Heap.ps (ma x) = pad3 (Heap.ps (mh x)).

Lemma heq_meq a hs : heq a hs -> meq (Heap.m a) (Heap.m hs).
Proof. intros (_ & _ & _ & H). exact H. Qed.
Lemma heq_hdr a hs x : heq a hs -> is_blk x -> Heap.hdr (Heap.m a x) = Heap.hdr (Heap.m hs x).
Proof. intros (_ & _ & _ & H) Hx. now destruct (H x Hx). Qed.
Lemma heq_ps a hs x : heq a hs -> is_blk x -> Heap.ps (Heap.m a x) = pad3 (Heap.ps (Heap.m hs x)).
Proof. intros (_ & _ & _ & H) Hx. now destruct (H x Hx). Qed.
Lemma heq_intro a hs :
  Heap.heap a = Heap.heap hs -> Heap.free a = Heap.free hs -> Heap.frontier a = Heap.frontier hs ->
  meq (Heap.m a) (Heap.m hs) -> heq a hs.
Proof. intros H1 H2 H3 H4. split; [exact H1|]. split; [exact H2|]. split; [exact H3|exact H4]. Qed.

Lemma meq_set_hdr ma mh p h : meq ma mh -> meq (Heap.set_hdr ma p h) (Heap.set_hdr mh p h).
Proof.
  intros H x Hx. destruct (H x Hx) as [A B]. unfold Heap.set_hdr, Heap.upd.
  destruct (Z.eqb_spec x p) as [->|Hne]; cbn [Heap.hdr Heap.ps]; auto.
Qed.

(* ---------- reference counts ---------- *)
Lemma heq_share a hs p n : heq a hs -> (p = 0 \/ is_blk p) -> heq (Heap.share p n a) (Heap.share p n hs).
Proof.
  intros E Hp. unfold Heap.share. destruct (Z.eqb_spec p 0) as [|Hp0]; [exact E|].
  destruct Hp as [|Hb]; [contradiction|]. pose proof E as (E1 & E2 & E3 & E4).
  apply heq_intro; cbn [Heap.m Heap.heap Heap.free Heap.frontier]; auto.
  rewrite (heq_hdr a hs p E Hb). now apply meq_set_hdr.
Qed.

Lemma heq_erase a hs p : heq a hs -> (p = 0 \/ is_blk p) -> heq (Heap.erase p a) (Heap.erase p hs).
Proof.
  intros E Hp. unfold Heap.erase. destruct (Z.eqb_spec p 0) as [|Hp0]; [exact E|].
  destruct Hp as [|Hb]; [contradiction|]. pose proof E as (E1 & E2 & E3 & E4).
  rewrite (heq_hdr a hs p E Hb).
  destruct (Heap.hdr (Heap.m hs p) =? 0); apply heq_intro; cbn [Heap.m Heap.heap Heap.free Heap.frontier]; auto.
  - rewrite E2. now apply meq_set_hdr.
  - now apply meq_set_hdr.
Qed.

Lemma heq_release a hs p : heq a hs -> is_blk p -> heq (Heap.release p a) (Heap.release p hs).
Proof.
  intros E Hb. pose proof E as (E1 & E2 & E3 & E4). unfold Heap.release.
  apply heq_intro; cbn [Heap.m Heap.heap Heap.free Heap.frontier]; auto.
  rewrite E1. now apply meq_set_hdr.
Qed.

Lemma heq_dec a hs p : heq a hs -> is_blk p -> heq (Heap.dec p a) (Heap.dec p hs).
Proof.
  intros E Hb. pose proof E as (E1 & E2 & E3 & E4). unfold Heap.dec.
  apply heq_intro; cbn [Heap.m Heap.heap Heap.free Heap.frontier]; auto.
  rewrite (heq_hdr a hs p E Hb). now apply meq_set_hdr.
Qed.

Definition rc_opnd_ok (o : Heap.op) : Prop :=
  match o with Heap.OShare p _ | Heap.OErase p => p = 0 \/ is_blk p | _ => False end.

Lemma heq_rc_ops : forall ops a hs, heq a hs -> Forall rc_opnd_ok ops -> heq (hrun ops a) (hrun ops hs).
Proof.
  unfold hrun. induction ops as [|o ops IH]; intros a hs E Hops; cbn [fold_left]; [exact E|].
  inversion Hops as [|? ? Ho Hops']; subst. apply IH; [|exact Hops'].
  destruct o; cbn [rc_opnd_ok] in Ho; try contradiction; cbn [Heap.step].
  - now apply heq_share.
  - now apply heq_erase.
Qed.

(* ---------- P3 is an invariant of the instrumented machine ---------- *)
Definition machine_op (o : Heap.op) : Prop :=
  match o with Heap.OShare _ _ | Heap.OErase _ | Heap.OAllocObj _ | Heap.OLoadObj _ _ => True | _ => False end.

Lemma P3_ext hs hs' : (forall x, Heap.ps (Heap.m hs' x) = Heap.ps (Heap.m hs x)) -> P3 hs -> P3 hs'.
Proof. intros H K x. rewrite H. apply K. Qed.

Lemma P3_alloc hs P : P3 hs -> (List.length P <= 3)%nat -> P3 (snd (Heap.alloc P hs)).
Proof. intros K HP x. rewrite HeapRepAlloc.alloc_ps. destruct (x =? Heap.heap hs); [exact HP|apply K]. Qed.

Lemma len_block2 rest link : List.length (Heap.pad 2 (Heap.lastn 2 rest) ++ [link]) = 3%nat.
Proof.
  rewrite app_length, HeapRepAlloc.length_pad; [reflexivity|]. rewrite HeapRepAlloc.length_lastn. lia.
Qed.
Lemma len_block3 (fields : list Z) : List.length (Heap.pad 3 (Heap.lastn 3 fields)) = 3%nat.
Proof. rewrite HeapRepAlloc.length_pad; [reflexivity|]. rewrite HeapRepAlloc.length_lastn. lia. Qed.

Lemma P3_store_other : forall f rest link hs, P3 hs -> P3 (snd (Heap.store_other f rest link hs)).
Proof.
  induction f as [|f IH]; intros rest link hs K; [exact K|].
  destruct rest as [|x r]; [exact K|]. rewrite store_other_step by discriminate.
  apply IH. apply P3_alloc; [exact K|]. rewrite len_block2. lia.
Qed.

Lemma alloc_object_step fields a :
  fields <> [] ->
  Heap.alloc_object fields a =
  Heap.store_other (List.length fields) (Heap.butlastn 3 fields)
    (fst (Heap.alloc (Heap.pad 3 (Heap.lastn 3 fields)) a)) (snd (Heap.alloc (Heap.pad 3 (Heap.lastn 3 fields)) a)).
Proof.
  intros H. unfold Heap.alloc_object. destruct fields; [contradiction|].
  destruct (Heap.alloc _ a) as [b a1]. reflexivity.
Qed.

Lemma P3_alloc_object hs fields : P3 hs -> P3 (snd (Heap.alloc_object fields hs)).
Proof.
  intros K. destruct fields as [|x r]; [exact K|]. rewrite alloc_object_step by discriminate.
  apply P3_store_other. apply P3_alloc; [exact K|]. rewrite len_block3. lia.
Qed.

Lemma P3_step hs o : P3 hs -> machine_op o -> P3 (Heap.step hs o).
Proof.
  intros K Ho. destruct o; cbn [machine_op] in Ho; try contradiction; cbn [Heap.step].
  - eapply P3_ext; [|exact K]. intros x. apply HeapMore.share_ps.
  - eapply P3_ext; [|exact K]. intros x. apply HeapMore.erase_ps.
  - now apply P3_alloc_object.
  - eapply P3_ext; [|exact K]. intros x. apply HeapRepLoad.load_object_ps.
Qed.

Lemma P3_hrun : forall ops hs, P3 hs -> Forall machine_op ops -> P3 (hrun ops hs).
Proof.
  unfold hrun. induction ops as [|o ops IH]; intros hs K Hops; cbn [fold_left]; [exact K|].
  inversion Hops as [|? ? Ho Hops']; subst. apply IH; [|exact Hops']. now apply P3_step.
Qed.

Lemma P3_init base : P3 (Heap.init base).
Proof. intros x. cbn. lia. Qed.

(* ---------- folding an operation that ignores 0 over a padded list ---------- *)
Section FoldPad.
Variable f : Z -> Heap.st -> Heap.st.
Hypothesis f0 : forall s, f 0 s = s.

Lemma fold_pad3 l s : (List.length l <= 3)%nat ->
  fold_left (fun s c => f c s) (pad3 l) s = fold_left (fun s c => f c s) l s.
Proof.
  intros H. destruct l as [|x0 [|x1 [|x2 [|x3 r]]]]; cbn [List.length] in H; try lia;
    cbn [pad3 nth fold_left]; rewrite ?f0; reflexivity.
Qed.
Lemma fold_fields_pad3 l s : (List.length l <= 3)%nat ->
  fold_left (fun s c => f c s) (firstn 2 (pad3 l) ++ skipn 3 (pad3 l)) s =
  fold_left (fun s c => f c s) (firstn 2 l ++ skipn 3 l) s.
Proof.
  intros H. destruct l as [|x0 [|x1 [|x2 [|x3 r]]]]; cbn [List.length] in H; try lia;
    cbn [pad3 nth firstn skipn app fold_left]; rewrite ?f0; reflexivity.
Qed.
End FoldPad.

Lemma erase_0 s : Heap.erase 0 s = s. Proof. reflexivity. Qed.
Lemma share_0 n s : Heap.share 0 n s = s. Proof. reflexivity. Qed.

Lemma heq_erase_list : forall l a hs, heq a hs -> Forall (fun c => c = 0 \/ is_blk c) l ->
  heq (fold_left (fun s c => Heap.erase c s) l a) (fold_left (fun s c => Heap.erase c s) l hs).
Proof.
  induction l as [|c l IH]; intros a hs E Hl; cbn [fold_left]; [exact E|].
  inversion Hl as [|? ? Hc Hl']; subst. apply IH; [|exact Hl']. now apply heq_erase.
Qed.
Lemma heq_share_list : forall l a hs, heq a hs -> Forall (fun c => c = 0 \/ is_blk c) l ->
  heq (Heap.share_list l a) (Heap.share_list l hs).
Proof.
  unfold Heap.share_list. induction l as [|c l IH]; intros a hs E Hl; cbn [fold_left]; [exact E|].
  inversion Hl as [|? ? Hc Hl']; subst. apply IH; [|exact Hl']. now apply heq_share.
Qed.

(* ---------- acquire ---------- *)
Lemma heq_acquire a hs :
  heq a hs -> P3 hs -> is_blk (Heap.heap a) ->
  (Heap.hdr (Heap.m a (Heap.heap a)) = 0 -> is_blk (Heap.free a)) ->
  (Heap.hdr (Heap.m a (Heap.heap a)) = 0 -> Heap.hdr (Heap.m a (Heap.free a)) <> 0 ->
     Forall (fun c => c = 0 \/ is_blk c) (Heap.ps (Heap.m a (Heap.free a)))) ->
  fst (Heap.acquire a) = fst (Heap.acquire hs) /\ heq (snd (Heap.acquire a)) (snd (Heap.acquire hs)).
Proof.
  intros E K Hh Hf Hk. pose proof E as (E1 & E2 & E3 & E4). unfold Heap.acquire.
  rewrite <- E1, <- E2, <- (heq_hdr a hs _ E Hh).
  destruct (Z.eqb_spec (Heap.hdr (Heap.m a (Heap.heap a))) 0) as [H0|Hn0]; cbn [negb].
  2:{ cbn [fst snd]. split; [reflexivity|].
      apply heq_intro; cbn [Heap.m Heap.heap Heap.free Heap.frontier]; auto. now apply meq_set_hdr. }
  specialize (Hf H0). specialize (Hk H0). rewrite <- (heq_hdr a hs _ E Hf).
  destruct (Z.eqb_spec (Heap.hdr (Heap.m a (Heap.free a))) 0) as [F0|Fn0]; cbn [fst snd].
  - split; [reflexivity|]. apply heq_intro; cbn [Heap.m Heap.heap Heap.free Heap.frontier]; auto.
  - split; [reflexivity|]. specialize (Hk Fn0).
    rewrite <- (fold_pad3 (fun c s => Heap.erase c s) erase_0 (Heap.ps (Heap.m hs (Heap.free a)))) by (apply K).
    assert (EP : Heap.ps (Heap.m a (Heap.free a)) = pad3 (Heap.ps (Heap.m hs (Heap.free a)))) by (now apply heq_ps).
    rewrite <- EP. apply heq_erase_list; [|exact Hk].
    apply heq_intro; cbn [Heap.m Heap.heap Heap.free Heap.frontier]; auto. now apply meq_set_hdr.
Qed.

(* allocation of one block *)
Lemma heq_alloc a hs P : heq a hs -> P3 hs -> acq_ok a -> List.length P = 3%nat ->
  fst (Heap.alloc P a) = fst (Heap.alloc P hs) /\ heq (snd (Heap.alloc P a)) (snd (Heap.alloc P hs)) /\
  P3 (snd (Heap.alloc P hs)).
Proof.
  intros E K (A1 & A2 & A3 & A4) HP. pose proof E as (E1 & E2 & E3 & E4).
  assert (K' : P3 (snd (Heap.alloc P hs))) by (apply P3_alloc; [exact K|lia]).
  unfold Heap.alloc.
  set (A := {| Heap.m := Heap.set_ps (Heap.m a) (Heap.heap a) P; Heap.heap := Heap.heap a; Heap.free := Heap.free a; Heap.frontier := Heap.frontier a |}).
  set (B := {| Heap.m := Heap.set_ps (Heap.m hs) (Heap.heap hs) P; Heap.heap := Heap.heap hs; Heap.free := Heap.free hs; Heap.frontier := Heap.frontier hs |}).
  assert (EAB : heq A B).
  { apply heq_intro; unfold A, B; cbn [Heap.m Heap.heap Heap.free Heap.frontier]; auto.
    intros x Hx. rewrite <- E1. unfold Heap.set_ps, Heap.upd. destruct (E4 x Hx) as [X1 X2].
    destruct (Z.eqb_spec x (Heap.heap a)) as [->|Hne]; cbn [Heap.hdr Heap.ps].
    - split; [now apply heq_hdr|]. symmetry. now apply pad3_len3.
    - split; assumption. }
  assert (KB : P3 B).
  { intros x. unfold B. cbn [Heap.m]. unfold Heap.set_ps, Heap.upd. destruct (x =? Heap.heap hs); cbn [Heap.ps]; [lia|apply K]. }
  assert (HA : Heap.hdr (Heap.m A (Heap.heap A)) = Heap.hdr (Heap.m a (Heap.heap a))).
  { unfold A. cbn [Heap.m Heap.heap]. unfold Heap.set_ps. now rewrite Heap.upd_same. }
  destruct (heq_acquire A B EAB KB) as [Ef Es].
  - exact A1.
  - rewrite HA. exact A3.
  - rewrite HA. intros H0. specialize (A3 H0). unfold A. cbn [Heap.m Heap.free Heap.heap].
    unfold Heap.set_ps, Heap.upd. destruct (Z.eqb_spec (Heap.free a) (Heap.heap a)) as [e|Hne].
    + cbn [Heap.hdr]. rewrite <- e at 1. rewrite e, H0. intros X; contradiction.
    + intros Hn0. now destruct (A4 H0 Hn0).
  - split; [exact Ef|]. split; [exact Es|exact K'].
Qed.

(* ---------- the chain of allocations of an object ---------- *)
Lemma heq_store_other : forall f rest link a hs,
  heq a hs -> P3 hs -> chain_pre f rest link a ->
  fst (Heap.store_other f rest link a) = fst (Heap.store_other f rest link hs) /\
  heq (snd (Heap.store_other f rest link a)) (snd (Heap.store_other f rest link hs)).
Proof.
  induction f as [|f IH]; intros rest link a hs E K Pre.
  - cbn. auto.
  - destruct rest as [|x r]; [cbn; auto|].
    rewrite !store_other_step by discriminate. cbn [chain_pre] in Pre. destruct Pre as [A Pre].
    destruct (heq_alloc a hs (Heap.pad 2 (Heap.lastn 2 (x :: r)) ++ [link]) E K A (len_block2 _ _)) as (Ef & Es & K').
    rewrite <- Ef. apply IH; assumption.
Qed.

Lemma heq_alloc_object a hs fields : heq a hs -> P3 hs -> alloc_object_pre fields a ->
  fst (Heap.alloc_object fields a) = fst (Heap.alloc_object fields hs) /\
  heq (snd (Heap.alloc_object fields a)) (snd (Heap.alloc_object fields hs)).
Proof.
  intros E K Pre. destruct fields as [|x r]; [cbn; auto|].
  rewrite !alloc_object_step by discriminate. unfold alloc_object_pre in Pre. destruct Pre as [A Pre].
  destruct (heq_alloc a hs (Heap.pad 3 (Heap.lastn 3 (x :: r))) E K A (len_block3 _)) as (Ef & Es & K').
  rewrite <- Ef. apply heq_store_other; assumption.
Qed.

(* ---------- load of a chained object ---------- *)
Lemma heq_link_of a hs p : heq a hs -> is_blk p -> Heap.link_of (Heap.m a) p = Heap.link_of (Heap.m hs) p.
Proof. intros E Hp. unfold Heap.link_of. rewrite (heq_ps a hs p E Hp). now rewrite pad3_nth. Qed.

Lemma heq_load_object_release : forall k p a hs, heq a hs ->
  Forall is_blk (Heap.obj_blocks k (Heap.m a) p) ->
  heq (Heap.load_object_release k p a) (Heap.load_object_release k p hs).
Proof.
  induction k as [|k IH]; intros p a hs E Hb; cbn [Heap.load_object_release Heap.obj_blocks] in *;
    inversion Hb as [|? ? Hp Hb']; subst.
  - now apply heq_release.
  - rewrite <- (heq_link_of a hs p E Hp). apply IH; [now apply heq_release|].
    rewrite (HeapMore.obj_blocks_ext (Heap.m a)) by (intros; apply HeapMore.release_ps). exact Hb'.
Qed.

Definition slots_ok (l : list Z) : Prop := Forall (fun c => c = 0 \/ is_blk c) l.

Lemma slots_ok_fields l : slots_ok (pad3 l) -> slots_ok (firstn 2 (pad3 l) ++ skipn 3 (pad3 l)).
Proof.
  unfold slots_ok, pad3. cbn [firstn skipn app]. intros H.
  inversion H as [|? ? H0 H']; subst. inversion H' as [|? ? H1 _]; subst.
  apply Forall_cons; [exact H0|]. apply Forall_cons; [exact H1|]. apply Forall_nil.
Qed.

Lemma heq_share_walk : forall k p a hs, heq a hs -> P3 hs ->
  Forall is_blk (Heap.obj_blocks k (Heap.m a) p) ->
  (forall b, In b (Heap.obj_blocks k (Heap.m a) p) -> slots_ok (Heap.ps (Heap.m a b))) ->
  heq (Heap.share_walk k p a) (Heap.share_walk k p hs).
Proof.
  induction k as [|k IH]; intros p a hs E K Hb Hs; cbn [Heap.share_walk Heap.obj_blocks] in *;
    inversion Hb as [|? ? Hp Hb']; subst;
    pose proof (heq_ps a hs p E Hp) as EP; pose proof (Hs p ltac:(now left)) as Sp.
  - unfold Heap.share_list at 2.
    rewrite <- (fold_pad3 (fun c s => Heap.share c 1 s) (share_0 1) (Heap.ps (Heap.m hs p))) by (apply K).
    rewrite <- EP. now apply heq_share_list.
  - rewrite <- (heq_link_of a hs p E Hp).
    assert (E1 : heq (Heap.share_list (Heap.fields_of (Heap.m a) p) a) (Heap.share_list (Heap.fields_of (Heap.m hs) p) hs)).
    { unfold Heap.share_list at 2. unfold Heap.fields_of at 2.
      rewrite <- (fold_fields_pad3 (fun c s => Heap.share c 1 s) (share_0 1) (Heap.ps (Heap.m hs p))) by (apply K).
      rewrite <- EP. apply heq_share_list; [exact E|]. unfold Heap.fields_of. rewrite EP in *. now apply slots_ok_fields. }
    assert (Hps : forall x, Heap.ps (Heap.m (Heap.share_list (Heap.fields_of (Heap.m a) p) a) x) = Heap.ps (Heap.m a x))
      by (intros; apply HeapMore.share_list_ps).
    apply IH.
    + exact E1.
    + eapply P3_ext; [|exact K]. intros x. apply HeapMore.share_list_ps.
    + rewrite (HeapMore.obj_blocks_ext (Heap.m a)) by exact Hps. exact Hb'.
    + intros b Hin. rewrite (HeapMore.obj_blocks_ext (Heap.m a)) in Hin by exact Hps. rewrite Hps. apply Hs. now right.
Qed.

Lemma heq_load_object k p a hs : heq a hs -> P3 hs ->
  Forall is_blk (Heap.obj_blocks k (Heap.m a) p) ->
  (forall b, In b (Heap.obj_blocks k (Heap.m a) p) -> Forall (fun c => c = 0 \/ is_blk c) (Heap.ps (Heap.m a b))) ->
  heq (Heap.load_object k p a) (Heap.load_object k p hs).
Proof.
  intros E K Hb Hs.
  assert (Hp : is_blk p) by (destruct k; cbn [Heap.obj_blocks] in Hb; inversion Hb; assumption).
  unfold Heap.load_object. rewrite <- (heq_hdr a hs p E Hp).
  destruct (Heap.hdr (Heap.m a p) =? 0); [now apply heq_load_object_release|].
  unfold Heap.load_object_share.
  assert (Hps : forall x, Heap.ps (Heap.m (Heap.dec p a) x) = Heap.ps (Heap.m a x)) by (intros; apply HeapMore.dec_ps).
  apply heq_share_walk.
  - now apply heq_dec.
  - eapply P3_ext; [|exact K]. intros x. apply HeapMore.dec_ps.
  - rewrite (HeapMore.obj_blocks_ext (Heap.m a)) by exact Hps. exact Hb.
  - intros b Hin. rewrite (HeapMore.obj_blocks_ext (Heap.m a)) in Hin by exact Hps. rewrite Hps. now apply Hs.
Qed.

Print Assumptions heq_rc_ops.
Print Assumptions P3_hrun.
Print Assumptions heq_alloc_object.
Print Assumptions heq_load_object.
