(* C07, heap statements: a second non-vacuity example that crosses the register file.  The loop of Proof/AxHeapExample.v with
   twelve more integer parameters carried along (15 variables at the head of the loop, so every block pointer of the objects
   it allocates, the fields it loads and the variables it drops live in SPILL SLOTS; acquire_block into a spill slot while the
   reuse list is non-trivial, loads with the X10 evacuation).  Named AxCut, linearized by the model of the pass; all
   hypotheses of a64_codegen_simulates evaluated, the theorem applied, both machines computed. *)
From Coq Require Import String List ZArith NArith Bool Lia.
From SCC Require Import Base.Sexp Lang.AxSyn Sem.AxSem Sem.AxHeap Model.Backend Model.A64 Sem.A64Sem Sem.A64Wf
     Model.Linearize Model.LinCheck Proof.SimFrag Proof.A64SimAddr Proof.X86HAnn Proof.A64HSimTop Proof.A64HSimCor
     Proof.AxHeapExample.
From SCC Require Model.Heap Proof.AxHeapTyping Proof.X86HSimExample.
Import ListNotations.
Open Scope string_scope.
Open Scope N_scope.
Open Scope list_scope.

Definition wide_ids : list N := [30; 31; 32; 33; 34; 35; 36; 37; 38; 39; 40; 41].
Definition wide_ps : ctx := map (fun n => e (i "p" n)) wide_ids.

Definition wmain_body : stmt :=
  Create (i "k" 2) Cont None
    [ (i "Ret" 0, [e (i "r" 3)],
        Op (i "r" 3) Sum (i "w" 5) (i "s" 6) (PrintI64 true (i "s" 6) (Exit (i "s" 6)))) ]
  (Literal 0 (i "z" 4)
  (fold_right (fun n s => Literal (Z.of_N n) (i "p" n) s)
     (Call (i "loop" 0) ([e (i "n" 1); e (i "z" 4); ck (i "k" 2)] ++ wide_ps)) wide_ids)).

Definition wloop_ctx : ctx := [e (i "j" 10); e (i "acc" 11); ck (i "k" 12)] ++ wide_ps.
Definition wloop_body : stmt :=
  IfC Eq (i "j" 10) None
    (Op (i "acc" 11) Sum (i "p" 41) (i "res" 29) (Invoke (i "k" 12) (i "Ret" 0) Cont [e (i "res" 29)]))
    (Let (i "nil" 13) ListT (i "Nil" 0) []
    (Let (i "l1" 14) ListT (i "Cons" 0) [e (i "j" 10); pl (i "nil" 13)]
    (Let (i "l2" 15) ListT (i "Cons" 0) [e (i "j" 10); pl (i "l1" 14)]
    (Let (i "r" 16) RecT (i "R5" 0) [e (i "j" 10); e (i "acc" 11); pl (i "l2" 15); e (i "j" 10); pl (i "l2" 15)]
    (Switch (i "r" 16) RecT
      [ (i "R5" 0, [e (i "a" 17); e (i "b" 18); pl (i "l" 19); e (i "c" 20); pl (i "m" 21)],
          Switch (i "l" 19) ListT
            [ (i "Nil" 0, [], Invoke (i "k" 12) (i "Ret" 0) Cont [e (i "a" 17)]);
              (i "Cons" 0, [e (i "y" 22); pl (i "ys" 23)],
                 Switch (i "m" 21) ListT
                   [ (i "Nil" 0, [], Invoke (i "k" 12) (i "Ret" 0) Cont [e (i "y" 22)]);
                     (i "Cons" 0, [e (i "y2" 27); pl (i "ys2" 28)],
                        Literal 1 (i "one" 24)
                        (Op (i "j" 10) Sub (i "one" 24) (i "j2" 25)
                        (Op (i "acc" 11) Sum (i "y2" 27) (i "acc2" 26)
                        (Call (i "loop" 0) ([e (i "j2" 25); e (i "acc2" 26); ck (i "k" 12)] ++ wide_ps))))) ]) ]) ]))))).

Definition hxw_prog : prog :=
  mkp [mkd (i "main" 0) hmain_ctx wmain_body; mkd (i "loop" 0) wloop_ctx wloop_body] hx_types 50.
Definition hxw_lin : prog := linearize hxw_prog.
Definition hxw_code : list acode := match a64_compile hxw_lin 0 with Ok (cs, _, _) => cs | Err _ => [] end.

Open Scope Z_scope.
Lemma hxw_hypotheses :
  prog_ok hxw_prog = true /\
  lin_check_prog hxw_lin = true /\ ann_check_prog hxw_lin = true /\ AxHeapTyping.entry_ext hxw_lin = true /\
  plain_names hxw_lin = true /\ plain_types hxw_lin = true /\ lits_i64 hxw_lin = true /\ tags_i64 hxw_lin = true /\
  (exists lc', a64_compile hxw_lin 0 = Ok (hxw_code, 2%nat, lc')) /\ asm_wf hxw_code = None /\ code_small hxw_code = true /\
  args_i64 [3; 100] = true /\ X86HSimExample.fits_run 4000 hxw_lin [3; 100] = true.
Proof.
  split; [vm_compute; reflexivity|].
  split; [vm_compute; reflexivity|]. split; [vm_compute; reflexivity|]. split; [vm_compute; reflexivity|].
  split; [vm_compute; reflexivity|]. split; [vm_compute; reflexivity|]. split; [vm_compute; reflexivity|].
  split; [vm_compute; reflexivity|].
  split; [eexists; vm_compute; reflexivity|]. split; [vm_compute; reflexivity|]. split; [vm_compute; reflexivity|].
  split; [vm_compute; reflexivity|]. vm_compute. reflexivity.
Qed.

Lemma hxw_simulated : exists outer inner, fst (run_a64 outer inner hxw_code [3; 100]) = run_linear 4000 hxw_lin [3; 100].
Proof.
  destruct hxw_hypotheses as (_ & H1 & H2 & H3 & H4 & H5 & HL & HT & (lc' & H6) & H7 & H8 & HA & H9).
  eapply (a64_codegen_simulates hxw_lin 0 hxw_code 2 lc' [3; 100] 4000); eauto.
  - now apply fits_run_sound with (fuel := 4000%nat).
  - vm_compute. discriminate.
Qed.
(* both sides evaluated: 6 from the three iterations, + 41 (the last extra parameter, read back from its spill slot), + the
   captured 100; the code stores block pointers into spill slots (`STR X0, [SP, _]` occurs only in acquire_block into a
   spill slot) and evacuates X10 (`STR X10, [SP, 2040]`) *)
Lemma hxw_runs :
  run_linear 4000 hxw_lin [3; 100] = ([(true, 147)], OExit 147) /\
  fst (run_a64 40 4000 hxw_code [3; 100]) = ([(true, 147)], OExit 147) /\
  existsb (fun c => match c with STR (X 0) SP _ => true | _ => false end) hxw_code = true /\
  existsb (fun c => match c with STR (X 10) SP 2040 => true | _ => false end) hxw_code = true.
Proof. split; [vm_compute; reflexivity|]. split; [vm_compute; reflexivity|]. split; vm_compute; reflexivity. Qed.
