(* C07, forward simulation, part 7: programs of the CLOSURE fragment - integers and closures without
   captured variables: Substitute / Call / Literal / Op / PrintI64 / IfC / Exit as in the integer fragment,
   plus `create v : T = (){…}` and `invoke v D`.  This covers the programs the pipeline produces for
   first-order tail-recursive integer functions (the return continuation passed to every call is such a
   closure).  `sim_exec_cf` is the induction of Proof/A64SimProg.v with the two new statements, the relation
   instantiated with `clo_ok` (Proof/A64SimClo.v).  Port of Proof/X86SimProgC.v. *)
From Coq Require Import List ZArith NArith String Bool Lia FMapPositive.
From SCC Require Import Base.Sexp Lang.AxSyn Sem.AxSem Model.ParMoves Model.Backend Model.A64 Sem.A64Sem
     Model.Linearize Model.LinCheck Generated.Constants Proof.LinBasics
     Proof.A64State Proof.A64ImmHw Proof.A64Imm Proof.A64Sel Proof.A64PM Proof.A64Exec
     Proof.A64MemSubst Proof.SubstGraph Proof.SubstBackends Proof.A64Subst Proof.A64Wf Proof.A64Print
     Proof.A64SimRel Proof.A64SimStmt Proof.A64SimAddr Proof.A64SimClo Proof.A64SimProg.
Import ListNotations.
Open Scope Z_scope.
Open Scope list_scope.

Section MainCf.
Variable im : image.
Variable p : prog.
Variable sp : Z.
Variable st0 : PM.t Z.
Hypothesis IMG : img_ok im.
Hypothesis SMALL : forall pc a, PM.find pc (addr_of im) = Some a -> a < 4611686018427387904.
Hypothesis PLT : forall d, In d (ptypes p) -> hash_name (label_of_type_name (show_ident (tname d))) = false.
Notation CLO := (clo_ok im p).
Local Notation rel := (rel CLO).
Local Notation outer_ok := (outer_ok st0 sp).
Hypothesis DEFS : forall d, In d (pdefs p) ->
  exists pcd lcd cd lcd', find_label (labels im) (show_ident (dname d) +++ "_") = Some pcd /\
    PM.find pcd (code im) = Some (LAB (show_ident (dname d) +++ "_")) /\
    acs (ptypes p) (dbody d) (dctx d) lcd = Ok (cd, lcd') /\
    code_at im (Pos.succ pcd) cd /\ labels_at_nh im (Pos.succ pcd) cd.
Hypothesis CLEAN : exists pcc, find_label (labels im) "cleanup" = Some pcc /\
  forall s z, frame_ok s sp -> outer_ok s -> rget s RETURN1 = Some z -> finishes im pcc s (finish (out s) (OExit z)).
Hypothesis LIN : forall d, In d (pdefs p) -> lin_check (sigs_of p) (dctx d) (dbody d) = true.
Hypothesis INT : forall d, In d (pdefs p) -> stmt_cf (dbody d) = true.
Hypothesis LITS : forall d, In d (pdefs p) -> stmt_lits (dbody d) = true.

Lemma sim_exec_cf : forall fuel s c e ot st pc code lc lc',
  stmt_cf s = true -> stmt_lits s = true -> lin_check (sigs_of p) c s = true ->
  acs (ptypes p) s c lc = Ok (code, lc') -> code_at im pc code -> labels_at_nh im pc code ->
  rel c e st sp -> outer_ok st -> out st = ot ->
  not_oof (exec_linear fuel p e s ot) -> finishes im pc st (exec_linear fuel p e s ot).
Proof.
  induction fuel as [|fuel IH]; intros s c e ot st pc code lc lc' SI SL LC CS CA LA R OK OUT G.
  { exfalso. apply G. reflexivity. }
  pose proof (rel_frame R) as F. pose proof (proj2 F) as SPOK.
  destruct s as [re next|label args|v t tag args next|v t cls|v t env cls next|v tag t args|n v next|a op b v next|nl v next|so a b thenc elsec|v];
    try (cbn [stmt_cf] in SI; discriminate); cbn [exec_linear] in G |- *.
  - (* Substitute *)
    cbn [stmt_cf] in SI. apply andb_true_iff in SI as [SI1 SI2]. cbn [stmt_lits] in SL.
    cbn [lin_check] in LC. apply andb_true_iff in LC as [_ LC]. apply andb_true_iff in LC as [LCs LC].
    destruct (lookups_total e (map snd re)) as (vs & LK & LV).
    { intros x Hx. apply in_map_iff in Hx as (q & <- & Hq). rewrite forallb_forall in LCs. eapply (has_lookup_id CLO); eauto. }
    destruct (bind_total (map (fun r : binding * ident => bvar (fst r)) re) vs) as (e' & BD); [rewrite LV, !map_length; reflexivity|].
    rewrite LK, BD in G |- *.
    destruct (cs_substitute _ _ _ _ _ _ _ CS) as (c1 & lc1 & c2 & c3 & WC & CE & NX & ->).
    assert (NDn : NoDup (new_ids re)) by (rewrite <- ids_new; exact (lin_nodup _ _ _ LC)).
    rewrite app_assoc in CA, LA. apply code_at_app in CA as [CA2 CA3]. apply labels_at_nh_app in LA as [LA2 LA3].
    destruct (sim_substitute im CLO c e st sp re vs e' c1 lc lc1 c2 pc R NDn) as (s' & X & R' & FE); auto.
    { intros q Hq. rewrite forallb_forall in LCs. exact (LCs q Hq). }
    eapply exec_to_finishes; [exact X|].
    eapply (IH next (map fst re) e' ot s'); eauto.
    + eapply frame_eq_outer; eauto.
    + destruct FE as (_ & O & _). congruence.
  - (* Call *)
    cbn [lin_check] in LC. apply andb_true_iff in LC as [_ LC].
    destruct (lookup_label (sigs_of p) label) as [ps|] eqn:LL; [|discriminate].
    destruct (lookup_label_find_def p label ps LL) as (d & FD & <-).
    destruct (bind_total (vars (dctx d)) (map snd e)) as (e' & BD).
    { apply sig_match_iff, same_kt_length in LC. unfold vars. rewrite !map_length, (rel_length R). auto. }
    rewrite FD, BD in G |- *.
    unfold find_def in FD. apply find_some in FD as [IN EQ]. apply ident_eqb_eq in EQ. subst label.
    destruct (cs_call _ _ _ _ _ _ _ CS) as (-> & _).
    destruct (DEFS d IN) as (pcd & lcd & cd & lcd' & FL & CLb & CSd & CAd & LAd).
    apply code_at_cons in CA as [CJ _].
    eapply exec_to_finishes.
    { eapply exec_jump; [exact CJ|cbn [step]; unfold goto_label; rewrite FL; reflexivity|].
      eapply exec_next; [exact CLb|reflexivity|apply exec_refl]. }
    eapply (IH (dbody d) (dctx d) e' ot st); eauto.
    eapply bind_rel; eauto. exact (lin_nodup _ _ _ (LIN d IN)).
  - (* Create *)
    destruct (stmt_cf_create v t env cls next SI) as (-> & NE & CFc & CFn).
    destruct (stmt_lits_create v t (Some []) cls next SL) as (SLc & SLn).
    rewrite lin_check_create in LC. apply andb_true_iff in LC as [_ LC].
    cbn [List.length] in LC. unfold split_lastn in LC. cbn [Nat.leb] in LC. rewrite Nat.sub_0_r, firstn_all, skipn_all in LC.
    apply andb_true_iff in LC as [LC LCn]. apply andb_true_iff in LC as [LC LCc]. apply andb_true_iff in LC as [_ CO].
    assert (TN : exists tn, t = Decl tn).
    { unfold cls_ok, type_xtors in CO. destruct t as [|tn]; [discriminate|eauto]. }
    destruct TN as (tn & ->).
    cbn [ty_name List.length] in G |- *. unfold AxSem.split_last in G |- *. cbn [Nat.leb] in G |- *.
    rewrite Nat.sub_0_r, firstn_all, skipn_all in G |- *. cbn [env_ids map ids ids_eqb vars bind] in G |- *.
    assert (NHL : hash_name (type_label (Decl tn) (lc + 1)%N) = false).
    { unfold type_label. cbn [show_ty]. apply hash_name_sub.
      unfold cls_ok, type_xtors in CO. cbn [sigs_of sg_types] in CO.
      destruct (find (fun d => ident_eqb (tname d) tn) (ptypes p)) as [d|] eqn:FD; [|discriminate].
      apply find_some in FD as [IN EQ]. apply ident_eqb_eq in EQ. subst tn. exact (PLT d IN). }
    assert (STAT : forall cl, In cl cls -> clause_static p cl).
    { intros cl Hcl. unfold lin_clauses_cr in LCc. rewrite forallb_forall in LCc. specialize (LCc cl Hcl). rewrite app_nil_r in LCc.
      unfold clauses_cf in CFc. rewrite forallb_forall in CFc. specialize (CFc cl Hcl). apply andb_true_iff in CFc as [A B].
      unfold clauses_lits in SLc. rewrite forallb_forall in SLc. specialize (SLc cl Hcl). repeat split; auto. }
    destruct (sim_create im p IMG SMALL c e st sp v tn cls next lc code lc' pc R (lin_nodup _ _ _ LCn) CS CA LA NHL NE CO STAT)
      as (c12 & c3 & lc3 & rest & s' & -> & NX & E & R' & FE).
    apply code_at_app in CA as [CA1 CA2]. apply code_at_app in CA2 as [CA2 _].
    apply labels_at_nh_app in LA as [_ LA2]. apply labels_at_nh_app in LA2 as [LA2 _].
    eapply exec_to_finishes; [apply (run_straight_exec_to im _ pc st s' CA1 E)|].
    eapply (IH next (c ++ [mkb v Cns (Decl tn)]) _ ot s'); eauto.
    + eapply frame_eq_outer; eauto.
    + destruct FE as (_ & O & _). congruence.
  - (* Invoke *)
    destruct (invoke_progress im p c e st sp v tag t args R LC) as (e0 & x & tn & cls & cl & e1 & SPL & IDX & FC & BD).
    rewrite SPL, IDX, FC, BD in G |- *.
    destruct (sim_invoke im p c e st sp v tag t args code lc lc' pc e0 x tn cls [] cl e1 R SPL IDX FC BD LC CS CA)
      as (i & pcb & lcb & cb & lcb' & s' & X & TR & CSb & CAb & LAb & (LCb & CFb & CXb & SLb) & R' & FE).
    eapply exec_to_finishes; [exact X|]. apply TR.
    eapply (IH (cl_body cl) (cl_ctx cl) (e1 ++ []) ot s'); eauto.
    + eapply frame_eq_outer; eauto.
    + destruct FE as (_ & O & _). congruence.
  - (* Literal *)
    cbn [stmt_lits] in SL. apply andb_true_iff in SL as [SLn SL].
    cbn [lin_check] in LC. apply andb_true_iff in LC as [_ LC].
    destruct (cs_literal _ _ _ _ _ _ _ _ CS) as (tv & c2 & TV & NX & ->).
    destruct (sim_literal im CLO c e st sp n v tv R (lin_nodup _ _ _ LC) (proj1 (lit_i64_in64 n) SLn) TV) as (s' & E & R' & FE).
    apply code_at_app in CA as [CA1 CA2]. apply labels_at_nh_app in LA as [_ LA2].
    eapply exec_to_finishes; [apply (run_straight_exec_to im _ pc st s' CA1 E)|].
    eapply (IH next (c ++ [mkb v Ext I64]) _ ot s'); eauto.
    + eapply frame_eq_outer; eauto.
    + destruct FE as (_ & O & _). congruence.
  - (* Op *)
    cbn [stmt_lits] in SL.
    cbn [lin_check] in LC. apply andb_true_iff in LC as [_ LC]. apply andb_true_iff in LC as [LCo LC].
    apply andb_true_iff in LCo as [HA HB].
    destruct (has_ext_lookup_int CLO c e st sp a R HA) as (x & LA1).
    destruct (has_ext_lookup_int CLO c e st sp b R HB) as (y & LB1).
    rewrite LA1, LB1 in G |- *.
    destruct (cs_op _ _ _ _ _ _ _ _ _ _ CS) as (tv & ta & tb & c2 & TV & TA & TB & NX & ->).
    apply code_at_app in CA as [CA1 CA2]. apply labels_at_nh_app in LA as [_ LA2].
    destruct (eval_op op x y) as [z|w] eqn:EV.
    + destruct (sim_op im CLO c e st sp a op b v x y z tv ta tb R (lin_nodup _ _ _ LC) LA1 LB1 EV TV TA TB) as (s' & E & R' & FE).
      eapply exec_to_finishes; [apply (run_straight_exec_to im _ pc st s' CA1 E)|].
      eapply (IH next (c ++ [mkb v Ext I64]) _ ot s'); eauto.
      * eapply frame_eq_outer; eauto.
      * destruct FE as (_ & O & _). congruence.
    + destruct (sim_op_undef im CLO c e st sp a op b v x y w tv ta tb R (lin_nodup _ _ _ LC) LA1 LB1 EV TV TA TB) as (s' & E & O).
      rewrite <- OUT, <- O. eapply exec_undef_finishes; eauto.
  - (* PrintI64 *)
    cbn [stmt_lits] in SL.
    cbn [lin_check] in LC. apply andb_true_iff in LC as [_ LC]. apply andb_true_iff in LC as [HV LC].
    destruct (has_ext_lookup_int CLO c e st sp v R HV) as (z & LV).
    rewrite LV in G |- *.
    destruct (cs_print _ _ _ _ _ _ _ _ CS) as (tv & c2 & TV & NX & ->).
    destruct (sim_print im CLO c e st sp nl v z tv R LV TV) as (s' & E & R' & O & AE).
    apply code_at_app in CA as [CA1 CA2]. apply labels_at_nh_app in LA as [_ LA2].
    eapply exec_to_finishes; [apply (run_straight_exec_to im _ pc st s' CA1 E)|].
    eapply (IH next c e ((nl, z) :: ot) s'); eauto.
    + eapply above_eq_outer; eauto.
    + congruence.
  - (* IfC *)
    cbn [stmt_cf] in SI. apply andb_true_iff in SI as [SI1 SI2]. cbn [stmt_lits] in SL. apply andb_true_iff in SL as [SL1 SL2].
    cbn [lin_check] in LC. apply andb_true_iff in LC as [_ LC].
    apply andb_true_iff in LC as [LC LCe]. apply andb_true_iff in LC as [LCo LCt]. apply andb_true_iff in LCo as [HA HB].
    destruct (has_ext_lookup_int CLO c e st sp a R HA) as (x & LA1).
    assert (LB1 : exists y, match b with Some b0 => lookup_int e b0 | None => Some 0 end = Some y).
    { destruct b as [b|]; [|eauto]. exact (has_ext_lookup_int CLO c e st sp b R HB). }
    destruct LB1 as (y & LB1). rewrite LA1, LB1 in G |- *.
    destruct (sim_ifc im CLO c e st sp so a b x y (ptypes p) thenc elsec lc code lc' pc R LA1 LB1 CS CA LA)
      as (c1 & c2 & lc2 & c3 & s' & -> & EL & TH & X & R' & FE).
    assert (OK' : outer_ok s') by (eapply frame_eq_outer; eauto).
    assert (O' : out s' = ot) by (destruct FE as (_ & O & _); congruence).
    eapply exec_to_finishes; [exact X|].
    apply code_at_app in CA as [_ CA]. apply code_at_app in CA as [CA2 CA]. apply code_at_app in CA as [_ CA3].
    apply labels_at_nh_app in LA as [_ LA]. apply labels_at_nh_app in LA as [LA2 LA]. apply labels_at_nh_app in LA as [_ LA3].
    rewrite <- !padd_add in CA3, LA3. cbn [List.length] in CA3, LA3. rewrite Nat.add_assoc in CA3, LA3.
    destruct (eval_cmp so x y).
    + eapply (IH thenc c e ot s'); eauto.
    + eapply (IH elsec c e ot s'); eauto.
  - (* Exit *)
    cbn [lin_check] in LC. apply andb_true_iff in LC as [_ HV].
    destruct (has_ext_lookup_int CLO c e st sp v R HV) as (z & LV).
    rewrite LV in G |- *.
    destruct (cs_exit _ _ _ _ _ _ CS) as (tv & TV & -> & _).
    destruct (sim_exit_mov im CLO c e st sp v z tv R LV TV) as (s' & E & RAX & F' & FE).
    apply code_at_app in CA as [CA1 CA2]. apply code_at_cons in CA2 as [CJ _].
    destruct CLEAN as (pcc & FL & EPI).
    eapply exec_to_finishes; [apply (run_straight_exec_to im _ pc st s' CA1 E)|].
    eapply exec_to_finishes.
    { eapply exec_jump; [exact CJ|cbn [step]; unfold goto_label; rewrite FL; reflexivity|apply exec_refl]. }
    replace ot with (out s') by (destruct FE as (_ & O & _); congruence).
    apply EPI; auto. eapply frame_eq_outer; eauto.
Qed.
End MainCf.
