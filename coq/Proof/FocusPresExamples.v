(* C03, semantic preservation: non-vacuity of the hypotheses of the preservation theorems
   (Proof/FocusPres.v), by computation.

   ex_order : def main() { exit ((mu a. print 1; <10|a>) + ((mu b. print 2; <20|b>) * (mu c. print 3; <3|c>))) }
              nested effectful operands; the order 1 2 3 of the prints is observable.
   ex_data  : def main() { <Pair((mu a. print 1; <5|a>), (mu b. print 2; <6|b>)) | case { Pair(x,y) => f(y - (mu c. print 3; <x|c>)) }> }
              def f(z) { print z; exit z }     constructor arguments, a call argument, a case.
   ex_lists : the fun2core output of examples/Lists/Lists.sc (closures, data, calls, mu-arguments). *)
From Coq Require Import List ZArith NArith String Bool Lia.
From SCC Require Import Base.Sexp Lang.CoreSyn Sem.AxSem Sem.CoreSem Model.Backend Model.Uniquify Model.Focus
     Model.FocusCheck Proof.FocusExamples Proof.FocusSim Proof.FocusRun Proof.FocusFrag Proof.FocusPres Proof.UqAeq.
From SCC Require Import Model.FocusGuard.
Import ListNotations.
Open Scope string_scope.
Open Scope Z_scope.

Definition mu_print (a : string) (n v : Z) : cterm :=
  CMu CPrd (a, 0%N) (CPrint false (CLit n) (CCut (CLit v) CI64 (CXVar CCns (a, 0%N) CI64))) CI64.

Definition ex_order : cprog :=
  mkcp [mkcd ("main", 0%N) []
          (CExit (COp (mu_print "a" 1 10) CSum (COp (mu_print "b" 2 20) CProd (mu_print "c" 3 3))) CI64)]
       [] [] 0%N.

Definition checks (p : cprog) (bn kr : bool) (fuel fuel' : nat) (args : list Z) (expect : obs) : bool :=
  pre_check p && focus_wf p && cs_prog p && sg_prog bn kr p && tc_prog p && tc_entry p && static_ok p && clash_free_prog fuel p args &&
  match uniquify_prog p, focus_prog p with
  | Ok p1, Ok q =>
      sg_prog bn kr p1 && clash_free_prog fuel p1 args &&
      obs_eqb (run_core fuel p1 args) expect && obs_eqb (run_core fuel p args) expect &&
      obs_eqb (run_fs fuel' q args) expect
  | _, _ => false
  end.

Example ex_order_ok : checks ex_order false true 100 200 [] ([(false, 1); (false, 2); (false, 3)], OExit 70) = true.
Proof. vm_compute. reflexivity. Qed.

Definition pairty : cty := CDecl ("Pair", 0%N).
Definition ex_data : cprog :=
  mkcp [mkcd ("main", 0%N) []
          (CCut (CXtor CPrd ("Pair", 0%N) [CProducer (mu_print "a" 1 5); CProducer (mu_print "b" 2 6)] pairty) pairty
                (CXCase CCns [CClause CCns ("Pair", 0%N) [mkcb ("x", 0%N) CPrd CI64; mkcb ("y", 0%N) CPrd CI64]
                                (CCall ("f", 0%N)
                                   [CProducer (COp (CXVar CPrd ("y", 0%N) CI64) CSub
                                      (CMu CPrd ("c", 0%N) (CPrint false (CLit 3)
                                         (CCut (CXVar CPrd ("x", 0%N) CI64) CI64 (CXVar CCns ("c", 0%N) CI64))) CI64))] CI64)]
                   pairty));
        mkcd ("f", 0%N) [mkcb ("z", 0%N) CPrd CI64]
          (CPrint true (CXVar CPrd ("z", 0%N) CI64) (CExit (CXVar CPrd ("z", 0%N) CI64) CI64))]
       [mkct CData ("Pair", 0%N) [mkcx CData ("Pair", 0%N) [mkcb ("x", 0%N) CPrd CI64; mkcb ("y", 0%N) CPrd CI64]]] [] 0%N.

Example ex_data_ok : checks ex_data false true 100 300 [] ([(false, 1); (false, 2); (false, 3); (true, 1)], OExit 1) = true.
Proof. vm_compute. reflexivity. Qed.

(* by-name AND by-value mu-abstractions in one program: outside both syntactic guards, but typed
     codata Fun { ap(x : i64, a : cns i64) }
     def main() { exit (mu a:i64. < mu f:Fun. <cocase { ap(x, b) => <x + 1 | b> } | f>
                                  | mu~ g:Fun. < g | ap((mu c:i64. print 1; <41 | c>), a) > >) } *)
Definition funty : cty := CDecl ("Fun", 0%N).
Definition ex_mixed : cprog :=
  mkcp [mkcd ("main", 0%N) []
          (CExit (CMu CPrd ("a", 0%N)
             (CCut (CMu CPrd ("f", 0%N)
                      (CCut (CXCase CPrd [CClause CPrd ("ap", 0%N) [mkcb ("x", 0%N) CPrd CI64; mkcb ("b", 0%N) CCns CI64]
                                            (CCut (COp (CXVar CPrd ("x", 0%N) CI64) CSum (CLit 1)) CI64 (CXVar CCns ("b", 0%N) CI64))] funty)
                            funty (CXVar CCns ("f", 0%N) funty)) funty)
                   funty
                   (CMu CCns ("g", 0%N)
                      (CCut (CXVar CPrd ("g", 0%N) funty) funty
                            (CXtor CCns ("ap", 0%N) [CProducer (mu_print "c" 1 41); CConsumer (CXVar CCns ("a", 0%N) CI64)] funty)) funty))
             CI64) CI64)]
       [] [mkct CCodata ("Fun", 0%N) [mkcx CCodata ("ap", 0%N) [mkcb ("x", 0%N) CPrd CI64; mkcb ("a", 0%N) CCns CI64]]] 0%N.
Example ex_mixed_ok :
  negb (sg_prog false true ex_mixed) && negb (sg_prog true false ex_mixed) &&
  pre_check ex_mixed && focus_wf ex_mixed && cs_prog ex_mixed && tc_prog ex_mixed && tc_entry ex_mixed && static_ok ex_mixed &&
  match focus_prog ex_mixed with
  | Ok q => obs_eqb (run_core 100 ex_mixed []) ([(false, 1)], OExit 42) && obs_eqb (run_fs 300 q []) ([(false, 1)], OExit 42)
  | Err _ => false
  end = true.
Proof. vm_compute. reflexivity. Qed.

(* a real translation output inside the guard "no by-name value" *)
Definition checks_str (s : string) (fuel fuel' : nat) : bool :=
  match parse_prog s with
  | Some p =>
      pre_check p && focus_wf p && cs_prog p && sg_prog false true p && tc_prog p && tc_entry p &&
      match uniquify_prog p, focus_prog p with
      | Ok p1, Ok q =>
          sg_prog false true p1 && obs_eqb (run_core fuel p []) (run_fs fuel' q []) && obs_eqb (run_core fuel p1 []) (run_fs fuel' q []) &&
          match snd (run_core fuel p1 []) with OExit _ => true | _ => false end
      | _, _ => false
      end
  | None => false
  end.
Example ex_lists_ok : checks_str ex_lists (100 * 50) (100 * 200) = true.
Proof. vm_compute. reflexivity. Qed.
