(* C06, forward simulation of the x86-64 code generator, part 3: PrintI64.  The code `x_print` emits
   (backup of the live caller-saved registers into free callee-saved registers or onto the stack,
   alignment padding, argument move, external call, restore) is executed on the external-call model of
   Sem/X86Sem.v (alignment check, havoc of every caller-saved register, of the flags and of the stack
   below rsp): for EVERY integer context - from one variable to beyond the register file - every live
   variable keeps its value, the value printed is the variable's, rsp is restored. *)
From Coq Require Import List ZArith NArith String Bool Lia FMapPositive SetoidList.
From SCC Require Import Base.Sexp Lang.AxSyn Sem.AxSem Model.ParMoves Model.Backend Model.X86 Sem.X86Sem
     Generated.Constants Proof.X86State Proof.X86Sel Proof.X86Exec Proof.X86ParMoves Proof.SubstGraph Proof.X86Subst
     Proof.X86SimRel Proof.X86SimStmt.
Import ListNotations.
Open Scope Z_scope.
Open Scope list_scope.

(* ---------- the external call's havoc, read back ---------- *)
Lemma fold_remove_find (l : list N) : forall (m : PM.t Z) (r : N),
  PM.find (N.succ_pos r) (fold_left (fun m r => PM.remove (N.succ_pos r) m) l m) =
  if existsb (N.eqb r) l then None else PM.find (N.succ_pos r) m.
Proof.
  induction l as [|x l IH]; intros m r; cbn [fold_left existsb]; [reflexivity|].
  rewrite IH. destruct (existsb (N.eqb r) l); [now rewrite orb_true_r|]. rewrite orb_false_r.
  destruct (N.eqb_spec r x) as [->|NE]; [apply PM.grs|]. apply PM.gro. intros E. apply succ_pos_inj in E. congruence.
Qed.
Lemma rget_havoc s x r : rget (havoc_call s x) r = if existsb (N.eqb r) caller_saved then None else rget s r.
Proof. unfold rget, havoc_call. cbn [regs]. apply fold_remove_find. Qed.

Section FoldFilter.
Variable P : positive -> bool.
Let stepf (a : PM.t Z) (p : positive * Z) := if P (fst p) then a else PM.add (fst p) (snd p) a.
Lemma ff_drop k : P k = true -> forall l acc, PM.find k (fold_left stepf l acc) = PM.find k acc.
Proof.
  intros Pk. induction l as [|[k' v'] l IH]; intros acc; cbn [fold_left]; [reflexivity|].
  rewrite IH. unfold stepf; cbn [fst snd]. destruct (P k') eqn:Pk'; [reflexivity|].
  apply PM.gso. congruence.
Qed.
Lemma ff_absent k : forall l acc, (forall v, ~ In (k, v) l) -> PM.find k (fold_left stepf l acc) = PM.find k acc.
Proof.
  induction l as [|[k' v'] l IH]; intros acc H; cbn [fold_left]; [reflexivity|].
  rewrite IH by (intros v Hv; apply (H v); now right). unfold stepf; cbn [fst snd].
  destruct (P k'); [reflexivity|]. apply PM.gso. intros ->. apply (H v'). now left.
Qed.
Lemma ff_keep k v : P k = false -> forall l acc,
  NoDupA (@PM.eq_key Z) l -> In (k, v) l -> PM.find k (fold_left stepf l acc) = Some v.
Proof.
  intros Pk. induction l as [|[k' v'] l IH]; intros acc ND Hin; [destruct Hin|].
  inversion ND as [|? ? NI ND']; subst. cbn [fold_left]. destruct Hin as [E|Hin].
  - inversion E; subst. rewrite ff_absent.
    + unfold stepf; cbn [fst snd]. rewrite Pk. apply PM.gss.
    + intros w Hw. apply NI. apply InA_alt. exists (k, w). split; [reflexivity|exact Hw].
  - now apply IH.
Qed.
End FoldFilter.

Definition kget (s : xstate) (a : Z) : option Z := PM.find (key a) (stack s).
Lemma key_pos a : 0 <= a -> Z.pos (key a) - 1 = a.
Proof. intros H. unfold key. rewrite Z2Pos.id by lia. lia. Qed.
Lemma kget_havoc s x a : 0 <= a -> kget (havoc_call s x) a = if a <? x then None else kget s a.
Proof.
  intros A. unfold kget, havoc_call. cbn [stack]. rewrite PM.fold_1.
  set (P := fun k : positive => Z.pos k - 1 <? x).
  change (fun (a0 : PM.t Z) (p : PM.key * Z) => if Z.pos (fst p) - 1 <? x then a0 else PM.add (fst p) (snd p) a0)
    with (fun (a0 : PM.t Z) (p : positive * Z) => if P (fst p) then a0 else PM.add (fst p) (snd p) a0).
  assert (PK : P (key a) = (a <? x)) by (unfold P; now rewrite key_pos).
  destruct (a <? x) eqn:LT.
  - rewrite (ff_drop P (key a) PK). apply PM.gempty.
  - destruct (PM.find (key a) (stack s)) as [v|] eqn:Fk.
    + apply (ff_keep P (key a) v PK); [apply PM.elements_3w|now apply PM.elements_correct].
    + rewrite ff_absent; [apply PM.gempty|]. intros v Hv. apply PM.elements_complete in Hv. congruence.
Qed.

(* ---------- the registers to save, for an integer context ---------- *)
Lemma is_int_binding_inv b : is_int_binding b = true -> exists v, b = mkb v Ext I64.
Proof. destruct b as [v ch t]. unfold is_int_binding; cbn. destruct ch, t; try discriminate. eauto. Qed.
Lemma csri_int c : ctx_int c = true ->
  caller_save_registers_info c = (N.max (2 * N.of_nat (List.length c) + 4) 12, firstn (List.length c) [5; 7; 9; 11]%N).
Proof.
  intros H. unfold caller_save_registers_info.
  change CALLER_SAVE_LAST with 11%N. change CALLER_SAVE_FIRST with 4%N. change RESERVED with 4%N.
  change (N.to_nat ((11 + 1 - 4) / 2)) with 4%nat. change (11 + 1)%N with 12%N.
  f_equal.
  destruct c as [|b0 [|b1 [|b2 [|b3 rest]]]]; cbn [firstn List.length]; rewrite ?firstn_nil; unfold ctx_int in H; cbn [forallb] in H;
  repeat match goal with H : _ && _ = true |- _ => apply andb_true_iff in H as [? H] end;
  repeat match goal with H : is_int_binding ?b = true |- _ => apply is_int_binding_inv in H as (? & ->) end;
  reflexivity.
Qed.

(* ---------- raw stack words, push / pop / call as state transformers ---------- *)
Definition kset (s : xstate) (a : Z) (v : option Z) : xstate :=
  {| regs := regs s; heap := heap s;
     stack := match v with Some z => PM.add (key a) z (stack s) | None => PM.remove (key a) (stack s) end;
     flags := flags s; out := out s; hw := hw s |}.
Definition oset (s : xstate) (o : prints) : xstate :=
  {| regs := regs s; heap := heap s; stack := stack s; flags := flags s; out := o; hw := hw s |}.
Definition stk_ok (a : Z) : Prop := a mod 8 = 0 /\ STACK_LIMIT <= a /\ a + 8 <= STACK_TOP.

Ltac zlia := Z.to_euclidean_division_equations; lia.

Lemma stk_ok_facts a : stk_ok a -> aligned a = true /\ in_heap a = false /\ in_stack a = true /\ 0 <= a.
Proof.
  intros (A & L & H). unfold aligned, in_heap, in_stack, STACK_LIMIT, STACK_TOP, HEAP_BASE, HEAP_SIZE in *.
  rewrite A. repeat split; try reflexivity; try lia.
Qed.
Lemma mstore_stk s a v : stk_ok a -> mstore s a v = MOk (kset s a v).
Proof. intros H. destruct (stk_ok_facts a H) as (A & B & C & _). unfold mstore. rewrite A, B, C. reflexivity. Qed.
Lemma mload_stk s a : stk_ok a -> mload s a = MOk (kget s a).
Proof. intros H. destruct (stk_ok_facts a H) as (A & B & C & _). unfold mload. rewrite A, B, C. reflexivity. Qed.

Lemma kget_kset_same s a v : kget (kset s a v) a = v.
Proof. unfold kget, kset; destruct v; cbn; [apply PM.gss|apply PM.grs]. Qed.
Lemma kget_kset_other s a b v : 0 <= a -> 0 <= b -> a <> b -> kget (kset s a v) b = kget s b.
Proof.
  intros A B N. unfold kget, kset; destruct v; cbn; [apply PM.gso|apply PM.gro]; intros E; apply key_inj in E; auto.
Qed.
Lemma kget_rset s r v a : kget (rset s r v) a = kget s a. Proof. reflexivity. Qed.
Lemma kget_set_flags s f a : kget (set_flags s f) a = kget s a. Proof. reflexivity. Qed.
Lemma kget_oset s o a : kget (oset s o) a = kget s a. Proof. reflexivity. Qed.
Lemma rget_kset s a v r : rget (kset s a v) r = rget s r. Proof. reflexivity. Qed.
Lemma rget_oset s o r : rget (oset s o) r = rget s r. Proof. reflexivity. Qed.
Lemma sget_kget s sp p : sget s sp p = kget s (slot_addr sp p). Proof. reflexivity. Qed.

Lemma rget_havoc_keep s x r : existsb (N.eqb r) caller_saved = false -> rget (havoc_call s x) r = rget s r.
Proof. intros H. now rewrite rget_havoc, H. Qed.
Lemma out_kset s a v : out (kset s a v) = out s. Proof. reflexivity. Qed.
Lemma out_oset s o : out (oset s o) = o. Proof. reflexivity. Qed.
Lemma out_havoc s x : out (havoc_call s x) = out s. Proof. reflexivity. Qed.
Lemma heap_havoc s x : heap (havoc_call s x) = heap s. Proof. reflexivity. Qed.
Lemma hw_havoc s x : hw (havoc_call s x) = hw s. Proof. reflexivity. Qed.

Section PrintSteps.
Variable im : image.
Lemma step_PUSH s a x : rget s 0%N = Some x -> stk_ok (x - 8) ->
  step im (PUSH a) s = Next (rset (kset s (x - 8) (rget s a)) 0%N (Some (x - 8))).
Proof. intros R K. cbn [step]. unfold need, withm. rewrite R, mstore_stk by exact K. reflexivity. Qed.
Lemma step_POP s a x : rget s 0%N = Some x -> stk_ok x ->
  step im (POP a) s = Next (rset (rset s a (kget s x)) 0%N (Some (x + 8))).
Proof. intros R K. cbn [step]. unfold need, withm. rewrite R, mload_stk by exact K. reflexivity. Qed.
Lemma wrap_small z : min_int <= z <= max_int -> wrap z = z.
Proof. unfold wrap, min_int, max_int, two63, two64. intros H. rewrite Z.mod_small by lia. lia. Qed.
Lemma step_SUBI8 s x : rget s 0%N = Some x -> 0 <= x <= STACK_TOP ->
  step im (SUBI 0%N 8) s = Next (set_flags (rset s 0%N (Some (x - 8))) None).
Proof.
  intros R K. cbn [step]. change (fits32 8) with true. cbv iota.
  unfold need. rewrite R. rewrite wrap_small; [reflexivity|]. unfold min_int, max_int, two63, STACK_TOP in *. lia.
Qed.
Lemma step_ADDI8 s x : rget s 0%N = Some x -> 0 <= x <= STACK_TOP ->
  step im (ADDI 0%N 8) s = Next (set_flags (rset s 0%N (Some (x + 8))) None).
Proof.
  intros R K. cbn [step]. change (fits32 8) with true. cbv iota.
  unfold need. rewrite R. rewrite wrap_small; [reflexivity|]. unfold min_int, max_int, two63, STACK_TOP in *. lia.
Qed.
Definition print_name (nl : bool) : string := if nl then "println_i64" else "print_i64".
Lemma step_CALL s nl x v : rget s 0%N = Some x -> x mod 16 = 0 -> rget s 7%N = Some v ->
  step im (CALL (print_name nl)) s = Next (havoc_call (oset s ((nl, v) :: out s)) x).
Proof.
  intros R A V. destruct nl; cbn [print_name step String.eqb Ascii.eqb Bool.eqb orb]; unfold need; rewrite R;
    assert (E : (x mod 16 =? 0) = true) by (now apply Z.eqb_eq); rewrite E; cbn [negb]; rewrite V; reflexivity.
Qed.
End PrintSteps.

Lemma kget_havoc_keep s x a : 0 <= a -> x <= a -> kget (havoc_call s x) a = kget s a.
Proof. intros A B. rewrite kget_havoc by exact A. destruct (Z.ltb_spec a x); [lia|reflexivity]. Qed.
Lemma kget_kset_eq s a b v : a = b -> kget (kset s a v) b = v.
Proof. intros ->. apply kget_kset_same. Qed.
Lemma heap_kset s a v : heap (kset s a v) = heap s. Proof. reflexivity. Qed.
Lemma heap_oset s o : heap (oset s o) = heap s. Proof. reflexivity. Qed.
Lemma hw_kset s a v : hw (kset s a v) = hw s. Proof. reflexivity. Qed.
Lemma hw_oset s o : hw (oset s o) = hw s. Proof. reflexivity. Qed.
Lemma hw_rset s r v : hw (rset s r v) = hw s. Proof. reflexivity. Qed.
Lemma hw_set_flags s f : hw (set_flags s f) = hw s. Proof. reflexivity. Qed.

Ltac rdk :=
  repeat first
    [ rewrite rget_rset_same | rewrite rget_rset_other by (first [congruence | lia])
    | rewrite rget_kset | rewrite rget_set_flags | rewrite rget_oset
    | rewrite kget_rset | rewrite kget_set_flags | rewrite kget_oset
    | rewrite rget_havoc_keep by reflexivity
    | rewrite kget_havoc_keep by lia
    | rewrite kget_kset_eq by lia
    | rewrite kget_kset_other by lia
    | rewrite out_rset | rewrite out_set_flags | rewrite out_kset | rewrite out_oset | rewrite out_havoc
    | rewrite heap_rset | rewrite heap_set_flags | rewrite heap_kset | rewrite heap_oset | rewrite heap_havoc
    | rewrite hw_rset | rewrite hw_set_flags | rewrite hw_kset | rewrite hw_oset | rewrite hw_havoc ].
Ltac stk := unfold stk_ok, STACK_LIMIT, STACK_TOP; zlia.
Ltac xstep im :=
  lazymatch goal with
  | |- match step im (MOV ?a ?b) ?s with _ => _ end = _ => rewrite (step_MOV im s a b); cbv iota beta; rdk
  | |- match step im (PUSH ?a) ?s with _ => _ end = _ =>
      let H := fresh "H" in
      eassert (H : rget s 0%N = Some _) by (rdk; first [reflexivity | eassumption]);
      rewrite (step_PUSH im s a _ H) by stk; clear H; cbv iota beta; rdk
  | |- match step im (POP ?a) ?s with _ => _ end = _ =>
      let H := fresh "H" in
      eassert (H : rget s 0%N = Some _) by (rdk; first [reflexivity | eassumption]);
      rewrite (step_POP im s a _ H) by stk; clear H; cbv iota beta; rdk
  | |- match step im (SUBI 0%N 8) ?s with _ => _ end = _ =>
      let H := fresh "H" in
      eassert (H : rget s 0%N = Some _) by (rdk; first [reflexivity | eassumption]);
      rewrite (step_SUBI8 im s _ H) by (unfold STACK_TOP; lia); clear H; cbv iota beta; rdk
  | |- match step im (ADDI 0%N 8) ?s with _ => _ end = _ =>
      let H := fresh "H" in
      eassert (H : rget s 0%N = Some _) by (rdk; first [reflexivity | eassumption]);
      rewrite (step_ADDI8 im s _ H) by (unfold STACK_TOP; lia); clear H; cbv iota beta; rdk
  | |- match step im (CALL (print_name ?nl)) ?s with _ => _ end = _ =>
      let H := fresh "H" in let V := fresh "V" in
      eassert (H : rget s 0%N = Some _) by (rdk; first [reflexivity | eassumption]);
      eassert (V : rget s 7%N = Some _) by (rdk; eassumption);
      rewrite (step_CALL im s nl _ _ H) by (first [zlia | exact V]); clear H V; cbv iota beta; rdk
  end.

Lemma save_restore_big fb regs : (16 <= fb)%N ->
  save_caller_save_registers fb regs = map PUSH regs ++ (if Nat.even (List.length regs) then [SUBI 0%N 8] else []) /\
  restore_caller_save_registers fb regs = (if Nat.even (List.length regs) then [ADDI 0%N 8] else []) ++ map POP (rev regs).
Proof.
  intros H. unfold save_caller_save_registers, restore_caller_save_registers, backup_used.
  change REGISTER_NUM with 16%N. replace (N.to_nat (16 - fb)) with O by lia. rewrite Nat.min_0_r.
  cbn [firstn skipn combine map app nseq N.of_nat N.to_nat seq]. rewrite Nat.sub_0_r. split; reflexivity.
Qed.

Section PrintCore.
Variable im : image.

Lemma print_core c s sp nl z rs :
  ctx_int c = true -> frame_ok s sp -> sp mod 16 = 8 -> STACK_LIMIT + 64 <= sp ->
  rget s rs = Some z -> rs <> 0%N -> (rs < 2 * N.of_nat (List.length c) + 4)%N ->
  exists s', exec_straight im (save_caller_save_registers (fst (caller_save_registers_info c)) (snd (caller_save_registers_info c))
                               ++ [MOV (arg 0) rs] ++ [CALL (print_name nl)]
                               ++ restore_caller_save_registers (fst (caller_save_registers_info c)) (snd (caller_save_registers_info c))) s = Some s' /\
    rget s' 0%N = Some sp /\
    (forall i, (i < List.length c)%nat -> (i < 6)%nat -> rget s' (5 + 2 * N.of_nat i)%N = rget s (5 + 2 * N.of_nat i)%N) /\
    (forall a, sp <= a -> kget s' a = kget s a) /\
    out s' = (nl, z) :: out s /\ heap s' = heap s /\ hw s' = hw s.
Proof.
  intros CI F AL RO RS NZ LT.
  rewrite (csri_int _ CI). cbn [fst snd].
  destruct F as [SP (A8 & LO & HI)]. unfold STACK_LIMIT, STACK_TOP in *. change SPILL_SPACE with 2048 in *.
  change (arg 0) with 7%N.
  destruct c as [|b0 [|b1 [|b2 [|b3 [|b4 [|b5 rest]]]]]]; cbn [List.length firstn] in *.
  7:{ destruct (save_restore_big (N.max (2 * N.of_nat (S (S (S (S (S (S (List.length rest))))))) + 4) 12) [5; 7; 9; 11]%N) as [E1 E2]; [lia|].
      rewrite E1, E2. cbn [map rev app List.length Nat.even].
      eexists. split; [cbn [exec_straight]; repeat xstep im; reflexivity|].
      split; [rdk; f_equal; lia|]. split.
      { intros i _ Hi. destruct i as [|[|[|[|[|[|i]]]]]]; try lia; cbn [N.of_nat Pos.of_succ_nat Pos.succ N.mul N.add Pos.mul Pos.add]; rdk; reflexivity. }
      split; [intros a Ha; rdk; reflexivity|]. split; [rdk; reflexivity|]. split; rdk; reflexivity. }
  all: set (fb := N.max _ _); vm_compute in fb; subst fb;
    set (sv := save_caller_save_registers _ _); vm_compute in sv; subst sv;
    set (rr := restore_caller_save_registers _ _); vm_compute in rr; subst rr; cbn [app].
  all: (eexists; split; [cbn [exec_straight]; repeat xstep im; reflexivity|]).
  all: (split; [rdk; f_equal; lia|]).
  all: split; [intros i Hi _; destruct i as [|[|[|[|[|[|i]]]]]]; try lia; cbn [N.of_nat Pos.of_succ_nat Pos.succ N.mul N.add Pos.mul Pos.add]; rdk; reflexivity|].
  all: (split; [intros a Ha; rdk; reflexivity|]); (split; [rdk; reflexivity|]); split; rdk; reflexivity.
Qed.

Definition above_eq (s s' : xstate) (sp : Z) : Prop :=
  heap s' = heap s /\ hw s' = hw s /\ (forall a, sp <= a -> kget s' a = kget s a).

Lemma xtpos_shape j t : xtpos Snd j = Ok t ->
  ((j < 6)%nat /\ t = XR (5 + 2 * N.of_nat j)%N) \/ ((6 <= j)%nat /\ exists p, t = XS p /\ slot_ok p).
Proof.
  intros H. pose proof (xtpos_ok _ _ _ H) as (L & _).
  unfold tpos, x86_backend, x86_backend_with, b_temporary_from_position, temporary_from_position, tnum_n in H.
  change RESERVED with 4%N in H. change REGISTER_NUM with 16%N in H.
  destruct (N.ltb_spec (2 * N.of_nat j + 1 + 4) 16).
  - left. assert (E : t = XR (2 * N.of_nat j + 1 + 4)%N) by congruence. subst t. split; [lia|]. f_equal. lia.
  - right. destruct (N.ltb _ _); [|discriminate]. split; [lia|].
    assert (E : t = XS (2 * N.of_nat j + 1 + 4 - 16 + RESERVED_SPILLS)%N) by congruence. subst t. eexists; split; [reflexivity|exact L].
Qed.

Theorem sim_print c e s sp nl v z tv :
  rel c e s sp -> ctx_int c = true -> lookup_int e v = Some z -> xvt c (idn v) = Ok tv ->
  exists s', exec_straight im (x_print nl tv c) s = Some s' /\
    rel c e s' sp /\ out s' = (nl, z) :: out s /\ above_eq s s' sp.
Proof.
  intros R CI LV TV.
  destruct (rel_lookup c e s sp v z R LV) as (i & bi & ti & Hi & Ei & Ti & Vi).
  rewrite <- Ei, (vt_of_nth0 c i bi (rel_nodup _ _ _ _ R) Hi), Ti in TV. inversion TV; subst ti.
  assert (Li : (i < List.length c)%nat) by (apply nth_error_Some; congruence).
  pose proof (rel_frame _ _ _ _ R) as F.
  (* the part common to both placements of the printed variable *)
  assert (CORE : forall s0 rs, frame_ok s0 sp -> rget s0 rs = Some z -> rs <> 0%N -> (rs < 2 * N.of_nat (List.length c) + 4)%N ->
            (forall r, r <> 1%N -> rget s0 r = rget s r) -> (forall a, kget s0 a = kget s a) ->
            out s0 = out s -> heap s0 = heap s -> hw s0 = hw s ->
            exists s', exec_straight im (save_caller_save_registers (fst (caller_save_registers_info c)) (snd (caller_save_registers_info c))
                               ++ [MOV (arg 0) rs] ++ [CALL (print_name nl)]
                               ++ restore_caller_save_registers (fst (caller_save_registers_info c)) (snd (caller_save_registers_info c))) s0 = Some s' /\
              rel c e s' sp /\ out s' = (nl, z) :: out s /\ above_eq s s' sp).
  { intros s0 rs F0 RS NZ LT RG KG OU HE HW.
    destruct (print_core c s0 sp nl z rs CI F0 (rel_align _ _ _ _ R) (rel_room _ _ _ _ R) RS NZ LT)
      as (s' & E & SP' & RG' & KG' & OU' & HE' & HW').
    exists s'. split; [exact E|].
    assert (F' : frame_ok s' sp) by (split; [exact SP'|apply F]).
    split; [|split; [congruence|split; [congruence|split; [congruence|intros a Ha; rewrite KG' by exact Ha; apply KG]]]].
    apply (rel_keep c e s s' sp R F'). intros j t Lj Tj.
    destruct (xtpos_shape j t Tj) as [(J & ->)|(J & p & -> & P)]; cbn [lget].
    - rewrite RG' by assumption. apply RG. lia.
    - rewrite !sget_kget. destruct (slot_addr_facts sp p (proj2 F) P) as (_ & _ & _ & GE & _).
      rewrite KG' by exact GE. apply KG. }
  unfold x_print. destruct (caller_save_registers_info c) as [fb regs] eqn:CS. cbn [fst snd] in CORE.
  change (if nl then "println_i64" else "print_i64") with (print_name nl).
  destruct (xtpos_shape i tv Ti) as [(J & ->)|(J & p & -> & P)]; cbn [lget] in Vi.
  - cbn [app]. apply (CORE s); auto; lia.
  - cbn [move_to_register]. rewrite exec_straight_app. cbn [exec_straight].
    rewrite (step_MOVL_slot im s sp F) by exact P. rewrite Vi.
    apply (CORE (rset s TEMP (Some z)) TEMP); auto.
    + apply frame_ok_rset; [discriminate|exact F].
    + apply rget_rset_same.
    + discriminate.
    + change TEMP with 1%N. lia.
    + intros r Hr. apply rget_rset_other. change TEMP with 1%N. congruence.
Qed.
End PrintCore.
