(* C06, forward simulation of the x86-64 code generator, part 3: PrintI64.  The code `x_print` emits
   (backup of the live caller-saved registers into free callee-saved registers or onto the stack,
   alignment padding, argument move, external call, restore) is executed on the external-call model of
   Sem/X86Sem.v (alignment check, havoc of every caller-saved register, of the flags and of the stack
   below rsp): for EVERY integer context - from one variable to beyond the register file - every live
   variable keeps its value, the value printed is the variable's, rsp is restored. *)
From Coq Require Import List ZArith NArith String Bool Lia FMapPositive SetoidList.
From SCC Require Import Base.Sexp Lang.AxSyn Sem.AxSem Model.ParMoves Model.Backend Model.X86 Sem.X86Sem
     Generated.Constants Proof.X86State Proof.X86Sel Proof.X86Exec Proof.X86ParMoves Proof.SubstGraph Proof.X86Subst
     Proof.LinBasics Proof.X86SimRel Proof.X86SimStmt.
Import ListNotations.
Open Scope Z_scope.
Open Scope list_scope.

(* ---------- the external call's havoc, read back ---------- *)
Lemma fold_remove_find (l : list N) : forall (m : PM.t Z) (r : N),
  PM.find (N.succ_pos r) (fold_left (fun m r => PM.remove (N.succ_pos r) m) l m) =
  if existsb (N.eqb r) l then None else PM.find (N.succ_pos r) m.
Proof.
  induction l as [|x l IH]; intros m r; cbn [fold_left existsb]; [reflexivity|].
  rewrite IH. destruct (existsb (N.eqb r) l); [now rewrite orb_true_r|]. rewrite orb_false_r.
  destruct (N.eqb_spec r x) as [->|NE]; [apply PM.grs|]. apply PM.gro. intros E. apply succ_pos_inj in E. congruence.
Qed.
Lemma rget_havoc s x r : rget (havoc_call s x) r = if existsb (N.eqb r) caller_saved then None else rget s r.
Proof. unfold rget, havoc_call. cbn [regs]. apply fold_remove_find. Qed.

Section FoldFilter.
Variable P : positive -> bool.
Let stepf (a : PM.t Z) (p : positive * Z) := if P (fst p) then a else PM.add (fst p) (snd p) a.
Lemma ff_drop k : P k = true -> forall l acc, PM.find k (fold_left stepf l acc) = PM.find k acc.
Proof.
  intros Pk. induction l as [|[k' v'] l IH]; intros acc; cbn [fold_left]; [reflexivity|].
  rewrite IH. unfold stepf; cbn [fst snd]. destruct (P k') eqn:Pk'; [reflexivity|].
  apply PM.gso. congruence.
Qed.
Lemma ff_absent k : forall l acc, (forall v, ~ In (k, v) l) -> PM.find k (fold_left stepf l acc) = PM.find k acc.
Proof.
  induction l as [|[k' v'] l IH]; intros acc H; cbn [fold_left]; [reflexivity|].
  rewrite IH by (intros v Hv; apply (H v); now right). unfold stepf; cbn [fst snd].
  destruct (P k'); [reflexivity|]. apply PM.gso. intros ->. apply (H v'). now left.
Qed.
Lemma ff_keep k v : P k = false -> forall l acc,
  NoDupA (@PM.eq_key Z) l -> In (k, v) l -> PM.find k (fold_left stepf l acc) = Some v.
Proof.
  intros Pk. induction l as [|[k' v'] l IH]; intros acc ND Hin; [destruct Hin|].
  inversion ND as [|? ? NI ND']; subst. cbn [fold_left]. destruct Hin as [E|Hin].
  - inversion E; subst. rewrite ff_absent.
    + unfold stepf; cbn [fst snd]. rewrite Pk. apply PM.gss.
    + intros w Hw. apply NI. apply InA_alt. exists (k, w). split; [reflexivity|exact Hw].
  - now apply IH.
Qed.
End FoldFilter.

Definition kget (s : xstate) (a : Z) : option Z := PM.find (key a) (stack s).
Lemma key_pos a : 0 <= a -> Z.pos (key a) - 1 = a.
Proof. intros H. unfold key. rewrite Z2Pos.id by lia. lia. Qed.
Lemma kget_havoc s x a : 0 <= a -> kget (havoc_call s x) a = if a <? x then None else kget s a.
Proof.
  intros A. unfold kget, havoc_call. cbn [stack]. rewrite PM.fold_1.
  set (P := fun k : positive => Z.pos k - 1 <? x).
  change (fun (a0 : PM.t Z) (p : PM.key * Z) => if Z.pos (fst p) - 1 <? x then a0 else PM.add (fst p) (snd p) a0)
    with (fun (a0 : PM.t Z) (p : positive * Z) => if P (fst p) then a0 else PM.add (fst p) (snd p) a0).
  assert (PK : P (key a) = (a <? x)) by (unfold P; now rewrite key_pos).
  destruct (a <? x) eqn:LT.
  - rewrite (ff_drop P (key a) PK). apply PM.gempty.
  - destruct (PM.find (key a) (stack s)) as [v|] eqn:Fk.
    + apply (ff_keep P (key a) v PK); [apply PM.elements_3w|now apply PM.elements_correct].
    + rewrite ff_absent; [apply PM.gempty|]. intros v Hv. apply PM.elements_complete in Hv. congruence.
Qed.

(* ---------- raw stack words, push / pop / call as state transformers ---------- *)
Definition kset (s : xstate) (a : Z) (v : option Z) : xstate :=
  {| regs := regs s; heap := heap s;
     stack := match v with Some z => PM.add (key a) z (stack s) | None => PM.remove (key a) (stack s) end;
     flags := flags s; out := out s; hw := hw s |}.
Definition oset (s : xstate) (o : prints) : xstate :=
  {| regs := regs s; heap := heap s; stack := stack s; flags := flags s; out := o; hw := hw s |}.
Definition stk_ok (a : Z) : Prop := a mod 8 = 0 /\ STACK_LIMIT <= a /\ a + 8 <= STACK_TOP.

Ltac zlia := Z.to_euclidean_division_equations; lia.

Lemma stk_ok_facts a : stk_ok a -> aligned a = true /\ in_heap a = false /\ in_stack a = true /\ 0 <= a.
Proof.
  intros (A & L & H). unfold aligned, in_heap, in_stack, STACK_LIMIT, STACK_TOP, HEAP_BASE, HEAP_SIZE in *.
  rewrite A. repeat split; try reflexivity; try lia.
Qed.
Lemma mstore_stk s a v : stk_ok a -> mstore s a v = MOk (kset s a v).
Proof. intros H. destruct (stk_ok_facts a H) as (A & B & C & _). unfold mstore. rewrite A, B, C. reflexivity. Qed.
Lemma mload_stk s a : stk_ok a -> mload s a = MOk (kget s a).
Proof. intros H. destruct (stk_ok_facts a H) as (A & B & C & _). unfold mload. rewrite A, B, C. reflexivity. Qed.

Lemma kget_kset_same s a v : kget (kset s a v) a = v.
Proof. unfold kget, kset; destruct v; cbn; [apply PM.gss|apply PM.grs]. Qed.
Lemma kget_kset_other s a b v : 0 <= a -> 0 <= b -> a <> b -> kget (kset s a v) b = kget s b.
Proof.
  intros A B N. unfold kget, kset; destruct v; cbn; [apply PM.gso|apply PM.gro]; intros E; apply key_inj in E; auto.
Qed.
Lemma kget_rset s r v a : kget (rset s r v) a = kget s a. Proof. reflexivity. Qed.
Lemma kget_set_flags s f a : kget (set_flags s f) a = kget s a. Proof. reflexivity. Qed.
Lemma kget_oset s o a : kget (oset s o) a = kget s a. Proof. reflexivity. Qed.
Lemma rget_kset s a v r : rget (kset s a v) r = rget s r. Proof. reflexivity. Qed.
Lemma rget_oset s o r : rget (oset s o) r = rget s r. Proof. reflexivity. Qed.
Lemma sget_kget s sp p : sget s sp p = kget s (slot_addr sp p). Proof. reflexivity. Qed.

Lemma rget_havoc_keep s x r : existsb (N.eqb r) caller_saved = false -> rget (havoc_call s x) r = rget s r.
Proof. intros H. now rewrite rget_havoc, H. Qed.
Lemma out_kset s a v : out (kset s a v) = out s. Proof. reflexivity. Qed.
Lemma out_oset s o : out (oset s o) = o. Proof. reflexivity. Qed.
Lemma out_havoc s x : out (havoc_call s x) = out s. Proof. reflexivity. Qed.
Lemma heap_havoc s x : heap (havoc_call s x) = heap s. Proof. reflexivity. Qed.
Lemma hw_havoc s x : hw (havoc_call s x) = hw s. Proof. reflexivity. Qed.

Section PrintSteps.
Variable im : image.
Lemma step_PUSH s a x : rget s 0%N = Some x -> stk_ok (x - 8) ->
  step im (PUSH a) s = Next (rset (kset s (x - 8) (rget s a)) 0%N (Some (x - 8))).
Proof. intros R K. cbn [step]. unfold need, withm. rewrite R, mstore_stk by exact K. reflexivity. Qed.
Lemma step_POP s a x : rget s 0%N = Some x -> stk_ok x ->
  step im (POP a) s = Next (rset (rset s a (kget s x)) 0%N (Some (x + 8))).
Proof. intros R K. cbn [step]. unfold need, withm. rewrite R, mload_stk by exact K. reflexivity. Qed.
Lemma wrap_small z : min_int <= z <= max_int -> wrap z = z.
Proof. unfold wrap, min_int, max_int, two63, two64. intros H. rewrite Z.mod_small by lia. lia. Qed.
Lemma step_SUBI8 s x : rget s 0%N = Some x -> 0 <= x <= STACK_TOP ->
  step im (SUBI 0%N 8) s = Next (set_flags (rset s 0%N (Some (x - 8))) None).
Proof.
  intros R K. cbn [step]. change (fits32 8) with true. cbv iota.
  unfold need. rewrite R. rewrite wrap_small; [reflexivity|]. unfold min_int, max_int, two63, STACK_TOP in *. lia.
Qed.
Lemma step_ADDI8 s x : rget s 0%N = Some x -> 0 <= x <= STACK_TOP ->
  step im (ADDI 0%N 8) s = Next (set_flags (rset s 0%N (Some (x + 8))) None).
Proof.
  intros R K. cbn [step]. change (fits32 8) with true. cbv iota.
  unfold need. rewrite R. rewrite wrap_small; [reflexivity|]. unfold min_int, max_int, two63, STACK_TOP in *. lia.
Qed.
Definition print_name (nl : bool) : string := if nl then "println_i64" else "print_i64".
Lemma step_CALL s nl x v : rget s 0%N = Some x -> x mod 16 = 0 -> rget s 7%N = Some v ->
  step im (CALL (print_name nl)) s = Next (havoc_call (oset s ((nl, v) :: out s)) x).
Proof.
  intros R A V. destruct nl; cbn [print_name step String.eqb Ascii.eqb Bool.eqb orb]; unfold need; rewrite R;
    assert (E : (x mod 16 =? 0) = true) by (now apply Z.eqb_eq); rewrite E; cbn [negb]; rewrite V; reflexivity.
Qed.
End PrintSteps.

Lemma kget_havoc_keep s x a : 0 <= a -> x <= a -> kget (havoc_call s x) a = kget s a.
Proof. intros A B. rewrite kget_havoc by exact A. destruct (Z.ltb_spec a x); [lia|reflexivity]. Qed.
Lemma kget_kset_eq s a b v : a = b -> kget (kset s a v) b = v.
Proof. intros ->. apply kget_kset_same. Qed.
Lemma heap_kset s a v : heap (kset s a v) = heap s. Proof. reflexivity. Qed.
Lemma heap_oset s o : heap (oset s o) = heap s. Proof. reflexivity. Qed.
Lemma hw_kset s a v : hw (kset s a v) = hw s. Proof. reflexivity. Qed.
Lemma hw_oset s o : hw (oset s o) = hw s. Proof. reflexivity. Qed.
Lemma hw_rset s r v : hw (rset s r v) = hw s. Proof. reflexivity. Qed.
Lemma hw_set_flags s f : hw (set_flags s f) = hw s. Proof. reflexivity. Qed.

Ltac rdk :=
  repeat first
    [ rewrite rget_rset_same | rewrite rget_rset_other by (first [congruence | lia])
    | rewrite rget_kset | rewrite rget_set_flags | rewrite rget_oset
    | rewrite kget_rset | rewrite kget_set_flags | rewrite kget_oset
    | rewrite rget_havoc_keep by reflexivity
    | rewrite kget_havoc_keep by lia
    | rewrite kget_kset_eq by lia
    | rewrite kget_kset_other by lia
    | rewrite out_rset | rewrite out_set_flags | rewrite out_kset | rewrite out_oset | rewrite out_havoc
    | rewrite heap_rset | rewrite heap_set_flags | rewrite heap_kset | rewrite heap_oset | rewrite heap_havoc
    | rewrite hw_rset | rewrite hw_set_flags | rewrite hw_kset | rewrite hw_oset | rewrite hw_havoc ].
Ltac stk := unfold stk_ok, STACK_LIMIT, STACK_TOP; zlia.
(* ---------- lists of register moves, pushes and pops as state transformers ---------- *)
Fixpoint movs (ps : list (N * N)) (s : xstate) : xstate :=
  match ps with [] => s | p :: ps => movs ps (rset s (fst p) (rget s (snd p))) end.
Lemma exec_movs im ps : forall s, exec_straight im (map (fun p : N * N => MOV (fst p) (snd p)) ps) s = Some (movs ps s).
Proof. induction ps as [|p ps IH]; intros s; cbn [map exec_straight movs]; [reflexivity|]. rewrite step_MOV. apply IH. Qed.
Lemma rget_movs_other ps : forall s r, ~ In r (map fst ps) -> rget (movs ps s) r = rget s r.
Proof.
  induction ps as [|p ps IH]; intros s r H; cbn [movs]; [reflexivity|]. cbn [map] in H.
  rewrite IH by (intros X; apply H; now right). apply rget_rset_other. intros E. apply H. now left.
Qed.
Lemma rget_movs_dest ps : forall s d r,
  NoDup (map fst ps) -> (forall p, In p ps -> ~ In (snd p) (map fst ps)) -> In (d, r) ps -> rget (movs ps s) d = rget s r.
Proof.
  induction ps as [|p ps IH]; intros s d r ND SRC Hin; [destruct Hin|]. cbn [movs]. cbn [map] in ND. inversion ND as [|? ? NI ND']; subst.
  destruct Hin as [->|Hin].
  - cbn [fst snd]. rewrite rget_movs_other by exact NI. apply rget_rset_same.
  - rewrite (IH _ d r ND'); auto.
    + apply rget_rset_other. intros E. apply (SRC (d, r)); [now right|]. cbn [snd map]. now left.
    + intros q Hq Hs. apply (SRC q); [now right|]. cbn [map]. now right.
Qed.
Lemma movs_frame ps : forall s, stack (movs ps s) = stack s /\ heap (movs ps s) = heap s /\ out (movs ps s) = out s.
Proof. induction ps as [|p ps IH]; intros s; cbn [movs]; [auto|]. destruct (IH (rset s (fst p) (rget s (snd p)))) as (A & B & C). auto. Qed.
Lemma kget_movs ps s a : kget (movs ps s) a = kget s a.
Proof. unfold kget. now rewrite (proj1 (movs_frame ps s)). Qed.

Fixpoint pushes (l : list N) (s : xstate) (x : Z) : xstate :=
  match l with [] => s | a :: l => pushes l (rset (kset s (x - 8) (rget s a)) 0%N (Some (x - 8))) (x - 8) end.
Lemma exec_pushes im l : forall s x,
  rget s 0%N = Some x -> x mod 8 = 0 -> STACK_LIMIT + 8 * Z.of_nat (List.length l) <= x -> x <= STACK_TOP ->
  exec_straight im (map PUSH l) s = Some (pushes l s x).
Proof.
  induction l as [|a l IH]; intros s x R A LO HI; cbn [map exec_straight pushes]; [reflexivity|].
  cbn [List.length] in LO. rewrite (step_PUSH im s a x R) by (unfold stk_ok, STACK_LIMIT, STACK_TOP in *; zlia).
  apply IH; [apply rget_rset_same|zlia|lia|lia].
Qed.
Lemma rget_pushes_sp l : forall s x, rget s 0%N = Some x -> rget (pushes l s x) 0%N = Some (x - 8 * Z.of_nat (List.length l)).
Proof.
  induction l as [|a l IH]; intros s x R; cbn [pushes List.length]; [rewrite R; f_equal; lia|].
  rewrite IH by apply rget_rset_same. f_equal. lia.
Qed.
Lemma rget_pushes_other l : forall s x r, r <> 0%N -> rget (pushes l s x) r = rget s r.
Proof.
  induction l as [|a l IH]; intros s x r H; cbn [pushes]; [reflexivity|].
  rewrite IH by exact H. rewrite rget_rset_other by congruence. apply rget_kset.
Qed.
Lemma kget_pushes_above l : forall s x a, 0 <= x - 8 * Z.of_nat (List.length l) -> x <= a -> kget (pushes l s x) a = kget s a.
Proof.
  induction l as [|b l IH]; intros s x a P H; cbn [pushes]; [reflexivity|]. cbn [List.length] in P.
  rewrite IH by lia. rewrite kget_rset. apply kget_kset_other; lia.
Qed.
Lemma kget_pushes_at l : forall s x j a,
  0 <= x - 8 * Z.of_nat (List.length l) -> ~ In 0%N l -> nth_error l j = Some a ->
  kget (pushes l s x) (x - 8 * (Z.of_nat j + 1)) = rget s a.
Proof.
  induction l as [|b l IH]; intros s x j a P NZ Hj; [destruct j; discriminate|]. cbn [pushes]. cbn [List.length] in P.
  destruct j as [|j]; cbn [nth_error] in Hj.
  - inversion Hj; subst b. rewrite kget_pushes_above by lia. rewrite kget_rset.
    replace (x - 8 * (Z.of_nat 0 + 1)) with (x - 8) by lia. apply kget_kset_same.
  - replace (x - 8 * (Z.of_nat (S j) + 1)) with (x - 8 - 8 * (Z.of_nat j + 1)) by lia.
    rewrite (IH _ (x - 8) j a); [|lia|intros H; apply NZ; now right|exact Hj].
    rewrite rget_rset_other; [apply rget_kset|]. intros E; subst a. apply NZ. right. eapply nth_error_In; eauto.
Qed.
Lemma pushes_frame l : forall s x, heap (pushes l s x) = heap s /\ out (pushes l s x) = out s.
Proof. induction l as [|a l IH]; intros s x; cbn [pushes]; [auto|]. destruct (IH (rset (kset s (x - 8) (rget s a)) 0%N (Some (x - 8))) (x - 8)) as (A & B). auto. Qed.

Fixpoint pops (q : list N) (s : xstate) (y : Z) : xstate :=
  match q with [] => s | a :: q => pops q (rset (rset s a (kget s y)) 0%N (Some (y + 8))) (y + 8) end.
Lemma exec_pops im q : forall s y,
  rget s 0%N = Some y -> y mod 8 = 0 -> STACK_LIMIT <= y -> y + 8 * Z.of_nat (List.length q) <= STACK_TOP ->
  exec_straight im (map POP q) s = Some (pops q s y).
Proof.
  induction q as [|a q IH]; intros s y R A LO HI; cbn [map exec_straight pops]; [reflexivity|].
  cbn [List.length] in HI. rewrite (step_POP im s a y R) by (unfold stk_ok, STACK_LIMIT, STACK_TOP in *; zlia).
  apply IH; [apply rget_rset_same|zlia|lia|lia].
Qed.
Lemma kget_pops q : forall s y a, kget (pops q s y) a = kget s a.
Proof. induction q as [|b q IH]; intros s y a; cbn [pops]; [reflexivity|]. now rewrite IH. Qed.
Lemma rget_pops_sp q : forall s y, rget s 0%N = Some y -> rget (pops q s y) 0%N = Some (y + 8 * Z.of_nat (List.length q)).
Proof.
  induction q as [|a q IH]; intros s y R; cbn [pops List.length]; [rewrite R; f_equal; lia|].
  rewrite IH by apply rget_rset_same. f_equal. lia.
Qed.
Lemma rget_pops_other q : forall s y r, r <> 0%N -> ~ In r q -> rget (pops q s y) r = rget s r.
Proof.
  induction q as [|a q IH]; intros s y r H NI; cbn [pops]; [reflexivity|].
  rewrite IH; [|exact H|intros X; apply NI; now right]. rewrite rget_rset_other by congruence.
  apply rget_rset_other. intros E; apply NI; now left.
Qed.
Lemma rget_pops_at q : forall s y j a, NoDup q -> ~ In 0%N q -> nth_error q j = Some a ->
  rget (pops q s y) a = kget s (y + 8 * Z.of_nat j).
Proof.
  induction q as [|b q IH]; intros s y j a ND NZ Hj; [destruct j; discriminate|]. cbn [pops]. inversion ND as [|? ? NI ND']; subst.
  destruct j as [|j]; cbn [nth_error] in Hj.
  - inversion Hj; subst b. rewrite rget_pops_other; [|intros E; subst a; apply NZ; now left|exact NI].
    rewrite rget_rset_other by (intros E; subst a; apply NZ; now left). rewrite rget_rset_same. f_equal. lia.
  - rewrite (IH _ (y + 8) j a ND'); [|intros H; apply NZ; now right|exact Hj].
    rewrite !kget_rset. f_equal. lia.
Qed.
Lemma pops_frame q : forall s y, heap (pops q s y) = heap s /\ out (pops q s y) = out s.
Proof. induction q as [|a q IH]; intros s y; cbn [pops]; [auto|]. destruct (IH (rset (rset s a (kget s y)) 0%N (Some (y + 8))) (y + 8)) as (A & B). auto. Qed.

(* ---------- the registers x_print saves, for any context ---------- *)
Definition chunk (o : N) (b : binding) : list N :=
  match bchi b with Ext => [4 + 2 * o + 1] | _ => [4 + 2 * o; 4 + 2 * o + 1] end%N.
Lemma csri_shape c :
  caller_save_registers_info c =
    (N.max (2 * N.of_nat (List.length c) + 4) 12,
     match c with
     | [] => []
     | [b0] => chunk 0 b0
     | [b0; b1] => chunk 0 b0 ++ chunk 1 b1
     | [b0; b1; b2] => chunk 0 b0 ++ chunk 1 b1 ++ chunk 2 b2
     | b0 :: b1 :: b2 :: b3 :: _ => chunk 0 b0 ++ chunk 1 b1 ++ chunk 2 b2 ++ chunk 3 b3
     end).
Proof.
  unfold caller_save_registers_info.
  change CALLER_SAVE_LAST with 11%N. change CALLER_SAVE_FIRST with 4%N. change RESERVED with 4%N.
  change (N.to_nat ((11 + 1 - 4) / 2)) with 4%nat. change (11 + 1)%N with 12%N.
  f_equal. unfold chunk.
  destruct c as [|b0 [|b1 [|b2 [|b3 rest]]]]; cbn [firstn List.length].
  - reflexivity.
  - change (nseq 0 (N.of_nat 1)) with [0%N]. cbn [combine flat_map]. rewrite app_nil_r. reflexivity.
  - change (nseq 0 (N.of_nat 2)) with [0%N; 1%N]. cbn [combine flat_map]. rewrite app_nil_r. reflexivity.
  - change (nseq 0 (N.of_nat 3)) with [0%N; 1%N; 2%N]. cbn [combine flat_map]. rewrite app_nil_r. reflexivity.
  - change (nseq 0 (N.of_nat 4)) with [0%N; 1%N; 2%N; 3%N]. cbn [combine flat_map]. rewrite app_nil_r. reflexivity.
Qed.

Record regs_ok (c : ctx) (regs : list N) : Prop := {
  ro_range : Forall (fun r => (4 <= r <= 11)%N) regs;
  ro_nodup : NoDup regs;
  ro_snd : forall i b, nth_error c i = Some b -> (i < 4)%nat -> In (5 + 2 * N.of_nat i)%N regs;
  ro_fst : forall i b, nth_error c i = Some b -> (i < 4)%nat -> bchi b <> Ext -> In (4 + 2 * N.of_nat i)%N regs
}.
Lemma csri_regs_ok c : regs_ok c (snd (caller_save_registers_info c)).
Proof.
  rewrite csri_shape. cbn [snd]. unfold chunk.
  destruct c as [|b0 [|b1 [|b2 [|b3 rest]]]].
  all: repeat match goal with b : binding |- _ => destruct b as [? [ | | ] ?] end; cbn [bchi app].
  all: split;
    [ repeat constructor; lia
    | repeat constructor; cbn [In]; intuition discriminate
    | intros i b Hi Li; destruct i as [|[|[|[|i]]]]; try lia; cbn [nth_error] in Hi; try discriminate;
      cbn [In N.of_nat Pos.of_succ_nat Pos.succ N.mul N.add Pos.mul Pos.add]; tauto
    | intros i b Hi Li NE; destruct i as [|[|[|[|i]]]]; try lia; cbn [nth_error] in Hi; try discriminate;
      inversion Hi; subst b; cbn [bchi] in NE; try congruence;
      cbn [In N.of_nat Pos.of_succ_nat Pos.succ N.mul N.add Pos.mul Pos.add]; tauto ].
Qed.

(* ---------- save ++ argument ++ call ++ restore, for any list of registers to save ---------- *)
Lemma nseq_length a k : List.length (nseq a k) = N.to_nat k.
Proof. unfold nseq. now rewrite map_length, seq_length. Qed.
Lemma nseq_In a k x : In x (nseq a k) <-> (a <= x < a + k)%N.
Proof.
  unfold nseq. rewrite in_map_iff. split.
  - intros (y & <- & Hy). apply in_seq in Hy. lia.
  - intros H. exists (N.to_nat x). split; [lia|]. apply in_seq. lia.
Qed.
Lemma nseq_NoDup a k : NoDup (nseq a k).
Proof.
  unfold nseq. apply FinFun.Injective_map_NoDup; [|apply seq_NoDup]. intros x y H. lia.
Qed.

Lemma nth_error_rev_idx {X} (l : list X) : forall j x,
  nth_error l j = Some x -> nth_error (rev l) (List.length l - 1 - j) = Some x.
Proof.
  induction l as [|a l IH]; intros j x H; [destruct j; discriminate|]. cbn [rev List.length].
  destruct j as [|j]; cbn [nth_error] in H.
  - inversion H; subst. rewrite nth_error_app2 by (rewrite rev_length; lia).
    rewrite rev_length. replace (S (List.length l) - 1 - 0 - List.length l)%nat with O by lia. reflexivity.
  - assert (j < List.length l)%nat by (apply nth_error_Some; congruence).
    rewrite nth_error_app1 by (rewrite rev_length; lia).
    replace (S (List.length l) - 1 - S j)%nat with (List.length l - 1 - j)%nat by lia. now apply IH.
Qed.
Lemma caller_saved_high r : (12 <= r)%N -> existsb (N.eqb r) caller_saved = false.
Proof.
  intros H. unfold caller_saved. cbn [existsb]. repeat rewrite (proj2 (N.eqb_neq _ _)) by lia. reflexivity.
Qed.
Lemma caller_saved_range r : (4 <= r <= 11)%N -> existsb (N.eqb r) caller_saved = true.
Proof.
  intros H. assert (E : (r = 4 \/ r = 5 \/ r = 6 \/ r = 7 \/ r = 8 \/ r = 9 \/ r = 10 \/ r = 11)%N) by lia.
  repeat destruct E as [->|E]; try subst r; reflexivity.
Qed.

Section PrintCore.
Variable im : image.

Lemma print_core (fb : N) (regs : list N) s sp nl z rs :
  (12 <= fb)%N -> Forall (fun r => (4 <= r <= 11)%N) regs -> NoDup regs ->
  frame_ok s sp -> sp mod 16 = 8 -> STACK_LIMIT + 128 <= sp ->
  rget s rs = Some z -> rs <> 0%N -> (rs < fb)%N ->
  exists s', exec_straight im (save_caller_save_registers fb regs ++ [MOV (arg 0) rs] ++ [CALL (print_name nl)]
                               ++ restore_caller_save_registers fb regs) s = Some s' /\
    rget s' 0%N = Some sp /\
    (forall r, In r regs -> rget s' r = rget s r) /\
    (forall r, r <> 0%N -> existsb (N.eqb r) caller_saved = false -> (r < fb)%N -> rget s' r = rget s r) /\
    (forall a, sp <= a -> kget s' a = kget s a) /\
    out s' = (nl, z) :: out s /\ heap s' = heap s.
Proof.
  intros FB RNG ND F AL RO RS NZ LT.
  destruct F as [SP (A8 & LO & HI)]. unfold STACK_LIMIT, STACK_TOP in *. change SPILL_SPACE with 2048 in *.
  assert (LEN8 : (List.length regs <= 8)%nat).
  { assert (INCL : incl regs (nseq 4 8)).
    { intros r Hr. rewrite Forall_forall in RNG. specialize (RNG r Hr). apply nseq_In. lia. }
    pose proof (NoDup_incl_length ND INCL) as L. now rewrite nseq_length in L. }
  unfold save_caller_save_registers, restore_caller_save_registers.
  set (used := backup_used fb regs).
  assert (USED : (used <= List.length regs)%nat /\ (N.of_nat used <= 16 - fb)%N).
  { unfold used, backup_used. change REGISTER_NUM with 16%N. split; lia. }
  destruct USED as [U1 U2].
  set (pre := firstn used regs). set (l := skipn used regs).
  assert (SPLIT : regs = pre ++ l) by (symmetry; apply firstn_skipn).
  assert (LPRE : List.length pre = used) by (unfold pre; rewrite firstn_length; lia).
  set (ix := combine (nseq 0 (N.of_nat used)) pre).
  set (ps := map (fun or_ : N * N => ((fb + fst or_)%N, snd or_)) ix).
  set (pb := map (fun or_ : N * N => (snd or_, (fb + fst or_)%N)) ix).
  assert (E1 : map (fun or_ : N * N => MOV (fb + fst or_)%N (snd or_)) ix = map (fun p : N * N => MOV (fst p) (snd p)) ps)
    by (unfold ps; rewrite map_map; reflexivity).
  assert (E2 : map (fun or_ : N * N => MOV (snd or_) (fb + fst or_)%N) ix = map (fun p : N * N => MOV (fst p) (snd p)) pb)
    by (unfold pb; rewrite map_map; reflexivity).
  fold ix. rewrite E1, E2. clear E1 E2.
  assert (LIX : List.length (nseq 0 (N.of_nat used)) = List.length pre) by (rewrite nseq_length; lia).
  assert (SND : map snd ix = pre) by (apply combine_map_snd; exact LIX).
  assert (FST : map fst ix = nseq 0 (N.of_nat used)) by (apply combine_map_fst; exact LIX).
  assert (PS_FST : map fst ps = map (fun o => (fb + o)%N) (nseq 0 (N.of_nat used))) by (unfold ps; rewrite map_map, <- FST, map_map; reflexivity).
  assert (PS_SND : map snd ps = pre) by (unfold ps; rewrite map_map; exact SND).
  assert (PB_FST : map fst pb = pre) by (unfold pb; rewrite map_map; exact SND).
  assert (PB_SND : map snd pb = map fst ps) by (unfold pb, ps; rewrite !map_map; reflexivity).
  assert (SWAP : forall d r, In (d, r) ps <-> In (r, d) pb).
  { intros d r. unfold ps, pb. rewrite !in_map_iff. split; intros ((o & q) & E & H); exists (o, q); cbn [fst snd] in *; split; auto; congruence. }
  assert (DST : forall d, In d (map fst ps) -> (fb <= d < 16)%N /\ (12 <= d)%N).
  { intros d Hd. rewrite PS_FST in Hd. apply in_map_iff in Hd as (o & <- & Ho). apply nseq_In in Ho. lia. }
  assert (ND_DST : NoDup (map fst ps)).
  { rewrite PS_FST. apply FinFun.Injective_map_NoDup; [|apply nseq_NoDup]. intros x y H. lia. }
  assert (RPRE : forall r, In r pre -> (4 <= r <= 11)%N).
  { intros r Hr. rewrite Forall_forall in RNG. apply RNG. rewrite SPLIT. apply in_app_iff. now left. }
  assert (RL : forall r, In r l -> (4 <= r <= 11)%N).
  { intros r Hr. rewrite Forall_forall in RNG. apply RNG. rewrite SPLIT. apply in_app_iff. now right. }
  assert (NDP : NoDup pre /\ NoDup l /\ (forall r, In r pre -> ~ In r l)).
  { rewrite SPLIT in ND. clear -ND. induction pre as [|x pre IH]; cbn [app] in ND.
    - split; [constructor|]. split; [exact ND|]. intros r [].
    - inversion ND as [|? ? NI ND']; subst. destruct (IH ND') as (A & B & C). split; [|split; [exact B|]].
      + constructor; [|exact A]. intros H. apply NI. apply in_app_iff. now left.
      + intros r [->|Hr] Hl; [apply NI; apply in_app_iff; now right|exact (C r Hr Hl)]. }
  destruct NDP as (NDpre & NDl & DISJ).
  set (m := List.length l). assert (M8 : (m <= 8)%nat) by (unfold m, l; rewrite skipn_length; lia).
  replace (List.length regs - used)%nat with m by (unfold m, l; now rewrite skipn_length).
  remember (Nat.even m) as ev eqn:EV. symmetry in EV.
  (* 1: backups *)
  rewrite <- !app_assoc. rewrite exec_straight_app, exec_movs.
  set (s1 := movs ps s).
  assert (R1 : forall r, ~ In r (map fst ps) -> rget s1 r = rget s r) by (intros; apply rget_movs_other; auto).
  assert (SP1 : rget s1 0%N = Some sp).
  { rewrite R1; auto. intros H. apply DST in H. lia. }
  (* 2: pushes *)
  rewrite exec_straight_app, (exec_pushes im l s1 sp SP1 A8) by (unfold m, reg in *; unfold STACK_LIMIT, STACK_TOP; lia).
  set (s2 := pushes l s1 sp).
  assert (SP2 : rget s2 0%N = Some (sp - 8 * Z.of_nat m)) by (apply rget_pushes_sp; exact SP1).
  assert (NZl : ~ In 0%N l) by (intros H; apply RL in H; lia).
  (* 3: padding; 4: argument and call *)
  set (xc := if ev then sp - 8 * Z.of_nat m - 8 else sp - 8 * Z.of_nat m).
  assert (XC : xc mod 16 = 0 /\ sp - 72 <= xc <= sp - 8 * Z.of_nat m).
  { unfold xc. clear -EV M8 AL RO HI. destruct ev.
    - apply Nat.even_spec in EV. destruct EV as (k & EK). rewrite EK in *. split; [zlia|lia].
    - assert (OD : Nat.odd m = true) by (unfold Nat.odd; now rewrite EV).
      apply Nat.odd_spec in OD. destruct OD as (k & EK). rewrite EK in *. split; [zlia|lia]. }
  set (s3 := if ev then set_flags (rset s2 0%N (Some (sp - 8 * Z.of_nat m - 8))) None else s2).
  assert (X3 : exec_straight im (if ev then [SUBI STACK (address 1)] else []) s2 = Some s3).
  { unfold s3. destruct ev; [|reflexivity]. cbn [exec_straight].
    change (SUBI STACK (address 1)) with (SUBI 0%N 8). rewrite (step_SUBI8 im s2 _ SP2) by (unfold STACK_TOP; lia). reflexivity. }
  rewrite exec_straight_app, X3.
  assert (SP3 : rget s3 0%N = Some xc).
  { unfold s3, xc. destruct ev; [rewrite rget_set_flags; apply rget_rset_same|exact SP2]. }
  assert (R3 : forall r, r <> 0%N -> rget s3 r = rget s1 r).
  { intros r H. unfold s3. destruct ev.
    - rewrite rget_set_flags, rget_rset_other by congruence. apply rget_pushes_other; exact H.
    - apply rget_pushes_other; exact H. }
  assert (K3 : forall a, kget s3 a = kget s2 a) by (intros a; unfold s3; destruct ev; reflexivity).
  change (arg 0) with 7%N. cbn [app exec_straight]. rewrite step_MOV.
  set (s4 := rset s3 7%N (rget s3 rs)).
  assert (RS4 : rget s4 7%N = Some z).
  { unfold s4. rewrite rget_rset_same, R3 by exact NZ. rewrite R1; [exact RS|]. intros H. apply DST in H. lia. }
  assert (SP4 : rget s4 0%N = Some xc) by (unfold s4; rewrite rget_rset_other by discriminate; exact SP3).
  rewrite (step_CALL im s4 nl xc z SP4 (proj1 XC) RS4).
  set (s5 := havoc_call (oset s4 ((nl, z) :: out s4)) xc).
  assert (SP5 : rget s5 0%N = Some xc) by (unfold s5; rewrite rget_havoc_keep by reflexivity; rewrite rget_oset; exact SP4).
  (* 5: restore *)
  rewrite exec_straight_app, exec_movs.
  set (s6 := movs pb s5).
  assert (SP6 : rget s6 0%N = Some xc).
  { unfold s6. rewrite rget_movs_other; [exact SP5|]. rewrite PB_FST. intros H. apply RPRE in H. lia. }
  set (s7 := if ev then set_flags (rset s6 0%N (Some (sp - 8 * Z.of_nat m))) None else s6).
  assert (X7 : exec_straight im (if ev then [ADDI STACK (address 1)] else []) s6 = Some s7).
  { unfold s7. destruct ev; [|reflexivity]. cbn [exec_straight].
    change (ADDI STACK (address 1)) with (ADDI 0%N 8). rewrite (step_ADDI8 im s6 _ SP6) by (unfold STACK_TOP; lia).
    unfold xc. replace (sp - 8 * Z.of_nat m - 8 + 8) with (sp - 8 * Z.of_nat m) by lia. reflexivity. }
  rewrite exec_straight_app, X7.
  assert (SP7 : rget s7 0%N = Some (sp - 8 * Z.of_nat m)).
  { unfold s7. destruct ev; [rewrite rget_set_flags; apply rget_rset_same|]. rewrite SP6. reflexivity. }
  assert (R7 : forall r, r <> 0%N -> rget s7 r = rget s6 r).
  { intros r H. unfold s7. destruct ev; [|reflexivity]. rewrite rget_set_flags. apply rget_rset_other. congruence. }
  assert (K7 : forall a, kget s7 a = kget s6 a) by (intros a; unfold s7; destruct ev; reflexivity).
  rewrite (exec_pops im (rev l) s7 (sp - 8 * Z.of_nat m) SP7) by (rewrite ?rev_length; unfold m, reg in *; unfold STACK_LIMIT, STACK_TOP; zlia).
  set (s8 := pops (rev l) s7 (sp - 8 * Z.of_nat m)).
  exists s8. split; [reflexivity|].
  (* what the stack holds at and above sp - 8m, before the pops *)
  assert (K6 : forall a, sp - 8 * Z.of_nat m <= a -> kget s6 a = kget s2 a).
  { intros a Ha. unfold s6. rewrite kget_movs. unfold s5. rewrite kget_havoc_keep by (destruct XC; lia). rewrite kget_oset.
    unfold s4. rewrite kget_rset. apply K3. }
  split; [|split; [|split; [|split; [|split]]]].
  - unfold s8. rewrite (rget_pops_sp _ _ _ SP7), rev_length. fold m. f_equal. lia.
  - intros r Hr. rewrite SPLIT in Hr. apply in_app_iff in Hr as [Hr|Hr].
    + (* backed up in a callee-saved register *)
      unfold s8. rewrite rget_pops_other; [|intros E; subst r; apply RPRE in Hr; lia|rewrite <- in_rev; apply DISJ; exact Hr].
      rewrite R7 by (intros E; subst r; apply RPRE in Hr; lia).
      assert (exists d, In (d, r) ps) as (d & Hd).
      { rewrite <- PS_SND in Hr. apply in_map_iff in Hr as ((d & r') & E & H). cbn in E; subst r'. eauto. }
      unfold s6. rewrite (rget_movs_dest pb s5 r d).
      * assert (Dd : In d (map fst ps)) by (apply in_map_iff; exists (d, r); auto).
        destruct (DST d Dd) as (D1 & D2).
        unfold s5. rewrite rget_havoc_keep by (apply caller_saved_high; lia).
        rewrite rget_oset. unfold s4. rewrite rget_rset_other by lia. rewrite R3 by lia.
        unfold s1. apply (rget_movs_dest ps s d r ND_DST); auto.
        intros q Hq Hs. assert (In (snd q) pre) by (rewrite <- PS_SND; apply in_map; exact Hq).
        apply DST in Hs. apply RPRE in H. lia.
      * rewrite PB_FST. exact NDpre.
      * intros q Hq Hs. rewrite PB_FST in Hs. assert (In (snd q) (map fst ps)) by (rewrite <- PB_SND; apply in_map; exact Hq).
        apply DST in H. apply RPRE in Hs. lia.
      * apply SWAP. exact Hd.
    + (* pushed *)
      apply In_nth_error in Hr as (j & Hj).
      assert (Lj : (j < m)%nat) by (apply nth_error_Some; congruence).
      assert (Hj' : nth_error (rev l) (m - 1 - j) = Some r) by (apply nth_error_rev_idx; exact Hj).
      unfold s8. rewrite (rget_pops_at (rev l) s7 _ (m - 1 - j) r); [|apply NoDup_rev; exact NDl|rewrite <- in_rev; exact NZl|exact Hj'].
      rewrite K7, K6 by lia.
      replace (sp - 8 * Z.of_nat m + 8 * Z.of_nat (m - 1 - j)) with (sp - 8 * (Z.of_nat j + 1)) by lia.
      unfold s2. rewrite (kget_pushes_at l s1 sp j r) by (unfold m, reg in *; auto; lia).
      apply R1. intros H. apply DST in H. assert (In r l) by (eapply nth_error_In; eauto). apply RL in H0. lia.
  - intros r NZr CS LTr.
    assert (NR : ~ In r regs).
    { intros H. rewrite Forall_forall in RNG. specialize (RNG r H). rewrite (caller_saved_range r RNG) in CS. discriminate. }
    unfold s8. rewrite rget_pops_other; [|exact NZr|rewrite <- in_rev; intros H; apply NR; rewrite SPLIT; apply in_app_iff; now right].
    rewrite R7 by exact NZr. unfold s6. rewrite rget_movs_other.
    2:{ rewrite PB_FST. intros H. apply NR. rewrite SPLIT. apply in_app_iff. now left. }
    unfold s5. rewrite rget_havoc_keep by exact CS. rewrite rget_oset. unfold s4.
    rewrite rget_rset_other.
    2:{ intros E; subst r. discriminate. }
    rewrite R3 by exact NZr. apply R1. intros H. apply DST in H. lia.
  - intros a Ha. unfold s8. rewrite kget_pops, K7, K6 by lia. unfold s2. rewrite kget_pushes_above by (unfold m, reg in *; lia).
    unfold s1. apply kget_movs.
  - unfold s8. rewrite (proj2 (pops_frame _ _ _)). unfold s7.
    assert (O6 : out s6 = (nl, z) :: out s).
    { unfold s6. rewrite (proj2 (proj2 (movs_frame _ _))). unfold s5. rewrite out_havoc, out_oset. unfold s4. rewrite out_rset.
      assert (O2 : out s2 = out s).
      { unfold s2. rewrite (proj2 (pushes_frame _ _ _)). unfold s1. apply (proj2 (proj2 (movs_frame _ _))). }
      unfold s3. destruct ev; [rewrite out_set_flags, out_rset|]; rewrite O2; reflexivity. }
    destruct ev; exact O6.
  - unfold s8. rewrite (proj1 (pops_frame _ _ _)). unfold s7.
    assert (H6 : heap s6 = heap s).
    { unfold s6. rewrite (proj1 (proj2 (movs_frame _ _))). unfold s5. rewrite heap_havoc, heap_oset. unfold s4. rewrite heap_rset.
      assert (H2 : heap s2 = heap s).
      { unfold s2. rewrite (proj1 (pushes_frame _ _ _)). unfold s1. apply (proj1 (proj2 (movs_frame _ _))). }
      unfold s3. destruct ev; [rewrite heap_set_flags, heap_rset|]; exact H2. }
    destruct ev; exact H6.
Qed.
End PrintCore.

Definition above_eq (s s' : xstate) (sp : Z) : Prop :=
  heap s' = heap s /\ (forall a, sp <= a -> kget s' a = kget s a).

Lemma xtpos_shape n j t : xtpos n j = Ok t ->
  ((j < 6)%nat /\ t = XR (4 + 2 * N.of_nat j + tnum_n n)%N) \/ ((6 <= j)%nat /\ exists p, t = XS p /\ slot_ok p).
Proof.
  intros H. pose proof (xtpos_ok _ _ _ H) as (L & _).
  unfold tpos, x86_backend, x86_backend_with, b_temporary_from_position, temporary_from_position in H.
  change RESERVED with 4%N in H. change REGISTER_NUM with 16%N in H.
  assert (TN : (tnum_n n <= 1)%N) by (destruct n; cbn; lia).
  destruct (N.ltb_spec (2 * N.of_nat j + tnum_n n + 4) 16).
  - left. assert (E : t = XR (2 * N.of_nat j + tnum_n n + 4)%N) by congruence. subst t. split; [lia|]. f_equal. lia.
  - right. destruct (N.ltb _ _); [|discriminate]. split; [lia|].
    assert (E : t = XS (2 * N.of_nat j + tnum_n n + 4 - 16 + RESERVED_SPILLS)%N) by congruence. subst t. eexists; split; [reflexivity|exact L].
Qed.

Section Print.
Variable im : image.
Variable CL : Z -> ident -> list clause -> Prop.
Local Notation rel := (rel CL).

(* PrintI64 in ANY context (integers and closures in any positions) *)
Theorem sim_print c e s sp nl v z tv :
  rel c e s sp -> lookup_int e v = Some z -> xvt c (idn v) = Ok tv ->
  exists s', exec_straight im (x_print nl tv c) s = Some s' /\
    rel c e s' sp /\ out s' = (nl, z) :: out s /\ above_eq s s' sp.
Proof.
  intros R LV TV.
  destruct (rel_lookup CL c e s sp v z R LV) as (i & bi & ti & Hi & Ei & Ti & Vi).
  rewrite <- Ei, (vt_of_nth0 c i bi (rel_nodup R) Hi), Ti in TV. inversion TV; subst ti.
  assert (Li : (i < List.length c)%nat) by (apply nth_error_Some; congruence).
  pose proof (rel_frame R) as F.
  pose proof (csri_regs_ok c) as RO. pose proof (csri_shape c) as SH.
  destruct (caller_save_registers_info c) as [fb regs] eqn:CS. cbn [snd] in RO.
  assert (FB : fb = N.max (2 * N.of_nat (List.length c) + 4) 12) by congruence. clear SH.
  assert (FB12 : (12 <= fb)%N) by (rewrite FB; lia).
  assert (FBn : (2 * N.of_nat (List.length c) + 4 <= fb)%N) by (rewrite FB; lia).
  destruct RO as [RNG NDr RSND RFST].
  (* the part common to both placements of the printed variable *)
  assert (CORE : forall s0 rs, frame_ok s0 sp -> rget s0 rs = Some z -> rs <> 0%N -> (rs < fb)%N ->
            (forall r, r <> 1%N -> rget s0 r = rget s r) -> (forall a, kget s0 a = kget s a) ->
            out s0 = out s -> heap s0 = heap s ->
            exists s', exec_straight im (save_caller_save_registers fb regs ++ [MOV (arg 0) rs] ++ [CALL (print_name nl)]
                               ++ restore_caller_save_registers fb regs) s0 = Some s' /\
              rel c e s' sp /\ out s' = (nl, z) :: out s /\ above_eq s s' sp).
  { intros s0 rs F0 RS NZ LT RGs KG OU HE.
    destruct (print_core im fb regs s0 sp nl z rs FB12 RNG NDr F0 (rel_align R) (rel_room R) RS NZ LT)
      as (s' & E & SP' & RG' & CSV & KG' & OU' & HE').
    exists s'. split; [exact E|].
    assert (F' : frame_ok s' sp) by (split; [exact SP'|apply F]).
    split; [|split; [congruence|split; [congruence|intros a Ha; rewrite KG' by exact Ha; apply KG]]].
    apply (rel_keep CL c e s s' sp R F').
    - rewrite CSV; [apply RGs; discriminate|discriminate|reflexivity|change FREE with 3%N; lia].
    - intros j b n t Hj AL Tj.
      assert (Lj : (j < List.length c)%nat) by (apply nth_error_Some; congruence).
      destruct (xtpos_shape n j t Tj) as [(J & ->)|(J & p & -> & P)]; cbn [lget].
      + assert (TN : (tnum_n n <= 1)%N) by (destruct n; cbn; lia).
        destruct (Nat.lt_ge_cases j 4) as [J4|J4].
        * (* caller-saved: in the saved list *)
          rewrite RG'; [apply RGs; lia|].
          destruct n; cbn [tnum_n].
          -- replace (4 + 2 * N.of_nat j + 0)%N with (4 + 2 * N.of_nat j)%N by lia. apply (RFST j b Hj J4).
             destruct AL as [AL|AL]; [discriminate|exact AL].
          -- replace (4 + 2 * N.of_nat j + 1)%N with (5 + 2 * N.of_nat j)%N by lia. apply (RSND j b Hj J4).
        * (* r12-r15 *)
          rewrite CSV; [apply RGs; lia|lia|apply caller_saved_high; lia|lia].
      + rewrite !sget_kget. destruct (slot_addr_facts sp p (proj2 F) P) as (_ & _ & _ & GE & _).
        rewrite KG' by exact GE. apply KG. }
  unfold x_print. rewrite CS.
  change (if nl then "println_i64" else "print_i64")%string with (print_name nl).
  destruct (xtpos_shape Snd i tv Ti) as [(J & ->)|(J & p & -> & P)]; cbn [lget tnum_n] in Vi.
  - cbn [app]. cbn [tnum_n]. apply (CORE s); auto; lia.
  - cbn [move_to_register]. rewrite exec_straight_app. cbn [exec_straight].
    rewrite (step_MOVL_slot im s sp F) by exact P. rewrite Vi.
    apply (CORE (rset s TEMP (Some z)) TEMP); auto.
    + apply frame_ok_rset; [discriminate|exact F].
    + apply rget_rset_same.
    + discriminate.
    + change TEMP with 1%N. lia.
    + intros r Hr. apply rget_rset_other. change TEMP with 1%N. congruence.
Qed.
End Print.
