(* C01: the composition with ALL middle links discharged by proved stage theorems:
     Fun -> Core        C02_fun2core_correct_fragment2            (guard: prog_guard, definition names distinct)
     Core -> focused    C03_uniquify_focus_preserves_static       (guards: pre_check, focus_wf, cs_prog, static_ok)
     focused -> AxCut   C04_shrink_correct_fragment2              (guards: frag2_prog, decls_ok, wt_fs, unique_binders, ids_bounded)
     AxCut -> linear    C05 linearize_preserves                   (guard: prog_ok)
   All guards are BOOLEAN predicates on programs the statement names; the run-time check evaluates every one of
   them on the real stage outputs (tags proved-fragment2 / thm-static / proved-sem).  The one remaining
   hypothesis is the x86-64 code generation link (selection lemmas + execution of the real output, C06). *)
From Coq Require Import List ZArith NArith String Ascii Bool Lia.
From SCC Require Import Base.Sexp Lang.AxSyn Lang.FunSyn Lang.CoreSyn Sem.AxSem Sem.CoreSem Sem.FunSem Sem.X86Sem Sem.FsCheck Sem.FsFrag2
     Model.Backend Model.Fun2Core Model.Fun2CoreGuard Model.Focus Model.FocusCheck Model.FocusGuard Model.Shrink Model.Linearize Model.LinCheck
     Model.X86 Model.Runtime
     Proof.RuntimeProof Proof.LinSim Proof.Compose Proof.ComposeFocus Proof.ComposeF2C Proof.Compose2
     Proof.Fun2CoreRel Proof.Fun2CoreProg Proof.FocusRun Proof.FocusFrag Proof.UqAeq Proof.UqCompose Proof.ShrinkSem Proof.ShrinkSimClosed.
Import ListNotations.
Open Scope Z_scope.

Section PipelineAll.
Hypothesis x86_codegen_correct :
  forall (p : prog) (lc : N) (cs : list xcode) (n : nat) (lc' : N) (args : list Z) (fuel : nat) (o : obs),
    x86_compile p lc = Backend.Ok (cs, n, lc') ->
    run_linear fuel p args = o -> defined o = true ->
    exists outer inner, fst (run_x86 outer inner cs args) = o.

Theorem compile_correct_middle_discharged :
  forall (p : fcprog) (c : cprog) (f : fsprog) (a : prog) (cs : list xcode) (nargs : nat) (lc lc' : N)
         (args : list Z) (n : nat) (o : obs),
    (* source program: inside the guard of the Fun -> Core theorem *)
    NoDup (map fdname (fcpdefs p)) -> prog_guard p = true ->
    compile_prog p = Fun2Core.Ok c ->
    (* Core program: inside the guards of the uniquify + focus theorem *)
    pre_check c = true -> focus_wf c = true -> cs_prog c = true -> static_ok c = true ->
    focus_prog c = Backend.Ok f ->
    (* focused program: inside the guards of the shrink theorem *)
    frag2_prog f = true -> decls_ok f = true -> wt_fs f = true -> unique_binders f = true -> ids_bounded f = true ->
    shrink_prog f = SOk a ->
    (* AxCut program: the linearizer's precondition *)
    prog_ok a = true ->
    x86_compile (linearize a) lc = Backend.Ok (cs, nargs, lc') ->
    run_fun n p args = o -> out_ok o ->
    (exists outer inner, fst (run_x86 outer inner cs args) = o) /\
    (Forall (fun pz => in_i64 (snd pz)) (fst o) ->
     bytes_of_string (render_prints (fst o)) = flat_map runtime_bytes (fst o)).
Proof.
  intros p c f a cs nargs lc lc' args n o Hnd Hgd Hc Hpre Hwf Hcs ST Hf F1 F2 F3 F4 F5 Hs Hok Hx Hrun (z & Hz).
  assert (D : defined o = true) by (unfold defined; now rewrite Hz).
  assert (G : (exists z, snd o = OExit z) \/ (exists w, snd o = OUndef w)) by (left; eauto).
  split; [|apply render_prints_is_runtime_output].
  destruct (fun2core_correct_fragment_lemma p c args n o Hc Hnd Hgd Hrun (defined_final o D)) as (m1 & R1).
  assert (GE : good_end (snd (run_core m1 c args))) by (rewrite R1, Hz; exact I).
  destruct (uniquify_focus_preserves_static c f args m1 Hpre Hwf Hcs ST Hf GE) as (m2 & R2).
  rewrite R1 in R2.
  assert (Gd : ShrinkSem.good o) by (unfold ShrinkSem.good; rewrite Hz; exact I).
  destruct (shrink_correct_fragment2_closed f a m2 args o F1 F2 F3 F4 F5 Hs R2 Gd) as (m3 & R3).
  destruct (linearize_preserves_stable a Hok args m3 o R3 G) as (m4 & R4).
  specialize (R4 0%nat). rewrite Nat.add_0_r in R4.
  exact (x86_codegen_correct (linearize a) lc cs nargs lc' args m4 o Hx R4 D).
Qed.
End PipelineAll.

(* ---------- non-vacuity: the guards, as one executable list, and concrete programs inside all of them ---------- *)
From SCC Require Import Model.PipelineGuards.
From SCC Require Import Proof.Fun2CoreExamples.
Lemma pipeline_guards_examples :
  forallb (fun p => forallb (fun b => b) (pipeline_guards p)) [ex_calls; ex_shared; ex_data; ex_labels; ex_codata] = true.
Proof. vm_compute. reflexivity. Qed.

(* and the conclusion itself, computed on both ends for one of them (no hypothesis involved) *)
Definition end_to_end_agree (p : fcprog) (args : list Z) (n outer inner : nat) : bool :=
  match pipeline_stages p with
  | Some (_, _, a) =>
      match x86_compile (linearize a) 0 with
      | Backend.Ok (cs, _, _) =>
          let o := run_fun n p args in
          defined o && obs_eqb (fst (run_x86 outer inner cs args)) o
      | _ => false
      end
  | None => false
  end.
Lemma end_to_end_example :
  end_to_end_agree ex_data [6] 2000 2000 2000 = true /\ end_to_end_agree ex_labels [5] 2000 2000 2000 = true
  /\ end_to_end_agree ex_codata [4] 4000 2000 2000 = true.
Proof. vm_compute. repeat split; reflexivity. Qed.
