(* Proof/ShrinkTyB.v (C12, fragment 2) - the type declarations of the shrunk program, signatures under
   the chirality collapse, and the relation between the typing context of a focused statement and the
   AxCut context of its image. *)
From Coq Require Import List ZArith NArith String Bool Lia.
From SCC Require Import Base.Sexp Lang.SynUtil Lang.CoreSyn Lang.AxSyn Sem.FsCheck Model.Shrink Model.LinCheck Model.WtDefs
     Proof.ShrinkProof Proof.ShrinkRn Proof.ShrinkSimEta Proof.ShrinkTyA.
From SCC Require Sem.AxCheck.
Import ListNotations.
Open Scope list_scope.

Lemma ax_seq_none {X} (a b : option X) : match a with None => b | Some e => Some e end = None -> a = None /\ b = None.
Proof. destruct a; [discriminate|auto]. Qed.

Lemma find_type_map : forall cd l T,
  AxCheck.find_type (map (shrink_declaration cd) l) T = option_map (shrink_declaration cd) (find_decl l T).
Proof.
  intros cd l T. unfold AxCheck.find_type, find_decl. induction l as [|d r IH]; [reflexivity|]. simpl.
  unfold shrink_identifier. change (ident_eqb (ctname d) T) with (cident_eqb (ctname d) T).
  destruct (cident_eqb (ctname d) T); [reflexivity | exact IH].
Qed.
Lemma find_type_app : forall l1 l2 T, AxCheck.find_type (l1 ++ l2) T =
  match AxCheck.find_type l1 T with Some d => Some d | None => AxCheck.find_type l2 T end.
Proof.
  intros l1 l2 T. unfold AxCheck.find_type. induction l1 as [|d r IH]; [reflexivity|]. simpl.
  destruct (ident_eqb (tname d) T); [reflexivity | exact IH].
Qed.
Lemma find_decl_app : forall l1 l2 T, find_decl (l1 ++ l2) T =
  match find_decl l1 T with Some d => Some d | None => find_decl l2 T end.
Proof.
  intros l1 l2 T. unfold find_decl. induction l1 as [|d r IH]; [reflexivity|]. simpl.
  destruct (cident_eqb (ctname d) T); [reflexivity | exact IH].
Qed.
Lemma find_xtor_shrink : forall cd d K sg, find_cxtor d K = Some sg ->
  AxCheck.find_xtor (shrink_declaration cd d) K = Some (shrink_xtor cd sg).
Proof.
  intros cd d K sg H. unfold AxCheck.find_xtor, find_cxtor in *. cbn [shrink_declaration txtors].
  induction (ctxtors d) as [|s r IH]; [discriminate|]. simpl in *. unfold shrink_identifier.
  change (ident_eqb (cxname s) K) with (cident_eqb (cxname s) K).
  destruct (cident_eqb (cxname s) K); [now inv H | now apply IH].
Qed.

Lemma chi_eqb_refl : forall c, chi_eqb c c = true.
Proof. destruct c; reflexivity. Qed.
Lemma ty_eqb_refl : forall t, ty_eqb t t = true.
Proof. destruct t as [|n]; [reflexivity | apply cident_eqb_refl]. Qed.
Lemma chi_eqb_eq : forall a b, chi_eqb a b = true -> a = b.
Proof. destruct a, b; simpl; congruence. Qed.
Lemma ty_eqb_eq : forall a b, ty_eqb a b = true -> a = b.
Proof. destruct a as [|x], b as [|y]; simpl; try congruence. intros H. apply cident_eqb_eq in H. now subst. Qed.
Lemma same_sig_shrink : forall cd a s, cbchi a = cbchi s -> cbty a = cbty s ->
  AxCheck.same_sig (shrink_binding cd a) (shrink_binding cd s) = true.
Proof.
  intros cd a s Hc Ht. destruct (shrink_binding_sig cd a s Hc Ht) as [H1 H2]. unfold AxCheck.same_sig.
  rewrite H1, H2, chi_eqb_refl, ty_eqb_refl. reflexivity.
Qed.
Lemma csame_sig_eq' : forall a s, csame_sig a s = true -> cbchi a = cbchi s /\ cbty a = cbty s.
Proof.
  intros a s H. unfold csame_sig in H. apply andb_prop in H as [H1 H2]. split.
  - destruct (cbchi a), (cbchi s); try discriminate; reflexivity.
  - destruct (cbty a) as [|x], (cbty s) as [|y]; try discriminate; [reflexivity|]. simpl in H2. apply cident_eqb_eq in H2. now subst.
Qed.
Lemma params_ok_shrink : forall cd ctx sg, fparams_ok ctx sg = true ->
  forall what, AxCheck.params_ok what (shrink_context cd ctx) (shrink_context cd sg) = None.
Proof.
  induction ctx as [|a r IH]; intros [|s sr] H what; simpl in H; try discriminate; [reflexivity|].
  apply andb_prop in H as [H1 H2]. apply csame_sig_eq' in H1 as [Hc Ht]. cbn [shrink_context map AxCheck.params_ok].
  rewrite (same_sig_shrink cd a s Hc Ht). cbn [AxCheck.ensure]. apply (IH sr H2).
Qed.
Lemma params_ok_fresh_env : forall bs st env st1, fresh_env bs st = (env, st1) ->
  forall what, AxCheck.params_ok what env bs = None.
Proof.
  induction bs as [|b r IH]; intros st env st1 H what; simpl in H.
  - inv H. reflexivity.
  - destruct (fresh_env r _) as [r' st2] eqn:Hr. inv H. cbn [AxCheck.params_ok]. unfold AxCheck.same_sig. cbn [bchi bty].
    rewrite chi_eqb_refl, ty_eqb_refl. cbn [andb AxCheck.ensure]. eapply IH; eauto.
Qed.
Lemma args_ok_self : forall env G, (forall b, In b env -> AxCheck.bound G (bvar b) (bchi b) (bty b) = None) ->
  forall what, AxCheck.args_ok what G env env = None.
Proof.
  induction env as [|b r IH]; intros G H what; [reflexivity|]. cbn [AxCheck.args_ok]. unfold AxCheck.same_sig.
  rewrite chi_eqb_refl, ty_eqb_refl. cbn [andb AxCheck.ensure]. rewrite (H b (or_introl eq_refl)). apply IH. intros b0 Hb0. apply H. now right.
Qed.
Lemma args_ok_sig : forall what G args sg sg', AxCheck.args_ok what G args sg = None ->
  AxCheck.params_ok what sg sg' = None -> AxCheck.args_ok what G args sg' = None.
Proof.
  intros what G. induction args as [|a r IH]; intros [|s sr] [|s' sr'] H1 H2; simpl in *; try discriminate; [reflexivity|].
  apply ax_seq_none in H1 as [A1 H1]. apply ax_seq_none in H1 as [A2 A3]. apply ax_seq_none in H2 as [B1 B2].
  unfold AxCheck.ensure in A1, B1. destruct (AxCheck.same_sig a s) eqn:E1; [|discriminate]. destruct (AxCheck.same_sig s s') eqn:E2; [|discriminate].
  assert (AxCheck.same_sig a s' = true).
  { unfold AxCheck.same_sig in *. apply andb_prop in E1 as [C1 C2]. apply andb_prop in E2 as [C3 C4].
    apply chi_eqb_eq in C1. apply ty_eqb_eq in C2. rewrite C1, C2, C3, C4. reflexivity. }
  rewrite H. cbn [AxCheck.ensure]. rewrite A2. eapply IH; eauto.
Qed.

Section Ctx.
Variable p : fsprog.
Notation data := (fspdata p).
Notation codata := (fspcodata p).
Notation D := (data ++ [cont_int]).
Definition ts_of : list tydecl := map (shrink_declaration codata) D ++ map (shrink_declaration codata) codata.
Hypothesis Hdisj : forall n, find_decl data n <> None -> find_decl codata n = None.
Hypothesis Hcont : find_decl data cont_name = None /\ find_decl codata cont_name = None.

Lemma find_type_data : forall T d, find_decl data T = Some d -> AxCheck.find_type ts_of T = Some (shrink_declaration codata d).
Proof.
  intros T d H. unfold ts_of. rewrite find_type_app, find_type_map, find_decl_app, H. reflexivity.
Qed.
Lemma find_type_cont : AxCheck.find_type ts_of cont_name = Some (shrink_declaration codata cont_int).
Proof.
  unfold ts_of. rewrite find_type_app, find_type_map, find_decl_app. rewrite (proj1 Hcont). reflexivity.
Qed.
Lemma find_type_codata : forall T d, find_decl codata T = Some d -> AxCheck.find_type ts_of T = Some (shrink_declaration codata d).
Proof.
  intros T d H. unfold ts_of. rewrite find_type_app, !find_type_map, find_decl_app.
  destruct (find_decl data T) as [d0|] eqn:E; [rewrite Hdisj in H; [discriminate | congruence]|].
  assert (Hne : cident_eqb cont_name T = false).
  { destruct (cident_eqb cont_name T) eqn:Q; [|reflexivity]. apply cident_eqb_eq in Q. subst T. rewrite (proj2 Hcont) in H. discriminate. }
  unfold find_decl at 1. cbn [find cont_int ctname]. rewrite Hne. cbn [option_map]. rewrite H. reflexivity.
Qed.

(* the AxCut context of the image: every needed variable of G is bound, under its AxCut name, with
   the collapsed chirality and type *)
Definition grel (need : cident -> Prop) (pi : cident -> ident) (Ga : ctx) (G : cctx) : Prop :=
  forall b, In b G -> need (cbvar b) ->
  exists b', AxCheck.lookup_b Ga (idn (pi (cbvar b))) = Some b' /\
             bchi b' = bchi (shrink_binding codata b) /\ bty b' = bty (shrink_binding codata b).
Lemma grel_bound : forall (need : cident -> Prop) pi Ga G b, grel need pi Ga G -> In b G -> need (cbvar b) ->
  AxCheck.bound Ga (pi (cbvar b)) (bchi (shrink_binding codata b)) (bty (shrink_binding codata b)) = None.
Proof. intros need pi Ga G b H Hb Hn. destruct (H b Hb Hn) as (b' & Hl & Hc & Ht). eapply bound_intro; eauto. Qed.
Lemma shrink_rn_binding : forall rho a,
  bchi (shrink_binding codata (rn_binding rho a)) = bchi (shrink_binding codata a) /\
  bty (shrink_binding codata (rn_binding rho a)) = bty (shrink_binding codata a) /\
  bvar (shrink_binding codata (rn_binding rho a)) = rho (cbvar a).
Proof.
  intros rho a. split; [|split]; try apply shrink_binding_sig; try reflexivity. rewrite shrink_binding_var. reflexivity.
Qed.
Lemma args_ok_shrink : forall (need : cident -> Prop) rho th Ga G args sg,
  grel need (fun x => th (rho x)) Ga G ->
  (forall a, In a args -> In a G /\ need (cbvar a)) ->
  Forall2 (fun a s => cbchi a = cbchi s /\ cbty a = cbty s) args sg ->
  forall what, AxCheck.args_ok what Ga (arn_ctx th (shrink_context codata (rn_ctx rho args))) (shrink_context codata sg) = None.
Proof.
  intros need rho th Ga G args sg Hg Hargs Hsig what. induction Hsig as [|a s args sg [Hc Ht] _ IH]; [reflexivity|].
  cbn [rn_ctx shrink_context arn_ctx map AxCheck.args_ok].
  destruct (shrink_rn_binding rho a) as (E1 & E2 & E3). unfold arn_binding. cbn [bvar bchi bty]. unfold AxCheck.same_sig. cbn [bchi bty].
  rewrite E1, E2, E3. destruct (shrink_binding_sig codata a s Hc Ht) as [F1 F2]. rewrite F1, F2, chi_eqb_refl, ty_eqb_refl. cbn [andb AxCheck.ensure].
  destruct (Hargs a (or_introl eq_refl)) as [Ha Hn]. rewrite <- F1, <- F2. rewrite (grel_bound _ _ _ _ _ Hg Ha Hn).
  apply IH. intros a0 Ha0. apply Hargs. now right.
Qed.
Lemma fargs_sig : forall what G args sg, fargs_ok what G args sg = None ->
  Forall2 (fun a s => cbchi a = cbchi s /\ cbty a = cbty s) args sg.
Proof.
  intros what G. induction args as [|a r IH]; intros [|s sr] H; cbn [fargs_ok] in H; try discriminate; constructor.
  - apply seq_none in H as [H1 _]. apply fensure_none in H1. now apply csame_sig_eq'.
  - apply seq_none in H as [_ H]. apply seq_none in H as [_ H]. now apply IH.
Qed.
End Ctx.
