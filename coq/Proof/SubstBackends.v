(* C11: the AArch64 and RISC-V back-end instances satisfy `backend_ok` (Temporary order = a strict total
   order, temporary numbering injective), so the generic theorems of Proof/SubstGraph.v - the move graph
   of every Substitute has in-degree <= 1, one reference-count operation per object variable - hold for
   their models as well. *)
From Coq Require Import List ZArith NArith String Bool Lia.
From SCC Require Import Base.Sexp Lang.AxSyn Model.ParMoves Model.Backend Proof.SubstGraph.
From SCC Require Model.A64 Model.RV.
Import ListNotations.

Lemma a64_backend_ok : backend_ok A64.a64_backend.
Proof.
  split; cbn [A64.a64_backend A64.a64_backend_with b_tcompare b_temporary_from_position].
  - intros [[x| |]|x] [[y| |]|y]; cbn; try (split; congruence); rewrite N.compare_eq_iff; split; congruence.
  - intros [[x| |]|x] [[y| |]|y]; cbn; auto using N.compare_antisym.
  - intros [[x| |]|x] [[y| |]|y] [[z| |]|z]; cbn; try congruence; rewrite !N.compare_lt_iff; lia.
  - intros p q t. unfold A64.temporary_from_position.
    change A64.RESERVED with 4%N. change A64.REGISTER_NUM with 30%N. change A64.RESERVED_SPILLS with 1%N. change A64.SPILL_NUM with 256%N.
    cbv zeta.
    destruct (N.ltb_spec (p + 4) 30); destruct (N.ltb_spec (q + 4) 30);
      repeat match goal with |- context [N.ltb ?a ?b] => destruct (N.ltb_spec a b) end;
      intros E1 E2; inversion E1; subst; inversion E2; lia.
Qed.

Lemma rv_backend_ok : backend_ok RV.rv_backend.
Proof.
  split; cbn [RV.rv_backend b_tcompare b_temporary_from_position].
  - intros a b. apply N.compare_eq_iff.
  - intros a b. apply N.compare_antisym.
  - intros a b c. rewrite !N.compare_lt_iff. lia.
  - intros p q t. unfold RV.temporary_from_position.
    change RV.RESERVED with 4%N. change RV.REGISTER_NUM with 32%N. cbv zeta.
    destruct (N.ltb_spec (p + 4) 32); destruct (N.ltb_spec (q + 4) 32);
      intros E1 E2; inversion E1; subst; inversion E2; lia.
Qed.

Print Assumptions a64_backend_ok.
Print Assumptions rv_backend_ok.
