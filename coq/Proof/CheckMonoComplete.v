(* C15, completeness of the REPAIRED checker (check_term_gen true: Constructor::check and New::check
   first create the instance of the expected type) with respect to the declarative rules, on the
   fragment without type parameters / type arguments. *)
From Coq Require Import List ZArith String Bool Permutation Lia.
From SCC Require Import Base.Sexp Lang.SynUtil Lang.FunSyn Model.Check Sem.FunTyping
  Proof.FunInd Proof.FunEq Proof.CheckAnn Proof.TypingReject Proof.CheckBuild Proof.CheckMono Proof.CheckMonoSound.
Import ListNotations.
Open Scope list_scope.

Definition ctx_wf (ts : list tdecl) (c : fctx) : bool := forallb (fun b => wf_ty ts (fbty b)) c.

(* the declarations and definition signatures are well-formed *)
Record wf_world (ts : list tdecl) (fs : list fdef) : Prop := {
  WF_sigs : forall td s, In td ts -> In s (td_xtors td) ->
              ctx_wf ts (xs_args s) = true /\ (forall r, xs_ret s = Some r -> wf_ty ts r = true);
  WF_defs : forall d, In d fs -> ctx_wf ts (fdctx d) = true /\ wf_ty ts (fdret d) = true
}.

Lemma swap_remove_first_some : forall {X} (f : X -> bool) l y, In y l -> f y = true ->
  exists x l', swap_remove_first f l = Some (x, l').
Proof.
  induction l as [|z r IH]; intros y Hin Hf; [destruct Hin|]. simpl.
  destruct (f z) eqn:Ez.
  - destruct (pop_last r) as [[m w]|]; eauto.
  - destruct Hin as [->|Hin]; [congruence|]. destruct (IH y Hin Hf) as [x [l' ->]]. eauto.
Qed.

Section Complete.
  Variable ts : list tdecl.
  Variable fs : list fdef.
  Hypothesis W : mono_world ts fs.
  Hypothesis WF : wf_world ts fs.

  Ltac frame := eauto using same_templates_trans, grows_trans, same_templates_refl, grows_refl.

  Lemma ctx_wf_in : forall c b, ctx_wf ts c = true -> In b c -> wf_ty ts (fbty b) = true.
  Proof. intros c b H Hin. unfold ctx_wf in H. rewrite forallb_forall in H. auto. Qed.
  Lemma ctx_wf_app : forall a b, ctx_wf ts a = true -> ctx_wf ts b = true -> ctx_wf ts (a ++ b) = true.
  Proof. intros a b Ha Hb. unfold ctx_wf in *. rewrite forallb_app, Ha, Hb. reflexivity. Qed.
  Lemma ctx_wf_zip : forall xs sg, ctx_wf ts sg = true -> ctx_wf ts (zip_names xs sg) = true.
  Proof.
    induction xs as [|x r IH]; intros sg H; simpl; [reflexivity|]. destruct sg as [|b br]; [reflexivity|].
    simpl in *. apply andb_true_iff in H. destruct H as [H1 H2]. rewrite H1. simpl. auto.
  Qed.

  Definition complete_at (t : fterm) : Prop :=
    forall st ctx T,
      mono_term t = true -> mono_ctx ctx = true -> mono_ty T = true -> tables ts fs st -> minv st ->
      ctx_wf ts ctx = true -> wf_ty ts T = true ->
      chk ts fs (E ctx) t T = true ->
      exists t' st', check_term_gen true t st ctx T = COk (t', st').

  (* success together with the frame conditions (from soundness) *)
  Lemma complete_frame : forall t st ctx T,
    complete_at t -> mono_term t = true -> mono_ctx ctx = true -> mono_ty T = true -> tables ts fs st -> minv st ->
    ctx_wf ts ctx = true -> wf_ty ts T = true -> chk ts fs (E ctx) t T = true ->
    exists t' st', check_term_gen true t st ctx T = COk (t', st')
                   /\ minv st' /\ same_templates st st' /\ grows st st'.
  Proof.
    intros t st ctx T Hc Hm Hmc HT Tb I Hw HwT Hk.
    destruct (Hc st ctx T Hm Hmc HT Tb I Hw HwT Hk) as [t' [st' Hr]].
    destruct (check_term_gen_sound ts fs W t true st ctx T t' st' Hm Hmc HT Tb I Hr) as [_ [I' [S G]]].
    eauto 10.
  Qed.

  Lemma E_prd : forall ctx v T, is_prd (E ctx) v T = true -> lookup_var ctx v = COk T.
  Proof.
    intros ctx v T H. unfold is_prd in H. rewrite E_lookup in H. unfold lookup_var.
    destruct (lookup_last ctx v) as [b|]; [|discriminate]. destruct (fbchi b); [|discriminate].
    apply fty_eqb_eq in H. subst. reflexivity.
  Qed.
  Lemma E_cns : forall ctx v T, cns_ty (E ctx) v = Some T -> lookup_covar ctx v = COk T /\ exists b, In b ctx /\ fbty b = T.
  Proof.
    intros ctx v T H. unfold cns_ty in H. rewrite E_lookup in H. unfold lookup_covar.
    destruct (lookup_last ctx v) as [b|] eqn:El; [|discriminate]. destruct (fbchi b); [discriminate|].
    inversion H; subst. split; [reflexivity|]. apply lookup_last_in in El. exists b. tauto.
  Qed.

  Lemma ann_check_ok : forall (a : option fty) T st, ann_ok a T = true -> mono_ty T = true -> wf_ty ts T = true ->
    tables ts fs st -> minv st ->
    exists st', match a with Some t => check_equality st t T | None => COk st end = COk st'
                /\ minv st' /\ same_templates st st' /\ grows st st'.
  Proof.
    intros a T st Ha Hm Hw Tb I. destruct a as [t|].
    - simpl in Ha. apply fty_eqb_eq in Ha. subst t.
      destruct (check_equality_mono_ok ts fs (W_ret _ _ W) T st Hm Tb I Hw) as [st' [H [I' [S [G _]]]]]. eauto 10.
    - exists st. splits; frame.
  Qed.

  (* ---------- arguments ---------- *)
  Lemma check_args_with_complete : forall args, Forall complete_at args ->
    forall tys st ctx,
      mono_terms args = true -> mono_ctx ctx = true -> mono_ctx tys = true -> tables ts fs st -> minv st ->
      ctx_wf ts ctx = true -> ctx_wf ts tys = true ->
      chk_args_with (chk ts fs) (E ctx) [] [] args tys = true ->
      exists args' st', check_args_with (check_term_gen true) args tys st ctx = COk (args', st')
                        /\ minv st' /\ same_templates st st' /\ grows st st'.
  Proof.
    intros args HF. induction HF as [|a ar Ha _ IH]; intros tys st ctx Hm Hc Ht Tb I Hw Hwt Hk.
    - destruct tys; [|discriminate]. simpl. exists [], st. splits; frame.
    - destruct tys as [|b br]; [discriminate|]. simpl in Hm, Ht, Hwt.
      apply andb_true_iff in Hm. destruct Hm as [Hma Hmr]. apply andb_true_iff in Ht. destruct Ht as [Htb Htr].
      apply andb_true_iff in Hwt. destruct Hwt as [Hwb Hwr].
      simpl in Hk. rewrite inst_nil in Hk. apply andb_true_iff in Hk. destruct Hk as [Hka Hkr].
      simpl. destruct (fbchi b) eqn:Ech.
      + destruct (ty_check_mono_ok ts fs (W_ret _ _ W) _ st Htb Tb I Hwb) as [st1 [H1 [I1 [S1 [G1 _]]]]]. rewrite H1. simpl.
        destruct (complete_frame a st1 ctx (fbty b) Ha Hma Hc Htb (tables_same _ _ _ _ Tb S1) I1 Hw Hwb Hka) as [a' [st2 [H2 [I2 [S2 G2]]]]].
        rewrite H2. simpl.
        assert (S02 : same_templates st st2) by frame.
        destruct (IH br st2 ctx Hmr Hc Htr (tables_same _ _ _ _ Tb S02) I2 Hw Hwr Hkr) as [ar' [st3 [H3 [I3 [S3 G3]]]]].
        rewrite H3. simpl. exists (a' :: ar'), st3. splits; frame.
      + destruct a as [v ann chi| | | | | | | | | | | | | |]; try discriminate.
        apply andb_true_iff in Hka. destruct Hka as [Hka Hchi]. apply andb_true_iff in Hka. destruct Hka as [Hcns Hann].
        assert (Hl : lookup_covar ctx v = COk (fbty b)).
        { unfold is_cns in Hcns. destruct (E_cns ctx v (fbty b)) as [Hl _]; [|exact Hl].
          unfold cns_ty. destruct (E ctx v) as [[[|] T']|]; try discriminate. apply fty_eqb_eq in Hcns. subst. reflexivity. }
        assert (Hgo : exists ar' st', (doc found <- lookup_covar ctx v;
                                       doc st1 <- match ann with Some t => check_equality st t found | None => COk st end;
                                       doc st2 <- check_equality st1 (fbty b) found;
                                       doc (ar', st3) <- check_args_with (check_term_gen true) ar br st2 ctx;
                                       COk (FVar v (Some found) (Some FCns) :: ar', st3)) = COk (FVar v (Some (fbty b)) (Some FCns) :: ar', st')
                                      /\ minv st' /\ same_templates st st' /\ grows st st').
        { rewrite Hl. simpl.
          destruct (ann_check_ok ann (fbty b) st Hann Htb Hwb Tb I) as [st1 [H1 [I1 [S1 G1]]]]. rewrite H1. simpl.
          destruct (check_equality_mono_ok ts fs (W_ret _ _ W) (fbty b) st1 Htb (tables_same _ _ _ _ Tb S1) I1 Hwb) as [st2 [H2 [I2 [S2 [G2 _]]]]].
          rewrite H2. simpl. assert (S02 : same_templates st st2) by frame.
          destruct (IH br st2 ctx Hmr Hc Htr (tables_same _ _ _ _ Tb S02) I2 Hw Hwr Hkr) as [ar' [st3 [H3 [I3 [S3 G3]]]]].
          rewrite H3. simpl. exists ar', st3. splits; frame. }
        destruct Hgo as [ar' [st' [Hgo Hfr]]].
        destruct chi as [[|]|]; try discriminate; eauto.
  Qed.

  Lemma check_args_complete : forall args, Forall complete_at args ->
    forall tys st ctx,
      mono_terms args = true -> mono_ctx ctx = true -> mono_ctx tys = true -> tables ts fs st -> minv st ->
      ctx_wf ts ctx = true -> ctx_wf ts tys = true ->
      chk_args_with (chk ts fs) (E ctx) [] [] args tys = true ->
      exists args' st', check_args (check_term_gen true) args tys st ctx = COk (args', st')
                        /\ minv st' /\ same_templates st st' /\ grows st st'.
  Proof.
    intros args HF tys st ctx Hm Hc Ht Tb I Hw Hwt Hk. unfold check_args.
    rewrite (chk_args_length ts fs _ _ _ _ _ Hk), PeanoNat.Nat.eqb_refl. simpl.
    eapply check_args_with_complete; eassumption.
  Qed.

  (* ---------- what an existing instance provides ---------- *)
  Lemma instance_entry : forall st td, tables ts fs st -> minv st -> In td ts ->
    ahas (st_types st) (td_name td) = true ->
    aget (st_types st) (td_name td) = Some (td_pol td, [], map xs_name (td_xtors td)).
  Proof.
    intros st td Tb I Hin Ha. apply ahas_true in Ha. destruct Ha as [[[pol targs] xs] Hg].
    destruct (mi_types _ I _ _ _ _ Hg) as [-> Ht]. rewrite Hg.
    rewrite (t_tt _ _ _ Tb) in Ht.
    rewrite (find_type_unique ts td (proj1 (names_ok_parts ts fs W)) Hin) in Ht. simpl in Ht. unfold tt_val in Ht.
    inversion Ht; subst. reflexivity.
  Qed.
  Lemma instance_ctor : forall st td x s, tables ts fs st -> minv st -> In td ts -> td_pol td = FData ->
    ahas (st_types st) (td_name td) = true -> find_xsig td x = Some s ->
    aget (st_ctors st) x = Some (xs_args s).
  Proof.
    intros st td x s Tb I Hin Hp Ha Hs. pose proof (instance_entry st td Tb I Hin Ha) as Hg. rewrite Hp in Hg.
    destruct (find_xsig_spec _ _ _ Hs) as [Hsin Hn].
    destruct (mi_ctors_of _ I _ _ x Hg) as [sg [Hc Ht]]; [rewrite <- Hn; apply in_map; assumption|].
    rewrite Hc. f_equal. eapply ctor_template_sig; eassumption.
  Qed.
  Lemma instance_dtor : forall st td x s, tables ts fs st -> minv st -> In td ts -> td_pol td = FCodata ->
    ahas (st_types st) (td_name td) = true -> find_xsig td x = Some s ->
    exists r, xs_ret s = Some r /\ aget (st_dtors st) x = Some (xs_args s, r).
  Proof.
    intros st td x s Tb I Hin Hp Ha Hs. pose proof (instance_entry st td Tb I Hin Ha) as Hg. rewrite Hp in Hg.
    destruct (find_xsig_spec _ _ _ Hs) as [Hsin Hn].
    destruct (mi_dtors_of _ I _ _ x Hg) as [[sg r] [Hc Ht]]; [rewrite <- Hn; apply in_map; assumption|].
    destruct (dtor_template_sig ts fs W _ _ _ _ _ _ Tb Hin Hp Hs Ht) as [-> Hr]. eauto.
  Qed.

  (* ---------- clauses ---------- *)
  Definition pc_complete (pc : pclause) : Prop :=
    forall st ctx T,
      mono_ctx ctx = true -> mono_ty T = true -> tables ts fs st -> minv st ->
      ctx_wf ts ctx = true -> wf_ty ts T = true -> chk ts fs (E ctx) (pc_body pc) T = true ->
      exists t' st', pc_chk pc st ctx T = COk (t', st').

  Lemma nodup_names_no_dups_go : forall l seen, nodup l = true -> (forall x, In x l -> ~ In x seen) ->
    names_no_dups_go seen l = COk tt.
  Proof.
    induction l as [|x r IH]; intros seen Hn Hs; simpl; [reflexivity|].
    simpl in Hn. apply andb_true_iff in Hn. destruct Hn as [Hm Hn].
    destruct (mem_name x seen) eqn:E.
    - exfalso. apply (Hs x (or_introl eq_refl)). apply mem_In. exact E.
    - apply IH; [assumption|]. intros y Hy [<-|Hin].
      + assert (mem x r = true) by (apply mem_In; assumption). rewrite H in Hm. discriminate.
      + eapply Hs; [right; eassumption|assumption].
  Qed.
  Lemma nodup_names_no_dups : forall l, nodup l = true -> names_no_dups l = COk tt.
  Proof. intros l H. apply nodup_names_no_dups_go; [assumption|intros ? ? []]. Qed.

  Lemma check_clauses_complete : forall (is_case : bool) T td xtors pcls st ctx,
    Forall (pc_sound ts fs) pcls -> Forall pc_complete pcls ->
    mono_ctx ctx = true -> ctx_wf ts ctx = true -> tables ts fs st -> minv st ->
    In td ts -> td_pol td = (if is_case then FData else FCodata) ->
    (is_case = true -> mono_ty T = true /\ wf_ty ts T = true) ->
    ahas (st_types st) (td_name td) = true ->
    NoDup xtors -> (forall x, In x xtors -> In x (map xs_name (td_xtors td))) ->
    (forall x, In x xtors -> exists pc, In pc pcls /\ pc_xtor pc = x) ->
    Forall (fun pc => clause_ok ts fs (E ctx) td [] (if is_case then Some T else None) (clause_of pc) = true) pcls ->
    exists cls' leftover st', check_clauses is_case "" T xtors pcls st ctx = COk (cls', leftover, st')
      /\ minv st' /\ same_templates st st' /\ grows st st'.
  Proof.
    intros is_case T td xtors. induction xtors as [|x xr IH];
      intros pcls st ctx HS HC Hmc Hwc Tb I Htd Hpol HT Hinst Hnd Hxs Hex Hok.
    - simpl. exists [], pcls, st. splits; frame.
    - simpl. destruct (Hex x (or_introl eq_refl)) as [pc0 [Hpc0 Hx0]].
      destruct (swap_remove_first_some (fun c => String.eqb (pc_xtor c) x) pcls pc0 Hpc0) as [cl [pcls' Es]];
        [rewrite Hx0; apply String.eqb_refl|].
      rewrite Es. pose proof (swap_remove_first_spec _ _ _ _ Es) as [Hx Hperm]. apply String.eqb_eq in Hx.
      assert (Hall : forall (P : pclause -> Prop), Forall P pcls -> P cl /\ Forall P pcls').
      { intros P HP. assert (HP' : Forall P (cl :: pcls')) by (eapply Permutation_Forall; [apply Permutation_sym; eassumption|assumption]).
        inversion HP'; auto. }
      destruct (Hall _ HS) as [HScl HSr]. destruct (Hall _ HC) as [HCcl HCr]. destruct (Hall _ Hok) as [Hokcl Hokr].
      rewrite append_nil_r.
      (* the clause is fine by the rules *)
      unfold clause_of, clause_ok in Hokcl. rewrite Hx in Hokcl.
      destruct (find_xsig td x) as [s|] eqn:Hs; [|discriminate].
      apply andb_true_iff in Hokcl. destruct Hokcl as [Hokcl Hbody]. apply andb_true_iff in Hokcl. destruct Hokcl as [Hnod Hlen].
      destruct (find_xsig_spec _ _ _ Hs) as [Hsin _].
      destruct (W_sigs _ _ W td s Htd Hsin) as [Hms Hmr]. destruct (WF_sigs _ _ WF td s Htd Hsin) as [Hws Hwr].
      rewrite (W_params _ _ W td Htd), extend_sig_nil in Hbody.
      (* the signature in the table, and the type of the body *)
      assert (Hsig : exists bty,
                (if is_case
                 then match aget (st_ctors st) x with Some sg => COk (sg, T) | None => CErr EUndefined end
                 else match aget (st_dtors st) x with Some (sg, ret) => COk (sg, ret) | None => CErr EUndefined end)
                = COk (xs_args s, bty)
                /\ mono_ty bty = true /\ wf_ty ts bty = true
                /\ chk ts fs (E (ctx ++ zip_names (pc_names cl) (xs_args s))) (pc_body cl) bty = true).
      { unfold E. rewrite env_of_ctx_app. fold (E ctx). destruct is_case.
        - rewrite (instance_ctor st td x s Tb I Htd Hpol Hinst Hs). exists T. destruct (HT eq_refl). auto.
        - destruct (instance_dtor st td x s Tb I Htd Hpol Hinst Hs) as [r [Hr Hd]]. rewrite Hd. exists r.
          rewrite Hr in Hbody, Hmr. rewrite inst_nil in Hbody. simpl in Hmr. auto. }
      destruct Hsig as [bty [Hsig [Hmb [Hwb Hkb]]]]. rewrite Hsig. simpl.
      rewrite (nodup_names_no_dups _ Hnod). simpl.
      unfold add_types. rewrite Hlen. simpl.
      assert (Hmc' : mono_ctx (ctx ++ zip_names (pc_names cl) (xs_args s)) = true)
        by (apply mono_ctx_app; [assumption|apply mono_zip_names; assumption]).
      assert (Hwc' : ctx_wf ts (ctx ++ zip_names (pc_names cl) (xs_args s)) = true)
        by (apply ctx_wf_app; [assumption|apply ctx_wf_zip; assumption]).
      destruct (HCcl st _ bty Hmc' Hmb Tb I Hwc' Hwb Hkb) as [body' [st1 Hb]].
      destruct (HScl st _ bty body' st1 Hmc' Hmb Tb I Hb) as [_ [I1 [S1 G1]]].
      rewrite Hb. simpl.
      inversion Hnd as [|? ? Hnotin Hnd']; subst.
      destruct (IH pcls' st1 ctx HSr HCr Hmc Hwc (tables_same _ _ _ _ Tb S1) I1 Htd Hpol HT (G1 _ Hinst) Hnd')
        as [rest [leftover [st2 [Hr [I2 [S2 G2]]]]]]; try assumption.
      + intros y Hy. apply Hxs. right. assumption.
      + intros y Hy. destruct (Hex y (or_intror Hy)) as [pc [Hpc Hpx]].
        exists pc. split; [|assumption].
        apply (Permutation_in _ (Permutation_sym Hperm)) in Hpc. destruct Hpc as [<-|Hpc]; [|assumption].
        exfalso. apply Hnotin. rewrite <- Hx, Hpx. assumption.
      + rewrite Hr. simpl. eexists _, leftover, st2. splits; frame.
  Qed.

  Lemma prep_clauses_complete : forall cls,
    Forall (fun c => complete_at (clause_body c)) cls -> mono_clauses cls = true ->
    Forall pc_complete (prep_clauses (check_term_gen true) cls).
  Proof.
    intros cls HF. induction HF as [|[p x ns c b] r Hc _ IH]; intros Hm; simpl; constructor.
    - simpl in Hm. apply andb_true_iff in Hm. destruct Hm as [Hb _].
      unfold pc_complete. simpl. intros. eapply Hc; eassumption.
    - apply IH. simpl in Hm. apply andb_true_iff in Hm. tauto.
  Qed.
  Lemma prep_clauses_in : forall chk cls pc, In pc (prep_clauses chk cls) -> In (clause_of pc) cls.
  Proof. intros chk cls pc H. rewrite <- (prep_clauses_map chk cls). apply in_map. assumption. Qed.
  Lemma prep_clauses_length : forall chk cls, List.length (prep_clauses chk cls) = List.length cls.
  Proof. intros. rewrite <- (prep_clauses_map chk cls) at 2. rewrite map_length. reflexivity. Qed.
  Lemma clause_of_xtor : forall pc, clause_xtor (clause_of pc) = pc_xtor pc.
  Proof. reflexivity. Qed.

  Lemma clauses_complete_result : forall (is_case : bool) T td cls st ctx,
    Forall (fun c => sound_at ts fs (clause_body c)) cls -> Forall (fun c => complete_at (clause_body c)) cls ->
    mono_clauses cls = true -> mono_ctx ctx = true -> ctx_wf ts ctx = true -> tables ts fs st -> minv st ->
    In td ts -> td_pol td = (if is_case then FData else FCodata) ->
    (is_case = true -> mono_ty T = true /\ wf_ty ts T = true) ->
    ahas (st_types st) (td_name td) = true ->
    same_names (map clause_xtor cls) (map xs_name (td_xtors td)) = true ->
    chk_clauses_with (chk ts fs) (E ctx) td [] (if is_case then Some T else None) cls = true ->
    exists cls' st', check_clauses is_case "" T (map xs_name (td_xtors td)) (prep_clauses (check_term_gen true) cls) st ctx
                     = COk (cls', [], st')
                     /\ minv st' /\ same_templates st st' /\ grows st st'.
  Proof.
    intros is_case T td cls st ctx HS HC Hm Hmc Hwc Tb I Htd Hpol HT Hinst Hsn Hk.
    pose proof (prep_clauses_sound ts fs true cls HS Hm) as HPS.
    assert (Hnd : nodup (map xs_name (td_xtors td)) = true).
    { eapply xtor_names_of_type_nodup; [apply (nodup_xtors ts fs W)|eassumption|reflexivity]. }
    destruct (check_clauses_complete is_case T td (map xs_name (td_xtors td)) (prep_clauses (check_term_gen true) cls) st ctx
                HPS (prep_clauses_complete cls HC Hm) Hmc Hwc Tb I Htd Hpol HT Hinst (nodup_NoDup _ Hnd) (fun x H => H))
      as [cls' [leftover [st' [Hr [I' [S G]]]]]].
    - intros x Hx. pose proof (same_names_covers _ _ Hsn x Hx) as Hin.
      apply in_map_iff in Hin. destruct Hin as [c [Hcx Hc]].
      rewrite <- (prep_clauses_map (check_term_gen true) cls) in Hc. apply in_map_iff in Hc. destruct Hc as [pc [<- Hpc]].
      exists pc. split; assumption.
    - apply Forall_forall. intros pc Hpc. rewrite chk_clauses_forallb, forallb_forall in Hk.
      apply Hk. eapply prep_clauses_in. eassumption.
    - exists cls', st'. splits; try assumption.
      assert (HT' : is_case = true -> mono_ty T = true) by (intros E0; apply HT; assumption).
      destruct (check_clauses_sound ts fs W is_case T td _ _ st ctx cls' leftover st' HPS Hmc Tb I Htd (fun x H => H) Hpol HT' Hr)
        as [used [Hp [Hmap _]]].
      assert (Hlen : List.length leftover = 0).
      { apply Permutation_length in Hp. rewrite app_length, prep_clauses_length in Hp.
        assert (List.length used = List.length (map xs_name (td_xtors td))) by (rewrite <- Hmap, map_length; reflexivity).
        unfold same_names in Hsn. apply andb_true_iff in Hsn. destruct Hsn as [Hsn _]. apply andb_true_iff in Hsn. destruct Hsn as [_ Hl].
        apply PeanoNat.Nat.eqb_eq in Hl. rewrite map_length in Hl. lia. }
      destruct leftover; [exact Hr|discriminate].
  Qed.

  (* ---------- the type of a scrutinee ---------- *)
  Lemma lookup_or_template_complete : forall pol st x td sg,
    tables ts fs st -> minv st -> find_xtor ts pol x = Some (td, sg) ->
    exists st1, lookup_ty_for_xtor_or_template pol st x [] = COk (FDecl (td_name td) [], map xs_name (td_xtors td), st1)
                /\ minv st1 /\ same_templates st st1 /\ grows st st1 /\ ahas (st_types st1) (td_name td) = true.
  Proof.
    intros pol st x td sg Tb I Hf. pose proof (find_xtor_in _ _ _ _ _ Hf) as [Hin [Hp Hs]].
    unfold lookup_ty_for_xtor_or_template. rewrite print_targs_nil, append_nil_r.
    destruct (lookup_ty_for_xtor pol st x) as [[ty xs]|] eqn:El.
    - destruct (lookup_ty_for_xtor_mono _ _ _ _ _ I El) as [n [-> [Hg Hx]]].
      destruct (mi_types _ I _ _ _ _ Hg) as [_ Ht].
      destruct (template_type ts fs _ _ _ _ Tb Ht) as [td' [Hin' [_ [Hn [Hp' Hxs]]]]].
      destruct (xtor_of_type ts fs W td' x Hin') as [s' [_ [Hfx' _]]]; [rewrite Hxs; assumption|].
      rewrite Hp', Hf in Hfx'. inversion Hfx'; subst td'. subst.
      exists st. splits; frame. unfold ahas. rewrite Hg. reflexivity.
    - unfold lookup_ty_template_for_xtor. rewrite (t_tt_list _ _ _ Tb), find_template_find_xtor, Hf. simpl.
      assert (Hw : wf_ty ts (FDecl (td_name td) []) = true).
      { simpl. rewrite (find_type_unique ts td (proj1 (names_ok_parts ts fs W)) Hin), (W_params _ _ W td Hin). reflexivity. }
      destruct (ty_check_mono_ok ts fs (W_ret _ _ W) (FDecl (td_name td) []) st eq_refl Tb I Hw) as [st1 [H1 [I1 [S1 [G1 Hi]]]]].
      change (ty_check (FDecl (td_name td) []) st) with (ty_check (FDecl (td_name td) []) st) in H1.
      exists st1. split; [|splits; assumption].
      transitivity (doc st1' <- ty_check (FDecl (td_name td) []) st; COk (FDecl (td_name td) [], map xs_name (td_xtors td), st1')); [reflexivity|].
      rewrite H1. reflexivity.
  Qed.

  Local Opaque ty_check.

  Theorem check_term_complete : forall t, complete_at t.
  Proof.
    intros t. induction t using fterm_ind'; unfold complete_at;
      intros st ctx T Hm Hc HT Tb I Hw HwT Hk; simpl in Hk; simpl in Hm.
    - (* FVar *)
      apply andb_true_iff in Hk. destruct Hk as [Hk Hchi]. apply andb_true_iff in Hk. destruct Hk as [Hprd Hann].
      pose proof (E_prd _ _ _ Hprd) as Hl.
      destruct (ann_check_ok ty T st Hann HT HwT Tb I) as [st1 [H1 [I1 [S1 G1]]]].
      destruct (check_equality_mono_ok ts fs (W_ret _ _ W) T st1 HT (tables_same _ _ _ _ Tb S1) I1 HwT) as [st2 [H2 _]].
      assert (Hgo : (doc found <- lookup_var ctx v;
                     doc st1 <- match ty with Some t => check_equality st t found | None => COk st end;
                     doc st2 <- check_equality st1 T found; COk (FVar v (Some T) (Some FPrd), st2))
                    = COk (FVar v (Some T) (Some FPrd), st2)).
      { rewrite Hl. simpl. rewrite H1. simpl. rewrite H2. reflexivity. }
      simpl. destruct chi as [[|]|]; try discriminate; eauto.
    - (* FLit *)
      apply fty_eqb_eq in Hk. subst T. simpl.
      destruct (check_equality_mono_ok ts fs (W_ret _ _ W) FI64 st eq_refl Tb I eq_refl) as [st1 [H1 _]].
      rewrite H1. simpl. eauto.
    - (* FOp *)
      apply andb_true_iff in Hm. destruct Hm as [Hm1 Hm2].
      apply andb_true_iff in Hk. destruct Hk as [Hk K2]. apply andb_true_iff in Hk. destruct Hk as [K0 K1].
      apply fty_eqb_eq in K0. subst T. simpl.
      destruct (check_equality_mono_ok ts fs (W_ret _ _ W) FI64 st eq_refl Tb I eq_refl) as [st1 [H1 [I1 [S1 [G1 _]]]]].
      rewrite H1. simpl.
      destruct (complete_frame _ st1 ctx FI64 IHt1 Hm1 Hc eq_refl (tables_same _ _ _ _ Tb S1) I1 Hw eq_refl K1) as [a' [st2 [H2 [I2 [S2 G2]]]]].
      rewrite H2. simpl. assert (S02 : same_templates st st2) by frame.
      destruct (IHt2 st2 ctx FI64 Hm2 Hc eq_refl (tables_same _ _ _ _ Tb S02) I2 Hw eq_refl K2) as [b' [st3 H3]].
      rewrite H3. simpl. eauto.
    - (* FIfC *)
      apply andb_true_iff in Hm. destruct Hm as [Hm Hm4]. apply andb_true_iff in Hm. destruct Hm as [Hm Hm3].
      apply andb_true_iff in Hm. destruct Hm as [Hm1 Hm2].
      apply andb_true_iff in Hk. destruct Hk as [Hk K4]. apply andb_true_iff in Hk. destruct Hk as [Hk K3].
      apply andb_true_iff in Hk. destruct Hk as [K1 K2].
      simpl.
      destruct (complete_frame _ st ctx FI64 IHt1 Hm1 Hc eq_refl Tb I Hw eq_refl K1) as [a' [st1 [H1 [I1 [S1 G1]]]]].
      rewrite H1. simpl.
      assert (Hb : exists b' st2, match b with
                                  | None => COk (None, st1)
                                  | Some b0 => doc (b1, s0) <- check_term_gen true b0 st1 ctx FI64; COk (Some b1, s0)
                                  end = COk (b', st2) /\ minv st2 /\ same_templates st1 st2 /\ grows st1 st2).
      { destruct b as [b0|].
        - destruct (complete_frame b0 st1 ctx FI64 (H _ eq_refl) Hm2 Hc eq_refl (tables_same _ _ _ _ Tb S1) I1 Hw eq_refl K2) as [b1 [st2 [H2 [I2 [S2 G2]]]]].
          rewrite H2. simpl. eauto 10.
        - exists None, st1. splits; frame. }
      destruct Hb as [b' [st2 [H2 [I2 [S2 G2]]]]]. rewrite H2. simpl.
      assert (S02 : same_templates st st2) by frame.
      destruct (complete_frame _ st2 ctx T IHt2 Hm3 Hc HT (tables_same _ _ _ _ Tb S02) I2 Hw HwT K3) as [th' [st3 [H3 [I3 [S3 G3]]]]].
      rewrite H3. simpl. assert (S03 : same_templates st st3) by frame.
      destruct (IHt3 st3 ctx T Hm4 Hc HT (tables_same _ _ _ _ Tb S03) I3 Hw HwT K4) as [el' [st4 H4]].
      rewrite H4. simpl. eauto.
    - (* FPrint *)
      apply andb_true_iff in Hm. destruct Hm as [Hm1 Hm2].
      apply andb_true_iff in Hk. destruct Hk as [K1 K2]. simpl.
      destruct (complete_frame _ st ctx FI64 IHt1 Hm1 Hc eq_refl Tb I Hw eq_refl K1) as [a' [st1 [H1 [I1 [S1 G1]]]]].
      rewrite H1. simpl.
      destruct (IHt2 st1 ctx T Hm2 Hc HT (tables_same _ _ _ _ Tb S1) I1 Hw HwT K2) as [n' [st2 H2]].
      rewrite H2. simpl. eauto.
    - (* FLet *)
      apply andb_true_iff in Hm. destruct Hm as [Hm Hm3]. apply andb_true_iff in Hm. destruct Hm as [Hm1 Hm2].
      apply andb_true_iff in Hk. destruct Hk as [Hk K2]. apply andb_true_iff in Hk. destruct Hk as [Kw K1]. simpl.
      destruct (ty_check_mono_ok ts fs (W_ret _ _ W) vty st Hm1 Tb I Kw) as [st1 [H1 [I1 [S1 [G1 _]]]]]. rewrite H1. simpl.
      destruct (complete_frame _ st1 ctx vty IHt1 Hm2 Hc Hm1 (tables_same _ _ _ _ Tb S1) I1 Hw Kw K1) as [a' [st2 [H2 [I2 [S2 G2]]]]].
      rewrite H2. simpl. assert (S02 : same_templates st st2) by frame.
      assert (Hc' : mono_ctx (ctx ++ [mkfb v FPrd vty]) = true).
      { apply mono_ctx_app; [assumption|]. simpl. rewrite Hm1. reflexivity. }
      assert (Hw' : ctx_wf ts (ctx ++ [mkfb v FPrd vty]) = true).
      { apply ctx_wf_app; [assumption|]. simpl. rewrite Kw. reflexivity. }
      rewrite <- E_snoc in K2.
      destruct (IHt2 st2 _ T Hm3 Hc' HT (tables_same _ _ _ _ Tb S02) I2 Hw' HwT K2) as [b' [st3 H3]].
      rewrite H3. simpl. eauto.
    - (* FCall *)
      rewrite mono_terms_eq in Hm.
      destruct (find_def fs f) as [d|] eqn:Ef; [|discriminate].
      apply andb_true_iff in Hk. destruct Hk as [Kr Ka]. apply fty_eqb_eq in Kr. subst T.
      assert (Hdin : In d fs) by (unfold find_def in Ef; apply find_some in Ef; tauto).
      destruct (W_defs _ _ W d Hdin) as [Hmd Hmr]. destruct (WF_defs _ _ WF d Hdin) as [Hwd Hwr].
      simpl. rewrite (t_df _ _ _ Tb), Ef. simpl.
      destruct (check_equality_mono_ok ts fs (W_ret _ _ W) (fdret d) st Hmr Tb I Hwr) as [st1 [H1 [I1 [S1 [G1 _]]]]].
      rewrite H1. simpl.
      destruct (check_args_complete args H (fdctx d) st1 ctx Hm Hc Hmd (tables_same _ _ _ _ Tb S1) I1 Hw Hwd Ka) as [args' [st2 [H2 _]]].
      rewrite H2. simpl. eauto.
    - (* FCtor *)
      rewrite mono_terms_eq in Hm.
      destruct T as [|n targs]; [discriminate|]. pose proof (mono_ty_decl _ _ HT) as ->.
      destruct (find_type ts n) as [td|] eqn:Eft; [|discriminate].
      apply andb_true_iff in Hk. destruct Hk as [Hk Ka]. apply andb_true_iff in Hk. destruct Hk as [Kp _].
      apply fpol_eqb_eq in Kp.
      destruct (find_xsig td x) as [s|] eqn:Es; [|discriminate].
      pose proof (find_type_in _ _ _ Eft) as Hin. pose proof (find_type_name _ _ _ Eft) as Hn.
      destruct (find_xsig_spec _ _ _ Es) as [Hsin Hsn].
      destruct (W_sigs _ _ W td s Hin Hsin) as [Hms _]. destruct (WF_sigs _ _ WF td s Hin Hsin) as [Hws _].
      rewrite (W_params _ _ W td Hin) in Ka.
      simpl.
      destruct (ty_check_mono_ok ts fs (W_ret _ _ W) (FDecl n []) st eq_refl Tb I HwT) as [st0 [H0 [I0 [S0 [G0 Hi0]]]]].
      simpl in Hi0. rewrite <- Hn in Hi0. pose proof (tables_same _ _ _ _ Tb S0) as Tb0.
      rewrite H0. simpl. rewrite append_nil_r.
      rewrite (instance_ctor st0 td x s Tb0 I0 Hin Kp Hi0 Es).
      pose proof (instance_entry st0 td Tb0 I0 Hin Hi0) as Hent. rewrite Kp in Hent.
      assert (Hxin : In x (map xs_name (td_xtors td))) by (rewrite <- Hsn; apply in_map; assumption).
      destruct (lookup_ty_for_xtor_found st0 FData x _ _ I0 Hent Hxin) as [ty [xs' El]]. rewrite El.
      destruct (lookup_ty_for_xtor_mono _ _ _ _ _ I0 El) as [n' [-> [Hg' Hx']]].
      destruct (mi_types _ I0 _ _ _ _ Hg') as [_ Ht'].
      destruct (template_type ts fs _ _ _ _ Tb0 Ht') as [td' [Hin' [_ [Hn' [Hp' Hxs']]]]].
      destruct (xtor_of_type ts fs W td' x Hin') as [s' [_ [Hfx' _]]]; [rewrite Hxs'; assumption|].
      rewrite Hp', (find_xtor_unique ts FData td x s (nodup_xtors ts fs W _) Hin Kp Es) in Hfx'. inversion Hfx'; subst td' s'.
      destruct (check_args_complete args H (xs_args s) st0 ctx Hm Hc Hms Tb0 I0 Hw Hws Ka) as [args' [st1 [H1 [I1 [S1 G1]]]]].
      rewrite H1. simpl. assert (S01 : same_templates st st1) by frame.
      rewrite Hn' in Hn. subst n'.
      destruct (check_equality_mono_ok ts fs (W_ret _ _ W) (FDecl n []) st1 eq_refl (tables_same _ _ _ _ Tb S01) I1 HwT) as [st2 [H2 _]].
      rewrite H2. simpl. eauto.
    - (* FDtor *)
      apply andb_true_iff in Hm. destruct Hm as [Hm Hm3]. apply andb_true_iff in Hm. destruct Hm as [Hm1 Hm2].
      rewrite mono_terms_eq in Hm3. destruct targs; [|discriminate].
      destruct (find_xtor ts FCodata x) as [[td sg]|] eqn:Ef; [|discriminate].
      apply andb_true_iff in Hk. destruct Hk as [Hk Kr]. apply andb_true_iff in Hk. destruct Hk as [Hk Ka].
      apply andb_true_iff in Hk. destruct Hk as [_ Ks].
      pose proof (find_xtor_in _ _ _ _ _ Ef) as [Hin [Hp Hs]].
      destruct (find_xsig_spec _ _ _ Hs) as [Hsin Hsn].
      destruct (W_sigs _ _ W td sg Hin Hsin) as [Hms Hmr]. destruct (WF_sigs _ _ WF td sg Hin Hsin) as [Hws Hwr].
      rewrite (W_params _ _ W td Hin) in Ka, Kr.
      destruct (xs_ret sg) as [R|] eqn:ER; [|discriminate]. rewrite inst_nil in Kr. apply fty_eqb_eq in Kr. subst R.
      simpl.
      destruct (lookup_or_template_complete FCodata st x td sg Tb I Ef) as [st1 [H1 [I1 [S1 [G1 Hi1]]]]].
      rewrite H1. simpl.
      assert (Hwt : wf_ty ts (FDecl (td_name td) []) = true).
      { simpl. rewrite (find_type_unique ts td (proj1 (names_ok_parts ts fs W)) Hin), (W_params _ _ W td Hin). reflexivity. }
      destruct (complete_frame _ st1 ctx (FDecl (td_name td) []) IHt Hm2 Hc eq_refl (tables_same _ _ _ _ Tb S1) I1 Hw Hwt Ks) as [s' [st2 [H2 [I2 [S2 G2]]]]].
      rewrite H2. simpl. assert (S02 : same_templates st st2) by frame. pose proof (tables_same _ _ _ _ Tb S02) as Tb2.
      rewrite append_nil_r.
      destruct (instance_dtor st2 td x sg Tb2 I2 Hin Hp (G2 _ Hi1) Hs) as [rr [Hr Hd]]. rewrite ER in Hr. inversion Hr; subst rr.
      rewrite Hd.
      destruct (check_args_complete args H (xs_args sg) st2 ctx Hm3 Hc Hms Tb2 I2 Hw Hws Ka) as [args' [st3 [H3 [I3 [S3 G3]]]]].
      rewrite H3. simpl. assert (S03 : same_templates st st3) by frame.
      destruct (check_equality_mono_ok ts fs (W_ret _ _ W) T st3 HT (tables_same _ _ _ _ Tb S03) I3 HwT) as [st4 [H4 _]].
      rewrite H4. simpl. eauto.
    - (* FCase *)
      apply andb_true_iff in Hm. destruct Hm as [Hm Hm3]. apply andb_true_iff in Hm. destruct Hm as [Hm1 Hm2].
      rewrite mono_clauses_eq in Hm3. destruct targs; [|discriminate].
      destruct cls as [|c0 clr]; [discriminate|].
      destruct (find_xtor ts FData (clause_xtor c0)) as [[td sg]|] eqn:Ef; [|discriminate].
      apply andb_true_iff in Hk. destruct Hk as [Hk Kc]. apply andb_true_iff in Hk. destruct Hk as [Hk Ksn].
      apply andb_true_iff in Hk. destruct Hk as [_ Ks].
      pose proof (find_xtor_in _ _ _ _ _ Ef) as [Hin [Hp Hs]].
      assert (Hwt : wf_ty ts (FDecl (td_name td) []) = true).
      { simpl. rewrite (find_type_unique ts td (proj1 (names_ok_parts ts fs W)) Hin), (W_params _ _ W td Hin). reflexivity. }
      destruct c0 as [p0 x0 ns0 cx0 b0]. simpl clause_xtor in Ef.
      simpl.
      destruct (lookup_or_template_complete FData st x0 td sg Tb I Ef) as [st1 [H1 [I1 [S1 [G1 Hi1]]]]].
      rewrite H1. simpl.
      destruct (complete_frame _ st1 ctx (FDecl (td_name td) []) IHt Hm2 Hc eq_refl (tables_same _ _ _ _ Tb S1) I1 Hw Hwt Ks) as [s' [st2 [H2 [I2 [S2 G2]]]]].
      rewrite H2. simpl. assert (S02 : same_templates st st2) by frame.
      destruct (clauses_complete_result true T td (FClause p0 x0 ns0 cx0 b0 :: clr) st2 ctx
                  (Forall_impl _ (fun c _ => check_term_gen_sound ts fs W (clause_body c)) H) H Hm3 Hc Hw
                  (tables_same _ _ _ _ Tb S02) I2 Hin Hp (fun _ => conj HT HwT) (G2 _ Hi1) Ksn Kc)
        as [cls' [st3 [H3 _]]].
      change (prep_clauses (check_term_gen true) (FClause p0 x0 ns0 cx0 b0 :: clr)) with
        (mkpc p0 x0 ns0 cx0 b0 (check_term_gen true b0) :: prep_clauses (check_term_gen true) clr) in H3.
      rewrite H3. simpl. eauto.
    - (* FNew *)
      rewrite mono_clauses_eq in Hm.
      destruct T as [|n targs]; [discriminate|]. pose proof (mono_ty_decl _ _ HT) as ->.
      destruct (find_type ts n) as [td|] eqn:Eft; [|discriminate].
      apply andb_true_iff in Hk. destruct Hk as [Hk Kc]. apply andb_true_iff in Hk. destruct Hk as [Hk Ksn].
      apply andb_true_iff in Hk. destruct Hk as [Kp _]. apply fpol_eqb_eq in Kp.
      pose proof (find_type_in _ _ _ Eft) as Hin. pose proof (find_type_name _ _ _ Eft) as Hn.
      simpl.
      destruct (ty_check_mono_ok ts fs (W_ret _ _ W) (FDecl n []) st eq_refl Tb I HwT) as [st0 [H0 [I0 [S0 [G0 Hi0]]]]].
      simpl in Hi0. rewrite <- Hn in Hi0. pose proof (tables_same _ _ _ _ Tb S0) as Tb0.
      rewrite H0. simpl. rewrite append_nil_r.
      pose proof (instance_entry st0 td Tb0 I0 Hin Hi0) as Hent. rewrite Kp, Hn in Hent. rewrite Hent.
      destruct (clauses_complete_result false (FDecl n []) td cls st0 ctx
                  (Forall_impl _ (fun c _ => check_term_gen_sound ts fs W (clause_body c)) H) H Hm Hc Hw
                  Tb0 I0 Hin Kp (fun E0 => ltac:(discriminate)) Hi0 Ksn Kc)
        as [cls' [st3 [H3 _]]].
      rewrite H3. simpl. eauto.
    - (* FLabel *)
      simpl.
      assert (Hc' : mono_ctx (ctx ++ [mkfb l FCns T]) = true).
      { apply mono_ctx_app; [assumption|]. simpl. rewrite HT. reflexivity. }
      assert (Hw' : ctx_wf ts (ctx ++ [mkfb l FCns T]) = true).
      { apply ctx_wf_app; [assumption|]. simpl. rewrite HwT. reflexivity. }
      rewrite <- E_snoc in Hk.
      destruct (IHt st _ T Hm Hc' HT Tb I Hw' HwT Hk) as [b' [st1 H1]]. rewrite H1. simpl. eauto.
    - (* FGoto *)
      destruct (cns_ty (E ctx) l) as [S0|] eqn:Ec; [|discriminate].
      destruct (E_cns _ _ _ Ec) as [Hl [b0 [Hb0 Hbt]]].
      simpl. rewrite Hl. simpl.
      assert (HmS : mono_ty S0 = true) by (subst S0; apply (mono_ctx_in ctx); assumption).
      assert (HwS : wf_ty ts S0 = true) by (subst S0; apply (ctx_wf_in ctx); assumption).
      destruct (IHt st ctx S0 Hm Hc HmS Tb I Hw HwS Hk) as [b' [st1 H1]]. rewrite H1. simpl. eauto.
    - (* FExit *)
      simpl. destruct (IHt st ctx FI64 Hm Hc eq_refl Tb I Hw eq_refl Hk) as [b' [st1 H1]]. rewrite H1. simpl. eauto.
    - (* FParen *)
      simpl. destruct (IHt st ctx T Hm Hc HT Tb I Hw HwT Hk) as [b' [st1 H1]]. rewrite H1. simpl. eauto.
  Qed.
End Complete.
