(* C15 -> C12: witnesses for the theorems of Proof/CheckTyGuardProg.v.
   - the five example programs of Proof/Fun2CoreExamples.v are outputs of the checker ([src_of]: the declarations and
     definitions of a checked program as a source program; the checker reproduces the program) and satisfy all guards;
   - both extra guards of [check_tyguard] are needed:
       [p_undeclared_ret]  `data Bar { MkBar } codata Foo { get : Bar } def f(): Foo { new { get => exit 0 } } def main(): i64 { 0 }`
                           (scratch test with /repo/target/debug/scc: accepted; `scc compile` prints a Core program whose codata
                           declaration Foo mentions the undeclared type Bar) is well typed and accepted, the instance `Bar` is never
                           created, so neither xtor_tys_guard nor prog_tyguard hold of the output (the known non-closure of the
                           checker's output, C15_output_closed_refuted, here at the return type of a destructor that IS used);
       [p_cont_type]       a data type named `_Cont` (not a name the lexer produces, but identifier-like in the sense of
                           prog_names_ok): accepted, and decls_tyguard fails. *)
From Coq Require Import List ZArith NArith String Bool.
From SCC Require Import Base.Sexp Lang.FunSyn Lang.FunTy Lang.CoreSyn Model.Check Sem.FunTyping Sem.FunNames
  Model.Fun2Core Model.Fun2CoreGuard Model.Fun2CoreTyGuard Proof.Fun2CoreExamples Proof.Fun2CoreTyChecked Proof.CheckTyGuardProg.
Import ListNotations.
Open Scope string_scope.

Definition src_of (p : fcprog) : fprog :=
  mkfprog (map FDData (fcpdata p) ++ map FDCodata (fcpcodata p) ++ map FDDef (fcpdefs p)).

Definition checked_in_guards (p : fcprog) : Prop :=
  prog_names_ok (src_of p) = true /\ no_cont_decl (src_of p) = true /\ check (src_of p) = COk p /\ xtor_tys_guard p = true.

Lemma examples_checked_in_guards :
  checked_in_guards ex_calls /\ checked_in_guards ex_shared /\ checked_in_guards ex_data
  /\ checked_in_guards ex_labels /\ checked_in_guards ex_codata.
Proof. unfold checked_in_guards. repeat split; vm_compute; reflexivity. Qed.

Definition p_undeclared_ret : fprog :=
  mkfprog [FDData (mkfdata "Bar" [] [mkfctor "MkBar" []]);
           FDCodata (mkfcodata "Foo" [] [mkfdtor "get" [] (FDecl "Bar" [])]);
           FDDef (mkfdef "f" [] (FDecl "Foo" []) (FNew [FClause FCodata "get" [] [] (FExit (FLit 0%Z) None)] None));
           FDDef (mkfdef "main" [] FI64 (FLit 0%Z))].
Lemma undeclared_ret_witness :
  prog_names_ok p_undeclared_ret = true /\ no_cont_decl p_undeclared_ret = true /\ has_type_b p_undeclared_ret = true
  /\ exists q, check p_undeclared_ret = COk q /\ xtor_tys_guard q = false /\ prog_tyguard q = false.
Proof. repeat split; try (vm_compute; reflexivity). eexists. repeat split; vm_compute; reflexivity. Qed.

Definition p_cont_type : fprog :=
  mkfprog [FDData (mkfdata "_Cont" [] [mkfctor "K" []]);
           FDDef (mkfdef "main" [] FI64 (FCase (FCtor "K" [] None) [] [FClause FData "K" [] [] (FLit 0%Z)] None))].
Lemma cont_type_witness :
  prog_names_ok p_cont_type = true /\ no_cont_decl p_cont_type = false /\ has_type_b p_cont_type = true
  /\ exists q, check p_cont_type = COk q /\ xtor_tys_guard q = true /\ prog_tyguard q = false.
Proof. repeat split; try (vm_compute; reflexivity). eexists. repeat split; vm_compute; reflexivity. Qed.

Lemma tyguard_closure_guard_needed :
  ~ (forall src p, prog_names_ok src = true -> no_cont_decl src = true -> check src = COk p -> prog_tyguard p = true).
Proof.
  intros H. destruct undeclared_ret_witness as [H1 [H2 [_ [q [Hq [_ Hg]]]]]].
  rewrite (H _ _ H1 H2 Hq) in Hg. discriminate.
Qed.
Lemma tyguard_cont_guard_needed :
  ~ (forall src p, prog_names_ok src = true -> check src = COk p -> xtor_tys_guard p = true -> prog_tyguard p = true).
Proof.
  intros H. destruct cont_type_witness as [H1 [_ [_ [q [Hq [Hx Hg]]]]]].
  rewrite (H _ _ H1 Hq Hx) in Hg. discriminate.
Qed.
