(* AArch64 immediate synthesis is right for every 64-bit value (the half-word-level selection
   theorem is in Proof/A64ImmHw.v).
   Part 2: the arithmetic relating a signed 64-bit Z to its four half-words, the Z-level meaning of
   the three instructions in Sem/A64Sem.v, and the identification of Model/A64.imm_code with the
   half-word-level selection.
   Part 3: the theorem on the ISA semantics. *)
From Coq Require Import List ZArith NArith Lia Bool String FMapPositive.
From SCC Require Import Lang.AxSyn Sem.AxSem Model.Backend Model.A64 Sem.A64Sem Proof.A64State Proof.A64ImmHw.
Import ListNotations.
Open Scope Z_scope.

(* ================= pieces are well-formed ================= *)
(* every emitted piece has a 16-bit immediate and a half-word index below 4 *)
Definition ins_ok (x : ins) : Prop :=
  match x with IMOVZ imm i | IMOVN imm i | IMOVK imm i => inr16 imm /\ (i < 4)%N end.
Lemma pieces_ok t invert ignored fd is :
  wf t -> Forall (fun i => (i < 4)%N) is -> Forall ins_ok (pieces t invert ignored fd is).
Proof.
  intros W. revert fd. induction is as [|i r IH]; intros fd H; cbn [pieces]; [constructor|].
  inversion H as [|? ? Hi Hr]; subst.
  assert (G : inr16 (getn t i)).
  { destruct t as [[[a b] c] d]. destruct W as (? & ? & ? & ?). cbn. repeat match goal with |- context [match ?x with _ => _ end] => destruct x end; assumption. }
  destruct (getn t i =? ignored); [apply IH; auto|].
  destruct fd; [constructor; [split; auto|apply IH; auto]|].
  constructor; [|apply IH; auto].
  destruct invert; cbn [ins_ok]; split; auto. unfold inr16, M16, B16 in *. lia.
Qed.
Lemma hw_load_immediate_pieces_ok t : wf t -> Forall ins_ok (hw_load_immediate t).
Proof.
  intros W. unfold hw_load_immediate.
  destruct (zeros t =? 4)%nat; [repeat constructor; unfold inr16, B16; lia|].
  destruct (ones t =? 4)%nat; [repeat constructor; unfold inr16, B16; lia|].
  apply pieces_ok; auto. repeat constructor.
Qed.


(* ================= Part 2: 64-bit integers and their half-words ================= *)
Definition in64 (v : Z) : Prop := - two63 <= v < two63.

Definition split (v : Z) : hw4 := (halfword v 0, halfword v 1, halfword v 2, halfword v 3).

Lemma wf_split v : wf (split v).
Proof.
  unfold split, wf, inr16, halfword, B16. repeat split; apply Z.mod_pos_bound; lia.
Qed.

(* the four half-words are the base-65536 digits of the unsigned reading *)
Lemma join_split v : in64 v -> join (split v) = unsigned v.
Proof.
  unfold in64, join, split, halfword, unsigned, B16, two63, two64.
  change (2 ^ (16 * Z.of_N 0)) with 1. change (2 ^ (16 * Z.of_N 1)) with 65536.
  change (2 ^ (16 * Z.of_N 2)) with 4294967296. change (2 ^ (16 * Z.of_N 3)) with 281474976710656.
  intros H. Z.div_mod_to_equations. lia.
Qed.
Lemma wrap_unsigned v : in64 v -> wrap (unsigned v) = v.
Proof. unfold in64, wrap, unsigned, two63, two64. intros H. Z.div_mod_to_equations. lia. Qed.
Lemma denote_split v : in64 v -> wrap (join (split v)) = v.
Proof. intros H. rewrite join_split by auto. now apply wrap_unsigned. Qed.

Lemma join_range t : wf t -> 0 <= join t < two64.
Proof. destruct t as [[[a b] c] d]. unfold wf, inr16, join, B16, two64. lia. Qed.
Lemma unsigned_wrap u : 0 <= u < two64 -> unsigned (wrap u) = u.
Proof. unfold wrap, unsigned, two63, two64. intros H. Z.div_mod_to_equations. lia. Qed.

(* digit extraction from a joined value *)
Lemma digit_of_join t i : wf t -> (i < 4)%N -> (join t / 2 ^ (16 * Z.of_N i)) mod 65536 = getn t i.
Proof.
  destruct t as [[[a b] c] d]. unfold wf, inr16, join, B16. intros (Ha & Hb & Hc & Hd) Hi.
  assert (i = 0 \/ i = 1 \/ i = 2 \/ i = 3)%N as [->|[->|[->| ->]]] by lia; cbn [getn].
  - change (2 ^ (16 * Z.of_N 0)) with 1. Z.div_mod_to_equations. lia.
  - change (2 ^ (16 * Z.of_N 1)) with 65536. Z.div_mod_to_equations. lia.
  - change (2 ^ (16 * Z.of_N 2)) with 4294967296. Z.div_mod_to_equations. lia.
  - change (2 ^ (16 * Z.of_N 3)) with 281474976710656. Z.div_mod_to_equations. lia.
Qed.
Lemma join_setn t i v : (i < 4)%N -> join (setn t i v) = join t - getn t i * 2 ^ (16 * Z.of_N i) + v * 2 ^ (16 * Z.of_N i).
Proof.
  destruct t as [[[a b] c] d]. intros Hi.
  assert (i = 0 \/ i = 1 \/ i = 2 \/ i = 3)%N as [->|[->|[->| ->]]] by lia; cbn [getn setn join]; unfold B16.
  - change (2 ^ (16 * Z.of_N 0)) with 1. lia.
  - change (2 ^ (16 * Z.of_N 1)) with 65536. lia.
  - change (2 ^ (16 * Z.of_N 2)) with 4294967296. lia.
  - change (2 ^ (16 * Z.of_N 3)) with 281474976710656. lia.
Qed.
Lemma wf_setn t i v : wf t -> inr16 v -> wf (setn t i v).
Proof.
  destruct t as [[[a b] c] d]. intros (Ha & Hb & Hc & Hd) Hv.
  unfold setn; repeat match goal with |- context [match ?x with _ => _ end] => destruct x end; cbn; tauto.
Qed.

Lemma movw_ok_piece imm i : inr16 imm -> (i < 4)%N -> movw_ok imm (16 * Z.of_N i) = true.
Proof.
  unfold inr16, B16, movw_ok. intros H Hi.
  assert (i = 0 \/ i = 1 \/ i = 2 \/ i = 3)%N as [->|[->|[->| ->]]] by lia; cbn;
    rewrite ?andb_true_r; apply andb_true_iff; split; [apply Z.leb_le|apply Z.ltb_lt| apply Z.leb_le|apply Z.ltb_lt
      | apply Z.leb_le|apply Z.ltb_lt| apply Z.leb_le|apply Z.ltb_lt]; lia.
Qed.

Ltac pow16 :=
  change (2 ^ (16 * Z.of_N 0)) with 1 in *; change (2 ^ (16 * Z.of_N 1)) with 65536 in *;
  change (2 ^ (16 * Z.of_N 2)) with 4294967296 in *; change (2 ^ (16 * Z.of_N 3)) with 281474976710656 in *.

(* the Z-level meaning of the three instructions is the half-word-level meaning *)
Lemma movz_val_hw imm i : inr16 imm -> (i < 4)%N ->
  movz_val imm (16 * Z.of_N i) = wrap (join (setn (0, 0, 0, 0) i imm)).
Proof.
  intros H Hi. unfold movz_val. rewrite join_setn by auto. f_equal.
  assert (i = 0 \/ i = 1 \/ i = 2 \/ i = 3)%N as [->|[->|[->| ->]]] by lia; pow16; unfold join, getn, B16; lia.
Qed.
Lemma movn_val_hw imm i : inr16 imm -> (i < 4)%N ->
  movn_val imm (16 * Z.of_N i) = wrap (join (setn (M16, M16, M16, M16) i (M16 - imm))).
Proof.
  intros H Hi. unfold movn_val. rewrite join_setn by auto.
  (* join (M16,M16,M16,M16) = 2^64 - 1, and wrap is 2^64-periodic *)
  assert (P : forall z, wrap (z + two64) = wrap z).
  { intros z. unfold wrap. replace (z + two64 + two63) with (z + two63 + 1 * two64) by lia.
    now rewrite Z.mod_add by (unfold two64; lia). }
  rewrite <- P. f_equal.
  assert (i = 0 \/ i = 1 \/ i = 2 \/ i = 3)%N as [->|[->|[->| ->]]] by lia; pow16; unfold join, getn, M16, B16, two64; lia.
Qed.
Lemma movk_val_hw t imm i : wf t -> inr16 imm -> (i < 4)%N ->
  movk_val (wrap (join t)) imm (16 * Z.of_N i) = wrap (join (setn t i imm)).
Proof.
  intros W H Hi. unfold movk_val. rewrite unsigned_wrap by (apply join_range; auto).
  rewrite digit_of_join by auto. now rewrite join_setn by auto.
Qed.

(* the model's selection is the half-word-level selection *)
Definition to_acode (r : areg) (x : ins) : acode :=
  match x with
  | IMOVZ imm i => MOVZ r imm (16 * Z.of_N i)
  | IMOVN imm i => MOVN r imm (16 * Z.of_N i)
  | IMOVK imm i => MOVK r imm (16 * Z.of_N i)
  end.

Lemma getn_split v i : (i < 4)%N -> getn (split v) i = halfword v i.
Proof.
  intros Hi. assert (i = 0 \/ i = 1 \/ i = 2 \/ i = 3)%N as [->|[->|[->| ->]]] by lia; reflexivity.
Qed.
Lemma imm_pieces_hw r v invert ignored fd is :
  Forall (fun i => (i < 4)%N) is ->
  imm_pieces r v invert ignored fd is = map (to_acode r) (pieces (split v) invert ignored fd is).
Proof.
  revert fd. induction is as [|i rest IH]; intros fd H; [reflexivity|].
  inversion H as [|? ? Hi Hr]; subst. cbn [imm_pieces pieces]. rewrite getn_split by auto.
  destruct (halfword v i =? ignored); [apply IH; auto|].
  destruct fd; cbn [map to_acode]; [now rewrite IH|].
  destruct invert; cbn [map to_acode]; now rewrite IH.
Qed.
Lemma count_zeros v : count_halfwords v 0 = zeros (split v).
Proof.
  unfold count_halfwords, zeros, split. cbn [filter].
  destruct (halfword v 0 =? 0), (halfword v 1 =? 0), (halfword v 2 =? 0), (halfword v 3 =? 0); reflexivity.
Qed.
Lemma count_ones v : count_halfwords v 65535 = ones (split v).
Proof.
  unfold count_halfwords, ones, split, M16. cbn [filter].
  destruct (halfword v 0 =? 65535), (halfword v 1 =? 65535), (halfword v 2 =? 65535), (halfword v 3 =? 65535); reflexivity.
Qed.
Lemma zeros4 t : wf t -> (zeros t =? 4)%nat = true -> t = (0, 0, 0, 0).
Proof.
  destruct t as [[[a b] c] d]. intros _. unfold zeros, bn.
  destruct (Z.eqb_spec a 0), (Z.eqb_spec b 0), (Z.eqb_spec c 0), (Z.eqb_spec d 0); cbn; try discriminate.
  intros _; subst; reflexivity.
Qed.
Lemma ones4 t : wf t -> (ones t =? 4)%nat = true -> t = (M16, M16, M16, M16).
Proof.
  destruct t as [[[a b] c] d]. intros _. unfold ones, bn.
  destruct (Z.eqb_spec a M16), (Z.eqb_spec b M16), (Z.eqb_spec c M16), (Z.eqb_spec d M16); cbn; try discriminate.
  intros _; subst; reflexivity.
Qed.

Lemma imm_code_hw r v : in64 v -> imm_code r v = map (to_acode r) (hw_load_immediate (split v)).
Proof.
  intros H. unfold imm_code, hw_load_immediate.
  destruct (Z.eqb_spec v 0) as [->|NZ].
  { reflexivity. }
  destruct (zeros (split v) =? 4)%nat eqn:Z4.
  { exfalso. apply NZ. rewrite <- (denote_split v H). rewrite (zeros4 _ (wf_split v) Z4). reflexivity. }
  destruct (Z.eqb_spec v (-1)) as [->|NM].
  { reflexivity. }
  destruct (ones (split v) =? 4)%nat eqn:O4.
  { exfalso. apply NM. rewrite <- (denote_split v H). rewrite (ones4 _ (wf_split v) O4). reflexivity. }
  rewrite count_zeros, count_ones. fold M16.
  rewrite imm_pieces_hw by (repeat constructor). reflexivity.
Qed.

(* ================= Part 3: on the ISA semantics ================= *)
Section Sem.
Variable im : image.

(* running pieces on register X n: the register follows the half-word machine; nothing else moves *)
Definition only_reg (n : N) (s s' : astate) : Prop :=
  (forall m, m <> n -> xget s' m = xget s m) /\ spv s' = spv s /\ heap s' = heap s /\ stack s' = stack s /\ flags s' = flags s /\ out s' = out s /\ hw s' = hw s.
Lemma only_reg_xset n s v : only_reg n s (xset s n v).
Proof. split; [intros; apply xget_xset_other; congruence|repeat split]. Qed.
Lemma only_reg_trans n s s1 s2 : only_reg n s s1 -> only_reg n s1 s2 -> only_reg n s s2.
Proof.
  intros (A & A1 & A2 & A3 & A4 & A5 & A6) (B0 & B1 & B2 & B3 & B4 & B5 & B6).
  split; [intros m Hm; rewrite B0, A by auto; reflexivity|]. repeat split; congruence.
Qed.

Definition is_movk (y : ins) : Prop := match y with IMOVK _ _ => True | _ => False end.

Lemma run_pieces n (l : list ins) : forall (s : astate) (t : hw4),
  Forall ins_ok l ->
  (* a MOVK needs a defined register holding a well-formed value; the first piece is never a MOVK *)
  (match l with IMOVK _ _ :: _ => xget s n = Some (wrap (join t)) /\ wf t | _ => True end) ->
  (forall x r, l = x :: r -> Forall is_movk r) ->
  l <> [] ->
  exists s', run_straight im (map (to_acode (X n)) l) s = MOk s' /\
             xget s' n = Some (wrap (join (hexec l t))) /\ only_reg n s s'.
Proof.
  induction l as [|x r IH]; intros s t OK PRE TAIL NE; [congruence|].
  inversion OK as [|? ? Hx Hr]; subst.
  specialize (TAIL x r eq_refl).
  (* one step *)
  assert (STEP : step im (to_acode (X n) x) s = Next (xset s n (Some (wrap (join (hstep t x))))) /\ wf (hstep t x)).
  { destruct x as [imm i|imm i|imm i]; cbn [ins_ok] in Hx; destruct Hx as (Hi & Hlt); cbn [to_acode step hstep].
    - rewrite movw_ok_piece by auto. rewrite movz_val_hw by auto. split; auto.
      apply wf_setn; auto. unfold wf, inr16, B16; lia.
    - rewrite movw_ok_piece by auto. rewrite movn_val_hw by auto. split; auto.
      apply wf_setn; [unfold wf, inr16, M16, B16; lia|]. unfold inr16, M16, B16 in *; lia.
    - destruct PRE as (G & W). rewrite movw_ok_piece by auto. unfold need. cbn [rget]. rewrite G.
      rewrite movk_val_hw by auto. split; auto. apply wf_setn; auto. }
  destruct STEP as (ST & W1).
  cbn [map run_straight]. rewrite ST.
  destruct r as [|y r'].
  - cbn [map run_straight hexec fold_left]. eexists; split; [reflexivity|].
    split; [apply xget_xset_same|apply only_reg_xset].
  - assert (Y : is_movk y) by (inversion TAIL; auto).
    destruct (IH (xset s n (Some (wrap (join (hstep t x))))) (hstep t x) Hr) as (s' & E & G & R).
    + destruct y; cbn in Y; try tauto. split; [apply xget_xset_same|exact W1].
    + intros x0 r0 E0. injection E0 as <- <-. inversion TAIL; auto.
    + discriminate.
    + cbn [hexec fold_left] in *. rewrite E. eexists; split; [reflexivity|]. split; [exact G|].
      eapply only_reg_trans; [apply only_reg_xset|exact R].
Qed.

(* the shape of the emitted list: a non-MOVK first, MOVKs afterwards *)
Lemma pieces_shape t invert ignored is :
  let l := pieces t invert ignored false is in
  (match l with IMOVK _ _ :: _ => False | _ => True end) /\
  (forall x r, l = x :: r -> Forall is_movk r).
Proof.
  assert (K : forall is, Forall is_movk (pieces t invert ignored true is)).
  { induction is0 as [|i r IH]; cbn [pieces]; [constructor|].
    destruct (getn t i =? ignored); [auto|constructor; [exact I|auto]]. }
  induction is as [|i r IH]; cbn [pieces]; [split; [exact I|congruence]|].
  destruct (getn t i =? ignored); [exact IH|].
  split; [destruct invert; exact I|]. intros x r0 E. injection E as <- <-. apply K.
Qed.

Lemma hw_load_immediate_shape t :
  let l := hw_load_immediate t in
  l <> [] -> (* non-emptiness is shown separately *)
  (match l with IMOVK _ _ :: _ => False | _ => True end) /\
  (forall x r, l = x :: r -> Forall is_movk r).
Proof.
  unfold hw_load_immediate. intros _.
  destruct (zeros t =? 4)%nat; [split; [exact I|intros x r E; injection E as <- <-; constructor]|].
  destruct (ones t =? 4)%nat; [split; [exact I|intros x r E; injection E as <- <-; constructor]|].
  apply pieces_shape.
Qed.
Lemma hw_load_immediate_nonempty t : wf t -> hw_load_immediate t <> [].
Proof.
  intros W E. pose proof (hw_load_immediate_ok t (0, 0, 0, 0) W) as H1.
  pose proof (hw_load_immediate_ok t (M16, M16, M16, M16) W) as H2. rewrite E in *. cbn in *. rewrite <- H1 in H2. unfold M16 in H2. discriminate H2.
Qed.

(* literals into a register: every 64-bit value *)
Theorem a64_imm_code_ok n v s :
  in64 v ->
  exists s', run_straight im (imm_code (X n) v) s = MOk s' /\ xget s' n = Some v /\ only_reg n s s'.
Proof.
  intros H. rewrite imm_code_hw by auto.
  pose proof (wf_split v) as W.
  pose proof (hw_load_immediate_shape (split v) (hw_load_immediate_nonempty _ W)) as (S1 & S2).
  destruct (run_pieces n (hw_load_immediate (split v)) s (0, 0, 0, 0)
              (hw_load_immediate_pieces_ok _ W)) as (s' & E & G & R).
  - destruct (hw_load_immediate (split v)) as [|[]]; tauto.
  - exact S2.
  - apply hw_load_immediate_nonempty; auto.
  - rewrite hw_load_immediate_ok, denote_split in G by auto. eexists; split; [exact E|]. split; [exact G|exact R].
Qed.
End Sem.
