(* C07, forward simulation for HEAP statements on AArch64, part 3: `a_store` (the memory part of Let and Create) under
   `hrel`.  Port of Proof/X86HSimStore.v: the hypotheses of the AArch64 refinement theorem `a64_store_full`
   (Proof/A64MemStoreChain.v) come from the allocator invariant through the SHARED bridge (Proof/X86HBridge.v
   `alloc_object_bridge`, Proof/X86HeapCongr.v `heq_alloc_object`) plus the AArch64-only `alloc_object_hdr64_bridge`
   (Proof/A64HBridge.v); the representations of untouched values survive by the shared frame lemma `HRep.xrep_frame`. *)
From Coq Require Import List ZArith NArith String Bool Lia FMapPositive Permutation.
From SCC Require Import Base.Sexp Lang.AxSyn Sem.AxSem Sem.AxHeap Model.ParMoves Model.Backend Model.A64 Sem.A64Sem
     Generated.Constants Proof.A64State Proof.A64ImmHw Proof.A64Imm Proof.A64Sel Proof.A64PM Proof.A64Exec
     Proof.A64MemSubst Proof.SubstGraph Proof.SubstBackends Proof.A64Subst Proof.A64Wf Proof.A64Print
     Proof.A64SimRel Proof.A64SimStmt Proof.HRep Proof.A64Mem Proof.A64MemOps Proof.A64MemStore Proof.A64MemStoreChain
     Proof.A64HSimRel Proof.A64HConv Proof.A64HBridge.
From SCC Require Model.Heap Proof.HeapMore Proof.HeapTrace Proof.HeapRep Proof.HeapBridge
     Proof.X86Mem Proof.X86MemFrame Proof.X86MemStore Proof.X86MemStoreChain Proof.X86HeapDefs Proof.X86HeapAcq Proof.X86HeapCongr
     Proof.X86HBridge Proof.X86HFrame.
Import ListNotations.
Open Scope Z_scope.
Open Scope list_scope.

Notation mtpos := A64Mem.tpos.
Notation InvA := HeapMore.InvA.
Notation LIMIT := X86HeapDefs.LIMIT.
Notation kept := (HRep.kept).
Notation fsts := X86MemStore.fsts.
Notation fst_slot := X86MemStore.fst_slot.
Notation snd_slot := X86MemStore.snd_slot.
Notation alloc_object_bridge := X86HBridge.alloc_object_bridge.
Notation heq_alloc_object := X86HeapCongr.heq_alloc_object.
Notation reach_is_blk := X86HBridge.reach_is_blk.
Notation store_other_frontier := X86HBridge.store_other_frontier.
Notation P03_P3 := X86HFrame.P03_P3.
Notation nlinks_bound := X86HFrame.nlinks_bound.
Notation fsts_length := X86MemStore.fsts_length.
Notation waddrs_length := X86HeapDefs.waddrs_length.
Notation nth_error_skipn_add := X86Mem.nth_error_skipn_add.

(* ---------- temporaries: the two numberings ---------- *)
Lemma atpos_mtpos n i t : atpos n i = Ok t -> t = mtpos (2 * N.of_nat i + tnum_n n) /\ (2 * N.of_nat i + tnum_n n < MAXPOS)%N.
Proof. intros H. apply tfp_tpos. exact H. Qed.
Lemma mtpos_atpos n i : (2 * N.of_nat i + tnum_n n < MAXPOS)%N -> atpos n i = Ok (mtpos (2 * N.of_nat i + tnum_n n)).
Proof. intros H. apply tpos_tfp in H. exact H. Qed.

(* the word in the temporary of position k (0 when undefined) *)
Definition wval (s : astate) (sp : Z) (k : N) : Z := match lget s sp (mtpos k) with Some z => z | None => 0 end.

(* frame of a heap statement: the output and the stack outside the spill area *)
Definition hframe_eq (s s' : astate) (sp : Z) : Prop := out s' = out s /\ stack_frame s s' sp.
Lemma hframe_eq_refl s sp : hframe_eq s s sp.
Proof. split; [reflexivity|apply stack_frame_refl]. Qed.
Lemma hframe_eq_trans s1 s2 s3 sp : hframe_eq s1 s2 sp -> hframe_eq s2 s3 sp -> hframe_eq s1 s3 sp.
Proof. intros [A1 B1] [A2 B2]. split; [congruence|eapply stack_frame_trans; eauto]. Qed.
Lemma frame_eq_hframe s s' sp : frame_eq s s' sp -> hframe_eq s s' sp.
Proof. intros (_ & O & E). split; [exact O|exact E]. Qed.

Lemma reg_or0_some s r v : reg_or0 s r = v -> v <> 0 -> rget s r = Some v.
Proof. unfold reg_or0. destruct (rget s r); intros E H; congruence. Qed.

Lemma nlinks_upper n : (n <= 2 * Heap.nlinks n + 3)%nat.
Proof.
  unfold Heap.nlinks. destruct (Nat.leb_spec n 3); [lia|].
  assert (D := Nat.div_mod (n - 3 + 1) 2 ltac:(lia)).
  assert (M := Nat.mod_upper_bound (n - 3 + 1) 2 ltac:(lia)). lia.
Qed.

Section HStore.
Variable im : image.
Variable types : list tydecl.
Variable CLO : Z -> ident -> list clause -> ctx -> Prop.
Local Notation hrel := (hrel types CLO).
Local Notation hvrep := (hvrep types CLO).
Local Notation xrep := (HRep.xrep types CLO jump_length in64).
Local Notation xflds := (HRep.xflds types CLO jump_length in64).
Local Notation xreps := (HRep.xreps types CLO jump_length in64).

(* few variables: every position has a temporary *)
Lemma hrel_small c he hs s sp : hrel c he hs s sp -> (List.length he <= 141)%nat.
Proof.
  intros R. destruct (Nat.le_gt_cases (List.length he) 141) as [L|L]; [exact L|exfalso].
  destruct (nth_error he 141) as [[[x v] q]|] eqn:E; [|apply nth_error_None in E; lia].
  destruct (hr_vals R 141%nat x v q E) as (b & _ & V).
  assert (T : exists t, atpos Snd 141 = Ok t) by (destruct V; eauto).
  destruct T as (t & T). apply atpos_mtpos in T as [_ K]. cbn in K. unfold MAXPOS in K. lia.
Qed.
Lemma roots_length (he : henv) : (List.length (roots he) <= List.length he)%nat.
Proof. unfold roots, ptrs. rewrite <- (map_length h_ptr he). apply HeapBridge.nz_length_le. Qed.

(* positions of a prefix *)
Lemma hrel_vals_app c1 c2 he1 he2 hs s sp i x v q :
  hrel (c1 ++ c2) (he1 ++ he2) hs s sp -> List.length he1 = List.length c1 ->
  nth_error he2 i = Some (x, v, q) ->
  exists b, nth_error c2 i = Some b /\ hvrep s sp (List.length c1 + i) b v q.
Proof.
  intros R L H. destruct (hr_vals R (List.length c1 + i)%nat x v q) as (b & Hb & V).
  { rewrite nth_error_app2 by lia. replace (List.length c1 + i - List.length he1)%nat with i by lia. exact H. }
  exists b. split; [|exact V]. rewrite nth_error_app2 in Hb by lia.
  now replace (List.length c1 + i - List.length c1)%nat with i in Hb by lia.
Qed.

Lemma app_inv_len {X} : forall (a1 a2 b1 b2 : list X),
  a1 ++ a2 = b1 ++ b2 -> List.length a1 = List.length b1 -> a1 = b1 /\ a2 = b2.
Proof.
  induction a1 as [|x a1 IH]; intros a2 [|y b1] b2 H L; cbn in *; try discriminate; auto.
  inversion H; subst. destruct (IH a2 b1 b2) as [-> ->]; auto.
Qed.
Lemma NoDup_app_l {X} (a b : list X) : NoDup (a ++ b) -> NoDup a.
Proof.
  induction a as [|x a IH]; cbn; [constructor|]. intros H. inversion H; subst. constructor; auto.
  intros I. apply H2. apply in_app_iff. now left.
Qed.

(* the values of the temporaries of the variables to store, and their pointer slots *)
Lemma store_vals c1 c2 he1 he2 hs s sp :
  hrel (c1 ++ c2) (he1 ++ he2) hs s sp -> List.length he1 = List.length c1 ->
  vals_ok s sp (wval s sp) (List.length c1) c2.
Proof.
  intros R L i b Hi.
  assert (Li : (i < List.length c2)%nat) by (apply nth_error_Some; congruence).
  pose proof (hrel_length R) as LEN. rewrite !app_length in LEN.
  destruct (nth_error he2 i) as [[[x v] q]|] eqn:He; [|apply nth_error_None in He; lia].
  destruct (hrel_vals_app c1 c2 he1 he2 hs s sp i x v q R L He) as (b' & Hb' & V).
  assert (b' = b) by congruence. subst b'. unfold wval.
  destruct V as [b z q t A B T Lg|b v q a t1 t2 A K1 K2 T1 T2 L1 L2 X].
  - apply atpos_mtpos in T as [-> _]. cbn [tnum_n] in Lg. rewrite Lg. split; [reflexivity|congruence].
  - apply atpos_mtpos in T1 as [-> _]. apply atpos_mtpos in T2 as [-> _]. cbn [tnum_n] in L1, L2.
    rewrite N.add_0_r in L1. rewrite L1, L2. split; [reflexivity|intros _; reflexivity].
Qed.
Lemma store_fsts c1 c2 he1 he2 hs s sp :
  hrel (c1 ++ c2) (he1 ++ he2) hs s sp -> List.length he1 = List.length c1 ->
  (forall en, In en he2 -> chi_of (h_val en) = Ext -> h_ptr en = 0) ->
  fsts (wval s sp) (List.length c1) c2 = map store_ptr he2 /\ map store_ptr he2 = ptrs he2.
Proof.
  intros R L EX. pose proof (hrel_length R) as LEN. rewrite !app_length in LEN.
  assert (L2 : List.length he2 = List.length c2) by lia.
  split.
  - apply nth_ext with (d := 0) (d' := 0); [now rewrite fsts_length, map_length|].
    intros i Hi. rewrite fsts_length in Hi.
    destruct (nth_error he2 i) as [[[x v] q]|] eqn:He; [|apply nth_error_None in He; lia].
    destruct (hrel_vals_app c1 c2 he1 he2 hs s sp i x v q R L He) as (b & Hb & V).
    assert (E1 : nth i (fsts (wval s sp) (List.length c1) c2) 0 = fst_slot (wval s sp) (List.length c1 + i) b).
    { clear -Hb. revert i Hb. generalize (List.length c1). induction c2 as [|b0 c2 IH]; intros E i Hb; [destruct i; discriminate|].
      destruct i as [|i]; cbn [nth_error fsts nth] in *.
      - inversion Hb; subst. now rewrite Nat.add_0_r.
      - rewrite (IH (S E) i Hb). f_equal. lia. }
    rewrite E1. rewrite (nth_indep _ 0 (store_ptr (x, v, q))) by (rewrite map_length; lia).
    rewrite map_nth. rewrite (nth_error_nth _ _ _ He).
    unfold fst_slot, store_ptr, wval. cbn [h_val h_ptr fst snd].
    destruct V as [b z q t A B T Lg|b v q a t1 t2 A K1 K2 T1 T2 Lg1 Lg2 X].
    + rewrite A. reflexivity.
    + rewrite K1. destruct (bchi b) eqn:Kb; try congruence; apply atpos_mtpos in T1 as [-> _]; cbn [tnum_n] in Lg1;
        rewrite N.add_0_r in Lg1; now rewrite Lg1.
  - apply map_ext_in. intros en Hen. unfold store_ptr. destruct (chi_of (h_val en)) eqn:K; auto. symmetry. now apply EX.
Qed.

Lemma roots_split (he1 he2 : henv) : Permutation (roots (he1 ++ he2)) (Heap.nz (ptrs he2) ++ roots he1).
Proof. unfold roots, ptrs. rewrite map_app, HeapMore.nz_app. apply Permutation_app_comm. Qed.

Theorem hsim_store rest args he0 fsE hs s sp lc c1 lc1 pc hl fl cl :
  hrel (rest ++ args) (he0 ++ fsE) hs s sp ->
  List.length he0 = List.length rest -> args <> [] ->
  InvA HEAP_BASE hs (roots (he0 ++ fsE)) hl fl cl -> P03 hs ->
  (forall en, In en fsE -> chi_of (h_val en) = Ext -> h_ptr en = 0) ->
  a_store args rest lc = Ok (c1, lc1) ->
  code_at im pc c1 -> labels_at_nh im pc c1 ->
  Heap.frontier (snd (Heap.alloc_object (map store_ptr fsE) hs)) + 64 <= LIMIT ->
  Heap.heap (snd (Heap.alloc_object (map store_ptr fsE) hs)) <> 0 ->
  Heap.free (snd (Heap.alloc_object (map store_ptr fsE) hs)) <> 0 ->
  exists s', exec_to im pc s (padd pc (List.length c1)) s' /\ hframe_eq s s' sp /\
    hrel rest he0 (snd (Heap.alloc_object (map store_ptr fsE) hs)) s' sp /\
    (exists t1, atpos Fst (List.length rest) = Ok t1 /\ lget s' sp t1 = Some (fst (Heap.alloc_object (map store_ptr fsE) hs))) /\
    xflds (hword s') (map h_val fsE) (fst (Heap.alloc_object (map store_ptr fsE) hs)).
Proof.
  intros R L0 NE IA K03 EX XS CA LA HF HH0 HF0.
  pose proof (hrel_length R) as LEN. rewrite !app_length in LEN.
  assert (LE : List.length fsE = List.length args) by lia.
  set (F := Heap.frontier hs).
  set (val := wval s sp).
  pose proof (store_vals rest args he0 fsE hs s sp R L0) as VO. fold val in VO.
  destruct (store_fsts rest args he0 fsE hs s sp R L0 EX) as [EF EP]. fold val in EF.
  set (fields := map store_ptr fsE) in *.
  assert (NEf : fields <> []).
  { unfold fields. destruct fsE; [cbn in LE; destruct args; [congruence|discriminate]|discriminate]. }
  assert (HR : Z.of_nat (List.length (roots (he0 ++ fsE))) < 1048576).
  { pose proof (roots_length (he0 ++ fsE)). pose proof (hrel_small _ _ _ _ _ R). lia. }
  assert (PM : Permutation (roots (he0 ++ fsE)) (Heap.nz fields ++ roots he0)).
  { rewrite EP. apply roots_split. }
  pose proof (hr_heq R) as HQ. fold F in HQ.
  destruct (alloc_object_bridge fields (abs_heap F s) hs _ _ hl fl cl IA HQ (P03_P3 _ K03) PM NEf HR HF)
    as (PRE & ACQ & ND & UNR).
  destruct (heq_alloc_object (abs_heap F s) hs fields HQ (P03_P3 _ K03) PRE) as (EFST & HQ').
  set (res := Heap.alloc_object fields hs) in *. set (resa := Heap.alloc_object fields (abs_heap F s)) in *.
  assert (LAm : labels_at im pc c1) by (eapply labels_at_a_store; eauto).
  assert (H64 : alloc_object_hdr64 fields (abs_heap F s)).
  { apply (alloc_object_hdr64_bridge fields (abs_heap F s) hs _ _ hl fl cl IA HQ (P03_P3 _ K03) PM NEf HR HF). }
  destruct (a64_store_full im pc args rest lc c1 lc1 s sp F val XS NE CA LAm (hr_frame R) VO)
    as (s' & ST & EQ & RP & KEEP & OUT & FR' & WB & FB & (SLOTS & PAD) & HFR & SF).
  { rewrite EF. exact PRE. }
  { rewrite EF. exact H64. }
  { rewrite EF, ACQ. exact ND. }
  rewrite EF in EQ, RP, WB, FB, SLOTS, PAD, HFR. fold resa in EQ, RP, WB, FB, SLOTS, PAD.
  rewrite ACQ in WB, HFR. rewrite EFST in RP, WB, FB, SLOTS, PAD. fold res in RP, WB, FB, SLOTS, PAD.
  set (n := List.length args) in *. set (k := Heap.nlinks n) in *.
  (* the abstraction afterwards *)
  assert (EFr : Heap.frontier (snd resa) = Heap.frontier (snd res)) by (destruct HQ' as (_ & _ & X & _); exact X).
  assert (HQ2 : heq (abs_heap (Heap.frontier (snd res)) s') (snd res)).
  { rewrite <- EFr. eapply heq_eqB; [exact EQ|exact HQ']. }
  assert (RH : rget s' HEAP = Some (Heap.heap (snd res))).
  { apply reg_or0_some; [|exact HH0]. destruct HQ2 as (X & _). exact X. }
  assert (RF : rget s' FREE = Some (Heap.free (snd res))).
  { apply reg_or0_some; [|exact HF0]. destruct HQ2 as (_ & X & _). exact X. }
  (* the words of everything reachable from the old roots are untouched *)
  assert (KEPT : forall q, q <> 0 -> In q (ptrs (he0 ++ fsE)) -> kept hs (hword s) (hword s') q).
  { intros q Hq0 Hq b Hb i Hi.
    assert (RB : reach (Heap.m hs) (roots (he0 ++ fsE)) b).
    { eapply HeapRep.reach_trans; [|exact Hb]. intros r [<-|[]] _. apply HeapTrace.reach_src; [|exact Hq0].
      unfold roots. apply HeapMore.in_nz. auto. }
    assert (BB : is_blk b).
    { eapply reach_is_blk; [exact IA| |exact RB].
      pose proof (store_other_frontier O [] 1 hs) as _.
      assert (Heap.frontier hs <= Heap.frontier (snd res)).
      { unfold res, Heap.alloc_object. destruct fields as [|f0 fr]; [congruence|].
        set (sl := Heap.pad 3 (Heap.lastn 3 (f0 :: fr))).
        pose proof (HeapBridge.first_perm (f0 :: fr) _ _ PM) as HP1. fold sl in HP1.
        destruct (HeapBridge.alloc_stage HEAP_BASE hs _ _ hl fl cl sl IA HP1) as (Ef & Hr0 & (hl' & fl' & cl' & IA') & Fm & _ & _).
        destruct (Heap.alloc sl hs) as [b0 s1] eqn:EA. cbn [fst snd] in *. subst b0.
        pose proof (store_other_frontier (List.length (f0 :: fr)) (Heap.butlastn 3 (f0 :: fr)) (Heap.heap hs) s1 _ hl' fl' cl' IA' Hr0). lia. }
      unfold LIMIT in *. lia. }
    apply HFR; [apply X86MemFrame.not_blk_off; [exact BB|lia]|].
    intros b' Hb'. destruct (UNR b' Hb') as [BB' NR].
    assert (NEb : b <> b') by (intros ->; contradiction).
    destruct (X86MemFrame.is_blk_apart b b' BB BB' NEb); lia. }
  assert (AG : slots_agree (Heap.m hs) (hword s)) by (eapply heq_slots_agree; exact HQ).
  exists s'. split; [|split; [|split; [|split]]].
  - exact ST.
  - split; [exact OUT|exact SF].
  - (* the positions of `rest` *)
    destruct R as [F0 Ro Hr Fr HQ0 Ids NDc Vals]. split; auto.
    + unfold env_ids, ids, erase_env in *. rewrite !map_app in Ids.
      apply app_inv_len in Ids; [tauto|]. rewrite !map_length. exact L0.
    + unfold ids in *. rewrite map_app in NDc. eapply NoDup_app_l; eauto.
    + intros i x v q Hi. assert (Li : (i < List.length he0)%nat) by (apply nth_error_Some; congruence).
      destruct (Vals i x v q) as (b & Hb & V); [rewrite nth_error_app1 by exact Li; exact Hi|].
      rewrite nth_error_app1 in Hb by lia. exists b. split; [exact Hb|].
      destruct V as [b z q t A B T Lg|b v q a t1 t2 A K1 K2 T1 T2 L1 L2 X].
      * eapply hv_int; eauto. apply atpos_mtpos in T as [-> _]. rewrite KEEP; [exact Lg|]. cbn [tnum_n]. lia.
      * pose proof T1 as T1'. pose proof T2 as T2'.
        apply atpos_mtpos in T1' as [-> _]. apply atpos_mtpos in T2' as [-> _].
        eapply (hv_ptr types CLO s' sp i b v q a); eauto.
        -- rewrite KEEP; [exact L1|]. cbn [tnum_n]. lia.
        -- rewrite KEEP; [exact L2|]. cbn [tnum_n]. lia.
        -- destruct (Z.eq_dec q 0) as [->|Hq0].
           ++ eapply (HRep.xrep_frame types CLO jump_length in64 hs (hword s) (hword s') AG); [exact X|].
              intros b0 Hb0. exfalso. clear -Hb0. remember [0] as src eqn:Es.
              induction Hb0 as [b Hb Hb0|x b Hx IH Hin Hb0]; subst; [destruct Hb as [<-|[]]; congruence|auto].
           ++ eapply (HRep.xrep_frame types CLO jump_length in64 hs (hword s) (hword s') AG); [exact X|].
              apply KEPT; [exact Hq0|]. unfold ptrs. rewrite map_app, in_app_iff. left.
              apply nth_error_In in Hi. apply (in_map h_ptr) in Hi. exact Hi.
  - assert (KM : (2 * N.of_nat (List.length rest) + tnum_n Fst < MAXPOS)%N).
    { unfold a_store in XS.
      destruct (store_fields_unfold (List.length args) args rest Last lc c1 lc1 NE XS) as (c0 & sv & c3 & _ & _ & Hk & _).
      rewrite app_length in Hk. cbn [tnum_n]. lia. }
    exists (mtpos (2 * N.of_nat (List.length rest) + tnum_n Fst)). split; [apply mtpos_atpos; exact KM|].
    cbn [tnum_n]. rewrite N.add_0_r. exact RP.
  - (* the new object *)
    assert (Lf : List.length (map h_val fsE) = n) by (rewrite map_length; exact LE).
    apply xf_cons; rewrite ?Lf; fold k.
    + destruct fsE; [cbn in LE; destruct args; [congruence|discriminate]|discriminate].
    + exact FB.
    + exact PAD.
    + apply xreps_intro.
      * rewrite skipn_length, Lf, waddrs_length. pose proof (nlinks_bound n). pose proof (nlinks_upper n). unfold k.
        assert (0 < n)%nat by (unfold n; destruct args; [congruence|cbn; lia]). lia.
      * intros i v a Hv Ha. rewrite nth_error_skipn_add in Ha.
        rewrite nth_error_map in Hv. destruct (nth_error fsE i) as [[[x v0] q]|] eqn:He; [|discriminate].
        cbn in Hv. inversion Hv; subst v0. clear Hv.
        destruct (hrel_vals_app rest args he0 fsE hs s sp i x v q R L0 He) as (b & Hb & V).
        destruct (SLOTS i b Hb) as [S1 S2]. cbv zeta in S1, S2.
        assert (Ea : nth (List.length (waddrs k (hword s') (fst res)) - n + i) (waddrs k (hword s') (fst res)) 0 = a).
        { apply nth_error_nth. exact Ha. }
        rewrite Ea in S1, S2. rewrite S1, S2. unfold fst_slot, snd_slot, val, wval.
        destruct V as [b z q t A B T Lg I64|b v q a0 t1 t2 A K1 K2 T1 T2 L1 L2 X].
        -- rewrite A. apply atpos_mtpos in T as [-> _]. cbn [tnum_n] in Lg. rewrite Lg. constructor. exact I64.
        -- apply atpos_mtpos in T1 as [-> _]. apply atpos_mtpos in T2 as [-> _]. cbn [tnum_n] in L1, L2. rewrite N.add_0_r in L1.
           rewrite L1, L2. destruct (bchi b) eqn:Kb; try congruence.
           all: destruct (Z.eq_dec q 0) as [->|Hq0];
             [ eapply (HRep.xrep_frame types CLO jump_length in64 hs (hword s) (hword s') AG); [exact X|];
               intros b0 Hb0; exfalso; clear -Hb0; remember [0] as src eqn:Es;
               induction Hb0 as [b1 Hb1 Hb10|x1 b1 Hx1 IH Hin Hb10]; subst; [destruct Hb1 as [<-|[]]; congruence|auto]
             | eapply (HRep.xrep_frame types CLO jump_length in64 hs (hword s) (hword s') AG); [exact X|];
               apply KEPT; [exact Hq0|]; unfold ptrs; rewrite map_app, in_app_iff; right;
               apply nth_error_In in He; apply (in_map h_ptr) in He; exact He ].
Qed.
End HStore.
