(* C06, heap statements: non-vacuity of x86_codegen_simulates.
   `fits_b`: the numeric hypothesis `heap_fits` decided by running the instrumented machine (the frontier of
   every configuration of a terminating run is checked); the example program of Proof/AxHeapExample.v (lists -
   let / switch -, a five-field record in two chained blocks, shared and dropped objects, a closure that
   captures an integer, calls between two definitions): all hypotheses evaluated, both machines computed. *)
From Coq Require Import List ZArith NArith String Bool Lia.
From SCC Require Import Base.Sexp Lang.AxSyn Sem.AxSem Sem.AxHeap Model.Backend Model.X86 Sem.X86Sem Sem.X86Wf
     Model.Linearize Model.LinCheck Proof.X86SimAddr Proof.X86SimProg Proof.X86SimProgC Proof.X86HeapDefs Proof.X86HAnn Proof.X86HSimProgA Proof.X86HSimTop
     Proof.AxHeapExample.
From SCC Require Model.Heap Proof.AxHeapTyping.
Import ListNotations.
Open Scope Z_scope.

Fixpoint fits_b (fuel : nat) (p : prog) (c : hconf) : bool :=
  (Heap.frontier (hc_heap c) + 64 <=? LIMIT) &&
  match fuel with
  | O => false
  | S f =>
      match hstep p (hc_env c) (hc_heap c) (hc_stmt c) with
      | HEnd _ => true
      | HStep ops he' s' _ => fits_b f p (mkhc he' (hrun ops (hc_heap c)) s')
      end
  end.
Definition fits_run (fuel : nat) (p : prog) (args : list Z) : bool :=
  match pdefs p with
  | d :: _ => match entry_env d args with Some e => fits_b fuel p (hinit HEAP_BASE d e) | None => true end
  | [] => true
  end.

Lemma hsteps_left p c tr c' : hsteps p c tr c' ->
  c' = c \/ exists ops he' s' pr tr', hstep p (hc_env c) (hc_heap c) (hc_stmt c) = HStep ops he' s' pr /\
                                      hsteps p (mkhc he' (hrun ops (hc_heap c)) s') tr' c'.
Proof.
  induction 1 as [c|c tr c1 ops he' s' pr H IH HS]; [now left|right].
  destruct IH as [->|(ops0 & he0 & s0 & pr0 & tr0 & HS0 & H0)].
  - exists ops, he', s', pr, []. split; [exact HS|apply hsteps_refl].
  - exists ops0, he0, s0, pr0, ((tr0 ++ ops)%list). split; [exact HS0|]. eapply hsteps_step; eauto.
Qed.
Lemma fits_b_sound p : forall fuel c, fits_b fuel p c = true ->
  forall tr c', hsteps p c tr c' -> Heap.frontier (hc_heap c') + 64 <= LIMIT.
Proof.
  induction fuel as [|f IH]; intros c H tr c' HS; cbn [fits_b] in H; apply andb_true_iff in H as [T H]; [discriminate|].
  apply Z.leb_le in T. destruct (hsteps_left p c tr c' HS) as [->|(ops & he' & s' & pr & tr' & E & HS')]; [exact T|].
  rewrite E in H. exact (IH _ H tr' c' HS').
Qed.
Theorem fits_run_sound fuel p args : fits_run fuel p args = true -> heap_fits p args.
Proof.
  intros H tr c (d & ds & e & PD & EN & HS). unfold fits_run in H. rewrite PD, EN in H.
  exact (fits_b_sound p fuel _ H tr c HS).
Qed.

(* ---------- the example ---------- *)
Definition hxe_code : list xcode := match x86_compile hx_lin 0 with Ok (cs, _, _) => cs | Err _ => [] end.

Lemma hxe_hypotheses :
  lin_check_prog hx_lin = true /\ ann_check_prog hx_lin = true /\ AxHeapTyping.entry_ext hx_lin = true /\
  plain_names hx_lin = true /\ plain_types hx_lin = true /\
  (exists lc', x86_compile hx_lin 0 = Ok (hxe_code, 2%nat, lc')) /\ asm_wf hxe_code = None /\ code_small hxe_code = true /\
  fits_run 2000 hx_lin [3; 100] = true.
Proof.
  split; [vm_compute; reflexivity|]. split; [vm_compute; reflexivity|]. split; [vm_compute; reflexivity|].
  split; [vm_compute; reflexivity|]. split; [vm_compute; reflexivity|].
  split; [eexists; vm_compute; reflexivity|]. split; [vm_compute; reflexivity|]. split; [vm_compute; reflexivity|].
  vm_compute. reflexivity.
Qed.

(* the theorem applies: there are step counts for which the x86-64 run gives the observation of the linear machine ... *)
Lemma hxe_simulated : exists outer inner, fst (run_x86 outer inner hxe_code [3; 100]) = run_linear 2000 hx_lin [3; 100].
Proof.
  destruct hxe_hypotheses as (H1 & H2 & H3 & H4 & H5 & (lc' & H6) & H7 & H8 & H9).
  eapply (x86_codegen_simulates hx_lin 0 hxe_code 2 lc' [3; 100] 2000); eauto.
  - now apply fits_run_sound with (fuel := 2000%nat).
  - vm_compute. discriminate.
Qed.
(* ... and, evaluated, both sides: three iterations, each allocating, sharing, loading and dropping objects; the
   closure adds the captured 100 *)
Lemma hxe_runs :
  run_linear 2000 hx_lin [3; 100] = ([(true, 106)], OExit 106) /\
  fst (run_x86 20 2000 hxe_code [3; 100]) = ([(true, 106)], OExit 106).
Proof. split; vm_compute; reflexivity. Qed.
