(* C03, semantic preservation: simply typed Core programs never meet a kind clash.

   [tc_prog] (Model/FocusGuard.v) is a boolean type checker for Core with exact annotations.  Typing
   of machine states ([ct]) is preserved by every transition ([ct_step]); a by-name producer value has
   a codata type, the by-value return continuation [KRet] a non-codata type, and a cut relates values
   of ONE type - so a typed configuration is no kind clash ([ct_no_clash]).  Hence [tc_clash_free_prog]:
   the run-time hypothesis of the preservation theorems holds for every run of a typed program. *)
From Coq Require Import List ZArith NArith String Bool Lia.
From SCC Require Import Base.Sexp Lang.SynUtil Lang.CoreSyn Sem.AxSem Sem.CoreSem Model.FocusGuard
     Proof.SubstProof Proof.FocusKont Proof.FocusSim Proof.FocusRun.
Import ListNotations.
Open Scope list_scope.

Lemma cty_eqb_eq : forall a b, cty_eqb a b = true -> a = b.
Proof.
  intros [|x] [|y]; simpl; intros H; try discriminate; [reflexivity|].
  apply cident_eqb_eq in H. congruence.
Qed.
Lemma cty_list_eqb_eq : forall a b, list_eqb cty_eqb a b = true -> a = b.
Proof.
  induction a as [|x a IH]; intros [|y b]; simpl; intros H; try discriminate; [reflexivity|].
  apply andb_true_iff in H. destruct H as [H1 H2]. apply cty_eqb_eq in H1. apply IH in H2. congruence.
Qed.

Section Typed.
Variable p : cprog.
Hypothesis Hprog : tc_prog p = true.

Notation tct := (tc_term p).
Notation tca := (tc_arg p).
Notation tcc := (tc_clause p).
Notation tcs := (tc_stmt p).

(* argument lists against a list of types *)
Fixpoint tc_args (S : tenv) (l : list carg) (ts : list cty) {struct l} : bool :=
  match l, ts with
  | [], [] => true
  | x :: r, t0 :: tr => tca S t0 x && tc_args S r tr
  | _, _ => false
  end.
Lemma tc_args_eq : forall S args tys,
  (fix go (l : list carg) (ts : list cty) {struct l} : bool :=
     match l, ts with
     | [], [] => true
     | x :: r, t0 :: tr => tca S t0 x && go r tr
     | _, _ => false
     end) args tys = tc_args S args tys.
Proof. intros S. induction args as [|a r IH]; intros [|t tr]; simpl; auto. rewrite IH. reflexivity. Qed.

Lemma tc_call_eq : forall S f args ty,
  tcs S (CCall f args ty) = match def_sig p f with Some tys => tc_args S args tys | None => false end.
Proof. intros. cbn. destruct (def_sig p f) as [l|]; [exact (tc_args_eq S args l) | reflexivity]. Qed.
Lemma tc_xtor_eq : forall S c c0 tag args ty0 ty,
  tct S c ty (CXtor c0 tag args ty0) =
  cty_eqb ty0 ty && match xtor_sig p (match c with CPrd => false | CCns => true end) ty tag with
                    | Some tys => tc_args S args tys
                    | None => false
                    end.
Proof.
  intros. cbn. f_equal. destruct (xtor_sig p _ ty tag) as [l|]; [exact (tc_args_eq S args l) | reflexivity].
Qed.

Inductive vt : bval -> cty -> Prop :=
| vt_int : forall z, vt (BP (PInt z)) CI64
| vt_ctor : forall tag args ty tys, xtor_sig p false ty tag = Some tys -> vts args tys -> vt (BP (PCtor tag args)) ty
| vt_cocase : forall cls e S ty, et e S -> forallb (tcc S true ty) cls = true -> vt (BP (PCocase cls e)) ty
| vt_thunk : forall a s e S ty, is_codata p ty = true -> et e S -> tcs ((a, ty) :: S) s = true -> vt (BP (PThunk a s e)) ty
| vt_delay : forall m ty, is_codata p ty = true -> mt m ty -> vt (BP (PDelay m)) ty
| vt_mut : forall x s e S ty, et e S -> tcs ((x, ty) :: S) s = true -> vt (BK (KMuT x s e)) ty
| vt_case : forall cls e S ty, et e S -> forallb (tcc S false ty) cls = true -> vt (BK (KCase cls e)) ty
| vt_dtor : forall tag args ty tys, xtor_sig p true ty tag = Some tys -> vts args tys -> vt (BK (KDtor tag args)) ty
| vt_ret : forall m ty, is_codata p ty = false -> mt m ty -> vt (BK (KRet m)) ty
with vts : list bval -> list cty -> Prop :=
| vts_nil : vts [] []
| vts_cons : forall v ty l tys, vt v ty -> vts l tys -> vts (v :: l) (ty :: tys)
with et : cenv -> tenv -> Prop :=
| et_nil : et [] []
| et_cons : forall x v ty e S, vt v ty -> et e S -> et ((x, v) :: e) ((x, ty) :: S)
with mt : mk -> cty -> Prop :=
| mt_args : forall done rest e f S tys1 ty tys2,
    vts (rev done) tys1 -> et e S -> tc_args S rest tys2 = true -> ft f (tys1 ++ ty :: tys2) ->
    mt (MArgs done rest e f) ty
| mt_opL : forall o b e m S, et e S -> tct S CPrd CI64 b = true -> mt m CI64 -> mt (MOpL o b e m) CI64
| mt_opR : forall o x m, mt m CI64 -> mt (MOpR o x m) CI64
| mt_if1 : forall so b t el e S,
    et e S -> match b with Some b' => tct S CPrd CI64 b' | None => true end = true ->
    tcs S t = true -> tcs S el = true -> mt (MIf1 so b t el e) CI64
| mt_if2 : forall so x t el e S, et e S -> tcs S t = true -> tcs S el = true -> mt (MIf2 so x t el e) CI64
| mt_print : forall nl n e S, et e S -> tcs S n = true -> mt (MPrint nl n e) CI64
| mt_exit : mt MExit CI64
| mt_cutK : forall k e S ty, et e S -> tct S CCns ty k = true -> mt (MCutK k e) ty
| mt_cutP : forall pr e S ty, et e S -> tct S CPrd ty pr = true -> mt (MCutP (is_codata p ty) pr e) ty
with ft : fin -> list cty -> Prop :=
| ft_call : forall f tys, def_sig p f = Some tys -> ft (FinCall f) tys
| ft_xp : forall tag m ty tys, xtor_sig p false ty tag = Some tys -> mt m ty -> ft (FinXtorP tag m) tys
| ft_xk : forall tag m ty tys, xtor_sig p true ty tag = Some tys -> mt m ty -> ft (FinXtorK tag m) tys.

Inductive ct : config -> Prop :=
| ct_run : forall s e S, et e S -> tcs S s = true -> ct (Run s e)
| ct_arg : forall a e m S ty, et e S -> tca S ty a = true -> mt m ty -> ct (Arg a e m)
| ct_app : forall m v ty, mt m ty -> vt v ty -> ct (App m v).

Definition sres_t (r : sres) : Prop :=
  match r with SNext c => ct c | SPrint _ _ c => ct c | SHalt _ => True end.

(* ---------- environments ---------- *)
Lemma et_lookup : forall e S, et e S -> forall x,
  match clookup e x, tfind S x with
  | Some v, Some ty => vt v ty
  | None, None => True
  | _, _ => False
  end.
Proof.
  induction 1 as [|y v ty e S HV HE IH]; intros x; simpl; [exact I|].
  destruct (cident_eqb y x); [exact HV | apply IH].
Qed.

Lemma vts_app : forall a ta b tb, vts a ta -> vts b tb -> vts (a ++ b) (ta ++ tb).
Proof. induction 1; simpl; intros; auto. constructor; auto. Qed.

Lemma et_cbind : forall ctx vs e S e1, vts vs (ctx_tys ctx) -> et e S -> cbind (cvars ctx) vs e = Some e1 ->
  et e1 (ctx_tenv ctx ++ S).
Proof.
  induction ctx as [|b r IH]; intros vs e S e1 HV HE B; simpl in *.
  - inversion HV; subst. simpl in B. inversion B; subst. exact HE.
  - inversion HV; subst. simpl in B. destruct (cbind (cvars r) l e) as [e2|] eqn:E2; [|discriminate].
    inversion B; subst. constructor; auto. eapply IH; eauto.
Qed.

(* ---------- what the type of a value says about its form ---------- *)
Lemma vt_by_name : forall pv ty, vt (BP pv) ty -> by_name pv = true -> is_codata p ty = true.
Proof. intros pv ty H B. inversion H; subst; simpl in B; try discriminate; assumption. Qed.
Lemma vt_kret : forall kv ty, vt (BK kv) ty -> is_kret kv = true -> is_codata p ty = false.
Proof. intros kv ty H B. inversion H; subst; simpl in B; try discriminate; assumption. Qed.
Lemma vt_no_clash : forall pv kv ty, vt (BP pv) ty -> vt (BK kv) ty -> clash_val pv kv = false.
Proof.
  intros pv kv ty HP HK. unfold clash_val.
  destruct (is_kret kv) eqn:K; [|reflexivity]. destruct (by_name pv) eqn:B; [|reflexivity].
  pose proof (vt_by_name _ _ HP B). pose proof (vt_kret _ _ HK K). congruence.
Qed.
Lemma vt_BP : forall v pv ty, vt v ty -> v = BP pv -> True.
Proof. trivial. Qed.

Lemma xtor_sig_tag : forall pol ty t1 t2, cident_eqb t1 t2 = true -> xtor_sig p pol ty t1 = xtor_sig p pol ty t2.
Proof. intros pol ty t1 t2 E. apply cident_eqb_eq in E. subst. reflexivity. Qed.

(* ---------- clause selection ---------- *)
Lemma select_t : forall cls ce S pol ty tag args tys,
  et ce S -> forallb (tcc S pol ty) cls = true -> xtor_sig p pol ty tag = Some tys -> vts args tys ->
  sres_t (select cls ce tag args).
Proof.
  intros cls ce S pol ty tag args tys HE HC SG HV. unfold select, cfind_clause.
  induction cls as [|cl cls IH]; simpl; [exact I|].
  simpl in HC. apply andb_true_iff in HC. destruct HC as [H1 H2].
  destruct (cident_eqb (cl_xtor cl) tag) eqn:Q; [|apply IH; exact H2].
  destruct cl as [c0 x ctx body]. simpl in Q.
  change (tcc S pol ty (CClause c0 x ctx body))
    with (match xtor_sig p pol ty x with Some tys => list_eqb cty_eqb (ctx_tys ctx) tys | None => false end
          && tcs (ctx_tenv ctx ++ S) body) in H1.
  simpl cl_ctx. simpl cl_body.
  rewrite (xtor_sig_tag _ _ _ _ Q), SG in H1. apply andb_true_iff in H1. destruct H1 as [H1 H3].
  apply cty_list_eqb_eq in H1.
  destruct (cbind (cvars ctx) args ce) as [e1|] eqn:B; [|exact I].
  simpl. econstructor; [|exact H3]. eapply et_cbind; eauto. rewrite H1. exact HV.
Qed.

(* ---------- heads and interactions ---------- *)
Lemma khead_t : forall k e S ty kv, et e S -> tct S CCns ty k = true -> khead k e = inl kv -> vt (BK kv) ty.
Proof.
  intros k e S ty kv HE HT H. destruct k; simpl in H; try discriminate.
  - simpl in HT. apply andb_true_iff in HT. destruct HT as [_ HT].
    pose proof (et_lookup _ _ HE v) as L.
    destruct (clookup e v) as [[pv|kv0]|]; try discriminate. inversion H; subst.
    destruct (tfind S v) as [tx|]; [|contradiction]. apply cty_eqb_eq in HT. subst. exact L.
  - inversion H; subst. simpl in HT. apply andb_true_iff in HT. destruct HT as [E HT]. apply cty_eqb_eq in E. subst.
    econstructor; eauto.
  - inversion H; subst. simpl in HT. apply andb_true_iff in HT. destruct HT as [E HT]. apply cty_eqb_eq in E. subst.
    econstructor; eauto.
Qed.

Lemma interact_val_t : forall pv kv ty, vt (BP pv) ty -> vt (BK kv) ty -> sres_t (interact_val pv kv).
Proof.
  intros pv kv ty HP HK. inversion HK; subst.
  - simpl. econstructor; [|eassumption]. constructor; auto.
  - inversion HP; subst; simpl; try exact I.
    + eapply select_t; eauto.
    + econstructor; [|eassumption]. constructor; auto.
    + econstructor; eauto.
  - inversion HP; subst; simpl; try exact I.
    + eapply select_t; eauto.
    + econstructor; [|eassumption]. constructor; auto.
    + econstructor; eauto.
  - inversion HP; subst; simpl; try congruence; try (econstructor; eauto).
Qed.

Lemma interact_mu_t : forall a s e S ty kv,
  et e S -> tcs ((a, ty) :: S) s = true -> vt (BK kv) ty -> sres_t (interact_mu (is_codata p ty) a s e kv).
Proof.
  intros a s e S ty kv HE HS HK.
  assert (G : ct (Run s ((a, BK kv) :: e))) by (econstructor; [|exact HS]; constructor; auto).
  destruct (is_codata p ty) eqn:CD; simpl; [|exact G].
  inversion HK; subst; try exact G.
  simpl. econstructor; [|eassumption]. constructor; auto. econstructor; eauto.
Qed.

Lemma cut_with_k_t : forall pr e S ty kv,
  et e S -> tct S CPrd ty pr = true -> vt (BK kv) ty -> sres_t (cut_with_k (is_codata p ty) pr e kv).
Proof.
  intros pr e S ty kv HE HT HK. destruct pr; simpl; try exact I.
  - simpl in HT. apply andb_true_iff in HT. destruct HT as [_ HT].
    pose proof (et_lookup _ _ HE v) as L.
    destruct (clookup e v) as [[pv|kv0]|]; try exact I.
    destruct (tfind S v) as [tx|]; [|contradiction]. apply cty_eqb_eq in HT. subst.
    eapply interact_val_t; eauto.
  - simpl in HT. apply andb_true_iff in HT. destruct HT as [E _]. apply cty_eqb_eq in E. subst.
    eapply interact_val_t; eauto. constructor.
  - simpl in HT. apply andb_true_iff in HT. destruct HT as [E HT]. apply cty_eqb_eq in E. subst.
    eapply interact_mu_t; eauto.
  - simpl in HT. apply andb_true_iff in HT. destruct HT as [E HT]. apply cty_eqb_eq in E. subst.
    eapply interact_val_t; eauto. econstructor; eauto.
Qed.

(* ---------- argument lists ---------- *)
Lemma tc_find_def : forall f d, cfind_def p f = Some d -> tc_def p d = true.
Proof.
  unfold cfind_def. intros f d F. apply find_some in F. destruct F as [F _].
  unfold tc_prog in Hprog. rewrite forallb_forall in Hprog. apply Hprog; exact F.
Qed.

Lemma finish_t : forall f vals tys, ft f tys -> vts vals tys -> sres_t (finish_args p f vals).
Proof.
  intros f vals tys HF HV. inversion HF; subst; simpl.
  - unfold def_sig in H. destruct (cfind_def p f0) as [d|] eqn:FD; [|exact I]. inversion H; subst.
    destruct (cbind (cvars (cdctx d)) vals []) as [e1|] eqn:B; [|exact I].
    simpl. econstructor.
    + eapply et_cbind; eauto. constructor.
    + rewrite app_nil_r. apply tc_find_def in FD. exact FD.
  - econstructor; eauto. econstructor; eauto.
  - econstructor; eauto. econstructor; eauto.
Qed.

Lemma start_t : forall args e S f tys, et e S -> tc_args S args tys = true -> ft f tys ->
  sres_t (start_args p args e f).
Proof.
  intros args e S f tys HE HA HF. destruct args as [|a r]; simpl.
  - destruct tys; [|discriminate]. eapply finish_t; eauto. constructor.
  - destruct tys as [|t0 tr]; [discriminate|]. simpl in HA. apply andb_true_iff in HA. destruct HA as [A1 A2].
    econstructor; eauto. eapply mt_args with (tys1 := []); eauto. constructor.
Qed.

Lemma rev_append_rev' : forall (X : Type) (l : list X) b, rev_append (b :: l) [] = rev l ++ [b].
Proof. intros. rewrite rev_append_rev. simpl. rewrite app_nil_r. reflexivity. Qed.

(* ---------- preservation ---------- *)
Lemma as_int_t : forall v z, as_int v = Some z -> True.
Proof. trivial. Qed.

Theorem ct_step : forall c, ct c -> sres_t (cstep p c).
Proof.
  intros c H. destruct H as [s e S HE HS|a e m S ty HE HA HM|m v ty HM HV].
  - (* Run *)
    destruct s as [pr ty k|so a b t el|nl a next|f args ty|a ty]; simpl in HS.
    + apply andb_true_iff in HS. destruct HS as [HP HK].
      assert (XP : forall pc px pargs pt, pr = CXtor pc px pargs pt -> sres_t (cstep p (Run (CCut pr ty k) e))).
      { intros pc px pargs pt ->. simpl. change (tct S CPrd ty (CXtor pc px pargs pt) = true) in HP. rewrite tc_xtor_eq in HP. apply andb_true_iff in HP. destruct HP as [E HP].
        apply cty_eqb_eq in E. subst pt.
        destruct (xtor_sig p false ty px) as [tys|] eqn:SG; [|discriminate].
        eapply start_t; eauto. econstructor; eauto. econstructor; eauto. }
      assert (XK : forall qc qx qargs qt0, not_xtor pr -> k = CXtor qc qx qargs qt0 -> sres_t (cstep p (Run (CCut pr ty k) e))).
      { intros qc qx qargs qt0 NP ->.
        replace (cstep p (Run (CCut pr ty (CXtor qc qx qargs qt0)) e))
          with (start_args p qargs e (FinXtorK qx (MCutP (is_codata p ty) pr e)))
          by (destruct pr; try contradiction; reflexivity).
        change (tct S CCns ty (CXtor qc qx qargs qt0) = true) in HK. rewrite tc_xtor_eq in HK. apply andb_true_iff in HK. destruct HK as [E HK]. apply cty_eqb_eq in E. subst qt0.
        destruct (xtor_sig p true ty qx) as [tys|] eqn:SG; [|discriminate].
        eapply start_t; eauto. econstructor; eauto. econstructor; eauto. }
      assert (XO : forall a o b, not_xtor k -> pr = COp a o b -> sres_t (cstep p (Run (CCut pr ty k) e))).
      { intros a o b NK ->.
        replace (cstep p (Run (CCut (COp a o b) ty k) e))
          with (SNext (Arg (CProducer a) e (MOpL o b e (MCutK k e))))
          by (destruct k; try contradiction; reflexivity).
        simpl in HP. repeat (apply andb_true_iff in HP; destruct HP as [HP ?]). apply cty_eqb_eq in HP. subst ty.
        simpl. econstructor; eauto. econstructor; eauto. econstructor; eauto. }
      assert (XH : head_prd pr -> not_xtor k -> sres_t (cstep p (Run (CCut pr ty k) e))).
      { intros HPp NK.
        replace (cstep p (Run (CCut pr ty k) e))
          with (match khead k e with inl kv => cut_with_k (is_codata p ty) pr e kv | inr why => stuck why end)
          by (destruct pr; try contradiction; destruct k; try contradiction; reflexivity).
        destruct (khead k e) as [kv|why] eqn:KH; [|exact I].
        eapply cut_with_k_t; eauto. eapply khead_t; eauto. }
      destruct pr; try (eapply XP; reflexivity);
        destruct k; try (eapply XK; [exact I|reflexivity]); try (eapply XO; [exact I|reflexivity]);
        apply XH; exact I.
    + apply andb_true_iff in HS. destruct HS as [HS He]. apply andb_true_iff in HS. destruct HS as [HS Ht].
      apply andb_true_iff in HS. destruct HS as [Ha Hb].
      simpl. econstructor; eauto. econstructor; eauto.
    + apply andb_true_iff in HS. destruct HS as [Ha Hn]. simpl. econstructor; eauto. econstructor; eauto.
    + rewrite tc_call_eq in HS. destruct (def_sig p f) as [tys|] eqn:DS; [|discriminate].
      simpl. eapply start_t; eauto. constructor; auto.
    + simpl. econstructor; eauto. constructor.
  - (* Arg *)
    destruct a as [t|t]; simpl in HA.
    + destruct t as [c0 v ty0|n|a o b|c0 v s ty0|c0 tag args ty0|c0 cls ty0]; simpl; simpl in HA.
      * apply andb_true_iff in HA. destruct HA as [_ HA].
        pose proof (et_lookup _ _ HE v) as L.
        destruct (clookup e v) as [[pv|kv]|]; try exact I.
        destruct (tfind S v) as [tx|]; [|contradiction]. apply cty_eqb_eq in HA. subst. econstructor; eauto.
      * apply andb_true_iff in HA. destruct HA as [E _]. apply cty_eqb_eq in E. subst. econstructor; eauto. constructor.
      * repeat (apply andb_true_iff in HA; destruct HA as [HA ?]). apply cty_eqb_eq in HA. subst.
        econstructor; eauto. econstructor; eauto.
      * apply andb_true_iff in HA. destruct HA as [E HA]. apply cty_eqb_eq in E. subst ty0.
        destruct (is_codata p ty) eqn:CD.
        -- econstructor; eauto. econstructor; eauto.
        -- econstructor; [|exact HA]. constructor; auto. constructor; auto.
      * change (tct S CPrd ty (CXtor c0 tag args ty0) = true) in HA. rewrite tc_xtor_eq in HA.
        apply andb_true_iff in HA. destruct HA as [E HA]. apply cty_eqb_eq in E. subst ty0.
        destruct (xtor_sig p false ty tag) as [tys|] eqn:SG; [|discriminate].
        eapply start_t; eauto. econstructor; eauto.
      * apply andb_true_iff in HA. destruct HA as [E HA]. apply cty_eqb_eq in E. subst ty0.
        econstructor; eauto. econstructor; eauto.
    + destruct t as [c0 v ty0|n|a o b|c0 v s ty0|c0 tag args ty0|c0 cls ty0]; simpl; simpl in HA; try exact I.
      * apply andb_true_iff in HA. destruct HA as [_ HA].
        pose proof (et_lookup _ _ HE v) as L.
        destruct (clookup e v) as [[pv|kv]|]; try exact I.
        destruct (tfind S v) as [tx|]; [|contradiction]. apply cty_eqb_eq in HA. subst. econstructor; eauto.
      * apply andb_true_iff in HA. destruct HA as [E HA]. apply cty_eqb_eq in E. subst ty0.
        destruct (is_codata p ty) eqn:CD.
        -- econstructor; [|exact HA]. constructor; auto. constructor; auto.
        -- econstructor; eauto. econstructor; eauto.
      * change (tct S CCns ty (CXtor c0 tag args ty0) = true) in HA. rewrite tc_xtor_eq in HA.
        apply andb_true_iff in HA. destruct HA as [E HA]. apply cty_eqb_eq in E. subst ty0.
        destruct (xtor_sig p true ty tag) as [tys|] eqn:SG; [|discriminate].
        eapply start_t; eauto. econstructor; eauto.
      * apply andb_true_iff in HA. destruct HA as [E HA]. apply cty_eqb_eq in E. subst ty0.
        econstructor; eauto. econstructor; eauto.
  - (* App *)
    destruct HM; simpl.
    + destruct rest as [|a r].
      * destruct tys2; [|discriminate]. eapply finish_t; eauto.
        rewrite rev_append_rev. apply vts_app; auto. constructor; auto. constructor.
      * destruct tys2 as [|t0 tr]; [discriminate|]. simpl in H1. apply andb_true_iff in H1. destruct H1 as [A1 A2].
        econstructor; eauto. eapply mt_args with (tys1 := tys1 ++ [ty]); eauto.
        -- simpl. apply vts_app; auto. constructor; auto. constructor.
        -- rewrite <- app_assoc. exact H2.
    + destruct (as_int v); [|exact I]. econstructor; eauto. constructor; auto.
    + destruct (as_int v); [|exact I]. destruct (eval_op (ax_binop o) x z); [|exact I]. econstructor; eauto. constructor.
    + destruct (as_int v); [|exact I]. destruct b as [b0|].
      * econstructor; eauto. econstructor; eauto.
      * econstructor; eauto. destruct (eval_cmp (ax_ifsort so) z 0); auto.
    + destruct (as_int v); [|exact I]. econstructor; eauto. destruct (eval_cmp (ax_ifsort so) x z); auto.
    + destruct (as_int v); [|exact I]. econstructor; eauto.
    + destruct (as_int v); exact I.
    + destruct v as [pv|kv]; [|exact I]. destruct (khead k e) as [kv|why] eqn:KH; [|exact I].
      eapply interact_val_t; eauto. eapply khead_t; eauto.
    + destruct v as [pv|kv]; [exact I|]. eapply cut_with_k_t; eauto.
Qed.

(* ---------- a typed configuration is no kind clash ---------- *)
Lemma cut_no_clash_t : forall pr e S ty kv,
  et e S -> tct S CPrd ty pr = true -> vt (BK kv) ty -> clash_cut (is_codata p ty) pr e kv = false.
Proof.
  intros pr e S ty kv HE HT HK. destruct pr; simpl; try reflexivity.
  - simpl in HT. apply andb_true_iff in HT. destruct HT as [_ HT].
    pose proof (et_lookup _ _ HE v) as L.
    destruct (clookup e v) as [[pv|kv0]|]; try reflexivity.
    destruct (tfind S v) as [tx|]; [|contradiction]. apply cty_eqb_eq in HT. subst.
    eapply vt_no_clash; eauto.
  - destruct (is_codata p ty) eqn:CD; [|reflexivity]. destruct (is_kret kv) eqn:K; [|reflexivity].
    pose proof (vt_kret _ _ HK K). congruence.
Qed.

Theorem ct_no_clash : forall c, ct c -> clash_config p c = false.
Proof.
  intros c H. destruct H as [s e S HE HS|a e m S ty HE HA HM|m v ty HM HV]; simpl; try reflexivity.
  - destruct s as [pr ty k| | | |]; try reflexivity. simpl in HS. apply andb_true_iff in HS. destruct HS as [HP HK].
    assert (G : match khead k e with inl kv => clash_cut (is_codata p ty) pr e kv | inr _ => false end = false).
    { destruct (khead k e) as [kv|] eqn:KH; [|reflexivity]. eapply cut_no_clash_t; eauto. eapply khead_t; eauto. }
    destruct pr; try reflexivity; destruct k; try reflexivity; exact G.
  - destruct HM; try reflexivity.
    + destruct v as [pv|kv]; [|reflexivity]. destruct (khead k e) as [kv|] eqn:KH; [|reflexivity].
      eapply vt_no_clash; eauto. eapply khead_t; eauto.
    + destruct v as [pv|kv]; [reflexivity|]. eapply cut_no_clash_t; eauto.
Qed.

Theorem ct_clash_free : forall fuel c, ct c -> clash_free p fuel c = true.
Proof.
  induction fuel as [|f IH]; intros c H; simpl; [reflexivity|].
  rewrite (ct_no_clash c H). simpl. pose proof (ct_step c H) as S.
  destruct (cstep p c); simpl in S; auto.
Qed.

Lemma et_entry : forall (ctx : cctx) (zs : list Z) e,
  forallb (fun b => cty_eqb (cbty b) CI64) ctx = true ->
  cbind (cvars ctx) (map (fun z => BP (PInt z)) zs) [] = Some e -> et e (ctx_tenv ctx).
Proof.
  induction ctx as [|b r IH]; intros [|z zs] e HT B; simpl in *; try discriminate.
  - inversion B; subst. constructor.
  - apply andb_true_iff in HT. destruct HT as [H1 H2]. apply cty_eqb_eq in H1.
    destruct (cbind (cvars r) (map (fun z0 => BP (PInt z0)) zs) []) as [e2|] eqn:E2; [|discriminate].
    inversion B; subst. rewrite H1. constructor; [constructor | eapply IH; eauto].
Qed.

Theorem tc_clash_free_prog : tc_entry p = true -> forall fuel args, clash_free_prog fuel p args = true.
Proof.
  intros TE fuel args. unfold clash_free_prog. unfold tc_entry in TE.
  destruct (cpdefs p) as [|d ds] eqn:DP; [reflexivity|].
  destruct (centry_env d args) as [e|] eqn:CE; [|reflexivity].
  apply ct_clash_free. unfold centry_env in CE. destruct (forallb _ (cdctx d)) eqn:CH in CE; [|discriminate].
  econstructor.
  - eapply et_entry; eauto.
  - unfold tc_prog in Hprog. rewrite DP in Hprog. simpl in Hprog. apply andb_true_iff in Hprog. tauto.
Qed.
End Typed.
