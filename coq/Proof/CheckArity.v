(* C15, arity of type applications: a declared type applied to a wrong number of type arguments -
   too few OR too many, at the top of a type or nested inside its arguments - is rejected by the
   CHECKER (Model.Check.check, i.e. Ty::check / TypeArgs::is_instance `args.len() != params.len()`)
   at every site where a type can be written or arises: definition signature, let annotation,
   destructor type arguments, case type arguments, the type a constructor / `new` is checked
   against, and (since fix eb42971) the types written inside data/codata declarations
   ([arity_decl_field]; the checker before that fix did not: [old_arity_decl_field_refuted]).
   All checker-level statements rest on Ty::check being sound for the specification's [wf_ty],
   whose arity test is Nat.eqb: they fail to prove if the model's test is weakened to "fewer". *)
From Coq Require Import List ZArith String Bool Permutation Lia.
From SCC Require Import Base.Sexp Lang.SynUtil Lang.FunSyn Model.Check Sem.FunTyping Sem.FunClosed
  Proof.FunInd Proof.FunEq Proof.CheckAnn Proof.TypingReject Proof.CheckBuild Proof.CheckMono Proof.CheckMonoSound
  Proof.CheckMonoProg Proof.CheckWitness Proof.PrintInj Proof.CheckPoly Proof.CheckInstBase Proof.CheckPolySound Proof.CheckPolyProg Proof.CheckDecls.
Import ListNotations.
Open Scope list_scope.

(* ---------- a wrong number of type arguments somewhere inside a type ---------- *)
Inductive tyocc (s : fty) : fty -> Prop :=
| tyocc_here : tyocc s s
| tyocc_arg : forall n args a, In a args -> tyocc s a -> tyocc s (FDecl n args).
(* t contains the application of a declared type to a wrong number of arguments *)
Definition bad_arity (ts : list tdecl) (t : fty) : Prop :=
  exists n a td, tyocc (FDecl n a) t /\ find_type ts n = Some td /\ List.length a <> List.length (td_params td).
(* the same inside a declaration with parameters ps (an application of a parameter is a different defect) *)
Definition bad_arity_in_decl (ts : list tdecl) (ps : list fname) (t : fty) : Prop :=
  exists n a td, tyocc (FDecl n a) t /\ mem n ps = false /\ find_type ts n = Some td /\ List.length a <> List.length (td_params td).

Lemma bad_arity_not_wf : forall ts t, bad_arity ts t -> wf_ty ts t = false.
Proof.
  intros ts t [n [a [td [Ho [Hf Hl]]]]]. induction Ho as [|m args b Hin Hocc IH].
  - simpl. rewrite Hf. apply PeanoNat.Nat.eqb_neq in Hl. rewrite Hl. reflexivity.
  - simpl. destruct (find_type ts m); [|reflexivity]. apply andb_false_any. right.
    eapply forallb_false_in; eassumption.
Qed.
Lemma bad_arity_not_wf_tty : forall ts ps t, bad_arity_in_decl ts ps t -> wf_tty ts ps t = false.
Proof.
  intros ts ps t [n [a [td [Ho [Hm [Hf Hl]]]]]]. induction Ho as [|m args b Hin Hocc IH].
  - simpl. rewrite Hm, Hf. apply PeanoNat.Nat.eqb_neq in Hl. rewrite Hl. reflexivity.
  - simpl. destruct (mem m ps).
    + destruct args; [destruct Hin|reflexivity].
    + destruct (find_type ts m); [|reflexivity]. apply andb_false_any. right.
      eapply forallb_false_in; eassumption.
Qed.

(* ---------- the checker establishes def_ok for every definition (no guard on the declarations) ---------- *)
Lemma check_gen_defs_ok : forall eager p q, prog_names_ok p = true -> check_gen eager p = COk q ->
  forallb (def_ok (tdecls (fpdecls p)) (fdefs (fpdecls p))) (fdefs (fpdecls p)) = true.
Proof.
  intros eager p q Hm H. unfold check_gen in H.
  apply cbind_ok in H. destruct H as [st [Hb H]].
  destruct (build_symbol_table_spec p st Hb) as [Tb [Hn [Ht [Hc [Hd Hps]]]]].
  pose proof (poly_world_of_prog p Hm Hn (fun td Hin => proj1 (Hps td Hin))) as W.
  unfold check_with_table_gen in H.
  apply cbind_ok in H. destruct H as [[] [Hdecls H]].
  apply cbind_ok in H. destruct H as [[defs st1] [Hdefs H]].
  rewrite defs_of_fdefs in Hdefs.
  eapply (check_defs_gen_psound _ _ W); [|exact Tb|apply pinv_start; assumption|exact Hdefs].
  intros d Hin. destruct (PW_defs _ _ W d Hin). splits; auto. eapply names_def_body; eassumption.
Qed.
Lemma not_ok_rejected : forall p, (forall q, check p <> COk q) -> exists e, check p = CErr e.
Proof. intros p H. destruct (check p) as [q|e] eqn:E; [exfalso; eapply H; reflexivity|eauto]. Qed.

(* a definition that is not def_ok makes the checker reject *)
Lemma def_not_ok_rejected : forall p d, prog_names_ok p = true -> In d (fdefs (fpdecls p)) ->
  def_ok (tdecls (fpdecls p)) (fdefs (fpdecls p)) d = false -> exists e, check p = CErr e.
Proof.
  intros p d Hm Hin Hf. apply not_ok_rejected. intros q Hq.
  pose proof (check_gen_defs_ok true p q Hm Hq) as H. rewrite forallb_forall in H.
  rewrite (H d Hin) in Hf. discriminate.
Qed.
(* a site (sub-term anywhere in a body) that is ill-typed in every environment at every type *)
Lemma site_rejected : forall p d s, prog_names_ok p = true -> In d (fdefs (fpdecls p)) ->
  occurs s (fdbody d) -> is_var s = false ->
  (forall G T, chk (tdecls (fpdecls p)) (fdefs (fpdecls p)) G s T = false) -> exists e, check p = CErr e.
Proof.
  intros p d s Hm Hin Hocc Hv Hs. eapply def_not_ok_rejected; [eassumption|eassumption|].
  unfold def_ok. rewrite (chk_occurs_false _ _ s Hv Hs _ Hocc). apply andb_false_r.
Qed.

(* ---------- site: definition signature ---------- *)
Theorem arity_def_signature : forall p d t, prog_names_ok p = true -> In d (fdefs (fpdecls p)) ->
  In t (fdret d :: map fbty (fdctx d)) -> bad_arity (tdecls (fpdecls p)) t -> exists e, check p = CErr e.
Proof.
  intros p d t Hm Hin Ht Hbad. eapply def_not_ok_rejected; [eassumption|eassumption|].
  apply bad_arity_not_wf in Hbad. unfold def_ok. destruct Ht as [<-|Ht].
  - rewrite Hbad. rewrite andb_false_r. reflexivity.
  - apply in_map_iff in Ht. destruct Ht as [b [<- Hb]].
    rewrite (forallb_false_in (fun b => wf_ty (tdecls (fpdecls p)) (fbty b)) _ b Hb Hbad).
    rewrite andb_false_r. reflexivity.
Qed.

(* ---------- site: let annotation ---------- *)
Theorem arity_let_annotation : forall p d x vty a b r, prog_names_ok p = true -> In d (fdefs (fpdecls p)) ->
  occurs (FLet x vty a b r) (fdbody d) -> bad_arity (tdecls (fpdecls p)) vty -> exists e, check p = CErr e.
Proof.
  intros p d x vty a b r Hm Hin Hocc Hbad. eapply site_rejected; try eassumption; [reflexivity|].
  intros G T. simpl. rewrite (bad_arity_not_wf _ _ Hbad). reflexivity.
Qed.

(* ---------- site: type arguments of a destructor call ---------- *)
Theorem arity_destructor : forall p d s k targs args r, prog_names_ok p = true -> In d (fdefs (fpdecls p)) ->
  occurs (FDtor s k targs args r) (fdbody d) ->
  (forall td sg, In td (tdecls (fpdecls p)) -> find_xsig td k = Some sg -> List.length targs <> List.length (td_params td))
  \/ (exists t, In t targs /\ bad_arity (tdecls (fpdecls p)) t) ->
  exists e, check p = CErr e.
Proof.
  intros p d s k targs args r Hm Hin Hocc [Hc|[t [Ht Hbad]]].
  - eapply site_rejected; try eassumption; [reflexivity|]. apply dtor_type_arg_count. exact Hc.
  - eapply site_rejected; try eassumption; [reflexivity|]. intros G T. simpl.
    destruct (find_xtor (tdecls (fpdecls p)) FCodata k) as [[td sg]|]; [|reflexivity].
    rewrite (forallb_false_in _ _ t Ht (bad_arity_not_wf _ _ Hbad)). rewrite andb_false_r. reflexivity.
Qed.

(* ---------- site: type arguments of a case ---------- *)
Theorem arity_case : forall p d s targs c0 cls r, prog_names_ok p = true -> In d (fdefs (fpdecls p)) ->
  occurs (FCase s targs (c0 :: cls) r) (fdbody d) ->
  (forall td sg, In td (tdecls (fpdecls p)) -> find_xsig td (clause_xtor c0) = Some sg -> List.length targs <> List.length (td_params td))
  \/ (exists t, In t targs /\ bad_arity (tdecls (fpdecls p)) t) ->
  exists e, check p = CErr e.
Proof.
  intros p d s targs c0 cls r Hm Hin Hocc [Hc|[t [Ht Hbad]]].
  - eapply site_rejected; try eassumption; [reflexivity|]. apply case_type_arg_count. exact Hc.
  - eapply site_rejected; try eassumption; [reflexivity|]. intros G T. simpl.
    destruct (find_xtor (tdecls (fpdecls p)) FData (clause_xtor c0)) as [[td sg]|]; [|reflexivity].
    rewrite (forallb_false_in _ _ t Ht (bad_arity_not_wf _ _ Hbad)). rewrite andb_false_r. reflexivity.
Qed.

(* ---------- sites: constructor and `new` (the type arguments are those of the expected type) ----------
   in every state the checker can be in ([tables], [pinv]: established by build_symbol_table and
   preserved by every step, Proof/CheckPolySound.v), checking a constructor or a `new` against a
   declared type applied to a wrong number of arguments fails *)
Section Local.
  Variable ts : list tdecl.
  Variable fs : list fdef.
  Hypothesis W : poly_world ts fs.

  Theorem arity_constructor : forall eager st ctx x args r n targs td,
    tables ts fs st -> pinv ts st -> ctx_names_ok ctx = true ->
    term_names_ok (FCtor x args r) = true -> ty_names_ok (FDecl n targs) = true ->
    find_type ts n = Some td -> List.length targs <> List.length (td_params td) ->
    exists e, check_term_gen eager (FCtor x args r) st ctx (FDecl n targs) = CErr e.
  Proof.
    intros eager st ctx x args r n targs td Tb I Hc Hm HT Hf Hl.
    destruct (check_term_gen eager (FCtor x args r) st ctx (FDecl n targs)) as [[t' st']|e] eqn:E; [|eauto].
    exfalso. destruct (check_term_gen_psound ts fs W _ eager st ctx _ t' st' Hm Hc HT Tb I E) as [K _].
    simpl in K. rewrite Hf in K. apply PeanoNat.Nat.eqb_neq in Hl. rewrite Hl in K.
    rewrite andb_false_r in K. discriminate.
  Qed.
  Theorem arity_new : forall eager st ctx cls r n targs td,
    tables ts fs st -> pinv ts st -> ctx_names_ok ctx = true ->
    term_names_ok (FNew cls r) = true -> ty_names_ok (FDecl n targs) = true ->
    find_type ts n = Some td -> List.length targs <> List.length (td_params td) ->
    exists e, check_term_gen eager (FNew cls r) st ctx (FDecl n targs) = CErr e.
  Proof.
    intros eager st ctx cls r n targs td Tb I Hc Hm HT Hf Hl.
    destruct (check_term_gen eager (FNew cls r) st ctx (FDecl n targs)) as [[t' st']|e] eqn:E; [|eauto].
    exfalso. destruct (check_term_gen_psound ts fs W _ eager st ctx _ t' st' Hm Hc HT Tb I E) as [K _].
    simpl in K. rewrite Hf in K. apply PeanoNat.Nat.eqb_neq in Hl. rewrite Hl in K.
    rewrite andb_false_r in K. discriminate.
  Qed.
  (* Ty::check itself, on any type containing a wrong application *)
  Theorem arity_ty_check : forall st t, tables ts fs st -> pinv ts st -> ty_names_ok t = true ->
    bad_arity ts t -> exists e, ty_check t st = CErr e.
  Proof.
    intros st t Tb I Hn Hbad. destruct (ty_check t st) as [st'|e] eqn:E; [|eauto].
    exfalso. destruct (ty_check_sound ts fs W t st st' Hn Tb I E) as [Hw _].
    rewrite (bad_arity_not_wf _ _ Hbad) in Hw. discriminate.
  Qed.
End Local.

(* ---------- site: the types written in data / codata declarations ---------- *)
(* the specification rejects, for all programs ... *)
Theorem reject_wrong_type_argument_count_decl_field : forall p td s t,
  In td (tdecls (fpdecls p)) -> In s (td_xtors td) ->
  (In t (map fbty (xs_args s)) \/ xs_ret s = Some t) ->
  bad_arity_in_decl (tdecls (fpdecls p)) (td_params td) t -> has_type_b p = false.
Proof.
  intros p td s t Htd Hs Ht Hbad. apply bad_arity_not_wf_tty in Hbad.
  unfold has_type_b. apply andb_false_any. left. apply andb_false_any. right.
  unfold decls_ok. eapply forallb_false_in; [exact Htd|]. unfold tdecl_ok. apply andb_false_any. right.
  eapply forallb_false_in; [exact Hs|]. unfold xsig_ok. destruct Ht as [Ht|Ht].
  - apply in_map_iff in Ht. destruct Ht as [b [<- Hb]]. apply andb_false_any. left.
    eapply forallb_false_in; [exact Hb|exact Hbad].
  - rewrite Ht, Hbad. apply andb_false_r.
Qed.
(* ... and so does the checker since fix eb42971 (Ty::check_template checks the whole type), for ALL programs ... *)
Theorem arity_decl_field : forall p td s t, In td (tdecls (fpdecls p)) -> In s (td_xtors td) ->
  (In t (map fbty (xs_args s)) \/ xs_ret s = Some t) ->
  bad_arity_in_decl (tdecls (fpdecls p)) (td_params td) t -> exists e, check p = CErr e.
Proof.
  intros p td s t Htd Hs Ht Hbad. apply bad_arity_not_wf_tty in Hbad.
  apply check_gen_rejects_ill_formed_decl. unfold decl_types_wf.
  eapply forallb_false_in; [exact Htd|].
  eapply forallb_false_in; [exact Hs|]. unfold xsig_ok. destruct Ht as [Ht|Ht].
  - apply in_map_iff in Ht. destruct Ht as [b [<- Hb]]. apply andb_false_any. left.
    eapply forallb_false_in; [exact Hb|exact Hbad].
  - rewrite Ht, Hbad. apply andb_false_r.
Qed.
(* ... regression: the checker before that fix did not (witness: data Foo { C(x: List) } with List[A] declared;
   the former known finding C15-lazy-declaration-types) *)
Theorem old_arity_decl_field_refuted :
  ~ (forall p td s t, prog_names_ok p = true -> In td (tdecls (fpdecls p)) -> In s (td_xtors td) ->
       (In t (map fbty (xs_args s)) \/ xs_ret s = Some t) ->
       bad_arity_in_decl (tdecls (fpdecls p)) (td_params td) t -> exists e, old_check_decls p = CErr e).
Proof.
  intro H.
  destruct (H p_decl_type_args
              (mktdecl "Foo" FData [] [mkxsig "C" [mkfb "x" FPrd (FDecl "List" [])] None])
              (mkxsig "C" [mkfb "x" FPrd (FDecl "List" [])] None) (FDecl "List" [])) as [e He].
  - vm_compute. reflexivity.
  - simpl. right. left. reflexivity.
  - simpl. left. reflexivity.
  - left. simpl. left. reflexivity.
  - exists "List"%string, [], (mktdecl "List" FData ["A"%string]
        [mkxsig "Nil" [] None; mkxsig "Cons" [mkfb "x" FPrd (FDecl "A" []); mkfb "xs" FPrd (FDecl "List" [FDecl "A" []])] None]).
    split; [constructor|]. split; [reflexivity|]. split; [reflexivity|]. simpl. discriminate.
  - destruct decl_type_args_accepted_before_fix as [q Hq]. rewrite Hq in He. discriminate.
Qed.

(* ---------- the hypotheses are satisfiable: surplus and missing type arguments at each site ---------- *)
Local Open Scope string_scope.
Definition d_list : fdecl :=
  FDData (mkfdata "List" ["A"] [mkfctor "Nil" []; mkfctor "Cons" [mkfb "x" FPrd (FDecl "A" []); mkfb "xs" FPrd (FDecl "List" [FDecl "A" []])]]).
Definition d_fun : fdecl := FDCodata (mkfcodata "Fun" ["A"; "B"] [mkfdtor "ap" [mkfb "x" FPrd (FDecl "A" [])] (FDecl "B" [])]).
(* def f(l: List[i64, i64]): i64 { 0 }      surplus argument in a signature *)
Definition p_arity_sig : fprog := mkfprog [d_list; FDDef (mkfdef "f" [mkfb "l" FPrd (FDecl "List" [FI64; FI64])] FI64 (FLit 0))].
(* def f(): i64 { let l: List[List] = Nil; 0 }      missing argument, nested *)
Definition p_arity_let : fprog :=
  mkfprog [d_list; FDDef (mkfdef "f" [] FI64 (FLet "l" (FDecl "List" [FDecl "List" []]) (FCtor "Nil" [] None) (FLit 0) None))].
(* def f(g: Fun[i64, i64]): i64 { g.ap[i64, i64, i64](1) }      surplus argument at a destructor *)
Definition p_arity_dtor : fprog :=
  mkfprog [d_fun; FDDef (mkfdef "f" [mkfb "g" FPrd (FDecl "Fun" [FI64; FI64])] FI64
                           (FDtor (FVar "g" None None) "ap" [FI64; FI64; FI64] [FLit 1] None))].
(* def f(l: List[i64]): i64 { l.case[i64, i64] { Nil => 0, Cons(x, xs) => 1 } }      surplus argument at a case *)
Definition p_arity_case : fprog :=
  mkfprog [d_list; FDDef (mkfdef "f" [mkfb "l" FPrd (FDecl "List" [FI64])] FI64
                            (FCase (FVar "l" None None) [FI64; FI64]
                               [FClause FData "Nil" [] [] (FLit 0); FClause FData "Cons" ["x"; "xs"] [] (FLit 1)] None))].
Lemma arity_examples :
  check p_arity_sig = CErr EWrongNumberOfTypeArguments /\ check p_arity_let = CErr EWrongNumberOfTypeArguments
  /\ check p_arity_dtor = CErr EWrongNumberOfTypeArguments /\ check p_arity_case = CErr EWrongNumberOfTypeArguments
  /\ prog_names_ok p_arity_sig = true /\ prog_names_ok p_arity_let = true
  /\ prog_names_ok p_arity_dtor = true /\ prog_names_ok p_arity_case = true.
Proof. repeat split; vm_compute; reflexivity. Qed.
Lemma bad_arity_example_surplus : bad_arity (tdecls (fpdecls p_arity_sig)) (FDecl "List" [FI64; FI64]).
Proof.
  eexists "List", [FI64; FI64], _. split; [constructor|]. split; [reflexivity|]. simpl. discriminate.
Qed.
Lemma bad_arity_example_nested_missing : bad_arity (tdecls (fpdecls p_arity_let)) (FDecl "List" [FDecl "List" []]).
Proof.
  eexists "List", [], _. split; [eapply tyocc_arg; [left; reflexivity|constructor]|]. split; [reflexivity|]. simpl. discriminate.
Qed.
