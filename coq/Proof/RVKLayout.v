(* C08, heap statements, all statement forms: the dispatch layout WITHOUT the hypothesis that every clause code contains
   an instruction of non-zero size (Proof/RVHLayout.dispatch_layout needs it for every clause; it fails for a clause whose
   code consists of labels only: an empty Switch - a match on a data type without constructors - behind an empty load).
     rcs_nonempty         every statement emits at least one item (a label at least);
     dispatch_layout_nz   as dispatch_layout; the LANDING of the indirect jump (index_at of the address, runs from the clause
                          code = runs from the landing point) is delivered for table entries always and for the single
                          clause of a table-less dispatch IF its code contains an instruction of non-zero size; in addition
                          where the clause code sits in the code of the clauses.
   The program-level induction (Proof/RVKSimProg.v) shows that the code of a statement the machine EXECUTES always contains
   such an instruction, so the condition is met whenever a closure is invoked. *)
From Coq Require Import List ZArith NArith String Bool Lia FMapPositive.
From SCC Require Import Base.Sexp Lang.AxSyn Sem.AxSem Model.ParMoves Model.Backend Model.RV Sem.RVSem Sem.RVWf
     Model.Linearize Model.LinCheck Generated.Constants Proof.LinBasics
     Proof.RVSel Proof.SubstGraph Proof.SubstBackends Proof.RVSubst Proof.RVSimAddr Proof.BackendInv Proof.RVSimRel Proof.RVSimStmt
     Proof.RVSimClo Proof.RVHLayout.
Import ListNotations.
Open Scope Z_scope.
Open Scope list_scope.

Lemma rcs_nonempty types : forall s c lc code lc', rcs types s c lc = Ok (code, lc') -> code <> [].
Proof.
  intros s. induction s using stmt_ind2; intros c lc code lc' CS.
  - destruct (cs_substitute _ _ _ _ _ _ _ _ CS) as (c1 & lc1 & c2 & c3 & _ & _ & NX & ->).
    cbn [b_mark rv_backend app]. intros E. apply app_eq_nil in E as [_ E]. apply app_eq_nil in E as [_ E]. exact (IHs _ _ _ _ NX E).
  - destruct (cs_call _ _ _ _ _ _ _ _ CS) as (-> & _). discriminate.
  - destruct (cs_let _ _ _ _ _ _ _ _ _ _ CS) as (d & k & rest & arguments & c1 & lc1 & tmpv & c3 & _ & _ & _ & _ & _ & _ & ->).
    intros E. apply app_eq_nil in E as [_ E]. discriminate.
  - destruct (cs_switch _ _ _ _ _ _ _ _ CS) as (c1 & c3 & _ & _ & ->). intros E. apply app_eq_nil in E as [_ E]. discriminate.
  - destruct env as [env|]; [|cbn [code_statement] in CS; discriminate].
    destruct (cs_create _ _ _ _ _ _ _ _ _ _ _ CS) as (rest & cenv & c1 & lc1 & tmpv & c3 & lc3 & c5 & _ & _ & _ & _ & _ & ->).
    cbn [b_mark b_load_label rv_backend app r_load_label]. intros E. apply app_eq_nil in E as [_ E]. discriminate.
  - destruct (cs_invoke _ _ _ _ _ _ _ _ _ _ CS) as (tmpv & d & _ & _ & _ & CD).
    destruct (Nat.leb (List.length (txtors d)) 1); [subst code; discriminate|destruct CD as (k & _ & ->)].
    intros E. apply app_eq_nil in E as [_ E]. cbv [b_add_and_jump rv_backend r_add_and_jump] in E.
    apply app_eq_nil in E as [_ E]. discriminate.
  - destruct (cs_literal _ _ _ _ _ _ _ _ _ CS) as (tv & c2 & _ & _ & ->). discriminate.
  - destruct (cs_op _ _ _ _ _ _ _ _ _ _ _ CS) as (tv & ta & tb & c2 & _ & _ & _ & _ & ->). destruct o; discriminate.
  - destruct (cs_print rv_backend _ _ _ _ _ _ _ _ CS) as (tv & c2 & _ & NX & ->). cbn [b_mark b_print rv_backend app]. exact (IHs _ _ _ _ NX).
  - destruct (cs_ifc _ _ _ _ _ _ _ _ _ _ _ CS) as (ta & c1 & c2 & lc2 & c3 & _ & C1 & _ & _ & ->).
    destruct b as [b|]; [destruct C1 as (tb & _ & ->)|subst c1]; destruct so; discriminate.
  - destruct (cs_exit _ _ _ _ _ _ _ CS) as (tv & _ & -> & _). discriminate.
Qed.

Section Layout.
Variable im : image.
Variable stop : positive.
Hypothesis IMG : rimg_ok im.
Hypothesis FWD : fwd_ok im.
Hypothesis STOPC : exists l, PM.find stop (code im) = Some (LAB l).
Hypothesis ENDC : PM.find (Pos.succ stop) (code im) = None.

(* the label, the table and the clauses: where clause k is, and how the address of the label leads there *)
Lemma dispatch_layout_nz types ld bc pcl fresh cls c5 lc3 lc5 a :
  placed im pcl (([LAB fresh] ++ table_or_nil rv_backend cls fresh) ++ c5) ->
  gclauses types ld bc fresh cls lc3 = Ok (c5, lc5) ->
  PM.find pcl (addr_of im) = Some a ->
  forall k c, nth_error cls k = Some c ->
    exists pcc lcl cl lcb cb lcb',
      (exists pre5 post5, c5 = pre5 ++ (cl ++ cb) ++ post5) /\
      (Nat.leb (List.length cls) 1 = true -> forall s, star im pcl s pcc s) /\
      ld (cl_ctx c) lcl = Ok (cl, lcb) /\ rcs types (cl_body c) (bc (cl_ctx c)) lcb = Ok (cb, lcb') /\
      placed im pcc (cl ++ cb) /\
      (has_nz (cl ++ cb) \/ Nat.leb (List.length cls) 1 = false ->
       exists i, PM.find (key (a + (if Nat.leb (List.length cls) 1 then 0 else jump_length (N.of_nat k)))) (index_at im) = Some i /\
                 (forall s o, rfin im stop pcc s o -> rfin im stop i s o)).
Proof.
  intros [CA LA] CC AL k c Hk.
  rewrite <- !app_assoc in CA, LA.
  pose proof (nth_error_In _ _ Hk) as Hin.
  destruct c as [[x cx] body].
  destruct (gclauses_nth types ld bc fresh _ _ _ _ k x cx body CC Hk) as (pre5 & lc0 & cl & lc1 & cb & lc2 & post5 & E5 & LD & BD & PRE0).
  pose proof (rcs_nonempty types _ _ _ _ _ BD) as NEcb.
  cbn [cl_ctx cl_body fst snd] in *.
  assert (Lk : (k < List.length cls)%nat) by (apply nth_error_Some; congruence).
  set (tb := table_or_nil rv_backend cls fresh) in *.
  set (lx := fresh +++ "_" +++ show_ident x) in *.
  set (full := [LAB fresh] ++ tb ++ pre5 ++ [LAB lx] ++ (cl ++ cb) ++ post5).
  assert (CODE : at_code im pcl full).
  { unfold full. rewrite E5 in CA. repeat rewrite <- app_assoc in CA. repeat rewrite <- app_assoc. cbn [app] in *. exact CA. }
  assert (LABS : labels_ok im pcl full).
  { unfold full. rewrite E5 in LA. repeat rewrite <- app_assoc in LA. repeat rewrite <- app_assoc. cbn [app] in *. exact LA. }
  set (jl := (1 + List.length tb + List.length pre5)%nat).
  assert (NL : nth_error full jl = Some (LAB lx)).
  { unfold full, jl. cbn [app Nat.add nth_error]. rewrite nth_error_app2 by lia. rewrite nth_error_app2 by lia.
    replace (_ - _ - _)%nat with O by lia. reflexivity. }
  destruct (CODE jl _ NL) as (CLx & (alx & ALx)).
  pose proof (LABS jl _ NL) as FLx.
  assert (CB : placed im (padd pcl (S jl)) (cl ++ cb)).
  { assert (PLc : placed im pcl (([LAB fresh] ++ tb ++ pre5 ++ [LAB lx]) ++ (cl ++ cb) ++ post5)).
    { assert (EQ : ([LAB fresh] ++ tb ++ pre5 ++ [LAB lx]) ++ (cl ++ cb) ++ post5 = full) by (unfold full; cbn [app]; rewrite <- !app_assoc; reflexivity).
      rewrite EQ. split; [exact CODE|exact LABS]. }
    apply placed_app in PLc as [_ PLc]. apply placed_app in PLc as [PLc _].
    replace (List.length ([LAB fresh] ++ tb ++ pre5 ++ [LAB lx])) with (S jl) in PLc
      by (unfold jl; rewrite !app_length; cbn [List.length]; lia).
    exact PLc. }
  assert (INTO : forall s, star im (padd pcl jl) s (padd pcl (S jl)) s).
  { intros s. eapply star_step; [eapply one_next; [exact CLx|exact ALx|reflexivity]|]. rewrite <- padd_succ. apply star_refl. }
  assert (NEcc : cl ++ cb <> []) by (intros E; apply app_eq_nil in E as [_ E]; contradiction).
  assert (CS : exists c0, PM.find (padd pcl (S jl)) (code im) = Some c0).
  { destruct (cl ++ cb) as [|c0 r0] eqn:Ecb; [contradiction|]. exists c0. apply (proj1 (proj1 CB O c0 eq_refl)). }
  assert (E5' : exists pre5' post5', c5 = pre5' ++ (cl ++ cb) ++ post5').
  { exists (pre5 ++ [LAB lx]), post5. rewrite E5. rewrite <- !app_assoc. reflexivity. }
  destruct (Nat.leb (List.length cls) 1) eqn:LE.
  - (* at most one clause: the label of the dispatch is followed by the label of the clause, then the clause code;
       the jump lands behind the labels at the head of the clause code *)
    assert (TB : tb = []) by (unfold tb, table_or_nil; now rewrite LE).
    assert (K0 : k = O) by (apply Nat.leb_le in LE; lia). subst k.
    assert (P5 : pre5 = []) by (apply PRE0; reflexivity).
    assert (J1 : jl = 1%nat) by (unfold jl; rewrite TB, P5; reflexivity).
    assert (DOWN : forall s, star im pcl s (padd pcl (S jl)) s).
    { intros s. destruct (CODE O (LAB fresh) eq_refl) as (C0 & (a0 & A0)).
      eapply star_step; [eapply one_next; [exact C0|exact A0|reflexivity]|].
      specialize (INTO s). rewrite J1 in INTO |- *. cbn [padd] in INTO |- *. exact INTO. }
    exists (padd pcl 2), lc0, cl, lc1, cb, lc2.
    split; [exact E5'|]. split; [intros _; rewrite J1 in DOWN; exact DOWN|]. split; [exact LD|]. split; [exact BD|].
    split; [rewrite J1 in CB; exact CB|].
    intros [NZ|C]; [|discriminate]. destruct NZ as (dz & cz & Hz & NZz).
    destruct CS as (c0 & CS).
    assert (N2 : nth_error full 2 = Some c0).
    { unfold full. rewrite TB, P5. cbn [app nth_error]. rewrite J1 in CS. cbn [padd] in CS.
      destruct (cl ++ cb) as [|c0' r0] eqn:Ecb; [destruct dz; discriminate|].
      pose proof (proj1 (proj1 CB O c0' eq_refl)) as X. rewrite J1 in X. cbn [padd] in X. cbn [app nth_error]. congruence. }
    pose proof (addr_along im IMG full pcl a CODE AL 2%nat c0 N2) as A2.
    assert (SZ2 : size_of (firstn 2 full) = 0) by (unfold full; rewrite TB, P5; reflexivity).
    rewrite SZ2, Z.add_0_r in A2. rewrite J1 in *. cbn [padd] in A2.
    destruct (FWD _ c0 a CS A2) as (i1 & IX1 & C1 & F1).
    { exists dz, cz. split; [|exact NZz]. rewrite <- padd_add. apply (proj1 (proj1 CB dz cz Hz)). }
    exists i1. split; [rewrite Z.add_0_r; exact IX1|]. intros s o Fin. exact (rfin_star_inv im stop STOPC ENDC _ _ _ _ o (F1 s) C1 Fin).
  - (* the jump table: entry k is a 4-byte JAL to the label of clause k *)
    assert (TB : tb = code_table rv_backend cls fresh) by (unfold tb, table_or_nil; now rewrite LE).
    assert (CODE' : at_code im pcl ([LAB fresh] ++ code_table rv_backend cls fresh ++ (pre5 ++ [LAB lx] ++ (cl ++ cb) ++ post5))).
    { unfold full in CODE. rewrite TB in CODE. exact CODE. }
    destruct (table_entry_k im IMG pcl fresh cls _ a CODE' AL k Lk) as [TE1 TE2].
    assert (NJ : nth_error full (1 + k) = Some (JAL ZERO lx)).
    { unfold full. rewrite TB. cbn [app Nat.add nth_error]. rewrite nth_error_app1 by (rewrite code_table_length; lia).
      apply (code_table_nth cls fresh k (x, cx, body) Hk). }
    destruct (CODE _ _ NJ) as (CJ & (aj & AJ)).
    assert (FROM : forall s, star im (padd pcl (1 + k)) s (padd pcl (S jl)) s).
    { intros s. eapply star_step; [eapply one_jump; [exact CJ|exact AJ|]|apply INTO].
      cbn [step]. unfold goto_label. rewrite FLx. reflexivity. }
    exists (padd pcl (S jl)), lc0, cl, lc1, cb, lc2.
    split; [exact E5'|]. split; [discriminate|]. split; [exact LD|]. split; [exact BD|]. split; [exact CB|].
    intros _. exists (padd pcl (1 + k)). split; [unfold jump_length; rewrite nat_N_Z; exact TE1|].
    intros s o Fin. exact (star_rfin im stop STOPC ENDC _ _ _ _ o (FROM s) Fin).
Qed.
End Layout.
