(* The two reference-count operations of axcut2aarch64/src/memory.rs (share_block_n, erase_block) on
   the ISA semantics: the code the model emits, sitting in an image with its labels, runs from its
   first to just past its last instruction and has the pure heap-level effect share_h / erase_h of
   Proof/A64Exec.v.  Port of Proof/X86MemSubst.v; here the header is updated by LDR/ADD|SUB/STR
   through X3 (TEMP2), a spilled pointer is first loaded into X2 (TEMP), and the tests are
   CMP #0 / B.EQ. *)
From Coq Require Import List ZArith NArith String Bool Lia FMapPositive.
From SCC Require Import Base.Sexp Lang.AxSyn Sem.AxSem Model.Backend Model.A64 Sem.A64Sem Generated.Constants
     Proof.A64State Proof.A64ImmHw Proof.A64Imm Proof.A64Sel Proof.A64Exec.
Import ListNotations.
Open Scope Z_scope.

Lemma block_ok_range p : block_ok p -> 0 < p /\ min_int <= p <= max_int.
Proof.
  intros (_ & H). unfold in_heap, HEAP_BASE, HEAP_SIZE in H. apply andb_true_iff in H as [H1 H2].
  apply Z.leb_le in H1, H2. unfold min_int, max_int, two63. lia.
Qed.
Lemma block_ok_nz p : block_ok p -> (p =? 0) = false /\ (wrap p =? 0) = false.
Proof.
  intros B. destruct (block_ok_range p B) as [P R]. rewrite (wrap_in64 p R).
  split; apply Z.eqb_neq; lia.
Qed.

Lemma rget_set_heap s a v r : rget (set_heap s a v) r = rget s r. Proof. destruct r; reflexivity. Qed.

Section HeapSteps.
Variable im : image.

Lemma step_CMPI0 s a x : rget s a = Some x -> step im (CMPI a 0) s = Next (set_flags s (Some (cmp_flags x 0))).
Proof. intros H. cbn [step]. unfold need. now rewrite H. Qed.
Lemma fZ_cmp0 x : fZ (cmp_flags x 0) = (wrap x =? 0).
Proof. unfold cmp_flags. cbn [fZ]. now rewrite Z.sub_0_r. Qed.
Lemma step_BEQ_taken s l f i :
  flags s = Some f -> fZ f = true -> find_label (labels im) l = Some i -> step im (BEQ l) s = Jump s i.
Proof. intros H Zf L. cbn [step]. unfold cond_jump, goto_label. rewrite H. cbn [cond_holds]. now rewrite Zf, L. Qed.
Lemma step_BEQ_not s l f : flags s = Some f -> fZ f = false -> step im (BEQ l) s = Next s.
Proof. intros H Zf. cbn [step]. unfold cond_jump. rewrite H. cbn [cond_holds]. now rewrite Zf. Qed.
Lemma step_B s l i : find_label (labels im) l = Some i -> step im (B l) s = Jump s i.
Proof. intros L. cbn [step]. unfold goto_label. now rewrite L. Qed.
Lemma step_LDR_heap s d r p :
  rget s (X r) = Some p -> block_ok p -> step im (LDR d (X r) 0) s = Next (rset s d (Some (hget (heap s) p))).
Proof.
  intros H B. cbn [step]. unfold ea, need. rewrite H, Z.add_0_r. unfold withm. rewrite mload_heap by exact B. reflexivity.
Qed.
Lemma step_STR_heap s a r p v :
  rget s (X r) = Some p -> block_ok p -> rget s a = Some v -> step im (STR a (X r) 0) s = Next (set_heap s p v).
Proof.
  intros H B A. cbn [step]. unfold ea, need. rewrite H, Z.add_0_r. unfold withm. rewrite A, mstore_heap by exact B. reflexivity.
Qed.
Lemma step_ADDI_reg s d a x i : rget s a = Some x -> step im (ADDI d a i) s = Next (rset s d (Some (wrap (x + i)))).
Proof. intros H. cbn [step]. unfold arith_imm, need. now rewrite H. Qed.
Lemma step_SUBI_reg s d a x i : rget s a = Some x -> step im (SUBI d a i) s = Next (rset s d (Some (wrap (x - i)))).
Proof. intros H. cbn [step]. unfold arith_imm, need. now rewrite H. Qed.

(* ---------- skip_if_zero ---------- *)
Lemma skip_if_zero_len c body lc : List.length (fst (skip_if_zero c body lc)) = S (S (S (List.length body))).
Proof. unfold skip_if_zero. cbn [fst app List.length]. rewrite app_length. cbn [List.length]. lia. Qed.

Lemma skip_if_zero_frame pc c body lc :
  code_at im pc (fst (skip_if_zero c body lc)) -> labels_at im pc (fst (skip_if_zero c body lc)) ->
  exists l,
    PM.find pc (code im) = Some (CMPI c 0) /\
    PM.find (Pos.succ pc) (code im) = Some (BEQ l) /\
    PM.find (padd pc (2 + List.length body)) (code im) = Some (LAB l) /\
    find_label (labels im) l = Some (padd pc (2 + List.length body)) /\
    code_at im (padd pc 2) body /\ labels_at im (padd pc 2) body.
Proof.
  unfold skip_if_zero. cbn [fst]. set (l := lab (lc + 1)). intros C L. exists l.
  change ([CMPI c 0; BEQ l] ++ body ++ [LAB l])%list with (([CMPI c 0; BEQ l] ++ body) ++ [LAB l])%list in *.
  apply code_at_app in C as [C CL]. apply labels_at_app in L as [L LL].
  apply code_at_app in C as [C0 CB]. apply labels_at_app in L as [_ LB].
  rewrite app_length in CL, LL. cbn [List.length] in *.
  split; [apply (C0 0%nat); reflexivity|]. split; [apply (C0 1%nat); reflexivity|].
  split; [apply (CL 0%nat); reflexivity|]. split; [apply (LL 0%nat); reflexivity|]. split; assumption.
Qed.

Lemma skip_if_zero_zero pc s c body lc :
  let code := fst (skip_if_zero c body lc) in
  code_at im pc code -> labels_at im pc code -> rget s c = Some 0 ->
  exec_to im pc s (padd pc (List.length code)) (set_flags s (Some (cmp_flags 0 0))).
Proof.
  intros code C L A. subst code. destruct (skip_if_zero_frame pc c body lc C L) as (l & C0 & C1 & C2 & LL & _ & _).
  rewrite skip_if_zero_len.
  eapply exec_next; [exact C0 | apply step_CMPI0; exact A |].
  eapply exec_jump; [exact C1 | eapply step_BEQ_taken; [reflexivity|reflexivity|exact LL] |].
  eapply exec_next; [exact C2 | reflexivity |].
  rewrite <- padd_succ. apply exec_refl.
Qed.

Lemma skip_if_zero_nz pc s c body lc a s2 :
  let code := fst (skip_if_zero c body lc) in
  code_at im pc code -> labels_at im pc code -> rget s c = Some a -> (wrap a =? 0) = false ->
  exec_to im (padd pc 2) (set_flags s (Some (cmp_flags a 0))) (padd pc (2 + List.length body)) s2 ->
  exec_to im pc s (padd pc (List.length code)) s2.
Proof.
  intros code C L A NZ EB. subst code. destruct (skip_if_zero_frame pc c body lc C L) as (l & C0 & C1 & C2 & LL & _ & _).
  rewrite skip_if_zero_len.
  eapply exec_next; [exact C0 | apply step_CMPI0; exact A |].
  eapply exec_next; [exact C1 | eapply step_BEQ_not; [reflexivity|rewrite fZ_cmp0; exact NZ] |].
  eapply exec_to_trans; [exact EB|].
  eapply exec_next; [exact C2 | reflexivity |].
  rewrite <- padd_succ. apply exec_refl.
Qed.

(* ---------- share: the pointer is a valid block held in register X r (r <> 3) ---------- *)
Lemma share_code_exec pc s r n p :
  code_at im pc (share_code (X r) n) -> r <> 3%N ->
  rget s (X r) = Some p -> block_ok p ->
  exists s', exec_to im pc s (padd pc 3) s' /\
             heap s' = PM.add (key p) (wrap (hget (heap s) p + Z.of_N n)) (heap s) /\
             (forall r', r' <> TEMP2 -> rget s' r' = rget s r') /\
             stack s' = stack s /\ out s' = out s /\ spv s' = spv s.
Proof.
  intros C N3 R B. unfold share_code in C. change REFERENCE_COUNT_OFFSET with 0 in C. change TEMP2 with (X 3) in *.
  pose proof (C 0%nat _ eq_refl) as C0. pose proof (C 1%nat _ eq_refl) as C1. pose proof (C 2%nat _ eq_refl) as C2.
  cbn [padd] in *.
  eexists. split.
  { eapply exec_next; [exact C0 | apply (step_LDR_heap s (X 3) r p R B) |].
    eapply exec_next; [exact C1 | apply step_ADDI_reg; apply rget_rset_same; exact I |].
    eapply exec_next; [exact C2 | eapply (step_STR_heap _ (X 3) r p); [|exact B|apply rget_rset_same; exact I] |].
    { rewrite !rget_rset_other by congruence. exact R. }
    apply exec_refl. }
  split; [reflexivity|]. split; [|repeat split; reflexivity].
  intros r' N. rewrite rget_set_heap, !rget_rset_other by congruence. reflexivity.
Qed.

(* ---------- erase_valid_object: the pointer is a valid block held in X r, its header in X3 ---------- *)
Lemma erase_valid_exec pc s r lc p c f :
  let code := fst (erase_valid_object (X r) lc) in
  code_at im pc code -> labels_at im pc code ->
  r <> 3%N -> r <> 1%N ->
  rget s (X r) = Some p -> block_ok p -> rget s TEMP2 = Some c -> c = hget (heap s) p -> rget s FREE = Some f ->
  exists s' f', exec_to im pc s (padd pc (List.length code)) s' /\
                rget s' FREE = Some f' /\
                (heap s', f') = erase_h p (heap s, f) /\
                (forall r', r' <> FREE -> r' <> TEMP2 -> rget s' r' = rget s r') /\
                stack s' = stack s /\ out s' = out s /\ spv s' = spv s.
Proof.
  intros code C L N3 N1 R B T2 Ec Fr. subst code.
  unfold erase_valid_object, if_zero_then_else in *. cbn [fst app] in *.
  change REFERENCE_COUNT_OFFSET with 0 in *. change NEXT_ELEMENT_OFFSET with 0 in *.
  change TEMP2 with (X 3) in *. change FREE with (X 1) in *.
  pose proof (C 0%nat _ eq_refl) as C0. pose proof (C 1%nat _ eq_refl) as C1.
  pose proof (C 2%nat _ eq_refl) as C2. pose proof (C 3%nat _ eq_refl) as C3.
  pose proof (C 4%nat _ eq_refl) as C4. pose proof (C 5%nat _ eq_refl) as C5.
  pose proof (C 6%nat _ eq_refl) as C6. pose proof (C 7%nat _ eq_refl) as C7.
  pose proof (C 8%nat _ eq_refl) as C8.
  pose proof (L 5%nat _ eq_refl) as L1. pose proof (L 8%nat _ eq_refl) as L2.
  clear C L. cbn [padd List.length] in *.
  unfold erase_h. cbn [fst snd]. rewrite (proj1 (block_ok_nz p B)). rewrite <- Ec.
  destruct (wrap c =? 0) eqn:E.
  - (* header zero: push on the deferred-free list *)
    eexists. exists p. split.
    { eapply exec_next; [exact C0 | apply step_CMPI0; exact T2 |].
      eapply exec_jump; [exact C1 | eapply step_BEQ_taken; [reflexivity|rewrite fZ_cmp0; exact E|exact L1] |].
      eapply exec_next; [exact C5 | reflexivity |].
      eapply exec_next; [exact C6 | eapply (step_STR_heap _ (X 1) r p); [|exact B|] |].
      { rewrite rget_set_flags. exact R. } { rewrite rget_set_flags. exact Fr. }
      eapply exec_next; [exact C7 | reflexivity |].
      eapply exec_next; [exact C8 | reflexivity |].
      apply exec_refl. }
    split; [rewrite rget_rset_same by exact I; rewrite rget_set_heap, rget_set_flags; exact R|].
    split; [reflexivity|].
    split; [intros r' NF NT; rewrite rget_rset_other by congruence; rewrite rget_set_heap, rget_set_flags; reflexivity|].
    repeat split; reflexivity.
  - (* header non-zero: decrement *)
    eexists. exists f. split.
    { eapply exec_next; [exact C0 | apply step_CMPI0; exact T2 |].
      eapply exec_next; [exact C1 | eapply step_BEQ_not; [reflexivity|rewrite fZ_cmp0; exact E] |].
      eapply exec_next; [exact C2 | apply step_SUBI_reg; rewrite rget_set_flags; exact T2 |].
      eapply exec_next; [exact C3 | eapply (step_STR_heap _ (X 3) r p); [|exact B|apply rget_rset_same; exact I] |].
      { rewrite rget_rset_other by congruence. rewrite rget_set_flags. exact R. }
      eapply exec_jump; [exact C4 | apply step_B; exact L2 |].
      eapply exec_next; [exact C8 | reflexivity |].
      apply exec_refl. }
    split; [rewrite rget_set_heap, rget_rset_other by congruence; rewrite rget_set_flags; exact Fr|].
    split; [reflexivity|].
    split; [intros r' NF NT; rewrite rget_set_heap, rget_rset_other by congruence; rewrite rget_set_flags; reflexivity|].
    repeat split; reflexivity.
Qed.
End HeapSteps.

(* ---------- the two operations with the pointer in register X r ---------- *)
Lemma a64_share_reg im pc s r n lc p :
  let code := fst (skip_if_zero (X r) (share_code (X r) n) lc) in
  code_at im pc code -> labels_at im pc code -> r <> 3%N ->
  rget s (X r) = Some p -> (p = 0 \/ block_ok p) ->
  exists s', exec_to im pc s (padd pc (List.length code)) s' /\
             heap s' = fst (share_h p (Z.of_N n) (heap s, 0)) /\
             (forall r', r' <> TEMP2 -> rget s' r' = rget s r') /\
             stack s' = stack s /\ out s' = out s /\ spv s' = spv s.
Proof.
  intros code C L N3 G PB. subst code. unfold share_h. cbn [fst snd].
  destruct (Z.eqb_spec p 0) as [Z|NZ].
  - subst p. exists (set_flags s (Some (cmp_flags 0 0))).
    split; [apply skip_if_zero_zero; auto|]. repeat split; auto.
  - destruct PB as [|B]; [contradiction|].
    destruct (skip_if_zero_frame im pc _ _ _ C L) as (l & _ & _ & _ & _ & Cb & Lb).
    destruct (share_code_exec im (padd pc 2) (set_flags s (Some (cmp_flags p 0))) r n p Cb N3) as (s' & E & H' & R' & S' & O' & P');
      [rewrite rget_set_flags; exact G|exact B|].
    exists s'. split.
    { eapply skip_if_zero_nz; eauto. apply (proj2 (block_ok_nz p B)). }
    split; [exact H'|]. split; [intros r' N; rewrite R' by exact N; apply rget_set_flags|]. repeat split; assumption.
Qed.

Lemma a_erase_block_AR r lc :
  a_erase_block (AR r) lc =
  skip_if_zero r ([LDR TEMP2 r REFERENCE_COUNT_OFFSET] ++ fst (erase_valid_object r lc)) (snd (erase_valid_object r lc)).
Proof. unfold a_erase_block. destruct (erase_valid_object r lc). reflexivity. Qed.

Lemma a64_erase_reg im pc s r lc p f :
  let code := fst (a_erase_block (AR (X r)) lc) in
  code_at im pc code -> labels_at im pc code -> r <> 3%N -> r <> 1%N ->
  rget s (X r) = Some p -> (p = 0 \/ block_ok p) -> rget s FREE = Some f ->
  exists s' f', exec_to im pc s (padd pc (List.length code)) s' /\
             rget s' FREE = Some f' /\
             (heap s', f') = erase_h p (heap s, f) /\
             (forall r', r' <> FREE -> r' <> TEMP2 -> rget s' r' = rget s r') /\
             stack s' = stack s /\ out s' = out s /\ spv s' = spv s.
Proof.
  intros code C L N3 N1 G PB Fr. subst code. rewrite a_erase_block_AR in *.
  destruct (Z.eqb_spec p 0) as [Z|NZ].
  - subst p. exists (set_flags s (Some (cmp_flags 0 0))), f.
    split; [apply skip_if_zero_zero; auto|]. split; [rewrite rget_set_flags; exact Fr|].
    repeat split; auto.
  - destruct PB as [|B]; [contradiction|].
    destruct (skip_if_zero_frame im pc _ _ _ C L) as (l & _ & _ & _ & _ & Cb & Lb).
    apply code_at_cons in Cb as [C0 Cb].
    change (?c :: ?cs)%list with ([c] ++ cs)%list in Lb. apply labels_at_app in Lb as [_ Lb]. cbn [List.length padd] in Lb.
    change REFERENCE_COUNT_OFFSET with 0 in C0. change TEMP2 with (X 3) in C0.
    set (s0 := set_flags s (Some (cmp_flags p 0))).
    set (s1 := rset s0 (X 3) (Some (hget (heap s0) p))).
    destruct (erase_valid_exec im (Pos.succ (padd pc 2)) s1 r lc p (hget (heap s) p) f Cb Lb N3 N1) as (s' & f' & E & F' & H' & R' & S' & O' & P').
    { unfold s1. rewrite rget_rset_other by congruence. unfold s0. rewrite rget_set_flags. exact G. }
    { exact B. } { unfold s1. change TEMP2 with (X 3). apply rget_rset_same. exact I. } { reflexivity. }
    { unfold s1. change FREE with (X 1). rewrite rget_rset_other by congruence. unfold s0. rewrite rget_set_flags. exact Fr. }
    exists s', f'. split.
    { eapply skip_if_zero_nz; eauto; [apply (proj2 (block_ok_nz p B))|].
      eapply exec_next; [exact C0 | apply (step_LDR_heap im s0 (X 3) r p); [unfold s0; rewrite rget_set_flags; exact G|exact B] |].
      cbn [app List.length]. rewrite <- padd_succ in E. cbn [padd]. exact E. }
    split; [exact F'|]. split; [exact H'|].
    split; [intros r' NF NT; rewrite R' by assumption; unfold s1; change TEMP2 with (X 3) in NT; rewrite rget_rset_other by congruence; apply rget_set_flags|].
    repeat split; assumption.
Qed.

(* ---------- the two theorems: the pointer lives in a register or a spill slot ---------- *)
Theorem a64_share_ok im pc s sp t n lc p f :
  let code := fst (a_share_block_n t n lc) in
  code_at im pc code -> labels_at im pc code ->
  frame_ok s sp -> operand_ok t ->
  lget s sp t = Some p -> (p = 0 \/ block_ok p) ->
  exists s', exec_to im pc s (padd pc (List.length code)) s' /\
             (heap s', f) = share_h p (Z.of_N n) (heap s, f) /\
             (forall r, r <> TEMP -> r <> TEMP2 -> rget s' r = rget s r) /\
             stack s' = stack s /\ out s' = out s.
Proof.
  intros code C L F (T & NT & NT2) G PB. subst code.
  assert (SH : forall h, share_h p (Z.of_N n) (h, f) = (fst (share_h p (Z.of_N n) (h, 0)), f)).
  { intros h. unfold share_h. cbn [fst snd]. destruct (p =? 0); reflexivity. }
  rewrite SH.
  destruct t as [[r| |]|q]; cbn [loc_ok gp lget] in *; try tauto.
  - cbn [a_share_block_n] in *.
    destruct (a64_share_reg im pc s r n lc p C L) as (s' & E & H' & R' & S' & O' & _); auto.
    { intros ->. apply NT2. reflexivity. }
    exists s'. split; [exact E|]. split; [now rewrite H'|]. split; [intros; apply R'; assumption|]. split; assumption.
  - cbn [a_share_block_n] in *. destruct (skip_if_zero TEMP (share_code TEMP n) lc) as [c lc1] eqn:SK.
    cbn [fst] in *. apply code_at_cons in C as [C0 C].
    change (?c :: ?cs)%list with ([c] ++ cs)%list in L. apply labels_at_app in L as [_ L]. cbn [List.length padd] in L.
    change TEMP with (X 2) in *.
    set (s1 := rset s (X 2) (Some p)).
    assert (c = fst (skip_if_zero (X 2) (share_code (X 2) n) lc)) as -> by (now rewrite SK).
    destruct (a64_share_reg im (Pos.succ pc) s1 2%N n lc p C L) as (s' & E & H' & R' & S' & O' & _); auto.
    { congruence. } { unfold s1. apply rget_rset_same. exact I. }
    exists s'. split.
    { eapply exec_next; [exact C0 | |exact E]. rewrite (step_LDR_slot im s sp F) by exact T. unfold sget in G. unfold s1.
      f_equal. f_equal. exact G. }
    split; [rewrite H'; reflexivity|].
    split; [intros r N1 N2; rewrite R' by exact N2; unfold s1; apply rget_rset_other; congruence|].
    split; [rewrite S'; reflexivity|rewrite O'; reflexivity].
Qed.

Theorem a64_erase_ok im pc s sp t lc p f :
  let code := fst (a_erase_block t lc) in
  code_at im pc code -> labels_at im pc code ->
  frame_ok s sp -> operand_ok t -> t <> AR FREE ->
  lget s sp t = Some p -> (p = 0 \/ block_ok p) ->
  rget s FREE = Some f ->
  exists s' f', exec_to im pc s (padd pc (List.length code)) s' /\
             rget s' FREE = Some f' /\
             (heap s', f') = erase_h p (heap s, f) /\
             (forall r, r <> TEMP -> r <> TEMP2 -> r <> FREE -> rget s' r = rget s r) /\
             stack s' = stack s /\ out s' = out s.
Proof.
  intros code C L F (T & NT & NT2) NF G PB Fr. subst code.
  destruct t as [[r| |]|q]; cbn [loc_ok gp lget] in *; try tauto.
  - destruct (a64_erase_reg im pc s r lc p f C L) as (s' & f' & E & F' & H' & R' & S' & O' & _); auto.
    { intros ->. apply NT2. reflexivity. } { intros ->. apply NF. reflexivity. }
    exists s', f'. repeat split; auto.
  - unfold a_erase_block in C, L |- *.
    destruct (erase_valid_object TEMP lc) as [ce lc1] eqn:EV.
    destruct (skip_if_zero TEMP ([LDR TEMP2 TEMP REFERENCE_COUNT_OFFSET] ++ ce) lc1) as [c2 lc2] eqn:SK.
    cbn [fst] in *. apply code_at_cons in C as [C0 C].
    change (?c :: ?cs)%list with ([c] ++ cs)%list in L. apply labels_at_app in L as [_ L]. cbn [List.length padd] in L.
    assert (c2 = fst (a_erase_block (AR TEMP) lc)) as ->.
    { unfold a_erase_block. rewrite EV, SK. reflexivity. }
    change TEMP with (X 2) in *.
    set (s1 := rset s (X 2) (Some p)).
    destruct (a64_erase_reg im (Pos.succ pc) s1 2%N lc p f C L) as (s' & f' & E & F' & H' & R' & S' & O' & _); auto.
    { congruence. } { congruence. } { unfold s1. apply rget_rset_same. exact I. }
    { unfold s1. change FREE with (X 1). rewrite rget_rset_other by congruence. exact Fr. }
    exists s', f'. split.
    { eapply exec_next; [exact C0 | |exact E]. rewrite (step_LDR_slot im s sp F) by exact T. unfold sget in G. unfold s1.
      f_equal. f_equal. exact G. }
    split; [exact F'|]. split; [exact H'|].
    split; [intros r N1 N2 N3; rewrite R' by assumption; unfold s1; apply rget_rset_other; congruence|].
    split; [rewrite S'; reflexivity|rewrite O'; reflexivity].
Qed.
