(* Proof/CodegenTotal.v (property C12): the generic code generator Backend.code_statement returns
   Ok on every statement accepted by the ordered linear discipline (LinCheck.lin_check) whose
   contexts stay within the capacity of the back end:  "variable not found in context",
   "Type not found", "Xtor not found", "split_off underflow", "Closure environment must be
   annotated" and the fuel of the parallel-move algorithm are UNREACHABLE; the only failures left
   are the capacity assertions of the back end (Model/Capacity.v).

   Generic part: any back end satisfying [backend_ok] (Proof/SubstGraph.v: its Temporary order is a
   strict total order, its numbering injective) and [capacity_ok P]:
     - temporary_from_position p succeeds for p < P,
     - store / load succeed when the context they work in, plus one fresh variable, fits.
   Instances: x86-64, AArch64, RISC-V (second half of the file). *)
From Coq Require Import List ZArith NArith String Bool Lia.
From SCC Require Import Base.Sexp Lang.AxSyn Model.ParMoves Model.Backend Model.Linearize Model.LinCheck Model.Capacity.
From SCC Require Import Proof.LinBasics Proof.LinTyping Proof.SubstGraph.
Import ListNotations.
Open Scope list_scope.

Definition okr {X} (r : res X) : Prop := exists x, r = Ok x.
Lemma okr_Ok {X} (x : X) : okr (Ok x).
Proof. eexists; reflexivity. Qed.
Lemma okr_bind {X Y} (e : res X) (k : X -> res Y) :
  okr e -> (forall x, e = Ok x -> okr (k x)) -> okr (rbind e k).
Proof. intros [x ->] H. cbn. apply H. reflexivity. Qed.
Ltac okb := apply okr_bind; [|intros ? ?].

(* ---------- list facts ---------- *)
Lemma position_of_lt c : forall id k p, position_of c id k = Some p -> (k <= p < k + N.of_nat (List.length c))%N.
Proof.
  induction c as [|b c IH]; intros id k p H; cbn in H; [discriminate|].
  destruct (N.eqb (idn (bvar b)) id).
  - inversion H; subst. cbn [List.length]. lia.
  - apply IH in H. cbn [List.length]. lia.
Qed.
Lemma position_of_some c : forall id k, In id (ids c) -> exists p, position_of c id k = Some p.
Proof.
  induction c as [|b c IH]; intros id k H; cbn in H; [contradiction|]. cbn [position_of].
  destruct (N.eqb (idn (bvar b)) id) eqn:E; [eauto|].
  destruct H as [H|H]; [apply N.eqb_neq in E; contradiction|]. apply IH; auto.
Qed.
Lemma split_last_lastn n c c0 tl : split_lastn n c = Some (c0, tl) -> split_last n c = Ok (c0, tl).
Proof. unfold split_lastn, split_last. destruct (Nat.leb n (List.length c)); [|discriminate]. intros H; inversion H; reflexivity. Qed.
Lemma split_lastn_parts n c c0 tl :
  split_lastn n c = Some (c0, tl) -> c0 = butlast_n n c /\ tl = last_n n c /\ c = c0 ++ tl /\ List.length tl = n.
Proof.
  intros H. pose proof (split_lastn_Some _ _ _ _ H) as [E L]. unfold split_lastn in H.
  destruct (Nat.leb n (List.length c)); [|discriminate]. inversion H as [[H1 H2]]. clear H.
  unfold butlast_n, last_n. rewrite H1, H2. auto.
Qed.
Lemma removelast_butlast (c : ctx) : removelast c = butlast_n 1 c.
Proof.
  unfold butlast_n. destruct c as [|b c]; [reflexivity|].
  rewrite removelast_firstn_len. f_equal. cbn [List.length]. lia.
Qed.
Lemma In_ids_app_r c (b : binding) : In (idn (bvar b)) (ids (c ++ [b])).
Proof. unfold ids. rewrite map_app. apply in_or_app. right. cbn. auto. Qed.
Lemma In_ids_app_l c c' x : In x (ids c) -> In x (ids (c ++ c')).
Proof. unfold ids. rewrite map_app. intros. apply in_or_app. auto. Qed.
Lemma NoDup_ids_NoDup (c : ctx) : NoDup (ids c) -> NoDup c.
Proof. unfold ids. apply NoDup_map_inv. Qed.

Lemma has_In_ids_ c x k t : has c x k t = true -> In (idn x) (ids c).
Proof.
  unfold has. destruct (lookup_b c (idn x)) as [b|] eqn:E; [|discriminate]. intros _.
  apply lookup_b_Some in E as [HI <-]. unfold ids. apply in_map_iff. eauto.
Qed.

(* ---------- signatures ---------- *)
Lemma args_ok_lookup S t tag args :
  args_ok S t tag args = true ->
  exists d, lookup_type (sg_types S) t = Ok d /\ okr (xtor_position (txtors d) tag 0).
Proof.
  unfold args_ok, lookup_xtor, type_xtors, lookup_type. destruct t as [|n]; [discriminate|].
  destruct (find (fun d => ident_eqb (tname d) n) (sg_types S)) as [d|]; [|discriminate].
  destruct (find (fun x => ident_eqb (xname x) tag) (txtors d)) as [x|] eqn:F; [|discriminate].
  intros _. exists d. split; [reflexivity|].
  clear -F. generalize 0%N. induction (txtors d) as [|y r IH]; intros k; cbn in *; [discriminate|].
  destruct (ident_eqb (xname y) tag); [apply okr_Ok|]. apply IH. exact F.
Qed.

Section G.
Context {Code Temp : Type} (B : backend Code Temp).
Variable P : N.

Record capacity_ok : Prop := {
  co_temp : forall p, (p < P)%N -> okr (b_temporary_from_position B p);
  co_store : forall args rest lc,
      (2 * N.of_nat (List.length rest + List.length args) + 2 <= P)%N -> okr (b_store B args rest lc);
  co_load : forall to_load existing lc,
      (2 * N.of_nat (List.length existing + List.length to_load) + 2 <= P)%N -> okr (b_load B to_load existing lc) }.

Hypothesis OKB : backend_ok B.
Hypothesis CO : capacity_ok.
Variable K : nat.
Hypothesis HK : (2 * N.of_nat K + 2 <= P)%N.

Lemma vt_ok n c id : In id (ids c) -> (List.length c <= K)%nat -> okr (variable_temporary B n c id).
Proof.
  intros HI HL. unfold variable_temporary. destruct (position_of_some c id 0 HI) as [p E]. rewrite E.
  apply position_of_lt in E. apply (co_temp CO). destruct n; unfold tnum_n; lia.
Qed.
Lemma vt_has n c x k t : has c x k t = true -> (List.length c <= K)%nat -> okr (variable_temporary B n c (idn x)).
Proof.
  intros H. apply vt_ok. unfold has in H. destruct (lookup_b c (idn x)) as [b|] eqn:E; [|discriminate].
  apply lookup_b_Some in E as [HI <-]. unfold ids. apply in_map_iff. eauto.
Qed.

(* ---------- explicit substitutions ---------- *)
Lemma cwc_ok c (HL : (List.length c <= K)%nat) : forall tm lc,
  (forall b tg, In (b, tg) tm -> In b c) -> okr (code_weakening_contraction B tm c lc).
Proof.
  induction tm as [|[b tg] tm IH]; intros lc H; cbn [code_weakening_contraction]; [apply okr_Ok|].
  assert (IH' : forall lc, okr (code_weakening_contraction B tm c lc)).
  { intros lc'. apply IH. intros b' tg' Hb. apply (H b' tg'). right; exact Hb. }
  destruct (bchi b) eqn:Eb; [| |apply IH'].
  all: okb;
    [ unfold update_reference_count; okb;
      [ apply vt_ok; [|exact HL]; unfold ids; apply in_map_iff; exists b; split; [reflexivity|]; apply (H b tg); left; reflexivity
      | destruct (List.length tg) as [|[|m]]; apply okr_Ok ]
    | destruct x as [c1 lc1]; okb; [apply IH'|destruct x as [c2 lc2]; apply okr_Ok] ].
Qed.

Lemma rmap_ok {X Y} (f : X -> res Y) l : (forall x, In x l -> okr (f x)) -> okr (rmap f l).
Proof.
  induction l as [|x l IH]; intros H; cbn [rmap]; [apply okr_Ok|].
  okb; [apply H; left; reflexivity|]. okb; [apply IH; intros; apply H; right; assumption|]. apply okr_Ok.
Qed.

Lemma connections_ok c nc (HL : (List.length c <= K)%nat) (HN : (List.length nc <= K)%nat) :
  forall tm, (forall b tg, In (b, tg) tm -> In b c /\ forall t, In t tg -> In t (ids nc)) ->
  okr (connections B tm c nc).
Proof.
  intros tm. rewrite connections_unfold.
  assert (G : forall tm m, (forall b tg, In (b, tg) tm -> In b c /\ forall t, In t tg -> In t (ids nc)) ->
                           okr (fold_left (conn_step B c nc) tm (Ok m))).
  { clear tm. induction tm as [|[b tg] tm IH]; intros m H; cbn [fold_left]; [apply okr_Ok|].
    destruct (H b tg (or_introl eq_refl)) as [Hb Ht].
    assert (INS : forall n m0, okr (ins B c nc n b tg m0)).
    { intros n m0. unfold ins. okb.
      - apply vt_ok; [|exact HL]. unfold ids. apply in_map_iff. eauto.
      - okb; [|apply okr_Ok]. apply rmap_ok. intros t Hin. apply vt_ok; [apply Ht; exact Hin|exact HN]. }
    assert (ST : okr (conn_step B c nc (Ok m) (b, tg))).
    { unfold conn_step. cbn [rbind]. destruct (bchi b); [| |apply INS]; (okb; [apply INS|apply INS]). }
    destruct ST as [m' ->]. apply IH. intros b' tg' Hin. apply H. right. exact Hin. }
  apply G.
Qed.

Lemma parallel_moves_code_ok (am : amap Temp) : indeg1 Temp (teqb B) am -> okr (parallel_moves_code B am).
Proof.
  intros ID. unfold parallel_moves_code.
  pose proof (parallel_moves_terminates Temp (teqb B) (teqb_spec B OKB) am ID) as H. unfold parallel_moves in H.
  destruct (spanning_forest Temp (teqb B) _ am); [apply okr_Ok|]. exfalso. apply H. reflexivity.
Qed.

Lemma targets_in re b t : In t (targets re b) -> In t (ids (map fst re)).
Proof.
  unfold targets. intros H. apply in_map_iff in H as (p & <- & Hp). apply filter_In in Hp as [Hp _].
  unfold ids. rewrite map_map. apply in_map_iff. exists p. split; [reflexivity|exact Hp].
Qed.

Lemma substitute_ok c re lc :
  NoDup (ids c) -> NoDup (ids (map fst re)) -> (List.length c <= K)%nat -> (List.length (map fst re) <= K)%nat ->
  okr (code_weakening_contraction B (transpose re c) c lc) /\ okr (code_exchange B (transpose re c) c (map fst re)).
Proof.
  intros NDc NDn HL HN. pose proof (NoDup_ids_NoDup c NDc) as NDb.
  assert (TM : forall b tg, In (b, tg) (transpose re c) -> In b c /\ forall t, In t tg -> In t (ids (map fst re))).
  { intros b tg H. apply (In_transpose re c b tg NDb) in H as [Hb ->]. split; [exact Hb|]. intros t. apply targets_in. }
  split.
  - apply cwc_ok; [exact HL|]. intros b tg H. apply (TM b tg H).
  - unfold code_exchange.
    destruct (connections_ok c (map fst re) HL HN (transpose re c) TM) as [am E]. rewrite E. cbn [rbind].
    apply parallel_moves_code_ok.
    rewrite ids_new in NDn.
    exact (proj1 (transpose_connections_indeg1 B OKB c re am NDc NDn E)).
Qed.

(* ---------- the statement forms ---------- *)
Variable S : sigs.
Notation types := (sg_types S).

(* the code generator reads only the IDS of the context it is given (positions, lengths); the typed
   context of lin_check and the context the generator threads differ in the NAMES of the variables
   of a closure environment (ctx_match compares ids, kinds and types) *)
Definition IHs (s : stmt) : Prop :=
  forall c c', ids c' = ids c -> lin_check S c s = true -> cap_ok K c s = true ->
  forall lc, okr (code_statement B types s c' lc).

Lemma cap_len c s : cap_ok K c s = true -> (List.length c <= K)%nat.
Proof. destruct s; cbn [cap_ok]; intros H; apply andb_true_iff in H as [H _]; apply Nat.leb_le; exact H. Qed.
Lemma lin_nodup c s : lin_check S c s = true -> NoDup (ids c).
Proof. destruct s; cbn [lin_check]; intros H; apply andb_true_iff in H as [H _]; apply nodupb_NoDup; exact H. Qed.

Lemma ids_len (c c' : ctx) : ids c' = ids c -> List.length c' = List.length c.
Proof. intros H. unfold ids in H. rewrite <- (map_length (fun b => idn (bvar b)) c'), H. apply map_length. Qed.
Lemma ids_app (a b : ctx) : ids (a ++ b) = ids a ++ ids b.
Proof. apply map_app. Qed.
Lemma ids_butlast n (c c' : ctx) : ids c' = ids c -> ids (butlast_n n c') = ids (butlast_n n c).
Proof.
  intros H. unfold butlast_n. rewrite (ids_len _ _ H). unfold ids in *. rewrite <- !firstn_map, H. reflexivity.
Qed.
Lemma ids_last n (c c' : ctx) : ids c' = ids c -> ids (last_n n c') = ids (last_n n c).
Proof.
  intros H. unfold last_n. rewrite (ids_len _ _ H). unfold ids in *. rewrite <- !skipn_map, H. reflexivity.
Qed.
Lemma split_last_ok n (c c' : ctx) c0 tl :
  ids c' = ids c -> split_lastn n c = Some (c0, tl) -> split_last n c' = Ok (butlast_n n c', last_n n c').
Proof.
  intros H SP. unfold split_lastn in SP. unfold split_last. rewrite (ids_len _ _ H).
  destruct (Nat.leb n (List.length c)); [|discriminate]. unfold butlast_n, last_n. rewrite (ids_len _ _ H). reflexivity.
Qed.

Lemma cap_switch c v t cls :
  cap_ok K c (Switch v t cls) =
  Nat.leb (List.length c) K && forallb (fun cl => cap_ok K (butlast_n 1 c ++ cl_ctx cl) (cl_body cl)) cls.
Proof.
  cbn [cap_ok]. f_equal. induction cls as [|[[x cc] bd] r IH]; cbn [forallb]; [reflexivity|].
  unfold cl_ctx, cl_body; cbn [fst snd]. rewrite IH. reflexivity.
Qed.
Lemma cap_create c v t env cls next :
  cap_ok K c (Create v t (Some env) cls next) =
  Nat.leb (List.length c) K && (forallb (fun cl => cap_ok K (cl_ctx cl ++ env) (cl_body cl)) cls
                           && cap_ok K (butlast_n (List.length env) c ++ [mkb v Cns t]) next).
Proof.
  cbn [cap_ok]. f_equal. f_equal. induction cls as [|[[x cc] bd] r IH]; cbn [forallb]; [reflexivity|].
  unfold cl_ctx, cl_body; cbn [fst snd]. rewrite IH. reflexivity.
Qed.

Lemma sw_loop_ok (fresh : string) (c0 c0' : ctx) (E0 : ids c0' = ids c0) : forall cls,
  Forall (fun cl => IHs (cl_body cl)) cls ->
  lin_clauses_sw S c0 cls = true ->
  forallb (fun cl => cap_ok K (c0 ++ cl_ctx cl) (cl_body cl)) cls = true ->
  forall lc,
  okr ((fix go (l : list clause) (lc : N) : res (list Code * N) :=
          match l with
          | [] => Ok ([], lc)
          | (x, cx, body) :: r =>
              dor ld <- b_load B cx c0' lc;
              let '(cl, lc1) := ld in
              dor bd <- code_statement B types body (c0' ++ cx) lc1;
              let '(cb, lc2) := bd in
              dor rs <- go r lc2;
              let '(cr, lc3) := rs in
              Ok ([b_label B (fresh +++ "_" +++ show_ident x)] ++ cl ++ cb ++ cr, lc3)
          end) cls lc).
Proof.
  induction cls as [|[[x cx] body] r IH]; intros F L C lc; [apply okr_Ok|].
  inversion F as [|? ? Fb Fr]; subst. cbn [lin_clauses_sw forallb cl_ctx cl_body fst snd] in L, C.
  apply andb_true_iff in L as [L1 L2]. apply andb_true_iff in C as [C1 C2].
  okb.
  - apply (co_load CO). pose proof (cap_len _ _ C1) as HL. rewrite app_length in HL. rewrite (ids_len _ _ E0). lia.
  - destruct x0 as [cl lc1]. okb.
    { apply (Fb (c0 ++ cx) (c0' ++ cx)); [rewrite !ids_app, E0; reflexivity|exact L1|exact C1]. }
    destruct x0 as [cb lc2].
    okb; [apply (IH Fr L2 C2)|]. destruct x0 as [cr lc3]. apply okr_Ok.
Qed.

Lemma cr_loop_ok (fresh : string) (env env' : ctx) (E0 : ids env' = ids env) : forall cls,
  Forall (fun cl => IHs (cl_body cl)) cls ->
  lin_clauses_cr S env cls = true ->
  forallb (fun cl => cap_ok K (cl_ctx cl ++ env) (cl_body cl)) cls = true ->
  forall lc,
  okr ((fix go (l : list clause) (lc : N) : res (list Code * N) :=
          match l with
          | [] => Ok ([], lc)
          | (x, cx, body) :: r =>
              dor ld <- b_load B env' cx lc;
              let '(cl, lc1) := ld in
              dor bd <- code_statement B types body (cx ++ env') lc1;
              let '(cb, lc2) := bd in
              dor rs <- go r lc2;
              let '(cr, lc3) := rs in
              Ok ([b_label B (fresh +++ "_" +++ show_ident x)] ++ cl ++ cb ++ cr, lc3)
          end) cls lc).
Proof.
  induction cls as [|[[x cx] body] r IH]; intros F L C lc; [apply okr_Ok|].
  inversion F as [|? ? Fb Fr]; subst. cbn [lin_clauses_cr forallb cl_ctx cl_body fst snd] in L, C.
  apply andb_true_iff in L as [L1 L2]. apply andb_true_iff in C as [C1 C2].
  okb.
  - apply (co_load CO). pose proof (cap_len _ _ C1) as HL. rewrite app_length in HL. rewrite (ids_len _ _ E0). lia.
  - destruct x0 as [cl lc1]. okb.
    { apply (Fb (cx ++ env) (cx ++ env')); [rewrite !ids_app, E0; reflexivity|exact L1|exact C1]. }
    destruct x0 as [cb lc2].
    okb; [apply (IH Fr L2 C2)|]. destruct x0 as [cr lc3]. apply okr_Ok.
Qed.

Ltac wrapok := apply okr_bind; [|intros ? _; apply okr_Ok].
Ltac sp H a b := apply andb_true_iff in H as [a b].

Theorem code_statement_total : forall s, IHs s.
Proof.
  induction s using stmt_ind2; intros c c' Hs L C lc;
    pose proof (cap_len _ _ C) as HLc; pose proof (lin_nodup _ _ L) as NDc;
    pose proof (ids_len _ _ Hs) as HLs;
    assert (HLc' : (List.length c' <= K)%nat) by (rewrite HLs; exact HLc);
    assert (NDc' : NoDup (ids c')) by (rewrite Hs; exact NDc).
  - (* Substitute *)
    cbn [lin_check] in L. cbn [cap_ok] in C. sp L L0 L1. sp L1 Lh Ln. sp C C0 Cn.
    pose proof (cap_len _ _ Cn) as HLn. pose proof (lin_nodup _ _ Ln) as NDn.
    destruct (substitute_ok c' re lc NDc' NDn HLc' HLn) as [W E].
    cbn [code_statement]. wrapok. okb; [exact W|]. destruct x as [c1 lc1].
    okb; [exact E|]. okb; [apply (IHs0 _ _ eq_refl Ln Cn)|]. destruct x0 as [c3 lc3]. apply okr_Ok.
  - (* Call *) cbn [code_statement]. wrapok. apply okr_Ok.
  - (* Let *)
    cbn [lin_check] in L. cbn [cap_ok] in C. sp L L0 L1. sp C C0 Cn.
    destruct (split_lastn (List.length args) c) as [[c0 tl]|] eqn:SP; [|discriminate].
    sp L1 L1 Ln. sp L1 Lm La.
    destruct (split_lastn_parts _ _ _ _ SP) as (E0 & Et & Ec & Lty). rewrite <- E0 in Cn.
    destruct (args_ok_lookup _ _ _ _ La) as (d & LT & XP).
    assert (Hs' : ids (butlast_n (List.length args) c' ++ [mkb v Prd t]) = ids (c0 ++ [mkb v Prd t])).
    { rewrite !ids_app, (ids_butlast _ _ _ Hs), <- E0. reflexivity. }
    cbn [code_statement]. wrapok. rewrite LT. cbn [rbind]. okb; [exact XP|].
    rewrite (split_last_ok _ _ _ _ _ Hs SP). cbn [rbind].
    okb. { apply (co_store CO). unfold butlast_n, last_n. rewrite firstn_length, skipn_length. lia. }
    destruct x0 as [c1 lc1].
    okb. { apply vt_ok; [apply (In_ids_app_r _ (mkb v Prd t))|rewrite (ids_len _ _ Hs'); apply (cap_len _ _ Cn)]. }
    okb; [apply (IHs0 _ _ Hs' Ln Cn)|]. destruct x1 as [c3 lc3]. apply okr_Ok.
  - (* Switch *)
    rewrite lin_check_switch in L. rewrite cap_switch in C. sp L L0 L1. sp C C0 Cc.
    destruct (split_lastn 1 c) as [[c0 [|b [|]]]|] eqn:SP; try discriminate.
    sp L1 L1 Lc. sp L1 L1 Lk. sp L1 L1 Lty. sp L1 Li Lp.
    destruct (split_lastn_parts _ _ _ _ SP) as (E0 & Et & Ec & Ll). rewrite <- E0 in Cc.
    cbn [code_statement]. wrapok.
    okb.
    { destruct (Nat.leb _ 1); [apply okr_Ok|]. okb; [|apply okr_Ok].
      apply vt_ok; [|exact HLc']. rewrite Hs, Ec. apply N.eqb_eq in Li. rewrite <- Li. apply In_ids_app_r. }
    rewrite removelast_butlast.
    okb; [apply (sw_loop_ok _ c0 (butlast_n 1 c') (eq_trans (ids_butlast 1 _ _ Hs) (f_equal ids (eq_sym E0))) cls H Lc Cc)|].
    destruct x0 as [c3 lc3]. apply okr_Ok.
  - (* Create *)
    destruct env as [env|]; [|cbn [lin_check] in L; sp L L0 L1; discriminate].
    rewrite lin_check_create in L. rewrite cap_create in C. sp L L0 L1. sp C C0 C1. sp C1 Cc Cn.
    destruct (split_lastn (List.length env) c) as [[c0 tl]|] eqn:SP; [|discriminate].
    sp L1 L1 Ln. sp L1 L1 Lc. sp L1 Lm Lk.
    destruct (split_lastn_parts _ _ _ _ SP) as (E0 & Et & Ec & Ll). rewrite <- E0 in Cn.
    assert (Hs' : ids (butlast_n (List.length env) c' ++ [mkb v Cns t]) = ids (c0 ++ [mkb v Cns t])).
    { rewrite !ids_app, (ids_butlast _ _ _ Hs), <- E0. reflexivity. }
    assert (He : ids (last_n (List.length env) c') = ids env).
    { rewrite (ids_last _ _ _ Hs), <- Et. apply ctx_match_Prop in Lm. apply Lm. }
    cbn [code_statement]. wrapok.
    rewrite (split_last_ok _ _ _ _ _ Hs SP). cbn [rbind].
    okb. { apply (co_store CO). unfold butlast_n, last_n. rewrite firstn_length, skipn_length. lia. }
    destruct x as [c1 lc1].
    okb. { apply vt_ok; [apply (In_ids_app_r _ (mkb v Cns t))|rewrite (ids_len _ _ Hs'); apply (cap_len _ _ Cn)]. }
    okb; [apply (IHs0 _ _ Hs' Ln Cn)|]. destruct x0 as [c3 lc3].
    okb; [|destruct x0 as [c5 lc5]; apply okr_Ok].
    apply (cr_loop_ok _ env _ He cls H Lc Cc).
  - (* Invoke *)
    cbn [lin_check] in L. sp L L0 L1.
    destruct (split_lastn 1 c) as [[c0 [|b [|]]]|] eqn:SP; try discriminate.
    sp L1 L1 La. sp L1 L1 Lty. sp L1 Li Lp.
    destruct (split_lastn_parts _ _ _ _ SP) as (E0 & Et & Ec & Ll).
    destruct (args_ok_lookup _ _ _ _ La) as (d & LT & XP).
    cbn [code_statement]. wrapok.
    okb. { apply vt_ok; [|exact HLc']. rewrite Hs, Ec. apply N.eqb_eq in Li. rewrite <- Li. apply In_ids_app_r. }
    rewrite LT. cbn [rbind]. destruct (Nat.leb _ 1); [apply okr_Ok|].
    okb; [exact XP|apply okr_Ok].
  - (* Literal *)
    cbn [lin_check] in L. cbn [cap_ok] in C. sp L L0 Ln. sp C C0 Cn.
    assert (Hs' : ids (c' ++ [mkb v Ext I64]) = ids (c ++ [mkb v Ext I64])) by (rewrite !ids_app, Hs; reflexivity).
    cbn [code_statement]. wrapok.
    okb. { apply vt_ok; [apply (In_ids_app_r c' (mkb v Ext I64))|rewrite (ids_len _ _ Hs'); apply (cap_len _ _ Cn)]. }
    okb; [apply (IHs0 _ _ Hs' Ln Cn)|]. destruct x0 as [c2 lc2]. apply okr_Ok.
  - (* Op *)
    cbn [lin_check] in L. cbn [cap_ok] in C. sp L L0 L1. sp L1 L1 Ln. sp L1 La Lb. sp C C0 Cn.
    assert (Hs' : ids (c' ++ [mkb v Ext I64]) = ids (c ++ [mkb v Ext I64])) by (rewrite !ids_app, Hs; reflexivity).
    assert (HL' : (List.length (c' ++ [mkb v Ext I64]) <= K)%nat) by (rewrite (ids_len _ _ Hs'); apply (cap_len _ _ Cn)).
    cbn [code_statement]. wrapok.
    okb. { apply vt_ok; [apply (In_ids_app_r c' (mkb v Ext I64))|exact HL']. }
    okb. { apply vt_ok; [apply In_ids_app_l; rewrite Hs; eapply has_In_ids_; exact La|exact HL']. }
    okb. { apply vt_ok; [apply In_ids_app_l; rewrite Hs; eapply has_In_ids_; exact Lb|exact HL']. }
    okb; [apply (IHs0 _ _ Hs' Ln Cn)|]. destruct x2 as [c2 lc2]. apply okr_Ok.
  - (* Print *)
    cbn [lin_check] in L. cbn [cap_ok] in C. sp L L0 L1. sp L1 Lv Ln. sp C C0 Cn.
    cbn [code_statement]. wrapok.
    okb; [apply vt_ok; [rewrite Hs; eapply has_In_ids_; exact Lv|exact HLc']|].
    okb; [apply (IHs0 _ _ Hs Ln Cn)|]. destruct x0 as [c2 lc2]. apply okr_Ok.
  - (* IfC *)
    cbn [lin_check] in L. cbn [cap_ok] in C. sp L L0 L1. sp L1 L1 Lel. sp L1 L1 Lth. sp L1 La Lb.
    sp C C0 C1. sp C1 Ct Ce.
    cbn [code_statement]. wrapok.
    okb; [apply vt_ok; [rewrite Hs; eapply has_In_ids_; exact La|exact HLc']|].
    okb. { destruct b as [b|]; [|apply okr_Ok]. okb; [apply vt_ok; [rewrite Hs; eapply has_In_ids_; exact Lb|exact HLc']|apply okr_Ok]. }
    okb; [apply (IHs2 _ _ Hs Lel Ce)|]. destruct x1 as [c2 lc2].
    okb; [apply (IHs1 _ _ Hs Lth Ct)|]. destruct x1 as [c3 lc3]. apply okr_Ok.
  - (* Exit *)
    cbn [lin_check] in L. sp L L0 Lv.
    cbn [code_statement]. wrapok.
    okb; [apply vt_ok; [rewrite Hs; eapply has_In_ids_; exact Lv|exact HLc']|apply okr_Ok].
Qed.
End G.

(* ---------- definitions and whole programs ---------- *)
Section Prog.
Context {Code Temp : Type} (B : backend Code Temp).
Variable P : N.
Hypothesis OKB : backend_ok B.
Hypothesis CO : capacity_ok B P.
Variable K : nat.
Hypothesis HK : (2 * N.of_nat K + 2 <= P)%N.

Lemma translate_total (S : sigs) : forall defs,
  forallb (lin_check_def S) defs = true ->
  forallb (fun d => cap_ok K (dctx d) (dbody d)) defs = true ->
  forall lc, okr (translate B (sg_types S) defs lc).
Proof.
  induction defs as [|d r IH]; intros L C lc; cbn [translate]; [apply okr_Ok|].
  cbn [forallb] in L, C. apply andb_true_iff in L as [L1 L2]. apply andb_true_iff in C as [C1 C2].
  okb; [apply (code_statement_total B P OKB CO K HK S (dbody d) (dctx d) (dctx d) eq_refl L1 C1)|].
  destruct x as [c1 lc1]. okb; [apply (IH L2 C2)|]. destruct x as [c2 lc2]. apply okr_Ok.
Qed.

Theorem compile_total (p : prog) (lc : N) :
  lin_check_prog p = true -> has_defs p = true -> cap_ok_prog K p = true ->
  exists code lc', compile B p lc = Ok (code, main_arity p, lc').
Proof.
  intros L D C. unfold compile, has_defs, main_arity in *. destruct (pdefs p) as [|d0 r] eqn:E; [discriminate|].
  unfold lin_check_prog in L. unfold cap_ok_prog in C. rewrite E in L, C.
  destruct (translate_total (sigs_of p) (d0 :: r) L C lc) as [[code lc'] T].
  change (sg_types (sigs_of p)) with (ptypes p) in T. rewrite T. cbn [rbind fst snd]. eauto.
Qed.
End Prog.
