(* C08: non-vacuity of Proof/ThreeBackends.v.  The print-free chain example of Proof/RVKSimExample.v (`rk_lin`: named AxCut
   linearized by the model of the pass; a five-field record in two chained blocks, a closure capturing four integers, lists
   built and taken apart, objects shared and dropped, two definitions; FIVE integer arguments - the capacity of the x86-64
   entry) is inside every guard of `three_backends_simulate`; the three models of the code generators compile it; the theorem
   is applied; the three ISA models are evaluated on the emitted code. *)
From Coq Require Import List ZArith NArith String Bool Lia.
From SCC Require Import Base.Sexp Lang.AxSyn Sem.AxSem Model.Backend Model.Linearize Model.LinCheck Model.Capacity
     Proof.SimFrag Proof.X86HAnn Sem.LabelGuard Sem.WfGuard Sem.WfGuard64 Proof.RVKSimExample Proof.ThreeBackends.
From SCC Require Model.X86 Model.A64 Model.RV Sem.X86Sem Sem.A64Sem Sem.RVSem Proof.AxHeapTyping.
From SCC Require Proof.X86HSimTop Proof.A64HSimTop Proof.RVHSimTop Proof.RVKWfCor Proof.RVHSimExample.
Import ListNotations.
Local Open Scope list_scope.
Open Scope Z_scope.

Definition rk_xcode : list X86.xcode := match X86.x86_compile rk_lin 0 with Ok (cs, _, _) => cs | Err _ => [] end.
Definition rk_acode : list A64.acode := match A64.a64_compile rk_lin 0 with Ok (cs, _, _) => cs | Err _ => [] end.

Lemma rk3_guards :
  lin_check_prog rk_lin = true /\ ann_check_prog rk_lin = true /\ entry_int rk_lin = true /\ labels_guard rk_lin = true /\
  plain_names rk_lin = true /\ plain_types rk_lin = true /\ imm_guard rk_lin = true /\ size_guard rk_lin = true /\
  lits_i64 rk_lin = true /\ A64HSimTop.tags_i64 rk_lin = true /\ reach_guard_a64 rk_lin = true /\ imm_guard_rv rk_lin = true /\
  args_i64 rk_args = true.
Proof. vm_compute. repeat split; reflexivity. Qed.

Lemma rk3_compiled :
  (exists lc', X86.x86_compile rk_lin 0 = Ok (rk_xcode, 5%nat, lc')) /\
  (exists lc', A64.a64_compile rk_lin 0 = Ok (rk_acode, 5%nat, lc')) /\
  (exists lc', RV.rv_compile rk_lin 0 = Ok (rk_code, 5%nat, lc')).
Proof.
  split; [|split].
  - unfold rk_xcode. destruct (X86.x86_compile rk_lin 0) as [[[cs n] lc']|] eqn:E.
    + assert (n = 5%nat) by (apply (f_equal (fun r => match r with Ok (_, n, _) => n | Err _ => O end)) in E; vm_compute in E; congruence).
      subst n. eauto.
    + exfalso. apply (f_equal (fun r => match r with Ok _ => true | Err _ => false end)) in E. vm_compute in E. discriminate.
  - unfold rk_acode. destruct (A64.a64_compile rk_lin 0) as [[[cs n] lc']|] eqn:E.
    + assert (n = 5%nat) by (apply (f_equal (fun r => match r with Ok (_, n, _) => n | Err _ => O end)) in E; vm_compute in E; congruence).
      subst n. eauto.
    + exfalso. apply (f_equal (fun r => match r with Ok _ => true | Err _ => false end)) in E. vm_compute in E. discriminate.
  - destruct rk_hypotheses as (_ & _ & _ & H & _). exact H.
Qed.

Lemma rk3_heap_fits : RVHSimTop.heap_fits rk_lin rk_args.
Proof. destruct rk_hypotheses as (_ & _ & _ & _ & _ & _ & _ & H). now apply RVHSimExample.fits_run_sound with (fuel := 2000%nat). Qed.

(* the theorem applied *)
Lemma rk3_simulated :
  exists ox ix oa ia orv irv,
    fst (X86Sem.run_x86 ox ix rk_xcode rk_args) = run_linear 2000 rk_lin rk_args /\
    fst (A64Sem.run_a64 oa ia rk_acode rk_args) = run_linear 2000 rk_lin rk_args /\
    fst (RVSem.run_rv orv irv rk_code rk_args) = run_linear 2000 rk_lin rk_args.
Proof.
  destruct rk3_guards as (G1 & G2 & G3 & G4 & G5 & G6 & G7 & G8 & G9 & G10 & G11 & G12 & G13).
  destruct rk3_compiled as ((lx & CX) & (la & CA) & (lr & CR)).
  eapply (three_backends_simulate rk_lin 0 0 0 rk_xcode rk_acode rk_code 5 5 5 lx la lr rk_args 2000); eauto.
  - exact rk3_heap_fits.
  - vm_compute. discriminate.
Qed.

(* the four machines evaluated *)
Lemma rk3_runs :
  run_linear 2000 rk_lin rk_args = ([], OExit 111106) /\
  fst (X86Sem.run_x86 20 2000 rk_xcode rk_args) = ([], OExit 111106) /\
  fst (A64Sem.run_a64 20 2000 rk_acode rk_args) = ([], OExit 111106) /\
  fst (RVSem.run_rv 20 2000 rk_code rk_args) = ([], OExit 111106).
Proof. vm_compute. repeat split; reflexivity. Qed.
