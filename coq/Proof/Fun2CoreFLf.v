(* ======================================================================================
   Proof/Fun2CoreFLf  -  the fundamental lemma: print, conditionals (tail and non-tail position: the
   continuation is shared through a lifted definition), let.
   ====================================================================================== *)
From Coq Require Import List ZArith NArith String Bool Lia.
From SCC Require Import Base.Sexp Lang.SynUtil Lang.FunSyn Lang.FunTy Lang.CoreSyn.
From SCC Require Import Sem.AxSem Sem.CoreSem Sem.FunSem Model.Fun2Core.
From SCC Require Import Proof.Fun2CoreProof Proof.Fun2CoreSim Proof.Fun2CoreTfv Proof.Fun2CoreInv Proof.Fun2CoreUB
     Proof.Fun2CoreRel Proof.Fun2CoreFLa Proof.Fun2CoreFLb Proof.Fun2CoreFLc Proof.Fun2CoreFLd Proof.Fun2CoreFLe.
Import ListNotations.
Open Scope string_scope.
Open Scope list_scope.

Arguments var_ok : simpl never.

Section FLf.
  Variable p : fcprog.
  Variable cp : cprog.
  Hypothesis Hcod : cpcodata cp = codata_of p.

  (* ---------- print ---------- *)
  Lemma fl_print : forall N nl a next ty, flc p cp N a -> flw p cp N next ->
    flw p cp N (FPrint nl a next ty).
  Proof.
    intros N nl a next ty Ha Hnext.
    assert (HW : flw p cp N (FPrint nl a next ty)).
    { intros n Hn G cur cont st s st' e ce k Hwc Hf Hkd Hws Hl HG Hbn Hni Hsh He HCK.
      rewrite wc_unfold in Hwc. apply wc_print_inv in Hwc. destruct Hwc as [a' [st1 [next' [Hca [Hwn Es]]]]]. subst s.
      simpl in Hf, Hkd, Hws.
      apply andb_prop in Hf. destruct Hf as [Hf1 Hf2]. apply andb_prop in Hws. destruct Hws as [Hw1 Hw2].
      apply andb_prop in Hkd. destruct Hkd as [Hkd Hsame]. apply andb_prop in Hkd. destruct Hkd as [Hkd Hta].
      apply andb_prop in Hkd. destruct Hkd as [Hka Hkn]. apply negb_true_iff in Hta. apply Bool.eqb_prop in Hsame.
      assert (Hkind : tkind p (FPrint nl a next ty) = tkind p next) by (unfold tkind at 1; simpl; symmetry; exact Hsame).
      rewrite Hkind in *.
      assert (Hg1 : grows st st1) by (eapply cmp_grows; exact Hca).
      assert (Hg2 : grows st1 st') by (eapply wc_grows; exact Hwn).
      destruct n as [|n1]; [apply sim_zero|].
      eapply sim_fstep; [reflexivity|]. apply sim_cstep. simpl.
      apply (Ha n1 ltac:(lia) G cur CI64 st a' st1 e ce _ _ Hca Hf1 Hka Hta Hw1).
      - eapply lifted_ok_grows; eauto.
      - exact HG.
      - intros z Hz. apply Hbn. simpl. apply in_or_app. left. exact Hz.
      - reflexivity.
      - eapply erel_weaken; [exact He | | lia]. apply Sof_incl. intros bb Hx. apply fvs_print. left. exact Hx.
      - apply Kb_intro. intros j Hj v pv Hd Hv. rewrite (dval_interact_ret p cp j v pv _ Hd Hv).
        destruct j as [|j1]; [apply sim_zero|].
        destruct v as [x|tag args|cls0 e0|t0 e0]; try contradiction;
          [|eapply sim_stuck; reflexivity].
        apply vrel_int in Hv. subst pv. apply sim_cstep. simpl.
        eapply sim_out; [reflexivity|].
        apply (Hnext j1 ltac:(lia) G cur cont st1 next' st' e ce k Hwn Hf2 Hkn Hw2 Hl).
        + eapply Gused_grows; eauto.
        + eapply incl_grows; [|exact Hg1]. intros z Hz. apply Hbn. simpl. apply in_or_app. right. exact Hz.
        + eapply names_in_grows; eauto.
        + exact Hsh.
        + eapply erel_weaken; [exact He | | lia]. apply Sof_incl. intros bb Hx. apply fvs_print. right. exact Hx.
        + eapply CK_transfer; [exact Hsh | exact HCK | | lia]. intros z0 _ Hz0. split; [|reflexivity].
          revert Hz0. apply Sof_incl. intros bb Hx. apply fvs_print. right. exact Hx. }
    exact HW.
  Qed.

  (* ---------- sharing a continuation (conditionals, case) ---------- *)
  Lemma shared_CK : forall n cur (small : bool) cont st cont1 st0 k ce (S : cident -> Prop),
    (if small then cont1 = cont /\ st0 = st else share cur cont st = Ok (cont1, st0)) ->
    (small = false -> cont_is_small cont = false) ->
    cont_shape cp false cont -> names_in (cnames (fvt cont)) st -> lifted_ok cp st0 ->
    CK p cp n false k cont ce S ->
    CK p cp n false k cont1 ce S /\ cont_shape cp false cont1 /\ grows st st0 /\
    (forall bb, In bb (fvt cont1) -> In bb (fvt cont)).
  Proof.
    intros n cur small cont st cont1 st0 k ce S Hshare Hns Hsh Hni Hl HCK. destruct small.
    - destruct Hshare; subst. split; [exact HCK|]. split; [exact Hsh|]. split; [apply grows_refl | auto].
    - destruct (share_CK p cp n cur cont st cont1 st0 k ce S Hshare (Hns eq_refl) Hsh Hni Hl HCK) as [H1 H2].
      split; [exact H1|]. split; [exact H2|]. split; [eapply share_grows; exact Hshare|].
      apply (share_fvt cur cont st cont1 st0 Hshare). apply (cont_shape_cns cp false). exact Hsh.
  Qed.

  (* ---------- conditionals ---------- *)
  Lemma fl_ifc : forall N so a b t1 t2 ty,
    flc p cp N a -> match b with Some b' => flc p cp N b' | None => True end ->
    flw p cp N t1 -> flw p cp N t2 ->
    flw p cp N (FIfC so a b t1 t2 ty).
  Proof.
    intros N so a b t1 t2 ty Ha Hb0 H1 H2.
    assert (HW : flw p cp N (FIfC so a b t1 t2 ty)).
    { intros n Hn G cur cont st s st' e ce k Hwc Hf Hkd Hws Hl HG Hbn Hni Hsh He HCK.
      rewrite wc_unfold in Hwc. apply wc_ifc_inv in Hwc.
      destruct Hwc as [cont1 [st0 [a' [sta [b' [stb [t' [stt [e' [Hshare [Hca [Hcb [Hwt [Hwe Es]]]]]]]]]]]]]]. subst s.
      simpl in Hf, Hkd, Hws.
      apply andb_prop in Hf. destruct Hf as [Hf Hf3]. apply andb_prop in Hf. destruct Hf as [Hf Hf2].
      apply andb_prop in Hf. destruct Hf as [Hf1 Hfb].
      apply andb_prop in Hws. destruct Hws as [Hw Hw3]. apply andb_prop in Hw. destruct Hw as [Hw Hw2].
      apply andb_prop in Hw. destruct Hw as [Hw1 Hwb].
      apply andb_prop in Hkd. destruct Hkd as [Hkd Hkty]. apply andb_prop in Hkd. destruct Hkd as [Hkd Hkt2].
      apply andb_prop in Hkd. destruct Hkd as [Hkd Hkt1]. apply andb_prop in Hkd. destruct Hkd as [Hkd Hkta].
      apply andb_prop in Hkd. destruct Hkd as [Hkd Hk2]. apply andb_prop in Hkd. destruct Hkd as [Hkd Hk1].
      apply andb_prop in Hkd. destruct Hkd as [Hka Hkb].
      apply negb_true_iff in Hkty. apply negb_true_iff in Hkt2. apply negb_true_iff in Hkt1. apply negb_true_iff in Hkta.
      assert (Hkind : tkind p (FIfC so a b t1 t2 ty) = false) by (unfold tkind; simpl; exact Hkty).
      rewrite Hkind in *.
      assert (Hga : grows st0 sta) by (eapply cmp_grows; exact Hca).
      assert (Hgb : grows sta stb).
      { destruct b as [b0|]; [destruct Hcb as [b1 [Hcb _]]; eapply cmp_grows; exact Hcb | destruct Hcb; subst; apply grows_refl]. }
      assert (Hgt : grows stb stt) by (eapply wc_grows; exact Hwt).
      assert (Hge : grows stt st') by (eapply wc_grows; exact Hwe).
      assert (Lstt : lifted_ok cp stt) by (eapply lifted_ok_grows; [exact Hl | exact Hge]).
      assert (Lstb : lifted_ok cp stb) by (eapply lifted_ok_grows; [exact Lstt | exact Hgt]).
      assert (Lsta : lifted_ok cp sta) by (eapply lifted_ok_grows; [exact Lstb | exact Hgb]).
      assert (Lst0 : lifted_ok cp st0) by (eapply lifted_ok_grows; [exact Lsta | exact Hga]).
      destruct (shared_CK n cur (cont_is_small cont) cont st cont1 st0 k ce (Sof (fvs (CIfC (sort_of so) a' b' t' e'))) Hshare (fun E => E) Hsh Hni Lst0 HCK) as [HCK1 [Hsh1 [Hg0 Hsub]]].
      assert (G1 : grows st sta) by (eapply grows_trans; [exact Hg0 | exact Hga]).
      assert (G2 : grows st stb) by (eapply grows_trans; [exact G1 | exact Hgb]).
      assert (G3 : grows st stt) by (eapply grows_trans; [exact G2 | exact Hgt]).
      (* the two branches, at any smaller index *)
      assert (Hbr : forall i, (i < n)%nat -> forall c : bool,
                sim p cp i (FEval (if c then t1 else t2) e k) (SNext (Run (if c then t' else e') ce))).
      { intros i Hi c. destruct c.
        - rewrite <- Hkt1 in Hsh1, HCK1. apply (H1 i ltac:(lia) G cur cont1 stb t' stt e ce k Hwt Hf2 Hk1 Hw2).
          + exact Lstt.
          + eapply Gused_grows; [exact HG | exact G2].
          + eapply incl_grows; [|exact G2].
            intros z Hz. apply Hbn. simpl. rewrite !in_app_iff. tauto.
          + intros x Hx. apply in_cnames_inv in Hx. destruct Hx as [bb [Hbb E]]. subst x.
            eapply names_in_grows; [exact Hni | exact G2 | apply in_cnames; apply Hsub; exact Hbb].
          + exact Hsh1.
          + eapply erel_weaken; [exact He | | lia]. apply Sof_incl. intros bb Hx. apply fvs_ifc. right. right. left. exact Hx.
          + eapply CK_transfer; [exact Hsh1 | exact HCK1 | | lia]. intros z0 _ Hz0. split; [|reflexivity].
            revert Hz0. apply Sof_incl. intros bb Hx. apply fvs_ifc. right. right. left. exact Hx.
        - rewrite <- Hkt2 in Hsh1, HCK1. apply (H2 i ltac:(lia) G cur cont1 stt e' st' e ce k Hwe Hf3 Hk2 Hw3 Hl).
          + eapply Gused_grows; [exact HG | exact G3].
          + eapply incl_grows; [|exact G3].
            intros z Hz. apply Hbn. simpl. rewrite !in_app_iff. tauto.
          + intros x Hx. apply in_cnames_inv in Hx. destruct Hx as [bb [Hbb E]]. subst x.
            eapply names_in_grows; [exact Hni | exact G3 | apply in_cnames; apply Hsub; exact Hbb].
          + exact Hsh1.
          + eapply erel_weaken; [exact He | | lia]. apply Sof_incl. intros bb Hx. apply fvs_ifc. right. right. right. exact Hx.
          + eapply CK_transfer; [exact Hsh1 | exact HCK1 | | lia]. intros z0 _ Hz0. split; [|reflexivity].
            revert Hz0. apply Sof_incl. intros bb Hx. apply fvs_ifc. right. right. right. exact Hx. }
      destruct n as [|n1]; [apply sim_zero|].
      eapply sim_fstep; [reflexivity|]. apply sim_cstep. simpl.
      apply (Ha n1 ltac:(lia) G cur CI64 st0 a' sta e ce _ _ Hca Hf1 Hka Hkta Hw1).
      - exact Lsta.
      - eapply Gused_grows; [exact HG | exact Hg0].
      - eapply incl_grows; [|exact Hg0]. intros z Hz. apply Hbn. simpl. rewrite !in_app_iff. tauto.
      - reflexivity.
      - eapply erel_weaken; [exact He | | lia]. apply Sof_incl. intros bb Hx. apply fvs_ifc. left. exact Hx.
      - apply Kb_intro. intros j Hj v pv Hd Hv. rewrite (dval_interact_ret p cp j v pv _ Hd Hv).
        destruct j as [|j1]; [apply sim_zero|].
        destruct v as [x|tag args|cls0 e0|t0 e0]; try contradiction;
          [|eapply sim_stuck; reflexivity].
        apply vrel_int in Hv. subst pv.
        destruct b as [b0|].
        + (* two operands *)
          destruct Hcb as [b1 [Hcb Eb]]. subst b'.
          apply andb_prop in Hkb. destruct Hkb as [Hkb Hktb]. apply negb_true_iff in Hktb.
          eapply sim_fstep; [reflexivity|]. apply sim_cstep. simpl.
          apply (Hb0 j1 ltac:(lia) G cur CI64 sta b1 stb e ce _ _ Hcb Hfb Hkb Hktb Hwb).
          * exact Lstb.
          * eapply Gused_grows; [exact HG | exact G1].
          * eapply incl_grows; [|exact G1].
            intros z Hz. apply Hbn. simpl. rewrite !in_app_iff. tauto.
          * reflexivity.
          * eapply erel_weaken; [exact He | | lia]. apply Sof_incl. intros bb Hx. apply fvs_ifc. right. left. exact Hx.
          * apply Kb_intro. intros i Hi v2 pv2 Hd2 Hv2. rewrite (dval_interact_ret p cp i v2 pv2 _ Hd2 Hv2).
            destruct i as [|i1]; [apply sim_zero|].
            destruct v2 as [y|tag args|cls0 e0|t0 e0]; try contradiction;
              [|eapply sim_stuck; reflexivity].
            apply vrel_int in Hv2. subst pv2.
            eapply sim_fstep; [reflexivity|]. apply sim_cstep. simpl. rewrite ax_ifsort_sort_of.
            apply (Hbr i1 ltac:(lia) (eval_cmp (ax_fifsort so) x y)).
        + (* comparison with zero *)
          destruct Hcb as [Eb Est]. subst b' stb.
          eapply sim_fstep; [reflexivity|]. apply sim_cstep. simpl. rewrite ax_ifsort_sort_of.
          apply (Hbr j1 ltac:(lia) (eval_cmp (ax_fifsort so) x 0)). }
    exact HW.
  Qed.
End FLf.
