(* C15, the instance table of an accepted program (program level):
   - the declarations of the checked program are exactly the entries of the instance table, their
     names are pairwise different, each is the instantiation of a declared template at well-formed
     type arguments ([check_instances_spec]);
   - closure: every type of a definition signature, let annotation, variable / call / constructor /
     destructor / `new` annotation and every type argument of a destructor call or case has a
     declaration ([check_output_closed]); the set of declared names is closed under type arguments
     ([check_instances_closed_under_targs]);
   - the full closure (fields of the instance declarations, clause binders, passed-down annotations)
     is false ([output_closed_refuted]; corpus/fun/c15_unused_field_type.sc). *)
From Coq Require Import List ZArith String Bool Permutation Lia.
From SCC Require Import Base.Sexp Lang.SynUtil Lang.FunSyn Model.Check Sem.FunTyping Sem.FunClosed
  Proof.FunInd Proof.FunEq Proof.CheckAnn Proof.TypingReject Proof.CheckBuild Proof.CheckMono Proof.CheckMonoSound
  Proof.CheckMonoProg Proof.PrintInj Proof.CheckPoly Proof.CheckInstBase Proof.CheckPolySound Proof.CheckPolyProg.
Import ListNotations.
Open Scope list_scope.

(* ---------- sorting is a permutation ---------- *)
Lemma insert_sorted_perm : forall {X} (key : X -> string) x l, Permutation (insert_sorted key x l) (x :: l).
Proof.
  intros X key x l. induction l as [|y r IH]; simpl; [apply Permutation_refl|].
  destruct (name_leb (key y) (key x)); [|apply Permutation_refl].
  eapply perm_trans; [apply perm_skip; exact IH|apply perm_swap].
Qed.
Lemma sort_by_name_perm : forall {X} (key : X -> string) l, Permutation (sort_by_name key l) l.
Proof.
  intros X key l. unfold sort_by_name.
  assert (G : forall acc, Permutation (fold_left (fun acc x => insert_sorted key x acc) l acc) (acc ++ l)).
  { induction l as [|x r IH]; intros acc; simpl; [rewrite app_nil_r; apply Permutation_refl|].
    eapply perm_trans; [apply IH|]. eapply perm_trans; [apply Permutation_app_tail; apply insert_sorted_perm|].
    simpl. apply Permutation_middle. }
  exact (G []).
Qed.

(* ---------- what collect_types produces ---------- *)
Definition data_of (st : symtab) (e : fname * (fpol * list fty * list fname)) (d : fdata) : Prop :=
  let '(name, (pol, targs, xs)) := e in
  pol = FData /\ fdaname d = name /\ fdaparams d = []
  /\ Forall2 (fun x c => fctname c = x /\ aget (st_ctors st) (x ++ print_targs targs)%string = Some (fctargs c)) xs (fdactors d).
Definition codata_of (st : symtab) (e : fname * (fpol * list fty * list fname)) (d : fcodata) : Prop :=
  let '(name, (pol, targs, xs)) := e in
  pol = FCodata /\ fcoaname d = name /\ fcoparams d = []
  /\ Forall2 (fun x c => fdtname c = x /\ aget (st_dtors st) (x ++ print_targs targs)%string = Some (fdtargs c, fdtcont c)) xs (fcodtors d).

Lemma collect_ctors_spec : forall st sfx xs cs, collect_ctors st sfx xs = COk cs ->
  Forall2 (fun x c => fctname c = x /\ aget (st_ctors st) (x ++ sfx)%string = Some (fctargs c)) xs cs.
Proof.
  induction xs as [|x r IH]; intros cs H; simpl in H.
  - inversion H. constructor.
  - destruct (aget (st_ctors st) (x ++ sfx)%string) as [args|] eqn:E; [|discriminate].
    apply cbind_ok in H. destruct H as [r' [Hr H]]. inversion H; subst. constructor; [simpl; auto|auto].
Qed.
Lemma collect_dtors_spec : forall st sfx xs cs, collect_dtors st sfx xs = COk cs ->
  Forall2 (fun x c => fdtname c = x /\ aget (st_dtors st) (x ++ sfx)%string = Some (fdtargs c, fdtcont c)) xs cs.
Proof.
  induction xs as [|x r IH]; intros cs H; simpl in H.
  - inversion H. constructor.
  - destruct (aget (st_dtors st) (x ++ sfx)%string) as [[args cont]|] eqn:E; [|discriminate].
    apply cbind_ok in H. destruct H as [r' [Hr H]]. inversion H; subst. constructor; [simpl; auto|auto].
Qed.
Lemma collect_types_spec : forall st l das cos, collect_types st l = COk (das, cos) ->
  Permutation (map fdaname das ++ map fcoaname cos) (map fst l)
  /\ Forall (fun d => exists e, In e l /\ data_of st e d) das
  /\ Forall (fun d => exists e, In e l /\ codata_of st e d) cos.
Proof.
  intros st l. induction l as [|[name [[pol targs] xs]] r IH]; intros das cos H; simpl in H.
  - inversion H; subst. simpl. auto.
  - destruct pol.
    + apply cbind_ok in H. destruct H as [cs [Hc H]]. apply cbind_ok in H. destruct H as [[das' cos'] [Hr H]].
      inversion H; subst. destruct (IH _ _ Hr) as [Hp [Hd Hco]]. simpl. split; [apply perm_skip; exact Hp|]. split.
      * constructor.
        -- exists (name, (FData, targs, xs)). split; [left; reflexivity|]. simpl. splits; auto.
           apply collect_ctors_spec. exact Hc.
        -- eapply Forall_impl; [|exact Hd]. intros d [e [He Hde]]. exists e. split; [right; exact He|exact Hde].
      * eapply Forall_impl; [|exact Hco]. intros d [e [He Hde]]. exists e. split; [right; exact He|exact Hde].
    + apply cbind_ok in H. destruct H as [cs [Hc H]]. apply cbind_ok in H. destruct H as [[das' cos'] [Hr H]].
      inversion H; subst. destruct (IH _ _ Hr) as [Hp [Hd Hco]]. simpl. split.
      { eapply perm_trans; [apply Permutation_sym; apply Permutation_middle|]. apply perm_skip. exact Hp. }
      split.
      * eapply Forall_impl; [|exact Hd]. intros d [e [He Hde]]. exists e. split; [right; exact He|exact Hde].
      * constructor.
        -- exists (name, (FCodata, targs, xs)). split; [left; reflexivity|]. simpl. splits; auto.
           apply collect_dtors_spec. exact Hc.
        -- eapply Forall_impl; [|exact Hco]. intros d [e [He Hde]]. exists e. split; [right; exact He|exact Hde].
Qed.

(* ---------- the run of check, opened up ---------- *)
Lemma check_gen_run : forall eager p q, prog_names_ok p = true -> check_gen eager p = COk q ->
  let ts := tdecls (fpdecls p) in let fs := fdefs (fpdecls p) in
  exists st1 das cos,
    poly_world ts fs /\ pinv ts st1
    /\ collect_types st1 (st_types st1) = COk (das, cos)
    /\ q = mkfcprog (sort_by_name fdaname das) (sort_by_name fcoaname cos) (fcpdefs q)
    /\ forallb (def_closed (ikeys st1)) (fcpdefs q) = true.
Proof.
  intros eager p q Hm H ts fs. unfold check_gen in H.
  apply cbind_ok in H. destruct H as [st [Hb H]].
  destruct (build_symbol_table_spec p st Hb) as [Tb [Hn [Hty [Hc [Hd Hps]]]]].
  pose proof (poly_world_of_prog p Hm Hn (fun td Hin => proj1 (Hps td Hin))) as W.
  unfold check_with_table_gen in H.
  apply cbind_ok in H. destruct H as [[] [Hdecls H]].
  apply cbind_ok in H. destruct H as [[defs st1] [Hdefs H]].
  apply cbind_ok in H. destruct H as [[das cos] [Hcol H]]. inversion H; subst q. clear H.
  rewrite defs_of_fdefs in Hdefs.
  assert (Hnm : forall d, In d (fdefs (fpdecls p)) ->
            ctx_names_ok (fdctx d) = true /\ ty_names_ok (fdret d) = true /\ term_names_ok (fdbody d) = true).
  { intros d Hin. destruct (PW_defs _ _ W d Hin). splits; auto. eapply names_def_body; eassumption. }
  destruct (check_defs_gen_psound _ _ W eager _ st defs st1 Hnm Tb (pinv_start _ st Hty Hc Hd) Hdefs) as [_ [I1 [_ [_ C1]]]].
  exists st1, das, cos. simpl. splits; auto.
Qed.

Lemma decl_names_perm : forall st1 das cos defs,
  collect_types st1 (st_types st1) = COk (das, cos) ->
  Permutation (decl_names (mkfcprog (sort_by_name fdaname das) (sort_by_name fcoaname cos) defs)) (ikeys st1).
Proof.
  intros st1 das cos defs H. destruct (collect_types_spec _ _ _ _ H) as [Hp _].
  unfold decl_names. simpl. eapply perm_trans; [|exact Hp].
  apply Permutation_app; apply Permutation_map; apply sort_by_name_perm.
Qed.
Lemma perm_names_le : forall a b, Permutation a b -> names_le a b.
Proof. intros a b P k H. apply smem_In. apply smem_In in H. eapply Permutation_in; eassumption. Qed.

(* ---------- closure ---------- *)
Theorem check_output_closed : forall eager p q,
  prog_names_ok p = true -> check_gen eager p = COk q -> defs_closed q = true.
Proof.
  intros eager p q Hm H. destruct (check_gen_run eager p q Hm H) as [st1 [das [cos [W [I1 [Hcol [Hq C1]]]]]]].
  unfold defs_closed. rewrite forallb_forall in *. intros d Hd.
  eapply def_closed_mono; [|apply C1; exact Hd].
  apply perm_names_le. apply Permutation_sym. rewrite Hq. apply decl_names_perm. exact Hcol.
Qed.

Theorem check_instance_names_distinct : forall eager p q,
  prog_names_ok p = true -> check_gen eager p = COk q -> NoDup (decl_names q).
Proof.
  intros eager p q Hm H. destruct (check_gen_run eager p q Hm H) as [st1 [das [cos [W [I1 [Hcol [Hq C1]]]]]]].
  rewrite Hq. eapply Permutation_NoDup; [apply Permutation_sym; apply decl_names_perm; exact Hcol|].
  apply (pi_nodup _ _ I1).
Qed.

(* the set of declared names is closed under type arguments: with `List[Pair[i64, Foo]]` also
   `Pair[i64, Foo]` and `Foo` are declared *)
Theorem check_instances_closed_under_targs : forall eager p q n a,
  prog_names_ok p = true -> check_gen eager p = COk q ->
  name_ok n = true -> tys_names_ok a = true ->
  In (print_ty (FDecl n a)) (decl_names q) -> forallb (ty_declared (decl_names q)) a = true.
Proof.
  intros eager p q n a Hm H Nn Na Hin.
  destruct (check_gen_run eager p q Hm H) as [st1 [das [cos [W [I1 [Hcol [Hq C1]]]]]]].
  pose proof (decl_names_perm st1 das cos (fcpdefs q) Hcol) as Hp. rewrite <- Hq in Hp.
  assert (Hi : has_inst_p st1 (FDecl n a)).
  { apply declared_has_inst. simpl. apply smem_In. eapply Permutation_in; [exact Hp|exact Hin]. }
  eapply tys_declared_mono; [apply perm_names_le; apply Permutation_sym; exact Hp|].
  eapply has_inst_targs_declared; eassumption.
Qed.

(* ---------- every declaration of the checked program is an instantiated template ---------- *)
Definition is_data_instance (ts : list tdecl) (d : fdata) : Prop :=
  exists td targs, In td ts /\ td_pol td = FData
    /\ List.length targs = List.length (td_params td) /\ forallb (wf_ty ts) targs = true
    /\ fdaname d = (td_name td ++ print_targs targs)%string /\ fdaparams d = []
    /\ fdactors d = map (fun s => mkfctor (xs_name s) (inst_ctx (td_params td) targs (xs_args s))) (td_xtors td).
Definition is_codata_instance (ts : list tdecl) (d : fcodata) : Prop :=
  exists td targs, In td ts /\ td_pol td = FCodata
    /\ List.length targs = List.length (td_params td) /\ forallb (wf_ty ts) targs = true
    /\ fcoaname d = (td_name td ++ print_targs targs)%string /\ fcoparams d = []
    /\ Forall2 (fun s c => fdtname c = xs_name s /\ fdtargs c = inst_ctx (td_params td) targs (xs_args s)
                           /\ exists r0, xs_ret s = Some r0 /\ fdtcont c = inst (td_params td) targs r0)
         (td_xtors td) (fcodtors d).

Section Instances.
  Variable ts : list tdecl.
  Variable fs : list fdef.
  Hypothesis W : poly_world ts fs.

  Lemma ctors_are_instances : forall st td targs l cs,
    pinv ts st -> In td ts -> td_pol td = FData -> targs_ok ts td targs -> (forall s, In s l -> In s (td_xtors td)) ->
    Forall2 (fun x c => fctname c = x /\ aget (st_ctors st) (x ++ print_targs targs)%string = Some (fctargs c)) (map xs_name l) cs ->
    cs = map (fun s => mkfctor (xs_name s) (inst_ctx (td_params td) targs (xs_args s))) l.
  Proof.
    intros st td targs l. induction l as [|s r IH]; intros cs I Htd Hp Hok Hl H; simpl in H; inversion H; subst; [reflexivity|].
    simpl. f_equal; [|apply IH; auto; intros; apply Hl; right; assumption].
    destruct H2 as [Hn Hg]. destruct y as [cn ca]. simpl in *. subst cn. f_equal.
    assert (Hs : In s (td_xtors td)) by (apply Hl; left; reflexivity).
    destruct (ctor_instance_sound ts fs W _ _ _ _ I (PW_xnames _ _ W td s Htd Hs) (targs_ok_names ts fs W _ _ Hok) Hg)
      as [td' [s' [Htd' [Hp' [Hs' [Hn' [_ ->]]]]]]].
    destruct (xtor_owner_unique ts fs W td td' s s' Htd Htd' ltac:(congruence) Hs Hs' ltac:(congruence)) as [<- <-].
    reflexivity.
  Qed.
  Lemma dtors_are_instances : forall st td targs l cs,
    pinv ts st -> In td ts -> td_pol td = FCodata -> targs_ok ts td targs -> (forall s, In s l -> In s (td_xtors td)) ->
    Forall2 (fun x c => fdtname c = x /\ aget (st_dtors st) (x ++ print_targs targs)%string = Some (fdtargs c, fdtcont c)) (map xs_name l) cs ->
    Forall2 (fun s c => fdtname c = xs_name s /\ fdtargs c = inst_ctx (td_params td) targs (xs_args s)
                        /\ exists r0, xs_ret s = Some r0 /\ fdtcont c = inst (td_params td) targs r0) l cs.
  Proof.
    intros st td targs l. induction l as [|s r IH]; intros cs I Htd Hp Hok Hl H; simpl in H; inversion H; subst; constructor.
    - destruct H2 as [Hn Hg].
      assert (Hs : In s (td_xtors td)) by (apply Hl; left; reflexivity).
      destruct (dtor_instance_sound ts fs W _ _ _ _ _ I (PW_xnames _ _ W td s Htd Hs) (targs_ok_names ts fs W _ _ Hok) Hg)
        as [td' [s' [r0 [Htd' [Hp' [Hs' [Hn' [_ [Hr [Ha Hc]]]]]]]]]].
      destruct (xtor_owner_unique ts fs W td td' s s' Htd Htd' ltac:(congruence) Hs Hs' ltac:(congruence)) as [<- <-].
      splits; auto. eauto.
    - apply IH; auto. intros; apply Hl; right; assumption.
  Qed.
End Instances.

Theorem check_instances_spec : forall eager p q,
  prog_names_ok p = true -> check_gen eager p = COk q ->
  Forall (is_data_instance (tdecls (fpdecls p))) (fcpdata q) /\ Forall (is_codata_instance (tdecls (fpdecls p))) (fcpcodata q).
Proof.
  intros eager p q Hm H. destruct (check_gen_run eager p q Hm H) as [st1 [das [cos [W [I1 [Hcol [Hq C1]]]]]]].
  destruct (collect_types_spec _ _ _ _ Hcol) as [_ [Hd Hco]].
  set (ts := tdecls (fpdecls p)) in *. set (fs := fdefs (fpdecls p)) in *.
  rewrite Hq. simpl. split.
  - eapply Permutation_Forall; [apply Permutation_sym; apply sort_by_name_perm|].
    eapply Forall_impl; [|exact Hd]. intros d [[name [[pol targs] xs]] [He [Hpol [Hname [Hps Hcs]]]]].
    assert (Hg : aget (st_types st1) name = Some (pol, targs, xs)) by (apply In_aget; [apply (pi_nodup _ _ I1)|exact He]).
    destruct (pi_types _ _ I1 _ _ _ _ Hg) as [td [Htd [Ek [Hp [Hxs [Hlen Hwf]]]]]].
    exists td, targs. subst pol. splits; auto; [congruence|].
    subst xs. eapply (ctors_are_instances ts fs W); eauto. split; assumption.
  - eapply Permutation_Forall; [apply Permutation_sym; apply sort_by_name_perm|].
    eapply Forall_impl; [|exact Hco]. intros d [[name [[pol targs] xs]] [He [Hpol [Hname [Hps Hcs]]]]].
    assert (Hg : aget (st_types st1) name = Some (pol, targs, xs)) by (apply In_aget; [apply (pi_nodup _ _ I1)|exact He]).
    destruct (pi_types _ _ I1 _ _ _ _ Hg) as [td [Htd [Ek [Hp [Hxs [Hlen Hwf]]]]]].
    exists td, targs. subst pol. splits; auto; [congruence|].
    subst xs. eapply (dtors_are_instances ts fs W); eauto. split; assumption.
Qed.

(* ---------- the full closure is false ----------
   corpus/fun/c15_unused_field_type.sc:
     data Bar { B }   data Foo { MkFoo(x: Bar), Nope }
     def main(): i64 { Nope.case { MkFoo(x) => 0, Nope => 1 } } *)
Local Open Scope string_scope.
Definition p_unused_field_type : fprog :=
  mkfprog [FDData (mkfdata "Bar" [] [mkfctor "B" []]);
           FDData (mkfdata "Foo" [] [mkfctor "MkFoo" [mkfb "x" FPrd (FDecl "Bar" [])]; mkfctor "Nope" []]);
           FDDef (mkfdef "main" [] FI64
                    (FCase (FCtor "Nope" [] None) []
                       [FClause FData "MkFoo" ["x"] [] (FLit 0); FClause FData "Nope" [] [] (FLit 1)] None))].
Lemma unused_field_type_witness :
  prog_names_ok p_unused_field_type = true /\ has_type_b p_unused_field_type = true
  /\ exists q, check p_unused_field_type = COk q /\ decl_names q = ["Foo"] /\ defs_closed q = true /\ fcprog_closed q = false.
Proof.
  split; [vm_compute; reflexivity|]. split; [vm_compute; reflexivity|].
  eexists. split; [vm_compute; reflexivity|]. split; [reflexivity|]. split; vm_compute; reflexivity.
Qed.
Lemma output_closed_refuted : ~ (forall p q, has_type p -> check p = COk q -> fcprog_closed q = true).
Proof.
  intro H. destruct unused_field_type_witness as [_ [Ht [q [Hq [_ [_ Hc]]]]]].
  rewrite (H _ _ Ht Hq) in Hc. discriminate.
Qed.
