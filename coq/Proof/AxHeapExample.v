(* A concrete program for the Examples of Props/C09.v and Props/C10.v: a loop that in every
   iteration builds a two-element list, a five-field record (two blocks) holding the list twice
   (sharing), takes the record apart (destructive load of a chain), takes the shared list apart
   while it is still referenced (non-destructive load), then again when it is not (destructive),
   drops what is left (erasure onto the deferred list, recycled by the allocations of the next
   iteration), and finally invokes a closure that captured an integer (one block, loaded destructively).  It is written in named AxCut and linearized by the
   model of the compiler's linearization pass. *)
From Coq Require Import String List ZArith NArith Bool.
From SCC Require Import Base.Sexp Lang.AxSyn Sem.AxSem Model.Linearize Model.LinCheck Sem.AxHeap.
From SCC Require Import Proof.AxHeapTyping.
From SCC Require Model.Heap.
Import ListNotations.
Open Scope string_scope.
Open Scope N_scope.

Definition i (n : string) (k : N) : ident := (n, k).
Definition Cont := Decl ("Cont", 0).
Definition ListT := Decl ("List", 0).
Definition RecT := Decl ("Rec", 0).
Definition e (x : ident) := mkb x Ext I64.
Definition pl (x : ident) := mkb x Prd ListT.
Definition ck (x : ident) := mkb x Cns Cont.

Definition hx_types : list tydecl :=
  [ mkt ("Cont", 0) [mkx (i "Ret" 0) [e (i "x" 0)]];
    mkt ("List", 0) [mkx (i "Nil" 0) []; mkx (i "Cons" 0) [e (i "x" 0); pl (i "xs" 0)]];
    mkt ("Rec", 0) [mkx (i "R5" 0) [e (i "a" 0); e (i "b" 0); pl (i "l" 0); e (i "c" 0); pl (i "m" 0)]] ].

(* main(n, w): k = { Ret(r) => s = r + w; println s; exit s }  (captures w); z = 0; loop(n, z, k) *)
Definition hmain_ctx : ctx := [e (i "n" 1); e (i "w" 5)].
Definition hmain_body : stmt :=
  Create (i "k" 2) Cont None
    [ (i "Ret" 0, [e (i "r" 3)],
        Op (i "r" 3) Sum (i "w" 5) (i "s" 6) (PrintI64 true (i "s" 6) (Exit (i "s" 6)))) ]
  (Literal 0 (i "z" 4)
  (Call (i "loop" 0) [e (i "n" 1); e (i "z" 4); ck (i "k" 2)])).

(* loop(j, acc, k): if j == 0 then k.Ret(acc) else
     nil = Nil; l1 = Cons(j, nil); l2 = Cons(j, l1); r = R5(j, acc, l2, j, l2)
     switch r { R5(a, b, l, c, m) =>
       switch l { Nil => k.Ret(a);
                  Cons(y, ys) => switch m { Nil => k.Ret(y);
                                            Cons(y2, ys2) => j' = j - 1; acc' = acc + y2; loop(j', acc', k) } } } *)
Definition hloop_ctx : ctx := [e (i "j" 10); e (i "acc" 11); ck (i "k" 12)].
Definition hloop_body : stmt :=
  IfC Eq (i "j" 10) None
    (Invoke (i "k" 12) (i "Ret" 0) Cont [e (i "acc" 11)])
    (Let (i "nil" 13) ListT (i "Nil" 0) []
    (Let (i "l1" 14) ListT (i "Cons" 0) [e (i "j" 10); pl (i "nil" 13)]
    (Let (i "l2" 15) ListT (i "Cons" 0) [e (i "j" 10); pl (i "l1" 14)]
    (Let (i "r" 16) RecT (i "R5" 0) [e (i "j" 10); e (i "acc" 11); pl (i "l2" 15); e (i "j" 10); pl (i "l2" 15)]
    (Switch (i "r" 16) RecT
      [ (i "R5" 0, [e (i "a" 17); e (i "b" 18); pl (i "l" 19); e (i "c" 20); pl (i "m" 21)],
          Switch (i "l" 19) ListT
            [ (i "Nil" 0, [], Invoke (i "k" 12) (i "Ret" 0) Cont [e (i "a" 17)]);
              (i "Cons" 0, [e (i "y" 22); pl (i "ys" 23)],
                 Switch (i "m" 21) ListT
                   [ (i "Nil" 0, [], Invoke (i "k" 12) (i "Ret" 0) Cont [e (i "y" 22)]);
                     (i "Cons" 0, [e (i "y2" 27); pl (i "ys2" 28)],
                        Literal 1 (i "one" 24)
                        (Op (i "j" 10) Sub (i "one" 24) (i "j2" 25)
                        (Op (i "acc" 11) Sum (i "y2" 27) (i "acc2" 26)
                        (Call (i "loop" 0) [e (i "j2" 25); e (i "acc2" 26); ck (i "k" 12)])))) ]) ]) ]))))).

Definition hx_prog : prog :=
  mkp [mkd (i "main" 0) hmain_ctx hmain_body; mkd (i "loop" 0) hloop_ctx hloop_body] hx_types 28.
Definition hx_lin : prog := linearize hx_prog.

Definition hx_frontier (n : Z) : option (obs * Z) :=
  match hrun_prog 2000 4096 hx_lin [n; 100%Z] with Some (o, c, tr) => Some (o, Heap.frontier (hc_heap c)) | None => None end.
Definition hx_trace (n : Z) : list Heap.op :=
  match hrun_prog 2000 4096 hx_lin [n; 100%Z] with Some (o, c, tr) => tr | None => [] end.
