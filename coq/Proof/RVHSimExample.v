(* C08, heap statements: non-vacuity of rv_codegen_simulates.
   `fits_b`: the numeric hypothesis `heap_fits` decided by running the instrumented machine (the frontier of
   every configuration of a terminating run is checked).  The example program: a loop that in every
   iteration builds a two-element list (Let with 0 and 2 fields), a three-field record holding the list
   twice (sharing), takes the record apart (Switch, destructive load), takes the shared list apart while
   it is still referenced (non-destructive load) and again when it is not, drops what is left (erasure,
   recycled by the next allocations), and finally invokes a closure that captured an integer.  It is written
   in named AxCut and linearized by the model of the compiler's linearization pass.  All hypotheses are
   evaluated, and both machines are computed. *)
From Coq Require Import List ZArith NArith String Bool Lia.
From SCC Require Import Base.Sexp Lang.AxSyn Sem.AxSem Sem.AxHeap Model.Backend Model.RV Sem.RVSem Sem.RVWf
     Model.Linearize Model.LinCheck Model.Capacity Proof.RVSimAddr Proof.RVSimTop Proof.RVHDefs Proof.RVHFrag Proof.X86HAnn Proof.RVHSimProgA Proof.RVHSimTop.
From SCC Require Model.Heap Proof.AxHeapTyping.
Import ListNotations.
Open Scope Z_scope.

Fixpoint fits_b (fuel : nat) (p : prog) (c : hconf) : bool :=
  (Heap.frontier (hc_heap c) + 64 <=? LIMIT) &&
  match fuel with
  | O => false
  | S f =>
      match hstep p (hc_env c) (hc_heap c) (hc_stmt c) with
      | HEnd _ => true
      | HStep ops he' s' _ => fits_b f p (mkhc he' (hrun ops (hc_heap c)) s')
      end
  end.
Definition fits_run (fuel : nat) (p : prog) (args : list Z) : bool :=
  match pdefs p with
  | d :: _ => match entry_env d args with Some e => fits_b fuel p (hinit HEAP_BASE d e) | None => true end
  | [] => true
  end.

Lemma hsteps_left p c tr c' : hsteps p c tr c' ->
  c' = c \/ exists ops he' s' pr tr', hstep p (hc_env c) (hc_heap c) (hc_stmt c) = HStep ops he' s' pr /\
                                      hsteps p (mkhc he' (hrun ops (hc_heap c)) s') tr' c'.
Proof.
  induction 1 as [c|c tr c1 ops he' s' pr H IH HS]; [now left|right].
  destruct IH as [->|(ops0 & he0 & s0 & pr0 & tr0 & HS0 & H0)].
  - exists ops, he', s', pr, []. split; [exact HS|apply hsteps_refl].
  - exists ops0, he0, s0, pr0, ((tr0 ++ ops)%list). split; [exact HS0|]. eapply hsteps_step; eauto.
Qed.
Lemma fits_b_sound p : forall fuel c, fits_b fuel p c = true ->
  forall tr c', hsteps p c tr c' -> Heap.frontier (hc_heap c') + 64 <= LIMIT.
Proof.
  induction fuel as [|f IH]; intros c H tr c' HS; cbn [fits_b] in H; apply andb_true_iff in H as [T H]; [discriminate|].
  apply Z.leb_le in T. destruct (hsteps_left p c tr c' HS) as [->|(ops & he' & s' & pr & tr' & E & HS')]; [exact T|].
  rewrite E in H. exact (IH _ H tr' c' HS').
Qed.
Theorem fits_run_sound fuel p args : fits_run fuel p args = true -> heap_fits p args.
Proof.
  intros H tr c (d & ds & e & PD & EN & HS). unfold fits_run in H. rewrite PD, EN in H.
  exact (fits_b_sound p fuel _ H tr c HS).
Qed.

(* ---------- the example ---------- *)
Section Ex.
Local Open Scope string_scope.
Local Open Scope N_scope.
Definition hi (n : string) (k : N) : ident := (n, k).
Definition HCont := Decl ("Cont", 0).
Definition HListT := Decl ("List", 0).
Definition HRecT := Decl ("Rec", 0).
Definition he_ (x : ident) := mkb x Ext I64.
Definition hpl (x : ident) := mkb x Prd HListT.
Definition hck (x : ident) := mkb x Cns HCont.

Definition rh_types : list tydecl :=
  [ mkt ("Cont", 0) [mkx (hi "Ret" 0) [he_ (hi "x" 0)]];
    mkt ("List", 0) [mkx (hi "Nil" 0) []; mkx (hi "Cons" 0) [he_ (hi "x" 0); hpl (hi "xs" 0)]];
    mkt ("Rec", 0) [mkx (hi "R3" 0) [he_ (hi "a" 0); hpl (hi "l" 0); hpl (hi "m" 0)]] ].

(* main(n, w): k = { Ret(r) => s = r + w; exit s }  (captures w); z = 0; loop(n, z, k) *)
Definition rh_main_ctx : ctx := [he_ (hi "n" 1); he_ (hi "w" 5)].
Definition rh_main_body : stmt :=
  Create (hi "k" 2) HCont None
    [ (hi "Ret" 0, [he_ (hi "r" 3)],
        Op (hi "r" 3) Sum (hi "w" 5) (hi "s" 6) (Exit (hi "s" 6))) ]
  (Literal 0 (hi "z" 4)
  (Call (hi "loop" 0) [he_ (hi "n" 1); he_ (hi "z" 4); hck (hi "k" 2)])).

(* loop(j, acc, k): if j == 0 then k.Ret(acc) else
     nil = Nil; l1 = Cons(j, nil); l2 = Cons(j, l1); r = R3(acc, l2, l2)
     switch r { R3(a, l, m) =>
       switch l { Nil => k.Ret(a);
                  Cons(y, ys) => switch m { Nil => k.Ret(y);
                                            Cons(y2, ys2) => j' = j - 1; acc' = acc + y2; loop(j', acc', k) } } } *)
Definition rh_loop_ctx : ctx := [he_ (hi "j" 10); he_ (hi "acc" 11); hck (hi "k" 12)].
Definition rh_loop_body : stmt :=
  IfC Eq (hi "j" 10) None
    (Invoke (hi "k" 12) (hi "Ret" 0) HCont [he_ (hi "acc" 11)])
    (Let (hi "nil" 13) HListT (hi "Nil" 0) []
    (Let (hi "l1" 14) HListT (hi "Cons" 0) [he_ (hi "j" 10); hpl (hi "nil" 13)]
    (Let (hi "l2" 15) HListT (hi "Cons" 0) [he_ (hi "j" 10); hpl (hi "l1" 14)]
    (Let (hi "r" 16) HRecT (hi "R3" 0) [he_ (hi "acc" 11); hpl (hi "l2" 15); hpl (hi "l2" 15)]
    (Switch (hi "r" 16) HRecT
      [ (hi "R3" 0, [he_ (hi "a" 17); hpl (hi "l" 19); hpl (hi "m" 21)],
          Switch (hi "l" 19) HListT
            [ (hi "Nil" 0, [], Invoke (hi "k" 12) (hi "Ret" 0) HCont [he_ (hi "a" 17)]);
              (hi "Cons" 0, [he_ (hi "y" 22); hpl (hi "ys" 23)],
                 Switch (hi "m" 21) HListT
                   [ (hi "Nil" 0, [], Invoke (hi "k" 12) (hi "Ret" 0) HCont [he_ (hi "y" 22)]);
                     (hi "Cons" 0, [he_ (hi "y2" 27); hpl (hi "ys2" 28)],
                        Literal 1 (hi "one" 24)
                        (Op (hi "j" 10) Sub (hi "one" 24) (hi "j2" 25)
                        (Op (hi "acc" 11) Sum (hi "y2" 27) (hi "acc2" 26)
                        (Call (hi "loop" 0) [he_ (hi "j2" 25); he_ (hi "acc2" 26); hck (hi "k" 12)])))) ]) ]) ]))))).

Definition rh_prog : prog :=
  mkp [mkd (hi "main" 0) rh_main_ctx rh_main_body; mkd (hi "loop" 0) rh_loop_ctx rh_loop_body] rh_types 28.
End Ex.
Definition rh_lin : prog := linearize rh_prog.

Definition rh_code : list rcode := match rv_compile rh_lin 0 with Ok (cs, _, _) => cs | Err _ => [] end.

Lemma rh_hypotheses :
  h_frag rh_lin = true /\ XTC.entry_int rh_lin = true /\ lin_check_prog rh_lin = true /\ ann_check_prog rh_lin = true /\
  (exists lc', rv_compile rh_lin 0 = Ok (rh_code, 2%nat, lc')) /\ asm_wf rh_code = None /\ code_small rh_code = true /\
  Nat.leb (main_arity rh_lin) 14 = true /\ fits_run 2000 rh_lin [3; 100] = true.
Proof.
  split; [vm_compute; reflexivity|]. split; [vm_compute; reflexivity|]. split; [vm_compute; reflexivity|].
  split; [vm_compute; reflexivity|].
  split; [eexists; vm_compute; reflexivity|]. split; [vm_compute; reflexivity|]. split; [vm_compute; reflexivity|].
  split; vm_compute; reflexivity.
Qed.

(* the theorem applies: there are step counts for which the RISC-V run gives the observation of the linear machine ... *)
Lemma rh_simulated : exists outer inner, fst (run_rv outer inner rh_code [3; 100]) = run_linear 2000 rh_lin [3; 100].
Proof.
  destruct rh_hypotheses as (H1 & H2 & H3 & H4 & (lc' & H5) & H6 & H7 & H8 & H9).
  eapply (rv_codegen_simulates rh_lin 0 rh_code 2 lc' [3; 100] 2000); eauto.
  - now apply fits_run_sound with (fuel := 2000%nat).
  - vm_compute. discriminate.
Qed.
(* ... and, evaluated, both sides: three iterations, each allocating, sharing, loading and dropping objects; the
   closure adds the captured 100 *)
Lemma rh_runs :
  run_linear 2000 rh_lin [3; 100] = ([], OExit 106) /\
  fst (run_rv 20 2000 rh_code [3; 100]) = ([], OExit 106).
Proof. split; vm_compute; reflexivity. Qed.
