(* CHAIN VERSION of Proof/RVHSimHeapB.v.  C08, forward simulation for HEAP statements, part 6b: Let and Create on RISC-V,
   objects and closure environments of ANY number of fields (chains of blocks); `hclo_ok` of a new closure is built from
   Proof/RVKLayout.dispatch_layout_nz (landing conditional on an instruction in the clause code).  The counterpart of Proof/X86HSimHeapB.v.
   Let:    `r_store` of the arguments (hsim_store_any), then `LI` of the jump-table offset of the tag into the
           second register of the new position;
   Create: `r_store` of the captured variables, then `LA` of the label in front of the closure's code into
           the second register of the new position; that address satisfies `hclo_ok` (RVKClo.v): it - plus
           4k for two or more clauses - leads to the code `load of the captured environment ++ body` of
           clause k (dispatch_layout), generated for the clause context followed by the captured context. *)
From Coq Require Import List ZArith NArith String Bool Lia FMapPositive Permutation.
From SCC Require Import Base.Sexp Lang.AxSyn Sem.AxSem Sem.AxHeap Model.ParMoves Model.Backend Model.RV Sem.RVSem Sem.RVWf
     Model.Linearize Model.LinCheck Generated.Constants Proof.LinBasics Proof.LinTyping
     Proof.RVSel Proof.SubstGraph Proof.SubstBackends Proof.RVSubst Proof.RVSimAddr Proof.BackendInv Proof.RVSimRel Proof.RVSimStmt
     Proof.RVSimClo Proof.RVHeapAbs Proof.RVHDefs Proof.RVHMem Proof.RVHBridge Proof.HRep Proof.RVKSimRel Proof.RVKSimStmt
     Proof.RVKSimStore Proof.RVKSimLoad Proof.RVHLayout Proof.RVKLayout Proof.RVKFrag Proof.RVKClo Proof.X86HAnn.
From SCC Require Model.Heap Proof.HeapMore Proof.HeapTrace Proof.HeapRep.
Import ListNotations.
Open Scope Z_scope.
Open Scope list_scope.

Lemma same_kinds_intro (fs : list value) (sg : ctx) : List.length fs = List.length sg ->
  (forall i f b, nth_error fs i = Some f -> nth_error sg i = Some b -> chi_of f = bchi b /\ ty_of f = bty b) ->
  HRep.same_kinds fs sg.
Proof.
  revert sg. induction fs as [|f fs IH]; intros [|b sg] L H; cbn in L; try discriminate; constructor.
  - apply (H O); reflexivity.
  - apply IH; [lia|]. intros i f' b' Hf Hb. apply (H (S i)); assumption.
Qed.
Lemma same_kt_nth (a b : ctx) i x : same_kt a b -> nth_error a i = Some x ->
  exists y, nth_error b i = Some y /\ bchi x = bchi y /\ bty x = bty y.
Proof.
  intros H. revert i x. induction H as [|x0 y0 a b [K T] _ IH]; intros [|i] x Hx; cbn [nth_error] in *; try discriminate.
  - inversion Hx; subst. eauto.
  - eauto.
Qed.
Lemma ty_name_Decl t tn : ty_name t = Some tn -> t = Decl tn.
Proof. destruct t; cbn; intros H; [discriminate|congruence]. Qed.

(* the captured environment of a new closure stands for exactly the context it was taken from *)
Lemma ctx_of_env_bind (env : ctx) (vs : list value) ce :
  bind (vars env) vs = Some ce ->
  (forall i b v, nth_error env i = Some b -> nth_error vs i = Some v -> chi_of v = bchi b /\ ty_of v = bty b) ->
  HRep.ctx_of_env ce = env /\ map snd ce = vs.
Proof.
  revert vs ce. induction env as [|b env IH]; intros [|v vs] ce H K; cbn [vars map bind] in H; try discriminate.
  - inversion H; subst. split; reflexivity.
  - destruct (bind (map bvar env) vs) as [cr|] eqn:B; [|discriminate]. inversion H; subst ce.
    destruct (IH vs cr B) as [E1 E2]; [intros i b' v' Hb Hv; apply (K (S i)); assumption|].
    destruct (K O b v eq_refl eq_refl) as [K1 K2].
    split; [|cbn; now rewrite E2]. unfold HRep.ctx_of_env in *. cbn [map fst snd]. rewrite E1. f_equal.
    destruct b as [bv bc bt]. cbn in *. now rewrite K1, K2.
Qed.

Lemma firstn_app_exact {X} (a b : list X) n : List.length b = n -> firstn (List.length (a ++ b) - n) (a ++ b) = a.
Proof. intros L. rewrite app_length, L. replace (List.length a + n - n)%nat with (List.length a) by lia. rewrite firstn_app, firstn_all, Nat.sub_diag. cbn. now rewrite app_nil_r. Qed.

Section HB.
Variable im : image.
Variable p : prog.
Variable stop : positive.
Hypothesis IMG : rimg_ok im.
Hypothesis FWD : fwd_ok im.
Hypothesis EVEN : forall pc a, PM.find pc (addr_of im) = Some a -> a mod 2 = 0.
Hypothesis SMALL : forall pc a, PM.find pc (addr_of im) = Some a -> a < 4611686018427387904 - 32.
Hypothesis STOPC : exists l, PM.find stop (code im) = Some (LAB l).
Hypothesis ENDC : PM.find (Pos.succ stop) (code im) = None.

Local Notation CLO := (hclo_ok im p stop).
Local Notation hrel := (hrel (ptypes p) CLO).
Local Notation hvrep := (hvrep (ptypes p) CLO).
Local Notation xrep := (HRep.xrep (ptypes p) CLO jump_length any_int).
Local Notation xflds := (HRep.xflds (ptypes p) CLO jump_length any_int).

(* the address a + 4k of entry k of a jump table is an address of the image (hclo_ok: the offset added by the repaired
   add_and_jump does not wrap) *)
Lemma table_entry_small pcl fresh cls c5 a k c :
  placed im pcl (([LAB fresh] ++ table_or_nil rv_backend cls fresh) ++ c5) ->
  PM.find pcl (addr_of im) = Some a -> nth_error cls k = Some c ->
  a + (if Nat.leb (List.length cls) 1 then 0 else jump_length (N.of_nat k)) < 4611686018427387904 - 32.
Proof.
  intros [CA _] AL Hk. destruct (Nat.leb (List.length cls) 1) eqn:LE; [rewrite Z.add_0_r; exact (SMALL _ _ AL)|].
  assert (Lk : (k < List.length cls)%nat) by (apply nth_error_Some; congruence).
  unfold table_or_nil in CA. rewrite LE in CA. rewrite <- !app_assoc in CA. cbn [app] in CA.
  set (full := LAB fresh :: code_table rv_backend cls fresh ++ c5) in *.
  assert (NJ : nth_error full (1 + k) = Some (JAL ZERO (fresh +++ "_" +++ show_ident (cl_xtor c)))).
  { unfold full. cbn [Nat.add nth_error]. rewrite nth_error_app1 by (rewrite code_table_length; lia). apply code_table_nth. exact Hk. }
  pose proof (addr_along im IMG full pcl a CA AL (1 + k)%nat _ NJ) as AJ.
  assert (SZ : size_of (firstn (1 + k) full) = 4 * Z.of_nat k).
  { unfold full. cbn [Nat.add firstn size_of isize]. rewrite firstn_app. replace (k - List.length (code_table rv_backend cls fresh))%nat with O by (rewrite code_table_length; lia).
    cbn [firstn]. rewrite app_nil_r, code_table_size by lia. lia. }
  rewrite SZ in AJ. unfold jump_length. rewrite nat_N_Z. exact (SMALL _ _ AJ).
Qed.

(* the kinds of the stored values are those of the bindings of the context suffix *)
Lemma suffix_kinds rest args he0 fsE hs s i b en :
  hrel (rest ++ args) (he0 ++ fsE) hs s -> List.length he0 = List.length rest ->
  nth_error args i = Some b -> nth_error fsE i = Some en -> chi_of (h_val en) = bchi b /\ ty_of (h_val en) = bty b /\ idn (h_id en) = idn (bvar b).
Proof.
  intros R L Hb He. destruct en as [[x v] q].
  destruct (hrel_vals_app (ptypes p) CLO rest args he0 fsE hs s i x v q R L He) as (b' & Hb' & V).
  assert (b' = b) by congruence. subst b'. cbn [h_val h_id fst snd].
  assert (EI : idn x = idn (bvar b)).
  { destruct (henv_ctx_nth (rest ++ args) (he0 ++ fsE) (List.length rest + i) x v q (hr_ids R)) as (b0 & Hb0 & E0).
    - rewrite nth_error_app2 by lia. replace (List.length rest + i - List.length he0)%nat with i by lia. exact He.
    - rewrite nth_error_app2 in Hb0 by lia. rewrite Nat.add_comm, Nat.add_sub in Hb0. congruence. }
  destruct V as [b z q t A B T Lg|b v q a t1 t2 A K1 K2 T1 T2 L1 L2 X]; cbn; auto.
Qed.

(* writing the second register of the next position *)
Lemma snd_write (s : rstate) n t a :
  rtpos Snd n = Ok t ->
  t = pos_reg Snd n /\ (n < 14)%nat /\
  (forall a0, hword (rset s t (Some a)) a0 = hword s a0) /\
  (forall r, r <> pos_reg Snd n -> r <> TEMP -> rget (rset s t (Some a)) r = rget s r) /\
  rget (rset s t (Some a)) (pos_reg Snd n) = Some a.
Proof.
  intros T. pose proof (rtpos_regs _ _ _ T) as (NZ & _). apply rtpos_val in T as [-> L].
  split; [reflexivity|]. split; [exact L|]. split; [intros a0; apply hword_rset|].
  split; [intros r NR _; apply rget_rset_other; congruence|]. apply rget_rset_same. exact NZ.
Qed.

(* ---------- Let ---------- *)
Theorem hsim_let c he hs s v t tag args next lc code lc' pc he0 fs tn hl fl cl :
  hrel c he hs s ->
  lin_check (sigs_of p) c (Let v t tag args next) = true ->
  rcs (ptypes p) (Let v t tag args next) c lc = Ok (code, lc') -> placed im pc code ->
  ty_name t = Some tn -> AxSem.split_last (List.length args) he = Some (he0, fs) ->
  InvA HEAP_BASE hs (roots he) hl fl cl -> P03 hs ->
  (forall en, In en he -> chi_of (h_val en) = Ext -> h_ptr en = 0) ->
  let res := Heap.alloc_object (map store_ptr fs) hs in
  Heap.frontier hs + 64 <= LIMIT -> Heap.frontier (snd res) + 64 <= LIMIT ->
  let c0 := firstn (List.length c - List.length args) c in
  exists c12 c3 lc1 s',
    code = c12 ++ c3 /\ rcs (ptypes p) next (c0 ++ [mkb v Prd t]) lc1 = Ok (c3, lc') /\
    lin_check (sigs_of p) (c0 ++ [mkb v Prd t]) next = true /\
    star im pc s (padd pc (List.length c12)) s' /\
    hrel (c0 ++ [mkb v Prd t]) (he0 ++ [(v, VObj tn tag (map h_val fs), fst res)]) (snd res) s'.
Proof.
  intros R LC CS PL TN SL IA K03 EX res HF1 HF2 c0'.
  destruct (cs_let _ _ _ _ _ _ _ _ _ _ CS) as (d & k & rest & arguments & c1 & lc1 & tmpv & c3 & LT & XP & BS & XS & TV & NX & ->).
  apply bsplit_last_app in BS as [-> LA1]. apply asplit_last_app in SL as [-> LF].
  apply ty_name_Decl in TN. subst t.
  pose proof (hrel_length R) as LEN. rewrite !app_length in LEN.
  assert (L0 : List.length he0 = List.length rest) by lia.
  (* the typing side *)
  cbn [lin_check] in LC. apply andb_true_iff in LC as [_ LC].
  destruct (split_lastn (List.length args) (rest ++ arguments)) as [[c0 tl]|] eqn:SPL; [|discriminate].
  apply split_lastn_Some in SPL as [SPE SPLn].
  apply app_inv_len in SPE as [<- <-]; [|apply (f_equal (@List.length binding)) in SPE; rewrite !app_length in SPE; lia].
  apply andb_true_iff in LC as [LC LCn]. apply andb_true_iff in LC as [CM AO].
  apply ctx_match_Prop in CM as [IDS SKT].
  unfold args_ok in AO. destruct (lookup_xtor (sigs_of p) (Decl tn) tag) as [sg|] eqn:LX; [|discriminate].
  apply sig_match_iff in AO.
  pose proof (XS.lin_nodup _ _ _ LCn) as NDn.
  (* the store *)
  rewrite app_assoc in PL. apply placed_app in PL as [PL12 PL3]. apply placed_app in PL12 as [PL1 PL2].
  assert (IA' : InvA HEAP_BASE hs (roots (he0 ++ fs)) hl fl cl) by exact IA.
  destruct (hsim_store_any im (ptypes p) CLO rest arguments he0 fs hs s lc c1 lc1 pc hl fl cl R L0 IA' K03
              ltac:(intros en Hen; apply EX; apply in_app_iff; now right) XS PL1 HF1 HF2)
    as (s1 & X1 & R1 & Lt1 & XF1).
  fold res in R1, Lt1, XF1.
  (* the tag *)
  assert (T2 : rtpos Snd (List.length rest) = Ok tmpv) by (apply (rvt_fresh rest (mkb v Prd (Decl tn)) tmpv NDn TV)).
  destruct (snd_write s1 _ _ (jump_length k) T2) as (ET & L14 & HW2 & K2 & V2).
  set (s2 := rset s1 tmpv (Some (jump_length k))) in *.
  (* the constructor and the kinds of its fields *)
  assert (TW : HRep.tag_word (ptypes p) jump_length tn tag (map h_val fs) (jump_length k)).
  { unfold lookup_type in LT. destruct (find (fun d0 => ident_eqb (tname d0) tn) (ptypes p)) as [d0|] eqn:FD; [|discriminate].
    inversion LT; subst d0. unfold lookup_xtor, type_xtors in LX. cbn [sigs_of sg_types] in LX. rewrite FD in LX.
    destruct (find (fun x => ident_eqb (xname x) tag) (txtors d)) as [x|] eqn:FX; [|discriminate]. inversion LX; subst sg.
    exists d, k, x. repeat split; auto.
    apply same_kinds_intro.
    - rewrite map_length. apply same_kt_length in AO. lia.
    - intros i f b Hf Hb. rewrite nth_error_map in Hf. destruct (nth_error fs i) as [en|] eqn:He; [|discriminate].
      cbn in Hf. inversion Hf; subst f.
      assert (Li : (i < List.length arguments)%nat) by (apply nth_error_Some_lt in He; lia).
      destruct (nth_error arguments i) as [ba|] eqn:Ha; [|apply nth_error_None in Ha; lia].
      destruct (suffix_kinds rest arguments he0 fs hs s i ba en R L0 Ha He) as (K1 & K2' & _).
      destruct (same_kt_nth _ _ i ba SKT Ha) as (b1 & Hb1 & K3 & K4).
      destruct (same_kt_nth _ _ i b1 AO Hb1) as (b2 & Hb2 & K5 & K6).
      assert (b2 = b) by congruence. subst b2. split; congruence. }
  assert (EC0 : c0' = rest) by (unfold c0'; apply firstn_app_exact; exact LA1). rewrite EC0. clear EC0 c0'.
  exists (c1 ++ r_load_immediate tmpv (jump_length k)), c3, lc1, s2.
  split; [now rewrite app_assoc|]. split; [exact NX|]. split; [exact LCn|]. split.
  { rewrite app_length, padd_add. eapply star_trans; [exact X1|].
    unfold r_load_immediate in *. cbn [List.length]. rewrite padd_1.
    eapply star_next; [exact (proj1 PL2)|]. intros ad. reflexivity. }
  apply (hrel_push_ptr (ptypes p) CLO rest he0 (snd res) s1 s2 v (mkb v Prd (Decl tn)) (VObj tn tag (map h_val fs)) (fst res) (jump_length k));
    auto; try reflexivity; try (cbn; discriminate).
  constructor; [exact TW|exact XF1].
Qed.

(* ---------- Create ---------- *)
Theorem hsim_create c he hs s v t env cls next lc code lc' pc he0 cap tn ce hl fl cl :
  hrel c he hs s ->
  lin_check (sigs_of p) c (Create v t (Some env) cls next) = true ->
  skipn (List.length c - List.length env) c = env -> ann_clauses_cr env cls = true ->
  clauses_k cls = true ->
  rcs (ptypes p) (Create v t (Some env) cls next) c lc = Ok (code, lc') -> placed im pc code ->
  ty_name t = Some tn -> AxSem.split_last (List.length env) he = Some (he0, cap) ->
  bind (vars env) (map h_val cap) = Some ce ->
  InvA HEAP_BASE hs (roots he) hl fl cl -> P03 hs ->
  (forall en, In en he -> chi_of (h_val en) = Ext -> h_ptr en = 0) ->
  let res := Heap.alloc_object (map store_ptr cap) hs in
  Heap.frontier hs + 64 <= LIMIT -> Heap.frontier (snd res) + 64 <= LIMIT ->
  let c0 := firstn (List.length c - List.length env) c in
  exists c12 c3 lc2 lc3 rest' s',
    code = c12 ++ c3 ++ rest' /\ rcs (ptypes p) next (c0 ++ [mkb v Cns t]) lc2 = Ok (c3, lc3) /\
    lin_check (sigs_of p) (c0 ++ [mkb v Cns t]) next = true /\
    star im pc s (padd pc (List.length c12)) s' /\
    hrel (c0 ++ [mkb v Cns t]) (he0 ++ [(v, VClo tn cls ce, fst res)]) (snd res) s'.
Proof.
  intros R LC ANN ANC CH CS PL TN SL BD IA K03 EX res HF1 HF2 c0'.
  destruct (cs_create _ _ _ _ _ _ _ _ _ _ _ CS) as (rest & cenv & c1 & lc1 & tmpv & c3 & lc3 & c5 & BS & XS & TV & NX & CC & E).
  cbn [b_mark b_load_label b_label b_store rv_backend r_load_label] in E, XS. rewrite app_nil_l in E. subst code.
  apply bsplit_last_app in BS as [-> LA1]. apply asplit_last_app in SL as [-> LF].
  apply ty_name_Decl in TN. subst t.
  pose proof (hrel_length R) as LEN. rewrite !app_length in LEN.
  assert (L0 : List.length he0 = List.length rest) by lia.
  assert (ECE : cenv = env).
  { rewrite app_length, LA1 in ANN. replace (List.length rest + List.length env - List.length env)%nat with (List.length rest) in ANN by lia.
    rewrite skipn_app, skipn_all, Nat.sub_diag in ANN. exact ANN. }
  subst cenv.
  (* the typing side *)
  rewrite lin_check_create in LC. apply andb_true_iff in LC as [_ LC].
  destruct (split_lastn (List.length env) (rest ++ env)) as [[c0 tl]|] eqn:SPL; [|discriminate].
  apply split_lastn_Some in SPL as [SPE SPLn].
  apply app_inv_len in SPE as [<- <-]; [|apply (f_equal (@List.length binding)) in SPE; rewrite !app_length in SPE; lia].
  apply andb_true_iff in LC as [LC LCn]. apply andb_true_iff in LC as [LC LCc]. apply andb_true_iff in LC as [_ CO].
  pose proof (XS.lin_nodup _ _ _ LCn) as NDn.
  set (fresh := type_label (Decl tn) (lc1 + 1)%N) in *.
  (* the store *)
  pose proof PL as PL0.
  apply placed_app in PL as [PL1 PL]. apply placed_app in PL as [PL2 PL]. apply placed_app in PL as [PL3 PL].
  assert (IA' : InvA HEAP_BASE hs (roots (he0 ++ cap)) hl fl cl) by exact IA.
  destruct (hsim_store_any im (ptypes p) CLO rest env he0 cap hs s lc c1 lc1 pc hl fl cl R L0 IA' K03
              ltac:(intros en Hen; apply EX; apply in_app_iff; now right) XS PL1 HF1 HF2)
    as (s1 & X1 & R1 & Lt1 & XF1).
  fold res in R1, Lt1, XF1.
  (* the label of the closure *)
  set (P := c1 ++ [LA tmpv fresh] ++ c3).
  set (pcl := padd pc (List.length P)).
  assert (PLL : placed im pcl (([LAB fresh] ++ table_or_nil rv_backend cls fresh) ++ c5)).
  { unfold pcl, P. rewrite !app_length, !padd_add. exact PL. }
  assert (CL0 : PM.find pcl (code im) = Some (LAB fresh)).
  { exact (proj1 (proj1 PLL O (LAB fresh) eq_refl)). }
  destruct (io_addr im IMG pcl _ CL0) as (a & AL & GE).
  assert (FL : find_label (labels im) fresh = Some pcl).
  { exact (proj2 PLL O fresh eq_refl). }
  pose proof (label_addr_of im fresh pcl a FL AL) as LAD.
  rewrite clauses_code_gclauses in CC.
  (* the closure *)
  assert (KIN : forall i b w, nth_error env i = Some b -> nth_error (map h_val cap) i = Some w -> chi_of w = bchi b /\ ty_of w = bty b).
  { intros i b w Hb Hw. rewrite nth_error_map in Hw. destruct (nth_error cap i) as [en|] eqn:He; [|discriminate].
    cbn in Hw. inversion Hw; subst w. destruct (suffix_kinds rest env he0 cap hs s i b en R L0 Hb He) as (K1 & K2 & _). auto. }
  destruct (ctx_of_env_bind env (map h_val cap) ce BD KIN) as [ECTX ESND].
  assert (HCLO : CLO a tn cls (HRep.ctx_of_env ce)).
  { rewrite ECTX. split; [exact CO|]. split; [split; [unfold CODE_BASE in GE; lia|exact (SMALL _ _ AL)]|].
    split; [exact (EVEN _ _ AL)|].
    intros k cl0 Hk.
    destruct (dispatch_layout_nz im stop IMG FWD STOPC ENDC (ptypes p) (fun cx lc0 => r_load env cx lc0) (fun cx => cx ++ env)
                pcl fresh cls c5 lc3 lc' a PLL CC AL k cl0 Hk)
      as (pcc & lcl & cl1 & lcb & cb & lcb' & _ & _ & LD & BD' & PLb & LAND).
    exists pcc, lcl, cl1, lcb, cb, lcb'. split; [exact LD|]. split; [exact BD'|]. split; [exact PLb|].
    pose proof (nth_error_In _ _ Hk) as Hin.
    split; [|split; [|split; [|split]]].
    - unfold lin_clauses_cr in LCc. rewrite forallb_forall in LCc. apply LCc. exact Hin.
    - unfold ann_clauses_cr in ANC. rewrite forallb_forall in ANC. apply ANC. exact Hin.
    - unfold clauses_k in CH. rewrite forallb_forall in CH. specialize (CH cl0 Hin). exact CH.
    - exact (table_entry_small pcl fresh cls c5 a k cl0 PLL AL Hk).
    - intros NZ. apply LAND. left. exact NZ. }
  (* the code address *)
  assert (T2 : rtpos Snd (List.length rest) = Ok tmpv) by (apply (rvt_fresh rest (mkb v Cns (Decl tn)) tmpv NDn TV)).
  destruct (snd_write s1 _ _ a T2) as (ET & L14 & HW2 & K2 & V2).
  set (s2 := rset s1 tmpv (Some a)) in *.
  assert (EC0 : c0' = rest) by (unfold c0'; apply firstn_app_exact; exact LA1). rewrite EC0. clear EC0 c0'.
  exists (c1 ++ [LA tmpv fresh]), c3, (lc1 + 1)%N, lc3, (([LAB fresh] ++ table_or_nil rv_backend cls fresh) ++ c5), s2.
  split; [now rewrite <- !app_assoc|]. split; [exact NX|]. split; [exact LCn|]. split.
  { rewrite app_length, padd_add. eapply star_trans; [exact X1|].
    cbn [List.length]. rewrite padd_1.
    eapply star_next; [exact (proj1 PL2)|]. intros ad. cbn [step]. rewrite LAD. reflexivity. }
  apply (hrel_push_ptr (ptypes p) CLO rest he0 (snd res) s1 s2 v (mkb v Cns (Decl tn)) (VClo tn cls ce) (fst res) a);
    auto; try reflexivity; try (cbn; discriminate).
  constructor; [exact HCLO|]. rewrite ESND. exact XF1.
Qed.
End HB.
