(* C19, the renaming pass `uniquify` (Model/Uniquify.v) preserves every size measure: it replaces
   variables by variables (subst_sim with a range of XVar terms) and renames binders in contexts of
   unchanged length.  Proved for the parametrised measure cz k of Proof/SizeGen.v, read off for the
   node count (size_cprog) and the weighted size (c_wprog); with focus_stmt_size this gives the
   unconditional bound for Prog::focus. *)
From Coq Require Import String List ZArith NArith Bool Lia.
From SCC Require Import Base.Sexp Lang.SynUtil Lang.CoreSyn Lang.SynInd Lang.AxSize Lang.FsSize Lang.CoreSize
     Model.Backend Model.Uniquify Model.Focus Proof.SizeLin Proof.SizeGen Proof.SizeFocus.
Import ListNotations.
Open Scope list_scope.
Open Scope N_scope.
Local Arguments N.add : simpl never.
Local Arguments N.mul : simpl never.
Local Arguments len : simpl never.

Ltac bindr H :=
  match type of H with
  | rbind ?e _ = Ok _ => let E := fresh "E" in destruct e eqn:E; [cbn [rbind] in H | discriminate H]
  end.

Section K.
  Variable k : N.
  Notation zt := (cz_term k).
  Notation za := (cz_arg k).
  Notation zc := (cz_clause k).
  Notation zs := (cz_stmt k).

  (* a substitution whose range consists of terms of size 1 (variables) *)
  Definition vsub (s : csubst) : Prop := Forall (fun p => zt (snd p) = 1) s.

  Lemma vsub_filter : forall f s, vsub s -> vsub (filter f s).
  Proof.
    intros f s H. unfold vsub in *. rewrite Forall_forall in *. intros p Hp. apply filter_In in Hp. apply H. tauto.
  Qed.
  Lemma vsub_find : forall x s t, vsub s -> subst_find x s = Some t -> zt t = 1.
  Proof.
    intros x s t H. induction H as [|[v u] r Hu Hr IH]; cbn [subst_find]; [discriminate|].
    destruct (cident_eqb v x); [intros E; inversion E; subst; exact Hu | exact IH].
  Qed.

  Lemma mapr_args_size : forall ps cs args,
    Forall (fun a => forall a', subst_arg a ps cs = Ok a' -> za a' = za a) args ->
    forall args', mapr (fun a => subst_arg a ps cs) args = Ok args' -> cz_args k args' = cz_args k args.
  Proof.
    intros ps cs args H. induction H as [|a r Ha Hr IH]; intros args' E; cbn [mapr] in E.
    - inversion E; reflexivity.
    - bindr E. bindr E. inversion E; subst. cbn [cz_args]. rewrite (Ha _ eq_refl), (IH _ eq_refl). reflexivity.
  Qed.
  Lemma mapr_clauses_size : forall ps cs cls,
    Forall (fun c => forall c', subst_clause c ps cs = Ok c' -> zc c' = zc c) cls ->
    forall cls', mapr (fun c => subst_clause c ps cs) cls = Ok cls' -> cz_clauses k cls' = cz_clauses k cls.
  Proof.
    intros ps cs cls H. induction H as [|a r Ha Hr IH]; intros cls' E; cbn [mapr] in E.
    - inversion E; reflexivity.
    - bindr E. bindr E. inversion E; subst. cbn [cz_clauses]. rewrite (Ha _ eq_refl), (IH _ eq_refl). reflexivity.
  Qed.

  (* subst_sim with variable ranges preserves the size *)
  Lemma subst_size_all :
    (forall t c ps cs t', vsub ps -> vsub cs -> subst_term c t ps cs = Ok t' -> zt t' = zt t) /\
    (forall a ps cs a', vsub ps -> vsub cs -> subst_arg a ps cs = Ok a' -> za a' = za a) /\
    (forall cl ps cs cl', vsub ps -> vsub cs -> subst_clause cl ps cs = Ok cl' -> zc cl' = zc cl) /\
    (forall s ps cs s', vsub ps -> vsub cs -> subst_stmt s ps cs = Ok s' -> zs s' = zs s).
  Proof.
    apply cterm_mutind.
    - intros c v ty c0 ps cs t' Hp Hc E. cbn [subst_term] in E.
      destruct (subst_find v (match c0 with CPrd => ps | CCns => cs end)) as [u|] eqn:F; inversion E; subst; [|reflexivity].
      cbn [cz_term]. destruct c0; [apply (vsub_find v ps t' Hp F) | apply (vsub_find v cs t' Hc F)].
    - intros n c ps cs t' Hp Hc E. cbn [subst_term] in E. destruct c; inversion E; reflexivity.
    - intros a o b Ha Hb c ps cs t' Hp Hc E. cbn [subst_term] in E. destruct c; [|discriminate].
      bindr E. bindr E. inversion E; subst. cbn [cz_term]. rewrite (Ha _ _ _ _ Hp Hc E0), (Hb _ _ _ _ Hp Hc E1). reflexivity.
    - intros c v s ty Hs c0 ps cs t' Hp Hc E. cbn [subst_term] in E. bindr E. inversion E; subst. cbn [cz_term].
      erewrite Hs; [reflexivity| | |exact E0]; apply vsub_filter; assumption.
    - intros c x args ty H c0 ps cs t' Hp Hc E. cbn [subst_term] in E. bindr E. inversion E; subst.
      rewrite !cz_term_xtor. f_equal. eapply mapr_args_size; [|exact E0].
      eapply Forall_impl; [|exact H]. intros a Ha a' Ea. exact (Ha _ _ _ Hp Hc Ea).
    - intros c cls ty H c0 ps cs t' Hp Hc E. cbn [subst_term] in E. bindr E. inversion E; subst.
      rewrite !cz_term_xcase. f_equal. eapply mapr_clauses_size; [|exact E0].
      eapply Forall_impl; [|exact H]. intros a Ha a' Ea. exact (Ha _ _ _ Hp Hc Ea).
    - intros p Hp0 ps cs a' Hp Hc E. cbn [subst_arg] in E. bindr E. inversion E; subst. cbn [cz_arg]. exact (Hp0 _ _ _ _ Hp Hc E0).
    - intros p Hp0 ps cs a' Hp Hc E. cbn [subst_arg] in E. bindr E. inversion E; subst. cbn [cz_arg]. exact (Hp0 _ _ _ _ Hp Hc E0).
    - intros c x ctx body Hb ps cs cl' Hp Hc E. cbn [subst_clause] in E. bindr E. inversion E; subst. cbn [cz_clause].
      erewrite Hb; [reflexivity| | |exact E0]; apply vsub_filter; assumption.
    - intros p ty q Hp0 Hq ps cs s' Hp Hc E. cbn [subst_stmt] in E. bindr E. bindr E. inversion E; subst. cbn [cz_stmt].
      rewrite (Hp0 _ _ _ _ Hp Hc E0), (Hq _ _ _ _ Hp Hc E1). reflexivity.
    - intros so a b t e Ha Hb Ht He ps cs s' Hp Hc E. cbn [subst_stmt] in E. bindr E. bindr E. bindr E. bindr E.
      inversion E; subst. cbn [cz_stmt]. rewrite (Ha _ _ _ _ Hp Hc E0), (Ht _ _ _ Hp Hc E2), (He _ _ _ Hp Hc E3).
      destruct b as [b0|].
      + bindr E1. inversion E1; subst. rewrite (Hb b0 eq_refl _ _ _ _ Hp Hc E4). reflexivity.
      + inversion E1; subst. reflexivity.
    - intros nl a next Ha Hn ps cs s' Hp Hc E. cbn [subst_stmt] in E. bindr E. bindr E. inversion E; subst. cbn [cz_stmt].
      rewrite (Ha _ _ _ _ Hp Hc E0), (Hn _ _ _ Hp Hc E1). reflexivity.
    - intros f args ty H ps cs s' Hp Hc E. cbn [subst_stmt] in E. bindr E. inversion E; subst.
      rewrite !cz_stmt_call. f_equal. eapply mapr_args_size; [|exact E0].
      eapply Forall_impl; [|exact H]. intros a Ha a' Ea. exact (Ha _ _ _ Hp Hc Ea).
    - intros a ty Ha ps cs s' Hp Hc E. cbn [subst_stmt] in E. bindr E. inversion E; subst. cbn [cz_stmt].
      rewrite (Ha _ _ _ _ Hp Hc E0). reflexivity.
  Qed.
  Definition subst_stmt_size := proj2 (proj2 (proj2 subst_size_all)).

  (* the context loop: same length, variable ranges *)
  Lemma vsub_rev : forall s, vsub s -> vsub (frev s).
  Proof.
    intros s H. unfold vsub, frev in *. rewrite rev_append_rev, app_nil_r. apply Forall_rev. exact H.
  Qed.
  Lemma uq_context_spec : forall bs m acc vs cs ctx' vs' cs' m',
    uq_context bs m acc vs cs = (ctx', vs', cs', m') -> vsub vs -> vsub cs ->
    len ctx' = len bs + len acc /\ vsub vs' /\ vsub cs'.
  Proof.
    induction bs as [|b r IH]; intros m acc vs cs ctx' vs' cs' m' E Hv Hc; cbn [uq_context] in E.
    - inversion E; subst. split; [|split; apply vsub_rev; assumption].
      unfold frev, len. rewrite rev_append_rev, app_nil_r, rev_length. simpl. lia.
    - destruct (N.eqb (cid_id (cbvar b)) 0).
      + unfold fresh_identifier in E. destruct (cbchi b).
        * apply IH in E; [|constructor; [reflexivity|assumption]|assumption]. rewrite !len_cons in *. destruct E as (E & ? & ?). split; [lia|tauto].
        * apply IH in E; [|assumption|constructor; [reflexivity|assumption]]. rewrite !len_cons in *. destruct E as (E & ? & ?). split; [lia|tauto].
      + apply IH in E; try assumption. rewrite !len_cons in *. destruct E as (E & ? & ?). split; [lia|tauto].
  Qed.

  Lemma maprs_args_size : forall (ut : cterm -> N -> res (cterm * N)) args,
    Forall (fun a => forall m a' m', uq_arg_with ut a m = Ok (a', m') -> za a' = za a) args ->
    forall m args' m', maprs (uq_arg_with ut) args m = Ok (args', m') -> cz_args k args' = cz_args k args.
  Proof.
    intros ut args H. induction H as [|a r Ha Hr IH]; intros m args' m' E; cbn [maprs] in E.
    - inversion E; reflexivity.
    - bindr E. destruct x as [y m1]. bindr E. destruct x as [r' m2]. inversion E; subst. cbn [cz_args].
      rewrite (Ha _ _ _ E0), (IH _ _ _ E1). reflexivity.
  Qed.
  Lemma maprs_clauses_size : forall (uc : cclause -> N -> res (cclause * N)) cls,
    (forall c m c' m', uc c m = Ok (c', m') -> zc c' = zc c) ->
    forall m cls' m', maprs uc cls m = Ok (cls', m') -> cz_clauses k cls' = cz_clauses k cls.
  Proof.
    intros uc cls H. induction cls as [|a r IH]; intros m cls' m' E; cbn [maprs] in E.
    - inversion E; reflexivity.
    - bindr E. destruct x as [y m1]. bindr E. destruct x as [r' m2]. inversion E; subst. cbn [cz_clauses].
      rewrite (H _ _ _ _ E0), (IH _ _ _ E1). reflexivity.
  Qed.

  Lemma vsub_one : forall v c nv ty, vsub [(v, CXVar c nv ty)].
  Proof. intros. constructor; [reflexivity | constructor]. Qed.
  Lemma vsub_nil : vsub [].
  Proof. constructor. Qed.

  Lemma uq_size_all : forall f,
    (forall t m t' m', uq_term f t m = Ok (t', m') -> zt t' = zt t) /\
    (forall c m c' m', uq_clause f c m = Ok (c', m') -> zc c' = zc c) /\
    (forall s m s' m', uq_stmt f s m = Ok (s', m') -> zs s' = zs s).
  Proof.
    induction f as [|f (IHt & IHc & IHs)]; [repeat split; intros; discriminate|].
    assert (IHa : forall a m a' m', uq_arg_with (uq_term f) a m = Ok (a', m') -> za a' = za a).
    { intros a m a' m' E. unfold uq_arg_with in E. destruct a as [p|p]; bindr E; destruct x as [p' m1]; inversion E; subst;
        cbn [cz_arg]; eapply IHt; eauto. }
    assert (IHas : forall args m args' m', maprs (uq_arg_with (uq_term f)) args m = Ok (args', m') -> cz_args k args' = cz_args k args).
    { intros args. apply maprs_args_size. apply Forall_forall. intros a _. apply IHa. }
    repeat split.
    - intros t m t' m' E. cbn [uq_term] in E. destruct t as [c v ty|n|a o b|c v s ty|c x args ty|c cls ty].
      + inversion E; reflexivity.
      + inversion E; reflexivity.
      + bindr E. destruct x as [a' m1]. bindr E. destruct x as [b' m2]. inversion E; subst. cbn [cz_term].
        rewrite (IHt _ _ _ _ E0), (IHt _ _ _ _ E1). reflexivity.
      + destruct (N.eqb (cid_id v) 0).
        * unfold fresh_identifier in E. bindr E. bindr E. destruct x0 as [s2 m2]. inversion E; subst. cbn [cz_term].
          rewrite (IHs _ _ _ _ E1). f_equal.
          destruct c; [unfold subst_covar_stmt in E0 | unfold subst_var_stmt in E0];
            (eapply subst_stmt_size; [| |exact E0]); first [apply vsub_one | apply vsub_nil].
        * bindr E. destruct x as [s' m1]. inversion E; subst. cbn [cz_term]. rewrite (IHs _ _ _ _ E0). reflexivity.
      + bindr E. destruct x0 as [args' m1]. inversion E; subst. rewrite !cz_term_xtor. f_equal. eapply IHas; eauto.
      + bindr E. destruct x as [cls' m1]. inversion E; subst. rewrite !cz_term_xcase. f_equal.
        eapply maprs_clauses_size; [|exact E0]. exact IHc.
    - intros cl m cl' m' E. cbn [uq_clause] in E. destruct cl as [c x ctx body].
      destruct (uq_context ctx m [] [] []) as [[[ctx' vs] cs] m1] eqn:U.
      apply uq_context_spec in U; [|apply vsub_nil|apply vsub_nil]. destruct U as (Hl & Hv & Hc).
      bindr E. bindr E. destruct x1 as [body2 m2]. inversion E; subst. cbn [cz_clause].
      rewrite (IHs _ _ _ _ E1). rewrite Hl, len_nil, N.add_0_r. f_equal.
      destruct (is_nil vs && is_nil cs); [inversion E0; reflexivity|]. exact (subst_stmt_size _ _ _ _ Hv Hc E0).
    - intros s m s' m' E. cbn [uq_stmt] in E. destruct s as [p ty q|so a b t e|nl a next|g args ty|a ty].
      + bindr E. destruct x as [p' m1]. bindr E. destruct x as [q' m2]. inversion E; subst. cbn [cz_stmt].
        rewrite (IHt _ _ _ _ E0), (IHt _ _ _ _ E1). reflexivity.
      + bindr E. destruct x as [a' m1]. bindr E. destruct x as [b' m2]. bindr E. destruct x as [t' m3].
        bindr E. destruct x as [e' m4]. inversion E; subst. cbn [cz_stmt].
        rewrite (IHt _ _ _ _ E0), (IHs _ _ _ _ E2), (IHs _ _ _ _ E3).
        destruct b as [b0|].
        * bindr E1. destruct x as [b1 m5]. inversion E1; subst. rewrite (IHt _ _ _ _ E4). reflexivity.
        * inversion E1; subst. reflexivity.
      + bindr E. destruct x as [a' m1]. bindr E. destruct x as [n' m2]. inversion E; subst. cbn [cz_stmt].
        rewrite (IHt _ _ _ _ E0), (IHs _ _ _ _ E1). reflexivity.
      + bindr E. destruct x as [args' m1]. inversion E; subst. rewrite !cz_stmt_call. f_equal. eapply IHas; eauto.
      + bindr E. destruct x as [a' m1]. inversion E; subst. cbn [cz_stmt]. rewrite (IHt _ _ _ _ E0). reflexivity.
  Qed.

  Lemma uq_def_size : forall d m d' m', uq_def d m = Ok (d', m') -> cz_def k d' = cz_def k d.
  Proof.
    intros d m d' m' E. unfold uq_def in E.
    destruct (uq_context (cdctx d) m [] [] []) as [[[ctx' vs] cs] m1] eqn:U.
    apply uq_context_spec in U; [|apply vsub_nil|apply vsub_nil]. destruct U as (Hl & Hv & Hc).
    bindr E. bindr E. destruct x0 as [body2 m2]. inversion E; subst. unfold cz_def. cbn [cdctx cdbody].
    rewrite (proj2 (proj2 (uq_size_all _)) _ _ _ _ E1). rewrite Hl, len_nil, N.add_0_r. f_equal.
    destruct (is_nil vs && is_nil cs); [inversion E0; reflexivity|]. exact (subst_stmt_size _ _ _ _ Hv Hc E0).
  Qed.
  Lemma uq_defs_size : forall ds m ds' m', maprs uq_def ds m = Ok (ds', m') -> cz_defs k ds' = cz_defs k ds.
  Proof.
    induction ds as [|d r IH]; intros m ds' m' E; cbn [maprs] in E.
    - inversion E; reflexivity.
    - bindr E. destruct x as [d' m1]. bindr E. destruct x as [r' m2]. inversion E; subst. cbn [cz_defs].
      rewrite (uq_def_size _ _ _ _ E0), (IH _ _ _ E1). reflexivity.
  Qed.
  Lemma uniquify_cz : forall p p1, uniquify_prog p = Ok p1 -> cz_defs k (cpdefs p1) = cz_defs k (cpdefs p).
  Proof.
    intros p p1 E. unfold uniquify_prog in E. bindr E. destruct x as [ds m]. inversion E; subst. cbn [cpdefs].
    eapply uq_defs_size; eauto.
  Qed.
End K.

(* ---------- the statements of Props/C19.v ---------- *)
Theorem uniquify_size_lemma : forall p p1, uniquify_prog p = Ok p1 ->
  c_wprog p1 = c_wprog p /\ size_cprog p1 = size_cprog p.
Proof.
  intros p p1 E. rewrite <- !cz1_prog, <- !cz0_prog. split; apply uniquify_cz; exact E.
Qed.

Theorem focus_prog_size_lemma : forall p q, focus_prog p = Ok q -> fs_wprog q <= 4 * c_wprog p.
Proof.
  intros p q H. destruct (uniquify_prog p) as [p1|e] eqn:U.
  - rewrite <- (proj1 (uniquify_size_lemma _ _ U)). eapply focus_prog_size_partial_lemma; eauto.
  - unfold focus_prog in H. rewrite U in H. discriminate.
Qed.
