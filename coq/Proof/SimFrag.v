(* Forward simulation of the code generators (C06 x86-64, C07 AArch64): what does not depend on the back end.
   - the two program fragments: `int_frag` (every variable `ext i64`; Substitute / Call / Literal / Op / PrintI64 /
     IfC / Exit) and `cf_frag` (in addition closures without captured variables: Create with an empty
     environment, Invoke), `plain_names` / `plain_types` (no label of a definition or of a type starts with '#':
     such labels are outside the uniqueness check of asm_wf), `entry_int`;
   - observations (`good`, `not_oof`);
   - facts about the linear machine's environments (lookup / lookups / bind) and about the linearity checker's
     signatures used by the progress part of the simulation.
   Factored out of Proof/X86SimRel.v, X86SimStmt.v, X86SimProg.v, X86SimClo.v, X86SimProgC.v, X86SimTopC.v. *)
From Coq Require Import List ZArith NArith String Ascii Bool Lia.
From SCC Require Import Base.Sexp Lang.AxSyn Sem.AxSem Model.Backend Model.Linearize Model.LinCheck Proof.LinBasics.
From SCC Require Sem.X86Wf.
Import ListNotations.
Open Scope Z_scope.
Open Scope list_scope.

(* ---------- labels that start with '#' (statement-boundary marks) ---------- *)
(* the test `match l with String "#" _ => true | _ => false end`; the three assembler-level checkers
   (Sem/X86Wf.v, A64Wf.v, RVWf.v) each define it under the name is_hash_label; the x86 one is taken here so that
   the x86-64 development, which states its label hypotheses with it, sees no other name (the others are
   convertible to it) *)
Notation hash_name := SCC.Sem.X86Wf.is_hash_label (only parsing).
Lemma hash_name_app_ s : hash_name (s +++ "_") = true -> hash_name s = true.
Proof. destruct s as [|c s]; cbn; auto. Qed.
Lemma hash_name_sub f y : hash_name f = false -> hash_name (f +++ "_" +++ y) = false.
Proof. destruct f as [|c f]; cbn; auto. Qed.

(* ---------- the integer fragment ---------- *)
Definition is_int_binding (b : binding) : bool :=
  match bchi b, bty b with Ext, I64 => true | _, _ => false end.
Definition ctx_int (c : ctx) : bool := forallb is_int_binding c.

Fixpoint stmt_int (s : stmt) : bool :=
  match s with
  | Substitute re next => forallb (fun p : binding * ident => is_int_binding (fst p)) re && stmt_int next
  | Call _ _ | Exit _ => true
  | Literal _ _ next | Op _ _ _ _ next | PrintI64 _ _ next => stmt_int next
  | IfC _ _ _ t e => stmt_int t && stmt_int e
  | Let _ _ _ _ _ | Switch _ _ _ | Create _ _ _ _ _ | Invoke _ _ _ _ => false
  end.
Definition def_int (d : def) : bool := ctx_int (dctx d) && stmt_int (dbody d).
Definition int_frag (p : prog) : bool := forallb def_int (pdefs p).
(* no definition is named like a statement-boundary marker ('#...'): such labels are outside the
   uniqueness check of asm_wf; no name produced by the parser or by the pipeline starts with '#' *)
Definition plain_names (p : prog) : bool := forallb (fun d => negb (hash_name (show_ident (dname d)))) (pdefs p).

Lemma ctx_int_nth c i b : ctx_int c = true -> nth_error c i = Some b -> bchi b = Ext /\ bty b = I64.
Proof.
  intros H Hn. unfold ctx_int in H. rewrite forallb_forall in H. specialize (H b (nth_error_In _ _ Hn)).
  unfold is_int_binding in H. destruct (bchi b), (bty b); try discriminate; auto.
Qed.

(* ---------- the closure fragment: integers and closures without captured variables ---------- *)
Definition is_cf_binding (b : binding) : bool :=
  match bchi b, bty b with Ext, I64 => true | Cns, Decl _ => true | _, _ => false end.
Definition ctx_cf (c : ctx) : bool := forallb is_cf_binding c.
Definition is_nil {X} (l : list X) : bool := match l with [] => true | _ => false end.
Fixpoint stmt_cf (s : stmt) : bool :=
  match s with
  | Substitute re next => forallb (fun p : binding * ident => is_cf_binding (fst p)) re && stmt_cf next
  | Call _ _ | Exit _ | Invoke _ _ _ _ => true
  | Literal _ _ next | Op _ _ _ _ next | PrintI64 _ _ next => stmt_cf next
  | IfC _ _ _ t e => stmt_cf t && stmt_cf e
  | Create _ _ (Some []) cls next =>
      negb (is_nil cls)
      && (fix go (cls : list (ident * ctx * stmt)) : bool :=
            match cls with
            | [] => true
            | (_, cx, b) :: r => ctx_cf cx && stmt_cf b && go r
            end) cls
      && stmt_cf next
  | _ => false
  end.
Definition clauses_cf (cls : list clause) : bool := forallb (fun c => ctx_cf (cl_ctx c) && stmt_cf (cl_body c)) cls.
Lemma stmt_cf_create v t env cls next :
  stmt_cf (Create v t env cls next) = true -> env = Some [] /\ cls <> [] /\ clauses_cf cls = true /\ stmt_cf next = true.
Proof.
  cbn [stmt_cf]. destruct env as [[|b env]|]; try discriminate. intros H.
  apply andb_true_iff in H as [H N]. apply andb_true_iff in H as [E G].
  split; [reflexivity|]. split; [destruct cls; [discriminate|congruence]|]. split; [|exact N].
  clear E N. induction cls as [|[[x cx] b] r IH]; [reflexivity|]. cbn [clauses_cf forallb cl_ctx cl_body fst snd].
  apply andb_true_iff in G as [G1 G2]. rewrite G1. exact (IH G2).
Qed.
Definition def_cf (d : def) : bool := ctx_cf (dctx d) && stmt_cf (dbody d).
Definition cf_frag (p : prog) : bool := forallb def_cf (pdefs p).
(* type names, like definition names, do not start with '#' (their labels are subject to asm_wf's uniqueness check) *)
Definition plain_types (p : prog) : bool :=
  forallb (fun d => negb (hash_name (label_of_type_name (show_ident (tname d))))) (ptypes p).
(* the entry definition takes integers (the arguments of asm_main) *)
Definition entry_int (p : prog) : bool := match pdefs p with d :: _ => ctx_int (dctx d) | [] => true end.

(* ---------- literals are 64-bit values (i64 in the Rust AST; Z in the model) ---------- *)
Definition lit_i64 (z : Z) : bool := (min_int <=? z) && (z <=? max_int).
Fixpoint stmt_lits (s : stmt) : bool :=
  match s with
  | Literal n _ next => lit_i64 n && stmt_lits next
  | Substitute _ next | Op _ _ _ _ next | PrintI64 _ _ next | Let _ _ _ _ next => stmt_lits next
  | IfC _ _ _ t e => stmt_lits t && stmt_lits e
  | Call _ _ | Exit _ | Invoke _ _ _ _ => true
  | Switch _ _ cls =>
      (fix go (cls : list (ident * ctx * stmt)) : bool :=
         match cls with [] => true | (_, _, b) :: r => stmt_lits b && go r end) cls
  | Create _ _ _ cls next =>
      (fix go (cls : list (ident * ctx * stmt)) : bool :=
         match cls with [] => true | (_, _, b) :: r => stmt_lits b && go r end) cls && stmt_lits next
  end.
Definition clauses_lits (cls : list clause) : bool := forallb (fun c => stmt_lits (cl_body c)) cls.
Lemma stmt_lits_create v t env cls next :
  stmt_lits (Create v t env cls next) = true -> clauses_lits cls = true /\ stmt_lits next = true.
Proof.
  cbn [stmt_lits]. intros H. apply andb_true_iff in H as [G N]. split; [|exact N].
  clear N. induction cls as [|[[x cx] b] r IH]; [reflexivity|]. cbn [clauses_lits forallb cl_body snd].
  apply andb_true_iff in G as [G1 G2]. rewrite G1. exact (IH G2).
Qed.
(* every literal of the program, and every argument, fits 64 bits *)
Definition lits_i64 (p : prog) : bool := forallb (fun d => stmt_lits (dbody d)) (pdefs p).
Definition args_i64 (args : list Z) : bool := forallb lit_i64 args.

(* ---------- observations ---------- *)
Definition good (o : obs) : Prop := (exists z, snd o = OExit z) \/ (exists w, snd o = OUndef w).
Lemma not_good_stuck out w : ~ good (finish out (OStuck w)).
Proof. intros [(z & H)|(z & H)]; discriminate. Qed.
Lemma not_good_fuel out : ~ good (finish out OOutOfFuel).
Proof. intros [(z & H)|(z & H)]; discriminate. Qed.
Definition not_oof (o : obs) : Prop := snd o <> OOutOfFuel.
Lemma good_not_oof o : good o -> not_oof o.
Proof. intros [(z & H)|(z & H)] E; congruence. Qed.

(* ---------- environments of the linear machine ---------- *)
Lemma lookup_nth (e : env) x v :
  AxSem.lookup e x = Some v -> exists i y, nth_error e i = Some (y, v) /\ idn y = x.
Proof.
  induction e as [|[y w] e IH]; cbn; [discriminate|].
  destruct (N.eqb_spec (idn y) x) as [E|E].
  - intros H; inversion H; subst. exists O, y. cbn. auto.
  - intros H. destruct (IH H) as (i & y' & Hn & Hy). exists (S i), y'. cbn. auto.
Qed.
Lemma nth_lookup (e : env) i y v :
  NoDup (env_ids e) -> nth_error e i = Some (y, v) -> AxSem.lookup e (idn y) = Some v.
Proof.
  revert i. induction e as [|[y0 w] e IH]; intros i ND H; [destruct i; discriminate|].
  cbn in ND. inversion ND as [|? ? NI ND']; subst. destruct i as [|i]; cbn in H; cbn [AxSem.lookup].
  - inversion H; subst. now rewrite N.eqb_refl.
  - destruct (N.eqb_spec (idn y0) (idn y)) as [E|E]; [|eauto].
    exfalso. apply NI. rewrite E. apply nth_error_In in H. unfold env_ids.
    apply (in_map (fun p : ident * value => idn (fst p))) in H. exact H.
Qed.
Lemma env_ctx_nth c e i y v :
  env_ids e = ids c -> nth_error e i = Some (y, v) -> exists b, nth_error c i = Some b /\ idn (bvar b) = idn y.
Proof.
  intros E H. assert (H1 : nth_error (env_ids e) i = Some (idn y)).
  { unfold env_ids. now rewrite (map_nth_error _ _ _ H). }
  rewrite E in H1. unfold ids in H1. destruct (nth_error c i) as [b|] eqn:Hc.
  - rewrite (map_nth_error _ _ _ Hc) in H1. inversion H1. eauto.
  - apply nth_error_None in Hc. assert (H2 : (i < List.length (map (fun b => idn (bvar b)) c))%nat) by (apply nth_error_Some; congruence).
    rewrite map_length in H2. lia.
Qed.

Lemma lookups_nth (e : env) : forall xs vs j x,
  lookups e xs = Some vs -> nth_error xs j = Some x -> exists v, nth_error vs j = Some v /\ lookup_id e x = Some v.
Proof.
  induction xs as [|x0 xs IH]; intros vs j x H Hj; [destruct j; discriminate|].
  cbn [lookups] in H. destruct (lookup_id e x0) as [v0|] eqn:L0; [|discriminate].
  destruct (lookups e xs) as [vr|] eqn:LR; [|discriminate]. inversion H; subst vs.
  destruct j as [|j]; cbn in Hj |- *.
  - inversion Hj; subst. eauto.
  - eapply IH; eauto.
Qed.
Lemma bind_nth : forall (xs : list ident) (vs : list value) (e' : env) j x v,
  bind xs vs = Some e' -> nth_error e' j = Some (x, v) -> nth_error xs j = Some x /\ nth_error vs j = Some v.
Proof.
  induction xs as [|x0 xs IH]; intros [|v0 vs] e' j x v H Hj; cbn [bind] in H; try discriminate.
  - inversion H; subst. destruct j; discriminate.
  - destruct (bind xs vs) as [er|] eqn:B; [|discriminate]. inversion H; subst e'.
    destruct j as [|j]; cbn in Hj |- *.
    + inversion Hj; subst. auto.
    + eapply IH; eauto.
Qed.
Lemma bind_ids : forall (xs : list ident) (vs : list value) (e' : env),
  bind xs vs = Some e' -> map fst e' = xs.
Proof.
  induction xs as [|x0 xs IH]; intros [|v0 vs] e' H; cbn [bind] in H; try discriminate.
  - now inversion H.
  - destruct (bind xs vs) as [er|] eqn:B; [|discriminate]. inversion H; subst e'. cbn. f_equal. eauto.
Qed.
Lemma bind_length : forall (xs : list ident) (vs : list value) (e' : env), bind xs vs = Some e' -> List.length xs = List.length vs.
Proof.
  induction xs as [|x xs IH]; intros [|v vs] e' H; cbn [bind] in H; try discriminate; [reflexivity|].
  destruct (bind xs vs) eqn:B; [|discriminate]. cbn. f_equal. eauto.
Qed.
Lemma bind_total : forall (xs : list ident) (vs : list value), List.length xs = List.length vs -> exists e', bind xs vs = Some e'.
Proof.
  induction xs as [|x xs IH]; intros [|v vs] H; cbn in H; try discriminate; cbn [bind]; [eauto|].
  destruct (IH vs) as (e' & ->); [lia|]. eauto.
Qed.

Lemma lookup_of_in (e : env) x : In x (env_ids e) -> exists v, AxSem.lookup e x = Some v.
Proof.
  induction e as [|[y w] e IH]; cbn; [tauto|]. intros [E|H].
  - rewrite E, N.eqb_refl. eauto.
  - destruct (N.eqb (idn y) x); eauto.
Qed.
Lemma lookups_total (e : env) : forall xs, (forall x, In x xs -> exists v, lookup_id e x = Some v) ->
  exists vs, lookups e xs = Some vs /\ List.length vs = List.length xs.
Proof.
  induction xs as [|x xs IH]; intros H; cbn [lookups]; [exists []; auto|].
  destruct (H x (or_introl eq_refl)) as (v & ->). destruct IH as (vs & -> & L); [intros; apply H; now right|].
  exists (v :: vs). cbn. auto.
Qed.
Lemma lookup_label_find_def p l ps :
  lookup_label (sigs_of p) l = Some ps -> exists d, find_def p l = Some d /\ dctx d = ps.
Proof.
  unfold lookup_label, sigs_of, find_def; cbn [sg_labels]. induction (pdefs p) as [|d r IH]; cbn [map find]; [discriminate|].
  cbn [fst]. destruct (ident_eqb (dname d) l); [|exact IH]. cbn. intros E; inversion E. eauto.
Qed.

(* ---------- the linearity checker ---------- *)
Lemma lin_nodup S c s : lin_check S c s = true -> NoDup (ids c).
Proof. intros H. destruct s; cbn [lin_check] in H; apply andb_true_iff in H as [H _]; now apply nodupb_NoDup. Qed.
Lemma sig_match_nth : forall (a s : ctx) i x, sig_match a s = true -> nth_error a i = Some x ->
  exists y, nth_error s i = Some y /\ bchi x = bchi y /\ bty x = bty y.
Proof.
  induction a as [|x0 a IH]; intros [|y0 s] i x H Hi; cbn [sig_match] in H; try discriminate; [destruct i; discriminate|].
  apply andb_true_iff in H as [K H]. apply kt_eqb_eq in K. destruct i as [|i]; cbn [nth_error] in *.
  - inversion Hi; subst. eauto.
  - eauto.
Qed.
Lemma sig_match_join a b s0 : sig_match a s0 = true -> sig_match b s0 = true -> sig_match a b = true.
Proof.
  rewrite !sig_match_iff. unfold same_kt. intros A B. revert b B.
  induction A as [|x y a s1 [K T] _ IH]; intros b B; inversion B as [|x' y' b' s1' [K' T'] B']; subst; constructor.
  - split; congruence.
  - auto.
Qed.

(* ---------- closures: clauses against the declared destructors ---------- *)
Lemma find_clause_pos : forall cls xs tag cl i,
  cls_sig cls xs = true -> find_clause cls tag = Some cl ->
  exists k x, nth_error cls k = Some cl /\ nth_error xs k = Some x /\
              xtor_position xs tag i = Ok (i + N.of_nat k)%N /\
              find (fun x => ident_eqb (xname x) tag) xs = Some x /\ sig_match (cl_ctx cl) (xargs x) = true.
Proof.
  induction cls as [|c cr IH]; intros [|x xr] tag cl i CS FC; cbn [cls_sig] in CS; try discriminate.
  apply andb_true_iff in CS as [CS CSr]. apply andb_true_iff in CS as [EQ SM]. apply ident_eqb_eq in EQ.
  unfold find_clause in FC. cbn [find xtor_position] in *. rewrite <- EQ.
  destruct (ident_eqb (cl_xtor c) tag) eqn:T.
  - inversion FC; subst cl. exists O, x. repeat split; auto. f_equal. lia.
  - destruct (IH xr tag cl (i + 1)%N CSr FC) as (k & x' & A & B & C & D & E).
    exists (S k), x'. repeat split; auto. rewrite C. f_equal. lia.
Qed.
Lemma cls_sig_length : forall cls xs, cls_sig cls xs = true -> List.length cls = List.length xs.
Proof.
  induction cls as [|c cr IH]; intros [|x xr] H; cbn [cls_sig] in H; try discriminate; [reflexivity|].
  apply andb_true_iff in H as [_ H]. cbn. f_equal. auto.
Qed.
Lemma find_clause_total : forall cls xs tag x,
  cls_sig cls xs = true -> find (fun x => ident_eqb (xname x) tag) xs = Some x -> exists cl, find_clause cls tag = Some cl.
Proof.
  induction cls as [|c cr IH]; intros [|x0 xr] tag x CS FX; cbn [cls_sig] in CS; try discriminate.
  apply andb_true_iff in CS as [CS CSr]. apply andb_true_iff in CS as [EQ _]. apply ident_eqb_eq in EQ.
  unfold find_clause. cbn [find] in *. rewrite EQ. destruct (ident_eqb (xname x0) tag); [eauto|].
  exact (IH xr tag x CSr FX).
Qed.

(* ---------- lists ---------- *)
Lemma NoDup_app_head {X} (a b : list X) : NoDup (a ++ b) -> NoDup a.
Proof.
  induction a as [|x a IH]; cbn; [constructor|]. intros H. inversion H; subst. constructor; auto.
  intros I. apply H2. apply in_app_iff. now left.
Qed.
Lemma NoDup_app_tail {X} (a b : list X) : NoDup (a ++ b) -> NoDup b.
Proof. induction a as [|x a IH]; cbn; auto. intros H. inversion H; auto. Qed.
Lemma nth_error_mid {X} (a : list X) x b : nth_error (a ++ x :: b) (List.length a) = Some x.
Proof. rewrite nth_error_app2 by lia. now rewrite Nat.sub_diag. Qed.
Lemma split_last1_inv {X} (l : list X) l0 x : AxSem.split_last 1 l = Some (l0, [x]) -> l = l0 ++ [x].
Proof.
  unfold AxSem.split_last. destruct (Nat.leb 1 (List.length l)); [|discriminate]. intros H. inversion H.
  rewrite <- (firstn_skipn (List.length l - 1) l) at 1. reflexivity.
Qed.
Lemma split_last1_app {X} (l0 : list X) x : AxSem.split_last 1 (l0 ++ [x]) = Some (l0, [x]).
Proof.
  unfold AxSem.split_last. rewrite app_length. cbn [List.length]. replace (Nat.leb 1 (List.length l0 + 1)) with true by (symmetry; apply Nat.leb_le; lia).
  replace (List.length l0 + 1 - 1)%nat with (List.length l0) by lia.
  rewrite firstn_app, firstn_all, Nat.sub_diag, skipn_app, skipn_all, Nat.sub_diag. cbn. now rewrite app_nil_r.
Qed.
Lemma split_last0 (c : ctx) : Backend.split_last 0 c = Ok (c, []).
Proof. unfold Backend.split_last. cbn [Nat.leb]. rewrite Nat.sub_0_r, firstn_all, skipn_all. reflexivity. Qed.
