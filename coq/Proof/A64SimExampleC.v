(* C07: a concrete program of the closure fragment (the shape the pipeline produces for a tail-recursive
   integer function: `main` creates the return continuation and calls `f`, which loops and finally invokes
   the continuation; a closure of a codata type with two destructors, entered through its jump table with the
   code pointer in a register (`ADD X9, X9, #4; BR X9`); and, behind 13 integers, closures whose code pointer
   lives in a SPILL SLOT: one with two destructors (`LDR X2; ADD X2, X2, #4; BR X2`) and one with a single
   destructor (`LDR X2; BR X2`); closures dropped by a substitution = erase of a null pointer), on which every
   hypothesis of a64_codegen_simulates_cf is evaluated and both sides computed. *)
From Coq Require Import List ZArith NArith String Bool.
From SCC Require Import Base.Sexp Lang.AxSyn Sem.AxSem Model.Backend Model.A64 Sem.A64Sem Sem.A64Wf
     Model.Linearize Model.LinCheck Proof.A64SimRel Proof.A64SimAddr Proof.A64SimClo Proof.A64SimProg Proof.A64SimProgC
     Proof.A64SimTop Proof.A64SimTopC Proof.A64SimExample.
Import ListNotations.
Open Scope string_scope.
Open Scope Z_scope.

Definition cb (s : string) (n : N) (t : string) : binding := mkb (id_ s n) Cns (Decl (id_ t 0)).
Definition ints (s : string) (k : nat) (n : N) : ctx := map (fun i => ib s (n + N.of_nat i)) (seq 0 k).
Definition t_cont : tydecl := mkt (id_ "_Cont" 0) [mkx (id_ "Ret" 0) [ib "x" 0]].
Definition t_two : tydecl := mkt (id_ "Two" 0) [mkx (id_ "A" 0) [ib "x" 0]; mkx (id_ "B" 0) [ib "y" 0; ib "z" 0]].
Definition t_big : tydecl := mkt (id_ "Big" 0) [mkx (id_ "M1" 0) (ints "x" 13 0); mkx (id_ "M2" 0) (ints "y" 13 0)].
Definition t_one : tydecl := mkt (id_ "One" 0) [mkx (id_ "M" 0) (ints "x" 13 0)].

Definition exc_main : def :=
  mkd (id_ "main" 0) [ib "x" 1]
    (Literal 0 (id_ "acc" 6)
    (Create (id_ "a" 7) (Decl (id_ "_Cont" 0)) (Some [])
       [(id_ "Ret" 0, [ib "r" 2], PrintI64 true (id_ "r" 2) (Exit (id_ "r" 2)))]
    (Create (id_ "t" 8) (Decl (id_ "Two" 0)) (Some [])
       [(id_ "A" 0, [ib "p" 9], Exit (id_ "p" 9));
        (id_ "B" 0, [ib "q" 10; ib "r" 11], Op (id_ "q" 10) Prod (id_ "r" 11) (id_ "s" 12) (Exit (id_ "s" 12)))]
    (IfC Lt (id_ "x" 1) None
       (* x < 0: drop both closures, 13 integers, then closures that live in SPILL SLOTS *)
       (Substitute [(ib "x" 1, id_ "x" 1); (ib "acc" 6, id_ "acc" 6)]
       (Literal (-10) (id_ "m" 19)
       (lits 10 20
       (IfC Lt (id_ "x" 1) (Some (id_ "m" 19))
          (Create (id_ "o" 41) (Decl (id_ "One" 0)) (Some [])
             [(id_ "M" 0, ints "p" 13 50, Op (id_ "p" 50) Sub (id_ "p" 62) (id_ "d" 91) (Exit (id_ "d" 91)))]
             (Invoke (id_ "o" 41) (id_ "M" 0) (Decl (id_ "One" 0)) []))
          (Create (id_ "b" 40) (Decl (id_ "Big" 0)) (Some [])
             [(id_ "M1" 0, ints "p" 13 50, Exit (id_ "p" 62));
              (id_ "M2" 0, ints "q" 13 70, Op (id_ "q" 70) Prod (id_ "q" 82) (id_ "s" 90) (PrintI64 false (id_ "s" 90) (Exit (id_ "s" 90))))]
             (Invoke (id_ "b" 40) (id_ "M2" 0) (Decl (id_ "Big" 0)) []))))))
       (IfC Eq (id_ "x" 1) None
          (Literal 7 (id_ "k" 9)
          (Substitute [(ib "q" 10, id_ "x" 1); (ib "r" 11, id_ "k" 9); (cb "t" 8 "Two", id_ "t" 8)]
             (Invoke (id_ "t" 8) (id_ "B" 0) (Decl (id_ "Two" 0)) [])))
          (Substitute [(ib "x" 3, id_ "x" 1); (ib "acc" 4, id_ "acc" 6); (cb "a0" 5 "_Cont", id_ "a" 7); (cb "t0" 6 "Two", id_ "t" 8)]
             (Call (id_ "f" 0) []))))))).
Definition exc_f : def :=
  mkd (id_ "f" 0) [ib "x" 3; ib "acc" 4; cb "a0" 5 "_Cont"; cb "t0" 6 "Two"]
    (IfC Eq (id_ "x" 3) None
       (Substitute [(ib "acc" 4, id_ "acc" 4); (cb "a0" 5 "_Cont", id_ "a0" 5)]
          (Invoke (id_ "a0" 5) (id_ "Ret" 0) (Decl (id_ "_Cont" 0)) []))
       (Literal 1 (id_ "one" 8)
       (Op (id_ "x" 3) Sub (id_ "one" 8) (id_ "x" 9)
       (Op (id_ "acc" 4) Sum (id_ "x" 3) (id_ "y" 10)
       (PrintI64 false (id_ "y" 10)
       (Substitute [(ib "x" 3, id_ "x" 9); (ib "acc" 4, id_ "y" 10); (cb "a0" 5 "_Cont", id_ "a0" 5); (cb "t0" 6 "Two", id_ "t0" 6)]
          (Call (id_ "f" 0) []))))))).
Definition exc_prog : prog := mkp [exc_main; exc_f] [t_cont; t_two; t_big; t_one] 100.
Definition exc_code : list acode :=
  match a64_compile exc_prog 0 with Ok (cs, _, _) => cs | Err _ => [] end.

Lemma exc_hypotheses :
  cf_frag exc_prog = true /\ entry_int exc_prog = true /\ plain_names exc_prog = true /\ plain_types exc_prog = true /\
  lits_i64 exc_prog = true /\ lin_check_prog exc_prog = true /\
  (exists n lc', a64_compile exc_prog 0 = Ok (exc_code, n, lc')) /\ asm_wf exc_code = None /\ code_small exc_code = true.
Proof. repeat split; try (vm_compute; reflexivity). eexists _, _. vm_compute. reflexivity. Qed.

(* the three ways of entering a closure really occur in the emitted code *)
Lemma exc_code_shape :
  filter (fun c => match c with BR _ | ADR _ _ | ADDI (X _) _ _ => true | _ => false end) exc_code =
  [ADDI (X 1) (X 1) 64;                                       (* prologue: FREE *)
   ADR (X 9) "_Cont_1"; ADR (X 11) "Two_2";                   (* create a, create t: code pointers in registers *)
   ADDI (X 9) (X 9) 4; BR (X 9);                              (* invoke t.B: table entry 1, register *)
   ADR (X 2) "Big_15"; ADDI (X 2) (X 2) 4; BR (X 2);          (* create b / invoke b.M2: spilled code pointer, table *)
   ADR (X 2) "One_16"; BR (X 2);                              (* create o / invoke o.M: spilled, one destructor *)
   BR (X 7)].                                                 (* invoke a0.Ret: one destructor, register *)
Proof. vm_compute. reflexivity. Qed.

(* x = 4: f sums 4+3+2+1, printing the partial sums, then returns 10 through the continuation, which prints it;
   x = 0: the closure t is invoked at its second destructor through the jump table: 0 * 7;
   x = -3: 13 integers, then the spilled closure b at its second destructor: -3 * 183;
   x = -30: the spilled single-destructor closure o: -30 - 183 *)
Lemma exc_runs :
  run_linear 100 exc_prog [4] = ([(false, 4); (false, 7); (false, 9); (false, 10); (true, 10)], OExit 10) /\
  fst (run_a64 10 2000 exc_code [4]) = ([(false, 4); (false, 7); (false, 9); (false, 10); (true, 10)], OExit 10) /\
  run_linear 100 exc_prog [0] = ([], OExit 0) /\
  fst (run_a64 10 2000 exc_code [0]) = ([], OExit 0) /\
  run_linear 100 exc_prog [-3] = ([(false, -549)], OExit (-549)) /\
  fst (run_a64 10 2000 exc_code [-3]) = ([(false, -549)], OExit (-549)) /\
  run_linear 100 exc_prog [-30] = ([], OExit (-213)) /\
  fst (run_a64 10 2000 exc_code [-30]) = ([], OExit (-213)).
Proof. repeat split; vm_compute; reflexivity. Qed.

(* an AxCut program BEFORE linearization of the shape `shrink` produces for
     def f(x, acc) { if x == 0 { acc } else { f(x - 1, acc + x) } }   def main(x) { f(x, 0) }
   (main creates the return continuation and passes it; f invokes it); the model of the linearizer inserts the
   substitutions and the (empty) closure environment, and its output meets every AArch64-side hypothesis *)
Definition exc_named : prog :=
  mkp [mkd (id_ "main" 0) [ib "x" 1]
         (Literal 0 (id_ "z" 6)
         (Create (id_ "a" 7) (Decl (id_ "_Cont" 0)) None
            [(id_ "Ret" 0, [ib "r" 2], Exit (id_ "r" 2))]
         (Call (id_ "f" 0) [ib "x" 1; ib "z" 6; cb "a" 7 "_Cont"])));
       mkd (id_ "f" 0) [ib "x" 3; ib "acc" 4; cb "k" 5 "_Cont"]
         (IfC Eq (id_ "x" 3) None
            (Invoke (id_ "k" 5) (id_ "Ret" 0) (Decl (id_ "_Cont" 0)) [ib "acc" 4])
            (Literal 1 (id_ "one" 8)
            (Op (id_ "x" 3) Sub (id_ "one" 8) (id_ "x" 9)
            (Op (id_ "acc" 4) Sum (id_ "x" 3) (id_ "y" 10)
            (Call (id_ "f" 0) [ib "x" 9; ib "y" 10; cb "k" 5 "_Cont"])))))]
      [t_cont] 10.
Definition exc_named_code : list acode :=
  match a64_compile (linearize exc_named) 0 with Ok (cs, _, _) => cs | Err _ => [] end.
Lemma exc_named_hypotheses :
  prog_ok exc_named = true /\ cf_frag (linearize exc_named) = true /\ entry_int (linearize exc_named) = true /\
  plain_names (linearize exc_named) = true /\ plain_types (linearize exc_named) = true /\ lits_i64 (linearize exc_named) = true /\
  (exists n lc', a64_compile (linearize exc_named) 0 = Ok (exc_named_code, n, lc')) /\
  asm_wf exc_named_code = None /\ code_small exc_named_code = true /\
  run_named 100 exc_named [10] = ([], OExit 55) /\
  fst (run_a64 10 2000 exc_named_code [10]) = ([], OExit 55).
Proof. repeat split; try (vm_compute; reflexivity). eexists _, _. vm_compute. reflexivity. Qed.
