(* Facts about the two reference machines used by the simulation proof of C05: environments that
   are rearranged by an explicit substitution (`rebind`), and single steps of the linear machine on
   environments of the shape the linearizer produces. *)
From Coq Require Import String List ZArith NArith Bool Lia.
From SCC Require Import Base.Sexp Lang.AxSyn Sem.AxSem Model.Linearize Model.LinCheck.
From SCC Require Import Proof.LinBasics.
Import ListNotations.
Open Scope list_scope.

(* ---------- observations ---------- *)
Definition good (o : obs) : Prop := (exists z, snd o = OExit z) \/ (exists w, snd o = OUndef w).
Lemma finish_stuck_not_good : forall out w, good (finish out (OStuck w)) -> False.
Proof. intros out w [[z H]|[z H]]; simpl in H; discriminate. Qed.
Lemma finish_fuel_not_good : forall out, good (finish out OOutOfFuel) -> False.
Proof. intros out [[z H]|[z H]]; simpl in H; discriminate. Qed.

(* ---------- lookups ---------- *)
Lemma lookup_app : forall a b x,
  lookup (a ++ b) x = match lookup a x with Some v => Some v | None => lookup b x end.
Proof.
  induction a as [|[y v] a IH]; intros; simpl; auto. destruct (N.eqb (idn y) x); auto.
Qed.
Lemma lookup_None : forall e x, lookup e x = None <-> ~ In x (env_ids e).
Proof.
  induction e as [|[y v] e IH]; intros x; simpl.
  - tauto.
  - destruct (N.eqb (idn y) x) eqn:E.
    + apply N.eqb_eq in E. split; [discriminate|]. intros H; exfalso; apply H; auto.
    + apply N.eqb_neq in E. rewrite IH. tauto.
Qed.
Lemma env_ids_shape : forall e c, map fst e = vars c -> env_ids e = ids c.
Proof.
  intros e c H. unfold env_ids. rewrite <- (map_map fst idn), H. apply ids_vars.
Qed.
Lemma env_ids_app : forall a b, env_ids (a ++ b) = env_ids a ++ env_ids b.
Proof. intros; unfold env_ids; apply map_app. Qed.
Lemma lookup_Some_shape : forall e c x, map fst e = vars c -> In x (ids c) -> lookup e x <> None.
Proof.
  intros e c x H Hx Hn. apply lookup_None in Hn. apply Hn. rewrite (env_ids_shape e c H). auto.
Qed.

Definition getv (le : env) (x : N) : value := match lookup le x with Some v => v | None => VInt 0 end.
Lemma getv_Some : forall le x v, lookup le x = Some v -> getv le x = v.
Proof. unfold getv; intros le x v H; rewrite H; auto. Qed.

Lemma lookups_getv : forall le (oldc : ctx),
  (forall b, In b oldc -> lookup le (idn (bvar b)) <> None) ->
  lookups le (vars oldc) = Some (map (fun b => getv le (idn (bvar b))) oldc).
Proof.
  induction oldc as [|b r IH]; intros H; [reflexivity|].
  change (vars (b :: r)) with (bvar b :: vars r). cbn [lookups map].
  rewrite IH by (intros; apply H; simpl; auto). unfold lookup_id.
  destruct (lookup le (idn (bvar b))) eqn:E.
  - rewrite (getv_Some _ _ _ E). auto.
  - exfalso. apply (H b); simpl; auto.
Qed.
Lemma bind_combine : forall xs vs, length xs = length vs -> bind xs vs = Some (combine xs vs).
Proof.
  induction xs as [|x xs IH]; intros [|v vs] H; simpl in *; try discriminate; auto.
  rewrite IH by lia. auto.
Qed.
Lemma bind_Some_length : forall xs vs e, bind xs vs = Some e -> length xs = length vs /\ e = combine xs vs.
Proof.
  induction xs as [|x xs IH]; intros [|v vs] e H; simpl in *; try discriminate.
  - inversion H; auto.
  - destruct (bind xs vs) eqn:E; try discriminate. inversion H; subst.
    apply IH in E. destruct E; subst. split; auto.
Qed.
Lemma lookups_length : forall e xs vs, lookups e xs = Some vs -> length vs = length xs.
Proof.
  induction xs as [|x xs IH]; intros vs H; simpl in *.
  - inversion H; auto.
  - destruct (lookup_id e x); try discriminate. destruct (lookups e xs) eqn:E; try discriminate.
    inversion H; subst. simpl. f_equal. apply IH; auto.
Qed.
Lemma lookups_nth : forall e xs vs, lookups e xs = Some vs ->
  forall i x, nth_error xs i = Some x -> exists v, nth_error vs i = Some v /\ lookup e (idn x) = Some v.
Proof.
  induction xs as [|x xs IH]; intros vs H i y Hi; simpl in *.
  - destruct i; discriminate.
  - unfold lookup_id in H. destruct (lookup e (idn x)) eqn:E1; try discriminate.
    destruct (lookups e xs) eqn:E; try discriminate. inversion H; subst.
    destruct i as [|i]; simpl in *.
    + inversion Hi; subst. eauto.
    + eapply IH; eauto.
Qed.

(* ---------- rearranging an environment ---------- *)
Definition rebind (le : env) (oldc newc : ctx) : env :=
  combine (vars newc) (map (fun b => getv le (idn (bvar b))) oldc).

Lemma rebind_fst : forall le oldc newc, length newc = length oldc -> map fst (rebind le oldc newc) = vars newc.
Proof.
  intros; unfold rebind. apply combine_map_fst. rewrite vars_length, map_length. auto.
Qed.
Lemma rebind_snd : forall le oldc newc, length newc = length oldc ->
  map snd (rebind le oldc newc) = map (fun b => getv le (idn (bvar b))) oldc.
Proof.
  intros; unfold rebind. apply combine_map_snd. rewrite vars_length, map_length. auto.
Qed.
Lemma combine_app : forall {A B} (a1 a2 : list A) (b1 b2 : list B), length a1 = length b1 ->
  combine (a1 ++ a2) (b1 ++ b2) = combine a1 b1 ++ combine a2 b2.
Proof.
  induction a1 as [|x a1 IH]; intros a2 [|y b1] b2 H; simpl in *; try discriminate; auto.
  f_equal. apply IH. lia.
Qed.
Lemma rebind_app : forall le o1 o2 n1 n2, length n1 = length o1 ->
  rebind le (o1 ++ o2) (n1 ++ n2) = rebind le o1 n1 ++ rebind le o2 n2.
Proof.
  intros; unfold rebind. rewrite vars_app, map_app. apply combine_app.
  rewrite vars_length, map_length. auto.
Qed.
Lemma rebind_length : forall le oldc newc, length newc = length oldc -> length (rebind le oldc newc) = length newc.
Proof.
  intros; unfold rebind. rewrite combine_length, vars_length, map_length. lia.
Qed.

Lemma getv_cons_ne : forall y v le x, idn y <> x -> getv ((y, v) :: le) x = getv le x.
Proof. intros; unfold getv; simpl. apply N.eqb_neq in H. rewrite H. auto. Qed.

Lemma rebind_id : forall c le, map fst le = vars c -> NoDup (ids c) -> rebind le c c = le.
Proof.
  induction c as [|b c IH]; intros [|[y v] le] H Hnd; simpl in *; try discriminate; auto.
  inversion H; subst. inversion Hnd as [|? ? Hn Hnd']; subst.
  unfold rebind; simpl. f_equal.
  - unfold getv; simpl. rewrite N.eqb_refl. auto.
  - assert (E : map (fun b0 => getv ((bvar b, v) :: le) (idn (bvar b0))) c = map (fun b0 => getv le (idn (bvar b0))) c).
    { apply map_ext_in. intros b0 Hb0. apply getv_cons_ne. intros E. apply Hn. rewrite E. apply In_ids; auto. }
    rewrite E. apply IH; auto.
Qed.

(* the value bound to the i-th new variable is the value of the i-th old variable *)
Lemma rebind_lookup : forall le newc oldc rest bn bo,
  NoDup (ids newc) -> length newc = length oldc -> In (bn, bo) (combine newc oldc) ->
  lookup (rebind le oldc newc ++ rest) (idn (bvar bn)) = Some (getv le (idn (bvar bo))).
Proof.
  induction newc as [|x newc IH]; intros [|y oldc] rest bn bo Hnd Hlen Hin; simpl in *; try tauto; try discriminate.
  inversion Hnd as [|? ? Hn Hnd']; subst.
  unfold rebind; simpl. destruct Hin as [Hin|Hin].
  - inversion Hin; subst. rewrite N.eqb_refl. auto.
  - destruct (N.eqb (idn (bvar x)) (idn (bvar bn))) eqn:E.
    + apply N.eqb_eq in E. exfalso. apply Hn. rewrite E. apply In_ids. eapply in_combine_l; eauto.
    + apply (IH oldc rest bn bo); auto.
Qed.
Lemma combine_self_In : forall {A} (l : list A) x, In x l -> In (x, x) (combine l l).
Proof. induction l as [|y l IH]; intros x H; simpl in *; [tauto|]. destruct H as [->|H]; auto. Qed.
Lemma rebind_self_lookup : forall le nc rest x,
  NoDup (ids nc) -> In x (ids nc) -> lookup (rebind le nc nc ++ rest) x = Some (getv le x).
Proof.
  intros le nc rest x Hnd Hx. apply In_ids_ex in Hx. destruct Hx as [b [B1 B2]]. subst x.
  apply rebind_lookup; auto. apply combine_self_In; auto.
Qed.
Lemma rebind_notin : forall le oldc newc rest x,
  length newc = length oldc -> ~ In x (ids newc) -> lookup (rebind le oldc newc ++ rest) x = lookup rest x.
Proof.
  intros le oldc newc rest x Hlen Hx. rewrite lookup_app.
  assert (E : lookup (rebind le oldc newc) x = None).
  { apply lookup_None. rewrite (env_ids_shape _ newc); auto. apply rebind_fst; auto. }
  rewrite E. auto.
Qed.

(* ---------- split_last on appended lists ---------- *)
Lemma split_last_app : forall {X} (a b : list X), split_last (length b) (a ++ b) = Some (a, b).
Proof.
  intros X a b; unfold split_last. rewrite app_length.
  destruct (Nat.leb (length b) (length a + length b)) eqn:E.
  - replace (length a + length b - length b)%nat with (length a) by lia.
    rewrite firstn_app, skipn_app, firstn_all, skipn_all, Nat.sub_diag; simpl.
    rewrite app_nil_r; auto.
  - apply Nat.leb_gt in E; lia.
Qed.
Lemma ids_eqb_refl : forall l, ids_eqb l l = true.
Proof. induction l; simpl; auto. rewrite N.eqb_refl; auto. Qed.

(* ---------- single steps of the linear machine ---------- *)
Section Steps.
  Variable P' : prog.

  Lemma subst_step : forall n le (newc oldc : ctx) body out,
    length newc = length oldc -> (forall b, In b oldc -> lookup le (idn (bvar b)) <> None) ->
    exec_linear (S n) P' le (Substitute (combine newc (vars oldc)) body) out =
    exec_linear n P' (rebind le oldc newc) body out.
  Proof.
    intros n le newc oldc body out Hlen Hin. simpl.
    assert (Hl : length newc = length (vars oldc)) by (rewrite vars_length; auto).
    rewrite (combine_map_snd _ _ Hl), (lookups_getv _ _ Hin).
    assert (E : map (fun r : binding * ident => bvar (fst r)) (combine newc (vars oldc)) = vars newc).
    { rewrite <- (map_map fst bvar). rewrite (combine_map_fst _ _ Hl). auto. }
    rewrite E, bind_combine by (rewrite vars_length, map_length; auto). reflexivity.
  Qed.

  (* the linearizer either inserts a substitution or has found the context already right; in
     both cases the core statement runs in the rearranged environment *)
  Lemma wrap_exec : forall c le (newc oldc : ctx) core s' n out,
    map fst le = vars c -> NoDup (ids c) -> length newc = length oldc ->
    (forall b, In b oldc -> In (idn (bvar b)) (ids c)) ->
    (s' = Substitute (combine newc (vars oldc)) core \/ (s' = core /\ c = oldc /\ newc = oldc)) ->
    exists k, exec_linear (k + n) P' le s' out = exec_linear n P' (rebind le oldc newc) core out.
  Proof.
    intros c le newc oldc core s' n out Hsh Hnd Hlen Hin [->|[-> [-> ->]]].
    - exists 1%nat. apply subst_step; auto. intros b Hb. eapply lookup_Some_shape; eauto.
    - exists 0%nat. simpl. rewrite rebind_id; auto.
  Qed.

  Lemma let_step : forall n e0 fs v tn tag (args : ctx) next out,
    length fs = length args -> env_ids fs = ids args ->
    exec_linear (S n) P' (e0 ++ fs) (Let v (Decl tn) tag args next) out =
    exec_linear n P' (e0 ++ [(v, VObj tn tag (map snd fs))]) next out.
  Proof.
    intros n e0 fs v tn tag args next out Hlen Hids. simpl.
    rewrite <- Hlen, split_last_app, Hids, ids_eqb_refl. reflexivity.
  Qed.

  Lemma create_step : forall n e0 cap v tn (cenv : ctx) cls next out,
    map fst cap = vars cenv ->
    exec_linear (S n) P' (e0 ++ cap) (Create v (Decl tn) (Some cenv) cls next) out =
    exec_linear n P' (e0 ++ [(v, VClo tn cls cap)]) next out.
  Proof.
    intros n e0 cap v tn cenv cls next out Hsh. simpl.
    assert (Hlen : length cap = length cenv).
    { rewrite <- (map_length fst cap), Hsh, vars_length. auto. }
    rewrite <- Hlen, split_last_app, (env_ids_shape _ _ Hsh), ids_eqb_refl.
    rewrite bind_combine by (rewrite vars_length, map_length; auto).
    assert (E : combine (vars cenv) (map snd cap) = cap).
    { rewrite <- Hsh. clear. induction cap as [|[x v] r IH]; simpl; auto. rewrite IH; auto. }
    rewrite E. reflexivity.
  Qed.

  Lemma switch_step : forall n e0 x v ty0 t tag fs cls c e1 out,
    idn x = idn v -> find_clause cls tag = Some c -> bind (vars (cl_ctx c)) fs = Some e1 ->
    exec_linear (S n) P' (e0 ++ [(x, VObj ty0 tag fs)]) (Switch v t cls) out =
    exec_linear n P' (e0 ++ e1) (cl_body c) out.
  Proof.
    intros n e0 x v ty0 t tag fs cls c e1 out Hid Hf Hb. simpl.
    change 1%nat with (length [(x, VObj ty0 tag fs)]). rewrite split_last_app.
    rewrite Hid, N.eqb_refl, Hf, Hb. reflexivity.
  Qed.

  Lemma invoke_step : forall n e0 x v ty0 t tag cls ce c e1 args out,
    idn x = idn v -> find_clause cls tag = Some c -> bind (vars (cl_ctx c)) (map snd e0) = Some e1 ->
    exec_linear (S n) P' (e0 ++ [(x, VClo ty0 cls ce)]) (Invoke v tag t args) out =
    exec_linear n P' (e1 ++ ce) (cl_body c) out.
  Proof.
    intros n e0 x v ty0 t tag cls ce c e1 args out Hid Hf Hb. simpl.
    change 1%nat with (length [(x, VClo ty0 cls ce)]). rewrite split_last_app.
    rewrite Hid, N.eqb_refl, Hf, Hb. reflexivity.
  Qed.

  Lemma call_step : forall n le l args d e' out,
    find_def P' l = Some d -> bind (vars (dctx d)) (map snd le) = Some e' ->
    exec_linear (S n) P' le (Call l args) out = exec_linear n P' e' (dbody d) out.
  Proof. intros n le l args d e' out Hf Hb. simpl. rewrite Hf, Hb. reflexivity. Qed.
End Steps.
