(* Proof/ShrinkArgs.v (C04, fragment 2) - the Core machine on the argument lists of focused programs
   (all arguments are variables) and the relation of the values obtained. *)
From Coq Require Import List ZArith NArith String Bool Lia.
From SCC Require Import Base.Sexp Lang.SynUtil Lang.CoreSyn Lang.AxSyn Sem.AxSem Sem.FsCheck Model.Shrink
     Proof.ShrinkProof Proof.ShrinkSem Proof.ShrinkRn Proof.ShrinkRel.
From SCC Require Sem.CoreSem.
Import ListNotations.
Open Scope list_scope.

Lemma cchi_eqb_eq : forall a b, cchi_eqb a b = true -> a = b.
Proof. destruct a, b; simpl; congruence. Qed.
Lemma cty_eqb_eq : forall a b, cty_eqb a b = true -> a = b.
Proof. destruct a as [|x], b as [|y]; simpl; try congruence. intros H. apply cident_eqb_eq in H. now subst. Qed.
Lemma csame_sig_eq : forall a s, csame_sig a s = true -> cbchi a = cbchi s /\ cbty a = cbty s.
Proof. intros a s H. unfold csame_sig in H. apply andb_prop in H as [H1 H2]. split; [now apply cchi_eqb_eq | now apply cty_eqb_eq]. Qed.

(* the value of a variable argument *)
Definition arg_val (e : cenv) (b : cbinding) : option bval :=
  match CoreSem.clookup e (cbvar b), cbchi b with
  | Some (CoreSem.BP pv), CPrd => Some (BP pv)
  | Some (CoreSem.BK kv), CCns => Some (BK kv)
  | _, _ => None
  end.
Lemma arg_val_lookup : forall e b v, arg_val e b = Some v -> CoreSem.clookup e (cbvar b) = Some v.
Proof.
  intros e b v H. unfold arg_val in H. destruct (CoreSem.clookup e (cbvar b)) as [[pv|kv]|]; destruct (cbchi b); congruence.
Qed.

Section Args.
Variable p : fsprog.
Variable q : prog.
Notation P := (CoreSem.fs2c_prog p).

Lemma cont_stuck : forall n w out r, cont p n (CoreSem.stuck w) out = r -> good r -> False.
Proof. intros n w out r H Hg. simpl in H. subst. exact Hg. Qed.
Lemma crun_0 : forall c out r, CoreSem.crun 0 P c out = r -> good r -> False.
Proof. intros c out r H Hg. simpl in H. subst. exact Hg. Qed.

(* one argument *)
Lemma arg_step : forall n b e m out r,
  CoreSem.crun n P (CoreSem.Arg (CoreSem.fs_arg b) e m) out = r -> good r ->
  exists n' v, n = S n' /\ arg_val e b = Some v /\ CoreSem.crun n' P (CoreSem.App m v) out = r.
Proof.
  intros n b e m out r H Hg. destruct n as [|n]; [exfalso; eapply crun_0; eauto|].
  rewrite crun_S in H. unfold CoreSem.fs_arg in H. unfold arg_val.
  destruct (cbchi b); cbn [CoreSem.cstep] in H;
    destruct (CoreSem.clookup e (cbvar b)) as [[pv|kv]|];
    try (unfold CoreSem.stuck in H; subst; exfalso; exact Hg); eauto.
Qed.

Lemma rev_append_cons_app' : forall {X} (x : X) done l, rev_append (x :: done) [] ++ l = rev_append done [] ++ x :: l.
Proof. intros. rewrite !rev_append_rev, !app_nil_r. simpl. now rewrite <- app_assoc. Qed.

Lemma args_eval : forall rest b done n e out r f,
  CoreSem.crun n P (CoreSem.Arg (CoreSem.fs_arg b) e
                      (CoreSem.MArgs done (map CoreSem.fs_arg rest) e f)) out = r ->
  good r ->
  exists n' vs, n' < n /\ omap (arg_val e) (b :: rest) = Some vs /\
    cont p n' (CoreSem.finish_args P f (rev_append done [] ++ vs)) out = r.
Proof.
  induction rest as [|b' rest IH]; intros b done n e out r f H Hg.
  - apply arg_step in H as (n1 & v & -> & Hv & H); [|exact Hg].
    destruct n1 as [|n1]; [exfalso; eapply crun_0; eauto|]. rewrite crun_cont in H. cbn [CoreSem.cstep map] in H.
    exists n1, [v]. split; [lia|]. split; [cbn [omap]; rewrite Hv; reflexivity|].
    rewrite <- rev_append_cons_app', app_nil_r. exact H.
  - apply arg_step in H as (n1 & v & -> & Hv & H); [|exact Hg].
    destruct n1 as [|n1]; [exfalso; eapply crun_0; eauto|]. rewrite crun_S in H. cbn [CoreSem.cstep map] in H.
    apply IH in H as (n' & vs & Hlt & Hvs & H); [|exact Hg].
    exists n', (v :: vs). split; [lia|]. split.
    + change (omap (arg_val e) (b :: b' :: rest)) with (do y <- arg_val e b; do ys <- omap (arg_val e) (b' :: rest); Some (y :: ys)).
      rewrite Hv. cbn [obind]. rewrite Hvs. reflexivity.
    + rewrite <- rev_append_cons_app'. exact H.
Qed.

Lemma start_args_eval : forall args n e out r f,
  cont p n (CoreSem.start_args P (map CoreSem.fs_arg args) e f) out = r -> good r ->
  exists n' vs, n' <= n /\ omap (arg_val e) args = Some vs /\
    cont p n' (CoreSem.finish_args P f vs) out = r.
Proof.
  intros [|b rest] n e out r f H Hg.
  - exists n, []. split; [lia|]. split; [reflexivity | exact H].
  - cbn [map CoreSem.start_args cont] in H. apply args_eval in H as (n' & vs & Hlt & Hvs & H); [|exact Hg].
    exists n', vs. split; [lia|]. split; [exact Hvs | exact H].
Qed.

(* the values are related *)
Lemma args_rel : forall n need pi A G e ae what,
  erel p q n need pi A G e ae -> NoDup (cids G) ->
  forall args sg vs, fargs_ok what G args sg = None -> (forall b, In b args -> need (cbvar b)) ->
  omap (arg_val e) args = Some vs ->
  exists avs, lookups ae (map (fun b => pi (cbvar b)) args) = Some avs /\ vrels p q n sg vs avs.
Proof.
  intros n need pi A G e ae what He Hnd.
  induction args as [|a ar IH]; intros [|s sr] vs Hok Hneed Hvs; cbn [fargs_ok] in Hok; try discriminate.
  - cbn [omap] in Hvs. inv Hvs. exists []. split; [reflexivity | constructor].
  - cbn [omap] in Hvs. destruct (arg_val e a) as [v|] eqn:Hv; [|discriminate]. cbn [obind] in Hvs.
    destruct (omap (arg_val e) ar) as [vr|] eqn:Hvr; [|discriminate]. cbn [obind] in Hvs. inv Hvs.
    apply seq_none in Hok as [H1 Hok]. apply seq_none in Hok as [H2 H3]. apply fensure_none in H1.
    apply csame_sig_eq in H1 as [Hc Ht].
    destruct (erel_var p q _ _ _ _ _ _ _ _ _ _ _ He Hnd H2 (Hneed a (or_introl eq_refl)) (arg_val_lookup _ _ _ Hv))
      as (_ & av & Hl & Hr).
    destruct (IH sr vr H3 (fun b Hb => Hneed b (or_intror Hb)) eq_refl) as (avs & Hls & Hrs).
    exists (av :: avs). split.
    + cbn [map lookups]. unfold lookup_id. rewrite Hl, Hls. reflexivity.
    + constructor; [|exact Hrs]. rewrite <- Hc, <- Ht. exact Hr.
Qed.

Lemma vrels_length : forall n sg vs avs, vrels p q n sg vs avs -> List.length vs = List.length sg /\ List.length avs = List.length sg.
Proof. intros n sg vs avs H. induction H; simpl; [auto | lia]. Qed.

(* every evaluated argument is a needed variable of the context: its AxCut name is in scope *)
Lemma args_scope : forall n need pi A G e ae,
  erel p q n need pi A G e ae -> NoDup (cids G) ->
  forall args vs, (forall b, In b args -> need (cbvar b)) -> omap (arg_val e) args = Some vs ->
  forall a, In a args -> In (idn (pi (cbvar a))) A /\ exists b0, In b0 G /\ cbvar b0 = cbvar a.
Proof.
  intros n need pi A G e ae He Hnd.
  induction args as [|a0 ar IH]; intros vs Hneed Hvs a Hin; [contradiction|].
  cbn [omap] in Hvs. destruct (arg_val e a0) as [v|] eqn:Hv; [|discriminate]. cbn [obind] in Hvs.
  destruct (omap (arg_val e) ar) as [vr|] eqn:Hvr; [|discriminate].
  destruct Hin as [<-|Hin].
  - destruct (erel_clookup p q _ _ _ _ _ _ _ _ _ He Hnd (arg_val_lookup _ _ _ Hv)) as (b0 & Hf & Hb & Hr).
    apply flookup_in in Hf as [Hin0 _]. split; [apply Hr; apply Hneed; now left | eauto].
  - eapply IH; eauto. intros b Hb. apply Hneed. now right.
Qed.
End Args.

(* names of the AxCut side of an argument list *)
Lemma vars_arn_shrink_rn : forall th cd rho args,
  vars (arn_ctx th (shrink_context cd (rn_ctx rho args))) = map (fun b => th (rho (cbvar b))) args.
Proof.
  intros. rewrite vars_arn_ctx, vars_shrink_context, cvars_rn_ctx. unfold cvars. rewrite !map_map. reflexivity.
Qed.
