(* C08: concrete print-free programs on which every hypothesis of rv_codegen_simulates_int /
   rv_codegen_simulates_cf is evaluated and both sides of the conclusion are computed, and witnesses that
   the arity and the capacity hypotheses cannot be dropped. *)
From Coq Require Import List ZArith NArith String Bool Lia.
From SCC Require Import Base.Sexp Lang.AxSyn Sem.AxSem Model.Backend Model.RV Sem.RVSem Sem.RVWf
     Model.Linearize Model.LinCheck Model.Capacity Proof.RVSimAddr Proof.RVSimClo Proof.RVSimTop.
From SCC Require Proof.X86SimExample Proof.X86SimExampleC.
Import ListNotations.
Local Open Scope string_scope.
Local Open Scope Z_scope.

Module XE := SCC.Proof.X86SimExample.
Module XEC := SCC.Proof.X86SimExampleC.
Notation id_ := XE.id_.
Notation ib := XE.ib.
Notation cb := XEC.cb.

(* two definitions calling each other, all five operators (incl. a division by zero), both forms of the
   conditional with four of the six sorts, a three-way substitution with a duplicated source *)
Definition rex_main : def :=
  mkd (id_ "main" 0) [ib "x" 1]
    (Literal 10 (id_ "y" 2)
    (Op (id_ "x" 1) Sum (id_ "y" 2) (id_ "z" 3)
    (IfC Lt (id_ "x" 1) (Some (id_ "y" 2))
       (Substitute [(ib "a" 4, id_ "z" 3); (ib "b" 5, id_ "x" 1); (ib "c" 6, id_ "z" 3)] (Call (id_ "f" 0) []))
       (Literal 10 (id_ "k" 4)
       (Op (id_ "x" 1) Sub (id_ "k" 4) (id_ "m" 5)
       (Op (id_ "z" 3) Div (id_ "m" 5) (id_ "w" 6)
       (Op (id_ "w" 6) Rem (id_ "y" 2) (id_ "r" 7)
       (IfC Ge (id_ "r" 7) (Some (id_ "w" 6)) (Exit (id_ "r" 7)) (Exit (id_ "w" 6)))))))))).
Definition rex_f : def :=
  mkd (id_ "f" 0) [ib "a" 1; ib "b" 2; ib "c" 3]
    (Literal (-7) (id_ "d" 4)
    (Op (id_ "a" 1) Prod (id_ "d" 4) (id_ "e" 5)
    (IfC Eq (id_ "b" 2) None
       (Exit (id_ "e" 5))
       (IfC Gt (id_ "b" 2) None
          (Substitute [(ib "x" 1, id_ "b" 2)] (Call (id_ "main" 0) []))
          (Exit (id_ "c" 3)))))).
Definition rex_prog : prog := mkp [rex_main; rex_f] [] 10.
Definition rex_code : list rcode := match rv_compile rex_prog 0 with Ok (cs, _, _) => cs | Err _ => [] end.

Lemma rex_hypotheses :
  XP.int_frag rex_prog = true /\ lin_check_prog rex_prog = true /\
  (exists n lc', rv_compile rex_prog 0 = Ok (rex_code, n, lc')) /\ asm_wf rex_code = None /\
  Nat.leb (main_arity rex_prog) 14 = true.
Proof. repeat split; try (vm_compute; reflexivity). eexists _, _. vm_compute. reflexivity. Qed.

(* x = 0: f(10, 0, 10) exits with -70; x = -4: f(6, -4, 6) takes the last branch; x = 12: the else branch
   divides 22 by 2; x = 10: division by zero; x = 3: main and f call each other for ever (fuel) *)
Lemma rex_runs :
  run_linear 50 rex_prog [0] = ([], OExit (-70)) /\ fst (run_rv 10 1000 rex_code [0]) = ([], OExit (-70)) /\
  run_linear 50 rex_prog [-4] = ([], OExit 6) /\ fst (run_rv 10 1000 rex_code [-4]) = ([], OExit 6) /\
  run_linear 50 rex_prog [12] = ([], OExit 11) /\ fst (run_rv 10 1000 rex_code [12]) = ([], OExit 11) /\
  run_linear 50 rex_prog [10] = ([], OUndef "div0") /\ fst (run_rv 10 1000 rex_code [10]) = ([], OUndef "div0").
Proof. repeat split; vm_compute; reflexivity. Qed.

(* closures without captured variables: `main` creates the return continuation and a closure of a codata
   type with two destructors, calls the tail-recursive `f`, which finally invokes the continuation; for a
   negative argument the two-destructor closure is entered through its jump table *)
Definition rexc_main : def :=
  mkd (id_ "main" 0) [ib "x" 1]
    (Literal 0 (id_ "acc" 6)
    (Create (id_ "a" 7) (Decl (id_ "_Cont" 0)) (Some [])
       [(id_ "Ret" 0, [ib "r" 2], Exit (id_ "r" 2))]
    (Create (id_ "t" 8) (Decl (id_ "Two" 0)) (Some [])
       [(id_ "A" 0, [ib "p" 9], Exit (id_ "p" 9));
        (id_ "B" 0, [ib "q" 10; ib "r" 11], Op (id_ "q" 10) Prod (id_ "r" 11) (id_ "s" 12) (Exit (id_ "s" 12)))]
    (IfC Lt (id_ "x" 1) None
       (Literal 7 (id_ "k" 9)
       (Substitute [(ib "q" 10, id_ "x" 1); (ib "r" 11, id_ "k" 9); (cb "t" 8 "Two", id_ "t" 8)]
          (Invoke (id_ "t" 8) (id_ "B" 0) (Decl (id_ "Two" 0)) [])))
       (Substitute [(ib "x" 3, id_ "x" 1); (ib "acc" 4, id_ "acc" 6); (cb "a0" 5 "_Cont", id_ "a" 7); (cb "t0" 6 "Two", id_ "t" 8)]
          (Call (id_ "f" 0) [])))))).
Definition rexc_f : def :=
  mkd (id_ "f" 0) [ib "x" 3; ib "acc" 4; cb "a0" 5 "_Cont"; cb "t0" 6 "Two"]
    (IfC Eq (id_ "x" 3) None
       (Substitute [(ib "acc" 4, id_ "acc" 4); (cb "a0" 5 "_Cont", id_ "a0" 5)]
          (Invoke (id_ "a0" 5) (id_ "Ret" 0) (Decl (id_ "_Cont" 0)) []))
       (Literal 1 (id_ "one" 8)
       (Op (id_ "x" 3) Sub (id_ "one" 8) (id_ "x" 9)
       (Op (id_ "acc" 4) Sum (id_ "x" 3) (id_ "y" 10)
       (Substitute [(ib "x" 3, id_ "x" 9); (ib "acc" 4, id_ "y" 10); (cb "a0" 5 "_Cont", id_ "a0" 5); (cb "t0" 6 "Two", id_ "t0" 6)]
          (Call (id_ "f" 0) [])))))).
Definition rexc_prog : prog := mkp [rexc_main; rexc_f] [XEC.t_cont; XEC.t_two] 20.
Definition rexc_code : list rcode := match rv_compile rexc_prog 0 with Ok (cs, _, _) => cs | Err _ => [] end.

Lemma rexc_hypotheses :
  XPC.cf_frag rexc_prog = true /\ XTC.entry_int rexc_prog = true /\ lin_check_prog rexc_prog = true /\
  (exists n lc', rv_compile rexc_prog 0 = Ok (rexc_code, n, lc')) /\ asm_wf rexc_code = None /\ code_small rexc_code = true /\
  Nat.leb (main_arity rexc_prog) 14 = true.
Proof. repeat split; try (vm_compute; reflexivity). eexists _, _. vm_compute. reflexivity. Qed.

Lemma rexc_runs :
  run_linear 60 rexc_prog [4] = ([], OExit 10) /\ fst (run_rv 10 2000 rexc_code [4]) = ([], OExit 10) /\
  run_linear 60 rexc_prog [-3] = ([], OExit (-21)) /\ fst (run_rv 10 2000 rexc_code [-3]) = ([], OExit (-21)).
Proof. repeat split; vm_compute; reflexivity. Qed.

(* the pre-linearization program of Proof/X86SimExampleC.v (the shape `shrink` produces for
     def f(x, acc) { if x == 0 { acc } else { f(x - 1, acc + x) } }   def main(x) { f(x, 0) }),
   linearized by the model, on the RISC-V back end *)
Definition rexc_named_code : list rcode :=
  match rv_compile (linearize XEC.exc_named) 0 with Ok (cs, _, _) => cs | Err _ => [] end.
Lemma rexc_named_hypotheses :
  prog_ok XEC.exc_named = true /\ XPC.cf_frag (linearize XEC.exc_named) = true /\ XTC.entry_int (linearize XEC.exc_named) = true /\
  lin_check_prog (linearize XEC.exc_named) = true /\
  (exists n lc', rv_compile (linearize XEC.exc_named) 0 = Ok (rexc_named_code, n, lc')) /\
  asm_wf rexc_named_code = None /\ code_small rexc_named_code = true /\
  Nat.leb (main_arity (linearize XEC.exc_named)) 14 = true /\
  run_named 100 XEC.exc_named [10] = ([], OExit 55) /\
  fst (run_rv 10 2000 rexc_named_code [10]) = ([], OExit 55).
Proof. repeat split; try (vm_compute; reflexivity). eexists _, _. vm_compute. reflexivity. Qed.

(* with more than fourteen arguments the entry convention of Sem/RVSem.v refuses to start, whatever the fuel *)
Lemma run_rv_many_args outer inner cs args :
  (14 < List.length args)%nat ->
  exists w, w <> "entry-args" /\ fst (run_rv outer inner cs args) = ([], OStuck w).
Proof.
  intros L. unfold run_rv. cbv zeta. destruct cs as [|[] r]; try (eexists; split; [|reflexivity]; discriminate).
  destruct (duplicate_labels _) as [|l0 ?]; [|eexists; split; [|reflexivity]; discriminate].
  destruct (find_label _ _); [|eexists; split; [|reflexivity]; discriminate].
  destruct (Nat.ltb_spec 14 (List.length args)); [|lia]. eexists; split; [|reflexivity]; discriminate.
Qed.

(* without the arity hypothesis the statement is false: rex_prog (one parameter) started with fifteen
   arguments: the linear machine refuses to start ("entry-args"), the entry convention of Sem/RVSem.v has
   no fifteenth argument register, whatever the fuel *)
Lemma rex_arity_needed :
  ~ (forall (p : prog) (lc : N) (cs : list rcode) (n : nat) (lc' : N) (args : list Z) (fuel : nat) (o : obs),
      XP.int_frag p = true -> lin_check_prog p = true ->
      rv_compile p lc = Ok (cs, n, lc') -> asm_wf cs = None -> Nat.leb (main_arity p) 14 = true ->
      run_linear fuel p args = o -> snd o <> OOutOfFuel ->
      exists outer inner, fst (run_rv outer inner cs args) = o).
Proof.
  intros H. destruct rex_hypotheses as (A & B & (n & lc' & D) & E & F).
  destruct (H rex_prog 0%N rex_code n lc' (repeat 1 15) 5%nat _ A B D E F eq_refl) as (outer & inner & R).
  { vm_compute. discriminate. }
  destruct (run_rv_many_args outer inner rex_code (repeat 1 15)) as (w & NW & RW); [cbn; lia|].
  rewrite RW in R. vm_compute in R. congruence.
Qed.

(* without the capacity hypothesis as well: a definition with fifteen parameters that only passes them on
   compiles (no register beyond the fourteenth position is named), the linear machine runs it, the entry
   convention has no register for the fifteenth argument *)
Definition rex15 : prog :=
  mkp [mkd (id_ "main" 0) (map (fun k => ib "x" (N.of_nat k)) (seq 1 15)) (Exit (id_ "x" 1))] [] 20.
Definition rex15_code : list rcode := match rv_compile rex15 0 with Ok (cs, _, _) => cs | Err _ => [] end.
Lemma rex_capacity_needed :
  ~ (forall (p : prog) (lc : N) (cs : list rcode) (n : nat) (lc' : N) (args : list Z) (fuel : nat) (o : obs),
      XP.int_frag p = true -> lin_check_prog p = true ->
      rv_compile p lc = Ok (cs, n, lc') -> asm_wf cs = None -> List.length args = n ->
      run_linear fuel p args = o -> snd o <> OOutOfFuel ->
      exists outer inner, fst (run_rv outer inner cs args) = o).
Proof.
  intros H.
  assert (D : rv_compile rex15 0 = Ok (rex15_code, 15%nat, 0%N)) by (vm_compute; reflexivity).
  destruct (H rex15 0%N rex15_code 15%nat 0%N (repeat 1 15) 5%nat _ eq_refl eq_refl D eq_refl eq_refl eq_refl) as (outer & inner & R).
  { vm_compute. discriminate. }
  destruct (run_rv_many_args outer inner rex15_code (repeat 1 15)) as (w & NW & RW); [cbn; lia|].
  rewrite RW in R. vm_compute in R. discriminate.
Qed.
