(* C08, forward simulation for HEAP statements, part 1: the state relation between a configuration of the
   heap-instrumented linear machine (Sem/AxHeap.v: environment entries carry the block pointer, the abstract
   allocator state evolves by Heap.step) and a state of Sem/RVSem.v, for objects of at most three fields
   (one block).  The counterpart of Proof/X86HSimRel.v and Proof/X86HFrame.v.

     xrep w v q a     the value v is represented by the pointer word q and the data word a in the heap
                      words w: an integer z is (0, z); an object is (pointer to its fields, 4 * position of
                      its tag in the declaration: the jump-table offset `jump_length`); a closure is
                      (pointer to its captured environment, address of its code: `CLO`); the n <= 3 fields
                      sit right-aligned in the three slots of ONE block (pointer word at q + 16 (3 - n + i + 1),
                      data word 8 further), the unused leading slots hold null pointers; no field: pointer 0;
     hvrep            position i of the environment: an `ext i64` variable has its value in the SECOND
                      register; every other variable has the block pointer of the machine's entry in the
                      FIRST and the data word in the SECOND register;
     hrel             X2 / X3 = reuse list / deferred list of the abstract state, `abs_heap` = the abstract
                      state up to zero padding (`heq`);
     xrep_frame       a representation survives every change of the heap words that leaves the non-header
                      words of the blocks reachable from its pointer alone. *)
From Coq Require Import List ZArith NArith String Bool Lia FMapPositive.
From SCC Require Import Base.Sexp Lang.AxSyn Sem.AxSem Sem.AxHeap Model.ParMoves Model.Backend Model.RV Sem.RVSem Sem.RVWf
     Generated.Constants Proof.RVSel Proof.SubstGraph Proof.SubstBackends Proof.RVSubst Proof.RVSimAddr Proof.RVSimRel
     Proof.RVHeapAbs Proof.RVHDefs Proof.RVHMem.
From SCC Require Model.Heap Proof.HeapMore Proof.HeapTrace Proof.HeapRep Proof.HeapRepAlloc Proof.HeapRepLoad.
Import ListNotations.
Open Scope Z_scope.
Open Scope list_scope.

Notation reach := HeapTrace.reach.

(* the typing context a captured environment stands for (names of the annotation, kinds and types of the values) *)
Definition ctx_of_env (ce : list (ident * value)) : ctx :=
  map (fun xv : ident * value => mkb (fst xv) (chi_of (snd xv)) (ty_of (snd xv))) ce.

(* the slot addresses of the n fields of the block q *)
Definition saddrs (q : Z) (n : nat) : list Z := map (slot_addr q n) (seq 0 n).
Lemma saddrs_length q n : List.length (saddrs q n) = n.
Proof. unfold saddrs. now rewrite map_length, seq_length. Qed.
Lemma saddrs_nth q n i : (i < n)%nat -> nth_error (saddrs q n) i = Some (slot_addr q n i).
Proof. intros H. unfold saddrs. rewrite nth_error_map, (nth_error_nth' _ 0%nat) by (rewrite seq_length; exact H). now rewrite seq_nth. Qed.
Lemma saddrs_in q n a : In a (saddrs q n) -> (n <= 3)%nat -> a = q + 16 \/ a = q + 32 \/ a = q + 48.
Proof.
  unfold saddrs. intros H L. apply in_map_iff in H as (i & <- & Hi). apply in_seq in Hi. unfold slot_addr.
  assert (C : (3 - n + i + 1 = 1 \/ 3 - n + i + 1 = 2 \/ 3 - n + i + 1 = 3)%nat) by lia.
  destruct C as [->|[->| ->]]; cbn; auto.
Qed.

Section HRel.
Variable types : list tydecl.
(* what the data word of a closure points to: (address, type name, clauses, captured context) *)
Variable CLO : Z -> ident -> list clause -> ctx -> Prop.

(* the fields of an object have the kinds and types its constructor declares *)
Definition same_kinds (fs : list value) (sg : ctx) : Prop :=
  Forall2 (fun f b => chi_of f = bchi b /\ ty_of f = bty b) fs sg.
Definition tag_word (tn tag : ident) (fs : list value) (a : Z) : Prop :=
  exists d k x, find (fun d => ident_eqb (tname d) tn) types = Some d /\
              xtor_position (txtors d) tag 0 = Ok k /\ a = jump_length k /\
              find (fun x => ident_eqb (xname x) tag) (txtors d) = Some x /\ same_kinds fs (xargs x).

Inductive xrep (w : Z -> Z) : value -> Z -> Z -> Prop :=
| xr_int z : xrep w (VInt z) 0 z
| xr_obj tn tag fs q a : tag_word tn tag fs a -> xflds w fs q -> xrep w (VObj tn tag fs) q a
| xr_clo tn cls ce q a : CLO a tn cls (ctx_of_env ce) -> xflds w (map snd ce) q -> xrep w (VClo tn cls ce) q a
with xflds (w : Z -> Z) : list value -> Z -> Prop :=
| xf_nil : xflds w [] 0
| xf_cons fs q :
    fs <> [] -> (List.length fs <= 3)%nat -> is_blk q ->
    (forall j, (j < 3 - List.length fs)%nat -> w (q + 16 * Z.of_nat (j + 1)) = 0) ->
    xreps w fs (saddrs q (List.length fs)) ->
    xflds w fs q
with xreps (w : Z -> Z) : list value -> list Z -> Prop :=
| xs_nil : xreps w [] []
| xs_cons v vs a al : xrep w v (w a) (w (a + 8)) -> xreps w vs al -> xreps w (v :: vs) (a :: al).

Scheme xrep_ind3 := Induction for xrep Sort Prop
  with xflds_ind3 := Induction for xflds Sort Prop
  with xreps_ind3 := Induction for xreps Sort Prop.
Combined Scheme xrep_mutind from xrep_ind3, xflds_ind3, xreps_ind3.

Lemma xreps_length w vs al : xreps w vs al -> List.length al = List.length vs.
Proof. induction 1; cbn; auto. Qed.
Lemma xreps_nth w vs al : xreps w vs al -> forall i v, nth_error vs i = Some v ->
  exists a, nth_error al i = Some a /\ xrep w v (w a) (w (a + 8)).
Proof.
  induction 1 as [|v0 vs a al H0 H IH]; intros i v Hi; [destruct i; discriminate|].
  destruct i as [|i]; cbn [nth_error] in *; [inversion Hi; subst; eauto|eauto].
Qed.
Lemma xreps_intro w : forall vs al, List.length al = List.length vs ->
  (forall i v a, nth_error vs i = Some v -> nth_error al i = Some a -> xrep w v (w a) (w (a + 8))) -> xreps w vs al.
Proof.
  induction vs as [|v vs IH]; intros [|a al] L H; cbn in L; try discriminate; constructor.
  - apply (H O); reflexivity.
  - apply IH; [lia|]. intros i v' a' Hv Ha. apply (H (S i)); assumption.
Qed.

(* slot addresses are not block addresses *)
Lemma saddrs_not_blk q n a : is_blk q -> (n <= 3)%nat -> In a (saddrs q n) -> ~ is_blk a /\ ~ is_blk (a + 8).
Proof.
  intros Hq L Ha. destruct (saddrs_in q n a Ha L) as [->|[->| ->]]; split; rewrite <- ?Z.add_assoc; apply not_blk_off; auto; lia.
Qed.

(* a representation survives every change of block headers *)
Lemma xrep_ext_mut w w' : (forall a, ~ is_blk a -> w' a = w a) ->
  (forall v q a, xrep w v q a -> xrep w' v q a) /\
  (forall fs q, xflds w fs q -> xflds w' fs q) /\
  (forall vs al, xreps w vs al -> (forall a, In a al -> ~ is_blk a /\ ~ is_blk (a + 8)) -> xreps w' vs al).
Proof.
  intros E. apply xrep_mutind.
  - intros z. constructor.
  - intros tn tag fs q a T _ IH. now constructor.
  - intros tn cls ce q a C _ IH. now constructor.
  - constructor.
  - intros fs q NE LE BQ Z0 XS IH. apply xf_cons; auto.
    + intros j Hj. rewrite E; [now apply Z0|]. apply not_blk_off; [exact BQ|lia].
    + apply IH. intros a Ha. now apply (saddrs_not_blk q (List.length fs)).
  - intros _. constructor.
  - intros v vs a al X IH1 XS IH2 NB. constructor.
    + destruct (NB a (or_introl eq_refl)) as [N1 N2]. rewrite (E a N1), (E (a + 8) N2). exact IH1.
    + apply IH2. intros a' Ha'. apply NB. now right.
Qed.
Lemma xrep_ext w w' v q a : (forall a, ~ is_blk a -> w' a = w a) -> xrep w v q a -> xrep w' v q a.
Proof. intros E. apply (proj1 (xrep_ext_mut w w' E)). Qed.
Lemma xflds_ext w w' fs q : (forall a, ~ is_blk a -> w' a = w a) -> xflds w fs q -> xflds w' fs q.
Proof. intros E. apply (proj1 (proj2 (xrep_ext_mut w w' E))). Qed.

(* the pointer word of a represented value is null or a block of the heap region *)
Lemma xflds_ptr w fs q : xflds w fs q -> q = 0 \/ is_blk q.
Proof. destruct 1; [now left|now right]. Qed.
Lemma xrep_ptr w v q a : xrep w v q a -> q = 0 \/ is_blk q.
Proof. destruct 1; [now left|eapply xflds_ptr; eauto|eapply xflds_ptr; eauto]. Qed.
Lemma xflds_nil_inv w q : xflds w [] q -> q = 0.
Proof. inversion 1; [reflexivity|congruence]. Qed.
Lemma xflds_cons_inv w fs q : xflds w fs q -> fs <> [] ->
  (List.length fs <= 3)%nat /\ is_blk q /\
  (forall j, (j < 3 - List.length fs)%nat -> w (q + 16 * Z.of_nat (j + 1)) = 0) /\
  xreps w fs (saddrs q (List.length fs)).
Proof. intros H NE. destruct H as [|fs q _ LE BQ Z0 XS]; [congruence|auto]. Qed.
(* field i of a represented object *)
Lemma xflds_field w fs q i f : xflds w fs q -> nth_error fs i = Some f ->
  xrep w f (w (slot_addr q (List.length fs) i)) (w (slot_addr q (List.length fs) i + 8)).
Proof.
  intros XF Hf. assert (NE : fs <> []) by (intros ->; destruct i; discriminate).
  destruct (xflds_cons_inv w fs q XF NE) as (_ & _ & _ & XS).
  destruct (xreps_nth w fs _ XS i f Hf) as (a & Ha & X).
  rewrite saddrs_nth in Ha by (apply nth_error_Some; congruence). inversion Ha; subst. exact X.
Qed.

(* ---------- positions ---------- *)
Inductive hvrep (s : rstate) (i : nat) : binding -> value -> Z -> Prop :=
| hv_int b z q t :
    bchi b = Ext -> bty b = I64 -> rtpos Snd i = Ok t -> rget s t = Some z -> hvrep s i b (VInt z) q
| hv_ptr b v q a t1 t2 :
    bchi b <> Ext -> chi_of v = bchi b -> ty_of v = bty b ->
    rtpos Fst i = Ok t1 -> rtpos Snd i = Ok t2 -> rget s t1 = Some q -> rget s t2 = Some a ->
    xrep (hword s) v q a -> hvrep s i b v q.

Record hrel (c : ctx) (he : henv) (hs : Heap.st) (s : rstate) : Prop := mk_hrel {
  hr_heapreg : rget s HEAP = Some (Heap.heap hs);
  hr_freereg : rget s FREE = Some (Heap.free hs);
  hr_heq : heq (abs_heap (Heap.frontier hs) s) hs;
  hr_ids : env_ids (erase_env he) = ids c;
  hr_nodup : NoDup (ids c);
  hr_vals : forall i x v q, nth_error he i = Some (x, v, q) -> exists b, nth_error c i = Some b /\ hvrep s i b v q
}.

Lemma hrel_length c he hs s : hrel c he hs s -> List.length he = List.length c.
Proof.
  intros R. pose proof (hr_ids _ _ _ _ R) as H. apply (f_equal (@List.length N)) in H.
  unfold env_ids, ids, erase_env in H. now rewrite !map_length in H.
Qed.
(* every position has registers: at most 14 variables *)
Lemma hrel_small c he hs s : hrel c he hs s -> (List.length he <= 14)%nat.
Proof.
  intros R. destruct (Nat.le_gt_cases (List.length he) 14) as [L|L]; [exact L|exfalso].
  destruct (nth_error he 14) as [[[x v] q]|] eqn:E; [|apply nth_error_None in E; lia].
  destruct (hr_vals _ _ _ _ R 14%nat x v q E) as (b & _ & V).
  assert (T : exists t, rtpos Snd 14 = Ok t) by (destruct V; eauto).
  destruct T as (t & T). apply rtpos_val in T. lia.
Qed.

Lemma hvrep_keep s s' i b v q :
  (forall a, ~ is_blk a -> hword s' a = hword s a) ->
  (forall n t, allowed n b -> rtpos n i = Ok t -> rget s' t = rget s t) -> hvrep s i b v q -> hvrep s' i b v q.
Proof.
  intros HE K V. destruct V as [b z q t A B T L|b v q a t1 t2 A K1 K2 T1 T2 L1 L2 X].
  - eapply hv_int; eauto. rewrite (K Snd _ (or_introl eq_refl) T). exact L.
  - assert (AL : forall n, allowed n b) by (intros n; right; exact A).
    apply (hv_ptr s' i b v q a t1 t2); auto.
    + rewrite (K Fst t1 (AL Fst) T1). exact L1.
    + rewrite (K Snd t2 (AL Snd) T2). exact L2.
    + apply (xrep_ext (hword s) (hword s')); [exact HE|exact X].
Qed.
Lemma hvrep_kind s i b b' v q : bchi b' = bchi b -> bty b' = bty b -> hvrep s i b v q -> hvrep s i b' v q.
Proof.
  intros K T V. destruct V as [b z q t A B T0 L|b v q a t1 t2 A K1 K2 T1 T2 L1 L2 X].
  - eapply hv_int; eauto; congruence.
  - eapply hv_ptr; eauto; congruence.
Qed.

Lemma heq_same_words F s s' hs :
  (forall a, hword s' a = hword s a) -> rget s' HEAP = rget s HEAP -> rget s' FREE = rget s FREE ->
  heq (abs_heap F s) hs -> heq (abs_heap F s') hs.
Proof.
  intros HE RH RF. apply heq_eqB. unfold abs_heap, reg_or0. rewrite RH, RF.
  split; [reflexivity|]. split; [reflexivity|]. split; [reflexivity|].
  intros x _. unfold abs_mem. cbn [Heap.m]. now rewrite !HE.
Qed.

(* a state change that keeps the heap words, the allocator registers and every live register keeps the relation *)
Lemma hrel_keep c he hs s s' :
  hrel c he hs s -> (forall a, hword s' a = hword s a) ->
  rget s' HEAP = rget s HEAP -> rget s' FREE = rget s FREE ->
  (forall i b n t, nth_error c i = Some b -> allowed n b -> rtpos n i = Ok t -> rget s' t = rget s t) ->
  hrel c he hs s'.
Proof.
  intros R HE RH RF K. destruct R as [Hr Fr HQ Ids ND Vals]. split; auto.
  - now rewrite RH.
  - now rewrite RF.
  - eapply heq_same_words; eauto.
  - intros i x v q Hn. destruct (Vals i x v q Hn) as (b & Hb & V). exists b. split; [exact Hb|].
    eapply hvrep_keep; [intros a _; apply HE| |exact V]. intros n t AL T. apply (K i b n t); auto.
Qed.

(* reading an integer operand *)
Lemma hlookup_nth (he : henv) x v :
  AxSem.lookup (erase_env he) x = Some v -> exists i y q, nth_error he i = Some (y, v, q) /\ idn y = x.
Proof.
  induction he as [|[[y w] q] he IH]; cbn; [discriminate|].
  destruct (N.eqb_spec (idn y) x) as [E|E].
  - intros H; inversion H; subst. exists O, y, q. cbn. auto.
  - intros H. destruct (IH H) as (i & y' & q' & Hn & Hy). exists (S i), y', q'. cbn. auto.
Qed.
Lemma henv_ctx_nth c (he : henv) i y v q :
  env_ids (erase_env he) = ids c -> nth_error he i = Some (y, v, q) -> exists b, nth_error c i = Some b /\ idn (bvar b) = idn y.
Proof.
  intros E H. apply (XR.env_ctx_nth c (erase_env he) i y v E).
  unfold erase_env. now rewrite (map_nth_error _ _ _ H).
Qed.
Lemma hrel_lookup c he hs s a x :
  hrel c he hs s -> lookup_int (erase_env he) a = Some x ->
  exists i b t, nth_error c i = Some b /\ idn (bvar b) = idn a /\ rtpos Snd i = Ok t /\ rget s t = Some x.
Proof.
  intros R H. unfold lookup_int, lookup_id in H.
  destruct (AxSem.lookup (erase_env he) (idn a)) as [[z| |]|] eqn:L; try discriminate.
  inversion H; subst z. destruct (hlookup_nth he (idn a) (VInt x) L) as (i & y & q & Hn & Hy).
  destruct (henv_ctx_nth c he i y _ q (hr_ids _ _ _ _ R) Hn) as (b & Hb & Eb).
  destruct (hr_vals _ _ _ _ R i y _ q Hn) as (b' & Hb' & V). assert (b' = b) by congruence. subst b'.
  inversion V; subst.
  - exists i, b, t. repeat split; auto. congruence.
  - match goal with K : chi_of (VInt x) = bchi b |- _ => cbn in K end. congruence.
Qed.
Lemma hrel_operand c he hs s a x ta :
  hrel c he hs s -> lookup_int (erase_env he) a = Some x -> rvt c (idn a) = Ok ta -> rget s ta = Some x.
Proof.
  intros R LA TA. destruct (hrel_lookup c he hs s a x R LA) as (i & bi & ti & Hi & Ei & Ti & Vi).
  rewrite <- Ei, (rvt_of_nth0 c i bi (hr_nodup _ _ _ _ R) Hi), Ti in TA. inversion TA; subst ti. exact Vi.
Qed.
Lemma hrel_operand_app c c' he hs s a x ta :
  hrel c he hs s -> NoDup (ids (c ++ c')) -> lookup_int (erase_env he) a = Some x -> rvt (c ++ c') (idn a) = Ok ta ->
  rget s ta = Some x.
Proof.
  intros R ND LA TA. destruct (hrel_lookup c he hs s a x R LA) as (i & bi & ti & Hi & Ei & Ti & Vi).
  rewrite <- Ei, (rvt_of_nth c c' i bi ND Hi), Ti in TA. inversion TA; subst ti. exact Vi.
Qed.

(* extending the environment by a new last variable whose registers have been written (heap words unchanged) *)
Lemma hrel_push c he hs s s' b v q :
  hrel c he hs s -> NoDup (ids (c ++ [b])) ->
  (forall a, hword s' a = hword s a) ->
  (forall r, (forall n, rtpos n (List.length c) = Ok r -> False) -> r <> TEMP -> rget s' r = rget s r) ->
  hvrep s' (List.length c) b v q ->
  hrel (c ++ [b]) (he ++ [(bvar b, v, q)]) hs s'.
Proof.
  intros R ND HE K V. pose proof (hrel_length _ _ _ _ R) as LEN. destruct R as [Hr Fr HQ Ids ND0 Vals].
  assert (KR : forall r, (r = HEAP \/ r = FREE) -> rget s' r = rget s r).
  { intros r Hr0. apply K.
    - intros n H. apply rtpos_regs in H. destruct Hr0; subst; tauto.
    - destruct Hr0; subst; discriminate. }
  split.
  - rewrite KR by auto. exact Hr.
  - rewrite KR by auto. exact Fr.
  - eapply heq_same_words; eauto.
  - unfold env_ids, ids, erase_env in *. rewrite !map_app. f_equal. exact Ids.
  - exact ND.
  - intros i x w p Hn. destruct (Nat.lt_ge_cases i (List.length he)) as [L|L].
    + rewrite nth_error_app1 in Hn by exact L. destruct (Vals i x w p Hn) as (b0 & Hb & V0).
      exists b0. split; [rewrite nth_error_app1 by lia; exact Hb|].
      eapply hvrep_keep; [intros a _; apply HE| |exact V0]. intros n t0 _ T0. apply K.
      * intros n' T'. destruct (tpos_inj rv_backend rv_backend_ok _ _ _ _ _ T0 T') as [_ E]. lia.
      * apply rtpos_regs in T0. tauto.
    + rewrite nth_error_app2 in Hn by exact L. destruct (i - List.length he)%nat as [|k] eqn:Kk; cbn in Hn; [|destruct k; discriminate].
      inversion Hn; subst. exists b. split.
      * rewrite nth_error_app2 by lia. replace (i - List.length c)%nat with O by lia. reflexivity.
      * replace i with (List.length c) by lia. exact V.
Qed.

(* dropping the last variable *)
Lemma hrel_prefix c0 b he0 en hs s : hrel (c0 ++ [b]) (he0 ++ [en]) hs s -> hrel c0 he0 hs s.
Proof.
  intros R. pose proof (hrel_length _ _ _ _ R) as LEN. rewrite !app_length in LEN. cbn [List.length] in LEN.
  destruct R as [Hr Fr HQ Ids ND Vals]. split; auto.
  - unfold env_ids, ids, erase_env in *. rewrite !map_app in Ids. cbn [map] in Ids. apply app_inj_tail in Ids. tauto.
  - unfold ids in *. rewrite map_app in ND. clear -ND. induction (map (fun b => idn (bvar b)) c0) as [|x l IH]; cbn in *; [constructor|].
    inversion ND; subst. constructor; auto. intros I. apply H1. apply in_app_iff. now left.
  - intros i x v q Hi. assert (Li : (i < List.length he0)%nat) by (apply nth_error_Some; congruence).
    destruct (Vals i x v q) as (b' & Hb' & V); [rewrite nth_error_app1 by exact Li; exact Hi|].
    exists b'. split; [|exact V]. rewrite nth_error_app1 in Hb' by lia. exact Hb'.
Qed.
End HRel.

Arguments hr_heapreg {types CLO c he hs s}.
Arguments hr_freereg {types CLO c he hs s}.
Arguments hr_heq {types CLO c he hs s}.
Arguments hr_ids {types CLO c he hs s}.
Arguments hr_nodup {types CLO c he hs s}.
Arguments hr_vals {types CLO c he hs s}.
Arguments hrel_length {types CLO c he hs s}.

(* ================= P03, agreement of the pointer slots with the words, the frame ================= *)
Definition P03 (hs : Heap.st) : Prop := forall x, Heap.ps (Heap.m hs x) = [] \/ List.length (Heap.ps (Heap.m hs x)) = 3%nat.
Lemma P03_P3 hs : P03 hs -> P3 hs.
Proof. intros H x. destruct (H x) as [E|E]; rewrite E; cbn; lia. Qed.
Lemma P03_ext hs hs' : (forall x, Heap.ps (Heap.m hs' x) = Heap.ps (Heap.m hs x)) -> P03 hs -> P03 hs'.
Proof. intros H K x. rewrite H. apply K. Qed.
Lemma P03_alloc hs P : P03 hs -> List.length P = 3%nat -> P03 (snd (Heap.alloc P hs)).
Proof. intros K HP x. rewrite HeapRepAlloc.alloc_ps. destruct (x =? Heap.heap hs); [now right|apply K]. Qed.
Lemma P03_store_other : forall f rest link hs, P03 hs -> P03 (snd (Heap.store_other f rest link hs)).
Proof.
  induction f as [|f IH]; intros rest link hs K; [exact K|].
  destruct rest as [|x r]; [exact K|]. rewrite store_other_step by discriminate.
  apply IH. apply P03_alloc; [exact K|]. apply len_block2.
Qed.
Lemma P03_alloc_object hs fields : P03 hs -> P03 (snd (Heap.alloc_object fields hs)).
Proof.
  intros K. destruct fields as [|x r]; [exact K|]. rewrite alloc_object_step by discriminate.
  apply P03_store_other. apply P03_alloc; [exact K|]. apply len_block3.
Qed.
Lemma P03_step hs o : P03 hs -> machine_op o -> P03 (Heap.step hs o).
Proof.
  intros K Ho. destruct o; cbn [machine_op] in Ho; try contradiction; cbn [Heap.step].
  - eapply P03_ext; [|exact K]. intros x. apply HeapMore.share_ps.
  - eapply P03_ext; [|exact K]. intros x. apply HeapMore.erase_ps.
  - now apply P03_alloc_object.
  - eapply P03_ext; [|exact K]. intros x. apply HeapRepLoad.load_object_ps.
Qed.
Lemma P03_hrun : forall ops hs, P03 hs -> Forall machine_op ops -> P03 (hrun ops hs).
Proof.
  unfold hrun. induction ops as [|o ops IH]; intros hs K Hops; cbn [fold_left]; [exact K|].
  inversion Hops as [|? ? Ho Hops']; subst. apply IH; [|exact Hops']. now apply P03_step.
Qed.
Lemma P03_init base : P03 (Heap.init base).
Proof. intros x. now left. Qed.

Definition slots_agree (mm : Heap.mem) (w : Z -> Z) : Prop :=
  forall b, is_blk b -> pad3 (Heap.ps (mm b)) = [w (b + 16); w (b + 32); w (b + 48)].
Lemma heq_slots_agree F s hs : heq (abs_heap F s) hs -> slots_agree (Heap.m hs) (hword s).
Proof. intros H b Hb. exact (proj1 (heq_abs_ps F s hs b H Hb)). Qed.

Lemma pad3_eq_in l x0 x1 x2 c : pad3 l = [x0; x1; x2] -> (c = x0 \/ c = x1 \/ c = x2) -> c <> 0 -> In c l.
Proof.
  unfold pad3. intros E H Hc. inversion E; subst.
  destruct l as [|a [|b [|d r]]]; cbn in *; intuition congruence.
Qed.

(* the pointers the instrumented machine gives to the variables loaded from a represented one-block object *)
Lemma load_ptrs_words F s hs lk fs q :
  heq (abs_heap F s) hs -> P03 hs -> fs <> [] -> (List.length fs <= 3)%nat -> is_blk q ->
  HeapRep.rep_flds lk (Heap.m hs) fs q ->
  load_ptrs hs (List.length fs) q = map (hword s) (saddrs q (List.length fs)).
Proof.
  intros HQ K NE LE BQ RF. inversion RF as [|fs0 q0 j pl _ Hlk HL HF RS]; subst; [congruence|].
  pose proof (HeapRep.reps_length _ _ _ _ RS) as Lpl.
  assert (NL : Heap.nlinks (List.length fs) = O) by (unfold Heap.nlinks; destruct (Nat.leb_spec (List.length fs) 3); [reflexivity|lia]).
  unfold load_ptrs. rewrite Hlk, NL in HF. rewrite NL. cbn [Heap.obj_fields] in *.
  pose proof (heq_slots_agree F s hs HQ q BQ) as AG.
  assert (L3 : List.length (Heap.ps (Heap.m hs q)) = 3%nat).
  { destruct (K q) as [E0|E3]; [|exact E3]. exfalso. rewrite E0 in HF. apply (f_equal (@List.length Z)) in HF.
    rewrite app_length, repeat_length, Lpl in HF. cbn [List.length] in HF. destruct fs; [congruence|cbn [List.length] in HF; lia]. }
  rewrite pad3_len3 in AG by exact L3. rewrite AG. unfold Heap.lastn. cbn [List.length].
  unfold saddrs, slot_addr. destruct fs as [|f0 [|f1 [|f2 [|f3 r]]]]; cbn [List.length] in LE |- *; try lia; try congruence; reflexivity.
Qed.

(* ---------- the frame of xrep ---------- *)
Section Frame.
Variable types : list tydecl.
Variable CLO : Z -> ident -> list clause -> ctx -> Prop.
Variable hs : Heap.st.
Variables w w' : Z -> Z.
Hypothesis AG : slots_agree (Heap.m hs) w.

Definition kept (q : Z) : Prop := forall b, reach (Heap.m hs) [q] b -> forall i, 0 < i < 64 -> w' (b + i) = w (b + i).

Lemma reach_zero_false (mm : Heap.mem) b : ~ reach mm [0] b.
Proof.
  intros Hb. remember [0] as src eqn:Es. induction Hb as [b Hb Hb0|x b Hx IH Hin Hb0]; subst.
  - destruct Hb as [<-|[]]. congruence.
  - auto.
Qed.

Lemma xrep_frame_mut :
  (forall v q a, xrep types CLO w v q a -> kept q -> xrep types CLO w' v q a) /\
  (forall fs q, xflds types CLO w fs q -> kept q -> xflds types CLO w' fs q) /\
  (forall vs al, xreps types CLO w vs al ->
     (forall a, In a al -> w' a = w a /\ w' (a + 8) = w (a + 8) /\ kept (w a)) -> xreps types CLO w' vs al).
Proof.
  apply xrep_mutind.
  - intros z _. constructor.
  - intros tn tag fs q a T _ IH H. constructor; auto.
  - intros tn cls ce q a C _ IH H. constructor; auto.
  - intros _. constructor.
  - intros fs q NE LE BQ Z0 XS IH KP.
    assert (Hq0 : q <> 0) by (apply is_blk_pos in BQ; lia).
    assert (RQ : reach (Heap.m hs) [q] q) by (apply HeapTrace.reach_src; [now left|exact Hq0]).
    assert (EW : forall i, 0 < i < 64 -> w' (q + i) = w (q + i)) by (intros i Hi; apply KP; [exact RQ|exact Hi]).
    apply xf_cons; auto.
    + intros j Hj. rewrite EW by lia. now apply Z0.
    + apply IH. intros a Ha.
      destruct (saddrs_in q _ a Ha LE) as [E|[E|E]]; subst a; rewrite <- ?Z.add_assoc; (split; [apply EW; lia|split; [apply EW; lia|]]).
      all: intros b Hb; apply KP;
        match goal with |- reach _ _ _ =>
          match type of Hb with reach _ [w ?ad] _ =>
            assert (Hw0 : w ad <> 0) by (intros E0; rewrite E0 in Hb; exact (reach_zero_false _ _ Hb));
            eapply HeapRep.reach_trans; [|exact Hb]; intros r [<-|[]] _;
            eapply HeapTrace.reach_slot; [exact RQ| |exact Hw0];
            eapply pad3_eq_in; [exact (AG q BQ)| |exact Hw0]; auto
          end end.
  - intros _. constructor.
  - intros v vs a al X IH1 XS IH2 H. destruct (H a (or_introl eq_refl)) as (E1 & E2 & KP).
    constructor.
    + rewrite E1, E2. apply IH1. exact KP.
    + apply IH2. intros a' Ha'. apply H. now right.
Qed.
Lemma xrep_frame v q a : xrep types CLO w v q a -> kept q -> xrep types CLO w' v q a.
Proof. apply (proj1 xrep_frame_mut). Qed.
End Frame.
