(* ======================================================================================
   Proof/FocusNamesTop  -  names_ok of the output of `Prog::focus` (C12):
     wt_core c -> pre_check c -> focus_prog c = Ok f -> names_ok f.
   ====================================================================================== *)
From Coq Require Import List ZArith NArith String Bool Lia.
From SCC Require Import Base.Sexp Lang.SynUtil Lang.CoreSyn Sem.FsCheck Sem.CoreCheck Sem.FsFrag2
     Model.Backend Model.Uniquify Model.Focus Model.FocusCheck
     Proof.CoreInd Proof.SubstProof Proof.CheckLemmas Proof.UniquifyProof Proof.FocusLemmas Proof.FocusProof Proof.PathLemmas
     Proof.FocusTheorems Proof.FocusKont Proof.FocusMono Proof.CoreTyRules Proof.FsTyRules Proof.FocusTy Proof.FocusNames
     Proof.UqTyTop Proof.FocusTyTop Proof.WtPreserve.
Import ListNotations.
Open Scope list_scope.
Open Scope N_scope.

Lemma focus_def_names : forall data codata defs d m q m' M,
  focus_def d m = Ok (q, m') -> M <= m -> ids_le_def M d = true -> NoDup (binder_ids_def d) ->
  ccheck_stmt data codata defs (cdctx d) (cdbody d) = None ->
  nc_stmt (cvars (fsdctx q)) (fsdbody q) = true /\ m <= m'.
Proof.
  intros data codata defs [name ctx body] m q m' M H LE Hid Hnd Ht. unfold focus_def in H. simpl in *.
  apply rbind_ok in H. destruct H as ([b mb] & Eb & H). okinv H. simpl.
  unfold ids_le_def in Hid. simpl in Hid. apply andb_true_iff in Hid. destruct Hid as [Hic Hib].
  unfold binder_ids_def in Hnd. simpl in Hnd.
  assert (Hmc : mem_le M (cids ctx)).
  { intros i Hi. rewrite forallb_forall in Hic. specialize (Hic i Hi). apply N.leb_le in Hic. exact Hic. }
  assert (Hndc : NoDup (cids ctx)) by (apply NoDup_app_iff in Hnd; tauto).
  split; [|eapply focus_stmt_mono; eauto].
  refine (focus_stmt_names data codata defs body m ctx ctx M b m' Eb Ht (rel_refl_nodup ctx Hndc) _ Hib Hmc LE _).
  - apply NoDup_app_iff in Hnd. destruct Hnd as (N1 & N2 & N3). apply NoDup_app_iff. repeat split; auto.
    intros x Hx1 Hx2. exact (N3 x Hx2 Hx1).
  - eapply mem_le_mono; eauto.
Qed.

Lemma focus_defs_names : forall data codata defs ds m qs m' M, maprs focus_def ds m = Ok (qs, m') -> M <= m ->
  (forall d, In d ds -> ids_le_def M d = true /\ NoDup (binder_ids_def d) /\
                        ccheck_stmt data codata defs (cdctx d) (cdbody d) = None) ->
  forall q, In q qs -> nc_stmt (cvars (fsdctx q)) (fsdbody q) = true.
Proof.
  intros data codata defs. induction ds as [|d r IH]; intros m qs m' M H LE Hall q Hin; simpl in H.
  - okinv H. contradiction.
  - apply rbind_ok in H. destruct H as ([q1 m1] & Eq & H). apply rbind_ok in H. destruct H as ([r1 m2] & Er & H). okinv H.
    destruct (Hall d (or_introl eq_refl)) as [H1 [H2 H3]].
    destruct (focus_def_names data codata defs d m q1 m1 M Eq LE H1 H2 H3) as [T1 T2].
    destruct Hin as [<-|Hin]; [exact T1|].
    eapply (IH m1 r1 m' M Er); eauto; [lia|]. intros d0 Hd0. apply Hall. right. exact Hd0.
Qed.

Theorem focus_names_thm : forall c f,
  wt_core c = true -> pre_check c = true -> focus_prog c = Ok f -> FsFrag2.names_ok f = true.
Proof.
  intros c f Hwt Hpre Hf.
  pose proof (wt_core_focus_wf c Hwt) as Hwf.
  assert (Hids : forallb (ids_le_def (cpmax c)) (cpdefs c) = true).
  { unfold pre_check in Hpre. rewrite forallb_forall in *. intros d Hd. specialize (Hpre d Hd). unfold pre_def in Hpre.
    apply andb_true_iff in Hpre. destruct Hpre as [Hpre _]. apply andb_true_iff in Hpre. tauto. }
  unfold focus_prog in Hf. apply rbind_ok in Hf. destruct Hf as (c1 & Eu & Hf).
  pose proof (uniquify_preserves_typing c c1 Hwt Hids Eu) as Hwt1.
  unfold uniquify_prog in Eu.
  destruct (uq_defs_spec (cpdefs c) (cpmax c) (cpmax c)) as (ds' & M & E & L & F); try lia.
  { apply wf_pre_forall; split; auto. }
  rewrite E in Eu. simpl in Eu. okinv Eu. cbn [cpdefs cpmax cpdata cpcodata] in *.
  apply rbind_ok in Hf. destruct Hf as ([qs M'] & Ef & Hf). okinv Hf.
  unfold wt_core in Hwt1. destruct (check_core (mkcp ds' (cpdata c) (cpcodata c) M)) eqn:Hc1; [discriminate|]. clear Hwt1.
  unfold check_core in Hc1. cbn [cpdefs cpdata cpcodata] in Hc1.
  apply seqn in Hc1. destruct Hc1 as [_ Hc1]. apply seqn in Hc1. destruct Hc1 as [_ Hc1]. apply seqn in Hc1. destruct Hc1 as [_ Hc1].
  apply seqn in Hc1. destruct Hc1 as [_ Hc1]. apply seqn in Hc1. destruct Hc1 as [_ C6].
  unfold FsFrag2.names_ok. cbn [fspdefs]. apply forallb_forall. intros q Hq.
  eapply (focus_defs_names (cpdata c) (cpcodata c) ds' ds' M qs M' M Ef); [lia | | exact Hq].
  intros d Hd.
  assert (HF : Forall (fun d' => NoDup (binder_ids_def d') /\ ids_le_def M d' = true) ds').
  { apply (forall2_right _ _ _ _ _ _ F). intros d0 d1 (A & B & C & D & E'). auto. }
  rewrite Forall_forall in HF. destruct (HF d Hd) as [U2 U3]. split; [exact U3|]. split; [exact U2|].
  destruct (ccheck_defs_elim (mkcp ds' (cpdata c) (cpcodata c) M) ds' C6 d Hd) as [_ [_ H3]]. exact H3.
Qed.
