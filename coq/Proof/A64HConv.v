(* C07, heap statements on AArch64: the labels inside the code of `a_store` and `a_load` (Model/A64.v) are branch
   labels `lab<n>`, never '#'-labels, so `labels_at_nh` (what `asm_wf` gives for the image: only labels that do not
   start with '#' are known to resolve to their own position) yields `labels_at` for that code, which is what the
   C09 refinement theorems for store and load (Proof/A64MemStore*.v, A64MemLoad*.v, stated in the vocabulary of
   Proof/A64Exec.v) ask for.  Port of the second half of Proof/X86HConv.v; the first half (pnth/padd conversions) has
   no AArch64 counterpart because both AArch64 developments use `padd`, `code_at`, `labels_at`, `exec_to` of
   Proof/A64Exec.v.  The labels of `a_erase_block` / `a_share_block_n` (`nh_erase`, `nh_share`), `skip_if_zero` and
   `if_zero_then_else` are those of Proof/A64SimStmt.v. *)
From Coq Require Import List ZArith NArith String Bool Lia FMapPositive.
From SCC Require Import Base.Sexp Lang.AxSyn Sem.AxSem Model.ParMoves Model.Backend Model.A64 Sem.A64Sem
     Generated.Constants Proof.A64State Proof.A64Sel Proof.A64Exec Proof.A64Wf Proof.A64SimRel Proof.A64SimStmt.
Import ListNotations.
Open Scope Z_scope.
Open Scope list_scope.

(* ---------- code without any label ---------- *)
Definition no_lab (c : acode) : bool := match c with LAB _ => false | _ => true end.
Lemma nh_no_lab cs : forallb no_lab cs = true -> nh_labels cs.
Proof.
  intros H. unfold nh_labels. apply Forall_forall. intros c Hin.
  rewrite forallb_forall in H. specialize (H c Hin). destruct c; try exact I. discriminate.
Qed.
Lemma nh_nil : nh_labels []. Proof. constructor. Qed.
Lemma nh_cons c cs : match c with LAB l => hash_name l = false | _ => True end -> nh_labels cs -> nh_labels (c :: cs).
Proof. intros H1 H2. constructor; assumption. Qed.

Lemma no_lab_imm_pieces r v inv ign : forall is fd, forallb no_lab (imm_pieces r v inv ign fd is) = true.
Proof.
  induction is as [|i is IH]; intros fd; cbn [imm_pieces]; [reflexivity|].
  destruct (_ =? ign); [apply IH|]. destruct fd; [|destruct inv]; cbn [forallb no_lab]; apply IH.
Qed.
Lemma nh_imm_code r v : nh_labels (imm_code r v).
Proof.
  apply nh_no_lab. unfold imm_code. destruct (v =? 0); [reflexivity|]. destruct (v =? -1); [reflexivity|].
  apply no_lab_imm_pieces.
Qed.
Lemma nh_load_immediate t v : nh_labels (a_load_immediate t v).
Proof.
  unfold a_load_immediate. destruct t as [r|p]; [apply nh_imm_code|]. apply nh_labels_app; [apply nh_imm_code|nh_tac].
Qed.

(* ---------- the labels of the store code ---------- *)
Lemma nh_store_field n c blk j cs : store_field n c blk j = Ok cs -> nh_labels cs.
Proof.
  unfold store_field. destruct (a_fresh n c) as [t|]; cbn [rbind]; [|discriminate]. intros H; inversion H; subst.
  destruct t; nh_tac.
Qed.
Lemma nh_load_field n c blk j cs : load_field n c blk j = Ok cs -> nh_labels cs.
Proof.
  unfold load_field. destruct (a_fresh n c) as [t|]; cbn [rbind]; [|discriminate]. intros H; inversion H; subst.
  destruct t; nh_tac.
Qed.
Lemma nh_store_zeros k blk : nh_labels (store_zeros k blk).
Proof.
  unfold store_zeros. induction (nseq 0 k) as [|x l IH]; cbn [flat_map]; [constructor|].
  apply nh_labels_app; [unfold store_zero; nh_tac|exact IH].
Qed.
Lemma nh_store_value b c blk j cs : store_value b c blk j = Ok cs -> nh_labels cs.
Proof.
  unfold store_value. destruct (store_field Snd c blk j) as [c1|] eqn:E1; cbn [rbind]; [|discriminate].
  pose proof (nh_store_field _ _ _ _ _ E1) as H1. destruct (bchi b).
  - destruct (store_field Fst c blk j) as [c2|] eqn:E2; cbn [rbind]; [|discriminate]. intros H; inversion H; subst.
    apply nh_labels_app; [exact H1|eapply nh_store_field; eauto].
  - destruct (store_field Fst c blk j) as [c2|] eqn:E2; cbn [rbind]; [|discriminate]. intros H; inversion H; subst.
    apply nh_labels_app; [exact H1|eapply nh_store_field; eauto].
  - intros H; inversion H; subst. apply nh_labels_app; [exact H1|unfold store_zero; nh_tac].
Qed.
Lemma nh_store_values : forall bsrev c blk ff cs, store_values bsrev c blk ff = Ok cs -> nh_labels cs.
Proof.
  induction bsrev as [|b r IH]; intros c blk ff cs H; cbn [store_values] in H.
  - inversion H; subst. apply nh_store_zeros.
  - destruct (store_value b (c ++ rev r) blk (ff - 1)) as [c1|] eqn:E1; cbn [rbind] in H; [|discriminate].
    destruct (store_values r c blk (ff - 1)) as [c2|] eqn:E2; cbn [rbind] in H; [|discriminate].
    inversion H; subst. apply nh_labels_app; [eapply nh_store_value; eauto|eapply IH; eauto].
Qed.

Lemma nh_erase_fields r lc : nh_labels (fst (erase_fields r lc)).
Proof.
  unfold erase_fields.
  assert (G : forall l acc, nh_labels (fst acc) ->
            nh_labels (fst (fold_left (fun (acc : list acode * N) (offset : N) =>
               let '(c, lc) := acc in
               let '(c1, lc1) := a_erase_block (AR TEMP) lc in
               (c ++ [LDR TEMP r (field_offset Fst offset)] ++ c1, lc1)) l acc))).
  { induction l as [|o l IH]; intros [c lc0] H; cbn [fold_left]; [exact H|].
    apply IH. pose proof (nh_erase (AR TEMP) lc0) as H1. destruct (a_erase_block (AR TEMP) lc0) as [c1 lc1].
    cbn [fst] in *. apply nh_labels_app; [exact H|apply nh_labels_app; [nh_tac|exact H1]]. }
  apply G. constructor.
Qed.
Lemma nh_acquire_block t lc : nh_labels (fst (acquire_block t lc)).
Proof.
  unfold acquire_block.
  destruct (erase_fields HEAP lc) as [ef lc1] eqn:EF. pose proof (nh_erase_fields HEAP lc) as HE. rewrite EF in HE. cbn [fst] in HE.
  destruct (if_zero_then_else FREE _ _ lc1) as [inner lc2] eqn:EI.
  assert (HI : nh_labels inner).
  { pose proof (nh_if_zero_then_else FREE [ADDI FREE HEAP (field_offset Fst FIELDS_PER_BLOCK)]
                  ([STR XZR HEAP NEXT_ELEMENT_OFFSET] ++ ef) lc1) as H.
    rewrite EI in H. cbn [fst] in H. apply H; [nh_tac|apply nh_labels_app; [nh_tac|exact HE]]. }
  destruct (if_zero_then_else HEAP _ _ lc2) as [outer lc3] eqn:EO.
  assert (HO : nh_labels outer).
  { pose proof (nh_if_zero_then_else HEAP ([MOVR HEAP FREE; LDR FREE FREE NEXT_ELEMENT_OFFSET] ++ inner)
                  (match t with AR r => [STR XZR r REFERENCE_COUNT_OFFSET] | AS _ => [STR XZR TEMP REFERENCE_COUNT_OFFSET] end) lc2) as H.
    rewrite EO in H. cbn [fst] in H. apply H; [apply nh_labels_app; [nh_tac|exact HI]|destruct t; nh_tac]. }
  cbn [fst]. apply nh_labels_app; [|exact HO]. destruct t; nh_tac.
Qed.

Lemma nh_store_fields : forall fuel to_store remaining bp lc cs lc',
  store_fields fuel to_store remaining bp lc = Ok (cs, lc') -> nh_labels cs.
Proof.
  induction fuel as [|f IH]; intros to_store remaining bp lc cs lc' H; cbn [store_fields] in H; [discriminate|].
  destruct to_store as [|x r].
  - destruct bp.
    + destruct (a_fresh Fst remaining) as [t|]; cbn [rbind] in H; [|discriminate]. inversion H; subst.
      apply nh_load_immediate.
    + inversion H; subst. constructor.
  - set (ts := x :: r) in *.
    destruct (match bp with Other => store_field Fst (remaining ++ ts) HEAP (FIELDS_PER_BLOCK - 1) | Last => Ok [] end) as [c0|] eqn:E0; cbn [rbind] in H; [|discriminate].
    assert (H0 : nh_labels c0) by (destruct bp; [inversion E0; constructor|eapply nh_store_field; eauto]).
    match type of H with context [store_values ?a ?b ?c ?d] => destruct (store_values a b c d) as [c1|] eqn:E1; cbn [rbind] in H; [|discriminate] end.
    match type of H with context [a_fresh Fst ?a] => destruct (a_fresh Fst a) as [t|] eqn:Et; cbn [rbind] in H; [|discriminate] end.
    destruct (acquire_block t lc) as [c2 lc2] eqn:E2.
    match type of H with context [store_fields f ?a ?b ?c ?d] => destruct (store_fields f a b c d) as [[c3 lc3]|] eqn:E3; cbn [rbind] in H; [|discriminate] end.
    inversion H; subst. repeat apply nh_labels_app.
    + exact H0.
    + eapply nh_store_values; eauto.
    + pose proof (nh_acquire_block t lc) as HA. rewrite E2 in HA. exact HA.
    + eapply IH; eauto.
Qed.
Lemma nh_a_store to_store remaining lc cs lc' : a_store to_store remaining lc = Ok (cs, lc') -> nh_labels cs.
Proof. apply nh_store_fields. Qed.

(* ---------- the labels of the load code ---------- *)
Lemma nh_load_value b c blk j m lc cs lc' : load_value b c blk j m lc = Ok (cs, lc') -> nh_labels cs.
Proof.
  unfold load_value. destruct (load_field Snd c blk j) as [c1|] eqn:E1; cbn [rbind]; [|discriminate].
  pose proof (nh_load_field _ _ _ _ _ E1) as H1.
  assert (G : (dor c2 <- load_field Fst c blk j; dor t <- a_fresh Fst c;
      let r := match t with AR r => r | AS _ => TEMP end in
      match m with
      | Share => let '(c3, lc1) := a_share_block_n (AR r) 1 lc in Ok (c1 ++ c2 ++ c3, lc1)
      | Release => Ok (c1 ++ c2, lc)
      end) = Ok (cs, lc') -> nh_labels cs).
  { destruct (load_field Fst c blk j) as [c2|] eqn:E2; cbn [rbind]; [|discriminate].
    pose proof (nh_load_field _ _ _ _ _ E2) as H2.
    destruct (a_fresh Fst c) as [t|]; cbn [rbind]; [|discriminate]. destruct m.
    - intros H; inversion H; subst. apply nh_labels_app; assumption.
    - set (r := match t with AR r => r | AS _ => TEMP end).
      destruct (a_share_block_n (AR r) 1 lc) as [c3 lc1] eqn:E3. intros H; inversion H; subst.
      pose proof (nh_share (AR r) 1 lc) as H3. rewrite E3 in H3.
      apply nh_labels_app; [exact H1|apply nh_labels_app; [exact H2|exact H3]]. }
  destruct (bchi b) eqn:K.
  - exact G.
  - exact G.
  - intros H; inversion H; subst. exact H1.
Qed.
Lemma nh_load_values : forall bsrev c blk ff m lc cs lc', load_values bsrev c blk ff m lc = Ok (cs, lc') -> nh_labels cs.
Proof.
  induction bsrev as [|b r IH]; intros c blk ff m lc cs lc' H; cbn [load_values] in H.
  - inversion H; subst. constructor.
  - destruct (load_value b (c ++ rev r) blk (ff - 1) m lc) as [[c1 lc1]|] eqn:E1; cbn [rbind] in H; [|discriminate].
    destruct (load_values r c blk (ff - 1) m lc1) as [[c2 lc2]|] eqn:E2; cbn [rbind] in H; [|discriminate].
    inversion H; subst. apply nh_labels_app; [eapply nh_load_value; eauto|eapply IH; eauto].
Qed.
Lemma nh_release_block r : nh_labels (release_block r).
Proof. unfold release_block. nh_tac. Qed.

Lemma nh_load_fields : forall fuel to_load existing bp m fr lc cs fr' lc',
  load_fields fuel to_load existing bp m fr lc = Ok (cs, fr', lc') -> nh_labels cs.
Proof.
  induction fuel as [|f IH]; intros to_load existing bp m fr lc cs fr' lc' H; cbn [load_fields] in H; [discriminate|].
  destruct to_load as [|x r]; [inversion H; subst; constructor|].
  set (tl := x :: r) in *.
  match type of H with context [load_fields f ?a ?b ?c ?d ?e ?g] =>
    destruct (load_fields f a b c d e g) as [[[c0 fr0] lc0]|] eqn:E0; cbn [rbind] in H; [|discriminate] end.
  pose proof (IH _ _ _ _ _ _ _ _ _ E0) as H0.
  match type of H with context [a_fresh Fst ?a] => destruct (a_fresh Fst a) as [t|] eqn:Et; cbn [rbind] in H; [|discriminate] end.
  destruct t as [mr|mp].
  - match type of H with context [rbind ?e _] => destruct e as [c2|] eqn:E2; cbn [rbind] in H; [|discriminate] end.
    assert (H2 : nh_labels c2) by (destruct bp; [inversion E2; constructor|eapply nh_load_field; eauto]).
    match type of H with context [load_values ?a ?b ?c ?d ?e ?g] =>
      destruct (load_values a b c d e g) as [[c3 lc3]|] eqn:E3; cbn [rbind] in H; [|discriminate] end.
    inversion H; subst. repeat first [apply nh_labels_app | apply nh_cons; [exact I|]].
    all: try assumption.
    all: try (eapply nh_load_values; eauto; fail).
    all: try (destruct m; [apply nh_release_block|constructor]; fail).
    all: nh_tac.
  - match type of H with context [rbind ?e _] => destruct e as [c2|] eqn:E2; cbn [rbind] in H; [|discriminate] end.
    assert (H2 : nh_labels c2) by (destruct bp; [inversion E2; constructor|eapply nh_load_field; eauto]).
    match type of H with context [load_values ?a ?b ?c ?d ?e ?g] =>
      destruct (load_values a b c d e g) as [[c3 lc3]|] eqn:E3; cbn [rbind] in H; [|discriminate] end.
    inversion H; subst. repeat first [apply nh_labels_app | apply nh_cons; [exact I|]].
    all: try assumption.
    all: try (eapply nh_load_values; eauto; fail).
    all: try (destruct m; [apply nh_release_block|constructor]; fail).
    all: try (destruct fr0; nh_tac; fail).
    all: try (destruct bp; nh_tac; fail).
    all: nh_tac.
Qed.

Lemma nh_load_register blk to_load existing lc cs lc' : load_register blk to_load existing lc = Ok (cs, lc') -> nh_labels cs.
Proof.
  unfold load_register.
  destruct (load_fields _ to_load existing Last Release false lc) as [[[c1 f1] lc1]|] eqn:E1; cbn [rbind]; [|discriminate].
  destruct (load_fields _ to_load existing Last Share false lc1) as [[[c2 f2] lc2]|] eqn:E2; cbn [rbind]; [|discriminate].
  intros H.
  assert (H' : if_zero_then_else TEMP2 c1 ([SUBI TEMP2 TEMP2 1; STR TEMP2 blk REFERENCE_COUNT_OFFSET] ++ c2) lc2 = (cs, lc')) by congruence.
  pose proof (nh_if_zero_then_else TEMP2 c1 ([SUBI TEMP2 TEMP2 1; STR TEMP2 blk REFERENCE_COUNT_OFFSET] ++ c2) lc2) as G.
  rewrite H' in G. cbn [fst] in G. apply G.
  - eapply nh_load_fields; eauto.
  - apply nh_labels_app; [nh_tac|eapply nh_load_fields; eauto].
Qed.
Lemma nh_a_load to_load existing lc cs lc' : a_load to_load existing lc = Ok (cs, lc') -> nh_labels cs.
Proof.
  unfold a_load. destruct to_load as [|x r]; [intros H; inversion H; subst; constructor|].
  destruct (a_fresh Fst existing) as [t|]; cbn [rbind]; [|discriminate]. destruct t as [r0|p].
  - destruct (load_register r0 (x :: r) existing lc) as [[c lc1]|] eqn:E; cbn [rbind]; [|discriminate].
    intros H; inversion H; subst. repeat (apply nh_cons; [exact I|]). eapply nh_load_register; eauto.
  - destruct (load_register TEMP (x :: r) existing lc) as [[c lc1]|] eqn:E; cbn [rbind]; [|discriminate].
    intros H; inversion H; subst. repeat (apply nh_cons; [exact I|]). eapply nh_load_register; eauto.
Qed.

(* ---------- what the simulation uses ---------- *)
Lemma labels_at_a_store im pc to_store remaining lc cs lc' :
  a_store to_store remaining lc = Ok (cs, lc') -> labels_at_nh im pc cs -> labels_at im pc cs.
Proof. intros H. apply labels_at_of_nh. exact (nh_a_store _ _ _ _ _ H). Qed.
Lemma labels_at_a_load im pc to_load existing lc cs lc' :
  a_load to_load existing lc = Ok (cs, lc') -> labels_at_nh im pc cs -> labels_at im pc cs.
Proof. intros H. apply labels_at_of_nh. exact (nh_a_load _ _ _ _ _ H). Qed.
(* the reference-count code of a substitution, for completeness (`nh_erase`, `nh_share` are in Proof/A64SimStmt.v) *)
Lemma labels_at_a_erase_block im pc t lc : labels_at_nh im pc (fst (a_erase_block t lc)) -> labels_at im pc (fst (a_erase_block t lc)).
Proof. apply labels_at_of_nh, nh_erase. Qed.
Lemma labels_at_a_share_block_n im pc t n lc :
  labels_at_nh im pc (fst (a_share_block_n t n lc)) -> labels_at im pc (fst (a_share_block_n t n lc)).
Proof. apply labels_at_of_nh, nh_share. Qed.
