(* C15, instance table: basic facts about the closure predicates of Sem/FunClosed.v relative to the
   keys of the instance table of a symbol table ([ikeys st]); monotonicity along [grows]. *)
From Coq Require Import List ZArith String Bool Permutation Lia.
From SCC Require Import Base.Sexp Lang.SynUtil Lang.FunSyn Model.Check Sem.FunTyping Sem.FunClosed
  Proof.FunInd Proof.FunEq Proof.CheckAnn Proof.TypingReject Proof.CheckBuild Proof.CheckMono Proof.CheckMonoSound
  Proof.PrintInj Proof.CheckPoly.
Import ListNotations.
Open Scope list_scope.

Definition ikeys (st : symtab) : list string := map fst (st_types st).

Lemma smem_In : forall x l, smem x l = true <-> In x l.
Proof.
  intros x l. unfold smem. rewrite existsb_exists. split.
  - intros [y [Hin E]]. apply String.eqb_eq in E. subst. assumption.
  - intros H. exists x. split; [assumption|apply String.eqb_refl].
Qed.
Lemma ahas_smem : forall {V} (m : amap V) k, ahas m k = smem k (map fst m).
Proof.
  intros V m k. unfold ahas. induction m as [|[k' v] r IH]; simpl; [reflexivity|].
  rewrite (String.eqb_sym k k'). destruct (String.eqb k' k); [reflexivity|exact IH].
Qed.

Definition terms_closed (names : list string) (l : list fterm) : bool := forallb (term_closed names) l.
Definition clauses_closed (names : list string) (l : list fclause) : bool :=
  forallb (fun c => term_closed names (clause_body c)) l.
Lemma terms_closed_eq : forall names l,
  (fix go (l : list fterm) : bool := match l with [] => true | a :: r => term_closed names a && go r end) l
  = terms_closed names l.
Proof. induction l; simpl; [reflexivity|]. rewrite IHl. reflexivity. Qed.
Lemma clauses_closed_eq : forall names l,
  (fix go (l : list fclause) : bool :=
     match l with [] => true | FClause _ _ _ _ b :: r => term_closed names b && go r end) l = clauses_closed names l.
Proof. induction l as [|[? ? ? ? ?] r IH]; simpl; [reflexivity|]. rewrite IH. reflexivity. Qed.

(* more names: still closed *)
Definition names_le (a b : list string) : Prop := forall k, smem k a = true -> smem k b = true.
Lemma names_le_refl : forall a, names_le a a.
Proof. intros a k H; exact H. Qed.
Lemma names_le_trans : forall a b c, names_le a b -> names_le b c -> names_le a c.
Proof. intros a b c H1 H2 k H. auto. Qed.
Lemma grows_names_le : forall st st', grows st st' -> names_le (ikeys st) (ikeys st').
Proof. intros st st' G k H. unfold ikeys in *. rewrite <- ahas_smem in *. apply G. exact H. Qed.

Lemma ty_declared_mono : forall a b t, names_le a b -> ty_declared a t = true -> ty_declared b t = true.
Proof. intros a b [|n args] L H; [reflexivity|]. simpl in *. apply L. exact H. Qed.
Lemma oty_declared_mono : forall a b o, names_le a b -> oty_declared a o = true -> oty_declared b o = true.
Proof. intros a b [t|] L H; [eapply ty_declared_mono; eassumption|reflexivity]. Qed.
Lemma tys_declared_mono : forall a b l, names_le a b -> forallb (ty_declared a) l = true -> forallb (ty_declared b) l = true.
Proof.
  intros a b l L H. rewrite forallb_forall in *. intros t Ht. eapply ty_declared_mono; [exact L|auto].
Qed.

Lemma term_closed_mono : forall a b, names_le a b -> forall t, term_closed a t = true -> term_closed b t = true.
Proof.
  intros a b L t. induction t using fterm_ind'; simpl; intros Hc;
    repeat match goal with
           | H : _ && _ = true |- _ => apply andb_true_iff in H; destruct H
           end;
    repeat (apply andb_true_iff; split); eauto using ty_declared_mono, oty_declared_mono, tys_declared_mono.
  - destruct b0 as [b0|]; [|reflexivity]. eapply H; [reflexivity|assumption].
  - rewrite terms_closed_eq in *. unfold terms_closed in *. rewrite forallb_forall in *. rewrite Forall_forall in H. auto.
  - rewrite terms_closed_eq in *. unfold terms_closed in *. rewrite forallb_forall in *. rewrite Forall_forall in H. auto.
  - rewrite terms_closed_eq in *. unfold terms_closed in *. rewrite forallb_forall in *. rewrite Forall_forall in H. auto.
  - rewrite clauses_closed_eq in *. unfold clauses_closed in *. rewrite forallb_forall in *. rewrite Forall_forall in H. auto.
  - rewrite clauses_closed_eq in *. unfold clauses_closed in *. rewrite forallb_forall in *. rewrite Forall_forall in H. auto.
Qed.
Lemma terms_closed_mono : forall a b l, names_le a b -> terms_closed a l = true -> terms_closed b l = true.
Proof.
  intros a b l L H. unfold terms_closed in *. rewrite forallb_forall in *. intros t Ht.
  eapply term_closed_mono; [exact L|auto].
Qed.
Lemma clauses_closed_mono : forall a b l, names_le a b -> clauses_closed a l = true -> clauses_closed b l = true.
Proof.
  intros a b l L H. unfold clauses_closed in *. rewrite forallb_forall in *. intros t Ht.
  eapply term_closed_mono; [exact L|auto].
Qed.

Lemma ctx_declared_mono : forall a b c, names_le a b -> ctx_declared a c = true -> ctx_declared b c = true.
Proof.
  intros a b c L H. unfold ctx_declared in *. rewrite forallb_forall in *. intros x Hx.
  eapply ty_declared_mono; [exact L|auto].
Qed.
Lemma def_closed_mono : forall a b d, names_le a b -> def_closed a d = true -> def_closed b d = true.
Proof.
  intros a b d L H. unfold def_closed in *.
  apply andb_true_iff in H. destruct H as [H H3]. apply andb_true_iff in H. destruct H as [H1 H2].
  rewrite (ctx_declared_mono _ _ _ L H1), (ty_declared_mono _ _ _ L H2), (term_closed_mono _ _ L _ H3). reflexivity.
Qed.

Section InstBase.
  Variable ts : list tdecl.
  Variable fs : list fdef.
  Hypothesis W : poly_world ts fs.

  Lemma has_inst_declared : forall st t, has_inst_p st t -> ty_declared (ikeys st) t = true.
  Proof. intros st [|n a] H; [reflexivity|]. simpl in *. unfold ikeys. rewrite <- ahas_smem. exact H. Qed.
  Lemma declared_has_inst : forall st t, ty_declared (ikeys st) t = true -> has_inst_p st t.
  Proof. intros st [|n a] H; [exact I|]. simpl in *. unfold ikeys in H. rewrite <- ahas_smem in H. exact H. Qed.

  (* the type arguments of an instance are instances *)
  Lemma has_inst_targs : forall st n a, pinv ts st -> name_ok n = true -> tys_names_ok a = true ->
    has_inst_p st (FDecl n a) -> Forall (has_inst_p st) a.
  Proof.
    intros st n a I Nn Na H. simpl in H. apply ahas_true in H. destruct H as [[[pol targs] xs] Hg].
    pose proof (pi_targs _ _ I _ _ _ _ Hg) as Ht.
    destruct (pi_types _ _ I _ _ _ _ Hg) as [td [Htd [Ek [_ [_ [_ Hwf]]]]]].
    destruct (instance_name_inj _ _ _ _ (name_ok_no_delim _ Nn) (name_ok_no_delim _ (PW_tnames _ _ W td Htd))
                Na (wf_tys_names_ok ts fs W _ Hwf) Ek) as [_ ->].
    exact Ht.
  Qed.
  Lemma has_inst_targs_declared : forall st n a, pinv ts st -> name_ok n = true -> tys_names_ok a = true ->
    has_inst_p st (FDecl n a) -> forallb (ty_declared (ikeys st)) a = true.
  Proof.
    intros st n a I Nn Na H. pose proof (has_inst_targs st n a I Nn Na H) as HF.
    apply forallb_forall. intros t Ht. rewrite Forall_forall in HF. apply has_inst_declared. auto.
  Qed.
End InstBase.
