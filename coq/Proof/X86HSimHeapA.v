(* C06, forward simulation for HEAP statements, part 6a: what `code_statement` emits for Let and Switch,
   the clause code of Create as `gclauses`, appending a new object / closure variable to the relation, and
   `x_store` for any number of variables (none: the null pointer). *)
From Coq Require Import List ZArith NArith String Bool Lia FMapPositive Permutation.
From SCC Require Import Proof.X86Mem Proof.X86MemFrame Proof.X86StackFrame.
From SCC Require Import Base.Sexp Lang.AxSyn Sem.AxSem Sem.AxHeap Model.ParMoves Model.Backend Model.X86 Sem.X86Sem Sem.X86Wf
     Model.Linearize Model.LinCheck Generated.Constants Proof.LinBasics Proof.X86State Proof.X86Sel Proof.X86Exec Proof.X86ParMoves
     Proof.SubstGraph Proof.X86Subst Proof.X86SimRel Proof.X86SimStmt Proof.X86SimAddr Proof.X86SimClo
     Proof.X86HeapDefs Proof.X86HeapCongr Proof.X86HBridge Proof.X86HFrame
     Proof.X86HSimRel Proof.X86HSimStmt Proof.X86HConv Proof.X86HSimStore Proof.X86HLayout.
From SCC Require Model.Heap Proof.HeapMore Proof.HeapTrace Proof.HeapRep.
Import ListNotations.
Open Scope Z_scope.
Open Scope list_scope.

(* ---------- what code_statement emits ---------- *)
Lemma cs_let types v t tag args next c lc code lc' :
  xcs types (Let v t tag args next) c lc = Ok (code, lc') ->
  exists d k rest arguments c1 lc1 tmpv c3,
    lookup_type types t = Ok d /\ xtor_position (txtors d) tag 0 = Ok k /\
    Backend.split_last (List.length args) c = Ok (rest, arguments) /\
    x_store arguments rest lc = Ok (c1, lc1) /\
    xvt (rest ++ [mkb v Prd t]) (idn v) = Ok tmpv /\
    xcs types next (rest ++ [mkb v Prd t]) lc1 = Ok (c3, lc') /\
    code = c1 ++ x_load_immediate tmpv (jump_length k) ++ c3.
Proof.
  intros H. cbn [code_statement] in H.
  destruct (lookup_type types t) as [d|] eqn:LT; cbn [rbind] in H; [|discriminate].
  destruct (xtor_position (txtors d) tag 0) as [k|] eqn:XP; cbn [rbind] in H; [|discriminate].
  destruct (Backend.split_last (List.length args) c) as [[rest arguments]|] eqn:SL; cbn [rbind] in H; [|discriminate].
  cbn [b_store x86_backend x86_backend_with] in H.
  destruct (x_store arguments rest lc) as [[c1 lc1]|] eqn:ST; cbn [rbind] in H; [|discriminate].
  destruct (xvt (rest ++ [mkb v Prd t]) (idn v)) as [tmpv|] eqn:TV; cbn [rbind] in H; [|discriminate].
  destruct (xcs types next (rest ++ [mkb v Prd t]) lc1) as [[c3 lc3]|] eqn:NX; cbn [rbind] in H; [|discriminate].
  cbn in H. inversion H; subst. exists d, k, rest, arguments, c1, lc1, tmpv, c3. repeat split; auto.
Qed.

Definition switch_head (cls : list clause) (fresh : string) (tmpv : xtemp) : list xcode :=
  if Nat.leb (List.length cls) 1 then []
  else x_load_label (XR TEMP) fresh ++ x_arith Sum (XR TEMP) (XR TEMP) tmpv ++ x_jump (XR TEMP).

Lemma cs_switch types v t cls c lc code lc' :
  xcs types (Switch v t cls) c lc = Ok (code, lc') ->
  exists c1 c3,
    (if Nat.leb (List.length cls) 1 then c1 = []
     else exists tmpv, xvt c (idn v) = Ok tmpv /\ c1 = switch_head cls (type_label t (lc + 1)%N) tmpv) /\
    gclauses types (fun cx lc0 => x_load cx (removelast c) lc0) (fun cx => removelast c ++ cx)
             (type_label t (lc + 1)%N) cls (lc + 1)%N = Ok (c3, lc') /\
    code = c1 ++ ([LAB (type_label t (lc + 1)%N)] ++ table_or_nil cls (type_label t (lc + 1)%N)) ++ c3.
Proof.
  intros H. cbn [code_statement] in H. set (fresh := type_label t (lc + 1)%N) in *.
  assert (GC : forall l lc0,
    (fix go (l : list clause) (lc : N) {struct l} : res (list xcode * N) :=
       match l with
       | [] => Ok ([], lc)
       | (x, cx, body) :: r =>
           dor ld <- b_load x86_backend cx (removelast c) lc;
           (let '(cl, lc1) := ld in
            dor bd <- xcs types body (removelast c ++ cx) lc1;
            (let '(cb, lc2) := bd in
             dor rs <- go r lc2;
             (let '(cr, lc3) := rs in Ok ([b_label x86_backend (fresh +++ "_" +++ show_ident x)] ++ cl ++ cb ++ cr, lc3))))
       end) l lc0 = gclauses types (fun cx lc1 => x_load cx (removelast c) lc1) (fun cx => removelast c ++ cx) fresh l lc0).
  { induction l as [|[[x cx] body] r IH]; intros lc0; [reflexivity|]. cbn [gclauses b_load b_label x86_backend x86_backend_with].
    destruct (x_load cx (removelast c) lc0) as [[cl lc1]|]; cbn [rbind]; [|reflexivity].
    destruct (xcs types body (removelast c ++ cx) lc1) as [[cb lc2]|]; cbn [rbind]; [|reflexivity].
    rewrite IH. reflexivity. }
  destruct (Nat.leb (List.length cls) 1) eqn:LE.
  - cbn [rbind] in H. rewrite GC in H.
    destruct (gclauses types _ _ fresh cls (lc + 1)%N) as [[c3 lc3]|] eqn:CC; cbn [rbind] in H; [|discriminate].
    cbn in H. assert (E : code = LAB fresh :: c3 /\ lc3 = lc') by (split; congruence). destruct E as [-> ->].
    exists [], c3. split; [reflexivity|]. split; [reflexivity|]. unfold table_or_nil. unfold clause in *. rewrite LE. reflexivity.
  - destruct (xvt c (idn v)) as [tmpv|] eqn:TV; cbn [rbind] in H; [|discriminate]. rewrite GC in H.
    destruct (gclauses types _ _ fresh cls (lc + 1)%N) as [[c3 lc3]|] eqn:CC; cbn [rbind] in H; [|discriminate].
    cbn [b_load_label b_arith b_jump b_temp b_label x86_backend x86_backend_with fst snd] in H. inversion H; subst.
    exists (switch_head cls fresh tmpv), c3. unfold switch_head, table_or_nil. unfold clause in *. rewrite LE.
    split; [exists tmpv; auto|]. split; [reflexivity|]. rewrite <- !app_assoc. reflexivity.
Qed.

Lemma clauses_code_gclauses types cenv fresh : forall cls lc,
  clauses_code types cenv fresh cls lc = gclauses types (fun cx lc0 => x_load cenv cx lc0) (fun cx => cx ++ cenv) fresh cls lc.
Proof.
  induction cls as [|[[x cx] body] r IH]; intros lc; [reflexivity|]. cbn [clauses_code gclauses].
  destruct (x_load cenv cx lc) as [[cl lc1]|]; cbn [rbind]; [|reflexivity].
  destruct (xcs types body (cx ++ cenv) lc1) as [[cb lc2]|]; cbn [rbind]; [|reflexivity].
  rewrite IH. reflexivity.
Qed.

Lemma bsplit_last_app (c rest args : ctx) n : Backend.split_last n c = Ok (rest, args) -> c = rest ++ args /\ List.length args = n.
Proof.
  unfold Backend.split_last. destruct (Nat.leb n (List.length c)) eqn:E; [|discriminate]. apply Nat.leb_le in E.
  intros H. inversion H; subst. split; [symmetry; apply firstn_skipn|]. rewrite skipn_length. lia.
Qed.
Lemma asplit_last_app {X} (l l0 l1 : list X) n : AxSem.split_last n l = Some (l0, l1) -> l = l0 ++ l1 /\ List.length l1 = n.
Proof.
  unfold AxSem.split_last. destruct (Nat.leb n (List.length l)) eqn:E; [|discriminate]. apply Nat.leb_le in E.
  intros H. inversion H; subst. split; [symmetry; apply firstn_skipn|]. rewrite skipn_length. lia.
Qed.

Section A.
Variable im : image.
Variable types : list tydecl.
Variable CLO : Z -> ident -> list clause -> ctx -> Prop.
Local Notation hrel := (hrel types CLO).
Local Notation hvrep := (hvrep types CLO).
Local Notation xrep := (xrep types CLO).
Local Notation xflds := (xflds types CLO).

(* appending a variable that owns a pointer: its first temporary holds the pointer already, the second one has
   just been written *)
Lemma hrel_push_ptr c he hs s s' sp x b v q a t1 t2 :
  hrel c he hs s sp -> NoDup (ids (c ++ [b])) -> idn (bvar b) = idn x ->
  bchi b <> Ext -> chi_of v = bchi b -> ty_of v = bty b ->
  xtpos Fst (List.length c) = Ok t1 -> xtpos Snd (List.length c) = Ok t2 ->
  preserved s s' sp t2 -> lget s sp t1 = Some q -> lget s' sp t2 = Some a -> xrep (hword s) v q a ->
  hrel (c ++ [b]) (he ++ [(x, v, q)]) hs s' sp.
Proof.
  intros R ND EX NB K1 K2 T1 T2 (PR & HE & _ & F') L1 L2 X.
  pose proof (hrel_length R) as LEN. destruct R as [F0 Al Ro Hr Fr HQ Ids ND0 Vals].
  destruct (xtpos_ok _ _ _ T2) as (_ & _ & _ & NF & NH).
  assert (RH : rget s' HEAP = rget s HEAP) by (apply (PR (XR HEAP)); [cbn; discriminate|congruence|discriminate]).
  assert (RF : rget s' FREE = rget s FREE) by (apply (PR (XR FREE)); [cbn; discriminate|congruence|discriminate]).
  split; auto.
  - now rewrite RH.
  - now rewrite RF.
  - eapply heq_same_heap; eauto.
  - unfold env_ids, ids, erase_env in *. rewrite !map_app. f_equal; [exact Ids|]. cbn. now rewrite EX.
  - intros i y w p Hn. destruct (Nat.lt_ge_cases i (List.length he)) as [L|L].
    + rewrite nth_error_app1 in Hn by exact L. destruct (Vals i y w p Hn) as (b0 & Hb & V).
      exists b0. split; [rewrite nth_error_app1 by lia; exact Hb|].
      eapply hvrep_keep; [exact HE| |exact V]. intros n t0 _ T0.
      destruct (xtpos_ok _ _ _ T0) as (A & B & _). apply PR; auto.
      intros E; subst t0. destruct (SubstGraph.tpos_inj x86_backend x86_backend_ok _ _ _ _ _ T0 T2) as [_ E]. lia.
    + rewrite nth_error_app2 in Hn by exact L. destruct (i - List.length he)%nat as [|k] eqn:K; cbn in Hn; [|destruct k; discriminate].
      inversion Hn; subst. exists b. split.
      * rewrite nth_error_app2 by lia. replace (i - List.length c)%nat with O by lia. reflexivity.
      * replace i with (List.length c) by lia.
        destruct (xtpos_ok _ _ _ T1) as (A1 & B1 & _).
        apply (hv_ptr types CLO s' sp (List.length c) b w p a t1 t2); auto.
        -- rewrite PR; auto. intros E; subst. destruct (SubstGraph.tpos_inj x86_backend x86_backend_ok _ _ _ _ _ T1 T2) as [E _]. discriminate.
        -- apply (xrep_ext types CLO (hword s) (hword s')); [intros a0 _; apply hword_heap; exact HE|exact X].
Qed.

(* x_store of any number of variables (Let, Create) *)
Theorem hsim_store_any rest args he0 fsE hs s sp lc c1 lc1 pc hl fl cl :
  hrel (rest ++ args) (he0 ++ fsE) hs s sp ->
  List.length he0 = List.length rest ->
  InvA HEAP_BASE hs (roots (he0 ++ fsE)) hl fl cl -> P03 hs ->
  (forall en, In en fsE -> chi_of (h_val en) = Ext -> h_ptr en = 0) ->
  x_store args rest lc = Ok (c1, lc1) ->
  code_at im pc c1 -> labels_at_nh im pc c1 ->
  let res := Heap.alloc_object (map store_ptr fsE) hs in
  Heap.frontier (snd res) + 64 <= LIMIT -> Heap.heap (snd res) <> 0 -> Heap.free (snd res) <> 0 ->
  exists s', exec_to im pc s (padd pc (List.length c1)) s' /\ hframe_eq s s' sp /\
    hrel rest he0 (snd res) s' sp /\
    (exists t1, xtpos Fst (List.length rest) = Ok t1 /\ lget s' sp t1 = Some (fst res)) /\
    xflds (hword s') (map h_val fsE) (fst res).
Proof.
  intros R L0 IA K03 EX XS CA LA res HF HH0 HF0.
  destruct args as [|a0 ar].
  - (* nothing to store: the null pointer *)
    pose proof (hrel_length R) as LEN. rewrite !app_length in LEN. cbn [List.length] in LEN.
    assert (fsE = []) by (destruct fsE; [reflexivity|cbn in LEN; lia]). subst fsE.
    rewrite !app_nil_r in *. unfold res. cbn [map Heap.alloc_object fst snd].
    rewrite x_store_nil in XS. destruct (x_fresh Fst rest) as [t1|] eqn:T1; cbn [rbind] in XS; [|discriminate].
    inversion XS; subst c1 lc1. clear XS.
    assert (T1' : xtpos Fst (List.length rest) = Ok t1) by exact T1.
    destruct (xtpos_ok _ _ _ T1') as (L1 & N1 & _ & NF1 & NH1).
    destruct (x86_load_immediate_ok im s sp t1 0 (hr_frame R) L1 N1) as (s1 & E1 & V1 & P1).
    pose proof P1 as (PR1 & HE1 & _ & F1).
    assert (FE : frame_eq s s1 sp).
    { eapply exec_straight_local; eauto using hr_frame. apply local_load_immediate, loc_ok_lok, L1. }
    exists s1. split; [apply (exec_straight_exec_to im _ pc s s1 CA E1)|]. split; [apply frame_eq_hframe; exact FE|].
    split; [|split; [exists t1; auto|constructor]].
    apply (hrel_keep types CLO rest he0 hs s s1 sp R F1 HE1).
    + apply (PR1 (XR HEAP)); [cbn; discriminate|congruence|discriminate].
    + apply (PR1 (XR FREE)); [cbn; discriminate|congruence|discriminate].
    + intros i b n t Hi _ Ti. destruct (xtpos_ok _ _ _ Ti) as (A & B & _). apply PR1; auto.
      intros E; subst t. assert (Li : (i < List.length rest)%nat) by (apply nth_error_Some; congruence).
      destruct (SubstGraph.tpos_inj x86_backend x86_backend_ok _ _ _ _ _ Ti T1') as [_ E]. lia.
  - eapply (hsim_store im types CLO); eauto. discriminate.
Qed.
End A.
