(* Proof/ShrinkTyA.v (C12, fragment 2) - introduction lemmas for the AxCut checker Sem/AxCheck.v (one
   per statement form) and the image of the type declarations under shrinking. *)
From Coq Require Import List ZArith NArith String Bool Lia.
From SCC Require Import Base.Sexp Lang.SynUtil Lang.CoreSyn Lang.AxSyn Sem.FsCheck Model.Shrink Model.LinCheck Model.WtDefs
     Proof.ShrinkProof Proof.ShrinkRn.
From SCC Require Sem.AxCheck.
Import ListNotations.
Open Scope list_scope.

Notation acheck := AxCheck.check_stmt.

Section Intro.
Variable ts : list tydecl.
Variable ds : list def.

Lemma bound_intro : forall G x c t b, AxCheck.lookup_b G (idn x) = Some b -> bchi b = c -> bty b = t -> AxCheck.bound G x c t = None.
Proof.
  intros G x c t b H <- <-. unfold AxCheck.bound. rewrite H.
  assert (chi_eqb (bchi b) (bchi b) = true) by (destruct (bchi b); reflexivity).
  assert (ty_eqb (bty b) (bty b) = true) by (destruct (bty b) as [|n]; [reflexivity | apply cident_eqb_refl]).
  rewrite H0, H1. reflexivity.
Qed.
Lemma fresh_for_intro : forall G v, ~ In (idn v) (ids G) -> AxCheck.fresh_for G v = None.
Proof.
  intros G v H. unfold AxCheck.fresh_for. destruct (AxCheck.lookup_b G (idn v)) as [b|] eqn:E; [|reflexivity].
  exfalso. apply H. clear H. induction G as [|b0 G IH]; [discriminate|]. simpl in *.
  destruct (N.eqb (idn (bvar b0)) (idn v)) eqn:Q; [left; now apply N.eqb_eq | right; now apply IH].
Qed.
Lemma fresh_all_intro : forall c G, NoDup (ids c) -> (forall i, In i (ids c) -> ~ In i (ids G)) -> AxCheck.fresh_all G c = None.
Proof.
  induction c as [|b r IH]; intros G Hnd Hdis; [reflexivity|]. simpl in *. inversion Hnd as [|? ? Hni Hnd']; subst.
  rewrite fresh_for_intro; [|apply Hdis; now left]. apply IH; [exact Hnd'|].
  intros i Hi [<-|Hg]; [contradiction | apply (Hdis i); [now right | exact Hg]].
Qed.

Lemma ck_exit : forall G v, AxCheck.bound G v Ext I64 = None -> acheck ts ds G (Exit v) = None.
Proof. intros. exact H. Qed.
Lemma ck_print : forall G nl v n, AxCheck.bound G v Ext I64 = None -> acheck ts ds G n = None -> acheck ts ds G (PrintI64 nl v n) = None.
Proof. intros G nl v n H1 H2. simpl. now rewrite H1. Qed.
Lemma ck_ifc : forall G so a b t e, AxCheck.bound G a Ext I64 = None ->
  match b with Some b' => AxCheck.bound G b' Ext I64 | None => None end = None ->
  acheck ts ds G t = None -> acheck ts ds G e = None -> acheck ts ds G (IfC so a b t e) = None.
Proof. intros G so a b t e H1 H2 H3 H4. simpl. now rewrite H1, H2, H3. Qed.
Lemma ck_literal : forall G z v n, AxCheck.fresh_for G v = None -> acheck ts ds (mkb v Ext I64 :: G) n = None ->
  acheck ts ds G (Literal z v n) = None.
Proof. intros G z v n H1 H2. simpl. now rewrite H1. Qed.
Lemma ck_op : forall G a o b v n, AxCheck.bound G a Ext I64 = None -> AxCheck.bound G b Ext I64 = None ->
  AxCheck.fresh_for G v = None -> acheck ts ds (mkb v Ext I64 :: G) n = None -> acheck ts ds G (Op a o b v n) = None.
Proof. intros G a o b v n H1 H2 H3 H4. simpl. now rewrite H1, H2, H3. Qed.
Lemma ck_call : forall G l args d, find (fun d => ident_eqb (dname d) l) ds = Some d ->
  (forall what, AxCheck.args_ok what G args (dctx d) = None) -> acheck ts ds G (Call l args) = None.
Proof. intros G l args d H1 H2. simpl. rewrite H1. apply H2. Qed.
Lemma ck_let : forall G v T tag args n d sg, AxCheck.find_type ts T = Some d -> AxCheck.find_xtor d tag = Some sg ->
  (forall what, AxCheck.args_ok what G args (xargs sg) = None) -> AxCheck.fresh_for G v = None ->
  acheck ts ds (mkb v Prd (Decl T) :: G) n = None -> acheck ts ds G (Let v (Decl T) tag args n) = None.
Proof. intros G v T tag args n d sg H1 H2 H3 H4 H5. simpl. rewrite H1. cbn. rewrite H2, H3, H4. exact H5. Qed.
Lemma ck_invoke : forall G v T tag args d sg, AxCheck.find_type ts T = Some d -> AxCheck.find_xtor d tag = Some sg ->
  AxCheck.bound G v Cns (Decl T) = None -> (forall what, AxCheck.args_ok what G args (xargs sg) = None) ->
  acheck ts ds G (Invoke v tag (Decl T) args) = None.
Proof. intros G v T tag args d sg H1 H2 H3 H4. simpl. rewrite H1. cbn. rewrite H2, H3. apply H4. Qed.

(* clauses against the xtors of the type *)
Definition cls_ok (G : ctx) (cls : list clause) (xs : list xtorsig) : Prop :=
  Forall2 (fun (c : clause) sg => fst (fst c) = xname sg /\ (forall what, AxCheck.params_ok what (snd (fst c)) (xargs sg) = None) /\
                       AxCheck.fresh_all G (snd (fst c)) = None /\ acheck ts ds (snd (fst c) ++ G) (snd c) = None) cls xs.
Lemma ident_eqb_refl : forall a : ident, ident_eqb a a = true.
Proof. exact cident_eqb_refl. Qed.
Lemma cls_ok_names : forall G cls xs, cls_ok G cls xs ->
  AxCheck.list_eq_names (map (fun c : ident * ctx * stmt => fst (fst c)) cls) (map xname xs) = true.
Proof.
  intros G cls xs H. induction H as [|c sg cls xs (Hn & _) _ IH]; [reflexivity|]. simpl. now rewrite Hn, ident_eqb_refl.
Qed.
Lemma ck_switch : forall G v T cls d, AxCheck.find_type ts T = Some d -> AxCheck.bound G v Prd (Decl T) = None ->
  cls_ok G cls (txtors d) -> acheck ts ds G (Switch v (Decl T) cls) = None.
Proof.
  intros G v T cls d H1 H2 H3. simpl. rewrite H1. cbn. rewrite H2, (cls_ok_names _ _ _ H3). cbn [negb andb].
  induction H3 as [|[[x c] b] sg cls xs (Hn & Hp & Hf & Hb) _ IH]; [reflexivity|]. simpl in *.
  rewrite Hn, ident_eqb_refl. cbn [AxCheck.ensure]. rewrite Hp, Hf, Hb. exact IH.
Qed.
Lemma ck_create : forall G v T cls n d, AxCheck.find_type ts T = Some d -> cls_ok G cls (txtors d) ->
  AxCheck.fresh_for G v = None -> acheck ts ds (mkb v Cns (Decl T) :: G) n = None ->
  acheck ts ds G (Create v (Decl T) None cls n) = None.
Proof.
  intros G v T cls n d H1 H3 H4 H5. simpl. rewrite H1. cbn. rewrite (cls_ok_names _ _ _ H3). cbn [negb andb].
  match goal with |- match ?X with Some e => Some e | None => _ end = None => assert (E : X = None) end.
  { clear H1 H4 H5. induction H3 as [|[[x c] b] sg cls xs (Hn & Hp & Hf & Hb) _ IH]; [reflexivity|]. simpl in *.
    rewrite Hn, ident_eqb_refl. cbn [AxCheck.ensure]. rewrite Hp, Hf, Hb. exact IH. }
  rewrite E, H4. exact H5.
Qed.
End Intro.
