(* C03, the remaining theorems: totality of focus on well-formed programs whatever their
   identifiers, the shadowing lemmas of subst_sim, and the refutation witnesses. *)
From Coq Require Import List ZArith NArith String Bool Lia.
From SCC Require Import Base.Sexp Lang.CoreSyn Model.Backend Model.Uniquify Model.Focus Model.FocusCheck
     Proof.CoreInd Proof.SubstProof Proof.CheckLemmas Proof.UniquifyProof Proof.FocusLemmas Proof.FocusProof.
Import ListNotations.
Open Scope list_scope.

(* ================= totality ================= *)
Definition is_xvar (t : cterm) : bool := match t with CXVar _ _ _ => true | _ => false end.
Definition vrng (s : csubst) : Prop := Forall (fun p => is_xvar (snd p) = true) s.
Lemma vrng_filter : forall f s, vrng s -> vrng (filter f s).
Proof. unfold vrng; intros f s H. rewrite Forall_forall in *. intros p Hp. apply filter_In in Hp. apply H; tauto. Qed.

Lemma vrng_remove : forall v s, vrng s -> vrng (subst_remove v s).
Proof. intros; apply vrng_filter; auto. Qed.
Lemma vrng_remove_ctx : forall c s, vrng s -> vrng (subst_remove_ctx c s).
Proof. intros; apply vrng_filter; auto. Qed.

Definition tspec_term (c : cchi) (t t' : cterm) : Prop :=
  depth_term t' = depth_term t /\ wf_term c t' = true /\ is_xtor t' = is_xtor t /\ is_op t' = is_op t.
Definition tspec_arg (a a' : carg) : Prop := depth_arg a' = depth_arg a /\ wf_arg a' = true.
Definition tspec_clause (a a' : cclause) : Prop := depth_clause a' = depth_clause a /\ wf_clause a' = true.
Definition tspec_stmt (a a' : cstmt) : Prop := depth_stmt a' = depth_stmt a /\ wf_stmt a' = true.

Lemma subst_total_all :
  (forall t c ps cs, vrng ps -> vrng cs -> wf_term c t = true ->
     exists t', subst_term c t ps cs = Ok t' /\ tspec_term c t t') /\
  (forall a ps cs, vrng ps -> vrng cs -> wf_arg a = true ->
     exists a', subst_arg a ps cs = Ok a' /\ tspec_arg a a') /\
  (forall cl ps cs, vrng ps -> vrng cs -> wf_clause cl = true ->
     exists cl', subst_clause cl ps cs = Ok cl' /\ tspec_clause cl cl') /\
  (forall s ps cs, vrng ps -> vrng cs -> wf_stmt s = true ->
     exists s', subst_stmt s ps cs = Ok s' /\ tspec_stmt s s').
Proof.
  apply core_mutind.
  - intros c0 v ty c ps cs Rp Rc W. simpl.
    assert (Hs : forall s, vrng s ->
               exists t', match subst_find v s with None => Ok (CXVar c0 v ty) | Some p => Ok p end = Ok t'
                          /\ tspec_term c (CXVar c0 v ty) t').
    { intros s Rs. destruct (subst_find v s) as [p|] eqn:F.
      - destruct (subst_find_in _ _ _ F) as (k & Hk). unfold vrng in Rs. rewrite Forall_forall in Rs.
        specialize (Rs _ Hk). simpl in Rs. destruct p; try discriminate.
        eexists; split; [reflexivity|]. unfold tspec_term; simpl; auto.
      - eexists; split; [reflexivity|]. unfold tspec_term; simpl; auto. }
    destruct c; auto.
  - intros n c ps cs Rp Rc W. simpl in *. destruct c; try discriminate.
    eexists; split; [reflexivity|]. unfold tspec_term; simpl; auto.
  - intros a o b IHa IHb c ps cs Rp Rc W. simpl in *. destruct c; try discriminate. bsplit.
    destruct (IHa CPrd ps cs) as (a' & Ea & (A1 & A2 & _)); auto.
    destruct (IHb CPrd ps cs) as (b' & Eb & (B1 & B2 & _)); auto.
    rewrite Ea; simpl. rewrite Eb; simpl. eexists; split; [reflexivity|].
    unfold tspec_term; simpl. rewrite A1, A2, B1, B2. auto.
  - intros c0 v s ty IHs c ps cs Rp Rc W. simpl in *.
    destruct (IHs (subst_remove v ps) (subst_remove v cs)) as (s' & Es & (S1 & S2)); auto using vrng_remove, vrng_remove_ctx.
    rewrite Es; simpl. eexists; split; [reflexivity|]. unfold tspec_term; simpl. rewrite S1, S2. auto.
  - intros c0 x args ty IH c ps cs Rp Rc W. simpl in *. rewrite forallb_forall in W.
    destruct (mapr_spec _ _ (fun a => subst_arg a ps cs) tspec_arg args) as (args' & E & F2).
    { rewrite Forall_forall in *. intros a Ha. apply IH; auto. }
    rewrite E; simpl. eexists; split; [reflexivity|]. unfold tspec_term; simpl. rewrite !depth_args_eq.
    repeat split; auto.
    + f_equal. apply forall2_depth_args. eapply forall2_weaken; eauto. intros ? ? H; apply H.
    + eapply forall2_forallb; eauto. intros ? ? H; apply H.
  - intros c0 cls ty IH c ps cs Rp Rc W. simpl in *. rewrite forallb_forall in W.
    destruct (mapr_spec _ _ (fun a => subst_clause a ps cs) tspec_clause cls) as (cls' & E & F2).
    { rewrite Forall_forall in *. intros a Ha. apply IH; auto. }
    rewrite E; simpl. eexists; split; [reflexivity|]. unfold tspec_term; simpl. rewrite !depth_clauses_eq.
    repeat split; auto.
    + f_equal. apply forall2_depth_clauses. eapply forall2_weaken; eauto. intros ? ? H; apply H.
    + eapply forall2_forallb; eauto. intros ? ? H; apply H.
  - intros p IHp ps cs Rp Rc W. simpl in *.
    destruct (IHp CPrd ps cs) as (p' & E & (S1 & S2 & _)); auto. rewrite E; simpl.
    eexists; split; [reflexivity|]. unfold tspec_arg; simpl; auto.
  - intros p IHp ps cs Rp Rc W. simpl in *.
    destruct (IHp CCns ps cs) as (p' & E & (S1 & S2 & _)); auto. rewrite E; simpl.
    eexists; split; [reflexivity|]. unfold tspec_arg; simpl; auto.
  - intros c0 x ctx body IHb ps cs Rp Rc W. simpl in *.
    destruct (IHb (subst_remove_ctx ctx ps) (subst_remove_ctx ctx cs)) as (s' & Es & (S1 & S2)); auto using vrng_remove, vrng_remove_ctx.
    rewrite Es; simpl. eexists; split; [reflexivity|]. unfold tspec_clause; simpl. rewrite S1, S2. auto.
  - intros p ty k IHp IHk ps cs Rp Rc W. simpl in *. bsplit.
    destruct (IHp CPrd ps cs) as (p' & Ep & (A1 & A2 & A3 & A4)); auto.
    destruct (IHk CCns ps cs) as (k' & Ek & (B1 & B2 & B3 & B4)); auto.
    rewrite Ep; simpl. rewrite Ek; simpl. eexists; split; [reflexivity|].
    unfold tspec_stmt; simpl. rewrite A1, A2, A3, A4, B1, B2, B3. split; auto. bsplit; auto.
  - intros so a bo t e IHa IHb IHt IHe ps cs Rp Rc W. simpl in *. bsplit.
    destruct (IHa CPrd ps cs) as (a' & Ea & (A1 & A2 & _)); auto.
    destruct (IHt ps cs) as (t' & Et & (T1 & T2)); auto.
    destruct (IHe ps cs) as (e' & Ee & (E1 & E2)); auto.
    rewrite Ea; simpl. destruct bo as [b0|]; simpl in *.
    + destruct (IHb CPrd ps cs) as (b' & Eb & (B1 & B2 & _)); auto. rewrite Eb; simpl.
      rewrite Et; simpl. rewrite Ee; simpl. eexists; split; [reflexivity|].
      unfold tspec_stmt; simpl. rewrite A1, A2, B1, B2, T1, T2, E1, E2. auto.
    + rewrite Et; simpl. rewrite Ee; simpl. eexists; split; [reflexivity|].
      unfold tspec_stmt; simpl. rewrite A1, A2, T1, T2, E1, E2. auto.
  - intros nl a next IHa IHn ps cs Rp Rc W. simpl in *. bsplit.
    destruct (IHa CPrd ps cs) as (a' & Ea & (A1 & A2 & _)); auto.
    destruct (IHn ps cs) as (n' & En & (T1 & T2)); auto.
    rewrite Ea; simpl. rewrite En; simpl. eexists; split; [reflexivity|].
    unfold tspec_stmt; simpl. rewrite A1, A2, T1, T2. auto.
  - intros f args ty IH ps cs Rp Rc W. simpl in *. rewrite forallb_forall in W.
    destruct (mapr_spec _ _ (fun a => subst_arg a ps cs) tspec_arg args) as (args' & E & F2).
    { rewrite Forall_forall in *. intros a Ha. apply IH; auto. }
    rewrite E; simpl. eexists; split; [reflexivity|]. unfold tspec_stmt; simpl. rewrite !depth_args_eq.
    split.
    + f_equal. apply forall2_depth_args. eapply forall2_weaken; eauto. intros ? ? H; apply H.
    + eapply forall2_forallb; eauto. intros ? ? H; apply H.
  - intros a ty IHa ps cs Rp Rc W. simpl in *.
    destruct (IHa CPrd ps cs) as (a' & Ea & (A1 & A2 & _)); auto.
    rewrite Ea; simpl. eexists; split; [reflexivity|]. unfold tspec_stmt; simpl. rewrite A1, A2. auto.
Qed.
Definition subst_total_stmt := proj2 (proj2 (proj2 subst_total_all)).

(* uq_context produces variable ranges *)
Lemma uq_context_vrng : forall bs m acc vs cs,
  vrng vs -> vrng cs ->
  let '(_, v, k, _) := uq_context bs m acc vs cs in vrng v /\ vrng k.
Proof.
  induction bs as [|b r IH]; intros m acc vs cs Rv Rc; simpl.
  - rewrite !frev_rev. split; unfold vrng in *; apply Forall_rev; auto.
  - destruct (N.eqb (cid_id (cbvar b)) 0).
    + destruct (cbchi b); apply IH; auto; constructor; auto.
    + apply IH; auto.
Qed.

(* uniquify: totality at sufficient fuel *)
Definition TQt (f : nat) : Prop := forall t m c, (depth_term t <= f)%nat -> wf_term c t = true ->
  exists t' m', uq_term f t m = Ok (t', m') /\ wf_term c t' = true /\ is_xtor t' = is_xtor t /\ is_op t' = is_op t.
Definition TQc (f : nat) : Prop := forall cl m, (depth_clause cl <= f)%nat -> wf_clause cl = true ->
  exists cl' m', uq_clause f cl m = Ok (cl', m') /\ wf_clause cl' = true.
Definition TQs (f : nat) : Prop := forall s m, (depth_stmt s <= f)%nat -> wf_stmt s = true ->
  exists s' m', uq_stmt f s m = Ok (s', m') /\ wf_stmt s' = true.

Lemma maprs_total : forall (X : Type) (g : X -> N -> res (X * N)) (dep : X -> nat) (wf : X -> bool) (f : nat),
  (forall x m, (dep x <= f)%nat -> wf x = true -> exists x' m', g x m = Ok (x', m') /\ wf x' = true) ->
  forall l m, (forall x, In x l -> (dep x <= f)%nat) -> forallb wf l = true ->
  exists l' m', maprs g l m = Ok (l', m') /\ forallb wf l' = true.
Proof.
  intros X g dep wf f Hg. induction l as [|x l IH]; intros m D W; simpl in *.
  - eexists _, _; split; [reflexivity|auto].
  - bsplit. destruct (Hg x m) as (x' & m1 & E1 & W1); auto.
    destruct (IH m1) as (l' & m2 & E2 & W2); auto.
    rewrite E1; simpl. rewrite E2; simpl. eexists _, _; split; [reflexivity|]. simpl. bsplit; auto.
Qed.

Lemma uq_total : forall f, TQt f /\ TQc f /\ TQs f.
Proof.
  induction f as [|f (IHt & IHc & IHs)].
  { repeat split; intros x; intros.
    - pose proof (depth_term_pos x); lia.
    - pose proof (depth_clause_pos x); lia.
    - pose proof (depth_stmt_pos x); lia. }
  assert (IHa : forall a m, (depth_arg a <= f)%nat -> wf_arg a = true ->
                 exists a' m', uq_arg_with (uq_term f) a m = Ok (a', m') /\ wf_arg a' = true).
  { intros [p|p] m D W; simpl in *.
    - destruct (IHt p m CPrd) as (p' & m' & E & W' & _); auto. rewrite E; simpl. eexists _, _; split; [reflexivity|auto].
    - destruct (IHt p m CCns) as (p' & m' & E & W' & _); auto. rewrite E; simpl. eexists _, _; split; [reflexivity|auto]. }
  assert (Hargs := maprs_total carg (uq_arg_with (uq_term f)) depth_arg wf_arg f IHa).
  assert (Hcls := maprs_total cclause (uq_clause f) depth_clause wf_clause f IHc).
  split; [|split].
  - intros t m c D W. destruct t as [c0 v ty|n|a o b|c0 v s ty|c0 x args ty|c0 cls ty]; simpl in *.
    + eexists _, _; split; [reflexivity|auto].
    + eexists _, _; split; [reflexivity|auto].
    + bsplit. destruct c; try discriminate.
      destruct (IHt a m CPrd) as (a' & m1 & E1 & W1 & _); auto; try lia.
      destruct (IHt b m1 CPrd) as (b' & m2 & E2 & W2 & _); auto; try lia.
      rewrite E1; simpl. rewrite E2; simpl. eexists _, _; split; [reflexivity|]. simpl. rewrite W1, W2. auto.
    + destruct (N.eqb (cid_id v) 0).
      * assert (SB : exists s1, match c0 with
                                | CPrd => subst_covar_stmt s v (CXVar CCns (cid_name v, (m + 1)%N) ty)
                                | CCns => subst_var_stmt s v (CXVar CPrd (cid_name v, (m + 1)%N) ty)
                                end = Ok s1 /\ tspec_stmt s s1).
        { destruct c0; unfold subst_covar_stmt, subst_var_stmt; apply subst_total_stmt; auto;
            try constructor; auto; constructor. }
        destruct SB as (s1 & Es1 & (Sd & Sw)). rewrite Es1; simpl.
        destruct (IHs s1 (m + 1)%N) as (s2 & m2 & E2 & W2); auto; try lia.
        rewrite E2; simpl. eexists _, _; split; [reflexivity|auto].
      * destruct (IHs s m) as (s2 & m2 & E2 & W2); auto; try lia.
        rewrite E2; simpl. eexists _, _; split; [reflexivity|auto].
    + rewrite depth_args_eq in D.
      destruct (Hargs args m) as (args' & m1 & E1 & W1); auto.
      { intros a Ha. pose proof (in_depth_args a args Ha). lia. }
      rewrite E1; simpl. eexists _, _; split; [reflexivity|auto].
    + rewrite depth_clauses_eq in D.
      destruct (Hcls cls m) as (cls' & m1 & E1 & W1); auto.
      { intros a Ha. pose proof (in_depth_clauses a cls Ha). lia. }
      rewrite E1; simpl. eexists _, _; split; [reflexivity|auto].
  - intros cl m D W. destruct cl as [c0 x ctx body]; simpl in *.
    pose proof (uq_context_vrng ctx m [] [] [] ltac:(constructor) ltac:(constructor)) as V.
    destruct (uq_context ctx m [] [] []) as [[[ctx' vs] cs] m1]. destruct V as [Vv Vc].
    assert (SB : exists b1, (if is_nil vs && is_nil cs then Ok body else subst_stmt body vs cs) = Ok b1 /\ tspec_stmt body b1).
    { destruct (is_nil vs && is_nil cs).
      - exists body; split; auto. unfold tspec_stmt; auto.
      - apply subst_total_stmt; auto. }
    destruct SB as (b1 & Eb1 & (Sd & Sw)). rewrite Eb1; simpl.
    destruct (IHs b1 m1) as (b2 & m2 & E2 & W2); auto; try lia.
    rewrite E2; simpl. eexists _, _; split; [reflexivity|auto].
  - intros s m D W. destruct s as [p ty k|so a bo t e|nl a next|g args ty|a ty]; simpl in *.
    + bsplit.
      destruct (IHt p m CPrd) as (p' & m1 & E1 & W1 & X1 & O1); auto; try lia.
      destruct (IHt k m1 CCns) as (k' & m2 & E2 & W2 & X2 & O2); auto; try lia.
      rewrite E1; simpl. rewrite E2; simpl. eexists _, _; split; [reflexivity|]. simpl.
      rewrite X1, X2, O1. bsplit; auto.
    + bsplit.
      destruct (IHt a m CPrd) as (a' & m1 & E1 & W1 & _); auto; try lia. rewrite E1; simpl.
      assert (HB : exists b' m2,
                 match bo with
                 | Some b0 => dor (b1, m2) <- uq_term f b0 m1; Ok (Some b1, m2)
                 | None => Ok (None, m1)
                 end = Ok (b', m2) /\ match b' with Some b1 => wf_term CPrd b1 | None => true end = true).
      { destruct bo as [b0|].
        - destruct (IHt b0 m1 CPrd) as (b' & m2 & E2 & W2 & _); auto; try lia.
          rewrite E2; simpl. exists (Some b'), m2; auto.
        - exists None, m1; auto. }
      destruct HB as (b' & m2 & E2 & W2). rewrite E2; simpl.
      destruct (IHs t m2) as (t' & m3 & E3 & W3); auto; try lia. rewrite E3; simpl.
      destruct (IHs e m3) as (e' & m4 & E4 & W4); auto; try lia. rewrite E4; simpl.
      eexists _, _; split; [reflexivity|]. simpl. bsplit; auto.
    + bsplit.
      destruct (IHt a m CPrd) as (a' & m1 & E1 & W1 & _); auto; try lia.
      destruct (IHs next m1) as (n' & m2 & E2 & W2); auto; try lia.
      rewrite E1; simpl. rewrite E2; simpl. eexists _, _; split; [reflexivity|]. simpl. bsplit; auto.
    + rewrite depth_args_eq in D.
      destruct (Hargs args m) as (args' & m1 & E1 & W1); auto.
      { intros a Ha. pose proof (in_depth_args a args Ha). lia. }
      rewrite E1; simpl. eexists _, _; split; [reflexivity|auto].
    + destruct (IHt a m CPrd) as (a' & m1 & E1 & W1 & _); auto; try lia.
      rewrite E1; simpl. eexists _, _; split; [reflexivity|auto].
Qed.

Lemma uq_def_total : forall d m, wf_stmt (cdbody d) = true ->
  exists d' m', uq_def d m = Ok (d', m') /\ wf_stmt (cdbody d') = true.
Proof.
  intros [name ctx body] m W. unfold uq_def; simpl in *.
  pose proof (uq_context_vrng ctx m [] [] [] ltac:(constructor) ltac:(constructor)) as V.
  destruct (uq_context ctx m [] [] []) as [[[ctx' vs] cs] m1]. destruct V as [Vv Vc].
  assert (SB : exists b1, (if is_nil vs && is_nil cs then Ok body else subst_stmt body vs cs) = Ok b1 /\ tspec_stmt body b1).
  { destruct (is_nil vs && is_nil cs).
    - exists body; split; auto. unfold tspec_stmt; auto.
    - apply subst_total_stmt; auto. }
  destruct SB as (b1 & Eb1 & (Sd & Sw)). rewrite Eb1; simpl.
  destruct (proj2 (proj2 (uq_total (uq_fuel b1))) b1 m1) as (b2 & m2 & E2 & W2); auto.
  rewrite E2; simpl. eexists _, _; split; [reflexivity|auto].
Qed.

(* focus: totality *)
Definition ktot (k : kont) : Prop := forall b m, exists r, k b m = Ok r.
Definition kvtot (k : kontv) : Prop := forall bs m, exists r, k bs m = Ok r.
Definition TBt (t : cterm) : Prop := forall c k m, wf_term c t = true -> ktot k -> exists r, bind_term c t k m = Ok r.
Definition TFt (t : cterm) : Prop := forall c m, wf_term c t = true -> is_xtor t = false -> is_op t = false ->
  exists r, focus_term c t m = Ok r.
Definition TBa (a : carg) : Prop := forall k m, wf_arg a = true -> ktot k -> exists r, bind_arg a k m = Ok r.
Definition TFc (cl : cclause) : Prop := forall m, wf_clause cl = true -> exists r, focus_clause cl m = Ok r.
Definition TFs (s : cstmt) : Prop := forall m, wf_stmt s = true -> exists r, focus_stmt s m = Ok r.
Definition tsub_ok (t : cterm) : Prop :=
  match t with
  | CXtor _ _ args _ => Forall TBa args
  | COp a _ b => TBt a /\ TBt b
  | _ => True
  end.

Lemma bind_many_total : forall args, Forall TBa args -> forall kv m,
  forallb wf_arg args = true -> kvtot kv -> exists r, bind_many_with bind_arg args kv m = Ok r.
Proof.
  induction 1 as [|a r Ha Hr IH]; intros kv m W K; simpl in *.
  - apply K.
  - bsplit. apply Ha; auto. intros b m1. apply IH; auto. intros bs m2. apply K.
Qed.
Lemma focus_clauses_total : forall cls, Forall TFc cls -> forall m,
  forallb wf_clause cls = true -> exists r, maprs focus_clause cls m = Ok r.
Proof.
  induction 1 as [|a r Ha Hr IH]; intros m W; simpl in *.
  - eexists; reflexivity.
  - bsplit. destruct (Ha m) as ([a' m1] & E1); auto. destruct (IH m1) as ([r' m2] & E2); auto.
    rewrite E1; simpl. rewrite E2; simpl. eexists; reflexivity.
Qed.

Ltac kstep K b m := let r := fresh "r" in let E := fresh "E" in destruct (K b m) as ([? ?] & E); rewrite E; simpl.

Lemma focus_total_all :
  (forall t, TBt t /\ TFt t /\ tsub_ok t) /\ (forall a, TBa a) /\ (forall c, TFc c) /\ (forall s, TFs s).
Proof.
  apply core_mutind.
  - intros c0 v ty. split; [|split; [|exact I]].
    + intros c k m W K. simpl. apply K.
    + intros c m W X O. simpl. eexists; reflexivity.
  - intros n. split; [|split; [|exact I]].
    + intros c k m W K. simpl in *. destruct c; try discriminate.
      destruct (K (mkcb ("x"%string, (m + 1)%N) CPrd CI64) (m + 1)%N) as ([? ?] & E). rewrite E; simpl. eexists; reflexivity.
    + intros c m W X O. simpl in *. destruct c; try discriminate. eexists; reflexivity.
  - intros a o b (IHa & _) (IHb & _). split; [|split; [|simpl; auto]].
    + intros c k m W K. simpl in *. destruct c; try discriminate. bsplit.
      apply IHa; auto. intros b1 m1. apply IHb; auto. intros b2 m2.
      destruct (K (mkcb ("x"%string, (m2 + 1)%N) CPrd CI64) (m2 + 1)%N) as ([? ?] & E). rewrite E; simpl. eexists; reflexivity.
    + intros c m W X O. discriminate.
  - intros c0 v s ty IHs. split; [|split; [|exact I]].
    + intros c k m W K. simpl in *. destruct c.
      * destruct (IHs (m + 1)%N) as ([? ?] & E1); auto. rewrite E1; simpl.
        match goal with |- context [k ?b ?mm] => destruct (K b mm) as ([? ?] & E2) end. rewrite E2; simpl. eexists; reflexivity.
      * match goal with |- context [k ?b ?mm] => destruct (K b mm) as ([? ?] & E2) end. rewrite E2; simpl.
        match goal with |- context [focus_stmt s ?mm] => destruct (IHs mm) as ([? ?] & E1); auto end. rewrite E1; simpl. eexists; reflexivity.
    + intros c m W X O. simpl in *. destruct (IHs m) as ([? ?] & E1); auto. rewrite E1; simpl. eexists; reflexivity.
  - intros c0 x args ty IHargs. split; [|split; [|exact IHargs]].
    + intros c k m W K. simpl in *. destruct c; apply bind_many_total; auto; intros bs m1.
      * match goal with |- context [k ?b ?mm] => destruct (K b mm) as ([? ?] & E2) end. rewrite E2; simpl. eexists; reflexivity.
      * match goal with |- context [k ?b ?mm] => destruct (K b mm) as ([? ?] & E2) end. rewrite E2; simpl. eexists; reflexivity.
    + intros c m W X O. discriminate.
  - intros c0 cls ty IHcls. split; [|split; [|exact I]].
    + intros c k m W K. simpl in *. destruct c.
      * match goal with |- context [k ?b ?mm] => destruct (K b mm) as ([? ?] & E2) end. rewrite E2; simpl.
        match goal with |- context [maprs focus_clause cls ?mm] => destruct (focus_clauses_total cls IHcls mm) as ([? ?] & E1); auto end.
        rewrite E1; simpl. eexists; reflexivity.
      * match goal with |- context [k ?b ?mm] => destruct (K b mm) as ([? ?] & E2) end. rewrite E2; simpl.
        match goal with |- context [maprs focus_clause cls ?mm] => destruct (focus_clauses_total cls IHcls mm) as ([? ?] & E1); auto end.
        rewrite E1; simpl. eexists; reflexivity.
    + intros c m W X O. simpl in *. destruct (focus_clauses_total cls IHcls m) as ([? ?] & E1); auto.
      rewrite E1; simpl. eexists; reflexivity.
  - intros p (IHp & _) k m W K. simpl in *. apply IHp; auto.
  - intros p (IHp & _) k m W K. simpl in *. apply IHp; auto.
  - intros c0 x ctx body IHb m W. simpl in *. destruct (IHb m) as ([? ?] & E1); auto. rewrite E1; simpl. eexists; reflexivity.
  - (* Cut *)
    intros p ty q (IHpB & IHpF & IHpS) (IHqB & IHqF & IHqS) m W. simpl in W. bsplit.
    match goal with H : negb (is_xtor p && is_xtor q) = true |- _ => rename H into NXX end.
    match goal with H : negb (is_op p && is_xtor q) = true |- _ => rename H into NOX end.
    assert (Oq : is_op q = false) by (apply wf_cns_not_op; auto).
    destruct (is_xtor p) eqn:Xp.
    { destruct (is_xtor_true _ Xp) as (pc & px & pargs & pty & ->).
      assert (Xq : is_xtor q = false) by (destruct (is_xtor q); simpl in NXX; auto; discriminate).
      rewrite focus_cut_xtor_l. simpl in *. apply bind_many_total; auto. intros bs m1.
      destruct (IHqF CCns m1) as ([? ?] & E1); auto. rewrite E1; simpl. eexists; reflexivity. }
    destruct (is_xtor q) eqn:Xq.
    { destruct (is_xtor_true _ Xq) as (qc & qx & qargs & qty & ->).
      assert (Op : is_op p = false) by (destruct (is_op p); simpl in NOX; auto; discriminate).
      rewrite focus_cut_xtor_r by auto. simpl in *. apply bind_many_total; auto. intros bs m1.
      destruct (IHpF CPrd m1) as ([? ?] & E1); auto. rewrite E1; simpl. eexists; reflexivity. }
    destruct (is_op p) eqn:Op.
    { destruct (is_op_true _ Op) as (a & o & b & ->).
      rewrite focus_cut_op by auto. simpl in *. destruct IHpS as (IHa & IHb). bsplit.
      apply IHa; auto. intros b1 m1. apply IHb; auto. intros b2 m2.
      destruct (IHqF CCns m2) as ([? ?] & E1); auto. rewrite E1; simpl. eexists; reflexivity. }
    rewrite focus_cut_plain by auto.
    destruct (IHpF CPrd m) as ([? n1] & E1); auto. rewrite E1; simpl.
    destruct (IHqF CCns n1) as ([? ?] & E2); auto. rewrite E2; simpl. eexists; reflexivity.
  - intros so a bo t e (IHa & _) IHb IHt IHe m W. simpl in *. bsplit.
    apply IHa; auto. intros b1 m1. destruct bo as [b0|]; simpl in *.
    + destruct IHb as (IHb & _). apply IHb; auto. intros b2 m2.
      destruct (IHt m2) as ([? n1] & E1); auto. rewrite E1; simpl.
      destruct (IHe n1) as ([? ?] & E2); auto. rewrite E2; simpl. eexists; reflexivity.
    + destruct (IHt m1) as ([? n1] & E1); auto. rewrite E1; simpl.
      destruct (IHe n1) as ([? ?] & E2); auto. rewrite E2; simpl. eexists; reflexivity.
  - intros nl a next (IHa & _) IHn m W. simpl in *. bsplit.
    apply IHa; auto. intros b1 m1. destruct (IHn m1) as ([? ?] & E1); auto. rewrite E1; simpl. eexists; reflexivity.
  - intros f args ty IHargs m W. simpl in *. apply bind_many_total; auto. intros bs m1. eexists; reflexivity.
  - intros a ty (IHa & _) m W. simpl in *. apply IHa; auto. intros b1 m1. eexists; reflexivity.
Qed.

Lemma maprs_total' : forall (X Y : Type) (g : X -> N -> res (Y * N)) (P : X -> Prop) (Q : Y -> Prop),
  (forall x m, P x -> exists y m', g x m = Ok (y, m') /\ Q y) ->
  forall l m, Forall P l -> exists l' m', maprs g l m = Ok (l', m') /\ Forall Q l'.
Proof.
  intros X Y g P Q Hg. induction l as [|x l IH]; intros m F; simpl.
  - eexists _, _; split; [reflexivity|constructor].
  - inversion F; subst. destruct (Hg x m) as (y & m1 & E1 & Q1); auto.
    destruct (IH m1) as (l' & m2 & E2 & Q2); auto.
    rewrite E1; simpl. rewrite E2; simpl. eexists _, _; split; [reflexivity|constructor; auto].
Qed.

Theorem focus_total_thm : forall p, focus_wf p = true -> exists q, focus_prog p = Ok q.
Proof.
  intros p W. unfold focus_prog, uniquify_prog, focus_wf in *.
  destruct (maprs_total' cdef cdef uq_def (fun d => wf_stmt (cdbody d) = true) (fun d => wf_stmt (cdbody d) = true))
    with (l := cpdefs p) (m := cpmax p) as (ds' & M & E & F).
  { intros d m Hd. apply uq_def_total; auto. }
  { apply Forall_forall. rewrite forallb_forall in W. auto. }
  rewrite E; simpl.
  destruct (maprs_total' cdef fsdef focus_def (fun d => wf_stmt (cdbody d) = true) (fun _ => True))
    with (l := ds') (m := M) as (qs & M' & E2 & _); auto.
  { intros d m Hd. unfold focus_def. destruct (proj2 (proj2 (proj2 focus_total_all)) (cdbody d) m) as ([b m'] & Eb); auto.
    rewrite Eb; simpl. eexists _, _; split; [reflexivity|auto]. }
  rewrite E2; simpl. eexists; reflexivity.
Qed.

(* ================= shadowing ================= *)
Lemma subst_shadow_mu : forall c c' v s ty ps cs,
  subst_term c (CMu c' v s ty) ps cs =
  rbind (subst_stmt s (subst_remove v ps) (subst_remove v cs)) (fun s' => Ok (CMu c' v s' ty)).
Proof. reflexivity. Qed.
Lemma subst_shadow_clause : forall c' x ctx body ps cs,
  subst_clause (CClause c' x ctx body) ps cs =
  rbind (subst_stmt body (subst_remove_ctx ctx ps) (subst_remove_ctx ctx cs))
        (fun b' => Ok (CClause c' x ctx b')).
Proof. reflexivity. Qed.

Lemma subst_find_remove_same : forall v s, subst_find v (subst_remove v s) = None.
Proof.
  induction s as [|[k t] s IH]; simpl; auto.
  destruct (cident_eqb k v) eqn:E; simpl; auto. rewrite E. auto.
Qed.
Lemma subst_shadowed_key : forall v t ps cs,
  subst_find v (subst_remove v ((v, t) :: ps)) = subst_find v (subst_remove v ps) /\
  subst_find v (subst_remove v cs) = None.
Proof.
  intros. split; [|apply subst_find_remove_same].
  unfold subst_remove; simpl. rewrite cident_eqb_refl. reflexivity.
Qed.

(* free variables: occurrences not below a binder with the same (name, id) *)
Definition remove_id (x : cident) (l : list cident) : list cident := filter (fun y => negb (cident_eqb y x)) l.
Definition remove_ids (xs l : list cident) : list cident := filter (fun y => negb (existsb (cident_eqb y) xs)) l.
Fixpoint fv_term (t : cterm) : list cident :=
  match t with
  | CXVar _ v _ => [v]
  | CLit _ => []
  | COp a _ b => fv_term a ++ fv_term b
  | CMu _ v s _ => remove_id v (fv_stmt s)
  | CXtor _ _ args _ => flat_map fv_arg args
  | CXCase _ cls _ => flat_map fv_clause cls
  end
with fv_arg (a : carg) : list cident :=
  match a with CProducer p => fv_term p | CConsumer k => fv_term k end
with fv_clause (c : cclause) : list cident :=
  match c with CClause _ _ ctx body => remove_ids (cvars ctx) (fv_stmt body) end
with fv_stmt (s : cstmt) : list cident :=
  match s with
  | CCut p _ k => fv_term p ++ fv_term k
  | CIfC _ a b t e => fv_term a ++ match b with Some b' => fv_term b' | None => [] end ++ fv_stmt t ++ fv_stmt e
  | CPrint _ a next => fv_term a ++ fv_stmt next
  | CCall _ args _ => flat_map fv_arg args
  | CExit a _ => fv_term a
  end.

Definition keys_not_free (ps cs : csubst) (fv : list cident) : Prop :=
  forall k, In k (map fst ps ++ map fst cs) -> ~ In k fv.

Lemma subst_find_none : forall v s, ~ In v (map fst s) -> subst_find v s = None.
Proof.
  induction s as [|[k t] s IH]; simpl; intros H; auto.
  destruct (cident_eqb k v) eqn:E.
  - apply cident_eqb_eq in E. subst. exfalso; auto.
  - apply IH. intro; apply H; auto.
Qed.

Lemma keys_remove : forall v ps cs fv,
  keys_not_free ps cs (remove_id v fv) -> keys_not_free (subst_remove v ps) (subst_remove v cs) fv.
Proof.
  unfold keys_not_free; intros v ps cs fv H k Hk Hf.
  assert (K : In k (map fst ps ++ map fst cs) /\ cident_eqb k v = false).
  { apply in_app_or in Hk. destruct Hk as [Hk|Hk]; apply in_map_iff in Hk; destruct Hk as ([k' t] & <- & Hp);
      apply filter_In in Hp; destruct Hp as [Hp Hn]; simpl in *; apply negb_true_iff in Hn; split; auto;
      apply in_or_app; [left|right]; apply in_map_iff; exists (k', t); auto. }
  destruct K as [K1 K2]. apply (H k K1). unfold remove_id. apply filter_In. split; auto. rewrite K2; auto.
Qed.
Lemma keys_remove_ctx : forall ctx ps cs fv,
  keys_not_free ps cs (remove_ids (cvars ctx) fv) -> keys_not_free (subst_remove_ctx ctx ps) (subst_remove_ctx ctx cs) fv.
Proof.
  unfold keys_not_free; intros ctx ps cs fv H k Hk Hf.
  assert (K : In k (map fst ps ++ map fst cs) /\ existsb (cident_eqb k) (cvars ctx) = false).
  { apply in_app_or in Hk. destruct Hk as [Hk|Hk]; apply in_map_iff in Hk; destruct Hk as ([k' t] & <- & Hp);
      apply filter_In in Hp; destruct Hp as [Hp Hn]; simpl in *; apply negb_true_iff in Hn; split; auto;
      apply in_or_app; [left|right]; apply in_map_iff; exists (k', t); auto. }
  destruct K as [K1 K2]. apply (H k K1). unfold remove_ids. apply filter_In. split; auto. rewrite K2; auto.
Qed.
Lemma keys_sub : forall ps cs fv fv', keys_not_free ps cs fv -> incl fv' fv -> keys_not_free ps cs fv'.
Proof. unfold keys_not_free; intros ps cs fv fv' H I k Hk Hf. apply (H k Hk). auto. Qed.

Lemma mapr_id : forall (X : Type) (f : X -> res X) (l : list X),
  (forall x, In x l -> f x = Ok x) -> mapr f l = Ok l.
Proof.
  induction l as [|x l IH]; intros H; simpl; auto.
  rewrite (H x) by (left; auto). simpl. rewrite IH; auto. intros; apply H; right; auto.
Qed.

Lemma subst_not_free_all :
  (forall t c ps cs, wf_term c t = true -> keys_not_free ps cs (fv_term t) -> subst_term c t ps cs = Ok t) /\
  (forall a ps cs, wf_arg a = true -> keys_not_free ps cs (fv_arg a) -> subst_arg a ps cs = Ok a) /\
  (forall cl ps cs, wf_clause cl = true -> keys_not_free ps cs (fv_clause cl) -> subst_clause cl ps cs = Ok cl) /\
  (forall s ps cs, wf_stmt s = true -> keys_not_free ps cs (fv_stmt s) -> subst_stmt s ps cs = Ok s).
Proof.
  apply core_mutind; simpl.
  - intros c0 v ty c ps cs W K.
    assert (Np : ~ In v (map fst ps)) by (intro H; apply (K v); [apply in_or_app; auto | left; auto]).
    assert (Nc : ~ In v (map fst cs)) by (intro H; apply (K v); [apply in_or_app; auto | left; auto]).
    destruct c; [rewrite (subst_find_none _ _ Np) | rewrite (subst_find_none _ _ Nc)]; auto.
  - intros n c ps cs W K. destruct c; auto. discriminate.
  - intros a o b IHa IHb c ps cs W K. destruct c; try discriminate. simpl in W. bsplit.
    rewrite IHa, IHb; auto; eapply keys_sub; eauto; intros x Hx; apply in_or_app; auto.
  - intros c0 v s ty IHs c ps cs W K. rewrite IHs; auto. apply keys_remove; auto.
  - intros c0 x args ty IH c ps cs W K. rewrite forallb_forall in W. rewrite Forall_forall in IH.
    rewrite mapr_id; auto. intros a Ha. apply IH; auto. eapply keys_sub; eauto.
    intros y Hy. apply in_flat_map; eauto.
  - intros c0 cls ty IH c ps cs W K. rewrite forallb_forall in W. rewrite Forall_forall in IH.
    rewrite mapr_id; auto. intros a Ha. apply IH; auto. eapply keys_sub; eauto.
    intros y Hy. apply in_flat_map; eauto.
  - intros p IHp ps cs W K. rewrite IHp; auto.
  - intros p IHp ps cs W K. rewrite IHp; auto.
  - intros c0 x ctx body IHb ps cs W K. rewrite IHb; auto. apply keys_remove_ctx; auto.
  - intros p ty k IHp IHk ps cs W K. bsplit.
    rewrite IHp, IHk; auto; eapply keys_sub; eauto; intros x Hx; apply in_or_app; auto.
  - intros so a bo t e IHa IHb IHt IHe ps cs W K. bsplit.
    rewrite IHa; auto; [|eapply keys_sub; eauto; intros x Hx; apply in_or_app; auto]. simpl.
    destruct bo as [b0|]; simpl in *.
    + rewrite IHb; auto; [|eapply keys_sub; eauto; intros x Hx; apply in_or_app; right; apply in_or_app; auto]. simpl.
      rewrite IHt, IHe; auto; eapply keys_sub; eauto; intros x Hx; apply in_or_app; right; apply in_or_app; right; apply in_or_app; auto.
    + rewrite IHt, IHe; auto; eapply keys_sub; eauto; intros x Hx; apply in_or_app; right; apply in_or_app; auto.
  - intros nl a next IHa IHn ps cs W K. bsplit.
    rewrite IHa, IHn; auto; eapply keys_sub; eauto; intros x Hx; apply in_or_app; auto.
  - intros f args ty IH ps cs W K. rewrite forallb_forall in W. rewrite Forall_forall in IH.
    rewrite mapr_id; auto. intros a Ha. apply IH; auto. eapply keys_sub; eauto.
    intros y Hy. apply in_flat_map; eauto.
  - intros a ty IHa ps cs W K. rewrite IHa; auto.
Qed.
Lemma subst_not_free_stmt : forall s ps cs, wf_stmt s = true ->
  (forall k, In k (map fst ps ++ map fst cs) -> ~ In k (fv_stmt s)) -> subst_stmt s ps cs = Ok s.
Proof. intros; apply (proj2 (proj2 (proj2 subst_not_free_all))); auto. Qed.

(* ================= refutation witnesses ================= *)
Open Scope string_scope.
Definition wit_dup_nonzero : cprog :=
  mkcp [mkcd ("main", 0%N) []
          (CCut (CLit 1) CI64
             (CMu CCns ("x", 1%N)
                (CCut (CLit 2) CI64 (CMu CCns ("x", 1%N) (CExit (CXVar CPrd ("x", 1%N) CI64) CI64) CI64)) CI64))]
       [] [] 1%N.
Lemma focus_unique_ids_below_max_only_refuted :
  exists p, forallb (ids_le_def (cpmax p)) (cpdefs p) = true /\ focus_wf p = true /\
            exists q, focus_prog p = Ok q /\ unique_check p q = false.
Proof.
  exists wit_dup_nonzero. split; [vm_compute; reflexivity|]. split; [vm_compute; reflexivity|].
  eexists. split; vm_compute; reflexivity.
Qed.

Definition wit_id_above_max : cprog :=
  mkcp [mkcd ("main", 0%N) []
          (CCut (CLit 1) CI64
             (CMu CCns ("x", 1%N) (CExit (COp (CXVar CPrd ("x", 1%N) CI64) CSum (CLit 5)) CI64) CI64))]
       [] [] 0%N.
(* some operator node of the output adds a variable to itself *)
Fixpoint captured_sum_term (t : fsterm) : bool :=
  match t with
  | FsOp a _ b => cident_eqb a b
  | FsMu _ _ s _ => captured_sum_stmt s
  | _ => false
  end
with captured_sum_stmt (s : fsstmt) : bool :=
  match s with
  | FsCut p _ k => captured_sum_term p || captured_sum_term k
  | _ => false
  end.
Definition captured_sum (q : fsprog) : bool := existsb (fun d => captured_sum_stmt (fsdbody d)) (fspdefs q).
Lemma focus_captures_when_id_above_max_refuted :
  exists p q, focus_wf p = true /\ focus_prog p = Ok q /\ captured_sum q = true.
Proof.
  exists wit_id_above_max. eexists. split; [vm_compute; reflexivity|]. split; vm_compute; reflexivity.
Qed.
