(* ======================================================================================
   Proof/Fun2CoreFLg  -  the fundamental lemma: let (the continuation is placed under the binder -
   the case that needs the capture guard), label, goto.
   ====================================================================================== *)
From Coq Require Import List ZArith NArith String Bool Lia.
From SCC Require Import Base.Sexp Lang.SynUtil Lang.FunSyn Lang.FunTy Lang.CoreSyn.
From SCC Require Import Sem.AxSem Sem.CoreSem Sem.FunSem Model.Fun2Core.
From SCC Require Import Proof.Fun2CoreProof Proof.Fun2CoreSim Proof.Fun2CoreTfv Proof.Fun2CoreInv Proof.Fun2CoreUB
     Proof.Fun2CoreRel Proof.Fun2CoreFLa Proof.Fun2CoreFLb Proof.Fun2CoreFLc Proof.Fun2CoreFLd Proof.Fun2CoreFLe.
Import ListNotations.
Open Scope string_scope.
Open Scope list_scope.

Arguments var_ok : simpl never.

Lemma inG_name : forall G l bb, inG G l bb -> exists x, cbvar bb = new_id x /\ In x l.
Proof.
  intros G l bb [_ H]. apply in_map_iff in H. destruct H as [x [E Hx]]. exists x. split; [symmetry; exact E | exact Hx].
Qed.

Section FLg.
  Variable p : fcprog.
  Variable cp : cprog.
  Hypothesis Hcod : cpcodata cp = codata_of p.

  (* a binding of the scope has a used name *)
  Lemma inG_used : forall G l bb st, Gused G st -> inG G l bb ->
    exists y, cbvar bb = new_id y /\ In y (st_used_vars st).
  Proof. intros G l bb st HG [Hg _]. apply HG. eapply gl_In. exact Hg. Qed.
  (* ... and the environments bind it, with the right kind *)
  Lemma erel_kind : forall n G (S : cident -> Prop) e ce bb, erel p cp n G S e ce ->
    gl G (cbvar bb) = Some bb -> S (cbvar bb) ->
    exists b', clookup ce (cbvar bb) = Some b' /\ ckind b' = cbchi bb.
  Proof.
    intros n G S e ce bb He Hg Hs. destruct (He bb Hg Hs) as [x [b [b' [E1 [E2 [E3 [E4 [E5 E6]]]]]]]].
    exists b'. rewrite E1. split; [exact E3|]. rewrite <- E6. symmetry. eapply brel_kind. exact E4.
  Qed.

  (* ---------- let ---------- *)
  Lemma fl_let : forall N v vty t1 t2 ty, flw p cp N t1 -> flw p cp N t2 ->
    flw p cp N (FLet v vty t1 t2 ty) /\ flc p cp N (FLet v vty t1 t2 ty).
  Proof.
    intros N v vty t1 t2 ty H1 H2.
    assert (HW : flw p cp N (FLet v vty t1 t2 ty)).
    { intros n Hn G cur cont st s st' e ce k Hwc Hf Hws Hnc Hl HG Hbn Hni H8 Hsh He HCK.
      rewrite wc_unfold in Hwc. simpl in Hf, Hws, Hnc.
      apply andb_prop in Hf. destruct Hf as [Hf Hf2]. apply andb_prop in Hf. destruct Hf as [Hcd Hf1].
      apply andb_prop in Hws. destruct Hws as [Hw1 Hw2].
      apply andb_prop in Hnc. destruct Hnc as [Hnn Hn2]. apply andb_prop in Hnn. destruct Hnn as [Hdisj Hn1].
      apply negb_true_iff in Hcd.
      apply wc_let_inv in Hwc; [|rewrite ty_is_codata_compile; exact Hcd].
      destruct Hwc as [body [st1 [Hbody Hbound]]].
      set (vb := mkcb (new_id v) CPrd (compile_ty vty)) in *.
      set (ncont := CMu CCns (new_id v) body (compile_ty vty)) in *.
      assert (Hg1 : grows st st1) by (eapply wc_grows; exact Hbody).
      assert (Hg2 : grows st1 st') by (eapply wc_grows; exact Hbound).
      assert (Hv_used : In v (st_used_vars st)) by (apply Hbn; simpl; left; reflexivity).
      assert (Hb1 : incl (bnd t1) (st_used_vars st)) by (intros z Hz; apply Hbn; simpl; right; apply in_or_app; left; exact Hz).
      assert (Hb2 : incl (bnd t2) (st_used_vars st)) by (intros z Hz; apply Hbn; simpl; right; apply in_or_app; right; exact Hz).
      assert (HG' : Gused (vb :: G) st).
      { intros bb [E|Hbb]; [subst bb; exists v; split; [reflexivity | exact Hv_used] | apply HG; exact Hbb]. }
      assert (Hsc : cont_cns cont) by (apply (cont_shape_cns cp); exact Hsh).
      (* where the free bindings of the new continuation come from *)
      assert (Hnc_src : forall bb, In bb (fvt ncont) ->
                (inG G (nm t2) bb /\ bb <> vb) \/ (In bb (fvt cont) /\ bb <> vb)).
      { intros bb Hbb. apply fvt_mu_iff in Hbb. destruct Hbb as [Hbb Hne]. simpl in Hne. fold vb in Hne.
        destruct (ub_wc p cur t2 (vb :: G) cont st body st1 Hbody Hf2 Hw2 Hsc bb Hbb) as [Hg|Hg].
        - left. split; [|exact Hne]. eapply inG_cons_inv; eauto.
        - right. split; assumption. }
      assert (H8v : ~ In (new_id v) (cnames (fvt cont))) by (apply H8; simpl; left; reflexivity).
      assert (Hclean : ~ In (new_id v) (cnames (fvt ncont))).
      { intros Hin. apply in_cnames_inv in Hin. destruct Hin as [bb [Hbb E]].
        destruct (Hnc_src bb Hbb) as [[[Hg _] Hne]|[Hc _]].
        - rewrite E in Hg.
          assert (Hgv : gl (vb :: G) (new_id v) = Some vb) by (rewrite gl_cons; simpl; rewrite cid_eqb_refl; reflexivity).
          (* bb is in scope under the name v in G, but it is also free in body under vb :: G: it must be vb *)
          apply fvt_mu_iff in Hbb. destruct Hbb as [Hbb _].
          destruct (ub_wc p cur t2 (vb :: G) cont st body st1 Hbody Hf2 Hw2 Hsc bb Hbb) as [[Hq _]|Hq].
          + rewrite E, Hgv in Hq. injection Hq as Hq. apply Hne. symmetry. exact Hq.
          + apply H8v. rewrite <- E. apply in_cnames. exact Hq.
        - apply H8v. rewrite <- E. apply in_cnames. exact Hc. }
      assert (Hsh' : cont_shape cp ncont).
      { simpl. split; [reflexivity|]. split; [rewrite (is_codata_compile p cp Hcod); exact Hcd | exact Hclean]. }
      destruct n as [|n1]; [apply sim_zero|].
      eapply sim_fstep; [simpl; rewrite Hcd; reflexivity|].
      apply (H1 n1 ltac:(lia) G cur ncont st1 s st' e ce (FkLet v t2 e k) Hbound Hf1 Hw1 Hn1 Hl).
      - eapply Gused_grows; eauto.
      - eapply incl_grows; eauto.
      - (* names of the new continuation are used names *)
        intros x Hx. apply in_cnames_inv in Hx. destruct Hx as [bb [Hbb E]]. subst x.
        destruct (Hnc_src bb Hbb) as [[Hg _]|[Hc _]].
        + destruct (inG_used G _ bb st HG Hg) as [y [Ey Hy]]. exists y. split; [exact Ey|]. eapply grows_vars_incl; eauto.
        + eapply names_in_grows; [exact Hni | exact Hg1 | apply in_cnames; exact Hc].
      - (* binders of the bound term are not names of the new continuation: the capture guard *)
        intros x Hx Hin. apply in_cnames_inv in Hin. destruct Hin as [bb [Hbb E]].
        destruct (Hnc_src bb Hbb) as [[Hg _]|[Hc _]].
        + destruct (inG_name _ _ _ Hg) as [y [Ey Hy]]. rewrite E in Ey. apply new_id_inj in Ey. subst y.
          apply (disj_spec _ _ Hdisj x Hx). right. exact Hy.
        + apply (H8 x); [simpl; right; apply in_or_app; left; exact Hx|]. rewrite <- E. apply in_cnames. exact Hc.
      - exact Hsh'.
      - eapply erel_weaken; [exact He | | lia]. intros x Hx. exact Hx.
      - (* the new continuation means FkLet *)
        split.
        + intros bb Hbb Hs. destruct (Hnc_src bb Hbb) as [[[Hg _] _]|[Hc _]].
          * eapply erel_kind; eauto.
          * apply (proj1 HCK); assumption.
        + intros Hall. unfold ncont. simpl.
          intros j Hj val pv Hd Hv env Ha.
          destruct j as [|j1]; [apply sim_zero|].
          eapply sim_fstep; [reflexivity|].
          assert (Hnames : forall x, Sof (fvs body) x -> x <> new_id v -> Sof (fvs s) x).
          { intros x Hx Hne. apply Hall. apply names_neq_mu; assumption. }
          apply (H2 j1 ltac:(lia) (vb :: G) cur cont st body st1 ((v, FbP val) :: e) env k Hbody Hf2 Hw2 Hn2).
          * eapply lifted_ok_grows; eauto.
          * exact HG'.
          * exact Hb2.
          * exact Hni.
          * intros x Hx. apply H8. simpl. right. apply in_or_app. right. exact Hx.
          * exact Hsh.
          * eapply erel_agree with (S := Sof (fvs body)) (ce := (new_id v, BP pv) :: ce).
            -- eapply (erel_bind1 p cp j1 G (Sof (fvs s)) (Sof (fvs body)) e ce v CPrd (compile_ty vty) (FbP val) (BP pv)).
               ++ eapply erel_weaken; [exact He | | lia]. intros x Hx. exact Hx.
               ++ simpl. eapply vrel_mono; [exact Hv | lia].
               ++ exact Hd.
               ++ reflexivity.
               ++ exact Hnames.
            -- intros x Hx. split; [exact Hx | apply Ha; exact Hx].
          * eapply CK_transfer; [exact Hsh | exact HCK | | lia].
            intros x Hxc Hxb.
            assert (Hne : x <> new_id v) by (intros E; subst x; exact (H8v Hxc)).
            split; [apply Hnames; assumption|].
            rewrite (Ha x Hxb), clookup_cons.
            assert (Hx : cident_eqb (new_id v) x = false) by (apply cid_eqb_neq; congruence).
            rewrite Hx. reflexivity. }
    split; [exact HW|].
    apply (flc_default p cp N (FLet v vty t1 t2 ty)
             (fun cur => wc_let (codata_of p) v vty (cmp (codata_of p) cur false t1) (wc (codata_of p) cur false t1)
                                (wc (codata_of p) cur false t2))); [| |exact HW].
    - intros cur cont. apply wc_unfold.
    - intros cur ty0. apply cmp_unfold.
  Qed.
End FLg.
