(* ======================================================================================
   Proof/Fun2CoreFLg  -  the fundamental lemma: let (the continuation is placed under the binder -
   the case that needs the capture guard), label, goto.
   ====================================================================================== *)
From Coq Require Import List ZArith NArith String Bool Lia.
From SCC Require Import Base.Sexp Lang.SynUtil Lang.FunSyn Lang.FunTy Lang.CoreSyn.
From SCC Require Import Sem.AxSem Sem.CoreSem Sem.FunSem Model.Fun2Core.
From SCC Require Import Proof.Fun2CoreProof Proof.Fun2CoreSim Proof.Fun2CoreTfv Proof.Fun2CoreInv Proof.Fun2CoreUB
     Proof.Fun2CoreRel Proof.Fun2CoreFLa Proof.Fun2CoreFLb Proof.Fun2CoreFLc Proof.Fun2CoreFLd Proof.Fun2CoreFLe.
Import ListNotations.
Open Scope string_scope.
Open Scope list_scope.

Arguments var_ok : simpl never.

Lemma inG_name : forall G l bb, inG G l bb -> exists x, cbvar bb = new_id x /\ In x l.
Proof.
  intros G l bb [_ H]. apply in_map_iff in H. destruct H as [x [E Hx]]. exists x. split; [symmetry; exact E | exact Hx].
Qed.

Section FLg.
  Variable p : fcprog.
  Variable cp : cprog.
  Hypothesis Hcod : cpcodata cp = codata_of p.

  (* a binding of the scope has a used name *)
  Lemma inG_used : forall G l bb st, Gused G st -> inG G l bb ->
    exists y, cbvar bb = new_id y /\ In y (st_used_vars st).
  Proof. intros G l bb st HG [Hg _]. apply HG. eapply gl_In. exact Hg. Qed.
  (* ... and the environments bind it, with the right kind *)
  Lemma erel_kind : forall n G (S : cident -> Prop) e ce bb, erel p cp n G S e ce ->
    gl G (cbvar bb) = Some bb -> S (cbvar bb) ->
    exists b', clookup ce (cbvar bb) = Some b' /\ ckind b' = cbchi bb.
  Proof.
    intros n G S e ce bb He Hg Hs. destruct (He bb Hg Hs) as [x [b [b' [E1 [E2 [E3 [E4 [E5 E6]]]]]]]].
    exists b'. rewrite E1. split; [exact E3|]. rewrite <- E6. symmetry. eapply brel_kind. exact E4.
  Qed.

  (* ---------- binders that would capture the continuation (repair d5d4151) ----------
     The translation places the continuation under the binder of a let / the binders of the patterns of a case.
     When a name of a binder occurs free in the continuation, the continuation is first NAMED by a fresh
     covariable: < mu a. [[t]]_a | cont >, and the term is translated with the covariable as continuation.
     The fundamental lemma for such a term is proved for the inner translation under the hypothesis that no binder
     occurs in the continuation (flw_in); fl_guard then gives it for the guarded translation, in both cases. *)
  Lemma captures_notin : forall binders cont, captures binders cont = false ->
    forall b, In b binders -> ~ In (new_id b) (cnames (fvt cont)).
  Proof.
    intros binders cont H b Hb Hin. unfold captures in H.
    assert (E : existsb (fun b0 => existsb (fun bb => String.eqb (fst (cbvar bb)) b0) (tfv_term cont [])) binders = true).
    { apply existsb_exists. exists b. split; [exact Hb|]. apply existsb_exists.
      apply in_cnames_inv in Hin. destruct Hin as [bb [Hbb Eb]]. exists bb. split; [exact Hbb|].
      rewrite Eb. simpl. apply String.eqb_refl. }
    rewrite E in H. discriminate H.
  Qed.

  Definition flw_in (N : nat) (t : fterm) (binders : list fname) (W : string -> cterm -> M cstmt) : Prop :=
    forall n, (n <= N)%nat -> forall G cur cont st s st' e ce k,
      W cur cont st = Ok (s, st') ->
      (forall b, In b binders -> ~ In (new_id b) (cnames (fvt cont))) ->
      frag p t = true -> kd p t = true -> ws G t = true ->
      lifted_ok cp st' -> Gused G st -> incl (bnd t) (st_used_vars st) ->
      names_in (cnames (fvt cont)) st ->
      cont_shape cp (tkind p t) cont ->
      erel p cp n G (Sof (fvs s)) e ce ->
      CK p cp n (tkind p t) k cont ce (Sof (fvs s)) ->
      sim p cp n (FEval t e k) (SNext (Run s ce)).

  Lemma fl_guard : forall N t binders (W : string -> cterm -> M cstmt) lty,
    (forall cur cont, wc (codata_of p) cur false t cont = guard_capture false binders (W cur) lty cont) ->
    fterm_type t = lty ->
    flw_in N t binders W -> flw p cp N t.
  Proof.
    intros N t binders W lty HW Hty Hin.
    intros n Hn G cur cont st s st' e ce k Hwc Hf Hkd Hws Hl HG Hbn Hni Hsh He HCK.
    rewrite HW in Hwc. apply guard_capture_inv in Hwc.
    destruct Hwc as [[Hc Hw] | [Hc [ty0 [a [sta [s0 [Ety [Ha [Hc' [Hw Es]]]]]]]]]].
    - apply (Hin n Hn G cur cont st s st' e ce k Hw (captures_notin _ _ Hc)); assumption.
    - subst s lty.
      assert (Hkind : is_codata cp (compile_ty ty0) = tkind p t).
      { rewrite (is_codata_compile p cp Hcod). unfold tkind. rewrite Ety. reflexivity. }
      assert (HKS : KS p cp n (tkind p t) k cont ce).
      { apply (proj2 HCK). intros x Hx. unfold Sof. apply in_cnames_inv in Hx. destruct Hx as [bb [Hbb E]]. subst x.
        apply in_cnames. apply fvs_cut. right. exact Hbb. }
      destruct (KS_cut p cp n (tkind p t) k cont ce (CMu CPrd (new_id a) s0 (compile_ty ty0)) (compile_ty ty0) Hsh HKS I)
        as [kv [Hr Hk]].
      apply sim_cstep. eapply sim_rreach; [|exact Hr].
      assert (Ei : cut_with_k (is_codata cp (compile_ty ty0)) (CMu CPrd (new_id a) s0 (compile_ty ty0)) ce kv =
                   SNext (Run s0 ((new_id a, BK kv) :: ce))).
      { simpl. rewrite Hkind. destruct (tkind p t) eqn:Ek; [|reflexivity].
        pose proof (Kk_ok p cp n k kv Hk) as Hok. destruct kv; simpl in Hok; try contradiction; reflexivity. }
      rewrite Ei.
      destruct (fresh_in_vars_inv _ _ _ _ Ha) as [Hfresh [Hused _]].
      assert (Hgr : grows st sta) by (eapply mgrows_fresh_covar; exact Ha).
      apply (Hin n Hn G cur (CXVar CCns (new_id a) (compile_ty ty0)) sta s0 st' e _ k Hw (captures_notin _ _ Hc') Hf Hkd Hws Hl).
      + eapply Gused_grows; eauto.
      + eapply incl_grows; eauto.
      + intros x Hx. simpl in Hx. destruct Hx as [Hx|[]]. subst x.
        exists a. split; [reflexivity|]. rewrite Hused. left. reflexivity.
      + exact I.
      + eapply erel_gen; [exact He | |].
        * intros bb Hbb E. destruct (HG bb Hbb) as [x [Ex Hx]]. rewrite Ex in E. apply new_id_inj in E. subst x. exact (Hfresh Hx).
        * intros x Hx Hne. unfold Sof in *. apply in_cnames_inv in Hx. destruct Hx as [bb [Hbb E]]. subst x.
          apply in_cnames. apply fvs_cut. left. apply fvt_mu_2; [exact Hbb|]. intros Eb. subst bb. apply Hne. reflexivity.
      + apply CK_covar with (kv := kv); [|exact Hk]. rewrite clookup_cons, cid_eqb_refl. reflexivity.
  Qed.

  (* ---------- let ---------- *)
  Lemma fl_let_in : forall N v vty t1 t2 ty, flw p cp N t1 -> flt p cp N t1 -> flw p cp N t2 ->
    flw_in N (FLet v vty t1 t2 ty) [v]
      (fun cur => wc_let (codata_of p) v vty (cmp (codata_of p) cur false t1) (wc (codata_of p) cur false t1)
                         (wc (codata_of p) cur false t2)).
  Proof.
    intros N v vty t1 t2 ty H1 HT1 H2.
    intros n Hn G cur cont st s st' e ce k Hwc H8 Hf Hkd Hws Hl HG Hbn Hni Hsh He HCK.
    simpl in Hf, Hkd, Hws.
    apply andb_prop in Hf. destruct Hf as [Hf1 Hf2].
    apply andb_prop in Hws. destruct Hws as [Hw1 Hw2].
    apply andb_prop in Hkd. destruct Hkd as [Hkd Hsame]. apply andb_prop in Hkd. destruct Hkd as [Hkd Hkb].
    apply andb_prop in Hkd. destruct Hkd as [Hk1 Hk2]. apply Bool.eqb_prop in Hsame. apply Bool.eqb_prop in Hkb.
    assert (Hkind : tkind p (FLet v vty t1 t2 ty) = tkind p t2) by (unfold tkind at 1; simpl; symmetry; exact Hsame).
    rewrite Hkind in *.
    set (vb := mkcb (new_id v) CPrd (compile_ty vty)) in *.
    assert (Hv_used : In v (st_used_vars st)) by (apply Hbn; simpl; left; reflexivity).
    assert (Hb1 : incl (bnd t1) (st_used_vars st)) by (intros z Hz; apply Hbn; simpl; right; apply in_or_app; left; exact Hz).
    assert (Hb2 : incl (bnd t2) (st_used_vars st)) by (intros z Hz; apply Hbn; simpl; right; apply in_or_app; right; exact Hz).
    assert (HG' : Gused (vb :: G) st).
    { intros bb [E|Hbb]; [subst bb; exists v; split; [reflexivity | exact Hv_used] | apply HG; exact Hbb]. }
    assert (Hsc : cont_cns cont) by (apply (cont_shape_cns cp (tkind p t2)); exact Hsh).
    assert (H8v : ~ In (new_id v) (cnames (fvt cont))) by (apply H8; simpl; left; reflexivity).
    destruct (f_is_codata p vty) eqn:Hcd.
    - (* by name: the variable is bound to the thunk of the bound term, the body runs at once *)
      apply wc_let_inv_codata in Hwc; [|rewrite ty_is_codata_compile; exact Hcd].
      destruct Hwc as [body [st1 [pb [Hbody [Hpb Es]]]]]. subst s.
      assert (Hg1 : grows st st1) by (eapply wc_grows; exact Hbody).
      assert (Hg2 : grows st1 st') by (eapply cmp_grows; exact Hpb).
      assert (Hcdc : is_codata cp (compile_ty vty) = true) by (rewrite (is_codata_compile p cp Hcod); exact Hcd).
      destruct (HT1 n Hn G cur (compile_ty vty) st1 pb st' e ce Hpb Hf1 Hk1 Hkb Hw1 Hl) as [pv [_ [Hcut [_ [HCo _]]]]].
      { eapply Gused_grows; eauto. }
      { eapply incl_grows; eauto. }
      { exact Hcdc. }
      { eapply erel_weaken; [exact He | | apply Nat.le_refl]. apply Sof_incl. intros bb Hx. apply fvs_cut. left. exact Hx. }
      destruct n as [|n1]; [apply sim_zero|].
      eapply sim_fstep; [simpl; rewrite Hcd; reflexivity|].
      apply sim_cstep. rewrite Hcut.
      assert (Hnames : forall x, Sof (fvs body) x -> x <> new_id v ->
                Sof (fvs (CCut pb (compile_ty vty) (CMu CCns (new_id v) body (compile_ty vty)))) x).
      { intros x Hx Hne. unfold Sof in *. apply in_cnames_inv in Hx. destruct Hx as [bb [Hbb E]]. subst x.
        apply in_cnames. apply fvs_cut. right. apply fvt_mu_2; [exact Hbb|]. intros Eb. subst bb. apply Hne. reflexivity. }
      apply (H2 n1 ltac:(lia) (vb :: G) cur cont st body st1 ((v, FbP (FvThunk t1 e)) :: e) _ k Hbody Hf2 Hk2 Hw2).
      + eapply lifted_ok_grows; eauto.
      + exact HG'.
      + exact Hb2.
      + exact Hni.
      + exact Hsh.
      + eapply (erel_bind1 p cp n1 G _ (Sof (fvs body)) e ce v CPrd (compile_ty vty) (FbP (FvThunk t1 e)) (BP pv)).
        * eapply erel_weaken; [exact He | | lia]. intros x Hx. exact Hx.
        * simpl. eapply Co_mono; [exact HCo | lia].
        * rewrite Hcdc. exact I.
        * reflexivity.
        * exact Hnames.
      + eapply CK_transfer; [exact Hsh | exact HCK | | lia].
        intros x Hxc Hxb.
        assert (Hne : x <> new_id v) by (intros E; subst x; exact (H8v Hxc)).
        split; [apply Hnames; assumption|].
        rewrite clookup_cons.
        assert (Hx : cident_eqb (new_id v) x = false) by (apply cid_eqb_neq; congruence).
        rewrite Hx. reflexivity.
    - (* by value *)
      apply wc_let_inv in Hwc; [|rewrite ty_is_codata_compile; exact Hcd].
      destruct Hwc as [body [st1 [Hbody Hbound]]].
      set (ncont := CMu CCns (new_id v) body (compile_ty vty)) in *.
      assert (Hg1 : grows st st1) by (eapply wc_grows; exact Hbody).
      assert (Hg2 : grows st1 st') by (eapply wc_grows; exact Hbound).
      (* where the free bindings of the new continuation come from *)
      assert (Hnc_src : forall bb, In bb (fvt ncont) ->
                (inG G (nm t2) bb /\ bb <> vb) \/ (In bb (fvt cont) /\ bb <> vb)).
      { intros bb Hbb. apply fvt_mu_iff in Hbb. destruct Hbb as [Hbb Hne]. simpl in Hne. fold vb in Hne.
        destruct (ub_wc p cur t2 (vb :: G) cont st body st1 Hbody Hf2 Hw2 Hsc bb Hbb) as [Hg|Hg].
        - left. split; [|exact Hne]. eapply inG_cons_inv; eauto.
        - right. split; assumption. }
      assert (Hclean : ~ In (new_id v) (cnames (fvt ncont))).
      { intros Hin. apply in_cnames_inv in Hin. destruct Hin as [bb [Hbb E]].
        destruct (Hnc_src bb Hbb) as [[[Hg _] Hne]|[Hc _]].
        - rewrite E in Hg.
          assert (Hgv : gl (vb :: G) (new_id v) = Some vb) by (rewrite gl_cons; simpl; rewrite cid_eqb_refl; reflexivity).
          apply fvt_mu_iff in Hbb. destruct Hbb as [Hbb _].
          destruct (ub_wc p cur t2 (vb :: G) cont st body st1 Hbody Hf2 Hw2 Hsc bb Hbb) as [[Hq _]|Hq].
          + rewrite E, Hgv in Hq. injection Hq as Hq. apply Hne. symmetry. exact Hq.
          + apply H8v. rewrite <- E. apply in_cnames. exact Hq.
        - apply H8v. rewrite <- E. apply in_cnames. exact Hc. }
      assert (Hcdc : is_codata cp (compile_ty vty) = false) by (rewrite (is_codata_compile p cp Hcod); exact Hcd).
      assert (Hsh' : cont_shape cp false ncont).
      { simpl. split; [reflexivity|]. split; [reflexivity|]. split; [exact Hcdc | exact Hclean]. }
      destruct n as [|n1]; [apply sim_zero|].
      eapply sim_fstep; [simpl; rewrite Hcd; reflexivity|].
      rewrite <- Hkb in Hsh'.
      apply (H1 n1 ltac:(lia) G cur ncont st1 s st' e ce (FkLet v t2 e k) Hbound Hf1 Hk1 Hw1 Hl).
      + eapply Gused_grows; eauto.
      + eapply incl_grows; eauto.
      + intros x Hx. apply in_cnames_inv in Hx. destruct Hx as [bb [Hbb E]]. subst x.
        destruct (Hnc_src bb Hbb) as [[Hg _]|[Hc _]].
        * destruct (inG_used G _ bb st HG Hg) as [y [Ey Hy]]. exists y. split; [exact Ey|]. eapply grows_vars_incl; eauto.
        * eapply names_in_grows; [exact Hni | exact Hg1 | apply in_cnames; exact Hc].
      + exact Hsh'.
      + eapply erel_weaken; [exact He | | lia]. intros x Hx. exact Hx.
      + rewrite Hkb. split.
        * intros bb Hbb Hs. destruct (Hnc_src bb Hbb) as [[[Hg _] _]|[Hc _]].
          -- eapply erel_kind; eauto.
          -- apply (proj1 HCK); assumption.
        * intros Hall. unfold ncont. simpl.
          intros j Hj val pv Hd Hv env Ha.
          destruct j as [|j1]; [apply sim_zero|].
          eapply sim_fstep; [reflexivity|].
          assert (Hnames : forall x, Sof (fvs body) x -> x <> new_id v -> Sof (fvs s) x).
          { intros x Hx Hne. apply Hall. apply names_neq_mu; assumption. }
          apply (H2 j1 ltac:(lia) (vb :: G) cur cont st body st1 ((v, FbP val) :: e) env k Hbody Hf2 Hk2 Hw2).
          -- eapply lifted_ok_grows; eauto.
          -- exact HG'.
          -- exact Hb2.
          -- exact Hni.
          -- exact Hsh.
          -- eapply erel_agree with (S := Sof (fvs body)) (ce := (new_id v, BP pv) :: ce).
             ++ eapply (erel_bind1 p cp j1 G (Sof (fvs s)) (Sof (fvs body)) e ce v CPrd (compile_ty vty) (FbP val) (BP pv)).
                ** eapply erel_weaken; [exact He | | lia]. intros x Hx. exact Hx.
                ** simpl. eapply vrel_mono; [exact Hv | lia].
                ** rewrite Hcdc. exact Hd.
                ** reflexivity.
                ** exact Hnames.
             ++ intros x Hx. split; [exact Hx | apply Ha; exact Hx].
          -- eapply CK_transfer; [exact Hsh | exact HCK | | lia].
             intros x Hxc Hxb.
             assert (Hne : x <> new_id v) by (intros E; subst x; exact (H8v Hxc)).
             split; [apply Hnames; assumption|].
             rewrite (Ha x Hxb), clookup_cons.
             assert (Hx : cident_eqb (new_id v) x = false) by (apply cid_eqb_neq; congruence).
             rewrite Hx. reflexivity.
  Qed.
  Lemma fl_let : forall N v vty t1 t2 ty, flw p cp N t1 -> flt p cp N t1 -> flw p cp N t2 ->
    flw p cp N (FLet v vty t1 t2 ty).
  Proof.
    intros N v vty t1 t2 ty H1 HT1 H2.
    eapply fl_guard; [| |apply fl_let_in; assumption].
    - intros cur cont. rewrite wc_unfold. reflexivity.
    - reflexivity.
  Qed.

  (* ---------- label ---------- *)
  Lemma label_core : forall N l t, flw p cp N t ->
    forall n, (n <= N)%nat -> forall G cur ty0 st s0 st' e ce k kv (S : cident -> Prop),
    wc (codata_of p) cur false t (CXVar CCns (new_id l) (compile_ty ty0)) st = Ok (s0, st') ->
    frag p t = true -> kd p t = true -> tkind p t = false ->
    ws (mkcb (new_id l) CCns (compile_ty ty0) :: G) t = true ->
    In l (st_used_vars st) ->
    lifted_ok cp st' -> Gused G st -> incl (bnd t) (st_used_vars st) ->
    erel p cp n G S e ce -> (forall x, Sof (fvs s0) x -> x <> new_id l -> S x) ->
    Kb p cp n k kv ->
    sim p cp n (FEval t ((l, FbK k) :: e) k) (SNext (Run s0 ((new_id l, BK kv) :: ce))).
  Proof.
    intros N l t H n Hn G cur ty0 st s0 st' e ce k kv S Hwc Hf Hkd Hk0 Hw Hlu Hl HG Hbn He HS Hk.
    apply (H n Hn (mkcb (new_id l) CCns (compile_ty ty0) :: G) cur _ st s0 st' _ _ k Hwc Hf Hkd Hw Hl).
    - intros bb [E|Hbb]; [subst bb; exists l; split; [reflexivity | exact Hlu] | apply HG; exact Hbb].
    - exact Hbn.
    - intros x Hx. simpl in Hx. destruct Hx as [Hx|[]]. subst x. exists l. split; [reflexivity | exact Hlu].
    - exact I.
    - eapply (erel_bind1 p cp n G S (Sof (fvs s0)) e ce l CCns (compile_ty ty0) (FbK k) (BK kv)); auto.
      simpl. exact I.
    - rewrite Hk0. apply CK_covar with (kv := kv); [|exact Hk]. rewrite clookup_cons, cid_eqb_refl. reflexivity.
  Qed.

  Lemma fl_label : forall N l t ty, flw p cp N t -> flw p cp N (FLabel l t ty) /\ flc p cp N (FLabel l t ty).
  Proof.
    intros N l t ty H. split.
    - intros n Hn G cur cont st s st' e ce k Hwc Hf Hkd Hws Hl HG Hbn Hni Hsh He HCK.
      rewrite wc_unfold in Hwc. apply wc_label_inv in Hwc. destruct Hwc as [ty0 [s0 [Ety [Hs0 Es]]]]. subst s ty.
      simpl in Hf, Hkd, Hws.
      apply andb_prop in Hf. destruct Hf as [Hdt Hf].
      apply andb_prop in Hkd. destruct Hkd as [Hkd Hkty]. apply andb_prop in Hkd. destruct Hkd as [Hkd Hk0].
      apply negb_true_iff in Hk0. apply negb_true_iff in Hkty.
      assert (Hkind : tkind p (FLabel l t (Some ty0)) = false) by (unfold tkind; simpl; exact Hkty).
      rewrite Hkind in *.
      assert (Hcd : is_codata cp (compile_ty ty0) = false).
      { rewrite (is_codata_compile p cp Hcod). unfold data_ty in Hdt. apply negb_true_iff in Hdt. exact Hdt. }
      destruct (CK_head p cp n k cont ce _ Hsh HCK) as [kv [Hh Hk]].
      { intros bb Hbb. apply Sof_in. apply fvs_cut. right. exact Hbb. }
      destruct n as [|n1]; [apply sim_zero|].
      eapply sim_fstep; [reflexivity|].
      apply sim_cstep. rewrite (cstep_cut_mu cp); [|exact Hsh]. rewrite Hh. unfold interact_mu. rewrite Hcd.
      cbv iota.
      eapply (label_core N l t H n1 ltac:(lia) G cur ty0 st s0 st' e ce k kv (Sof (fvs (CCut (CMu CPrd (new_id l) s0 (compile_ty ty0)) (compile_ty ty0) cont)))); eauto.
      + apply Hbn. simpl. left. reflexivity.
      + intros z Hz. apply Hbn. simpl. right. exact Hz.
      + eapply erel_weaken; [exact He | | lia]. intros x Hx. exact Hx.
      + intros x Hx Hne. unfold Sof in *. apply in_cnames_inv in Hx. destruct Hx as [bb [Hbb E]]. subst x.
        apply in_cnames. apply fvs_cut. left. apply fvt_mu_2; [exact Hbb|]. intros Eb. subst bb. apply Hne. reflexivity.
      + eapply Kb_mono; [exact Hk | lia].
    - intros n Hn G cur ty' st c st' e ce k m Hc Hf Hkd Hkk Hws Hl HG Hbn Hty He HK.
      rewrite cmp_unfold in Hc. apply cmp_label_inv in Hc. destruct Hc as [ty0 [s0 [Ety [Hs0 Ec]]]]. subst c ty.
      simpl in Hf, Hkd, Hws.
      apply andb_prop in Hf. destruct Hf as [Hdt Hf].
      apply andb_prop in Hkd. destruct Hkd as [Hkd Hkty]. apply andb_prop in Hkd. destruct Hkd as [Hkd Hk0].
      apply negb_true_iff in Hk0.
      assert (Hcd : is_codata cp (compile_ty ty0) = false).
      { rewrite (is_codata_compile p cp Hcod). unfold data_ty in Hdt. apply negb_true_iff in Hdt. exact Hdt. }
      destruct n as [|n1]; [apply sim_zero|].
      eapply sim_fstep; [reflexivity|].
      apply sim_cstep. simpl. rewrite Hcd.
      eapply (label_core N l t H n1 ltac:(lia) G cur ty0 st s0 st' e ce k (KRet m) (Sof (fvt (CMu CPrd (new_id l) s0 (compile_ty ty0))))); eauto.
      + apply Hbn. simpl. left. reflexivity.
      + intros z Hz. apply Hbn. simpl. right. exact Hz.
      + eapply erel_weaken; [exact He | | lia]. intros x Hx. exact Hx.
      + intros x Hx Hne. apply names_neq_mu; assumption.
      + eapply Kb_mono; [exact HK | lia].
  Qed.

  (* ---------- goto ---------- *)
  Lemma fl_goto : forall N l t ty, flw p cp N t -> flw p cp N (FGoto l t ty).
  Proof.
    intros N l t ty H.
    intros n Hn G cur cont st s st' e ce k Hwc Hf Hkd Hws Hl HG Hbn Hni Hsh He HCK.
    rewrite wc_unfold in Hwc. apply wc_goto_inv in Hwc. destruct Hwc as [ty0 [Ety Hs]].
    simpl in Hf, Hkd, Hws.
    apply andb_prop in Hws. destruct Hws as [Hw1 Hw2].
    apply andb_prop in Hkd. destruct Hkd as [Hkd Hk0]. apply negb_true_iff in Hk0.
    apply var_ok_inv in Hw1. destruct Hw1 as [ty1 [E1 Hg]]. rewrite Ety in E1. injection E1 as E1. subst ty1.
    destruct n as [|n1]; [apply sim_zero|].
    destruct (flookup e l) as [[val|k']|] eqn:El;
      [eapply sim_stuck; simpl; rewrite El; reflexivity | | eapply sim_stuck; simpl; rewrite El; reflexivity].
    eapply sim_fstep; [simpl; rewrite El; reflexivity|].
    apply (H n1 ltac:(lia) G cur _ st s st' e ce k' Hs Hf Hkd Hw2 Hl HG).
    - intros z Hz. apply Hbn. exact Hz.
    - intros x Hx. simpl in Hx. destruct Hx as [Hx|[]]. subst x.
      destruct (HG _ (gl_In _ _ _ Hg)) as [y [Ey Hy]]. exists y. split; [exact Ey | exact Hy].
    - exact I.
    - eapply erel_weaken; [exact He | | lia]. intros x Hx. exact Hx.
    - (* the target covariable means the continuation found in the source environment *)
      rewrite Hk0.
      assert (Hcov : Sof (fvs s) (new_id l) -> exists kv, clookup ce (new_id l) = Some (BK kv) /\ Kb p cp (S n1) k' kv).
      { intros Hs0. destruct (erel_covar p cp (S n1) G _ e ce l _ He Hg Hs0) as [k0 [kv0 [E1 [E2 E3]]]].
        rewrite El in E1. injection E1 as E1. subst k0. eauto. }
      split.
      + intros bb Hbb Hs0. apply fvt_var in Hbb. subst bb. simpl in *. destruct (Hcov Hs0) as [kv [E2 _]].
        exists (BK kv). split; [exact E2 | reflexivity].
      + intros Hall. destruct (Hcov (Hall _ (or_introl eq_refl))) as [kv [E2 E3]].
        intros ce' Ha. exists kv. split; [|eapply Kb_mono; [exact E3 | lia]].
        simpl. rewrite (Ha (new_id l)); [rewrite E2; reflexivity | simpl; left; reflexivity].
  Qed.
End FLg.
