(* C16: the theorems about the formatter round trip, assembled.
   Models: Model/Printer.v (documents, tokens), Model/Parser.v (lexer, parser), Model/FmtClass.v
   (defect class).  Proof parts: FmtRound.v (parser reads back the token stream), FmtGlue.v (token
   stream of the printed document), FmtSafe.v (separators), FmtLex.v (lexer over all layouts). *)
From Coq Require Import List ZArith NArith String Ascii Bool Lia.
From SCC Require Import Base.Sexp Lang.SynUtil Lang.FunSyn Model.Printer Model.Parser Model.FmtClass
  Proof.FmtDefs Proof.FmtRound Proof.FmtGlue Proof.FmtSafe Proof.FmtLex Proof.FmtPretty.
From SCC Require Import Model.Pretty.
Import ListNotations.
Local Open Scope string_scope.

(* ---------- round trip on tokens ---------- *)
(* The repaired printer: no guard. *)
Lemma roundtrip c p : wf_prog p = true -> parse (tokens (d_prog c p)) = Some p.
Proof. intros Hwf. rewrite tokens_print by assumption. now apply roundtrip_tokens. Qed.

(* ---------- idempotence ---------- *)
Lemma idempotent c p :
  wf_prog p = true -> option_map (d_prog c) (parse (tokens (d_prog c p))) = Some (d_prog c p).
Proof. intros Hwf. now rewrite roundtrip. Qed.
Lemma idempotent_tokens c p q :
  wf_prog p = true -> parse (tokens (d_prog c p)) = Some q -> tokens (d_prog c q) = tokens (d_prog c p).
Proof. intros Hwf E. rewrite roundtrip in E by assumption. now injection E as <-. Qed.

(* ---------- regression: the printer before the repair (Printer.old_d_prog) ---------- *)
(* `if 1 == -0 { 1 } else { 2 }` came back as the zero-comparison form *)
Definition wit_cfg : pcfg := mkpcfg 80 true false 4.
Definition wit_minus_zero : fprog :=
  mkfprog [FDDef (mkfdef "main" [] FI64 (FIfC FEq (FLit 1) (Some (FLit 0)) (FLit 1) (FLit 2) None))].
Definition wit_minus_zero_after : fprog :=
  mkfprog [FDDef (mkfdef "main" [] FI64 (FIfC FEq (FLit 1) None (FLit 1) (FLit 2) None))].
Lemma wit_minus_zero_parses :     (* it is what the parser makes of the source text *)
  parse_text "def main(): i64 { if 1 == -0 { 1 } else { 2 } }" = Some wit_minus_zero.
Proof. vm_compute. reflexivity. Qed.
Lemma wit_minus_zero_changed :
  wf_prog wit_minus_zero = true /\
  parse (tokens (old_d_prog wit_cfg wit_minus_zero)) = Some wit_minus_zero_after.
Proof. split; vm_compute; reflexivity. Qed.
Lemma old_roundtrip_refuted :
  ~ (forall c p, wf_prog p = true -> parse (tokens (old_d_prog c p)) = Some p).
Proof.
  intros H. specialize (H wit_cfg wit_minus_zero (proj1 wit_minus_zero_changed)).
  rewrite (proj2 wit_minus_zero_changed) in H. discriminate.
Qed.

(* worse: the printed text of a parseable program did not parse at all: `if 0 == x + -0 {1} else {2}` *)
Definition wit_unparsable : fprog :=
  mkfprog [FDDef (mkfdef "main" [mkfb "x" FPrd FI64] FI64
     (FIfC FEq (FOp (FVar "x" None None) FSum (FLit 0)) None (FLit 1) (FLit 2) None))].
Lemma wit_unparsable_parses :
  parse_text "def main(x: i64): i64 { if 0 == x + -0 { 1 } else { 2 } }" = Some wit_unparsable.
Proof. vm_compute. reflexivity. Qed.
Lemma old_unparsable_output :
  exists c p, wf_prog p = true /\ parse (tokens (old_d_prog c p)) = None.
Proof. exists wit_cfg, wit_unparsable. split; vm_compute; reflexivity. Qed.

(* `if 0 > -0 {1} else {2}`: printed `if 0 < 0`, reparsed as Greater, printed `if 0 > 0` *)
Definition wit_flip : fprog :=
  mkfprog [FDDef (mkfdef "main" [] FI64 (FIfC FLt (FLit 0) None (FLit 1) (FLit 2) None))].
Lemma wit_flip_parses : parse_text "def main(): i64 { if 0 > -0 { 1 } else { 2 } }" = Some wit_flip.
Proof. vm_compute. reflexivity. Qed.
Lemma old_idempotent_refuted :
  ~ (forall c p q, wf_prog p = true -> parse (tokens (old_d_prog c p)) = Some q ->
                   tokens (old_d_prog c q) = tokens (old_d_prog c p)).
Proof.
  intros H.
  specialize (H wit_cfg wit_flip
                (mkfprog [FDDef (mkfdef "main" [] FI64 (FIfC FGt (FLit 0) None (FLit 1) (FLit 2) None))])).
  assert (E1 : wf_prog wit_flip = true) by (vm_compute; reflexivity).
  specialize (H E1). vm_compute in H. specialize (H eq_refl). discriminate.
Qed.

(* a literal 0 as FIRST operand of a general comparison exists only behind a comment
   (corpus/fun/c16_minus_zero_fst.sc); a second operand that starts with the literal 0 *)
Definition wit_comment : fprog :=
  mkfprog [FDDef (mkfdef "main" [mkfb "x" FPrd FI64] FI64
     (FIfC FLt (FLit 0) (Some (FVar "x" None None)) (FLit 1) (FLit 2) None))].
Lemma wit_comment_parses :
  parse_text ("def main(x: i64): i64 { if 0 // zero" ++ String "010" "  < x { 1 } else { 2 } }") = Some wit_comment.
Proof. vm_compute. reflexivity. Qed.
Definition wit_snd_op : fprog :=
  mkfprog [FDDef (mkfdef "main" [mkfb "x" FPrd FI64] FI64
     (FIfC FEq (FVar "x" None None) (Some (FOp (FLit 0) FSum (FLit 1))) (FLit 1) (FLit 2) None))].
Lemma wit_snd_op_parses :
  parse_text "def main(x: i64): i64 { if x == -0 + 1 { 1 } else { 2 } }" = Some wit_snd_op.
Proof. vm_compute. reflexivity. Qed.

(* ... and what the REPAIRED printer (the model of the current code, compared with it byte for byte on
   every run, these witnesses included) writes for them; each text parses back to its program *)
Lemma witnesses_fixed :
  render 80 (d_prog wit_cfg wit_minus_zero) = ("def main(): i64 {" ++ nl ++ "    if 1 == -0 { 1 } else { 2 }" ++ nl ++ "}")%string /\
  render 80 (d_prog wit_cfg wit_unparsable) = ("def main(x: i64): i64 {" ++ nl ++ "    if 0 == x + 0 { 1 } else { 2 }" ++ nl ++ "}")%string /\
  render 80 (d_prog wit_cfg wit_flip) = ("def main(): i64 {" ++ nl ++ "    if 0 > 0 { 1 } else { 2 }" ++ nl ++ "}")%string /\
  render 80 (d_prog wit_cfg wit_comment)
    = ("def main(x: i64): i64 {" ++ nl ++ "    if 0 //" ++ nl ++ "    < x {" ++ nl ++ "        1" ++ nl ++ "    } else {" ++ nl
       ++ "        2" ++ nl ++ "    }" ++ nl ++ "}")%string /\
  render 80 (d_prog wit_cfg wit_snd_op) = ("def main(x: i64): i64 {" ++ nl ++ "    if x == -0 + 1 { 1 } else { 2 }" ++ nl ++ "}")%string /\
  parse_text (render 80 (d_prog wit_cfg wit_minus_zero)) = Some wit_minus_zero /\
  parse_text (render 80 (d_prog wit_cfg wit_unparsable)) = Some wit_unparsable /\
  parse_text (render 80 (d_prog wit_cfg wit_flip)) = Some wit_flip /\
  parse_text (render 80 (d_prog wit_cfg wit_comment)) = Some wit_comment /\
  parse_text (render 80 (d_prog wit_cfg wit_snd_op)) = Some wit_snd_op.
Proof. repeat split; vm_compute; reflexivity. Qed.

(* ---------- the former guard and the closed form of the repaired defect class agree ---------- *)
Lemma omap_id {X} (f : X -> option X) l : (forall x, In x l -> f x = Some x) -> omap f l = Some l.
Proof.
  induction l as [|x l IH]; intros H; [reflexivity|]. cbn [omap].
  rewrite H by (now left). cbn [obind]. rewrite IH by (intros; apply H; now right). reflexivity.
Qed.
Lemma omap_t_id (f : fterm -> option fterm) l : (forall x, In x l -> f x = Some x) -> omap_t f l = Some l.
Proof.
  induction l as [|x l IH]; intros H; [reflexivity|]. cbn [omap_t].
  rewrite H by (now left). cbn [obind]. fold (omap_t f l). rewrite IH by (intros; apply H; now right). reflexivity.
Qed.
Lemma zsafe_renorm_t : forall m t, tsz t <= m -> zsafe t = true -> old_renorm_t t = Some t.
Proof.
  induction m as [|m IH]; intros t Hm Hz. { pose proof (tsz_pos t). lia. }
  assert (IHargs : forall args, list_sum (map tsz args) <= m -> forallb zsafe args = true ->
                               omap_t old_renorm_t args = Some args).
  { intros args Hs Hzs. apply omap_t_id. intros a Hin. rewrite forallb_forall in Hzs.
    apply IH; [|now apply Hzs]. pose proof (in_list_sum tsz a args Hin). lia. }
  assert (IHcls : forall cls, list_sum (map csz cls) <= m -> forallb zsafe_clause cls = true ->
     (fix go (l : list fclause) : option (list fclause) :=
        match l with
        | [] => Some []
        | FClause p x ns g body :: r => do b' <- old_renorm_t body; do r' <- go r; Some (FClause p x ns g b' :: r')
        end) cls = Some cls).
  { induction cls as [|[p x ns g body] cls IHc]; intros Hs Hzs; [reflexivity|].
    cbn [forallb zsafe_clause] in Hzs. apply andb_prop in Hzs. destruct Hzs as [Hb Hr].
    cbn [map] in Hs. rewrite list_sum_cons, csz_clause in Hs.
    rewrite IH by (auto; lia). cbn [obind]. rewrite IHc by (auto; lia). reflexivity. }
  destruct t as [v ty chi | z | a o b | s a b th el ty | nl a next ty | v vty bound body ty | f args ret
                 | x args ty | scrut x targs args ty | scrut targs cls ty | cls ty | l u ty | l u ty | a ty | u];
    cbn [zsafe] in Hz; try reflexivity.
  - apply andb_prop in Hz. destruct Hz as [Ha Hb]. rewrite tsz_op in Hm. cbn [old_renorm_t].
    rewrite !IH by (auto; lia). reflexivity.
  - rewrite !andb_true_iff in Hz. destruct Hz as ((((Hza & Hea) & Hzb) & Hzth) & Hzel).
    apply negb_true_iff in Hea. rewrite tsz_if in Hm. cbn [old_renorm_t].
    rewrite (IH a), (IH th), (IH el) by (auto; lia). cbn [obind].
    assert (is_lit0 a = false) as Hl by (destruct a as [| [] | | | | | | | | | | | | |]; try reflexivity; discriminate).
    rewrite Hl, Hea. destruct b as [b|]; [|reflexivity].
    apply andb_prop in Hzb. destruct Hzb as [Hzb Hsb]. apply negb_true_iff in Hsb.
    rewrite (IH b) by (auto; lia). cbn [obind].
    assert (is_lit0 b = false) as Hlb by (destruct b as [| [] | | | | | | | | | | | | |]; try reflexivity; discriminate).
    rewrite Hlb, Hsb. reflexivity.
  - apply andb_prop in Hz. destruct Hz as [Ha Hb]. rewrite tsz_print in Hm. cbn [old_renorm_t].
    rewrite !IH by (auto; lia). reflexivity.
  - apply andb_prop in Hz. destruct Hz as [Ha Hb]. rewrite tsz_let in Hm. cbn [old_renorm_t].
    rewrite !IH by (auto; lia). reflexivity.
  - rewrite tsz_call in Hm. cbn [old_renorm_t]. rewrite IHargs by (auto; lia). reflexivity.
  - rewrite tsz_ctor in Hm. cbn [old_renorm_t]. rewrite IHargs by (auto; lia). reflexivity.
  - apply andb_prop in Hz. destruct Hz as [Ha Hb]. rewrite tsz_dtor in Hm. cbn [old_renorm_t].
    rewrite IH by (auto; lia). cbn [obind]. rewrite IHargs by (auto; lia). reflexivity.
  - apply andb_prop in Hz. destruct Hz as [Ha Hb]. rewrite tsz_case in Hm. cbn [old_renorm_t].
    rewrite IH by (auto; lia). cbn [obind]. rewrite IHcls by (auto; lia). reflexivity.
  - rewrite tsz_new in Hm. cbn [old_renorm_t]. rewrite IHcls by (auto; lia). reflexivity.
  - rewrite tsz_label in Hm. cbn [old_renorm_t]. rewrite IH by (auto; lia). reflexivity.
  - rewrite tsz_goto in Hm. cbn [old_renorm_t]. rewrite IH by (auto; lia). reflexivity.
  - rewrite tsz_exit in Hm. cbn [old_renorm_t]. rewrite IH by (auto; lia). reflexivity.
  - rewrite tsz_paren in Hm. cbn [old_renorm_t]. rewrite IH by (auto; lia). reflexivity.
Qed.
Lemma zsafe_renorm p : zsafe_prog p = true -> old_renorm p = Some p.
Proof.
  intros Hz. destruct p as [ds]. unfold zsafe_prog, old_renorm in *. cbn [fpdecls] in *.
  rewrite forallb_forall in Hz. rewrite omap_id; [reflexivity|].
  intros d Hd. specialize (Hz d Hd). destruct d as [d|d|d]; try reflexivity.
  unfold old_renorm_decl. cbn [zsafe_decl] in Hz. rewrite (zsafe_renorm_t (tsz (fdbody d))) by auto.
  destruct d; reflexivity.
Qed.

(* ---------- layout independence and the round trip on text ---------- *)
(* every printed document separates sticky atoms by blanks and consists of lexable words .. *)
Lemma print_is_safe c p : wf_prog p = true -> safe_doc (d_prog c p) = true /\ words_ok (d_prog c p) = true.
Proof. intros H. split; [now apply safe_print | now apply words_ok_print]. Qed.
(* .. hence every layout of it - any width, any indentation, any choice at each line / line_ - has the
   token stream [tokens (d_prog c p)] *)
Lemma layout_independent c p s :
  wf_prog p = true -> renders (d_prog c p) s -> lex_string s = Some (tokens (d_prog c p)).
Proof. intros Hwf Hr. destruct (print_is_safe c p Hwf). now apply render_any_layout_tokens. Qed.
(* and parses back to p *)
Lemma roundtrip_text c p s :
  wf_prog p = true -> renders (d_prog c p) s -> parse_text s = Some p.
Proof.
  intros Hwf Hr. unfold parse_text. rewrite (layout_independent c p s Hwf Hr). cbn [obind].
  now apply roundtrip.
Qed.
(* formatting again (any layout, any configuration c2) gives the document of p again *)
Lemma idempotent_text c c2 p s :
  wf_prog p = true -> renders (d_prog c p) s ->
  option_map (d_prog c2) (parse_text s) = Some (d_prog c2 p).
Proof. intros Hwf Hr. now rewrite (roundtrip_text c p s). Qed.

(* ---------- the layout algorithm of the `pretty` crate (Model/Pretty.v) is one of these layouts ---------- *)
Lemma roundtrip_pretty c p :
  wf_prog p = true -> parse_text (render (pwidth c) (d_prog c p)) = Some p.
Proof. intros Hwf. apply (roundtrip_text c); auto. apply render_renders. Qed.
Lemma idempotent_pretty c p :
  wf_prog p = true ->
  option_map (fun q => render (pwidth c) (d_prog c q)) (parse_text (render (pwidth c) (d_prog c p)))
  = Some (render (pwidth c) (d_prog c p)).
Proof. intros Hwf. now rewrite roundtrip_pretty. Qed.

(* ---------- the repair is conservative ---------- *)
(* Outside the repaired class (zsafe: no `if` has a literal 0 next to its operator) the repaired
   printer builds the very same document as the old one - hence the same text at every width. *)
Lemma same_doc_t c : forall m t, tsz t <= m -> zsafe t = true -> d_term c t = old_d_term c t.
Proof.
  induction m as [|m IH]; intros t Hm Hz. { pose proof (tsz_pos t). lia. }
  assert (IHargs : forall args, list_sum (map tsz args) <= m -> forallb zsafe args = true ->
                               map (d_term c) args = map (old_d_term c) args).
  { intros args Hs Hzs. apply map_ext_in. intros a Hin. rewrite forallb_forall in Hzs.
    apply IH; [|now apply Hzs]. pose proof (in_list_sum tsz a args Hin). lia. }
  assert (IHcls : forall cls, list_sum (map csz cls) <= m -> forallb zsafe_clause cls = true ->
                              map (d_clause c) cls = map (old_d_clause c) cls).
  { intros cls Hs Hzs. apply map_ext_in. intros [p x ns g body] Hin. rewrite forallb_forall in Hzs.
    specialize (Hzs _ Hin). cbn [zsafe_clause] in Hzs.
    pose proof (in_list_sum csz _ cls Hin) as Hc. rewrite csz_clause in Hc.
    cbn [d_clause old_d_clause]. rewrite IH by (auto; lia). reflexivity. }
  destruct t as [v ty chi | z | a o b | s a b th el ty | nl a next ty | v vty bound body ty | f args ret
                 | x args ty | scrut x targs args ty | scrut targs cls ty | cls ty | l u ty | l u ty | a ty | u];
    cbn [zsafe] in Hz; try reflexivity.
  - apply andb_prop in Hz. destruct Hz as [Ha Hb]. rewrite tsz_op in Hm. cbn [d_term old_d_term].
    rewrite (IH a), (IH b) by (auto; lia). reflexivity.
  - rewrite !andb_true_iff in Hz. destruct Hz as ((((Hza & Hea) & Hzb) & Hzth) & Hzel).
    apply negb_true_iff in Hea. rewrite tsz_if in Hm. cbn [d_term old_d_term]. rewrite Hea.
    rewrite (IH a), (IH th), (IH el) by (auto; lia).
    destruct b as [b|]; [|reflexivity].
    apply andb_prop in Hzb. destruct Hzb as [Hzb Hsb]. apply negb_true_iff in Hsb. rewrite Hsb.
    rewrite (IH b) by (auto; lia). reflexivity.
  - apply andb_prop in Hz. destruct Hz as [Ha Hb]. rewrite tsz_print in Hm. cbn [d_term old_d_term].
    rewrite (IH a), (IH next) by (auto; lia). reflexivity.
  - apply andb_prop in Hz. destruct Hz as [Ha Hb]. rewrite tsz_let in Hm. cbn [d_term old_d_term].
    rewrite (IH bound), (IH body) by (auto; lia). reflexivity.
  - rewrite tsz_call in Hm. cbn [d_term old_d_term]. rewrite IHargs by (auto; lia). reflexivity.
  - rewrite tsz_ctor in Hm. cbn [d_term old_d_term]. rewrite IHargs by (auto; lia). reflexivity.
  - apply andb_prop in Hz. destruct Hz as [Ha Hb]. rewrite tsz_dtor in Hm. cbn [d_term old_d_term].
    rewrite (IH scrut), IHargs by (auto; lia). reflexivity.
  - apply andb_prop in Hz. destruct Hz as [Ha Hb]. rewrite tsz_case in Hm. cbn [d_term old_d_term].
    rewrite (IH scrut), IHcls by (auto; lia). reflexivity.
  - rewrite tsz_new in Hm. cbn [d_term old_d_term]. rewrite IHcls by (auto; lia). reflexivity.
  - rewrite tsz_label in Hm. cbn [d_term old_d_term]. rewrite IH by (auto; lia). reflexivity.
  - rewrite tsz_goto in Hm. cbn [d_term old_d_term]. rewrite IH by (auto; lia). reflexivity.
  - rewrite tsz_exit in Hm. cbn [d_term old_d_term]. rewrite IH by (auto; lia). reflexivity.
  - rewrite tsz_paren in Hm. cbn [d_term old_d_term]. rewrite IH by (auto; lia). reflexivity.
Qed.
Lemma repair_conservative c p : zsafe_prog p = true -> d_prog c p = old_d_prog c p.
Proof.
  intros Hz. destruct p as [ds]. unfold zsafe_prog, d_prog, old_d_prog in *. cbn [fpdecls] in *.
  rewrite forallb_forall in Hz. f_equal. apply map_ext_in. intros d Hd. specialize (Hz d Hd).
  destruct d as [d|d|d]; try reflexivity. cbn [zsafe_decl] in Hz. cbn [d_decl old_d_decl]. unfold d_def, old_d_def.
  now rewrite (same_doc_t c (tsz (fdbody d))).
Qed.
(* so what was proved of the old printer under the guard still stands *)
Lemma old_roundtrip_guarded c p :
  wf_prog p = true -> zsafe_prog p = true -> parse (tokens (old_d_prog c p)) = Some p.
Proof. intros Hwf Hz. rewrite <- repair_conservative by assumption. now apply roundtrip. Qed.
(* the class is not empty and not everything: a program outside it, with every kind of comparison *)
Example zsafe_example :
  exists p, parse_text "def main(x: i64): i64 { if x == 0 { if 0 < x { 1 } else { x - 0 } } else { if x <= 10 { -0 } else { 0 } } }" = Some p /\
            wf_prog p = true /\ zsafe_prog p = true.
Proof. eexists. split; [vm_compute; reflexivity|]. split; vm_compute; reflexivity. Qed.
