(* C16: the theorems about the formatter round trip, assembled.
   Models: Model/Printer.v (documents, tokens), Model/Parser.v (lexer, parser), Model/FmtClass.v
   (defect class).  Proof parts: FmtRound.v (parser reads back the token stream), FmtGlue.v (token
   stream of the printed document), FmtSafe.v (separators), FmtLex.v (lexer over all layouts). *)
From Coq Require Import List ZArith NArith String Ascii Bool Lia.
From SCC Require Import Base.Sexp Lang.SynUtil Lang.FunSyn Model.Printer Model.Parser Model.FmtClass
  Proof.FmtDefs Proof.FmtRound Proof.FmtGlue Proof.FmtSafe Proof.FmtLex Proof.FmtPretty.
From SCC Require Import Model.Pretty.
Import ListNotations.
Local Open Scope string_scope.

(* ---------- round trip on tokens ---------- *)
Lemma roundtrip_guarded c p :
  wf_prog p = true -> zsafe_prog p = true -> parse (tokens (d_prog c p)) = Some p.
Proof. intros Hwf Hz. rewrite tokens_print by assumption. now apply roundtrip_tokens. Qed.

(* the statement without the guard is false: `if 1 == -0 { 1 } else { 2 }` *)
Definition wit_cfg : pcfg := mkpcfg 80 true false 4.
Definition wit_minus_zero : fprog :=
  mkfprog [FDDef (mkfdef "main" [] FI64 (FIfC FEq (FLit 1) (Some (FLit 0)) (FLit 1) (FLit 2) None))].
Definition wit_minus_zero_after : fprog :=
  mkfprog [FDDef (mkfdef "main" [] FI64 (FIfC FEq (FLit 1) None (FLit 1) (FLit 2) None))].
Lemma wit_minus_zero_parses :     (* it is what the parser makes of the source text *)
  parse_text "def main(): i64 { if 1 == -0 { 1 } else { 2 } }" = Some wit_minus_zero.
Proof. vm_compute. reflexivity. Qed.
Lemma wit_minus_zero_changes :
  wf_prog wit_minus_zero = true /\
  parse (tokens (d_prog wit_cfg wit_minus_zero)) = Some wit_minus_zero_after.
Proof. split; vm_compute; reflexivity. Qed.
Lemma roundtrip_refuted :
  ~ (forall c p, wf_prog p = true -> parse (tokens (d_prog c p)) = Some p).
Proof.
  intros H. specialize (H wit_cfg wit_minus_zero (proj1 wit_minus_zero_changes)).
  rewrite (proj2 wit_minus_zero_changes) in H. discriminate.
Qed.

(* worse: the printed text of a parseable program may not parse at all: `if 0 == x + -0 {1} else {2}` *)
Definition wit_unparsable : fprog :=
  mkfprog [FDDef (mkfdef "main" [mkfb "x" FPrd FI64] FI64
     (FIfC FEq (FOp (FVar "x" None None) FSum (FLit 0)) None (FLit 1) (FLit 2) None))].
Lemma wit_unparsable_parses :
  parse_text "def main(x: i64): i64 { if 0 == x + -0 { 1 } else { 2 } }" = Some wit_unparsable.
Proof. vm_compute. reflexivity. Qed.
Lemma unparsable_output :
  exists c p, wf_prog p = true /\ parse (tokens (d_prog c p)) = None.
Proof. exists wit_cfg, wit_unparsable. split; vm_compute; reflexivity. Qed.

(* ---------- idempotence ---------- *)
Lemma idempotent_guarded c p :
  wf_prog p = true -> zsafe_prog p = true ->
  option_map (d_prog c) (parse (tokens (d_prog c p))) = Some (d_prog c p).
Proof. intros Hwf Hz. now rewrite roundtrip_guarded. Qed.
(* `if 0 > -0 {1} else {2}`: prints `if 0 < 0`, reparses as Greater, prints `if 0 > 0` *)
Definition wit_flip : fprog :=
  mkfprog [FDDef (mkfdef "main" [] FI64 (FIfC FLt (FLit 0) None (FLit 1) (FLit 2) None))].
Lemma wit_flip_parses : parse_text "def main(): i64 { if 0 > -0 { 1 } else { 2 } }" = Some wit_flip.
Proof. vm_compute. reflexivity. Qed.
Lemma idempotent_refuted :
  ~ (forall c p q, wf_prog p = true -> parse (tokens (d_prog c p)) = Some q ->
                   tokens (d_prog c q) = tokens (d_prog c p)).
Proof.
  intros H.
  specialize (H wit_cfg wit_flip
                (mkfprog [FDDef (mkfdef "main" [] FI64 (FIfC FGt (FLit 0) None (FLit 1) (FLit 2) None))])).
  assert (E1 : wf_prog wit_flip = true) by (vm_compute; reflexivity).
  specialize (H E1). vm_compute in H. specialize (H eq_refl). discriminate.
Qed.

(* ---------- the guard and the closed form of the defect class agree ---------- *)
Lemma omap_id {X} (f : X -> option X) l : (forall x, In x l -> f x = Some x) -> omap f l = Some l.
Proof.
  induction l as [|x l IH]; intros H; [reflexivity|]. cbn [omap].
  rewrite H by (now left). cbn [obind]. rewrite IH by (intros; apply H; now right). reflexivity.
Qed.
Lemma omap_t_id (f : fterm -> option fterm) l : (forall x, In x l -> f x = Some x) -> omap_t f l = Some l.
Proof.
  induction l as [|x l IH]; intros H; [reflexivity|]. cbn [omap_t].
  rewrite H by (now left). cbn [obind]. fold (omap_t f l). rewrite IH by (intros; apply H; now right). reflexivity.
Qed.
Lemma zsafe_renorm_t : forall m t, tsz t <= m -> zsafe t = true -> renorm_t t = Some t.
Proof.
  induction m as [|m IH]; intros t Hm Hz. { pose proof (tsz_pos t). lia. }
  assert (IHargs : forall args, list_sum (map tsz args) <= m -> forallb zsafe args = true ->
                               omap_t renorm_t args = Some args).
  { intros args Hs Hzs. apply omap_t_id. intros a Hin. rewrite forallb_forall in Hzs.
    apply IH; [|now apply Hzs]. pose proof (in_list_sum tsz a args Hin). lia. }
  assert (IHcls : forall cls, list_sum (map csz cls) <= m -> forallb zsafe_clause cls = true ->
     (fix go (l : list fclause) : option (list fclause) :=
        match l with
        | [] => Some []
        | FClause p x ns g body :: r => do b' <- renorm_t body; do r' <- go r; Some (FClause p x ns g b' :: r')
        end) cls = Some cls).
  { induction cls as [|[p x ns g body] cls IHc]; intros Hs Hzs; [reflexivity|].
    cbn [forallb zsafe_clause] in Hzs. apply andb_prop in Hzs. destruct Hzs as [Hb Hr].
    cbn [map] in Hs. rewrite list_sum_cons, csz_clause in Hs.
    rewrite IH by (auto; lia). cbn [obind]. rewrite IHc by (auto; lia). reflexivity. }
  destruct t as [v ty chi | z | a o b | s a b th el ty | nl a next ty | v vty bound body ty | f args ret
                 | x args ty | scrut x targs args ty | scrut targs cls ty | cls ty | l u ty | l u ty | a ty | u];
    cbn [zsafe] in Hz; try reflexivity.
  - apply andb_prop in Hz. destruct Hz as [Ha Hb]. rewrite tsz_op in Hm. cbn [renorm_t].
    rewrite !IH by (auto; lia). reflexivity.
  - rewrite !andb_true_iff in Hz. destruct Hz as ((((Hza & Hea) & Hzb) & Hzth) & Hzel).
    apply negb_true_iff in Hea. rewrite tsz_if in Hm. cbn [renorm_t].
    rewrite (IH a), (IH th), (IH el) by (auto; lia). cbn [obind].
    assert (is_lit0 a = false) as Hl by (destruct a as [| [] | | | | | | | | | | | | |]; try reflexivity; discriminate).
    rewrite Hl, Hea. destruct b as [b|]; [|reflexivity].
    apply andb_prop in Hzb. destruct Hzb as [Hzb Hsb]. apply negb_true_iff in Hsb.
    rewrite (IH b) by (auto; lia). cbn [obind].
    assert (is_lit0 b = false) as Hlb by (destruct b as [| [] | | | | | | | | | | | | |]; try reflexivity; discriminate).
    rewrite Hlb, Hsb. reflexivity.
  - apply andb_prop in Hz. destruct Hz as [Ha Hb]. rewrite tsz_print in Hm. cbn [renorm_t].
    rewrite !IH by (auto; lia). reflexivity.
  - apply andb_prop in Hz. destruct Hz as [Ha Hb]. rewrite tsz_let in Hm. cbn [renorm_t].
    rewrite !IH by (auto; lia). reflexivity.
  - rewrite tsz_call in Hm. cbn [renorm_t]. rewrite IHargs by (auto; lia). reflexivity.
  - rewrite tsz_ctor in Hm. cbn [renorm_t]. rewrite IHargs by (auto; lia). reflexivity.
  - apply andb_prop in Hz. destruct Hz as [Ha Hb]. rewrite tsz_dtor in Hm. cbn [renorm_t].
    rewrite IH by (auto; lia). cbn [obind]. rewrite IHargs by (auto; lia). reflexivity.
  - apply andb_prop in Hz. destruct Hz as [Ha Hb]. rewrite tsz_case in Hm. cbn [renorm_t].
    rewrite IH by (auto; lia). cbn [obind]. rewrite IHcls by (auto; lia). reflexivity.
  - rewrite tsz_new in Hm. cbn [renorm_t]. rewrite IHcls by (auto; lia). reflexivity.
  - rewrite tsz_label in Hm. cbn [renorm_t]. rewrite IH by (auto; lia). reflexivity.
  - rewrite tsz_goto in Hm. cbn [renorm_t]. rewrite IH by (auto; lia). reflexivity.
  - rewrite tsz_exit in Hm. cbn [renorm_t]. rewrite IH by (auto; lia). reflexivity.
  - rewrite tsz_paren in Hm. cbn [renorm_t]. rewrite IH by (auto; lia). reflexivity.
Qed.
Lemma zsafe_renorm p : zsafe_prog p = true -> renorm p = Some p.
Proof.
  intros Hz. destruct p as [ds]. unfold zsafe_prog, renorm in *. cbn [fpdecls] in *.
  rewrite forallb_forall in Hz. rewrite omap_id; [reflexivity|].
  intros d Hd. specialize (Hz d Hd). destruct d as [d|d|d]; try reflexivity.
  unfold renorm_decl. cbn [zsafe_decl] in Hz. rewrite (zsafe_renorm_t (tsz (fdbody d))) by auto.
  destruct d; reflexivity.
Qed.

(* ---------- layout independence and the round trip on text ---------- *)
(* every printed document separates sticky atoms by blanks and consists of lexable words .. *)
Lemma print_is_safe c p : wf_prog p = true -> safe_doc (d_prog c p) = true /\ words_ok (d_prog c p) = true.
Proof. intros H. split; [now apply safe_print | now apply words_ok_print]. Qed.
(* .. hence every layout of it - any width, any indentation, any choice at each line / line_ - has the
   token stream [tokens (d_prog c p)] *)
Lemma layout_independent c p s :
  wf_prog p = true -> renders (d_prog c p) s -> lex_string s = Some (tokens (d_prog c p)).
Proof. intros Hwf Hr. destruct (print_is_safe c p Hwf). now apply render_any_layout_tokens. Qed.
(* and, outside the defect class, parses back to p *)
Lemma roundtrip_text_guarded c p s :
  wf_prog p = true -> zsafe_prog p = true -> renders (d_prog c p) s -> parse_text s = Some p.
Proof.
  intros Hwf Hz Hr. unfold parse_text. rewrite (layout_independent c p s Hwf Hr). cbn [obind].
  now apply roundtrip_guarded.
Qed.
(* formatting again (any layout, any configuration c2) gives the document of p again *)
Lemma idempotent_text_guarded c c2 p s :
  wf_prog p = true -> zsafe_prog p = true -> renders (d_prog c p) s ->
  option_map (d_prog c2) (parse_text s) = Some (d_prog c2 p).
Proof. intros Hwf Hz Hr. now rewrite (roundtrip_text_guarded c p s). Qed.

(* ---------- the layout algorithm of the `pretty` crate (Model/Pretty.v) is one of these layouts ---------- *)
Lemma roundtrip_pretty_guarded c p :
  wf_prog p = true -> zsafe_prog p = true -> parse_text (render (pwidth c) (d_prog c p)) = Some p.
Proof. intros Hwf Hz. apply (roundtrip_text_guarded c); auto. apply render_renders. Qed.
Lemma idempotent_pretty_guarded c p :
  wf_prog p = true -> zsafe_prog p = true ->
  option_map (fun q => render (pwidth c) (d_prog c q)) (parse_text (render (pwidth c) (d_prog c p)))
  = Some (render (pwidth c) (d_prog c p)).
Proof. intros Hwf Hz. now rewrite roundtrip_pretty_guarded. Qed.
