(* Proof/ShrinkBindersOk.v (C12, fragment 2) - LinCheck's binder condition on the output of shrinking:
   when the binders of every definition of the input are GLOBALLY distinct (and distinct from its
   parameters) and all ids are bounded by max_id, the parameters and binders of every definition of the
   output are pairwise distinct and bounded by the output's max_id. *)
From Coq Require Import List ZArith NArith String Bool Lia.
From SCC Require Import Base.Sexp Lang.SynUtil Lang.CoreSyn Lang.AxSyn Sem.FsCheck Model.Shrink Model.LinCheck Model.WtDefs
     Proof.LinBasics Proof.ShrinkProof Proof.ShrinkRn Proof.ShrinkSimBase Proof.ShrinkSimProg Proof.ShrinkOld Proof.ShrinkTyF.
Import ListNotations.
Open Scope list_scope.
Local Open Scope nat_scope.

(* gub (Sem/FsFrag2.v) is stated with its own copy of the binder list *)
Lemma fs_binders_eq_all :
  (forall t, fs_binders_term t = cbinders_term t) /\
  (forall c, cids (clause_ctx c) ++ fs_binders (clause_body c) = cids (clause_ctx c) ++ cbinders (clause_body c)) /\
  (forall s, fs_binders s = cbinders s).
Proof.
  apply fs_mutind; intros; try reflexivity; try (simpl; rewrite ?H, ?H0; reflexivity).
Qed.
Lemma fs_binders_eq : forall s, fs_binders s = cbinders s.
Proof. apply fs_binders_eq_all. Qed.

Lemma lin_binders_eq : forall s, pre_linear s = true -> LinCheck.binders s = ShrinkProof.binders s.
Proof.
  apply (stmt_ind' (fun s => pre_linear s = true -> LinCheck.binders s = ShrinkProof.binders s)); intros; try reflexivity; try discriminate.
  - simpl in *. now rewrite H.
  - rewrite pre_linear_switch in H0. rewrite binders_switch. simpl. unfold cls_binders.
    induction H as [|[[x c] b] r Hb _ IH]; [reflexivity|]. simpl in *. apply andb_prop in H0 as [H1 H2]. now rewrite (Hb H1), (IH H2), app_assoc.
  - destruct env as [ce|]; [discriminate|]. rewrite pre_linear_create in H1. apply andb_prop in H1 as [H1 H2].
    rewrite binders_create. simpl. rewrite (H0 H2). f_equal. f_equal. unfold cls_binders.
    clear H0 H2. induction H as [|[[x c] b] r Hb _ IH]; [reflexivity|]. simpl in *. apply andb_prop in H1 as [H1 H2]. now rewrite (Hb H1), (IH H2), app_assoc.
  - simpl in *. now rewrite H.
  - simpl in *. now rewrite H.
  - simpl in *. now apply H.
  - simpl in *. apply andb_prop in H1 as [H1 H2]. now rewrite (H H1), (H0 H2).
Qed.

Lemma actx_le_ids : forall m c i, actx_le m c = true -> In i (ids c) -> (i <= m)%N.
Proof.
  intros m c i H Hi. unfold actx_le in H. rewrite forallb_forall in H. unfold ids in Hi. apply in_map_iff in Hi as (b & <- & Hb).
  apply N.leb_le. now apply H.
Qed.
Lemma ax_le_binders : forall m s, ax_le m s = true -> forall i, In i (ShrinkProof.binders s) -> (i <= m)%N.
Proof.
  intros m. apply (stmt_ind' (fun s => ax_le m s = true -> forall i, In i (ShrinkProof.binders s) -> (i <= m)%N)); intros; try (simpl in *; contradiction).
  - simpl in *. apply andb_prop in H0 as [_ H0]. eauto.
  - simpl in *. apply andb_prop in H0 as [H0 H2]. apply andb_prop in H0 as [H0 _]. destruct H1 as [<-|H1]; [now apply N.leb_le | eauto].
  - rewrite ax_le_switch in H0. rewrite binders_switch in H1. apply andb_prop in H0 as [_ H0]. unfold cls_le in H0. unfold cls_binders in H1.
    apply in_flat_map in H1 as (c & Hc & Hi). rewrite forallb_forall in H0. pose proof (H0 c Hc) as Hc'. apply andb_prop in Hc' as [A Bc].
    apply in_app_or in Hi as [Hi|Hi]; [eapply actx_le_ids; eauto|]. rewrite Forall_forall in H. eapply H; eauto.
  - rewrite ax_le_create in H1. rewrite binders_create in H2. apply andb_prop in H1 as [H1 Hn]. apply andb_prop in H1 as [H1 Hc]. apply andb_prop in H1 as [Hv _].
    destruct H2 as [<-|H2]; [now apply N.leb_le|]. apply in_app_or in H2 as [H2|H2]; [|eauto].
    unfold cls_le in Hc. unfold cls_binders in H2. apply in_flat_map in H2 as (c & Hcin & Hi). rewrite forallb_forall in Hc.
    pose proof (Hc c Hcin) as Hc'. apply andb_prop in Hc' as [A Bc].
    apply in_app_or in Hi as [Hi|Hi]; [eapply actx_le_ids; eauto|]. rewrite Forall_forall in H. eapply H; eauto.
  - simpl in *. apply andb_prop in H0 as [Hv H0]. destruct H1 as [<-|H1]; [now apply N.leb_le | eauto].
  - simpl in *. apply andb_prop in H0 as [H0 Hn]. apply andb_prop in H0 as [_ Hv]. destruct H1 as [<-|H1]; [now apply N.leb_le | eauto].
  - simpl in *. apply andb_prop in H0 as [_ H0]. eauto.
  - simpl in *. apply andb_prop in H1 as [H1 He]. apply andb_prop in H1 as [_ Ht]. apply in_app_or in H2 as [H2|H2]; eauto.
Qed.

Lemma cnt_def_in : forall l d x, In d l -> cnt (def_binders d) x <= cnt (lifted_binders l) x.
Proof.
  induction l as [|d0 r IH]; intros d x Hin; [contradiction|]. unfold lifted_binders. cbn [flat_map]. rewrite cnt_app.
  destruct Hin as [->|Hin]; [lia|]. specialize (IH d x Hin). unfold lifted_binders in IH. lia.
Qed.
Lemma NoDup_cnt : forall l : list N, (forall x, cnt l x <= 1) -> NoDup l.
Proof. intros l H. apply (NoDup_count_occ N.eq_dec). exact H. Qed.
Lemma cnt_NoDup : forall l : list N, NoDup l -> forall x, cnt l x <= 1.
Proof. intros l H. apply (NoDup_count_occ N.eq_dec). exact H. Qed.

Section BOk.
Variable p : fsprog.
Notation data := (fspdata p).
Notation codata := (fspcodata p).
Notation defs := (fspdefs p).
Notation m0 := (fspmax p).
Notation D := (data ++ [cont_int]).

Lemma defs_rel_old : forall ds used m rest, defs_rel D codata ds used m rest -> (m0 <= m)%N ->
  (forall d, In d ds -> NoDup (cids (fsdctx d) ++ cbinders (fsdbody d))) ->
  forall x, In x rest -> forall i, (i <= m0)%N -> cnt (ids (dctx x) ++ ShrinkProof.binders (dbody x)) i <= 1.
Proof.
  intros ds used m rest H. induction H as [used m|d r used m t st' rest Hsh Hr IH]; intros Hm Hg x Hx i Hi; [contradiction|].
  destruct (shrink_stmt_old m0 _ _ _ _ _ _ Hsh Hm) as [Hm1 (nd & Hl & Hc)]. cbn [s_lifted] in Hl. rewrite app_nil_r in Hl. subst nd.
  pose proof (cnt_NoDup _ (Hg d (or_introl eq_refl)) i) as Hgd. rewrite cnt_app in Hgd. specialize (Hc i Hi). rewrite cnt_app in Hc.
  destruct Hx as [<-|Hx].
  - cbn [dctx dbody]. rewrite ids_shrink_context, cnt_app. lia.
  - apply in_app_or in Hx as [Hx|Hx].
    + pose proof (cnt_def_in _ _ i Hx) as Hd. unfold def_binders in Hd. rewrite cnt_cons in Hd. lia.
    + apply (IH ltac:(cbn [s_max] in Hm1; lia) (fun d0 H0 => Hg d0 (or_intror H0)) x Hx i Hi).
Qed.

Theorem shrink_binders_ok : forall q,
  gub p = true -> ids_bounded p = true -> shrink_prog p = SOk q -> pre_linear_prog q = true -> binders_ok q = true.
Proof.
  intros q Hgub Hib Hsh Hpl.
  destruct (shrink_ids_bounded p q Hib Hsh) as [Hmq Hle].
  pose proof Hsh as Hsh0.
  unfold shrink_prog in Hsh. destruct (_ || _); [discriminate|].
  destruct (shrink_defs defs D codata (map fsdname defs) m0 []) as [[defs' mx]|] eqn:Esd; [|discriminate]. cbn [sbind] in Hsh.
  pose proof Esd as Esd'. eapply (shrink_defs_fr m0) in Esd' as [Hmm Hfc]; [| lia | exact Hib | apply fresh_cnt_nil].
  apply shrink_defs_rel in Esd as (rest & Eout & Hrel). cbn [frev rev_append app] in Eout. subst defs'.
  injection Hsh as <-. cbn [pdefs pmax] in *.
  unfold binders_ok. cbn [pdefs pmax]. apply forallb_forall. intros x Hx.
  unfold pre_linear_prog in Hpl. cbn [pdefs] in Hpl. rewrite forallb_forall in Hpl. rewrite (lin_binders_eq _ (Hpl x Hx)).
  apply andb_true_intro. split.
  - apply nodupb_NoDup. apply NoDup_cnt. intros i. destruct (N.leb i m0) eqn:Ei.
    + apply N.leb_le in Ei. eapply (defs_rel_old _ _ _ _ Hrel (N.le_refl _)); eauto.
      intros d Hd. unfold gub in Hgub. rewrite forallb_forall in Hgub. apply nodupb_NoDup. rewrite <- fs_binders_eq. now apply Hgub.
    + apply N.leb_gt in Ei. destruct (Hfc i Ei) as [Hc1 _]. pose proof (cnt_def_in _ _ i Hx) as Hd. unfold def_binders in Hd. rewrite cnt_cons in Hd. lia.
  - apply forallb_forall. intros i Hi. apply N.leb_le. rewrite forallb_forall in Hle. pose proof (Hle x Hx) as Hd. unfold def_le in Hd. apply andb_prop in Hd as [Hd1 Hd2].
    apply in_app_or in Hi as [Hi|Hi]; [eapply actx_le_ids; eauto | eapply ax_le_binders; eauto].
Qed.
End BOk.
