(* C01: the composition of Proof/Compose.v with the focusing link DISCHARGED by the C03 preservation
   theorem (Proof/UqCompose.v) for Core programs that are chirality-consistently scoped ([cs_prog]) and
   satisfy [static_ok] (Model/FocusGuard.v): simply typed ([tc_prog], Proof/FocusTyped.v), or inside one
   of the syntactic guards [sg_prog] (no by-name value / no by-value return continuation,
   Proof/FocusFrag.v). *)
From Coq Require Import List ZArith NArith String Ascii Bool Lia.
From SCC Require Import Base.Sexp Lang.AxSyn Lang.FunSyn Lang.CoreSyn Sem.AxSem Sem.CoreSem Sem.FunSem Sem.X86Sem
     Model.Backend Model.Fun2Core Model.Focus Model.FocusCheck Model.Shrink Model.Linearize Model.LinCheck Model.X86 Model.Runtime
     Proof.RuntimeProof Proof.LinSim Proof.Compose Proof.FocusRun Proof.FocusFrag Proof.UqAeq Proof.UqCompose.
From SCC Require Import Model.FocusGuard.
Import ListNotations.
Open Scope Z_scope.

Section Pipeline.
Hypothesis fun2core_correct :
  forall (p : fcprog) (c : cprog) (args : list Z) (n : nat) (o : obs),
    annotated_fcprog p = true -> effect_sequenced p = true -> barendregt p = true ->
    compile_prog p = Fun2Core.Ok c -> run_fun n p args = o -> defined o = true ->
    exists m, run_core m c args = o.
Hypothesis shrink_correct :
  forall (p : fsprog) (q : prog) (n : nat) (args : list Z) (o : obs),
    shrink_prog p = SOk q -> run_fs n p args = o ->
    ((exists z, snd o = OExit z) \/ (exists w, snd o = OUndef w)) ->
    exists m, run_named m q args = o.
Hypothesis x86_codegen_correct :
  forall (p : prog) (lc : N) (cs : list xcode) (n : nat) (lc' : N) (args : list Z) (fuel : nat) (o : obs),
    x86_compile p lc = Backend.Ok (cs, n, lc') ->
    run_linear fuel p args = o -> defined o = true ->
    exists outer inner, fst (run_x86 outer inner cs args) = o.

Theorem compile_correct_focus_discharged :
  forall (p : fcprog) (c : cprog) (f : fsprog) (a : prog) (cs : list xcode) (nargs : nat) (lc lc' : N)
         (args : list Z) (n : nat) (o : obs),
    annotated_fcprog p = true -> effect_sequenced p = true -> barendregt p = true ->
    compile_prog p = Fun2Core.Ok c -> pre_check c = true -> focus_wf c = true ->
    cs_prog c = true -> static_ok c = true ->
    focus_prog c = Backend.Ok f -> shrink_prog f = SOk a -> prog_ok a = true ->
    x86_compile (linearize a) lc = Backend.Ok (cs, nargs, lc') ->
    run_fun n p args = o -> out_ok o ->
    (exists outer inner, fst (run_x86 outer inner cs args) = o) /\
    (Forall (fun pz => in_i64 (snd pz)) (fst o) ->
     bytes_of_string (render_prints (fst o)) = flat_map runtime_bytes (fst o)).
Proof.
  intros p c f a cs nargs lc lc' args n o An Es Ba Hc Hpre Hwf Hcs ST Hf Hs Hok Hx Hrun (z & Hz).
  assert (D : defined o = true) by (unfold defined; now rewrite Hz).
  assert (G : (exists z, snd o = OExit z) \/ (exists w, snd o = OUndef w)) by (left; eauto).
  split; [|apply render_prints_is_runtime_output].
  destruct (fun2core_correct p c args n o An Es Ba Hc Hrun D) as (m1 & R1).
  assert (GE : good_end (snd (run_core m1 c args))) by (rewrite R1, Hz; exact I).
  destruct (uniquify_focus_preserves_static c f args m1 Hpre Hwf Hcs ST Hf GE) as (m2 & R2).
  rewrite R1 in R2.
  destruct (shrink_correct f a m2 args o Hs R2 G) as (m3 & R3).
  destruct (linearize_preserves_stable a Hok args m3 o R3 G) as (m4 & R4).
  specialize (R4 0%nat). rewrite Nat.add_0_r in R4.
  exact (x86_codegen_correct (linearize a) lc cs nargs lc' args m4 o Hx R4 D).
Qed.
End Pipeline.
