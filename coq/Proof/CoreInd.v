(* Induction principles for the mutually recursive Core syntax (nested lists handled with Forall),
   and small list / boolean lemmas shared by the C03 proofs. *)
From Coq Require Import List ZArith NArith String Bool Lia.
From SCC Require Import Base.Sexp Lang.CoreSyn Model.Backend Model.Uniquify Model.FocusCheck.
Import ListNotations.
Open Scope list_scope.

Definition optP {X} (P : X -> Prop) (o : option X) : Prop := match o with Some x => P x | None => True end.

Section CoreInd.
  Variables (Pt : cterm -> Prop) (Pa : carg -> Prop) (Pc : cclause -> Prop) (Ps : cstmt -> Prop).
  Hypotheses
    (HXVar : forall c v t, Pt (CXVar c v t))
    (HLit : forall n, Pt (CLit n))
    (HOp : forall a o b, Pt a -> Pt b -> Pt (COp a o b))
    (HMu : forall c v s t, Ps s -> Pt (CMu c v s t))
    (HXtor : forall c x args t, Forall Pa args -> Pt (CXtor c x args t))
    (HXCase : forall c cls t, Forall Pc cls -> Pt (CXCase c cls t))
    (HProd : forall p, Pt p -> Pa (CProducer p))
    (HCons : forall k, Pt k -> Pa (CConsumer k))
    (HClause : forall c x ctx b, Ps b -> Pc (CClause c x ctx b))
    (HCut : forall p t k, Pt p -> Pt k -> Ps (CCut p t k))
    (HIfC : forall so a b t e, Pt a -> optP Pt b -> Ps t -> Ps e -> Ps (CIfC so a b t e))
    (HPrint : forall nl a next, Pt a -> Ps next -> Ps (CPrint nl a next))
    (HCall : forall f args t, Forall Pa args -> Ps (CCall f args t))
    (HExit : forall a t, Pt a -> Ps (CExit a t)).

  Fixpoint cterm_ind' (t : cterm) : Pt t :=
    match t with
    | CXVar c v ty => HXVar c v ty
    | CLit n => HLit n
    | COp a o b => HOp a o b (cterm_ind' a) (cterm_ind' b)
    | CMu c v s ty => HMu c v s ty (cstmt_ind' s)
    | CXtor c x args ty =>
        HXtor c x args ty
          ((fix go (l : list carg) : Forall Pa l :=
              match l with [] => Forall_nil _ | y :: r => Forall_cons y (carg_ind' y) (go r) end) args)
    | CXCase c cls ty =>
        HXCase c cls ty
          ((fix go (l : list cclause) : Forall Pc l :=
              match l with [] => Forall_nil _ | y :: r => Forall_cons y (cclause_ind' y) (go r) end) cls)
    end
  with carg_ind' (a : carg) : Pa a :=
    match a with
    | CProducer p => HProd p (cterm_ind' p)
    | CConsumer k => HCons k (cterm_ind' k)
    end
  with cclause_ind' (cl : cclause) : Pc cl :=
    match cl with CClause c x ctx b => HClause c x ctx b (cstmt_ind' b) end
  with cstmt_ind' (s : cstmt) : Ps s :=
    match s with
    | CCut p ty k => HCut p ty k (cterm_ind' p) (cterm_ind' k)
    | CIfC so a b t e =>
        HIfC so a b t e (cterm_ind' a)
          (match b as b0 return optP Pt b0 with
           | Some b1 => cterm_ind' b1
           | None => I
           end)
          (cstmt_ind' t) (cstmt_ind' e)
    | CPrint nl a next => HPrint nl a next (cterm_ind' a) (cstmt_ind' next)
    | CCall f args ty =>
        HCall f args ty
          ((fix go (l : list carg) : Forall Pa l :=
              match l with [] => Forall_nil _ | y :: r => Forall_cons y (carg_ind' y) (go r) end) args)
    | CExit a ty => HExit a ty (cterm_ind' a)
    end.

  Lemma core_mutind :
    (forall t, Pt t) /\ (forall a, Pa a) /\ (forall c, Pc c) /\ (forall s, Ps s).
  Proof. repeat split; [apply cterm_ind' | apply carg_ind' | apply cclause_ind' | apply cstmt_ind']. Qed.
End CoreInd.

Section FsInd.
  Variables (Pt : fsterm -> Prop) (Pc : fsclause -> Prop) (Ps : fsstmt -> Prop).
  Hypotheses
    (HXVar : forall c v t, Pt (FsXVar c v t))
    (HLit : forall n, Pt (FsLit n))
    (HOp : forall a o b, Pt (FsOp a o b))
    (HMu : forall c v s t, Ps s -> Pt (FsMu c v s t))
    (HXtor : forall c x args t, Pt (FsXtor c x args t))
    (HXCase : forall c cls t, Forall Pc cls -> Pt (FsXCase c cls t))
    (HClause : forall c x ctx b, Ps b -> Pc (FsClause c x ctx b))
    (HCut : forall p t k, Pt p -> Pt k -> Ps (FsCut p t k))
    (HIfC : forall so a b t e, Ps t -> Ps e -> Ps (FsIfC so a b t e))
    (HPrint : forall nl a next, Ps next -> Ps (FsPrint nl a next))
    (HCall : forall f args, Ps (FsCall f args))
    (HExit : forall a, Ps (FsExit a)).

  Fixpoint fsterm_ind' (t : fsterm) : Pt t :=
    match t with
    | FsXVar c v ty => HXVar c v ty
    | FsLit n => HLit n
    | FsOp a o b => HOp a o b
    | FsMu c v s ty => HMu c v s ty (fsstmt_ind' s)
    | FsXtor c x args ty => HXtor c x args ty
    | FsXCase c cls ty =>
        HXCase c cls ty
          ((fix go (l : list fsclause) : Forall Pc l :=
              match l with [] => Forall_nil _ | y :: r => Forall_cons y (fsclause_ind' y) (go r) end) cls)
    end
  with fsclause_ind' (cl : fsclause) : Pc cl :=
    match cl with FsClause c x ctx b => HClause c x ctx b (fsstmt_ind' b) end
  with fsstmt_ind' (s : fsstmt) : Ps s :=
    match s with
    | FsCut p ty k => HCut p ty k (fsterm_ind' p) (fsterm_ind' k)
    | FsIfC so a b t e => HIfC so a b t e (fsstmt_ind' t) (fsstmt_ind' e)
    | FsPrint nl a next => HPrint nl a next (fsstmt_ind' next)
    | FsCall f args => HCall f args
    | FsExit a => HExit a
    end.

  Lemma fs_mutind : (forall t, Pt t) /\ (forall c, Pc c) /\ (forall s, Ps s).
  Proof. repeat split; [apply fsterm_ind' | apply fsclause_ind' | apply fsstmt_ind']. Qed.
End FsInd.

(* ---------- booleans ---------- *)
Ltac bsplit :=
  repeat match goal with
         | H : _ && _ = true |- _ => apply andb_true_iff in H; destruct H
         | |- _ && _ = true => apply andb_true_iff; split
         end.

Lemma memN_In : forall x l, memN x l = true <-> In x l.
Proof.
  intros x l; unfold memN; rewrite existsb_exists; split.
  - intros (y & Hy & E). apply N.eqb_eq in E. subst; auto.
  - intros H; exists x; split; auto. apply N.eqb_refl.
Qed.
Lemma memN_false : forall x l, memN x l = false <-> ~ In x l.
Proof.
  intros x l. rewrite <- memN_In. destruct (memN x l); split; intros; congruence.
Qed.
Lemma nodupN_NoDup : forall l, nodupN l = true <-> NoDup l.
Proof.
  induction l as [|x l IH]; simpl.
  - split; auto using NoDup_nil.
  - rewrite andb_true_iff, negb_true_iff, memN_false, IH. split.
    + intros [A B]; constructor; auto.
    + intros H; inversion H; auto.
Qed.

Lemma NoDup_app_iff : forall (X : Type) (l1 l2 : list X),
  NoDup (l1 ++ l2) <-> NoDup l1 /\ NoDup l2 /\ (forall x, In x l1 -> In x l2 -> False).
Proof.
  induction l1 as [|a l1 IH]; simpl; intros l2.
  - split; [intros H; repeat split; auto using NoDup_nil; tauto | tauto].
  - split.
    + intros H; inversion H as [|? ? Hn Hd]; subst. apply IH in Hd. destruct Hd as (A & B & C).
      repeat split; auto.
      * constructor; auto. intro; apply Hn; apply in_or_app; auto.
      * intros x [E|Hx] Hx2; [subst; apply Hn; apply in_or_app; auto | eauto].
    + intros (A & B & C). inversion A as [|? ? Hn Hd]; subst. constructor.
      * intro Hin; apply in_app_or in Hin; destruct Hin; [auto | eapply C; eauto].
      * apply IH; repeat split; auto. intros; eapply C; eauto.
Qed.

Lemma in_nonzero : forall x l, In x (nonzero l) <-> In x l /\ x <> 0%N.
Proof.
  intros; unfold nonzero; rewrite filter_In, negb_true_iff, N.eqb_neq; tauto.
Qed.
Lemma nonzero_app : forall l1 l2, nonzero (l1 ++ l2) = nonzero l1 ++ nonzero l2.
Proof. intros; unfold nonzero; apply filter_app. Qed.

(* res monad *)
Lemma rbind_ok : forall X Y (r : res X) (f : X -> res Y) y,
  rbind r f = Ok y -> exists x, r = Ok x /\ f x = Ok y.
Proof. intros X Y [x|m] f y H; simpl in H; [eauto | discriminate]. Qed.
